/-
C14 — property theorems, part 7: WHEN `Confirmed` and `Done` are put into a client's channels.

Stated per operation of the fine language of part 6 (`FOp`, every admissible history, ordinary and
mid states), about the request record right after the notifier call and BEFORE the clients read
(`fpre`), so "x ∈ n.confirmed" / "n.done ≠ 0" is literally "this call sent the client a `Confirmed x`
/ a `Done`" (all channels were empty before the call, invariant `Chan`).

  * `conf_delivered_deep`  — every `Confirmed x` sent by ANY notifier call carries the request's
    details, these name a block of the active chain (as it is after the call) that contains the
    transaction, and the transaction has at least `numConfs` confirmations at that moment
    (`x.height + numConfs ≤ cur + 1`).  This is the clause `conf_depth` of the monitor.
  * `conf_sent_only_by`    — only RegisterConf, UpdateConfDetails and NotifyHeight send `Confirmed`.
  * `done_only_at_maturity` — `Done` is sent only by `ConnectTip(h)`, only to live clients that hold
    the confirmation, only when the confirming block is on the active chain at height
    `h - reorgSafetyLimit`; the request set is deleted in the same call (clause `done_early`).
  * `done_sent_at_maturity` — conversely, when `ConnectTip(h)` finds the request indexed at
    `h - reorgSafetyLimit`, every live client is sent `Done` in that call (clause `done_missing`).
-/
import LndModel.C14.MidProps

namespace LndModel.C14

/-- the request record after the notifier call of `op`, before the clients read their channels -/
def fpre (f : FWorld) : FOp → ConfReq
  | .register reg n hint => (f.w.r.register f.w.cur f.w.limit reg n hint).1
  | .cancel reg => f.w.r.cancel reg
  | .update d => (f.w.r.update f.w.cur f.w.limit d).1
  | .connect b => f.w.r.connect (f.w.cur + 1) f.w.limit b
  | .notify => f.w.r.notify f.w.cur
  | .untip => f.w.r.disconnect (f.w.cur - 1) (f.w.depth + 1) f.w.cur

theorem fstep_r (f : FWorld) (op : FOp) : (fstep f op).w.r = drainR (fpre f op) := by
  cases op <;> rfl

/-- the `Confirmed` and `Done` channels of every client that has not cancelled are empty -/
def Quiet2 (r : ConfReq) : Prop :=
  ∀ n ∈ r.ntfns, n.closed = false → n.confirmed = [] ∧ n.done = 0

theorem quiet2_of_chan {r : ConfReq} (h : ∀ n ∈ r.ntfns, Chan n) : Quiet2 r :=
  fun n hn hc => ⟨(h n hn hc).2.1, (h n hn hc).2.2.2⟩

/-! ### client level: which functions touch `confirmed` / `done` / `closed` -/

theorem sendUpdate_frame (n : ConfNtfn) (l h : Nat) :
    (n.sendUpdate l h).closed = n.closed ∧ (n.sendUpdate l h).confirmed = n.confirmed ∧
    (n.sendUpdate l h).done = n.done ∧ (n.sendUpdate l h).numConfs = n.numConfs ∧
    (n.sendUpdate l h).dispatched = n.dispatched := by
  unfold ConfNtfn.sendUpdate; split <;> (try split) <;> simp

/-- `dispatchConfDetails` on a client with an empty `Confirmed` channel: whatever it sends is `d`,
    and only when the confirmation height has been reached -/
theorem sendConfirmed_frame (n : ConfNtfn) (d : ConfDetails) (hc : n.confirmed = []) :
    (n.sendConfirmed d).closed = n.closed ∧ (n.sendConfirmed d).done = n.done ∧
    (n.sendConfirmed d).numConfs = n.numConfs ∧ (n.sendConfirmed d).confirmed = [d] := by
  unfold ConfNtfn.sendConfirmed; simp [hc]

theorem sendConfirmed_closed (n : ConfNtfn) (d : ConfDetails) :
    (n.sendConfirmed d).closed = n.closed := by
  unfold ConfNtfn.sendConfirmed; split <;> rfl

theorem dispatch_frame (n : ConfNtfn) (cur : Nat) (d : ConfDetails) (hc : n.confirmed = []) :
    (n.dispatch cur d).closed = n.closed ∧ (n.dispatch cur d).done = n.done ∧
    (n.dispatch cur d).numConfs = n.numConfs ∧
    ∀ x ∈ (n.dispatch cur d).confirmed, x = d ∧ d.height + n.numConfs ≤ cur + 1 := by
  unfold ConfNtfn.dispatch
  split
  · simp [hc]
  · dsimp only
    split
    · rename_i hle
      obtain ⟨f1, f2, f3, f4, _⟩ := sendUpdate_frame n 0 d.height
      obtain ⟨g1, g2, g3, g4⟩ := sendConfirmed_frame (n.sendUpdate 0 d.height) d (by rw [f2]; exact hc)
      rw [g1, g2, g3, g4, f1, f3, f4]
      refine ⟨rfl, rfl, rfl, fun x hx => ?_⟩
      simp only [List.mem_singleton] at hx
      exact ⟨hx, by omega⟩
    · obtain ⟨f1, f2, f3, f4, _⟩ := sendUpdate_frame
        { n with queuedAt := addH (d.height + n.numConfs - 1) n.queuedAt }
        (d.height + n.numConfs - 1 - cur) d.height
      rw [f1, f2, f3, f4]
      refine ⟨rfl, rfl, rfl, fun x hx => ?_⟩
      simp [hc] at hx

theorem dispatch_closed (n : ConfNtfn) (cur : Nat) (d : ConfDetails) :
    (n.dispatch cur d).closed = n.closed := by
  unfold ConfNtfn.dispatch
  split
  · rfl
  · dsimp only
    split
    · rw [sendConfirmed_closed, (sendUpdate_frame n 0 d.height).1]
    · rw [(sendUpdate_frame _ _ _).1]

theorem matured_frame (n : ConfNtfn) :
    n.matured.closed = n.closed ∧ n.matured.confirmed = n.confirmed ∧ n.matured.live = false := by
  unfold ConfNtfn.matured ConfNtfn.sendDone; split <;> simp

theorem disconnected_frame (n : ConfNtfn) (k : Nat) (hit : Bool) (h depth : Nat)
    (hc : n.confirmed = []) :
    (n.disconnected k hit h depth).closed = n.closed ∧ (n.disconnected k hit h depth).confirmed = [] ∧
    (n.disconnected k hit h depth).done = n.done := by
  unfold ConfNtfn.disconnected ConfNtfn.reorg ConfNtfn.sendNeg
  cases hit <;> simp [hc] <;> (split <;> (try split) <;> simp [hc])

/-! ### request level -/

theorem dispatchAll_deliv {cur limit : Nat} {r : ConfReq} (hq : Quiet2 r) :
    ∀ n ∈ (r.dispatchAll cur limit).ntfns, n.closed = false → n.done = 0 ∧
      ∀ x ∈ n.confirmed, (r.dispatchAll cur limit).details = some x ∧ x.height + n.numConfs ≤ cur + 1 := by
  unfold ConfReq.dispatchAll
  cases hd : r.details with
  | none =>
    intro n hn hc
    simp only at hn
    obtain ⟨a, b⟩ := hq n hn hc
    exact ⟨b, fun x hx => by simp [a] at hx⟩
  | some d =>
    intro n' hn' hc'
    simp only [List.mem_map] at hn'
    obtain ⟨n, hn, rfl⟩ := hn'
    cases hl : n.live with
    | false =>
      simp only [hl, Bool.false_eq_true, ↓reduceIte] at hc' ⊢
      obtain ⟨a, b⟩ := hq n hn hc'
      exact ⟨b, fun x hx => by simp [a] at hx⟩
    | true =>
      simp only [hl, ↓reduceIte] at hc' ⊢
      by_cases hcl : n.closed = false
      · obtain ⟨a, b⟩ := hq n hn hcl
        obtain ⟨g1, g2, g3, g4⟩ := dispatch_frame n cur d a
        refine ⟨by rw [g2]; exact b, fun x hx => ?_⟩
        obtain ⟨e1, e2⟩ := g4 x hx
        rw [g3, e1]; exact ⟨rfl, e2⟩
      · -- `dispatch` does not reopen a closed client
        have hcl' : n.closed = true := by simpa using hcl
        have : (n.dispatch cur d).closed = true := by rw [dispatch_closed]; exact hcl'
        rw [this] at hc'; cases hc'

/-- a record whose clients' channels are all empty has delivered nothing -/
theorem Quiet2.deliv {r : ConfReq} {cur : Nat} (hq : Quiet2 r) :
    ∀ n ∈ r.ntfns, n.closed = false → n.done = 0 ∧
      ∀ x ∈ n.confirmed, r.details = some x ∧ x.height + n.numConfs ≤ cur + 1 :=
  fun n hn hc => ⟨(hq n hn hc).2, fun x hx => by simp [(hq n hn hc).1] at hx⟩

theorem Quiet2.congr {r r' : ConfReq} (h : Quiet2 r) (e : r'.ntfns = r.ntfns) : Quiet2 r' := by
  unfold Quiet2; rw [e]; exact h

theorem register_deliv {cur limit reg k hint : Nat} {r : ConfReq} (hq : Quiet2 r) :
    ∀ n ∈ (r.register cur limit reg k hint).1.ntfns, n.closed = false → n.done = 0 ∧
      ∀ x ∈ n.confirmed, (r.register cur limit reg k hint).1.details = some x ∧
        x.height + n.numConfs ≤ cur + 1 := by
  have hq1 : Quiet2 (r.opened.addNtfn { reg := reg, numConfs := k, left := k }) := by
    intro n hn hc
    have hnt : (r.opened.addNtfn { reg := reg, numConfs := k, left := k }).ntfns =
        r.ntfns ++ [{ reg := reg, numConfs := k, left := k }] := by
      simp only [ConfReq.addNtfn, ConfReq.opened]; split <;> rfl
    rw [hnt] at hn
    simp only [List.mem_append, List.mem_singleton] at hn
    rcases hn with hn | rfl
    · exact hq n hn hc
    · exact ⟨rfl, rfl⟩
  unfold ConfReq.register
  generalize r.opened.addNtfn { reg := reg, numConfs := k, left := k } = r1 at hq1
  unfold ConfReq.registered
  cases r1.rescan with
  | complete => exact dispatchAll_deliv hq1
  | pending => exact hq1.deliv
  | notStarted =>
    simp only
    split
    · exact (hq1.congr (r' := { r1 with rescan := .complete }) rfl).deliv
    · exact (hq1.congr (r' := { r1 with rescan := .pending }) rfl).deliv

theorem update_deliv {cur limit : Nat} {r : ConfReq} {d : Option ConfDetails} (hq : Quiet2 r) :
    ∀ n ∈ (r.update cur limit d).1.ntfns, n.closed = false → n.done = 0 ∧
      ∀ x ∈ n.confirmed, (r.update cur limit d).1.details = some x ∧ x.height + n.numConfs ≤ cur + 1 := by
  unfold ConfReq.update
  split
  · exact hq.deliv
  · split
    · exact hq.deliv
    · cases d with
      | none => exact (hq.congr (r' := { r with rescan := .complete, hint := some cur }) rfl).deliv
      | some d =>
        simp only
        split
        · exact (hq.congr (r' := { r with rescan := .complete }) rfl).deliv
        · exact dispatchAll_deliv
            (hq.congr (r' := { r with rescan := .complete, hint := some d.height, details := some d }) rfl)

theorem cancel_quiet2 {r : ConfReq} (reg : Nat) (hq : Quiet2 r) : Quiet2 (r.cancel reg) := by
  unfold ConfReq.cancel
  split
  · exact hq
  · intro n' hn' hc'
    simp only [List.mem_map] at hn'
    obtain ⟨n, hn, rfl⟩ := hn'
    split at hc'
    · simp [ConfNtfn.cancelled] at hc'
    · rename_i hx; simp only [hx, Bool.false_eq_true, ↓reduceIte]
      exact hq n hn hc'

theorem atTip_quiet2 {r : ConfReq} (d : ConfDetails) (hq : Quiet2 r) : Quiet2 (r.atTip d) := by
  unfold ConfReq.atTip
  split
  · exact hq
  · split
    · exact hq
    · intro n' hn' hc'
      simp only [List.mem_map] at hn'
      obtain ⟨n, hn, rfl⟩ := hn'
      cases hl : n.live with
      | false => simp only [hl, Bool.false_eq_true, ↓reduceIte] at hc' ⊢; exact hq n hn hc'
      | true =>
        simp only [hl, ↓reduceIte, ConfNtfn.tipped] at hc' ⊢
        exact hq n hn hc'

theorem disconnect_quiet2 {r : ConfReq} (cur depth height : Nat) (hq : Quiet2 r) :
    Quiet2 (r.disconnect cur depth height) := by
  unfold ConfReq.disconnect
  have hu := (updateHint_fields cur height r).2.2.2.2.2.2
  generalize r.updateHint cur height = r0 at hu
  have hq0 : Quiet2 r0 := hq.congr hu
  simp only
  split
  · exact hq0
  · split
    · exact hq0.congr rfl
    · intro n' hn' hc'
      simp only [List.mem_map] at hn'
      obtain ⟨n, hn, rfl⟩ := hn'
      cases hl : n.live with
      | false => simp only [hl, Bool.false_eq_true, ↓reduceIte] at hc' ⊢; exact hq0 n hn hc'
      | true =>
        simp only [hl, ↓reduceIte] at hc' ⊢
        by_cases hcl : n.closed = false
        · obtain ⟨a, b⟩ := hq0 n hn hcl
          obtain ⟨g1, g2, g3⟩ := disconnected_frame n r0.initialAt.length
            (r0.initialAt.contains height) height depth a
          exact ⟨g2, by rw [g3]; exact b⟩
        · have hcl' : n.closed = true := by simpa using hcl
          have : (n.disconnected r0.initialAt.length (r0.initialAt.contains height) height depth).closed
              = true := by
            unfold ConfNtfn.disconnected ConfNtfn.reorg ConfNtfn.sendNeg
            cases r0.initialAt.contains height <;> simp [hcl'] <;> (split <;> (try split) <;> simp [hcl'])
          rw [this] at hc'; cases hc'

/-- the maturity clause of `ConnectTip` sends no `Confirmed`; a `Done` goes to a live client of a
    request indexed at `height - limit`, and the request set is deleted -/
theorem mature_deliv {height limit : Nat} {r : ConfReq} (hq : Quiet2 r) :
    ∀ n' ∈ (r.mature height limit).ntfns, n'.closed = false → n'.confirmed = [] ∧
      (n'.done ≠ 0 → (r.mature height limit).set = false ∧ n'.live = false ∧ r.set = true ∧
        limit ≤ height ∧ r.initialAt.contains (height - limit) = true ∧
        ∃ n ∈ r.ntfns, n.live = true ∧ n.reg = n'.reg ∧ n.dispatched = n'.dispatched) := by
  unfold ConfReq.mature
  split
  · rename_i hmat
    simp only [Bool.and_eq_true, decide_eq_true_eq] at hmat
    split
    · intro n' hn' hc'
      obtain ⟨a, b0⟩ := hq n' hn' hc'
      exact ⟨a, fun h => absurd b0 h⟩
    · rename_i hset
      intro n' hn' hc'
      simp only [List.mem_map] at hn'
      obtain ⟨n, hn, rfl⟩ := hn'
      cases hl : n.live with
      | false =>
        simp only [hl, Bool.false_eq_true, ↓reduceIte] at hc' ⊢
        obtain ⟨a, b0⟩ := hq n hn hc'
        exact ⟨a, fun h => absurd b0 h⟩
      | true =>
        simp only [hl, ↓reduceIte] at hc' ⊢
        obtain ⟨m1, m2, m3⟩ := matured_frame n
        rw [m1] at hc'
        obtain ⟨a, b0⟩ := hq n hn hc'
        refine ⟨by rw [m2]; exact a, fun _ => ⟨trivial, m3, by simpa using hset, hmat.1, hmat.2,
          n, hn, hl, ?_, ?_⟩⟩
        · unfold ConfNtfn.matured ConfNtfn.sendDone; split <;> rfl
        · unfold ConfNtfn.matured ConfNtfn.sendDone; split <;> rfl
  · intro n' hn' hc'
    obtain ⟨a, b0⟩ := hq n' hn' hc'
    exact ⟨a, fun h => absurd b0 h⟩

theorem connect_quiet_conf {cur limit : Nat} {r : ConfReq} (b : Block) (hq : Quiet2 r) :
    ∀ n' ∈ (r.connect cur limit b).ntfns, n'.closed = false → n'.confirmed = [] := by
  unfold ConfReq.connect
  rw [foldl_atTip]
  have hq1 : Quiet2 (match b.confHits r.key with
      | [] => r | i :: _ => r.atTip ⟨cur, b.id, i⟩) := by
    split
    · exact hq
    · exact atTip_quiet2 _ hq
  have hq2 := hq1.congr (updateHint_fields cur cur _).2.2.2.2.2.2
  intro n' hn' hc'
  exact (mature_deliv hq2 n' hn' hc').1

theorem updateAt_frame (n : ConfNtfn) (d : ConfDetails) (h : Nat) :
    (n.updateAt d h).closed = n.closed ∧ (n.updateAt d h).confirmed = n.confirmed ∧
    (n.updateAt d h).done = n.done := by
  unfold ConfNtfn.updateAt
  dsimp only
  split
  · simp
  · obtain ⟨f1, f2, f3, _, _⟩ := sendUpdate_frame n (d.height + n.numConfs - 1 - h) d.height
    exact ⟨f1, f2, f3⟩

theorem notifyUpdates_quiet2 {r : ConfReq} (height : Nat) (hq : Quiet2 r) :
    Quiet2 (r.notifyUpdates height) := by
  unfold ConfReq.notifyUpdates
  split
  · exact hq
  · split
    · intro n' hn' hc'
      simp only [List.mem_map] at hn'
      obtain ⟨n, hn, rfl⟩ := hn'
      cases hl : n.live with
      | false => simp only [hl, Bool.false_eq_true, ↓reduceIte] at hc' ⊢; exact hq n hn hc'
      | true =>
        simp only [hl, ↓reduceIte] at hc' ⊢
        rw [(updateAt_frame n _ _).1] at hc'
        rw [(updateAt_frame n _ _).2.1, (updateAt_frame n _ _).2.2]
        exact hq n hn hc'
    · split
      · exact hq.congr rfl
      · exact hq
    · exact hq.congr rfl

/-- `NotifyHeight(cc + 1)` from the mid state: a `Confirmed` goes only to clients queued at `cc + 1`
    that no mid-state registration has served, i.e. exactly at depth `numConfs` -/
theorem notify_deliv {cc limit maxTip cover : Nat} {chain : List Block} {r : ConfReq}
    (hp : PreM cc limit maxTip cover chain r) (hch : ∀ n ∈ r.ntfns, Chan n) :
    ∀ n' ∈ (r.notify (cc + 1)).ntfns, n'.closed = false → n'.done = 0 ∧
      ∀ x ∈ n'.confirmed, r.details = some x ∧ x.height + n'.numConfs = cc + 1 + 1 := by
  obtain ⟨g0, gd, gq⟩ := notifyUpdates_preM (height := cc + 1) hp hch
  have hq1 : Quiet2 (r.notifyUpdates (cc + 1)) := notifyUpdates_quiet2 _ (quiet2_of_chan hch)
  unfold ConfReq.notify
  generalize r.notifyUpdates (cc + 1) = r1 at g0 gd gq hq1
  simp only
  intro n' hn' hc'
  simp only [List.mem_map] at hn'
  obtain ⟨m, hm, rfl⟩ := hn'
  have quiet : ∀ m ∈ r1.ntfns, m.closed = false → m.done = 0 ∧
      ∀ x ∈ m.confirmed, r.details = some x ∧ x.height + m.numConfs = cc + 1 + 1 :=
    fun m hm hc => ⟨(hq1 m hm hc).2, fun x hx => by simp [(hq1 m hm hc).1] at hx⟩
  have key : m.closed = false → m.done = 0 ∧
      ∀ x ∈ m.confirmed, r.details = some x ∧ x.height + m.numConfs = cc + 1 + 1 := by
    unfold ConfReq.notifyDue at hm
    split at hm
    · exact quiet m hm
    · split at hm
      · rename_i d hset hdet
        split at hm
        · exact quiet m hm
        · simp only [List.mem_map] at hm
          obtain ⟨n, hn, rfl⟩ := hm
          unfold ConfNtfn.confirmAt
          split
          · rename_i hcond
            intro hc
            rw [sendConfirmed_closed] at hc
            obtain ⟨a, b⟩ := hq1 n hn hc
            obtain ⟨s1, s2, s3, s4⟩ := sendConfirmed_frame n d a
            refine ⟨by rw [s2]; exact b, fun x hx => ?_⟩
            rw [s4] at hx
            simp only [List.mem_singleton] at hx
            subst hx
            refine ⟨by rw [← gd]; exact hdet, ?_⟩
            rw [s3]
            simp only [Bool.and_eq_true, Bool.not_eq_true', List.contains_iff_mem] at hcond
            obtain ⟨hmem, hnd⟩ := hcond
            obtain ⟨⟨h1, h2, h3, h4, h5, h6⟩, _⟩ := gq n hn
            cases hl : n.live with
            | false => rw [h5 hl] at hmem; simp at hmem
            | true =>
              have := h6 hl
              rw [← gd, hdet] at this
              obtain ⟨q1, q2⟩ := this.2 hnd
              rw [q1] at hmem
              simp only [List.mem_singleton] at hmem
              omega
          · exact quiet n hn
      · exact quiet m hm
  exact key hc'

/-! ### headline theorems -/

/-- `conf_depth` for every notifier call of every admissible fine history: each `Confirmed x` put
    into the channel of a client (that has not cancelled) carries the request's details; these name
    a block of the active chain AS IT IS AFTER THE CALL that contains the transaction; and the
    transaction has at least `numConfs` confirmations at that moment. -/
theorem conf_delivered_deep {f : FWorld} {op : FOp} (h : FInv f) (hok : FOk f op) :
    ∀ n ∈ (fpre f op).ntfns, n.closed = false → ∀ x ∈ n.confirmed,
      (fstep f op).w.r.details = some x ∧ OnChain (fstep f op).w.chain f.w.r.key x ∧
      x.height + n.numConfs ≤ (fstep f op).w.cur + 1 := by
  intro n hn hc x hx
  obtain ⟨cc, _, _, _, _, _, hch⟩ := h.weak
  have hq : Quiet2 f.w.r := quiet2_of_chan hch
  have core : (fpre f op).details = some x ∧ x.height + n.numConfs ≤ (fstep f op).w.cur + 1 := by
    cases op with
    | register reg k hint => exact (register_deliv hq n hn hc).2 x hx
    | cancel reg => exact ((cancel_quiet2 reg hq).deliv n hn hc).2 x hx
    | update d => exact (update_deliv hq n hn hc).2 x hx
    | connect b => rw [connect_quiet_conf b hq n hn hc] at hx; cases hx
    | untip => exact ((disconnect_quiet2 _ _ _ hq).deliv n hn hc).2 x hx
    | notify =>
      have hm : f.mid = true := hok
      unfold FInv at h
      simp only [hm, ↓reduceIte] at h
      obtain ⟨c, hcur, hp, hch'⟩ := h
      simp only [fpre, hcur] at hn
      obtain ⟨e1, e2⟩ := (notify_deliv hp hch' n hn hc).2 x hx
      refine ⟨?_, ?_⟩
      · simp only [fpre]
        rw [(notify_fields f.w.r f.w.cur).2.2.1]; exact e1
      · show x.height + n.numConfs ≤ f.w.cur + 1
        omega
  have hinv' := fstep_inv h hok
  obtain ⟨_, _, _, _, h0', _, _⟩ := hinv'.weak
  have hdet : (fstep f op).w.r.details = some x := by rw [fstep_r]; exact core.1
  refine ⟨hdet, ?_, core.2⟩
  have := (h0'.det x hdet).1
  rw [fstep_key] at this; exact this

/-- only RegisterConf, UpdateConfDetails and NotifyHeight ever send a `Confirmed` -/
theorem conf_sent_only_by {f : FWorld} {op : FOp} (h : FInv f) :
    ∀ n ∈ (fpre f op).ntfns, n.closed = false → n.confirmed ≠ [] →
      (∃ reg k hint, op = .register reg k hint) ∨ (∃ d, op = .update d) ∨ op = .notify := by
  intro n hn hc hne
  obtain ⟨cc, _, _, _, _, _, hch⟩ := h.weak
  have hq : Quiet2 f.w.r := quiet2_of_chan hch
  cases op with
  | register reg k hint => exact Or.inl ⟨reg, k, hint, rfl⟩
  | update d => exact Or.inr (Or.inl ⟨d, rfl⟩)
  | notify => exact Or.inr (Or.inr rfl)
  | cancel reg => exact absurd (cancel_quiet2 reg hq n hn hc).1 hne
  | connect b => exact absurd (connect_quiet_conf b hq n hn hc) hne
  | untip => exact absurd (disconnect_quiet2 _ _ _ hq n hn hc).1 hne

/-- `done_early`: a `Done` is sent only by `ConnectTip`, only to a live client that holds the
    confirmation, and only when the request's transaction sits in a block of the active chain
    exactly `reorgSafetyLimit` below the new tip (so it has `limit + 1` confirmations and a reorg
    within the limit cannot remove it); the request set is deleted in the same call. -/
theorem done_only_at_maturity {f : FWorld} {op : FOp} (h : FInv f) (hok : FOk f op) :
    ∀ n' ∈ (fpre f op).ntfns, n'.closed = false → n'.done ≠ 0 →
      ∃ b, op = .connect b ∧ (fstep f op).w.r.set = false ∧ n'.live = false ∧ n'.dispatched = true ∧
        ∃ d, OnChain (fstep f op).w.chain f.w.r.key d ∧ d.height + f.w.limit = (fstep f op).w.cur := by
  intro n' hn' hc' hdone
  obtain ⟨cc, _, _, _, _, _, hch⟩ := h.weak
  have hq : Quiet2 f.w.r := quiet2_of_chan hch
  cases op with
  | register reg k hint => exact absurd (register_deliv hq n' hn' hc').1 hdone
  | cancel reg => exact absurd (cancel_quiet2 reg hq n' hn' hc').2 hdone
  | update d => exact absurd (update_deliv hq n' hn' hc').1 hdone
  | untip => exact absurd (disconnect_quiet2 _ _ _ hq n' hn' hc').2 hdone
  | notify =>
    have hm : f.mid = true := hok
    unfold FInv at h
    simp only [hm, ↓reduceIte] at h
    obtain ⟨c, hcur, hp, hch'⟩ := h
    simp only [fpre, hcur] at hn'
    exact absurd (notify_deliv hp hch' n' hn' hc').1 hdone
  | connect b =>
    have hm : f.mid = false := hok.1
    have hwi : WInv f.w := by unfold FInv at h; simpa [hm] using h
    obtain ⟨hp1, hch1⟩ := atTip_pre (b := b) hwi hok.2
    obtain ⟨hp2, hch2⟩ := updateHint_pre (c := f.w.cur + 1) (h := f.w.cur + 1) hp1 hch1
    have hq2 := quiet2_of_chan hch2
    have hn2 : n' ∈ ((ConfReq.updateHint (f.w.cur + 1) (f.w.cur + 1)
        (match b.confHits f.w.r.key with
          | [] => f.w.r
          | i :: _ => f.w.r.atTip ⟨f.w.cur + 1, b.id, i⟩)).mature (f.w.cur + 1) f.w.limit).ntfns := by
      have : fpre f (.connect b) = _ := rfl
      simp only [fpre, ConfReq.connect] at hn'
      rw [foldl_atTip] at hn'
      exact hn'
    obtain ⟨_, hd⟩ := mature_deliv hq2 n' hn2 hc'
    obtain ⟨e1, e2, e3, e4, e5, n, hn, hl, _, e7⟩ := hd hdone
    refine ⟨b, rfl, ?_, e2, ?_, ?_⟩
    · show (drainR (f.w.r.connect (f.w.cur + 1) f.w.limit b)).set = false
      simp only [drainR, ConfReq.connect]
      rw [foldl_atTip]
      exact e1
    · obtain ⟨h0, hcl⟩ := hp2
      generalize (ConfReq.updateHint (f.w.cur + 1) (f.w.cur + 1)
        (match b.confHits f.w.r.key with
          | [] => f.w.r
          | i :: _ => f.w.r.atTip ⟨f.w.cur + 1, b.id, i⟩)) = r2 at h0 hcl e3 e5 hn
      cases hdet : r2.details with
      | none => rw [h0.nodet hdet] at e5; simp at e5
      | some d =>
        obtain ⟨hon, _, hini⟩ := h0.det d hdet
        have hc := hcl n hn
        rw [hdet] at hc
        have hdh : d.height = f.w.cur + 1 - f.w.limit := by
          rcases hini with c | ⟨c, _⟩
          · rw [c] at e5
            have : f.w.cur + 1 - f.w.limit = d.height := by simpa using e5
            omega
          · rw [c] at e5; simp at e5
        rw [← e7]
        exact (mature_dispatched hc hl (by omega)).1
    · obtain ⟨h0, hcl⟩ := hp2
      have hk : (ConfReq.updateHint (f.w.cur + 1) (f.w.cur + 1)
        (match b.confHits f.w.r.key with
          | [] => f.w.r
          | i :: _ => f.w.r.atTip ⟨f.w.cur + 1, b.id, i⟩)).key = f.w.r.key := by
        rw [(updateHint_fields _ _ _).1]
        split
        · rfl
        · exact atTip_key _ _
      generalize (ConfReq.updateHint (f.w.cur + 1) (f.w.cur + 1)
        (match b.confHits f.w.r.key with
          | [] => f.w.r
          | i :: _ => f.w.r.atTip ⟨f.w.cur + 1, b.id, i⟩)) = r2 at h0 hcl e3 e5 hn hk
      cases hdet : r2.details with
      | none => rw [h0.nodet hdet] at e5; simp at e5
      | some d =>
        obtain ⟨hon, _, hini⟩ := h0.det d hdet
        have hdh : d.height = f.w.cur + 1 - f.w.limit := by
          rcases hini with c | ⟨c, _⟩
          · rw [c] at e5
            have : f.w.cur + 1 - f.w.limit = d.height := by simpa using e5
            omega
          · rw [c] at e5; simp at e5
        refine ⟨d, ?_, ?_⟩
        · show OnChain (f.w.chain ++ [b]) f.w.r.key d
          rw [← hk]; exact hon
        · show d.height + f.w.limit = f.w.cur + 1
          omega

theorem atTip_known {r : ConfReq} {d : ConfDetails} (hd : r.details = some d) (x : ConfDetails) :
    r.atTip x = r := by
  unfold ConfReq.atTip
  split
  · rfl
  · split
    · rfl
    · rename_i hn; simp [hd] at hn

/-- `done_missing`: when `ConnectTip` reaches `height + reorgSafetyLimit` for a request that knows
    its confirming block at `height` and is still indexed there (i.e. the block was within reorg
    reach when the details were dispatched), EVERY live client is sent `Done` in that call and the
    request set is deleted. -/
theorem done_sent_at_maturity {f : FWorld} {b : Block} (h : FInv f) (hok : FOk f (.connect b))
    {d : ConfDetails} (hdet : f.w.r.details = some d) (hidx : f.w.r.initialAt = [d.height])
    (hmat : d.height + f.w.limit = f.w.cur + 1) :
    (fpre f (.connect b)).set = false ∧
    ∀ n ∈ f.w.r.ntfns, n.live = true →
      ∃ n' ∈ (fpre f (.connect b)).ntfns, n'.reg = n.reg ∧ n'.done = 1 ∧ n'.live = false ∧
        n'.closed = false := by
  have hm : f.mid = false := hok.1
  have hwi : WInv f.w := by unfold FInv at h; simpa [hm] using h
  obtain ⟨⟨h0, hcl⟩, hch⟩ := hwi
  have hset : f.w.r.set = true := by
    cases hs : f.w.r.set with
    | true => rfl
    | false => have := (h0.unset hs).1; rw [hdet] at this; cases this
  have hr1 : (b.confHits f.w.r.key).foldl (fun r i => r.atTip ⟨f.w.cur + 1, b.id, i⟩) f.w.r = f.w.r := by
    rw [foldl_atTip]
    split
    · rfl
    · exact atTip_known hdet _
  obtain ⟨u1, u2, u3, u4, u5, u6, u7⟩ := updateHint_fields (f.w.cur + 1) (f.w.cur + 1) f.w.r
  simp only [fpre, ConfReq.connect]
  rw [hr1]
  generalize f.w.r.updateHint (f.w.cur + 1) (f.w.cur + 1) = r2 at u1 u2 u3 u4 u5 u6 u7
  have hfire : (decide (f.w.cur + 1 ≥ f.w.limit) && r2.initialAt.contains (f.w.cur + 1 - f.w.limit)) = true := by
    rw [u4, hidx]
    have : f.w.cur + 1 - f.w.limit = d.height := by omega
    simp [this]; omega
  have hs2 : (!r2.set) = false := by rw [u2, hset]; rfl
  unfold ConfReq.mature
  simp only [hfire, hs2, ↓reduceIte, Bool.false_eq_true]
  refine ⟨trivial, fun n hn hl => ?_⟩
  have hclosed : n.closed = false := (hcl n hn).2.2.2.1 hl
  have hdone : n.done = 0 := (hch n hn hclosed).2.2.2
  refine ⟨n.matured, ?_, ?_, ?_, ?_, ?_⟩
  · simp only [List.mem_map]
    exact ⟨n, by rw [u7]; exact hn, by simp [hl]⟩
  · unfold ConfNtfn.matured ConfNtfn.sendDone; split <;> rfl
  · unfold ConfNtfn.matured ConfNtfn.sendDone; simp [hdone]
  · exact (matured_frame n).2.2
  · rw [(matured_frame n).1]; exact hclosed

/-! ### concrete instances (non-vacuity) -/

/-- the mid-state registration of `midDemoOps` (client 1, after `connect 12`) sends `Confirmed` to
    BOTH clients — client 0, queued at height 3 with 2 confirmations required, is served by the
    registration of client 1, at depth exactly 2 -/
example :
    let f := (midDemoOps.take 5).foldl fstep (FWorld.init 7 4 demoChain0)
    f.mid = true ∧ f.w.cur = 3 ∧
    (fpre f (.register 1 1 1)).ntfns.map (fun n => (n.reg, n.numConfs, n.confirmed)) =
      [(0, 2, [⟨2, 11, 0⟩]), (1, 1, [⟨2, 11, 0⟩])] := by decide

/-- ... and the following `NotifyHeight(3)` sends nothing more -/
example :
    let f := (midDemoOps.take 6).foldl fstep (FWorld.init 7 4 demoChain0)
    (fpre f .notify).ntfns.map (fun n => (n.reg, n.confirmed, n.queuedAt)) =
      [(0, [], []), (1, [], [])] := by decide

/-- tx 7 mined at height 2, reorg safety limit 4: `Done` is sent by `ConnectTip(6)` -/
def doneDemoOps : List FOp :=
  [.register 0 1 1, .update none, .connect ⟨11, [⟨7, []⟩]⟩, .notify,
   .connect ⟨12, []⟩, .notify, .connect ⟨13, []⟩, .notify, .connect ⟨14, []⟩, .notify]

theorem doneDemo_ok : FOkRun (FWorld.init 7 4 demoChain0) (doneDemoOps ++ [.connect ⟨15, []⟩]) :=
  fokRunb_sound (by decide)

example :
    let f := doneDemoOps.foldl fstep (FWorld.init 7 4 demoChain0)
    f.w.cur = 5 ∧
    (fpre f (.connect ⟨15, []⟩)).ntfns.map (fun n => (n.reg, n.done, n.live, n.dispatched)) =
      [(0, 1, false, true)] ∧ (fpre f (.connect ⟨15, []⟩)).set = false := by decide

end LndModel.C14
