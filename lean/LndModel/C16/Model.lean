/-
C16 — model of lnd's outgoing-payment store (`payments/db`): `payment_status.go`
(`decidePaymentStatus`, `initializable/updatable/removable`), `payment.go`
(`SentAmt`, `InFlightHTLCs`, `Registrable`, `setState`, `verifyAttempt`) and the
`paymentsdb.DB` operations of `kv_store.go` (KVStore) and `sql_store.go`
(SQLStore): InitPayment, RegisterAttempt, SettleAttempt, FailAttempt, Fail,
DeletePayment, DeleteFailedAttempts, FetchPayment, FetchInFlightPayments.

Hand-written; tied to the code by the behavioural correspondence check
(harness/overlay/payments/db/zz_c16_verif_test.go → drv_c16) which replays every
harness operation on `step` and compares the error enum and the canonical
payment dump, once against the real KVStore (`Backend.kv`) and once against the
real SQLStore on sqlite (`Backend.sql`).

The two backends do NOT answer every history identically (see
checks/C16.notes.md); the places where they differ are the `match b with`
sites of `step` below:
  * error identity for unknown payments / re-resolved attempts,
  * attempt ids: per payment in the KV store (a re-registered id silently
    overwrites the stored attempt), global and unique in the SQL store (a
    re-used id is rejected; Settle/FailAttempt address the attempt by id only).

Amounts are unbounded `Nat` (lnwire.MilliSatoshi is uint64; the model is
faithful for amounts < 2^63, i.e. no uint64 / int64 wrap; the total supply is
< 2^61 msat).
-/
namespace LndModel.C16

inductive Backend | kv | sql
  deriving DecidableEq, Repr

/-- Result enum: the sentinel errors of `payments/db/errors.go` that the nine
    operations can return; `other` = any non-sentinel error (bucket / SQL
    constraint errors, `sql.ErrNoRows`). -/
inductive Err
  | ok
  | alreadyPaid | paymentInFlight | paymentExists | notInitiated
  | alreadySucceeded | alreadyFailed
  | attemptAlreadySettled | attemptAlreadyFailed
  | valueMismatch | valueExceedsAmt
  | nonMPPayment | mppayment | mppRecordInBlinded | blindedTotalMismatch
  | mixedBlinded | blindedMissingTotal | mppAddrMismatch | mppTotalMismatch
  | pendingSettled | pendingFailed
  | other
  deriving DecidableEq, Repr

/-- `PaymentStatus` (1..4). -/
inductive Status | initiated | inFlight | succeeded | failed
  deriving DecidableEq, Repr

/-- Outcome of an HTLC attempt: no Settle/Failure, `Settle != nil`, `Failure != nil`. -/
inductive AState | inflight | settled | failed
  deriving DecidableEq, Repr

/-- What `verifyAttempt` reads from `attempt.Route.FinalHop()`. -/
structure Shape where
  /-- `len(EncryptedData) != 0` -/
  blinded : Bool
  /-- `TotalAmtMsat` -/
  btotal : Nat
  /-- MPP record: (payment address tag, total msat) -/
  mpp : Option (Nat × Nat)
  deriving DecidableEq, Repr

structure Attempt where
  id : Nat
  /-- `Route.ReceiverAmt()` -/
  amt : Nat
  /-- `Route.TotalFees()` -/
  fee : Nat
  shape : Shape
  st : AState
  deriving DecidableEq, Repr

/-- The `MPPayment` a fetch builds: creation value, HTLCs, failure reason. -/
structure Payment where
  value : Nat
  attempts : List Attempt
  reason : Option Nat
  deriving DecidableEq, Repr

/-! ### payment_status.go / payment.go (pure functions) -/

def hasInflight (as : List Attempt) : Bool := as.any (fun a => a.st == .inflight)
def hasSettled (as : List Attempt) : Bool := as.any (fun a => a.st == .settled)
def hasFailed (as : List Attempt) : Bool := as.any (fun a => a.st == .failed)

/-- The flag loop of `decidePaymentStatus` (inflight, settled, failed). -/
def scanFlags : List Attempt → Bool × Bool × Bool → Bool × Bool × Bool
  | [], f => f
  | a :: as, (i, s, f) =>
    match a.st with
    | .failed => scanFlags as (i, s, true)
    | .settled => scanFlags as (i, true, f)
    | .inflight => scanFlags as (true, s, f)

/-- The `switch` of `decidePaymentStatus`. -/
def statusOfFlags (inflight settled htlcFailed paymentFailed : Bool) : Status :=
  if inflight then .inFlight
  else if settled then .succeeded
  else if paymentFailed then .failed
  else if htlcFailed then .inFlight
  else .initiated

/-- `decidePaymentStatus(htlcs, reason)` as the code computes it. -/
def decideStatus (as : List Attempt) (reason : Option Nat) : Status :=
  let (i, s, f) := scanFlags as (false, false, false)
  statusOfFlags i s f reason.isSome

/-- The documented 16-row table of `decidePaymentStatus`. -/
def statusTable : Bool → Bool → Bool → Bool → Status
  | true, _, _, _ => .inFlight
  | false, true, _, _ => .succeeded
  | false, false, true, true => .failed
  | false, false, true, false => .inFlight
  | false, false, false, true => .failed
  | false, false, false, false => .initiated

def Payment.status (p : Payment) : Status := decideStatus p.attempts p.reason

/-- `SentAmt()`: receiver amounts of the attempts that are not failed. -/
def sentL : List Attempt → Nat
  | [] => 0
  | a :: as => (if a.st = .failed then 0 else a.amt) + sentL as

def feesL : List Attempt → Nat
  | [] => 0
  | a :: as => (if a.st = .failed then 0 else a.fee) + feesL as

/-- `InFlightHTLCs()`. -/
def inflightL (as : List Attempt) : List Attempt := as.filter (fun a => a.st == .inflight)

def Payment.sent (p : Payment) : Nat := sentL p.attempts

/-- `MPPaymentState` as built by `setState`. -/
def Payment.remaining (p : Payment) : Nat := p.value - p.sent
def Payment.numInFlight (p : Payment) : Nat := (inflightL p.attempts).length
def Payment.feesPaid (p : Payment) : Nat := feesL p.attempts
def Payment.hasSettledHTLC (p : Payment) : Bool := hasSettled p.attempts
/-- `PaymentFailed`: `TerminalInfo` returns the failure reason only without a settle. -/
def Payment.paymentFailed (p : Payment) : Bool := !hasSettled p.attempts && p.reason.isSome

/-- `PaymentStatus.initializable`. -/
def initializable : Status → Err
  | .initiated => .paymentExists
  | .inFlight => .paymentInFlight
  | .succeeded => .alreadyPaid
  | .failed => .ok

/-- `PaymentStatus.updatable`. -/
def updatable : Status → Err
  | .initiated => .ok
  | .inFlight => .ok
  | .succeeded => .alreadySucceeded
  | .failed => .alreadyFailed

/-- `PaymentStatus.removable`. -/
def removable : Status → Err
  | .inFlight => .paymentInFlight
  | _ => .ok

/-- `MPPayment.Registrable`. -/
def Payment.registrable (p : Payment) : Err :=
  match updatable p.status with
  | .ok =>
    if p.status ≠ .inFlight then .ok
    else if p.hasSettledHTLC then .pendingSettled
    else if p.paymentFailed then .pendingFailed
    else .ok
  | e => e

/-- The loop of `verifyAttempt` over the in-flight HTLCs. -/
def verifyLoop (a : Shape) : List Attempt → Err
  | [] => .ok
  | h :: hs =>
    if a.blinded && h.shape.mpp.isSome then .mppRecordInBlinded
    else if a.blinded != h.shape.blinded then .mixedBlinded
    else if a.blinded then
      if a.btotal != h.shape.btotal then .blindedTotalMismatch else verifyLoop a hs
    else
      match a.mpp, h.shape.mpp with
      | none, some _ => .mppayment
      | some _, none => .nonMPPayment
      | none, none => verifyLoop a hs
      | some m, some hm =>
        if m.1 != hm.1 then .mppAddrMismatch
        else if m.2 != hm.2 then .mppTotalMismatch
        else verifyLoop a hs

/-- `verifyAttempt(payment, attempt)`. -/
def verifyAttempt (p : Payment) (a : Attempt) : Err :=
  if a.shape.blinded && a.shape.btotal == 0 then .blindedMissingTotal
  else if a.shape.blinded && a.shape.mpp.isSome then .mppRecordInBlinded
  else
    match verifyLoop a.shape (inflightL p.attempts) with
    | .ok =>
      if !a.shape.blinded && a.shape.mpp.isNone && a.amt != p.value then .valueMismatch
      else if p.sent + a.amt > p.value then .valueExceedsAmt
      else .ok
    | e => e

/-- `MPPayment.Terminated()` negated: what `FetchInFlightPayments` returns. -/
def Payment.nonTerminal (p : Payment) : Bool := updatable p.status == .ok

/-! ### the store

One table of payment rows and one table of attempt rows tagged with the owning
payment hash: literally the SQL schema; for the KV store the owner tag is the
payment bucket the attempt keys live in. -/

structure Info where
  value : Nat
  reason : Option Nat
  deriving DecidableEq, Repr

structure Row where
  owner : Nat
  a : Attempt
  deriving DecidableEq, Repr

structure Store where
  info : Nat → Option Info
  rows : List Row

def Store.empty : Store := ⟨fun _ => none, []⟩

def Store.attemptsOf (s : Store) (h : Nat) : List Attempt :=
  (s.rows.filter (fun r => r.owner == h)).map (·.a)

/-- What `FetchPayment(h)` reads. -/
def Store.payment? (s : Store) (h : Nat) : Option Payment :=
  match s.info h with
  | none => none
  | some i => some ⟨i.value, s.attemptsOf h, i.reason⟩

def Store.setInfo (s : Store) (h : Nat) (i : Option Info) : Store :=
  { s with info := fun k => if k = h then i else s.info k }

/-- Apply an owner-indexed transformer to every attempt row. -/
def Store.mapRows (s : Store) (g : Nat → Attempt → Attempt) : Store :=
  { s with rows := s.rows.map (fun r => ⟨r.owner, g r.owner r.a⟩) }

def Store.filterRows (s : Store) (keep : Nat → Attempt → Bool) : Store :=
  { s with rows := s.rows.filter (fun r => keep r.owner r.a) }

def Store.addRow (s : Store) (h : Nat) (a : Attempt) : Store :=
  { s with rows := s.rows ++ [⟨h, a⟩] }

/-- Replace the first element satisfying `q` by `f` of it. -/
def replaceFirst {α : Type} (q : α → Bool) (f : α → α) : List α → List α
  | [] => []
  | x :: xs => if q x then f x :: xs else x :: replaceFirst q f xs

/-- KV `htlcsBucket.Put(attemptInfoKey ++ id, …)` on an existing id: the attempt info is
    replaced, the settle / fail keys (the outcome) stay. -/
def overwriteWith (a : Attempt) (x : Attempt) : Attempt := { a with st := x.st }

def Store.overwriteRow (s : Store) (h : Nat) (a : Attempt) : Store :=
  { s with rows := (replaceFirst (fun r => r.owner == h && r.a.id == a.id)
      (fun r => ⟨r.owner, overwriteWith a r.a⟩) s.rows) }

/-- Mark the in-flight attempts with id `id` as `st`. -/
def resolveA (id : Nat) (st : AState) (x : Attempt) : Attempt :=
  if x.id == id && x.st == .inflight then { x with st := st } else x

inductive Op
  | init (h v : Nat)
  /-- `RegisterAttempt`; `a.st` is ignored (a new attempt is in flight). -/
  | reg (h : Nat) (a : Attempt)
  | settle (h id : Nat)
  | failAtt (h id : Nat)
  | fail (h r : Nat)
  | del (h : Nat)
  | delFailed (h : Nat)
  | fetch (h : Nat)
  /-- bulk `DeletePayments(failedOnly, failedHtlcsOnly)`. -/
  | delAll (failedOnly failedHtlcsOnly : Bool)
  deriving Repr

/-- An answer: the error enum and, for the operations that return an `MPPayment`, the payment. -/
abbrev Res := Err × Option Payment

def unknownOnWrite : Backend → Err
  | .kv => .other            -- DeletePayment: "non bucket element in payments bucket"
  | .sql => .notInitiated    -- fetchPaymentByHash

def unknownOnRegister : Backend → Err
  | .kv => .notInitiated     -- fetchPaymentBucketUpdate
  | .sql => .other           -- sql.ErrNoRows is returned unmapped

/-- `updateHtlcKey` (KV) / `SettleAttempt`,`FailAttempt` (SQL). -/
def resolve (b : Backend) (s : Store) (h id : Nat) (st : AState) : Store × Res :=
  match s.payment? h with
  | none => (s, .notInitiated, none)
  | some p =>
    match updatable p.status with
    | .ok =>
      match b with
      | .kv =>
        match p.attempts.find? (fun x => x.id == id) with
        | none => (s, .other, none)                       -- "HTLC with ID not registered"
        | some x =>
          match x.st with
          | .failed => (s, .attemptAlreadyFailed, none)
          | .settled => (s, .attemptAlreadySettled, none)
          | .inflight =>
            let s' := s.mapRows (fun o x => if o == h then resolveA id st x else x)
            (s', .ok, s'.payment? h)
      | .sql =>
        -- INSERT INTO payment_htlc_attempt_resolutions(attempt_index, …): the attempt is
        -- addressed by its global index only.
        match s.rows.find? (fun r => r.a.id == id) with
        | none => (s, .other, none)                       -- foreign-key violation
        | some r =>
          if r.a.st != .inflight then (s, .other, none)   -- primary-key violation
          else
            let s' := s.mapRows (fun _ x => resolveA id st x)
            (s', .ok, s'.payment? h)
    | e => (s, e, none)

/-- `DeletePayments` skips a payment that is not `removable` (in flight) and, with
    `failedOnly`, every payment whose status is not failed. -/
def bulkSkip (failedOnly : Bool) (p : Payment) : Bool :=
  p.status == .inFlight || (failedOnly && p.status != .failed)

/-- the payments `DeletePayments(failedOnly, …)` acts on. -/
def Store.bulkHit (s : Store) (failedOnly : Bool) (k : Nat) : Bool :=
  match s.payment? k with
  | some p => !bulkSkip failedOnly p
  | none => false

/-- drop the payment rows selected by `hit`. -/
def Store.dropInfo (s : Store) (hit : Nat → Bool) : Store :=
  { s with info := fun k => if hit k then none else s.info k }

/-- `InitPayment`: a payment may be (re-)created when it is unknown or `initializable`. -/
def initGate (s : Store) (h : Nat) : Err :=
  match s.payment? h with
  | none => .ok
  | some p => initializable p.status

def step (b : Backend) (s : Store) : Op → Store × Res
  | .init h v =>
    match initGate s h with
    | .ok =>
      -- new payment, or re-init of a failed one: lingering HTLCs and the failure reason are
      -- deleted (KV: DeleteNestedBucket(htlcs) + Delete(fail info); SQL: cascading delete).
      ((s.filterRows (fun o _ => o != h)).setInfo h (some ⟨v, none⟩), .ok, none)
    | e => (s, e, none)
  | .reg h a0 =>
    let a : Attempt := { a0 with st := .inflight }
    match s.payment? h with
    | none => (s, unknownOnRegister b, none)
    | some p =>
      match p.registrable with
      | .ok =>
        match verifyAttempt p a with
        | .ok =>
          match b with
          | .kv =>
            if p.attempts.any (fun x => x.id == a.id) then
              let s' := s.overwriteRow h a
              (s', .ok, s'.payment? h)
            else
              let s' := s.addRow h a
              (s', .ok, s'.payment? h)
          | .sql =>
            if s.rows.any (fun r => r.a.id == a.id) then (s, .other, none)  -- UNIQUE(attempt_index)
            else
              let s' := s.addRow h a
              (s', .ok, s'.payment? h)
        | e => (s, e, none)
      | e => (s, e, none)
  | .settle h id => resolve b s h id .settled
  | .failAtt h id => resolve b s h id .failed
  | .fail h r =>
    match s.info h with
    | none => (s, .notInitiated, none)
    | some i =>
      let s' := s.setInfo h (some { i with reason := some r })
      (s', .ok, s'.payment? h)
  | .del h =>
    match s.payment? h with
    | none => (s, unknownOnWrite b, none)
    | some p =>
      match removable p.status with
      | .ok => ((s.filterRows (fun o _ => o != h)).setInfo h none, .ok, none)
      | e => (s, e, none)
  | .delFailed h =>
    match s.payment? h with
    | none => (s, unknownOnWrite b, none)
    | some p =>
      match removable p.status with
      | .ok => (s.filterRows (fun o x => !(o == h && x.st == .failed)), .ok, none)
      | e => (s, e, none)
  | .fetch h =>
    match s.payment? h with
    | none => (s, .notInitiated, none)
    | some p => (s, .ok, some p)
  | .delAll fo fho =>
    -- both backends: for every payment that is not skipped, delete its failed attempts
    -- (failedHtlcsOnly) or the whole payment (the returned count is `Store.bulkCount`).
    if fho then (s.filterRows (fun o x => !(s.bulkHit fo o && x.st == .failed)), .ok, none)
    else ((s.filterRows (fun o _ => !s.bulkHit fo o)).dropInfo (s.bulkHit fo), .ok, none)

/-- Run an operation list, collecting the answers. -/
def run (b : Backend) : Store → List Op → Store × List Res
  | s, [] => (s, [])
  | s, op :: ops =>
    let (s1, r) := step b s op
    let (s2, rs) := run b s1 ops
    (s2, r :: rs)

/-- Final store only. -/
def exec (b : Backend) (s : Store) (ops : List Op) : Store :=
  ops.foldl (fun s op => (step b s op).1) s

/-- `FetchInFlightPayments` restricted to the hash universe `hs`. -/
def Store.inFlightSet (s : Store) (hs : List Nat) : List Nat :=
  hs.filter (fun h => match s.payment? h with
    | some p => p.nonTerminal
    | none => false)

/-- The caller contract under which the two backends are meant to agree: a registration uses an
    attempt id that no stored attempt (of any payment) has, and Settle/FailAttempt name an id
    that is not an attempt of a different payment. -/
def opOk (s : Store) : Op → Bool
  | .reg _ a => s.rows.all (fun r => r.a.id != a.id)
  | .settle h id => s.rows.all (fun r => r.a.id != id || r.owner == h)
  | .failAtt h id => s.rows.all (fun r => r.a.id != id || r.owner == h)
  | _ => true

/-! ### ghost ledger of ADMITTED attempts

Not part of the store: a ghost list with one row per registration the store answered `ok`
(the HTLC the router will then send), carrying its later resolution.  Unlike the stored rows it
is never overwritten: a second admitted registration with the same id is a second row.  A
successful Settle/FailAttempt resolves the in-flight ledger rows the call addresses (same
addressing as the store: `(hash, id)` for the KV store, `id` alone for the SQL store); (re-)init
and deletions drop ledger rows exactly like stored rows. -/

def resolveRows (b : Backend) (h id : Nat) (st : AState) (L : List Row) : List Row :=
  match b with
  | .kv => L.map (fun r => ⟨r.owner, if r.owner == h then resolveA id st r.a else r.a⟩)
  | .sql => L.map (fun r => ⟨r.owner, resolveA id st r.a⟩)

def ledgerStep (b : Backend) (s : Store) (op : Op) (ok : Bool) (L : List Row) : List Row :=
  if !ok then L else
  match op with
  | .init h _ => L.filter (fun r => r.owner != h)
  | .reg h a => L ++ [⟨h, { a with st := .inflight }⟩]
  | .settle h id => resolveRows b h id .settled L
  | .failAtt h id => resolveRows b h id .failed L
  | .fail _ _ => L
  | .del h => L.filter (fun r => r.owner != h)
  | .delFailed h => L.filter (fun r => !(r.owner == h && r.a.st == .failed))
  | .fetch _ => L
  | .delAll fo fho =>
    if fho then L.filter (fun r => !(s.bulkHit fo r.owner && r.a.st == .failed))
    else L.filter (fun r => !s.bulkHit fo r.owner)

/-- store + ghost ledger. -/
abbrev GState := Store × List Row

def gstep (b : Backend) (g : GState) (op : Op) : GState :=
  let r := step b g.1 op
  (r.1, ledgerStep b g.1 op (r.2.1 == .ok) g.2)

def gexec (b : Backend) (g : GState) (ops : List Op) : GState := ops.foldl (gstep b) g

/-- Σ of the admitted settled + in-flight amounts of payment `h`. -/
def admittedSent (L : List Row) (h : Nat) : Nat :=
  sentL ((L.filter (fun r => r.owner == h)).map (·.a))

/-- attempt-id freshness per payment (what the switch's persistent sequencer guarantees, and
    more): a registration never uses an id the payment already stores. -/
def regFresh (s : Store) : Op → Bool
  | .reg h a => !(s.attemptsOf h).any (fun x => x.id == a.id)
  | _ => true

def freshRun (b : Backend) (s : Store) : List Op → Bool
  | [] => true
  | op :: ops => regFresh s op && freshRun b (step b s op).1 ops

/-- the count `DeletePayments` returns, over the hash universe `hs`. -/
def Store.bulkCount (s : Store) (fo fho : Bool) (hs : List Nat) : Nat :=
  if fho then 0 else (hs.filter (s.bulkHit fo)).length

/-- `QueryPayments` (all payments, or only succeeded ones without `IncludeIncomplete`)
    restricted to the hash universe `hs`: hash and status. -/
def Store.listing (s : Store) (incl : Bool) (hs : List Nat) : List (Nat × Status) :=
  hs.filterMap (fun h => match s.payment? h with
    | some p => if incl || p.status == .succeeded then some (h, p.status) else none
    | none => none)

end LndModel.C16
