/-
C16 — round-5 theorems, part 4: listing / pagination (`QueryPayments`) and the creation order.
-/
import LndModel.C16.Props4

set_option linter.unusedSimpArgs false
set_option linter.unusedVariables false

namespace LndModel.C16

/-- every listed entry is an existing payment of the range with exactly that status, and without
    `IncludeIncomplete` only succeeded payments are listed. -/
theorem listed_sound (s : Store) (incl : Bool) (o : List Nat) (h : Nat) (st : Status)
    (hm : (h, st) ∈ s.listed incl o) :
    h ∈ o ∧ ∃ p, s.payment? h = some p ∧ p.status = st ∧ (incl = true ∨ st = .succeeded) := by
  simp only [Store.listed, List.mem_filterMap] at hm
  obtain ⟨k, hk, hv⟩ := hm
  cases hp : s.payment? k with
  | none => simp [hp] at hv
  | some p =>
    simp only [hp] at hv
    split at hv
    · rename_i hc
      cases hv
      refine ⟨hk, p, hp, rfl, ?_⟩
      simp only [Bool.or_eq_true, beq_iff_eq] at hc
      exact hc
    · cases hv

/-- every existing payment of the range that qualifies is listed (nothing is skipped). -/
theorem listed_complete (s : Store) (incl : Bool) (o : List Nat) (h : Nat) (p : Payment)
    (ho : h ∈ o) (hp : s.payment? h = some p) (hq : incl = true ∨ p.status = .succeeded) :
    (h, p.status) ∈ s.listed incl o := by
  simp only [Store.listed, List.mem_filterMap]
  refine ⟨h, ho, ?_⟩
  simp only [hp]
  have : (incl || p.status == .succeeded) = true := by
    rcases hq with h1 | h1 <;> simp [h1]
  simp [this]

/-- a page never has more than `MaxPayments` entries and is a contiguous part of the listing of
    its range: a prefix (forward) or a suffix (reversed). -/
theorem page_bound (s : Store) (o : List Nat) (incl rev : Bool) (c : Option Nat) (m : Nat) :
    (s.page o incl rev c m).length ≤ m ∧
    (rev = false → s.page o incl rev c m <+: s.listed incl (afterCursor c o)) ∧
    (rev = true → s.page o incl rev c m <:+ s.listed incl (beforeCursor c o)) := by
  cases rev with
  | false =>
    refine ⟨?_, fun _ => ?_, fun h => absurd h (by decide)⟩
    · simp only [Store.page, Bool.false_eq_true, if_false, List.length_take]; exact Nat.min_le_left _ _
    · simp only [Store.page, Bool.false_eq_true, if_false]; exact List.take_prefix _ _
  | true =>
    refine ⟨?_, fun h => absurd h (by decide), fun _ => ?_⟩
    · simp only [Store.page, if_true, List.length_drop]; omega
    · simp only [Store.page, if_true]; exact List.drop_suffix _ _

/-- forward pagination loses nothing: a page followed by the rest of the listing after it is the
    whole listing of the range (what a client that continues from `LastIndexOffset` relies on). -/
theorem page_forward_rest (s : Store) (o : List Nat) (incl : Bool) (c : Option Nat) (m : Nat) :
    s.page o incl false c m ++ (s.listed incl (afterCursor c o)).drop m =
      s.listed incl (afterCursor c o) := by
  simp only [Store.page, Bool.false_eq_true, if_false, List.take_append_drop]

example : (exec .kv Store.empty sampleOps).page [0, 1] true false none 1 = [(0, .succeeded)] := by decide
example : (exec .kv Store.empty sampleOps).page [0, 1] true true none 1 = [(1, .initiated)] := by decide
example : (exec .kv Store.empty sampleOps).page [0, 1] false true (some 1) 3 = [(0, .succeeded)] := by decide

end LndModel.C16
