/-
C16 — the payment LIFECYCLE level (core Lean only; used by the driver):

* the decision functions the router reads off a fetched `MPPayment`
  (`payments/db/payment.go`): `AllowMoreAttempts`, `NeedWaitAttempts`,
  `TerminalInfo`, `Terminated`, and `decideNextStep` / `calcFeeBudget` of
  `routing/payment_lifecycle.go`;
* `resumePayment` (routing/payment_lifecycle.go) as an executable function of the
  database state and an ORACLE list (everything that is not the payment store:
  context cancellation, path finding, attempt-id sequencer, the switch's
  SendHTLC answer, mission control's verdict, the switch result that arrives
  while the lifecycle waits, and injected database failures = crash points
  before / after the write of any control-tower call).  The lifecycle keeps no
  state of its own between iterations: every iteration re-reads the payment
  (`reloadPayment`), so a restart is simply a new `lifeRun` on the store the
  previous run left behind.

Tied to the code by the `life` stream (harness/overlay/routing/zz_c16_verif_test.go):
the REAL `paymentLifecycle.resumePayment` runs on the real `controlTower` over
the real `KVStore`; every database call the lifecycle makes (with the answer
and the full payment dump), every oracle consultation (with the arguments the
lifecycle passed: RequestRoute's maxAmt / fee budget / active shards) and the
value `resumePayment` returns are compared line by line with `lifeRun`.
-/
import LndModel.C16.Model

namespace LndModel.C16

/-! ### decisions read off a fetched payment (`payment.go`) -/

/-- `(bool, error)` of `AllowMoreAttempts` / `NeedWaitAttempts`; the only error a payment with
    one of the four statuses can produce is `ErrPaymentInternal`. -/
inductive Dec | yes | no | internal
  deriving DecidableEq, Repr

/-- `MPPayment.AllowMoreAttempts`. -/
def Payment.allowMore (p : Payment) : Dec :=
  if p.remaining = 0 then
    if p.status = .initiated then .internal else .no
  else if p.status = .succeeded then .internal
  else if p.registrable ≠ .ok then .no
  else .yes

/-- `MPPayment.NeedWaitAttempts`. -/
def Payment.needWait (p : Payment) : Dec :=
  if p.remaining ≠ 0 then
    match p.status with
    | .initiated => .no
    | .inFlight => if p.hasSettledHTLC then .yes else if p.paymentFailed then .yes else .no
    | .succeeded => .internal
    | .failed => .no
  else
    match p.status with
    | .initiated => .internal
    | .inFlight => .yes
    | .succeeded => .no
    | .failed => .internal

/-- `MPPayment.TerminalInfo`: a settled attempt if there is one, else the failure reason. -/
inductive TInfo | settled | reason (r : Nat) | nothing
  deriving DecidableEq, Repr

def Payment.terminalInfo (p : Payment) : TInfo :=
  if hasSettled p.attempts then .settled
  else match p.reason with
    | some r => .reason r
    | none => .nothing

/-- `MPPayment.Terminated`. -/
def Payment.terminated (p : Payment) : Bool := updatable p.status != .ok

/-- `decideNextStep` up to the point where it would block: `wait` = it blocks for one attempt
    result, handles it and returns `stepSkip`. -/
inductive NextStep | proceed | wait | exit | err
  deriving DecidableEq, Repr

def Payment.nextStep (p : Payment) : NextStep :=
  match p.allowMore with
  | .internal => .err
  | .yes => .proceed
  | .no =>
    match p.needWait with
    | .internal => .err
    | .no => .exit
    | .yes => .wait

/-- `calcFeeBudget`. -/
def feeBudget (limit paid : Nat) : Nat := if paid ≤ limit then limit - paid else 0

/-! ### `resumePayment` -/

/-- how the switch answered (SendHTLC error / attempt result): `ok` = sent / settled;
    `ErrPaymentIDNotFound`; `ErrUnreadableFailureMessage`; a non-`ClearTextError`; a
    `ClearTextError` of our own link (failure source index 0). -/
inductive SwKind | ok | idNotFound | unreadable | generic | link
  deriving DecidableEq, Repr

/-- oracle answers, in the order the lifecycle consults them. -/
inductive OEv
  /-- the payment context is done from the `checkContext` that follows control-tower call `n`
      (a reload) on (0 = timeout, 5 = canceled). -/
  | ctx (r : Nat) (n : Nat)
  /-- the `n`-th control-tower call of the run (counted from 0) fails with a database error,
      before / after its write. -/
  | crash (after : Bool) (n : Nat)
  | route (amt fee : Nat)
  | noRoute (r : Nat)
  | crit
  | nextId (id : Nat)
  | send (k : SwKind)
  /-- `MissionControl.ReportPaymentFail`: `none` = error, `some none` = retry, `some (some r)` =
      final failure reason. -/
  | mc (r : Option (Option Nat))
  /-- the result of in-flight attempt `id` becomes available while the lifecycle waits. -/
  | result (id : Nat) (k : SwKind)
  deriving DecidableEq, Repr

/-- why `resumePayment` returned an error. -/
inductive LErr
  | crash            -- injected database failure
  | internal         -- ErrPaymentInternal of the decision functions
  | db (e : Err)     -- error answered by the store
  | crit             -- critical path-finding error
  | desync           -- the oracle list does not fit (driver only)
  deriving DecidableEq, Repr

/-- what `resumePayment` returns. -/
inductive Outcome
  | preimage
  | reason (r : Nat)
  | err (e : LErr)
  /-- `*failure` with neither a settle nor a reason: nil dereference (proved unreachable). -/
  | nilDeref
  deriving DecidableEq, Repr

/-- what a run does, in order. `pre` is a ghost annotation (the store the call was issued on). -/
inductive Ev
  | call (pre : Store) (op : Op) (ans : Option Res)   -- `none` = the injected error was returned
  | ask (o : OEv) (args : List Nat)                    -- oracle consultation with the arguments passed

structure LifeCfg where
  backend : Backend := .kv
  h : Nat
  feeLimit : Nat
  /-- final-hop records of the routes the payment session builds (MPP address / total). -/
  shape : Shape
  /-- `KeepFailedPaymentAttempts`. -/
  keep : Bool

/-- the part of the run state that is not the database and survives a restart: the switch
    result that was handed out but whose Settle/FailAttempt did not reach the database yet. -/
abbrev Pending := Option (Nat × SwKind)

structure LS where
  s : Store
  os : List OEv
  pend : Pending
  evs : List Ev
  /-- control-tower calls issued so far in this run. -/
  calls : Nat := 0

/-- one control-tower call; an oracle head `crash after` makes it return an error, with or
    without the write. -/
def dbCall (c : LifeCfg) (l : LS) (op : Op) : LS × Option Res :=
  let crashNow : Option Bool :=
    match l.os with
    | .crash after n :: _ => if n = l.calls then some after else none
    | _ => none
  match crashNow with
  | some after =>
    ({ l with s := if after then (step c.backend l.s op).1 else l.s, os := l.os.drop 1,
              calls := l.calls + 1,
              evs := l.evs ++ [.ask (.crash after l.calls) [], .call l.s op none] }, none)
  | none =>
    let r := step c.backend l.s op
    ({ l with s := r.1, calls := l.calls + 1, evs := l.evs ++ [.call l.s op (some r.2)] }, some r.2)

/-- a control-tower call whose error aborts the lifecycle. -/
def dbCallE (c : LifeCfg) (l : LS) (op : Op) : LS × Except LErr Res :=
  match dbCall c l op with
  | (l', none) => (l', .error .crash)
  | (l', some r) => if r.1 = .ok then (l', .ok r) else (l', .error (.db r.1))

/-- Settle/FailAttempt for the attempt whose result is pending: once the call was executed
    (not refused by an injected failure before the write) the result is consumed. -/
def resolveCall (c : LifeCfg) (l : LS) (id : Nat) (op : Op) : LS × Except LErr Res :=
  let crashedBefore := match l.os with | .crash false n :: _ => n == l.calls | _ => false
  let (l', r) := dbCallE c l op
  let consumed := !crashedBefore && (match l'.pend with | some (i, _) => i == id | none => false)
  (if consumed then { l' with pend := none } else l', r)

/-- `failAttempt`. -/
def failAttemptL (c : LifeCfg) (l : LS) (id : Nat) : LS × Option LErr :=
  match resolveCall c l id (.failAtt c.h id) with
  | (l', .ok _) => (l', none)
  | (l', .error e) => (l', some e)

/-- `failPaymentAndAttempt`: the payment first, then the attempt. -/
def failBothL (c : LifeCfg) (l : LS) (id r : Nat) : LS × Option LErr :=
  match dbCallE c l (.fail c.h r) with
  | (l', .ok _) => failAttemptL c l' id
  | (l', .error e) => (l', some e)

/-- `handleSwitchErr` for the error kinds the harness produces (`FailureReasonError = 2`). -/
def handleSwitchErrL (c : LifeCfg) (l : LS) (id : Nat) (k : SwKind) : LS × Option LErr :=
  match k with
  | .ok => (l, none)
  | .idNotFound => failAttemptL c l id
  | .generic => failBothL c l id 2
  | .unreadable | .link =>
    -- reportAndFail: mission control decides
    match l.os with
    | .mc v :: os' =>
      let l := { l with os := os', evs := l.evs ++ [.ask (.mc v) [id]] }
      match v with
      | none => failBothL c l id 2
      | some none => failAttemptL c l id
      | some (some r) => failBothL c l id r
    | _ => (l, some .desync)

/-- `handleAttemptResult`. -/
def handleResultL (c : LifeCfg) (l : LS) (id : Nat) (k : SwKind) : LS × Option LErr :=
  match k with
  | .ok =>
    match resolveCall c l id (.settle c.h id) with
    | (l', .ok _) => (l', none)
    | (l', .error e) => (l', some e)
  | k => handleSwitchErrL c l id k

/-- `checkContext`: once the context is done the payment is failed (again) at every iteration. -/
def ctxBlock (c : LifeCfg) (l : LS) (cancelled : Option Nat) : LS × Option LErr :=
  match cancelled with
  | some r =>
    match dbCallE c l (.fail c.h r) with
    | (l', .ok _) => (l', none)
    | (l', .error e) => (l', some e)
  | none => (l, none)

/-- the context may be cancelled right after a reload (oracle `ctx r n`, `n` = index of the
    reload among the control-tower calls of the run). -/
def ctxOracle (l : LS) (cancelled : Option Nat) : LS × Option Nat :=
  match l.os with
  | .ctx r n :: os' =>
    if n + 1 = l.calls then ({ l with os := os', evs := l.evs ++ [.ask (.ctx r n) []] }, some r)
    else (l, cancelled)
  | _ => (l, cancelled)

/-- the attempt result the waiting lifecycle receives: the pending one, or the next the switch
    hands out. -/
def pickResult (l : LS) : LS × Option (Nat × SwKind) :=
  match l.pend with
  | some pr => (l, some pr)
  | none =>
    match l.os with
    | .result id k :: os' =>
      ({ l with os := os', pend := some (id, k), evs := l.evs ++ [.ask (.result id k) []] },
       some (id, k))
    | _ => (l, none)

/-- the blocking branch of `decideNextStep`: one attempt result is handled. -/
def waitBlock (c : LifeCfg) (l : LS) : LS × Option LErr :=
  match pickResult l with
  | (l, none) => (l, some .desync)
  | (l, some (id, k)) => handleResultL c l id k

/-- `requestRoute`, `registerAttempt`, `sendAttempt` for the reloaded payment `p`. -/
def proceedBlock (c : LifeCfg) (l : LS) (p : Payment) : LS × Option LErr :=
  let args := [p.remaining, feeBudget c.feeLimit p.feesPaid, p.numInFlight]
  match l.os with
  | .crit :: os' => ({ l with os := os', evs := l.evs ++ [.ask .crit args] }, some .crit)
  | .noRoute r :: os' =>
    let l := { l with os := os', evs := l.evs ++ [.ask (.noRoute r) args] }
    match dbCallE c l (.fail c.h r) with
    | (l, .error e) => (l, some e)
    | (l, .ok _) => (l, none)
  | .route amt fee :: .nextId id :: os' =>
    let l := { l with os := os', evs := l.evs ++ [.ask (.route amt fee) args, .ask (.nextId id) []] }
    -- registerAttempt
    match dbCallE c l (.reg c.h ⟨id, amt, fee, c.shape, .inflight⟩) with
    | (l, .error e) => (l, some e)
    | (l, .ok _) =>
      -- sendAttempt
      match l.os with
      | .send k :: os' =>
        handleSwitchErrL c { l with os := os', evs := l.evs ++ [.ask (.send k) [id]] } id k
      | _ => (l, some .desync)
  | _ => (l, some .desync)

/-- the loop of `resumePayment`; `cancelled` = the context is done (reason to record). Returns
    the final state, the payment of the last reload and how the loop ended (`none` = `break
    lifecycle`). -/
def lifeLoop (c : LifeCfg) : Nat → LS → Option Nat → LS × Option Payment × Option LErr
  | 0, l, _ => (l, none, some .desync)
  | fuel + 1, l, cancelled =>
    match ctxBlock c l cancelled with
    | (l, some e) => (l, none, some e)
    | (l, none) =>
    -- reloadPayment
    match dbCallE c l (.fetch c.h) with
    | (l, .error e) => (l, none, some e)
    | (l, .ok (_, none)) => (l, none, some (.db .other))
    | (l, .ok (_, some p)) =>
      match ctxOracle l cancelled with
      | (l, cancelled) =>
      match p.nextStep with
      | .err => (l, some p, some .internal)
      | .exit => (l, some p, none)
      | .wait =>
        match waitBlock c l with
        | (l, some e) => (l, some p, some e)
        | (l, none) => lifeLoop c fuel l cancelled
      | .proceed =>
        match proceedBlock c l p with
        | (l, some e) => (l, some p, some e)
        | (l, none) => lifeLoop c fuel l cancelled

structure RunResult where
  s : Store
  os : List OEv
  pend : Pending
  evs : List Ev
  out : Outcome

/-- `resumePayment`: `reloadInflightAttempts`, the loop, `DeleteFailedAttempts`, terminal info. -/
def lifeRun (c : LifeCfg) (fuel : Nat) (s : Store) (os : List OEv) (pend : Pending) : RunResult :=
  let l0 : LS := ⟨s, os, pend, [], 0⟩
  match dbCallE c l0 (.fetch c.h) with
  | (l, .error e) => ⟨l.s, l.os, l.pend, l.evs, .err e⟩
  | (l, .ok _) =>
    match lifeLoop c fuel l none with
    | (l, _, some e) => ⟨l.s, l.os, l.pend, l.evs, .err e⟩
    | (l, none, none) => ⟨l.s, l.os, l.pend, l.evs, .err .desync⟩
    | (l, some p, none) =>
      -- the error of DeleteFailedAttempts is only logged
      let l := if c.keep then l else (dbCall c l (.delFailed c.h)).1
      let out := match p.terminalInfo with
        | .settled => Outcome.preimage
        | .reason r => .reason r
        | .nothing => .nilDeref
      ⟨l.s, l.os, l.pend, l.evs, out⟩

end LndModel.C16
