/-
C16 — property theorems (DESIGN.md "### C16").  Helper lemmas live in Lemmas.lean.

All theorems quantify over the backend `b` (KVStore / SQLStore model), an
arbitrary starting store (in particular `Store.empty`) and ARBITRARY operation
lists — including orders the router never produces, duplicate attempt ids,
operations on unknown / deleted payments and attempts addressed through the
wrong payment hash.
-/
import LndModel.C16.Lemmas

set_option linter.unusedSimpArgs false
set_option linter.unusedVariables false

namespace LndModel.C16

/-! ## status_truth_table -/

/-- `status_truth_table`: the status computed by the flag loop + switch of
    `decidePaymentStatus` is exactly the documented 16-row table of
    (in-flight?, settled?, htlc failed?, payment failed?). -/
theorem status_truth_table (p : Payment) :
    p.status = statusTable (hasInflight p.attempts) (hasSettled p.attempts) (hasFailed p.attempts)
      p.reason.isSome := status_eq p

/-- corollary: a payment with a settled attempt is never reported failed. -/
theorem settled_never_failed (p : Payment) (x : Attempt) (hx : x ∈ p.attempts)
    (hs : x.st = .settled) : p.status ≠ .failed := by
  intro hf
  have := ((status_failed_iff p).1 hf).2.1
  have hany : hasSettled p.attempts = true := by
    simp only [hasSettled, List.any_eq_true]
    exact ⟨x, hx, by simp [hs]⟩
  simp [hany] at this

/-- corollary: reported failed ⇒ nothing in flight, nothing settled, and a failure reason. -/
theorem failed_means (p : Payment) (hf : p.status = .failed) :
    (∀ x ∈ p.attempts, x.st = .failed) ∧ p.reason ≠ none := by
  obtain ⟨h1, h2, h3⟩ := (status_failed_iff p).1 hf
  refine ⟨?_, by intro h; simp [h] at h3⟩
  intro x hx
  cases hs : x.st with
  | failed => rfl
  | inflight =>
    have : hasInflight p.attempts = true := by
      simp only [hasInflight, List.any_eq_true]; exact ⟨x, hx, by simp [hs]⟩
    simp [this] at h1
  | settled =>
    have : hasSettled p.attempts = true := by
      simp only [hasSettled, List.any_eq_true]; exact ⟨x, hx, by simp [hs]⟩
    simp [this] at h2

/-! ## generic lifting from one payment transition to operation lists -/

theorem exec_cons (b : Backend) (s : Store) (op : Op) (ops : List Op) :
    exec b s (op :: ops) = exec b (step b s op).1 ops := rfl

theorem run_fst (b : Backend) (s : Store) (ops : List Op) : (run b s ops).1 = exec b s ops := by
  induction ops generalizing s with
  | nil => rfl
  | cons op ops ih => simp only [run, exec_cons, ← ih]

/-- An invariant of every per-payment transition is an invariant of every run. -/
theorem exec_invariant (P : Option Payment → Prop)
    (hstep : ∀ op k x y, PStep op k x y → P x → P y)
    (b : Backend) (ops : List Op) (s : Store) (k : Nat) (h0 : P (s.payment? k)) :
    P ((exec b s ops).payment? k) := by
  induction ops generalizing s with
  | nil => exact h0
  | cons op ops ih =>
    rw [exec_cons]
    exact ih _ (hstep op k _ _ (step_pstep b s op k) h0)

/-! ## never_overpay -/

/-- the stored settled + in-flight amounts are within the payment amount. -/
def Within (x : Option Payment) : Prop := ∀ p, x = some p → p.sent ≤ p.value

theorem pstep_within (op : Op) (k : Nat) (x y : Option Payment) (h : PStep op k x y) (hx : Within x) :
    Within y := by
  intro q hq
  cases h with
  | same => exact hx q hq
  | create _ v _ _ => cases hq; simp [Payment.sent, sentL]
  | delete p _ _ => cases hq
  | bulkDelete p _ _ _ _ => cases hq
  | delFailed p _ =>
    cases hq
    have := hx p rfl
    simpa [Payment.sent, sentL_filter_notFailed] using this
  | register p a hr hv ha =>
    cases hq
    have := verify_ok_amount hv
    simp only [Payment.sent] at this ⊢
    simp [sentL_append, sentL, ha]
    omega
  | overwrite p a hr hv =>
    cases hq
    have := verify_ok_amount hv
    have h2 := sentL_replaceFirst_le a p.attempts
    simp only [Payment.sent] at this ⊢
    omega
  | resolve p id st _ =>
    cases hq
    have := hx p rfl
    have h2 := sentL_map_resolve_le id st p.attempts
    simp only [Payment.sent] at this ⊢
    omega
  | setReason p r => cases hq; exact hx p rfl

/-- `stored_within` (formerly `never_overpay`): after ANY operation list on either backend, for
    every payment the sum of the STORED settled and in-flight attempt amounts is at most the
    payment amount (so `setState` never returns `ErrSentExceedsTotal` and
    `RemainingAmt = Value - sent` never wraps).  NOTE: this is about stored rows only and is also
    true of the KV store's overwrite of a re-registered attempt id; the statement about ADMITTED
    attempts is `never_overpay_admitted_*` below. -/
theorem stored_within (b : Backend) (ops : List Op) (h : Nat) (p : Payment)
    (hp : (exec b Store.empty ops).payment? h = some p) : p.sent ≤ p.value :=
  exec_invariant Within pstep_within b ops Store.empty h (by intro q hq; cases hq) p hp

/-- the same from any store that satisfies the invariant. -/
theorem stored_within_from (b : Backend) (s : Store) (hs : ∀ k, Within (s.payment? k))
    (ops : List Op) (h : Nat) : Within ((exec b s ops).payment? h) :=
  exec_invariant Within pstep_within b ops s h (hs h)

/-! ## never_overpay on the ghost ledger of admitted attempts -/

theorem admitted_of_ledger_eq (b : Backend) (ops : List Op) (h : Nat) (p : Payment)
    (hl : (gexec b (Store.empty, []) ops).2 = (gexec b (Store.empty, []) ops).1.rows)
    (hp : (exec b Store.empty ops).payment? h = some p) :
    admittedSent (gexec b (Store.empty, []) ops).2 h ≤ p.value := by
  rw [hl, admittedSent_rows, gexec_fst]
  obtain ⟨i, hi, hpe⟩ := payment?_some_inv hp
  have := stored_within b ops h p hp
  rw [hpe] at this ⊢
  exact this

/-- `never_overpay_admitted` (SQL store, unconditional): after ANY operation list, for every
    payment the sum over ALL ADMITTED registrations (every RegisterAttempt answered `ok` since
    the payment was (re-)initiated) that are settled or still in flight is at most the payment
    amount.  The ghost ledger is never overwritten; the proof shows it coincides with the stored
    rows because the SQL store refuses a re-used attempt id. -/
theorem never_overpay_admitted_sql (ops : List Op) (h : Nat) (p : Payment)
    (hp : (exec .sql Store.empty ops).payment? h = some p) :
    admittedSent (gexec .sql (Store.empty, []) ops).2 h ≤ p.value :=
  admitted_of_ledger_eq .sql ops h p
    (gexec_ledger .sql ops Store.empty (fun hb => by cases hb)) hp

/-- `never_overpay_admitted` (KV store) under attempt-id freshness: if no registration of the
    history uses an id its payment already stores (`freshRun`; guaranteed in lnd by the switch's
    persistent attempt-id sequencer), the admitted settled + in-flight sum is within the amount. -/
theorem never_overpay_admitted_kv (ops : List Op) (h : Nat) (p : Payment)
    (hfresh : freshRun .kv Store.empty ops = true)
    (hp : (exec .kv Store.empty ops).payment? h = some p) :
    admittedSent (gexec .kv (Store.empty, []) ops).2 h ≤ p.value :=
  admitted_of_ledger_eq .kv ops h p (gexec_ledger .kv ops Store.empty (fun _ => hfresh)) hp

/-- under the same hypotheses the ledger IS the attempt table, for both backends. -/
theorem ledger_eq_stored (b : Backend) (ops : List Op)
    (hfresh : b = .kv → freshRun b Store.empty ops = true) :
    (gexec b (Store.empty, []) ops).2 = (exec b Store.empty ops).rows := by
  rw [← gexec_fst b (Store.empty, []) ops]
  exact gexec_ledger b ops Store.empty hfresh

/-- a history that re-registers a FAILED attempt id three times. -/
def spamOps : List Op :=
  [.init 0 10, .reg 0 ⟨0, 10, 0, ⟨false, 0, none⟩, .inflight⟩, .failAtt 0 0,
   .reg 0 ⟨0, 10, 0, ⟨false, 0, none⟩, .inflight⟩, .reg 0 ⟨0, 10, 0, ⟨false, 0, none⟩, .inflight⟩,
   .reg 0 ⟨0, 10, 0, ⟨false, 0, none⟩, .inflight⟩]

/-- `kv_overpay_without_freshness` — the freshness hypothesis of `never_overpay_admitted_kv`
    cannot be dropped: on the KV model every operation of `spamOps` is answered `ok`, 30 msat of
    admitted attempts are in flight for a 10 msat payment, while the stored attempts sum to 0
    (so `stored_within` is satisfied).  This is finding F-C16-kv-dup-attempt-id, reproduced on
    the real KVStore by the harness. -/
theorem kv_overpay_without_freshness :
    (run .kv Store.empty spamOps).2.map (·.1) = [.ok, .ok, .ok, .ok, .ok, .ok] ∧
    ((exec .kv Store.empty spamOps).payment? 0).map (fun p => (p.value, p.sent)) = some (10, 0) ∧
    admittedSent (gexec .kv (Store.empty, []) spamOps).2 0 = 30 ∧
    freshRun .kv Store.empty spamOps = false := by decide

/-- the SQL model refuses every re-registration of `spamOps`. -/
theorem sql_refuses_spam :
    (run .sql Store.empty spamOps).2.map (·.1) = [.ok, .ok, .ok, .other, .other, .other] ∧
    admittedSent (gexec .sql (Store.empty, []) spamOps).2 0 = 0 := by decide

/-! ## register_gate -/

theorem reg_ok_inv (b : Backend) (s s' : Store) (h : Nat) (a0 : Attempt) (d : Option Payment)
    (hst : step b s (.reg h a0) = (s', .ok, d)) :
    ∃ p, s.payment? h = some p ∧ p.registrable = .ok ∧
      verifyAttempt p { a0 with st := .inflight } = .ok := by
  simp only [step] at hst
  cases hp : s.payment? h with
  | none => cases b <;> simp [hp, unknownOnRegister] at hst
  | some p =>
    simp only [hp] at hst
    cases hr : p.registrable with
    | ok =>
      cases hv : verifyAttempt p { a0 with st := .inflight } with
      | ok => exact ⟨p, rfl, hr, hv⟩
      | _ => simp [hr, hv] at hst
    | _ => simp [hr] at hst

theorem verify_ok_parts {p : Payment} {a : Attempt} (h : verifyAttempt p a = .ok) :
    verifyLoop a.shape (inflightL p.attempts) = .ok ∧
    (a.shape.blinded = true → a.shape.btotal ≠ 0 ∧ a.shape.mpp = none) ∧
    (a.shape.blinded = false → a.shape.mpp = none → a.amt = p.value) := by
  unfold verifyAttempt at h
  split at h
  · cases h
  · rename_i h1
    split at h
    · cases h
    · rename_i h2
      split at h
      · rename_i hl
        split at h
        · cases h
        · rename_i h3
          refine ⟨hl, ?_, ?_⟩
          · intro hb
            simp [hb] at h1 h2
            exact ⟨h1, by cases hm : a.shape.mpp <;> simp [hm] at h2 ⊢⟩
          · intro hb hm
            simp [hb, hm] at h3
            exact h3
      · rename_i hne
        exact absurd h (hne · |>.elim)

/-- `register_gate`: on either backend a registration is admitted only for an existing payment
    with no settled attempt, no failure reason, status initiated / in-flight, an attempt that is
    MPP / blinded-consistent with the in-flight ones (`verifyLoop`), matches the amount exactly
    when it is a single-shot attempt, and keeps settled + in-flight + new ≤ payment amount. -/
theorem register_gate (b : Backend) (s s' : Store) (h : Nat) (a : Attempt) (d : Option Payment)
    (hst : step b s (.reg h a) = (s', .ok, d)) :
    ∃ p, s.payment? h = some p ∧
      (∀ x ∈ p.attempts, x.st ≠ .settled) ∧
      p.reason = none ∧
      (p.status = .initiated ∨ p.status = .inFlight) ∧
      verifyLoop a.shape (inflightL p.attempts) = .ok ∧
      (a.shape.blinded = true → a.shape.btotal ≠ 0 ∧ a.shape.mpp = none) ∧
      (a.shape.blinded = false → a.shape.mpp = none → a.amt = p.value) ∧
      p.sent + a.amt ≤ p.value := by
  obtain ⟨p, hp, hr, hv⟩ := reg_ok_inv b s s' h a d hst
  obtain ⟨hstat, hset, hreason⟩ := (registrable_ok_iff p).1 hr
  obtain ⟨hl, hb, hm⟩ := verify_ok_parts hv
  refine ⟨p, hp, ?_, hreason, hstat, hl, hb, hm, verify_ok_amount hv⟩
  intro x hx hs
  have : hasSettled p.attempts = true := by
    simp only [hasSettled, List.any_eq_true]; exact ⟨x, hx, by simp [hs]⟩
  simp [this] at hset

/-- a refused registration changes nothing. -/
theorem register_refused_noop (b : Backend) (s : Store) (h : Nat) (a : Attempt)
    (hne : (step b s (.reg h a)).2.1 ≠ .ok) : (step b s (.reg h a)).1 = s := by
  simp only [step] at hne ⊢
  cases hp : s.payment? h with
  | none => simp [hp]
  | some p =>
    simp only [hp] at hne ⊢
    cases hr : p.registrable <;> simp only [hr] at hne ⊢
    cases hv : verifyAttempt p { a with st := .inflight } <;> simp only [hv] at hne ⊢
    cases b with
    | kv => simp only at hne ⊢; split at hne <;> simp at hne
    | sql => simp only at hne ⊢; split <;> simp_all

/-! ## no_reinit -/

/-- `no_reinit`: `InitPayment` succeeds only for an unknown hash or a payment whose status is
    failed (then nothing is in flight and nothing has settled); the new payment starts empty. -/
theorem no_reinit (b : Backend) (s s' : Store) (h v : Nat) (d : Option Payment)
    (hst : step b s (.init h v) = (s', .ok, d)) :
    (s.payment? h = none ∨
      ∃ p, s.payment? h = some p ∧ p.status = .failed ∧ (∀ x ∈ p.attempts, x.st = .failed)) ∧
    s'.payment? h = some ⟨v, [], none⟩ := by
  have hps := step_pstep b s (.init h v) h
  simp only [step] at hst
  cases hg : initGate s h with
  | ok =>
    simp only [hg] at hst
    have hs' : s' = (s.filterRows (fun o _ => o != h)).setInfo h (some ⟨v, none⟩) := by
      cases hst; rfl
    constructor
    · cases hp : s.payment? h with
      | none => exact Or.inl rfl
      | some p =>
        refine Or.inr ⟨p, rfl, ?_⟩
        simp only [initGate, hp] at hg
        have hf : p.status = .failed := by
          cases hs : p.status <;> simp [hs, initializable] at hg ⊢
        exact ⟨hf, (failed_means p hf).1⟩
    · subst hs'
      rw [payment?_of_info (i := ⟨v, none⟩) (by simp [info_setInfo])]
      simp [attemptsOf_setInfo, attemptsOf_filterRows, mkP, filter_const_false]
  | _ => simp [hg] at hst

/-- `InitPayment` on an initiated / in-flight / succeeded payment is refused with the documented
    error and changes nothing. -/
theorem reinit_refused (b : Backend) (s : Store) (h v : Nat) (p : Payment)
    (hp : s.payment? h = some p) (hne : p.status ≠ .failed) :
    (step b s (.init h v)).1 = s ∧
    (step b s (.init h v)).2.1 = (match p.status with
      | .initiated => .paymentExists
      | .inFlight => .paymentInFlight
      | .succeeded => .alreadyPaid
      | .failed => .ok) := by
  simp only [step, initGate, hp]
  cases hs : p.status <;> simp_all [initializable]

/-! ## status corollaries over histories -/

theorem hasInflight_filter (as : List Attempt) :
    hasInflight (as.filter (fun x => !(x.st == .failed))) = hasInflight as := by
  induction as with
  | nil => rfl
  | cons a as ih => cases ha : a.st <;> simp_all [hasInflight, List.filter_cons]

theorem hasSettled_filter (as : List Attempt) :
    hasSettled (as.filter (fun x => !(x.st == .failed))) = hasSettled as := by
  induction as with
  | nil => rfl
  | cons a as ih => cases ha : a.st <;> simp_all [hasSettled, List.filter_cons]

theorem map_resolve_noInflight (id : Nat) (st : AState) (as : List Attempt)
    (h : hasInflight as = false) : as.map (resolveA id st) = as := by
  induction as with
  | nil => rfl
  | cons a as ih =>
    simp only [hasInflight, List.any_cons, Bool.or_eq_false_iff] at h
    have h1 : resolveA id st a = a := by
      unfold resolveA
      have : (a.st == AState.inflight) = false := h.1
      simp [this]
    simp only [List.map_cons, h1]
    rw [ih (by simpa [hasInflight] using h.2)]

/-- one transition from a succeeded payment: it stays succeeded or is deleted by `DeletePayment`. -/
theorem pstep_succeeded (op : Op) (k : Nat) (p : Payment) (y : Option Payment)
    (h : PStep op k (some p) y) (hs : p.status = .succeeded) :
    (y = none ∧ (op = .del k ∨ op = .delAll false false)) ∨
      ∃ q, y = some q ∧ q.status = .succeeded ∧ q.value = p.value := by
  obtain ⟨hi, hset⟩ := (status_succeeded_iff p).1 hs
  generalize hx : some p = x at h
  cases h with
  | same => cases hx; exact Or.inr ⟨p, rfl, hs, rfl⟩
  | create _ v _ hc =>
    rcases hc with hc | ⟨q, hq, hf⟩
    · subst hc; cases hx
    · subst hq; cases hx; rw [hs] at hf; cases hf
  | delete q hop _ => exact Or.inl ⟨rfl, Or.inl hop⟩
  | bulkDelete q fo hop _ hf =>
    cases hx
    cases fo with
    | false => exact Or.inl ⟨rfl, Or.inr hop⟩
    | true => have := hf rfl; rw [hs] at this; cases this
  | delFailed q _ =>
    cases hx
    refine Or.inr ⟨_, rfl, ?_, rfl⟩
    rw [status_succeeded_iff]
    simp [hasInflight_filter, hasSettled_filter, hi, hset]
  | register q a hr _ _ =>
    cases hx
    have := ((registrable_ok_iff p).1 hr).2.1
    simp [hset] at this
  | overwrite q a hr _ =>
    cases hx
    have := ((registrable_ok_iff p).1 hr).2.1
    simp [hset] at this
  | resolve q id st _ =>
    cases hx
    refine Or.inr ⟨_, rfl, ?_, rfl⟩
    simp only [map_resolve_noInflight id st p.attempts hi]
    exact hs
  | setReason q r =>
    cases hx
    refine Or.inr ⟨_, rfl, ?_, rfl⟩
    rw [status_succeeded_iff]; exact ⟨hi, hset⟩

/-- `succeeded_absorbing`: once a payment is succeeded, after ANY further operations on either
    backend that contain neither an explicit `DeletePayment` of that hash nor a bulk
    `DeletePayments(failedOnly = false, failedHtlcsOnly = false)` it is still there, still
    succeeded, with the same amount.  In particular it survives every
    `DeletePayments(failedOnly = true, …)` and every `DeletePayments(…, failedHtlcsOnly = true)`,
    whatever failure reason it carries. -/
theorem succeeded_absorbing (b : Backend) (ops : List Op) (s : Store) (k : Nat) (p : Payment)
    (hp : s.payment? k = some p) (hs : p.status = .succeeded)
    (hno : Op.del k ∉ ops) (hnb : Op.delAll false false ∉ ops) :
    ∃ q, (exec b s ops).payment? k = some q ∧ q.status = .succeeded ∧ q.value = p.value := by
  induction ops generalizing s p with
  | nil => exact ⟨p, hp, hs, rfl⟩
  | cons op ops ih =>
    rw [exec_cons]
    have h1 := step_pstep b s op k
    rw [hp] at h1
    rcases pstep_succeeded op k p _ h1 hs with ⟨_, hop | hop⟩ | ⟨q, hq, hqs, hqv⟩
    · exact absurd (by simp [hop]) hno
    · exact absurd (by simp [hop]) hnb
    · obtain ⟨q', hq', hqs', hqv'⟩ := ih _ q hq hqs (fun h => hno (List.mem_cons_of_mem _ h))
        (fun h => hnb (List.mem_cons_of_mem _ h))
      exact ⟨q', hq', hqs', by omega⟩

/-- `bulk_delete_failed_only_keeps_succeeded` (single step, the seeded-bug clause): a succeeded
    payment — including the documented conflicting state "settled attempt + payment-level failure
    reason" — is still there and still succeeded after `DeletePayments(failedOnly = true, _)`. -/
theorem bulk_delete_failed_only_keeps_succeeded (b : Backend) (s : Store) (fho : Bool) (k : Nat)
    (p : Payment) (hp : s.payment? k = some p) (hs : p.status = .succeeded) :
    ∃ q, (step b s (.delAll true fho)).1.payment? k = some q ∧ q.status = .succeeded ∧
      q.value = p.value ∧ q.reason = p.reason := by
  have hh : s.bulkHit true k = false := by
    simp [Store.bulkHit, hp, bulkSkip, hs]
  simp only [step]
  cases fho with
  | true =>
    simp only [if_true]
    rw [payment?_filterRows_ne _ _ _ (by simp [hh]), hp]
    exact ⟨p, rfl, hs, rfl, rfl⟩
  | false =>
    simp only [Bool.false_eq_true, if_false]
    rw [payment?_dropInfo, hh, payment?_filterRows_ne _ _ _ (by simp [hh])]
    simp only [Bool.false_eq_true, if_false, hp]
    exact ⟨p, rfl, hs, rfl, rfl⟩

/-- `bulk_delete_keeps_inflight`: no form of `DeletePayments` touches a payment whose status is
    in flight (neither the payment nor any of its attempts). -/
theorem bulk_delete_keeps_inflight (b : Backend) (s : Store) (fo fho : Bool) (k : Nat)
    (p : Payment) (hp : s.payment? k = some p) (hs : p.status = .inFlight) :
    (step b s (.delAll fo fho)).1.payment? k = some p := by
  have hh : s.bulkHit fo k = false := by
    simp [Store.bulkHit, hp, bulkSkip, hs]
  simp only [step]
  cases fho with
  | true =>
    simp only [if_true]
    rw [payment?_filterRows_ne _ _ _ (by simp [hh]), hp]
  | false =>
    simp only [Bool.false_eq_true, if_false]
    rw [payment?_dropInfo, hh, payment?_filterRows_ne _ _ _ (by simp [hh])]
    simp only [Bool.false_eq_true, if_false, hp]

/-- `bulk_delete_htlcs_only`: `DeletePayments(_, failedHtlcsOnly = true)` deletes no payment and
    changes neither amount nor failure reason; the attempts of every payment are either untouched
    or exactly the non-failed ones (and the latter only when the payment is not in flight and,
    with `failedOnly`, failed). -/
theorem bulk_delete_htlcs_only (b : Backend) (s : Store) (fo : Bool) (k : Nat) (p : Payment)
    (hp : s.payment? k = some p) :
    ∃ q, (step b s (.delAll fo true)).1.payment? k = some q ∧ q.value = p.value ∧
      q.reason = p.reason ∧
      (q.attempts = p.attempts ∨
        (q.attempts = p.attempts.filter (fun x => !(x.st == .failed)) ∧ p.status ≠ .inFlight ∧
          (fo = true → p.status = .failed))) := by
  obtain ⟨i, hi, hpe⟩ := payment?_some_inv hp
  simp only [step, if_true]
  cases hh : s.bulkHit fo k with
  | false =>
    rw [payment?_filterRows_ne _ _ _ (by simp [hh]), hp]
    exact ⟨p, rfl, rfl, rfl, Or.inl rfl⟩
  | true =>
    obtain ⟨p', hp', hns, hf⟩ := bulkHit_true hh
    rw [hp] at hp'; cases hp'
    rw [payment?_of_info (s := s.filterRows _) (i := i) (by simpa [info_filterRows] using hi),
      attemptsOf_filterRows]
    refine ⟨_, rfl, ?_, ?_, Or.inr ⟨?_, hns, hf⟩⟩ <;> simp [hpe, mkP, hh]

/-- one transition from a failed payment: it stays failed, is deleted by `DeletePayment`, or is
    replaced by a fresh payment by an explicit `InitPayment` of that hash. -/
theorem pstep_failed (op : Op) (k : Nat) (p : Payment) (y : Option Payment)
    (h : PStep op k (some p) y) (hs : p.status = .failed) :
    (y = none ∧ (op = .del k ∨ ∃ fo, op = .delAll fo false)) ∨
    (∃ v, y = some ⟨v, [], none⟩ ∧ op = .init k v) ∨
    ∃ q, y = some q ∧ q.status = .failed ∧ q.value = p.value := by
  obtain ⟨hi, hset, hr⟩ := (status_failed_iff p).1 hs
  generalize hx : some p = x at h
  cases h with
  | same => cases hx; exact Or.inr (Or.inr ⟨p, rfl, hs, rfl⟩)
  | create _ v hop _ => exact Or.inr (Or.inl ⟨v, rfl, hop⟩)
  | delete q hop _ => exact Or.inl ⟨rfl, Or.inl hop⟩
  | bulkDelete q fo hop _ _ => exact Or.inl ⟨rfl, Or.inr ⟨fo, hop⟩⟩
  | delFailed q _ =>
    cases hx
    refine Or.inr (Or.inr ⟨_, rfl, ?_, rfl⟩)
    rw [status_failed_iff]
    simp [hasInflight_filter, hasSettled_filter, hi, hset, hr]
  | register q a hreg _ _ =>
    cases hx
    have := ((registrable_ok_iff p).1 hreg).2.2
    simp [this] at hr
  | overwrite q a hreg _ =>
    cases hx
    have := ((registrable_ok_iff p).1 hreg).2.2
    simp [this] at hr
  | resolve q id st _ =>
    cases hx
    refine Or.inr (Or.inr ⟨_, rfl, ?_, rfl⟩)
    simp only [map_resolve_noInflight id st p.attempts hi]
    exact hs
  | setReason q r =>
    cases hx
    refine Or.inr (Or.inr ⟨_, rfl, ?_, rfl⟩)
    rw [status_failed_iff]; exact ⟨hi, hset, rfl⟩

/-- `failed_only_by_init`: a failed payment stays failed (same amount) under ANY operations on
    either backend that contain neither `InitPayment` nor `DeletePayment` of that hash nor a bulk
    `DeletePayments(_, failedHtlcsOnly = false)`. -/
theorem failed_only_by_init (b : Backend) (ops : List Op) (s : Store) (k : Nat) (p : Payment)
    (hp : s.payment? k = some p) (hs : p.status = .failed)
    (hno : ∀ op ∈ ops, op ≠ .del k ∧ (∀ fo, op ≠ .delAll fo false) ∧ ∀ v, op ≠ .init k v) :
    ∃ q, (exec b s ops).payment? k = some q ∧ q.status = .failed ∧ q.value = p.value := by
  induction ops generalizing s p with
  | nil => exact ⟨p, hp, hs, rfl⟩
  | cons op ops ih =>
    rw [exec_cons]
    have h1 := step_pstep b s op k
    rw [hp] at h1
    have hop := hno op (by simp)
    rcases pstep_failed op k p _ h1 hs with ⟨_, hd | ⟨fo, hd⟩⟩ | ⟨v, _, hi⟩ | ⟨q, hq, hqs, hqv⟩
    · exact absurd hd hop.1
    · exact absurd hd (hop.2.1 fo)
    · exact absurd hi (hop.2.2 v)
    · obtain ⟨q', hq', hqs', hqv'⟩ := ih _ q hq hqs (fun o ho => hno o (List.mem_cons_of_mem _ ho))
      exact ⟨q', hq', hqs', by omega⟩

/-- a settled attempt is never altered or dropped while its payment exists: in particular it is
    never later reported failed or in flight, and its amount never changes. -/
theorem pstep_settled_persists (op : Op) (k : Nat) (p q : Payment)
    (h : PStep op k (some p) (some q)) (x : Attempt) (hx : x ∈ p.attempts) (hs : x.st = .settled) :
    x ∈ q.attempts := by
  have hset : hasSettled p.attempts = true := by
    simp only [hasSettled, List.any_eq_true]; exact ⟨x, hx, by simp [hs]⟩
  generalize hp : some p = xp at h
  generalize hq : some q = xq at h
  cases h with
  | same => cases hp; cases hq; exact hx
  | create _ v _ hc =>
    rcases hc with hc | ⟨p', hp', hf⟩
    · subst hc; cases hp
    · subst hp'; cases hp
      have := ((status_failed_iff p).1 hf).2.1
      simp [hset] at this
  | delete _ _ _ => cases hq
  | bulkDelete _ _ _ _ _ => cases hq
  | delFailed p' _ =>
    cases hp; cases hq
    simp only [List.mem_filter]
    exact ⟨hx, by simp [hs]⟩
  | register p' a _ _ _ => cases hp; cases hq; simp [hx]
  | overwrite p' a hreg _ =>
    cases hp
    have := ((registrable_ok_iff p).1 hreg).2.1
    simp [hset] at this
  | resolve p' id st _ =>
    cases hp; cases hq
    simp only [List.mem_map]
    refine ⟨x, hx, ?_⟩
    unfold resolveA
    simp [hs]
  | setReason p' r => cases hp; cases hq; exact hx


/-! ## backend_equivalence -/

/-- one operation issued under the caller contract `opOk` (fresh attempt id on registration;
    Settle/FailAttempt never name an attempt of another payment): the KV model and the SQL model
    reach the same store and give the same answer up to the documented error identities. -/
theorem step_equiv (s : Store) (op : Op) (hok : opOk s op = true) :
    (step .kv s op).1 = (step .sql s op).1 ∧ canon op (step .kv s op).2 = canon op (step .sql s op).2 := by
  cases op with
  | init h v => exact ⟨rfl, rfl⟩
  | reg h a0 =>
    simp only [opOk] at hok
    simp only [step]
    cases hp : s.payment? h with
    | none => simp [canon, errClass, unknownOnRegister]
    | some p =>
      simp only
      cases hr : p.registrable with
      | ok =>
        simp only
        cases hv : verifyAttempt p { a0 with st := .inflight } with
        | ok =>
          simp only
          obtain ⟨i, hi, hpe⟩ := payment?_some_inv hp
          have hpa : p.attempts = s.attemptsOf h := by rw [hpe]; rfl
          have h1 := any_attemptsOf_false s h a0.id hok
          have h2 := any_rows_false s a0.id hok
          simp [hpa, h1, h2]
        | _ => exact ⟨rfl, rfl⟩
      | _ => exact ⟨rfl, rfl⟩
  | settle h id =>
    simp only [opOk] at hok
    simp only [step]
    obtain ⟨h1, h2, h3⟩ := resolve_equiv s h id .settled hok
    refine ⟨h1, ?_⟩
    simp only [canon, h2]
    rcases h3 with h3 | ⟨h3 | h3, h4⟩ <;> simp [h3, errClass, *]
  | failAtt h id =>
    simp only [opOk] at hok
    simp only [step]
    obtain ⟨h1, h2, h3⟩ := resolve_equiv s h id .failed hok
    refine ⟨h1, ?_⟩
    simp only [canon, h2]
    rcases h3 with h3 | ⟨h3 | h3, h4⟩ <;> simp [h3, errClass, *]
  | fail h r => exact ⟨rfl, rfl⟩
  | del h =>
    simp only [step]
    cases hp : s.payment? h with
    | none => simp [canon, errClass, unknownOnWrite]
    | some p => exact ⟨rfl, rfl⟩
  | delFailed h =>
    simp only [step]
    cases hp : s.payment? h with
    | none => simp [canon, errClass, unknownOnWrite]
    | some p => exact ⟨rfl, rfl⟩
  | fetch h => exact ⟨rfl, rfl⟩
  | delAll fo fho => exact ⟨rfl, rfl⟩

/-- answers of a run, with the documented error identities collapsed. -/
def canonAnswers (ops : List Op) (rs : List Res) : List Res := List.zipWith canon ops rs

/-- `backend_equivalence`: on every history that respects the caller contract (attempt ids are
    never reused, attempts are resolved through their own payment hash) the KV store model and
    the SQL store model end in the same store and give the same answers — same error class, same
    payment dumps — for every operation.  (Outside the contract they provably differ, see the
    `example`s below: that is the reported finding.) -/
theorem backend_equivalence (ops : List Op) (s : Store) (hr : respects s ops = true) :
    (run .kv s ops).1 = (run .sql s ops).1 ∧
    canonAnswers ops (run .kv s ops).2 = canonAnswers ops (run .sql s ops).2 := by
  induction ops generalizing s with
  | nil => exact ⟨rfl, rfl⟩
  | cons op ops ih =>
    simp only [respects, Bool.and_eq_true] at hr
    obtain ⟨h1, h2⟩ := step_equiv s op hr.1
    have ih' := ih (step .kv s op).1 hr.2
    simp only [run, canonAnswers, List.zipWith_cons_cons]
    rw [← h1]
    refine ⟨ih'.1, ?_⟩
    rw [h2]
    congr 1
    exact ih'.2

/-- the SQL store never admits an attempt id twice: a successful registration appends a
    brand-new attempt and leaves every stored attempt untouched. -/
theorem sql_register_appends (s s' : Store) (h : Nat) (a : Attempt) (d : Option Payment)
    (hst : step .sql s (.reg h a) = (s', .ok, d)) :
    s.rows.any (fun r => r.a.id == a.id) = false ∧ s' = s.addRow h { a with st := .inflight } := by
  simp only [step] at hst
  cases hp : s.payment? h with
  | none => simp [hp, unknownOnRegister] at hst
  | some p =>
    simp only [hp] at hst
    cases hr : p.registrable <;> simp only [hr] at hst <;> try (simp at hst)
    cases hv : verifyAttempt p { a with st := .inflight } <;> simp only [hv] at hst <;> try (simp at hst)
    split at hst
    · simp at hst
    · rename_i hany
      refine ⟨by simpa using hany, ?_⟩
      cases hst; rfl

/-- the KV store appends likewise when the id is new for that payment; with an id the payment
    already has it overwrites the stored attempt instead (`PStep.overwrite`) — the finding. -/
theorem kv_register_fresh_appends (s s' : Store) (h : Nat) (a : Attempt) (d : Option Payment)
    (hst : step .kv s (.reg h a) = (s', .ok, d))
    (hfresh : (s.attemptsOf h).any (fun x => x.id == a.id) = false) :
    s' = s.addRow h { a with st := .inflight } := by
  simp only [step] at hst
  cases hp : s.payment? h with
  | none => simp [hp, unknownOnRegister] at hst
  | some p =>
    simp only [hp] at hst
    obtain ⟨i, hi, hpe⟩ := payment?_some_inv hp
    have hpa : p.attempts = s.attemptsOf h := by rw [hpe]; rfl
    cases hr : p.registrable <;> simp only [hr] at hst <;> try (simp at hst)
    cases hv : verifyAttempt p { a with st := .inflight } <;> simp only [hv] at hst <;> try (simp at hst)
    have hno : ¬ ∃ x, x ∈ p.attempts ∧ x.id = a.id := by
      rw [hpa]
      intro ⟨x, hx, hxid⟩
      have : (s.attemptsOf h).any (fun x => x.id == a.id) = true := by
        simp only [List.any_eq_true]; exact ⟨x, hx, by simp [hxid]⟩
      simp [hfresh] at this
    rw [if_neg hno] at hst
    simp at hst
    exact hst.1.symm

/-! ## non-vacuity and the divergence outside the contract -/

def mppAttempt (id amt : Nat) : Attempt := ⟨id, amt, 1, ⟨false, 0, some (1, 10)⟩, .inflight⟩

/-- a contract-respecting history with two payments, shards, a settle, a fail and a re-init. -/
def sampleOps : List Op :=
  [.init 0 10, .reg 0 (mppAttempt 0 4), .reg 0 (mppAttempt 1 6), .settle 0 0, .failAtt 0 1,
   .init 1 10, .reg 1 (mppAttempt 2 10), .failAtt 1 2, .fail 1 3, .init 1 7, .del 5, .fetch 0]

example : respects Store.empty sampleOps = true := by decide

example : ((exec .kv Store.empty sampleOps).payment? 0).map (·.status) = some .succeeded := by decide
example : ((exec .sql Store.empty sampleOps).payment? 1).map (·.value) = some 7 := by decide

/-- the documented conflicting state (one shard fails, payment-level `Fail` while the other shard
    is in flight, that shard settles ⇒ succeeded WITH a failure reason), then
    `DeletePayments(failedOnly = true, false)`, then `InitPayment`: still refused, both backends. -/
def conflictOps : List Op :=
  [.init 0 10, .reg 0 (mppAttempt 0 4), .reg 0 (mppAttempt 1 6), .failAtt 0 0, .fail 0 1,
   .settle 0 1, .delAll true false, .init 0 10]

example : (run .sql Store.empty conflictOps).2.map (·.1) =
    [.ok, .ok, .ok, .ok, .ok, .ok, .ok, .alreadyPaid] := by decide
example : (run .kv Store.empty conflictOps).2.map (·.1) =
    [.ok, .ok, .ok, .ok, .ok, .ok, .ok, .alreadyPaid] := by decide
example : ((exec .sql Store.empty (conflictOps.take 6)).payment? 0).map
    (fun p => (p.status, p.reason)) = some (.succeeded, some 1) := by decide

/-- register_gate / no_reinit hypotheses are satisfiable. -/
example : ∃ s' d, step .sql Store.empty (.init 3 10) = (s', .ok, d) := ⟨_, _, rfl⟩
example : ∃ s' d, step .kv (exec .kv Store.empty [.init 3 10]) (.reg 3 (mppAttempt 0 10)) = (s', .ok, d) :=
  ⟨_, _, rfl⟩

/-- THE FINDING, on the model (confirmed on the real KVStore by the harness): re-registering
    attempt id 0 overwrites the stored attempt, so three registrations of 5 + 3 + 6 = 14 msat are
    admitted for a 10 msat payment while the store shows 3 + 6 = 9; the SQL model refuses the
    second one. -/
def dupOps : List Op := [.init 0 10, .reg 0 (mppAttempt 0 5), .reg 0 (mppAttempt 0 3), .reg 0 (mppAttempt 1 6)]

example : (run .kv Store.empty dupOps).2.map (·.1) = [.ok, .ok, .ok, .ok] := by decide
example : (run .sql Store.empty dupOps).2.map (·.1) = [.ok, .ok, .other, .valueExceedsAmt] := by decide
example : ((exec .kv Store.empty dupOps).payment? 0).map (·.sent) = some 9 := by decide
example : respects Store.empty dupOps = false := by decide

end LndModel.C16
