/-
C16 — round 7: run-level invariant of the payment lifecycle model `lifeRun` (Life.lean).
`life_reg_allowed` / `life_never_launches_on_terminal`: for EVERY starting store, oracle list
(routes, switch / mission-control answers, cancellations, database failures before or after any
write), pending switch result and fuel, every `RegisterAttempt` a run issues is issued on a store
whose payment allows more attempts at that moment. A restart is just another run, so the
statement covers every sequence of crashes and restarts.
-/
import LndModel.C16.Props6
set_option linter.unusedSimpArgs false
set_option linter.unusedVariables false
namespace LndModel.C16

def CallOk (c : LifeCfg) (pre : Store) : Op → Prop
  | .reg _ _ => ∃ p, pre.payment? c.h = some p ∧ p.allowMore = .yes
  | _ => True

def EvOk (c : LifeCfg) : Ev → Prop
  | .call pre op _ => CallOk c pre op
  | .ask _ _ => True

def AllOk (c : LifeCfg) (evs : List Ev) : Prop := ∀ ev ∈ evs, EvOk c ev

theorem allOk_append {c : LifeCfg} {a b : List Ev} (ha : AllOk c a) (hb : AllOk c b) : AllOk c (a ++ b) := by
  intro ev hev
  rcases List.mem_append.1 hev with h | h
  · exact ha ev h
  · exact hb ev h

theorem dbCall_ok (c : LifeCfg) (l : LS) (op : Op) (h : AllOk c l.evs) (hop : CallOk c l.s op) :
    AllOk c (dbCall c l op).1.evs := by
  unfold dbCall
  dsimp only
  split
  · apply allOk_append h
    intro ev hev
    simp at hev
    rcases hev with rfl | rfl <;> simp [EvOk, hop]
  · apply allOk_append h
    intro ev hev
    simp at hev
    subst hev
    simp [EvOk, hop]

theorem dbCallE_fst (c : LifeCfg) (l : LS) (op : Op) : (dbCallE c l op).1 = (dbCall c l op).1 := by
  unfold dbCallE
  split
  · rename_i h; simp [h]
  · rename_i h; simp [h]; split <;> rfl

theorem resolveCall_evs (c : LifeCfg) (l : LS) (id : Nat) (op : Op) :
    (resolveCall c l id op).1.evs = (dbCall c l op).1.evs := by
  unfold resolveCall
  dsimp only
  simp only [dbCallE_fst]
  repeat' split
  all_goals rfl


theorem resolveCall_ok (c : LifeCfg) (l : LS) (id : Nat) (op : Op) (h : AllOk c l.evs)
    (hop : CallOk c l.s op) : AllOk c (resolveCall c l id op).1.evs := by
  rw [resolveCall_evs]; exact dbCall_ok c l op h hop

theorem dbCallE_ok (c : LifeCfg) (l : LS) (op : Op) (h : AllOk c l.evs)
    (hop : CallOk c l.s op) : AllOk c (dbCallE c l op).1.evs := by
  rw [dbCallE_fst]; exact dbCall_ok c l op h hop

theorem failAttemptL_ok (c : LifeCfg) (l : LS) (id : Nat) (h : AllOk c l.evs) :
    AllOk c (failAttemptL c l id).1.evs := by
  have := resolveCall_ok c l id (.failAtt c.h id) h trivial
  unfold failAttemptL
  split <;> (rename_i heq; rw [heq] at this; exact this)

theorem failBothL_ok (c : LifeCfg) (l : LS) (id r : Nat) (h : AllOk c l.evs) :
    AllOk c (failBothL c l id r).1.evs := by
  have := dbCallE_ok c l (.fail c.h r) h trivial
  unfold failBothL
  split
  · rename_i heq; rw [heq] at this; exact failAttemptL_ok c _ id this
  · rename_i heq; rw [heq] at this; exact this

theorem handleSwitchErrL_ok (c : LifeCfg) (l : LS) (id : Nat) (k : SwKind) (h : AllOk c l.evs) :
    AllOk c (handleSwitchErrL c l id k).1.evs := by
  unfold handleSwitchErrL
  have hext : ∀ (os' : List OEv) (v : Option (Option Nat)),
      AllOk c ({ l with os := os', evs := l.evs ++ [Ev.ask (.mc v) [id]] } : LS).evs := by
    intro os' v
    apply allOk_append h
    intro ev hev; simp at hev; subst hev; trivial
  have hmc : AllOk c (match l.os with
        | OEv.mc v :: os' =>
          let l : LS := { l with os := os', evs := l.evs ++ [Ev.ask (OEv.mc v) [id]] }
          match v with
          | none => failBothL c l id 2
          | some none => failAttemptL c l id
          | some (some r) => failBothL c l id r
        | _ => (l, some LErr.desync)).fst.evs := by
    split
    · dsimp only
      split
      · exact failBothL_ok c _ id 2 (hext _ _)
      · exact failAttemptL_ok c _ id (hext _ _)
      · exact failBothL_ok c _ id _ (hext _ _)
    · exact h
  split
  · exact h
  · exact failAttemptL_ok c l id h
  · exact failBothL_ok c l id 2 h
  · exact hmc
  · exact hmc

theorem handleResultL_ok (c : LifeCfg) (l : LS) (id : Nat) (k : SwKind) (h : AllOk c l.evs) :
    AllOk c (handleResultL c l id k).1.evs := by
  unfold handleResultL
  split
  · have := resolveCall_ok c l id (.settle c.h id) h trivial
    split <;> (rename_i heq; rw [heq] at this; exact this)
  · exact handleSwitchErrL_ok c l id _ h


theorem fetch_some (c : LifeCfg) (l l' : LS) (e : Err) (p : Payment)
    (h : dbCallE c l (.fetch c.h) = (l', .ok (e, some p))) : l'.s.payment? c.h = some p := by
  unfold dbCallE at h
  split at h
  · simp at h
  · rename_i l1 r heq
    split at h
    · simp only [Prod.mk.injEq, Except.ok.injEq] at h
      obtain ⟨h3, h4⟩ := h
      subst h3
      unfold dbCall at heq
      dsimp only at heq
      split at heq
      · simp at heq
      · simp only [Prod.mk.injEq, Option.some.injEq] at heq
        obtain ⟨h1, h2⟩ := heq
        subst h1
        dsimp only
        cases hp : l.s.payment? c.h with
        | none => simp [step, hp] at h2; rw [← h2] at h4; simp at h4
        | some q => simp [step, hp] at h2 ⊢; rw [← h2] at h4; simp at h4; simp [hp, h4]
    · simp at h

theorem dbCallE_ok' {c : LifeCfg} {l l' : LS} {op : Op} {r : Except LErr Res}
    (heq : dbCallE c l op = (l', r)) (h : AllOk c l.evs) (hop : CallOk c l.s op) : AllOk c l'.evs := by
  have := dbCallE_ok c l op h hop; rw [heq] at this; exact this

theorem handleResultL_ok' {c : LifeCfg} {l l' : LS} {id : Nat} {k : SwKind} {r : Option LErr}
    (heq : handleResultL c l id k = (l', r)) (h : AllOk c l.evs) : AllOk c l'.evs := by
  have := handleResultL_ok c l id k h; rw [heq] at this; exact this

theorem handleSwitchErrL_ok' {c : LifeCfg} {l l' : LS} {id : Nat} {k : SwKind} {r : Option LErr}
    (heq : handleSwitchErrL c l id k = (l', r)) (h : AllOk c l.evs) : AllOk c l'.evs := by
  have := handleSwitchErrL_ok c l id k h; rw [heq] at this; exact this

theorem allOk_ask {c : LifeCfg} {evs : List Ev} (h : AllOk c evs) (o : OEv) (a : List Nat) :
    AllOk c (evs ++ [Ev.ask o a]) := by
  apply allOk_append h; intro ev hev; simp at hev; subst hev; trivial

theorem allOk_ask2 {c : LifeCfg} {evs : List Ev} (h : AllOk c evs) (o o2 : OEv) (a a2 : List Nat) :
    AllOk c (evs ++ [Ev.ask o a, Ev.ask o2 a2]) := by
  apply allOk_append h; intro ev hev; simp at hev; rcases hev with rfl | rfl <;> trivial

theorem proceed_allow {p : Payment} (h : p.nextStep = .proceed) : p.allowMore = .yes := by
  unfold Payment.nextStep at h
  cases hA : p.allowMore with
  | yes => rfl
  | internal => simp [hA] at h
  | no => simp [hA] at h; split at h <;> simp at h

theorem ctxBlock_ok (c : LifeCfg) (l : LS) (cancelled : Option Nat) (h : AllOk c l.evs) :
    AllOk c (ctxBlock c l cancelled).1.evs := by
  unfold ctxBlock
  split
  · rename_i r
    have := dbCallE_ok c l (.fail c.h r) h trivial
    split <;> (rename_i heq; rw [heq] at this; exact this)
  · exact h

theorem ctxOracle_ok (c : LifeCfg) (l : LS) (cancelled : Option Nat) (h : AllOk c l.evs) :
    AllOk c (ctxOracle l cancelled).1.evs ∧ (ctxOracle l cancelled).1.s = l.s := by
  unfold ctxOracle
  split
  · split
    · exact ⟨allOk_ask h _ _, rfl⟩
    · exact ⟨h, rfl⟩
  · exact ⟨h, rfl⟩

theorem pickResult_ok (c : LifeCfg) (l : LS) (h : AllOk c l.evs) : AllOk c (pickResult l).1.evs := by
  unfold pickResult
  split
  · exact h
  · split
    · exact allOk_ask h _ _
    · exact h

theorem waitBlock_ok (c : LifeCfg) (l : LS) (h : AllOk c l.evs) : AllOk c (waitBlock c l).1.evs := by
  have hs := pickResult_ok c l h
  unfold waitBlock
  split
  · rename_i heq; rw [heq] at hs; exact hs
  · rename_i heq; rw [heq] at hs; exact handleResultL_ok c _ _ _ hs

theorem proceedBlock_ok (c : LifeCfg) (l : LS) (p : Payment) (h : AllOk c l.evs)
    (hp : l.s.payment? c.h = some p) (hal : p.allowMore = .yes) :
    AllOk c (proceedBlock c l p).1.evs := by
  unfold proceedBlock
  dsimp only
  split
  · exact allOk_ask h _ _
  · split
    · rename_i heq; exact dbCallE_ok' heq (allOk_ask h _ _) trivial
    · rename_i heq; exact dbCallE_ok' heq (allOk_ask h _ _) trivial
  · rename_i _ amt fee id os' heq0
    have h2 := allOk_ask2 (c := c) h (.route amt fee) (.nextId id)
      [p.remaining, feeBudget c.feeLimit p.feesPaid, p.numInFlight] []
    split
    · rename_i heq; exact dbCallE_ok' heq h2 ⟨p, hp, hal⟩
    · rename_i heq
      have h3 := dbCallE_ok' heq h2 ⟨p, hp, hal⟩
      split
      · exact handleSwitchErrL_ok c _ _ _ (allOk_ask h3 _ _)
      · exact h3
  · exact h

theorem lifeLoop_ok (c : LifeCfg) : ∀ (fuel : Nat) (l : LS) (cancelled : Option Nat),
    AllOk c l.evs → AllOk c (lifeLoop c fuel l cancelled).1.evs
  | 0, l, _, h => by simpa [lifeLoop] using h
  | fuel + 1, l, cancelled, h => by
    have ih := lifeLoop_ok c fuel
    have hcc := ctxBlock_ok c l cancelled h
    unfold lifeLoop
    split
    · rename_i heq; rw [heq] at hcc; exact hcc
    · rename_i l1 heq
      rw [heq] at hcc
      split
      · rename_i heq2; exact dbCallE_ok' heq2 hcc trivial
      · rename_i heq2; exact dbCallE_ok' heq2 hcc trivial
      · rename_i l2 e p heq2
        have h2 : AllOk c l2.evs := dbCallE_ok' heq2 hcc trivial
        have hp : l2.s.payment? c.h = some p := fetch_some c _ _ _ _ heq2
        have hco := ctxOracle_ok c l2 cancelled h2
        split
        · rename_i l3 canc heq3
          rw [heq3] at hco
          split
          · exact hco.1
          · exact hco.1
          · have hw := waitBlock_ok c l3 hco.1
            split
            · rename_i heq4; rw [heq4] at hw; exact hw
            · rename_i heq4; rw [heq4] at hw; exact ih _ _ hw
          · rename_i hstep
            have hpb := proceedBlock_ok c l3 p hco.1 (by rw [hco.2]; exact hp) (proceed_allow hstep)
            split
            · rename_i heq4; rw [heq4] at hpb; exact hpb
            · rename_i heq4; rw [heq4] at hpb; exact ih _ _ hpb


/-- `life_reg_allowed`: in EVERY run of the lifecycle — any store to start from (in particular the
    one a crashed earlier run left behind), any oracle list (routes of any amount, switch and
    mission-control answers, cancellations, database failures before / after any write), any
    pending switch result — every `RegisterAttempt` is issued on a store whose payment allows more
    attempts at that very moment. -/
theorem life_reg_allowed (c : LifeCfg) (fuel : Nat) (s : Store) (os : List OEv) (pend : Pending) :
    AllOk c (lifeRun c fuel s os pend).evs := by
  unfold lifeRun
  dsimp only
  have h0 : AllOk c ([] : List Ev) := by intro ev hev; cases hev
  split
  · rename_i heq; exact dbCallE_ok' (l := ⟨s, os, pend, [], 0⟩) heq h0 trivial
  · rename_i l1 _ heq
    have h1 : AllOk c l1.evs := dbCallE_ok' (l := ⟨s, os, pend, [], 0⟩) heq h0 trivial
    have h2 := lifeLoop_ok c fuel l1 none h1
    split
    · rename_i heq2; rw [heq2] at h2; exact h2
    · rename_i heq2; rw [heq2] at h2; exact h2
    · rename_i heq2
      rw [heq2] at h2
      dsimp only
      split
      · exact h2
      · exact dbCall_ok c _ _ h2 trivial

/-- the statement in plain terms: whenever a run registers an attempt, the payment in the store it
    registers on is initiated / in flight, has no settled attempt, no failure reason, and its stored
    settled + in-flight amounts are below the payment value. -/
theorem life_never_launches_on_terminal (c : LifeCfg) (fuel : Nat) (s : Store) (os : List OEv)
    (pend : Pending) (pre : Store) (h' : Nat) (a : Attempt) (ans : Option Res)
    (hev : Ev.call pre (.reg h' a) ans ∈ (lifeRun c fuel s os pend).evs) :
    ∃ p, pre.payment? c.h = some p ∧ (p.status = .initiated ∨ p.status = .inFlight) ∧
      hasSettled p.attempts = false ∧ p.reason = none ∧ p.sent < p.value := by
  obtain ⟨p, hp, hal⟩ := life_reg_allowed c fuel s os pend _ hev
  exact ⟨p, hp, allow_yes_gate p hal⟩

/-- non-vacuity: a run that registers two shards (5 + 5 of 10), is interrupted by a database
    failure after the second write, and the restarted run (empty session) settles both. -/
def demoCfg : LifeCfg := { h := 0, feeLimit := 100, shape := ⟨false, 0, some (7, 10)⟩, keep := false }
def demoStore : Store := (step .kv Store.empty (.init 0 10)).1
def demoRun1 : RunResult :=
  lifeRun demoCfg 20 demoStore
    [.route 5 1, .nextId 1, .send .ok, .route 5 1, .nextId 2, .send .ok, .crash true 5] none
def demoRun2 : RunResult :=
  lifeRun { demoCfg with feeLimit := 0 } 20 demoRun1.s
    [.result 2 .idNotFound, .noRoute 1, .result 1 .ok] none

def regCount (evs : List Ev) : Nat :=
  (evs.filter (fun ev => match ev with | .call _ (.reg _ _) _ => true | _ => false)).length

example : regCount demoRun1.evs = 2 ∧ demoRun1.out = .err .crash ∧
    (demoRun1.s.payment? 0).map (·.numInFlight) = some 2 := by decide
example : regCount demoRun2.evs = 0 ∧ demoRun2.out = .err .internal ∧
    (demoRun2.s.payment? 0).map (·.status) = some .succeeded ∧
    (demoRun2.s.payment? 0).map (·.sent) = some 5 := by decide

end LndModel.C16
