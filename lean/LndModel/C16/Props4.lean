/-
C16 — round-5 theorems, part 3: concurrency.  Model: every `paymentsdb.DB` method is one
database transaction and the database serialises transactions (TRUSTED: bbolt's single writer /
`kvdb.Batch`, the SQL `ExecTx` serialisable transaction with retry — see trusted_base), so a
concurrent execution of n callers is a schedule of whole calls (`Conc.sched`, Light.lean).
Proved here: EVERY schedule is a sequential run of an interleaving of the callers' programs that
preserves each caller's program order, every answer is the sequential answer at its
linearisation point, and therefore every sequential theorem holds at every point of every
schedule.
-/
import LndModel.C16.Props3

set_option linter.unusedSimpArgs false
set_option linter.unusedVariables false

namespace LndModel.C16

def Conc.progOf (c : Conc) (t : Nat) : List Op := (c.progs[t]?).getD []

theorem Conc.sched_cons (b : Backend) (c : Conc) (t : Nat) (ts : List Nat) :
    c.sched b (t :: ts) = (c.tick b t).sched b ts := rfl

theorem Conc.sched_append (b : Backend) (c : Conc) (ts us : List Nat) :
    c.sched b (ts ++ us) = (c.sched b ts).sched b us := by
  simp [Conc.sched, List.foldl_append]

theorem callsOf_cons (t : Nat) (e : Nat × Op × Res) (tr : List (Nat × Op × Res)) :
    callsOf t (e :: tr) = (if e.1 == t then [e.2.1] else []) ++ callsOf t tr := by
  simp only [callsOf, List.filter_cons]
  split <;> simp

/-- one tick: either nothing happens, or caller `t` completes the head `op` of its program with
    the sequential answer in the current store. -/
theorem Conc.tick_cases (b : Backend) (c : Conc) (t : Nat) :
    c.tick b t = c ∨
    ∃ op rest, c.progOf t = op :: rest ∧
      (c.tick b t).store = (step b c.store op).1 ∧
      (c.tick b t).trace = c.trace ++ [(t, op, (step b c.store op).2)] ∧
      (∀ u, (c.tick b t).progOf u = if u = t then rest else c.progOf u) := by
  unfold Conc.tick
  cases hp : c.progs[t]? with
  | none => exact Or.inl rfl
  | some prog =>
    cases prog with
    | nil => exact Or.inl rfl
    | cons op rest =>
      refine Or.inr ⟨op, rest, by simp [Conc.progOf, hp], rfl, rfl, ?_⟩
      intro u
      have hlt : t < c.progs.length := by
        rcases Nat.lt_or_ge t c.progs.length with h | h
        · exact h
        · have := List.getElem?_eq_none h
          rw [hp] at this; cases this
      simp only [Conc.progOf, List.getElem?_set]
      by_cases hut : u = t
      · subst hut; simp [hlt]
      · have : ¬ t = u := fun e => hut e.symm
        simp [this, hut]

/-- `sched_linearizable` — every schedule of whole calls is a sequential history: the calls
    completed during the schedule (`suf`, in completion order) satisfy
    (1) the final store is the sequential execution of their operation list,
    (2) every answer is the sequential answer (`run`) of that list,
    (3) for every caller, its completed calls followed by its remaining program are its original
        program (the list is an interleaving that preserves each caller's program order). -/
theorem sched_linearizable (b : Backend) (ticks : List Nat) (c : Conc) :
    ∃ suf, (c.sched b ticks).trace = c.trace ++ suf ∧
      (c.sched b ticks).store = exec b c.store (suf.map (·.2.1)) ∧
      suf.map (·.2.2) = (run b c.store (suf.map (·.2.1))).2 ∧
      ∀ t, callsOf t suf ++ (c.sched b ticks).progOf t = c.progOf t := by
  induction ticks generalizing c with
  | nil => exact ⟨[], by simp [Conc.sched], rfl, rfl, fun t => by simp [callsOf, Conc.sched]⟩
  | cons t ts ih =>
    rw [Conc.sched_cons]
    obtain ⟨suf, h1, h2, h3, h4⟩ := ih (c.tick b t)
    rcases Conc.tick_cases b c t with he | ⟨op, rest, hprog, hst, htr, hpo⟩
    · rw [he] at h1 h2 h3 h4 ⊢
      exact ⟨suf, h1, h2, h3, h4⟩
    · refine ⟨(t, op, (step b c.store op).2) :: suf, ?_, ?_, ?_, ?_⟩
      · rw [h1, htr]; simp
      · rw [h2, hst]; rfl
      · simp only [List.map_cons, run]
        rw [← hst, ← h3]
      · intro u
        rw [callsOf_cons, List.append_assoc, h4 u, hpo u]
        by_cases hut : u = t
        · subst hut; simp [hprog]
        · have : (t == u) = false := by simp; exact fun e => hut e.symm
          simp [this, hut]

/-- the same from the start configuration: the whole trace is the linearisation. -/
theorem sched_linearizable_start (b : Backend) (s : Store) (progs : List (List Op)) (ticks : List Nat) :
    let c := (Conc.start s progs).sched b ticks
    c.store = exec b s (c.trace.map (·.2.1)) ∧
    c.trace.map (·.2.2) = (run b s (c.trace.map (·.2.1))).2 ∧
    ∀ t, callsOf t c.trace ++ c.progOf t = (progs[t]?).getD [] := by
  obtain ⟨suf, h1, h2, h3, h4⟩ := sched_linearizable b ticks (Conc.start s progs)
  have h1' : ((Conc.start s progs).sched b ticks).trace = suf := by
    rw [h1]; rfl
  intro c
  show c.store = exec b s (c.trace.map (·.2.1)) ∧ _
  rw [show c.trace = suf from h1']
  exact ⟨h2, h3, h4⟩

/-- every completed call was issued by its caller's program. -/
theorem trace_op_mem_prog (b : Backend) (ticks : List Nat) (c : Conc) (suf : List (Nat × Op × Res))
    (h4 : ∀ t, callsOf t suf ++ (c.sched b ticks).progOf t = c.progOf t)
    (e : Nat × Op × Res) (he : e ∈ suf) : e.2.1 ∈ c.progOf e.1 := by
  rw [← h4 e.1]
  apply List.mem_append_left
  simp only [callsOf, List.mem_map, List.mem_filter]
  exact ⟨e, ⟨he, by simp⟩, rfl⟩

/-- the answer of the n-th completed call is `step` in the store reached by the calls completed
    before it (its linearisation point). -/
theorem run_answer_at (b : Backend) (s : Store) (ops : List Op) (n : Nat) (op : Op)
    (h : ops[n]? = some op) :
    ((run b s ops).2)[n]? = some (step b (exec b s (ops.take n)) op).2 := by
  induction ops generalizing s n with
  | nil => simp at h
  | cons o os ih =>
    cases n with
    | zero =>
      simp only [List.getElem?_cons_zero, Option.some.injEq] at h
      subst h
      simp [run, exec]
    | succ n =>
      simp only [List.getElem?_cons_succ] at h
      simp only [run, List.getElem?_cons_succ, List.take_succ_cons, exec_cons]
      exact ih _ n h

/-! ### the sequential theorems at every point of every schedule -/

/-- any per-payment invariant of `PStep` holds after every schedule. -/
theorem conc_invariant (P : Option Payment → Prop)
    (hstep : ∀ op k x y, PStep op k x y → P x → P y)
    (b : Backend) (c : Conc) (ticks : List Nat) (k : Nat) (h0 : P (c.store.payment? k)) :
    P ((c.sched b ticks).store.payment? k) := by
  obtain ⟨suf, _, h2, _, _⟩ := sched_linearizable b ticks c
  rw [h2]
  exact exec_invariant P hstep b _ c.store k h0

/-- `conc_stored_within` — never-overpay (stored rows) under concurrency: after ANY schedule of
    ANY number of concurrent callers with ANY programs, on either backend, every payment's stored
    settled + in-flight amounts are within its amount. -/
theorem conc_stored_within (b : Backend) (progs : List (List Op)) (ticks : List Nat) (k : Nat)
    (p : Payment) (hp : ((Conc.start Store.empty progs).sched b ticks).store.payment? k = some p) :
    p.sent ≤ p.value :=
  conc_invariant Within pstep_within b (Conc.start Store.empty progs) ticks k
    (by intro q hq; cases hq) p hp

/-- `conc_never_overpay_admitted_sql` — the admitted-attempt ledger of the linearisation (one row
    per RegisterAttempt any caller got answered `ok`) stays within the amount on the SQL store,
    for every schedule. -/
theorem conc_never_overpay_admitted_sql (progs : List (List Op)) (ticks : List Nat) (k : Nat)
    (p : Payment)
    (hp : ((Conc.start Store.empty progs).sched .sql ticks).store.payment? k = some p) :
    admittedSent (gexec .sql (Store.empty, [])
      (((Conc.start Store.empty progs).sched .sql ticks).trace.map (·.2.1))).2 k ≤ p.value := by
  have h := sched_linearizable_start .sql Store.empty progs ticks
  simp only at h
  rw [h.1] at hp
  exact never_overpay_admitted_sql _ k p hp

/-- `conc_register_gate` — every registration any caller got admitted, in any schedule, passed
    the full gate in the store of its linearisation point. -/
theorem conc_register_gate (b : Backend) (s : Store) (progs : List (List Op)) (ticks : List Nat)
    (n t h : Nat) (a : Attempt) (d : Option Payment)
    (he : ((Conc.start s progs).sched b ticks).trace[n]? = some (t, .reg h a, .ok, d)) :
    ∃ p, (exec b s ((((Conc.start s progs).sched b ticks).trace.take n).map (·.2.1))).payment? h = some p ∧
      (∀ x ∈ p.attempts, x.st ≠ .settled) ∧ p.reason = none ∧
      (p.status = .initiated ∨ p.status = .inFlight) ∧ p.sent + a.amt ≤ p.value := by
  have hl := sched_linearizable_start b s progs ticks
  simp only at hl
  generalize ((Conc.start s progs).sched b ticks).trace = tr at he hl
  have hop : (tr.map (·.2.1))[n]? = some (.reg h a) := by simp [he]
  have hans := run_answer_at b s (tr.map (·.2.1)) n (.reg h a) hop
  rw [← hl.2.1] at hans
  simp only [List.getElem?_map, he, Option.map_some, Option.some.injEq] at hans
  rw [← List.map_take] at hans
  obtain ⟨p, hp, h1, h2, h3, _, _, _, h7⟩ := register_gate b _ _ h a d (Prod.ext rfl hans.symm)
  exact ⟨p, hp, h1, h2, h3, h7⟩

/-- `conc_settled_monotone` — status / amount-paid monotonicity under concurrency: if at some
    point of a schedule payment `k` has a settled attempt and no caller's remaining program
    contains an explicit `DeletePayment k` / `DeletePayments(false,false)`, then after ANY
    continuation of the schedule it still exists with a settled attempt, has paid at least as
    much, is not failed and is not re-initialisable. -/
theorem conc_settled_monotone (b : Backend) (c : Conc) (ticks : List Nat) (k : Nat) (p : Payment)
    (hp : c.store.payment? k = some p) (hs : hasSettled p.attempts = true)
    (hno : ∀ t, Op.del k ∉ c.progOf t ∧ Op.delAll false false ∉ c.progOf t) :
    ∃ q, (c.sched b ticks).store.payment? k = some q ∧ SettledKept p q := by
  obtain ⟨suf, _, h2, _, h4⟩ := sched_linearizable b ticks c
  rw [h2]
  have hmem : ∀ op ∈ suf.map (·.2.1), ∃ t, op ∈ c.progOf t := by
    intro op hop
    obtain ⟨e, he, rfl⟩ := List.mem_map.1 hop
    exact ⟨e.1, trace_op_mem_prog b ticks c suf h4 e he⟩
  obtain ⟨q, hq, hk, _⟩ := settled_monotone b (suf.map (·.2.1)) c.store k p hp hs
    (fun hin => by obtain ⟨t, ht⟩ := hmem _ hin; exact (hno t).1 ht)
    (fun hin => by obtain ⟨t, ht⟩ := hmem _ hin; exact (hno t).2 ht)
  exact ⟨q, hq, hk⟩

/-- `conc_succeeded_absorbing` likewise. -/
theorem conc_succeeded_absorbing (b : Backend) (c : Conc) (ticks : List Nat) (k : Nat) (p : Payment)
    (hp : c.store.payment? k = some p) (hs : p.status = .succeeded)
    (hno : ∀ t, Op.del k ∉ c.progOf t ∧ Op.delAll false false ∉ c.progOf t) :
    ∃ q, (c.sched b ticks).store.payment? k = some q ∧ q.status = .succeeded ∧ q.value = p.value := by
  obtain ⟨suf, _, h2, _, h4⟩ := sched_linearizable b ticks c
  rw [h2]
  have hmem : ∀ op ∈ suf.map (·.2.1), ∃ t, op ∈ c.progOf t := by
    intro op hop
    obtain ⟨e, he, rfl⟩ := List.mem_map.1 hop
    exact ⟨e.1, trace_op_mem_prog b ticks c suf h4 e he⟩
  exact succeeded_absorbing b (suf.map (·.2.1)) c.store k p hp hs
    (fun hin => by obtain ⟨t, ht⟩ := hmem _ hin; exact (hno t).1 ht)
    (fun hin => by obtain ⟨t, ht⟩ := hmem _ hin; exact (hno t).2 ht)

/-- two callers racing to initiate the same hash: in every schedule exactly the first completed
    `InitPayment` succeeds (concrete instance, both orders). -/
def racePrograms : List (List Op) :=
  [[.init 0 10, .reg 0 (mppAttempt 0 6)], [.init 0 10, .reg 0 (mppAttempt 1 6)]]

example : (((Conc.start Store.empty racePrograms).sched .kv [0, 1, 1, 0]).trace.map (fun e => (e.1, e.2.2.1))) =
    [(0, .ok), (1, .paymentExists), (1, .ok), (0, .valueExceedsAmt)] := by decide
example : (((Conc.start Store.empty racePrograms).sched .sql [1, 0, 0, 1, 1, 0]).trace.map (fun e => (e.1, e.2.2.1))) =
    [(1, .ok), (0, .paymentExists), (0, .ok), (1, .valueExceedsAmt)] := by decide

end LndModel.C16
