/-
C16 — refinement of the regenerated payment-status decision tables (LndModel.Gen.C16, produced by
tools/go2lean from payments/db/payment_status.go `initializable`, `removable`, `updatable`,
`decidePaymentStatus`) to the hand-written model `LndModel.C16`.

Bound in the spec (trusted): `reason != nil` is the boolean parameter `reasonSet`; each ranged
`HTLCAttempt` is read only through `h.Failure != nil` and `h.Settle != nil` (a pair of booleans).
-/
import LndModel.Gen.C16
import LndModel.C16.Model

namespace LndModel.C16.GenRefine
open LndModel.Gen

/-- `PaymentStatus` byte value of the model's status. -/
def statusCode : Status → Int
  | .initiated => Gen.C16.StatusInitiated
  | .inFlight => Gen.C16.StatusInFlight
  | .succeeded => Gen.C16.StatusSucceeded
  | .failed => Gen.C16.StatusFailed

theorem statusCode_values : statusCode .initiated = 1 ∧ statusCode .inFlight = 2 ∧
    statusCode .succeeded = 3 ∧ statusCode .failed = 4 := by decide

/-- The model's error enum read as the Go sentinel. -/
def errMap : C16.Err → Except Gen.C16.Err Unit
  | .ok => .ok ()
  | .paymentExists => .error .ErrPaymentExists
  | .paymentInFlight => .error .ErrPaymentInFlight
  | .alreadyPaid => .error .ErrAlreadyPaid
  | .alreadySucceeded => .error .ErrPaymentAlreadySucceeded
  | .alreadyFailed => .error .ErrPaymentAlreadyFailed
  | _ => .error .ErrUnknownPaymentStatus

/-- `initializable`: the regenerated switch is the model's table, for every status. -/
theorem initializable_refines (st : Status) :
    Gen.C16.PaymentStatus_initializable (statusCode st) = errMap (C16.initializable st) := by
  cases st <;> rfl

/-- `removable`. -/
theorem removable_refines (st : Status) :
    Gen.C16.PaymentStatus_removable (statusCode st) = errMap (C16.removable st) := by
  cases st <;> rfl

/-- `updatable`. -/
theorem updatable_refines (st : Status) :
    Gen.C16.PaymentStatus_updatable (statusCode st) = errMap (C16.updatable st) := by
  cases st <;> rfl

/-- Every byte value that is not one of the four statuses is rejected by all three tables (the
    model's `Status` type has no such value). -/
theorem unknown_status_rejected (ps : Int) (h : ps ≠ 1 ∧ ps ≠ 2 ∧ ps ≠ 3 ∧ ps ≠ 4) :
    Gen.C16.PaymentStatus_initializable ps = .error .ErrUnknownPaymentStatus ∧
    Gen.C16.PaymentStatus_removable ps = .error .ErrUnknownPaymentStatus ∧
    Gen.C16.PaymentStatus_updatable ps = .error .ErrUnknownPaymentStatus := by
  obtain ⟨h1, h2, h3, h4⟩ := h
  refine ⟨?_, ?_, ?_⟩ <;>
    simp only [Gen.C16.PaymentStatus_initializable, Gen.C16.PaymentStatus_removable,
      Gen.C16.PaymentStatus_updatable] <;>
    (repeat' split) <;> first | rfl | (exfalso; omega)

/-- What the code reads from one attempt: `(Failure != nil, Settle != nil)`. -/
def elemOf (a : Attempt) : Bool × Bool := (a.st == .failed, a.st == .settled)

/-- The flag loop: the regenerated fold over the ranged slice is the model's `scanFlags`. -/
theorem loop_refines (L : List (Bool × Bool)) (rs pf : Bool) :
    ∀ (as : List Attempt) (i s f : Bool),
      Gen.C16.decidePaymentStatus_loop1 L rs pf (as.map elemOf) f s i
        = ((C16.scanFlags as (i, s, f)).2.2, (C16.scanFlags as (i, s, f)).2.1,
            (C16.scanFlags as (i, s, f)).1) := by
  intro as
  induction as with
  | nil => intro i s f; rfl
  | cons a as ih =>
    intro i s f
    cases hst : a.st <;>
      simp [List.map, elemOf, hst, Gen.C16.decidePaymentStatus_loop1, C16.scanFlags, ih]

/-- `decidePaymentStatus`: for every list of attempts and failure reason the regenerated function
    returns the model's `decideStatus` (and never the "impossible state" error). -/
theorem decidePaymentStatus_refines (as : List Attempt) (reason : Option Nat) :
    Gen.C16.decidePaymentStatus (as.map elemOf) reason.isSome
      = .ok (statusCode (C16.decideStatus as reason)) := by
  simp only [Gen.C16.decidePaymentStatus, C16.decideStatus, loop_refines]
  generalize C16.scanFlags as (false, false, false) = r
  obtain ⟨i, s, f⟩ := r
  cases i <;> cases s <;> cases f <;> cases reason <;> rfl

/-- Non-vacuity on a non-trivial instance: one failed and one settled attempt, no reason. -/
example : Gen.C16.decidePaymentStatus [(true, false), (false, true)] false = .ok 3 := rfl
example : Gen.C16.decidePaymentStatus [(true, false)] true = .ok 4 := rfl
example : Gen.C16.decidePaymentStatus [(true, false)] false = .ok 2 := rfl
example : Gen.C16.decidePaymentStatus [] false = .ok 1 := rfl
example := unknown_status_rejected 0 (by decide)

end LndModel.C16.GenRefine
