/-
C16 — round 7: the payment LIFECYCLE level (`Life.lean`): what the router decides from a
fetched payment (`AllowMoreAttempts`, `NeedWaitAttempts`, `TerminalInfo`, `decideNextStep`) and
what `resumePayment` (model `lifeRun`) does to the store for EVERY oracle list (path finding,
switch answers, mission control, context cancellation, database failures before / after any
write) — in particular after a restart, which is just another `lifeRun` on the store left behind.
-/
import LndModel.C16.Props
import LndModel.C16.Life

set_option linter.unusedSimpArgs false
set_option linter.unusedVariables false

namespace LndModel.C16

/-! ## decisions -/

/-- `AllowMoreAttempts() = (true, nil)` exactly when money remains to be sent and the payment is
    `Registrable`. -/
theorem allow_yes_iff (p : Payment) :
    p.allowMore = .yes ↔ p.remaining ≠ 0 ∧ p.registrable = .ok := by
  unfold Payment.allowMore
  by_cases h0 : p.remaining = 0
  · simp [h0]; split <;> simp
  · by_cases hs : p.status = .succeeded
    · have : p.registrable ≠ .ok := by
        intro h; have := ((registrable_ok_iff p).1 h).1; rw [hs] at this; simp at this
      simp [h0, hs, this]
    · by_cases hr : p.registrable = .ok <;> simp [h0, hs, hr]

/-- no attempt is launched unless the payment is initiated / in flight, no attempt has settled,
    no failure reason is recorded and the stored settled + in-flight amounts are below the value. -/
theorem allow_yes_gate (p : Payment) (h : p.allowMore = .yes) :
    (p.status = .initiated ∨ p.status = .inFlight) ∧ hasSettled p.attempts = false ∧
      p.reason = none ∧ p.sent < p.value := by
  obtain ⟨h0, hr⟩ := (allow_yes_iff p).1 h
  obtain ⟨h1, h2, h3⟩ := (registrable_ok_iff p).1 hr
  refine ⟨h1, h2, h3, ?_⟩
  unfold Payment.remaining at h0
  omega

/-- `terminal_no_launch`: the lifecycle never proceeds to a new attempt on a payment that is
    succeeded or failed, that has a settled attempt, or that carries a failure reason. -/
theorem terminal_no_launch (p : Payment)
    (h : p.status = .succeeded ∨ p.status = .failed ∨ hasSettled p.attempts = true ∨ p.reason.isSome = true) :
    p.nextStep ≠ .proceed := by
  intro hp
  have ha : p.allowMore = .yes := by
    unfold Payment.nextStep at hp
    cases hA : p.allowMore with
    | yes => rfl
    | internal => simp [hA] at hp
    | no => simp [hA] at hp; split at hp <;> simp at hp
  obtain ⟨h1, h2, h3, _⟩ := allow_yes_gate p ha
  rcases h with h | h | h | h
  · rcases h1 with h1 | h1 <;> rw [h] at h1 <;> simp at h1
  · rcases h1 with h1 | h1 <;> rw [h] at h1 <;> simp at h1
  · rw [h2] at h; simp at h
  · rw [h3] at h; simp at h

/-- the decision to launch agrees with the store's gate: whenever the lifecycle proceeds, a shard
    of ANY amount up to `RemainingAmt` whose final-hop records are consistent with the in-flight
    attempts and whose id is fresh is admitted by `RegisterAttempt` on either backend. -/
theorem allow_admits (b : Backend) (s : Store) (h : Nat) (p : Payment) (a : Attempt)
    (hp : s.payment? h = some p) (hal : p.allowMore = .yes)
    (hamt : a.amt ≤ p.remaining)
    (hshape : a.shape.blinded = false ∧ a.shape.mpp.isSome = true)
    (hloop : verifyLoop a.shape (inflightL p.attempts) = .ok)
    (hfresh : s.rows.all (fun r => r.a.id != a.id) = true) :
    (step b s (.reg h a)).2.1 = .ok := by
  obtain ⟨h0, hr⟩ := (allow_yes_iff p).1 hal
  have hv : verifyAttempt p { a with st := .inflight } = .ok := by
    unfold verifyAttempt
    simp only [hshape.1, hshape.2, Bool.false_and, Bool.false_eq_true, if_false, hloop, Bool.not_false,
      Bool.true_and]
    have : ¬ (p.sent + a.amt > p.value) := by
      unfold Payment.remaining at hamt h0; omega
    simp [this]
    intro hn; simp [hn] at hshape
  have hfresh2 : s.rows.any (fun r => r.a.id == a.id) = false := any_rows_false s a.id hfresh
  have hfresh' : p.attempts.any (fun x => x.id == a.id) = false := by
    have := payment?_some_inv hp
    rcases this with ⟨i, hi, rfl⟩
    exact any_attemptsOf_false s h a.id hfresh
  unfold step
  simp only [hp, hr, hv]
  cases b <;> simp [hfresh2, hfresh']

/-- the lifecycle only leaves its loop normally (`stepExit`) on a payment that has a settled
    attempt or a failure reason: `*failure` in `resumePayment` is never a nil dereference, and
    what it returns is the payment's terminal info. -/
theorem exit_has_terminal_info (p : Payment) (h : p.nextStep = .exit) :
    p.terminalInfo ≠ .nothing ∧ (p.status = .succeeded ∨ p.status = .failed) := by
  unfold Payment.nextStep at h
  cases hA : p.allowMore with
  | yes => simp [hA] at h
  | internal => simp [hA] at h
  | no =>
    simp only [hA] at h
    cases hW : p.needWait with
    | yes => simp [hW] at h
    | internal => simp [hW] at h
    | no =>
      -- needWait = no and allowMore = no
      have hst : p.status = .succeeded ∨ p.status = .failed := by
        unfold Payment.needWait at hW
        unfold Payment.allowMore at hA
        by_cases h0 : p.remaining = 0
        · simp [h0] at hW
          cases hs : p.status <;> simp [hs] at hW ⊢
        · simp [h0] at hW hA
          cases hs : p.status with
          | initiated =>
            have hreg : p.registrable = .ok := by
              have := (status_initiated_iff p).1 hs
              refine (registrable_ok_iff p).2 ⟨Or.inl hs, this.2.1, ?_⟩
              cases hq : p.reason with
              | none => rfl
              | some _ => simp [hq] at this
            simp [hs, hreg] at hA
          | inFlight =>
            simp [hs] at hW
            have hreg : p.registrable = .ok := by
              unfold Payment.registrable
              simp [hs, updatable]
              split at hW
              · simp at hW
              · split at hW
                · simp at hW
                · rename_i h1 h2; simp [h1, h2]
            simp [hs, hreg] at hA
          | succeeded => simp
          | failed => simp
      refine ⟨?_, hst⟩
      unfold Payment.terminalInfo
      rcases hst with hs | hs
      · simp [((status_succeeded_iff p).1 hs).2]
      · have := (status_failed_iff p).1 hs
        simp [this.2.1]
        cases hq : p.reason with
        | none => simp [hq] at this
        | some r => simp

/-- a payment reported failed to the caller has no settled attempt; one reported paid has one. -/
theorem terminal_info_truthful (p : Payment) :
    (p.terminalInfo = .settled ↔ hasSettled p.attempts = true) ∧
    (∀ r, p.terminalInfo = .reason r → hasSettled p.attempts = false ∧ p.reason = some r) := by
  unfold Payment.terminalInfo
  constructor
  · by_cases hs : hasSettled p.attempts = true
    · simp [hs]
    · simp [hs]; cases p.reason <;> simp
  · intro r
    by_cases hs : hasSettled p.attempts = true
    · simp [hs]
    · simp [hs]; cases hq : p.reason <;> simp

/-- when the lifecycle blocks for an attempt result, an attempt really is in flight (it cannot
    block forever on a payment nobody will resolve), for every payment of non-zero value whose
    stored amounts are within the value. -/
theorem wait_has_inflight (p : Payment) (hv : 0 < p.value) (hw : p.sent ≤ p.value)
    (h : p.nextStep = .wait) : hasInflight p.attempts = true := by
  unfold Payment.nextStep at h
  cases hA : p.allowMore with
  | yes => simp [hA] at h
  | internal => simp [hA] at h
  | no =>
    simp only [hA] at h
    cases hW : p.needWait with
    | no => simp [hW] at h
    | internal => simp [hW] at h
    | yes =>
      unfold Payment.needWait at hW
      cases hs : p.status with
      | initiated => simp [hs] at hW; split at hW <;> simp at hW
      | succeeded => simp [hs] at hW; split at hW <;> simp at hW
      | failed => simp [hs] at hW; split at hW <;> simp at hW
      | inFlight =>
        cases hI : hasInflight p.attempts with
        | true => rfl
        | false =>
          exfalso
          rcases (status_inFlight_iff p).1 hs with hi | ⟨h1, h2, h3⟩
          · rw [hI] at hi; simp at hi
          · -- all attempts failed, no reason: nothing is sent, so money remains and the payment
            -- is registrable: `allowMore` would be `yes`
            have hsent : ∀ as : List Attempt, hasSettled as = false → hasInflight as = false →
                sentL as = 0 := by
              intro as
              induction as with
              | nil => intros; rfl
              | cons a as ih =>
                intro hs1 hi1
                simp only [hasSettled, hasInflight, List.any_cons, Bool.or_eq_false_iff] at hs1 hi1
                have ha : a.st = .failed := by
                  cases hst : a.st <;> simp [hst] at hs1 hi1 ⊢
                simp only [sentL, ha, if_true, Nat.zero_add]
                exact ih (by simpa [hasSettled] using hs1.2) (by simpa [hasInflight] using hi1.2)
            have hs0 : p.sent = 0 := hsent p.attempts h1 hI
            have hrem : p.remaining ≠ 0 := by unfold Payment.remaining; omega
            have hreg : p.registrable = .ok := by
              refine (registrable_ok_iff p).2 ⟨Or.inr hs, h1, ?_⟩
              cases hq : p.reason with
              | none => rfl
              | some _ => simp [hq] at h3
            have := (allow_yes_iff p).2 ⟨hrem, hreg⟩
            rw [this] at hA; simp at hA

/-- concrete instances: a half-paid payment allows more; once a shard settled, a reason is
    recorded or the payment is terminal the lifecycle waits / exits and never proceeds. -/
example :
    let a1 : Attempt := ⟨1, 5, 1, ⟨false, 0, some (7, 10)⟩, .inflight⟩
    (Payment.mk 10 [a1] none).nextStep = .proceed ∧
    (Payment.mk 10 [a1] (some 0)).nextStep = .wait ∧
    (Payment.mk 10 [{ a1 with st := .settled }, { a1 with id := 2 }] none).nextStep = .wait ∧
    (Payment.mk 10 [{ a1 with st := .settled }] (some 1)).nextStep = .err ∧
    (Payment.mk 10 [{ a1 with st := .failed }] (some 1)).nextStep = .exit ∧
    (Payment.mk 10 [{ a1 with st := .failed }] (some 1)).terminalInfo = .reason 1 := by decide

end LndModel.C16
