/-
C16 — round-5 theorems, part 1: the SQL store's lightweight status path agrees with the full
path on every stored state; the WHERE clause of `FetchNonTerminalPayments` is the status
predicate; status / amount-paid monotonicity of a payment that ever had a settled attempt.
-/
import LndModel.C16.Props
import LndModel.C16.Light

set_option linter.unusedSimpArgs false
set_option linter.unusedVariables false

namespace LndModel.C16

/-! ## lightweight status path = full path -/

/-- the flag loop reads nothing but the outcome of an attempt. -/
theorem scanFlags_congr (f : Attempt → Attempt) (hf : ∀ a, (f a).st = a.st) (as : List Attempt)
    (acc : Bool × Bool × Bool) : scanFlags (as.map f) acc = scanFlags as acc := by
  induction as generalizing acc with
  | nil => rfl
  | cons a as ih =>
    obtain ⟨i, s, fl⟩ := acc
    simp only [List.map_cons, scanFlags, hf a]
    cases a.st <;> exact ih _

/-- the stub the lightweight path builds for a stored attempt. -/
def stubAttempt (a : Attempt) : Attempt := ⟨0, 0, 0, ⟨false, 0, none⟩, a.st⟩

theorem stubsOf_stored (as : List Attempt) :
    stubsOf (as.map resTypeOf) = some (as.map stubAttempt) := by
  induction as with
  | nil => rfl
  | cons a as ih =>
    simp only [List.map_cons, stubsOf, ih]
    cases h : a.st <;> simp [resTypeOf, stubOf, stubAttempt, h]

/-- `computePaymentStatusFromResolutions` on the resolution rows of ANY stored attempt list never
    takes its "unknown resolution type" branch and returns `decidePaymentStatus` of the full
    attempts. -/
theorem lightStatusOfRes_stored (as : List Attempt) (r : Option Nat) :
    lightStatusOfRes (as.map resTypeOf) r = some (decideStatus as r) := by
  simp only [lightStatusOfRes, stubsOf_stored, decideStatus]
  rw [scanFlags_congr stubAttempt (fun _ => rfl)]

/-- `light_status_eq_full` — THE invariant of the SQL store's two status computations: for every
    stored state and every payment, the status computed by `computePaymentStatusFromDB`
    (resolution types + failure reason only; gates InitPayment / Settle / FailAttempt / Delete*)
    is the status `FetchPayment` reports (full `MPPayment`, `setState`). -/
theorem light_status_eq_full (s : Store) (h : Nat) (i : Info) (p : Payment)
    (hi : s.info h = some i) (hp : s.payment? h = some p) :
    s.lightStatus h i = some p.status := by
  obtain ⟨i', hi', hpe⟩ := payment?_some_inv hp
  rw [hi] at hi'; cases hi'
  subst hpe
  simp only [Store.lightStatus, Store.resTypes, lightStatusOfRes_stored, Payment.status, mkP]

theorem lightStatus_of_info (s : Store) (h : Nat) (i : Info) (hi : s.info h = some i) :
    s.lightStatus h i = some (mkP i (s.attemptsOf h)).status :=
  light_status_eq_full s h i _ hi (payment?_of_info hi)

theorem bulkHitL_eq (s : Store) (fo : Bool) (k : Nat) : s.bulkHitL fo k = s.bulkHit fo k := by
  unfold Store.bulkHitL Store.bulkHit
  cases hi : s.info k with
  | none => simp [payment?_none hi]
  | some i => simp [payment?_of_info hi, lightStatus_of_info s k i hi, bulkSkip]

theorem resolveSqlL_eq (s : Store) (h id : Nat) (st : AState) :
    resolveSqlL s h id st = resolve .sql s h id st := by
  unfold resolveSqlL resolve
  cases hi : s.info h with
  | none => simp [payment?_none hi]
  | some i =>
    simp only [payment?_of_info hi, lightStatus_of_info s h i hi]
    generalize (mkP i (s.attemptsOf h)).status = stt
    cases stt <;> rfl

/-- `sql_light_step_eq` — the SQL store with the lightweight status at its real call sites
    (`stepSqlL`, what the driver replays against the real SQLStore) is the SQL store model all the
    theorems are about.  (False as soon as the two status computations differ on one reachable
    row, e.g. the conflicting state "settled attempt + failure reason".) -/
theorem sql_light_step_eq (s : Store) (op : Op) : stepSqlL s op = step .sql s op := by
  cases op with
  | init h v =>
    simp only [stepSqlL, step, initGate]
    cases hi : s.info h with
    | none => simp [payment?_none hi]
    | some i =>
      simp only [payment?_of_info hi, lightStatus_of_info s h i hi]
      generalize (mkP i (s.attemptsOf h)).status = stt
      cases stt <;> rfl
  | settle h id => exact resolveSqlL_eq s h id _
  | failAtt h id => exact resolveSqlL_eq s h id _
  | del h =>
    simp only [stepSqlL, step, unknownOnWrite]
    cases hi : s.info h with
    | none => simp [payment?_none hi]
    | some i =>
      simp only [payment?_of_info hi, lightStatus_of_info s h i hi]
      generalize (mkP i (s.attemptsOf h)).status = stt
      cases stt <;> rfl
  | delFailed h =>
    simp only [stepSqlL, step, unknownOnWrite]
    cases hi : s.info h with
    | none => simp [payment?_none hi]
    | some i =>
      simp only [payment?_of_info hi, lightStatus_of_info s h i hi]
      generalize (mkP i (s.attemptsOf h)).status = stt
      cases stt <;> rfl
  | delAll fo fho =>
    simp only [stepSqlL, step]
    have : s.bulkHitL fo = s.bulkHit fo := funext (bulkHitL_eq s fo)
    simp only [this]
  | reg h a => rfl
  | fail h r => rfl
  | fetch h => rfl

theorem stepD_eq (b : Backend) (s : Store) (op : Op) : stepD b s op = step b s op := by
  cases b with
  | kv => rfl
  | sql => exact sql_light_step_eq s op

theorem bulkCountL_eq (s : Store) (fo fho : Bool) (hs : List Nat) :
    s.bulkCountL fo fho hs = s.bulkCount fo fho hs := by
  have : s.bulkHitL fo = s.bulkHit fo := funext (bulkHitL_eq s fo)
  simp only [Store.bulkCountL, Store.bulkCount, this]

/-- closed form of the lightweight status on ARBITRARY resolution columns (also values the
    schema allows but the store never writes): an error iff some type is not NULL / 1 / 2,
    otherwise the documented table of the three "exists" flags. -/
theorem lightStatusOfRes_closed (rts : List (Option Nat)) (r : Option Nat) :
    lightStatusOfRes rts r =
      if rts.all (fun t => t == none || t == some 1 || t == some 2) then
        some (statusTable (rts.any (· == none)) (rts.any (· == some 1)) (rts.any (· == some 2))
          r.isSome)
      else none := by
  have key : ∀ rts : List (Option Nat),
      (rts.all (fun t => t == none || t == some 1 || t == some 2) = true →
        ∃ l, stubsOf rts = some l ∧ hasInflight l = rts.any (· == none) ∧
          hasSettled l = rts.any (· == some 1) ∧ hasFailed l = rts.any (· == some 2)) ∧
      (rts.all (fun t => t == none || t == some 1 || t == some 2) = false → stubsOf rts = none) := by
    intro rts
    induction rts with
    | nil => exact ⟨fun _ => ⟨[], rfl, rfl, rfl, rfl⟩, fun h => by simp at h⟩
    | cons t ts ih =>
      constructor
      · intro hall
        simp only [List.all_cons, Bool.and_eq_true] at hall
        obtain ⟨l, hl, h1, h2, h3⟩ := ih.1 hall.2
        have cf : ∀ (a : Attempt) (l : List Attempt),
            hasInflight (a :: l) = (a.st == .inflight || hasInflight l) ∧
            hasSettled (a :: l) = (a.st == .settled || hasSettled l) ∧
            hasFailed (a :: l) = (a.st == .failed || hasFailed l) := fun a l => ⟨rfl, rfl, rfl⟩
        rcases t with _ | n
        · refine ⟨⟨0, 0, 0, ⟨false, 0, none⟩, .inflight⟩ :: l, by simp [stubsOf, stubOf, hl], ?_, ?_, ?_⟩
          · rw [(cf _ _).1, h1]; simp
          · rw [(cf _ _).2.1, h2]; simp
          · rw [(cf _ _).2.2, h3]; simp
        · have hn : n = 1 ∨ n = 2 := by
            have := hall.1
            simp at this
            exact this
          rcases hn with rfl | rfl
          · refine ⟨⟨0, 0, 0, ⟨false, 0, none⟩, .settled⟩ :: l, by simp [stubsOf, stubOf, hl], ?_, ?_, ?_⟩
            · rw [(cf _ _).1, h1]; simp
            · rw [(cf _ _).2.1, h2]; simp
            · rw [(cf _ _).2.2, h3]; simp
          · refine ⟨⟨0, 0, 0, ⟨false, 0, none⟩, .failed⟩ :: l, by simp [stubsOf, stubOf, hl], ?_, ?_, ?_⟩
            · rw [(cf _ _).1, h1]; simp
            · rw [(cf _ _).2.1, h2]; simp
            · rw [(cf _ _).2.2, h3]; simp
      · intro hall
        simp only [List.all_cons, Bool.and_eq_false_iff] at hall
        rcases hall with h0 | h0
        · rcases t with _ | n
          · simp at h0
          · have : stubOf (some n) = none := by
              match n, h0 with
              | 0, _ => rfl
              | 1, h0 => simp at h0
              | 2, h0 => simp at h0
              | n + 3, _ => rfl
            simp [stubsOf, this]
        · have := ih.2 h0
          simp only [stubsOf, this]
          cases stubOf t <;> rfl
  cases hall : rts.all (fun t => t == none || t == some 1 || t == some 2) with
  | true =>
    obtain ⟨l, hl, h1, h2, h3⟩ := (key rts).1 hall
    simp only [lightStatusOfRes, hl, if_true, decideStatus_eq, h1, h2, h3]
  | false =>
    simp only [lightStatusOfRes, (key rts).2 hall]
    simp

/-- the query that loads the resolution types has no `ORDER BY`: the lightweight status does not
    depend on the order of the rows. -/
theorem lightStatusOfRes_perm (rts rts' : List (Option Nat)) (r : Option Nat)
    (hp : rts.Perm rts') : lightStatusOfRes rts r = lightStatusOfRes rts' r := by
  simp only [lightStatusOfRes_closed, hp.all_eq, hp.any_eq]

/-- the seeded row: settled attempt + failure reason + nothing in flight is SUCCEEDED on the
    lightweight path too (and re-initiation is refused with `ErrAlreadyPaid`). -/
example : lightStatusOfRes [some 2, some 1] (some 3) = some .succeeded := by decide
example : lightStatusOfRes [some 2, some 7] (some 3) = none := by decide
example : (stepSqlL (exec .sql Store.empty (conflictOps.take 6)) (.init 0 10)).2.1 = .alreadyPaid := by
  decide

/-! ## `FetchInFlightPayments` of the SQL store -/

theorem any_resType_settled (as : List Attempt) :
    as.any (fun a => resTypeOf a == some 1) = hasSettled as := by
  induction as with
  | nil => rfl
  | cons a as ih =>
    simp only [List.any_cons, hasSettled] at ih ⊢
    rw [ih]
    cases h : a.st <;> simp [resTypeOf, h]

theorem any_resType_null (as : List Attempt) :
    as.any (fun a => (resTypeOf a).isNone) = hasInflight as := by
  induction as with
  | nil => rfl
  | cons a as ih =>
    simp only [List.any_cons, hasInflight] at ih ⊢
    rw [ih]
    cases h : a.st <;> simp [resTypeOf, h]

/-- `nonterminal_query_eq` — the WHERE clause of the SQL query `FetchNonTerminalPayments` selects
    exactly the payments whose (full) status is not terminal, i.e. `!MPPayment.Terminated()`,
    which is what the KV store filters by. -/
theorem nonterminal_query_eq (p : Payment) : nonTerminalQuery p = p.nonTerminal := by
  simp only [nonTerminalQuery, Payment.nonTerminal, any_resType_settled, any_resType_null, status_eq]
  cases hasInflight p.attempts <;> cases hasSettled p.attempts <;> cases hasFailed p.attempts <;>
    cases p.reason <;> rfl

theorem inFlightSetSql_eq (s : Store) (hs : List Nat) : s.inFlightSetSql hs = s.inFlightSet hs := by
  simp only [Store.inFlightSetSql, Store.inFlightSet]
  apply List.filter_congr
  intro h _
  cases s.payment? h with
  | none => rfl
  | some p => exact nonterminal_query_eq p

/-- `FetchInFlightPayments` returns exactly the existing payments that are initiated or in
    flight. -/
theorem inFlightSet_spec (s : Store) (hs : List Nat) (h : Nat) :
    h ∈ s.inFlightSet hs ↔ h ∈ hs ∧ ∃ p, s.payment? h = some p ∧
      (p.status = .initiated ∨ p.status = .inFlight) := by
  simp only [Store.inFlightSet, List.mem_filter]
  constructor
  · rintro ⟨hm, hf⟩
    refine ⟨hm, ?_⟩
    cases hp : s.payment? h with
    | none => simp [hp] at hf
    | some p =>
      refine ⟨p, rfl, ?_⟩
      simp only [hp, Payment.nonTerminal] at hf
      cases hs' : p.status <;> simp [hs', updatable] at hf ⊢
  · rintro ⟨hm, p, hp, hst⟩
    refine ⟨hm, ?_⟩
    simp only [hp, Payment.nonTerminal]
    rcases hst with h1 | h1 <;> simp [h1, updatable]

/-! ## a payment that ever had a settled attempt: status and amount paid are monotone -/

theorem settledL_append (as bs : List Attempt) : settledL (as ++ bs) = settledL as + settledL bs := by
  induction as with
  | nil => simp [settledL]
  | cons a as ih => simp [settledL, ih, Nat.add_assoc]

theorem settledL_filter_notFailed (as : List Attempt) :
    settledL (as.filter (fun x => !(x.st == .failed))) = settledL as := by
  induction as with
  | nil => rfl
  | cons a as ih => cases ha : a.st <;> simp [List.filter_cons, settledL, ha, ih]

theorem settledL_map_resolve_ge (id : Nat) (st : AState) (as : List Attempt) :
    settledL as ≤ settledL (as.map (resolveA id st)) := by
  induction as with
  | nil => simp [settledL]
  | cons a as ih =>
    simp only [List.map_cons, settledL]
    have h1 : (if a.st = .settled then a.amt else 0) ≤
        (if (resolveA id st a).st = .settled then (resolveA id st a).amt else 0) := by
      by_cases hc : (a.id == id && a.st == .inflight) = true
      · have : a.st = .inflight := by simp at hc; exact hc.2
        simp [resolveA, hc, this]
      · simp [resolveA, hc]
    omega

theorem hasSettled_map_resolve (id : Nat) (st : AState) (as : List Attempt)
    (h : hasSettled as = true) : hasSettled (as.map (resolveA id st)) = true := by
  simp only [hasSettled, List.any_eq_true] at h ⊢
  obtain ⟨x, hx, hs⟩ := h
  refine ⟨resolveA id st x, List.mem_map_of_mem hx, ?_⟩
  have : x.st = .settled := by simpa using hs
  simp [resolveA, this]

theorem not_failed_of_settled (p : Payment) (h : hasSettled p.attempts = true) :
    p.status ≠ .failed := by
  intro hf
  have := ((status_failed_iff p).1 hf).2.1
  simp [h] at this

/-- what "still has its settled attempt" means for the reported payment. -/
def SettledKept (p q : Payment) : Prop :=
  hasSettled q.attempts = true ∧ p.paid ≤ q.paid ∧ q.value = p.value ∧ q.status ≠ .failed ∧
    initializable q.status ≠ .ok

theorem settledKept_of (p q : Payment) (hs : hasSettled q.attempts = true) (hp : p.paid ≤ q.paid)
    (hv : q.value = p.value) : SettledKept p q := by
  have hnf := not_failed_of_settled q hs
  refine ⟨hs, hp, hv, hnf, ?_⟩
  cases hq : q.status <;> simp_all [initializable]

/-- one transition from a payment with a settled attempt: it is either deleted by an explicit
    `DeletePayment` / `DeletePayments(false,false)` WHILE SUCCEEDED, or it still has a settled
    attempt, has paid at least as much, has the same amount, is not failed and is not
    re-initialisable. -/
theorem pstep_settled_monotone (op : Op) (k : Nat) (p : Payment) (y : Option Payment)
    (h : PStep op k (some p) y) (hs : hasSettled p.attempts = true) :
    (y = none ∧ (op = .del k ∨ op = .delAll false false) ∧ p.status = .succeeded) ∨
      ∃ q, y = some q ∧ SettledKept p q := by
  have hnf := not_failed_of_settled p hs
  have hsucc : p.status ≠ .inFlight → p.status = .succeeded := by
    intro hni
    rw [status_succeeded_iff]
    refine ⟨?_, hs⟩
    cases hi : hasInflight p.attempts with
    | false => rfl
    | true => exact absurd ((status_inFlight_iff p).2 (Or.inl hi)) hni
  generalize hx : some p = x at h
  cases h with
  | same => cases hx; exact Or.inr ⟨p, rfl, settledKept_of p p hs (Nat.le_refl _) rfl⟩
  | create _ v _ hc =>
    rcases hc with hc | ⟨q, hq, hf⟩
    · subst hc; cases hx
    · subst hq; cases hx; exact absurd hf hnf
  | delete q hop hni => cases hx; exact Or.inl ⟨rfl, Or.inl hop, hsucc hni⟩
  | bulkDelete q fo hop hni hf =>
    cases hx
    cases fo with
    | false => exact Or.inl ⟨rfl, Or.inr hop, hsucc hni⟩
    | true => exact absurd (hf rfl) hnf
  | delFailed q _ =>
    cases hx
    refine Or.inr ⟨_, rfl, settledKept_of p _ ?_ ?_ rfl⟩
    · simp [hasSettled_filter, hs]
    · simp [Payment.paid, settledL_filter_notFailed]
  | register q a hr _ _ =>
    cases hx
    have := ((registrable_ok_iff p).1 hr).2.1
    simp [hs] at this
  | overwrite q a hr _ =>
    cases hx
    have := ((registrable_ok_iff p).1 hr).2.1
    simp [hs] at this
  | resolve q id st _ =>
    cases hx
    exact Or.inr ⟨_, rfl, settledKept_of p _ (hasSettled_map_resolve id st _ hs)
      (settledL_map_resolve_ge id st _) rfl⟩
  | setReason q r =>
    cases hx
    exact Or.inr ⟨_, rfl, settledKept_of p _ hs (Nat.le_refl _) rfl⟩

theorem settledKept_trans {p q r : Payment} (h1 : SettledKept p q) (h2 : SettledKept q r) :
    SettledKept p r :=
  ⟨h2.1, Nat.le_trans h1.2.1 h2.2.1, h2.2.2.1.trans h1.2.2.1, h2.2.2.2.1, h2.2.2.2.2⟩

/-- `settled_monotone` — over ALL operation lists on either backend: once a payment has a settled
    attempt then, as long as no explicit `DeletePayment` of that hash and no
    `DeletePayments(false,false)` is issued, after any further operations it still exists with a
    settled attempt, its amount paid has not decreased, it is not reported failed, and
    `InitPayment` of its hash is refused (store unchanged).  This covers every order of late
    fails / double resolutions / payment-level failures / bulk deletions with `failedOnly`. -/
theorem settled_monotone (b : Backend) (ops : List Op) (s : Store) (k : Nat) (p : Payment)
    (hp : s.payment? k = some p) (hs : hasSettled p.attempts = true)
    (hno : Op.del k ∉ ops) (hnb : Op.delAll false false ∉ ops) :
    ∃ q, (exec b s ops).payment? k = some q ∧ SettledKept p q ∧
      ∀ v, (step b (exec b s ops) (.init k v)).2.1 ≠ .ok ∧
        (step b (exec b s ops) (.init k v)).1 = exec b s ops := by
  induction ops generalizing s p with
  | nil =>
    refine ⟨p, hp, settledKept_of p p hs (Nat.le_refl _) rfl, fun v => ?_⟩
    have hnf := not_failed_of_settled p hs
    have := reinit_refused b s k v p hp hnf
    refine ⟨?_, this.1⟩
    show (step b s (.init k v)).2.1 ≠ .ok
    rw [this.2]
    cases hq : p.status <;> simp_all
  | cons op ops ih =>
    rw [exec_cons]
    have h1 := step_pstep b s op k
    rw [hp] at h1
    rcases pstep_settled_monotone op k p _ h1 hs with ⟨_, hop | hop, _⟩ | ⟨q, hq, hk⟩
    · exact absurd (by simp [hop]) hno
    · exact absurd (by simp [hop]) hnb
    · obtain ⟨q', hq', hk', hinit⟩ := ih _ q hq hk.1 (fun h => hno (List.mem_cons_of_mem _ h))
        (fun h => hnb (List.mem_cons_of_mem _ h))
      exact ⟨q', hq', settledKept_trans hk hk', hinit⟩

/-- the same without any restriction on the operations: along EVERY operation list, at the end
    the payment either still satisfies `SettledKept`, or at some point it was removed by an
    explicit delete issued while it was reported SUCCEEDED (never while failed / in flight, never
    by a re-initiation). -/
theorem settled_monotone_or_deleted (b : Backend) (ops : List Op) (s : Store) (k : Nat)
    (p : Payment) (hp : s.payment? k = some p) (hs : hasSettled p.attempts = true) :
    (∃ q, (exec b s ops).payment? k = some q ∧ SettledKept p q) ∨
    (∃ pre op post q, ops = pre ++ op :: post ∧ (op = .del k ∨ op = .delAll false false) ∧
      (exec b s pre).payment? k = some q ∧ SettledKept p q ∧ q.status = .succeeded ∧
      (exec b s (pre ++ [op])).payment? k = none) := by
  induction ops generalizing s p with
  | nil => exact Or.inl ⟨p, hp, settledKept_of p p hs (Nat.le_refl _) rfl⟩
  | cons op ops ih =>
    have h1 := step_pstep b s op k
    rw [hp] at h1
    rcases pstep_settled_monotone op k p _ h1 hs with ⟨hy, hop, hsu⟩ | ⟨q, hq, hk⟩
    · exact Or.inr ⟨[], op, ops, p, rfl, hop, hp, settledKept_of p p hs (Nat.le_refl _) rfl, hsu, hy⟩
    · rcases ih (step b s op).1 q hq hk.1 with ⟨q', hq', hk'⟩ | ⟨pre, o, post, q', he, ho, hq', hk', hsu, hn⟩
      · exact Or.inl ⟨q', hq', settledKept_trans hk hk'⟩
      · refine Or.inr ⟨op :: pre, o, post, q', by simp [he], ho, hq', settledKept_trans hk hk', hsu, hn⟩

/-- non-vacuity: the late-fail history of the seeded change (shard 0 settles, a late FailAttempt
    for shard 0, shard 1 fails, payment-level Fail, InitPayment): the model refuses the second
    resolution, reports succeeded with 4 msat paid and refuses the re-initiation, on both
    backends. -/
def lateFailOps : List Op :=
  [.init 0 10, .reg 0 (mppAttempt 0 4), .reg 0 (mppAttempt 1 6), .settle 0 0, .failAtt 0 0,
   .failAtt 0 1, .fail 0 2, .init 0 10]

example : (run .kv Store.empty lateFailOps).2.map (·.1) =
    [.ok, .ok, .ok, .ok, .attemptAlreadySettled, .ok, .ok, .alreadyPaid] := by decide
example : (run .sql Store.empty lateFailOps).2.map (·.1) =
    [.ok, .ok, .ok, .ok, .other, .ok, .ok, .alreadyPaid] := by decide
example : ((exec .kv Store.empty lateFailOps).payment? 0).map (fun p => (p.status, p.paid)) =
    some (.succeeded, 4) := by decide

end LndModel.C16
