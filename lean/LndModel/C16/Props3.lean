/-
C16 — round-5 theorems, part 2: the cross-backend theorem at full strength.  From any store
whose attempt ids are globally unique (in particular the empty one) ONE operation is answered
identically by the KV and the SQL model (same store, same answer up to the three documented
error identities) IF AND ONLY IF it is not one of the two divergent shapes
  (F1) a registration that passes every check but re-uses a stored attempt id
       (KV: admitted, SQL: refused)                         — finding F-C16-kv-dup-attempt-id,
  (F2) a Settle/FailAttempt on an updatable payment naming an in-flight attempt of ANOTHER payment
       (SQL: resolves it, KV: refuses)                      — finding F-C16-sql-foreign-attempt,
and runs agree exactly up to the first such operation.
-/
import LndModel.C16.Props2

set_option linter.unusedSimpArgs false
set_option linter.unusedVariables false

namespace LndModel.C16

/-! ### globally unique attempt ids -/

theorem uniqueIds_filter (keep : Row → Bool) (rows : List Row) (h : uniqueIds rows = true) :
    uniqueIds (rows.filter keep) = true := by
  induction rows with
  | nil => rfl
  | cons r rs ih =>
    simp only [uniqueIds, Bool.and_eq_true] at h
    simp only [List.filter_cons]
    split
    · simp only [uniqueIds, Bool.and_eq_true]
      refine ⟨?_, ih h.2⟩
      rw [List.all_eq_true] at h ⊢
      intro x hx
      exact h.1 x (List.mem_filter.1 hx).1
    · exact ih h.2

theorem uniqueIds_map (g : Row → Row) (hg : ∀ r, (g r).a.id = r.a.id) (rows : List Row)
    (h : uniqueIds rows = true) : uniqueIds (rows.map g) = true := by
  induction rows with
  | nil => rfl
  | cons r rs ih =>
    simp only [uniqueIds, Bool.and_eq_true] at h
    simp only [List.map_cons, uniqueIds, Bool.and_eq_true]
    refine ⟨?_, ih h.2⟩
    rw [List.all_eq_true] at h ⊢
    intro x hx
    obtain ⟨y, hy, rfl⟩ := List.mem_map.1 hx
    rw [hg, hg]
    exact h.1 y hy

theorem uniqueIds_append_one (rows : List Row) (r : Row) (h : uniqueIds rows = true)
    (hn : rows.any (fun x => x.a.id == r.a.id) = false) : uniqueIds (rows ++ [r]) = true := by
  induction rows with
  | nil => rfl
  | cons x xs ih =>
    simp only [uniqueIds, Bool.and_eq_true] at h
    simp only [List.any_cons, Bool.or_eq_false_iff] at hn
    simp only [List.cons_append, uniqueIds, Bool.and_eq_true, List.all_append, List.all_cons,
      List.all_nil, Bool.and_true]
    refine ⟨⟨h.1, ?_⟩, ih h.2 hn.2⟩
    have : (x.a.id == r.a.id) = false := hn.1
    simp only [bne_iff_ne, ne_eq]
    intro e
    simp [e] at this

/-- two rows with the same id in a unique-id table are the same row. -/
theorem uniqueIds_eq (rows : List Row) (h : uniqueIds rows = true) (r r' : Row)
    (hr : r ∈ rows) (hr' : r' ∈ rows) (hid : r.a.id = r'.a.id) : r = r' := by
  induction rows with
  | nil => cases hr
  | cons x xs ih =>
    simp only [uniqueIds, Bool.and_eq_true] at h
    have hall := List.all_eq_true.1 h.1
    rcases List.mem_cons.1 hr with rfl | hr1 <;> rcases List.mem_cons.1 hr' with rfl | hr1'
    · rfl
    · have := hall r' hr1'
      simp [hid] at this
    · have := hall r hr1
      simp [hid] at this
    · exact ih h.2 hr1 hr1'

theorem find?_of_mem_unique (rows : List Row) (h : uniqueIds rows = true) (r : Row) (hr : r ∈ rows) :
    rows.find? (fun x => x.a.id == r.a.id) = some r := by
  cases hf : rows.find? (fun x => x.a.id == r.a.id) with
  | none =>
    have := List.find?_eq_none.1 hf r hr
    simp at this
  | some r' =>
    have hm := List.mem_of_find?_eq_some hf
    have hid := List.find?_some hf
    rw [uniqueIds_eq rows h r' r hm hr (by simpa using hid)]

theorem mem_attemptsOf {s : Store} {h : Nat} {x : Attempt} :
    x ∈ s.attemptsOf h ↔ (⟨h, x⟩ : Row) ∈ s.rows := by
  simp only [Store.attemptsOf, List.mem_map, List.mem_filter]
  constructor
  · rintro ⟨r, ⟨hr, ho⟩, rfl⟩
    have : r.owner = h := by simpa using ho
    subst this
    exact hr
  · intro hr
    exact ⟨⟨h, x⟩, ⟨hr, by simp⟩, rfl⟩

/-! ### the two divergent shapes -/

/-- both models agree on one operation. -/
def Agree (s : Store) (op : Op) : Prop :=
  (step .kv s op).1 = (step .sql s op).1 ∧ canon op (step .kv s op).2 = canon op (step .sql s op).2

theorem resolve_agree (s : Store) (hu : uniqueIds s.rows = true) (h id : Nat) (st : AState)
    (hd : foreignInflight s h id = false) :
    (resolve .kv s h id st).1 = (resolve .sql s h id st).1 ∧
    (resolve .kv s h id st).2.2 = (resolve .sql s h id st).2.2 ∧
    ((resolve .kv s h id st).2.1 = (resolve .sql s h id st).2.1 ∨
      (((resolve .kv s h id st).2.1 = .attemptAlreadyFailed ∨
        (resolve .kv s h id st).2.1 = .attemptAlreadySettled) ∧
        (resolve .sql s h id st).2.1 = .other)) := by
  unfold resolve
  unfold foreignInflight at hd
  cases hp : s.payment? h with
  | none => simp
  | some p =>
    simp only [hp] at hd ⊢
    cases hupd : updatable p.status with
    | ok =>
      simp only [hupd, beq_self_eq_true, Bool.true_and] at hd ⊢
      obtain ⟨i, hi, hpe⟩ := payment?_some_inv hp
      have hpa : p.attempts = s.attemptsOf h := by rw [hpe]; rfl
      rw [hpa]
      cases hf : (s.attemptsOf h).find? (fun x => x.id == id) with
      | some x =>
        have hxm : (⟨h, x⟩ : Row) ∈ s.rows := mem_attemptsOf.1 (List.mem_of_find?_eq_some hf)
        have hxid : x.id = id := by simpa using List.find?_some hf
        have hfind : s.rows.find? (fun r => r.a.id == id) = some ⟨h, x⟩ := by
          have := find?_of_mem_unique s.rows hu ⟨h, x⟩ hxm
          simpa [hxid] using this
        simp only [hfind]
        cases hxs : x.st with
        | failed => simp [hxs]
        | settled => simp [hxs]
        | inflight =>
          simp only [hxs]
          have hall : s.rows.all (fun r => r.a.id != id || r.owner == h) = true := by
            rw [List.all_eq_true]
            intro r hr
            by_cases hrid : r.a.id = id
            · have := uniqueIds_eq s.rows hu r ⟨h, x⟩ hr hxm (by simp [hrid, hxid])
              subst this
              simp
            · simp [hrid]
          rw [mapRows_resolve_eq s h id st hall]
          simp
      | none =>
        simp only
        cases hfr : s.rows.find? (fun r => r.a.id == id) with
        | none => simp
        | some r =>
          have hrm := List.mem_of_find?_eq_some hfr
          have hrid : r.a.id = id := by simpa using List.find?_some hfr
          have hro : r.owner ≠ h := by
            intro e
            have hx : r.a ∈ s.attemptsOf h := by
              rw [mem_attemptsOf]; rw [← e]; exact hrm
            have := List.find?_eq_none.1 hf r.a hx
            simp [hrid] at this
          have hns : (r.a.st != .inflight) = true := by
            have := List.any_eq_false.1 hd r hrm
            simp only [hrid, beq_self_eq_true, Bool.true_and, Bool.and_eq_true, not_and] at this
            have hne : (r.owner != h) = true := by simpa using hro
            have := this hne
            simpa using this
          simp [hns]
    | _ => simp

/-- under (F2) the SQL model resolves the foreign attempt and the KV model refuses. -/
theorem resolve_diverge (s : Store) (hu : uniqueIds s.rows = true) (h id : Nat) (st : AState)
    (hd : foreignInflight s h id = true) :
    (resolve .kv s h id st).2.1 = .other ∧ (resolve .kv s h id st).1 = s ∧
    (resolve .sql s h id st).2.1 = .ok := by
  unfold resolve
  unfold foreignInflight at hd
  cases hp : s.payment? h with
  | none => simp [hp] at hd
  | some p =>
    simp only [hp, Bool.and_eq_true, beq_iff_eq] at hd ⊢
    obtain ⟨hupd, hany⟩ := hd
    obtain ⟨r, hrm, hr⟩ := List.any_eq_true.1 hany
    simp only [Bool.and_eq_true, beq_iff_eq, bne_iff_ne, ne_eq] at hr
    obtain ⟨⟨hrid, hro⟩, hrs⟩ := hr
    simp only [hupd]
    obtain ⟨i, hi, hpe⟩ := payment?_some_inv hp
    have hpa : p.attempts = s.attemptsOf h := by rw [hpe]; rfl
    have hnone : (s.attemptsOf h).find? (fun x => x.id == id) = none := by
      rw [List.find?_eq_none]
      intro x hx hxid
      have hxm : (⟨h, x⟩ : Row) ∈ s.rows := mem_attemptsOf.1 hx
      have := uniqueIds_eq s.rows hu r ⟨h, x⟩ hrm hxm (by simp at hxid; simp [hrid, hxid])
      subst this
      exact hro rfl
    have hfind : s.rows.find? (fun x => x.a.id == id) = some r := by
      have := find?_of_mem_unique s.rows hu r hrm
      simpa [hrid] using this
    rw [hpa, hnone, hfind]
    simp [hrs]

/-- `step_agree_iff` — from a store with globally unique attempt ids, one operation is answered
    identically by both backends (same store, same payment dump, same error up to the documented
    identities) if and only if it is not one of the two divergent shapes. -/
theorem step_agree_iff (s : Store) (hu : uniqueIds s.rows = true) (op : Op) :
    Agree s op ↔ diverges s op = false := by
  constructor
  · -- agreement ⇒ not divergent (contrapositive: a divergent operation is answered differently)
    intro hag
    cases hd : diverges s op with
    | false => rfl
    | true =>
      exfalso
      cases op with
      | reg h a0 =>
        simp only [diverges] at hd
        cases hp : s.payment? h with
        | none => simp [hp] at hd
        | some p =>
          simp only [hp, Bool.and_eq_true, beq_iff_eq] at hd
          obtain ⟨⟨hr, hv⟩, hany⟩ := hd
          have h2 := hag.2
          simp only [step, hp, hr, hv, canon] at h2
          have hany' : s.rows.any (fun r => r.a.id == ({ a0 with st := AState.inflight } : Attempt).id) = true := hany
          simp only [hany', if_true] at h2
          split at h2 <;> simp [errClass] at h2
      | settle h id =>
        obtain ⟨h1, _, h3⟩ := resolve_diverge s hu h id .settled hd
        have h2 := hag.2
        simp only [step, canon] at h2
        have := congrArg Prod.fst h2
        simp [h1, h3, errClass] at this
      | failAtt h id =>
        obtain ⟨h1, _, h3⟩ := resolve_diverge s hu h id .failed hd
        have h2 := hag.2
        simp only [step, canon] at h2
        have := congrArg Prod.fst h2
        simp [h1, h3, errClass] at this
      | init h v => simp [diverges] at hd
      | fail h r => simp [diverges] at hd
      | del h => simp [diverges] at hd
      | delFailed h => simp [diverges] at hd
      | fetch h => simp [diverges] at hd
      | delAll fo fho => simp [diverges] at hd
  · intro hd
    cases op with
    | init h v => exact ⟨rfl, rfl⟩
    | reg h a0 =>
      simp only [diverges] at hd
      simp only [Agree, step]
      cases hp : s.payment? h with
      | none => simp [canon, errClass, unknownOnRegister]
      | some p =>
        simp only [hp] at hd ⊢
        cases hr : p.registrable with
        | ok =>
          simp only
          cases hv : verifyAttempt p { a0 with st := .inflight } with
          | ok =>
            simp only [hr, hv, beq_self_eq_true, Bool.true_and] at hd ⊢
            obtain ⟨i, hi, hpe⟩ := payment?_some_inv hp
            have hpa : p.attempts = s.attemptsOf h := by rw [hpe]; rfl
            have hall : s.rows.all (fun r => r.a.id != a0.id) = true := by
              rw [List.all_eq_true]
              intro r hr'
              have := List.any_eq_false.1 hd r hr'
              simpa using this
            have h1 := any_attemptsOf_false s h a0.id hall
            have h2 := any_rows_false s a0.id hall
            simp [hpa, h1, h2]
          | _ => exact ⟨rfl, rfl⟩
        | _ => exact ⟨rfl, rfl⟩
    | settle h id =>
      simp only [diverges] at hd
      simp only [Agree, step]
      obtain ⟨h1, h2, h3⟩ := resolve_agree s hu h id .settled hd
      refine ⟨h1, ?_⟩
      simp only [canon, h2]
      rcases h3 with h3 | ⟨h3 | h3, h4⟩ <;> simp [h3, errClass, *]
    | failAtt h id =>
      simp only [diverges] at hd
      simp only [Agree, step]
      obtain ⟨h1, h2, h3⟩ := resolve_agree s hu h id .failed hd
      refine ⟨h1, ?_⟩
      simp only [canon, h2]
      rcases h3 with h3 | ⟨h3 | h3, h4⟩ <;> simp [h3, errClass, *]
    | fail h r => exact ⟨rfl, rfl⟩
    | del h =>
      simp only [Agree, step]
      cases hp : s.payment? h with
      | none => simp [canon, errClass, unknownOnWrite]
      | some p => exact ⟨rfl, rfl⟩
    | delFailed h =>
      simp only [Agree, step]
      cases hp : s.payment? h with
      | none => simp [canon, errClass, unknownOnWrite]
      | some p => exact ⟨rfl, rfl⟩
    | fetch h => exact ⟨rfl, rfl⟩
    | delAll fo fho => exact ⟨rfl, rfl⟩

/-! ### runs -/

theorem resolveA_id (id : Nat) (st : AState) (x : Attempt) : (resolveA id st x).id = x.id := by
  unfold resolveA; split <;> rfl

theorem uniqueIds_resolve_sql (s : Store) (hu : uniqueIds s.rows = true) (h id : Nat) (st : AState) :
    uniqueIds (resolve .sql s h id st).1.rows = true := by
  unfold resolve
  cases hp : s.payment? h with
  | none => exact hu
  | some p =>
    simp only
    cases hupd : updatable p.status with
    | ok =>
      simp only
      cases hf : s.rows.find? (fun r => r.a.id == id) with
      | none => exact hu
      | some r =>
        simp only
        split
        · exact hu
        · exact uniqueIds_map _ (fun r => resolveA_id id st r.a) _ hu
    | _ => exact hu

/-- the SQL store keeps attempt ids globally unique (UNIQUE(attempt_index)). -/
theorem uniqueIds_step_sql (s : Store) (hu : uniqueIds s.rows = true) (op : Op) :
    uniqueIds (step .sql s op).1.rows = true := by
  cases op with
  | init h v =>
    simp only [step]
    cases hg : initGate s h with
    | ok => exact uniqueIds_filter _ _ hu
    | _ => exact hu
  | reg h a0 =>
    simp only [step]
    cases hp : s.payment? h with
    | none => exact hu
    | some p =>
      simp only
      cases hr : p.registrable with
      | ok =>
        simp only
        cases hv : verifyAttempt p { a0 with st := .inflight } with
        | ok =>
          simp only
          split
          · exact hu
          · rename_i hany
            exact uniqueIds_append_one _ _ hu (by simpa using hany)
        | _ => exact hu
      | _ => exact hu
  | settle h id => exact uniqueIds_resolve_sql s hu h id _
  | failAtt h id => exact uniqueIds_resolve_sql s hu h id _
  | fail h r =>
    simp only [step]
    cases hi : s.info h with
    | none => exact hu
    | some i => exact hu
  | del h =>
    simp only [step]
    cases hp : s.payment? h with
    | none => exact hu
    | some p =>
      simp only
      cases hr : removable p.status with
      | ok => exact uniqueIds_filter _ _ hu
      | _ => exact hu
  | delFailed h =>
    simp only [step]
    cases hp : s.payment? h with
    | none => exact hu
    | some p =>
      simp only
      cases hr : removable p.status with
      | ok => exact uniqueIds_filter _ _ hu
      | _ => exact hu
  | fetch h =>
    simp only [step]
    cases hp : s.payment? h <;> exact hu
  | delAll fo fho =>
    simp only [step]
    cases fho with
    | true => exact uniqueIds_filter _ _ hu
    | false => exact uniqueIds_filter _ _ hu

/-- some operation of the list is divergent in the state it is issued in (states along the SQL
    run, which is also the KV run up to the first divergence). -/
def divergesRun (s : Store) : List Op → Bool
  | [] => false
  | op :: ops => diverges s op || divergesRun (step .sql s op).1 ops

/-- `backend_bisimulation` — the cross-backend theorem at full strength: on EVERY history, from
    any store with globally unique attempt ids (e.g. the empty one), in which no operation is of
    shape (F1) or (F2) when it is issued, the KV store model and the SQL store model end in the
    same store and give the same answers (same payment dumps, same error up to the documented
    identities) for every operation. -/
theorem backend_bisimulation (ops : List Op) (s : Store) (hu : uniqueIds s.rows = true)
    (hnd : divergesRun s ops = false) :
    (run .kv s ops).1 = (run .sql s ops).1 ∧
    canonAnswers ops (run .kv s ops).2 = canonAnswers ops (run .sql s ops).2 := by
  induction ops generalizing s with
  | nil => exact ⟨rfl, rfl⟩
  | cons op ops ih =>
    simp only [divergesRun, Bool.or_eq_false_iff] at hnd
    obtain ⟨h1, h2⟩ := (step_agree_iff s hu op).2 hnd.1
    have ih' := ih (step .sql s op).1 (uniqueIds_step_sql s hu op) hnd.2
    simp only [run, canonAnswers, List.zipWith_cons_cons]
    rw [h1]
    refine ⟨ih'.1, ?_⟩
    rw [h2]
    congr 1
    exact ih'.2

/-- `backend_first_divergence` — necessity: if some operation IS of shape (F1)/(F2) when issued,
    then up to the first such operation the two models are in the same store with the same
    answers, and that operation is answered differently (one backend `ok`, the other an error):
    the history restriction of `backend_bisimulation` cannot be weakened. -/
theorem backend_first_divergence (ops : List Op) (s : Store) (hu : uniqueIds s.rows = true)
    (hd : divergesRun s ops = true) :
    ∃ pre op post, ops = pre ++ op :: post ∧ divergesRun s pre = false ∧
      exec .kv s pre = exec .sql s pre ∧ diverges (exec .sql s pre) op = true ∧
      canon op (step .kv (exec .kv s pre) op).2 ≠ canon op (step .sql (exec .sql s pre) op).2 := by
  induction ops generalizing s with
  | nil => simp [divergesRun] at hd
  | cons op ops ih =>
    cases hdo : diverges s op with
    | true =>
      refine ⟨[], op, ops, rfl, rfl, rfl, hdo, ?_⟩
      intro heq
      have hne : ¬ Agree s op := by
        intro hag
        have := (step_agree_iff s hu op).1 hag
        rw [hdo] at this; cases this
      -- the stores may or may not coincide, the answers already differ
      cases op with
      | reg h a0 =>
        simp only [diverges] at hdo
        cases hp : s.payment? h with
        | none => simp [hp] at hdo
        | some p =>
          simp only [hp, Bool.and_eq_true, beq_iff_eq] at hdo
          obtain ⟨⟨hr, hv⟩, hany⟩ := hdo
          have h2 : canon (.reg h a0) (step .kv s (.reg h a0)).2 =
              canon (.reg h a0) (step .sql s (.reg h a0)).2 := heq
          simp only [step, hp, hr, hv, canon] at h2
          have hany' : s.rows.any (fun r => r.a.id == ({ a0 with st := AState.inflight } : Attempt).id) = true := hany
          simp only [hany', if_true] at h2
          split at h2 <;> simp [errClass] at h2
      | settle h id =>
        obtain ⟨h1, _, h3⟩ := resolve_diverge s hu h id .settled hdo
        have h2 : canon (.settle h id) (step .kv s (.settle h id)).2 =
            canon (.settle h id) (step .sql s (.settle h id)).2 := heq
        simp only [step, canon] at h2
        have := congrArg Prod.fst h2
        simp [h1, h3, errClass] at this
      | failAtt h id =>
        obtain ⟨h1, _, h3⟩ := resolve_diverge s hu h id .failed hdo
        have h2 : canon (.failAtt h id) (step .kv s (.failAtt h id)).2 =
            canon (.failAtt h id) (step .sql s (.failAtt h id)).2 := heq
        simp only [step, canon] at h2
        have := congrArg Prod.fst h2
        simp [h1, h3, errClass] at this
      | init h v => simp [diverges] at hdo
      | fail h r => simp [diverges] at hdo
      | del h => simp [diverges] at hdo
      | delFailed h => simp [diverges] at hdo
      | fetch h => simp [diverges] at hdo
      | delAll fo fho => simp [diverges] at hdo
    | false =>
      simp only [divergesRun, hdo, Bool.false_or] at hd
      obtain ⟨h1, _⟩ := (step_agree_iff s hu op).2 hdo
      obtain ⟨pre, o, post, he, hpre, hst, hdv, hne⟩ :=
        ih (step .sql s op).1 (uniqueIds_step_sql s hu op) hd
      refine ⟨op :: pre, o, post, by simp [he], by simp [divergesRun, hdo, hpre], ?_, ?_, ?_⟩
      · simp only [exec_cons, h1]; exact hst
      · simpa only [exec_cons] using hdv
      · simpa only [exec_cons, h1] using hne

/-- the caller contract of round 4 (`opOk`: fresh id on registration, attempts resolved through
    their own payment) excludes both divergent shapes, so `backend_equivalence` is the special
    case of `backend_bisimulation`. -/
theorem opOk_not_diverges (s : Store) (op : Op) (hok : opOk s op = true) : diverges s op = false := by
  cases op with
  | reg h a =>
    simp only [opOk] at hok
    simp only [diverges]
    cases hp : s.payment? h with
    | none => rfl
    | some p => simp [any_rows_false s a.id hok]
  | settle h id =>
    simp only [opOk] at hok
    simp only [diverges, foreignInflight]
    cases hp : s.payment? h with
    | none => rfl
    | some p =>
      simp only [Bool.and_eq_false_iff]
      right
      rw [List.any_eq_false]
      intro r hr
      have := List.all_eq_true.1 hok r hr
      simp only [Bool.or_eq_true, bne_iff_ne, ne_eq, beq_iff_eq] at this
      rcases this with h1 | h1 <;> simp [h1]
  | failAtt h id =>
    simp only [opOk] at hok
    simp only [diverges, foreignInflight]
    cases hp : s.payment? h with
    | none => rfl
    | some p =>
      simp only [Bool.and_eq_false_iff]
      right
      rw [List.any_eq_false]
      intro r hr
      have := List.all_eq_true.1 hok r hr
      simp only [Bool.or_eq_true, bne_iff_ne, ne_eq, beq_iff_eq] at this
      rcases this with h1 | h1 <;> simp [h1]
  | init h v => rfl
  | fail h r => rfl
  | del h => rfl
  | delFailed h => rfl
  | fetch h => rfl
  | delAll fo fho => rfl

/-! ### necessity witnesses = the two open findings; non-vacuity -/

/-- (F2) on the model: payment 1 is initiated, attempt 0 belongs to payment 0 and is in flight;
    `SettleAttempt(hash 1, attempt 0)` is accepted by the SQL model (payment 0 becomes succeeded
    although the call named payment 1) and refused by the KV model. -/
def foreignOps : List Op :=
  [.init 0 10, .reg 0 (mppAttempt 0 10), .init 1 10, .settle 1 0, .fetch 0]

example : divergesRun Store.empty dupOps = true := by decide
example : divergesRun Store.empty foreignOps = true := by decide
example : (run .kv Store.empty foreignOps).2.map (·.1) = [.ok, .ok, .ok, .other, .ok] := by decide
example : (run .sql Store.empty foreignOps).2.map (·.1) = [.ok, .ok, .ok, .ok, .ok] := by decide
example : ((exec .sql Store.empty foreignOps).payment? 0).map (·.status) = some .succeeded := by decide
example : ((exec .kv Store.empty foreignOps).payment? 0).map (·.status) = some .inFlight := by decide

/-- the bisimulation hypothesis is satisfiable by histories OUTSIDE the round-4 contract: attempt 0
    of payment 0 has FAILED when it is named through payment 1 (`opOk = false`, not divergent). -/
def staleForeignOps : List Op :=
  [.init 0 10, .reg 0 (mppAttempt 0 10), .failAtt 0 0, .init 1 10, .settle 1 0, .reg 1 (mppAttempt 1 4),
   .failAtt 1 1, .fail 1 2, .init 1 7, .delAll true false]

example : divergesRun Store.empty staleForeignOps = false := by decide
example : respects Store.empty staleForeignOps = false := by decide
example : divergesRun Store.empty sampleOps = false := by decide
example : uniqueIds Store.empty.rows = true := rfl

end LndModel.C16
