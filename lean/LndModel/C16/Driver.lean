/-
C16 driver: replays a harness trace on the model (correspondence, `MISMATCH`)
and evaluates the property monitor on the implementation's answers (`MONITOR`).
The stream name given on the command line selects the backend model
(`sql*` → `Backend.sql`, otherwise `Backend.kv`).

The monitor does not use the model's `step`: it keeps its own ledger of the
registrations the implementation admitted and recomputes every clause of the
property with exact arithmetic from that ledger and from the fields of the
implementation's own payment dumps.
-/
import LndModel.Prelude.Lines
import LndModel.C16.Model
import LndModel.C16.Light
import LndModel.C16.Life

open LndModel LndModel.Lines LndModel.C16

namespace LndModel.C16.Driver

/-! ### rendering / parsing -/

def errName : Err → String
  | .ok => "ok"
  | .alreadyPaid => "AlreadyPaid"
  | .paymentInFlight => "PaymentInFlight"
  | .paymentExists => "PaymentExists"
  | .notInitiated => "NotInitiated"
  | .alreadySucceeded => "AlreadySucceeded"
  | .alreadyFailed => "AlreadyFailed"
  | .attemptAlreadySettled => "AttemptAlreadySettled"
  | .attemptAlreadyFailed => "AttemptAlreadyFailed"
  | .valueMismatch => "ValueMismatch"
  | .valueExceedsAmt => "ValueExceedsAmt"
  | .nonMPPayment => "NonMPPayment"
  | .mppayment => "MPPayment"
  | .mppRecordInBlinded => "MPPRecordInBlinded"
  | .blindedTotalMismatch => "BlindedTotalMismatch"
  | .mixedBlinded => "MixedBlinded"
  | .blindedMissingTotal => "BlindedMissingTotal"
  | .mppAddrMismatch => "MPPAddrMismatch"
  | .mppTotalMismatch => "MPPTotalMismatch"
  | .pendingSettled => "PendingSettled"
  | .pendingFailed => "PendingFailed"
  | .other => "other"

def statusNum : Status → Nat
  | .initiated => 1 | .inFlight => 2 | .succeeded => 3 | .failed => 4

def stChar : AState → String
  | .inflight => "I" | .settled => "S" | .failed => "F"

def b01 (b : Bool) : Nat := if b then 1 else 0

def insertById (a : Attempt) : List Attempt → List Attempt
  | [] => [a]
  | x :: xs => if a.id < x.id then a :: x :: xs else x :: insertById a xs

def sortById (as : List Attempt) : List Attempt := as.foldl (fun acc a => insertById a acc) []

def shapeStr (s : Shape) : String :=
  match s.blinded, s.mpp with
  | true, some _ => s!"bm:0:{s.btotal}"
  | true, none => s!"b:0:{s.btotal}"
  | false, some m => s!"m:{m.1}:{m.2}"
  | false, none => "p:0:0"

def attemptStr (a : Attempt) : String :=
  s!"{a.id}:{a.amt}:{stChar a.st}:{shapeStr a.shape}"

/-- `(bool, error)` of AllowMoreAttempts / NeedWaitAttempts. -/
def decStr : Dec → String
  | .yes => "t" | .no => "f" | .internal => "E"

/-- canonical dump, same format as `c16.dump` of the harness. -/
def dumpStr (p : Payment) : String :=
  let hs := sortById p.attempts
  let hstr := if hs.isEmpty then "-" else ",".intercalate (hs.map attemptStr)
  let reason := match p.reason with | some r => toString r | none => "-"
  let ti := match p.terminalInfo with | .settled => "S" | .reason r => s!"R{r}" | .nothing => "-"
  s!"value={p.value} st={statusNum p.status} rem={p.remaining} nif={p.numInFlight} fees={p.feesPaid} " ++
  s!"hs={b01 p.hasSettledHTLC} pf={b01 p.paymentFailed} reason={reason} " ++
  s!"allow={decStr p.allowMore} wait={decStr p.needWait} term={b01 p.terminated} ti={ti} htlcs={hstr}"

def resStr (r : Res) : String :=
  match r with
  | (.ok, some p) => "ok " ++ dumpStr p
  | (e, _) => errName e

def shapeOf (kind : String) (addr total : Nat) : Shape :=
  match kind with
  | "m" => ⟨false, 0, some (addr, total)⟩
  | "b" => ⟨true, total, none⟩
  | "bm" => ⟨true, total, some (addr, total)⟩
  | _ => ⟨false, 0, none⟩

/-- everything after `=>`. -/
def answer (ws : List String) : List String :=
  match ws.dropWhile (· ≠ "=>") with
  | _ :: r => r
  | [] => []

/-- parsed htlc of an implementation dump. -/
structure DH where
  id : String
  amt : Nat
  st : String
  kind : String
  addr : Nat
  total : Nat
  deriving Repr, BEq

structure Dump where
  value : Nat
  st : Nat
  rem : Nat
  nif : Nat
  fees : Nat
  hs : Nat
  pf : Nat
  reason : Option Nat
  htlcs : List DH
  /-- `TerminalInfo()` as the implementation answered it: S / R<reason> / - / X. -/
  ti : String := "?"
  deriving Repr

def parseDH (s : String) : Option DH :=
  match s.splitOn ":" with
  | [i, a, st, k, ad, t] =>
    match a.toNat?, ad.toNat?, t.toNat? with
    | some a, some ad, some t => some ⟨i, a, st, k, ad, t⟩
    | _, _, _ => none
  | _ => none

def parseDump (ws : List String) : Option Dump := do
  let value ← kvNat? ws "value"
  let st ← kvNat? ws "st"
  let rem ← kvNat? ws "rem"
  let nif ← kvNat? ws "nif"
  let fees ← kvNat? ws "fees"
  let hs ← kvNat? ws "hs"
  let pf ← kvNat? ws "pf"
  let reasonS ← kv? ws "reason"
  let reason := reasonS.toNat?
  let hsS ← kv? ws "htlcs"
  let htlcs ← if hsS == "-" then some [] else (hsS.splitOn ",").mapM parseDH
  return ⟨value, st, rem, nif, fees, hs, pf, reason, htlcs, (kv? ws "ti").getD "?"⟩

/-! ### monitor state -/

/-- one admitted registration. -/
structure LE where
  id : Nat
  amt : Nat
  shape : Shape
  st : String      -- "I" | "S" | "F"
  deriving Repr

structure MP where
  value : Nat
  ledger : List LE := []
  reason : Option Nat := none
  /-- amounts of in-flight attempts whose record was overwritten by a duplicate id. -/
  lost : Nat := 0
  deriving Repr

/-- status by the documented table, from the monitor's own ledger. -/
def tableStatus (inflight settled failed pfailed : Bool) : Nat :=
  if inflight then 2 else if settled then 3 else if pfailed then 4 else if failed then 2 else 1

def MP.status (m : MP) : Nat :=
  tableStatus (m.ledger.any (·.st == "I")) (m.ledger.any (·.st == "S")) (m.ledger.any (·.st == "F"))
    m.reason.isSome

def MP.sent (m : MP) : Nat := (m.ledger.filter (·.st != "F")).foldl (fun acc e => acc + e.amt) 0

/-- a successful concurrent call: payment, attempt id (0 if none), amount / outcome tag, and
    the stamps taken before the call was issued and after it returned. -/
structure CEv where
  h : Nat
  id : Nat := 0
  amt : Nat := 0
  st : String := ""
  s : Nat
  e : Nat
  deriving Repr

/-- `a` returned before `b` was issued. -/
def CEv.before (a b : CEv) : Bool := a.e < b.s

structure St where
  backend : Backend := .kv
  caseId : String := "0"
  store : Store := Store.empty
  mon : List (Nat × MP) := []      -- assoc list: hash ↦ monitor payment
  lastSt : List (Nat × Nat) := []  -- hash ↦ last status reported by the implementation
  dup : Bool := false
  lines : Nat := 0
  cases : Nat := 0
  ops : Nat := 0
  mismatches : Nat := 0
  monitorFails : Nat := 0
  samples : Nat := 0
  -- distribution
  okOps : Nat := 0
  errOps : Nat := 0
  regOk : Nat := 0
  regFull : Nat := 0        -- registrations that used the remaining amount exactly
  regExceed : Nat := 0      -- rejected with ValueExceedsAmt
  settles : Nat := 0
  failAtts : Nat := 0
  fails : Nat := 0
  reinitOk : Nat := 0
  reinitRefused : Nat := 0
  dels : Nat := 0
  dumps : Nat := 0
  stSeen : List Nat := []
  errKinds : List String := []
  dupAdmitted : Nat := 0
  foreignResolved : Nat := 0
  /-- after a bulk delete: hash ↦ (status before, may the payment itself disappear). -/
  bulkPending : List (Nat × Nat × Bool) := []
  bulkDeletes : Nat := 0
  -- `kind=contract` cases must respect the caller contract of `backend_equivalence`
  contract : Bool := false
  contractOps : Nat := 0
  -- concurrent tier (monitor only)
  conc : Bool := false
  cRegs : List CEv := []                     -- admitted registrations
  cRes : List CEv := []                      -- successful resolutions (st = "S"|"F")
  cInit : List CEv := []                     -- successful InitPayment calls
  cFail : List CEv := []                     -- successful Fail calls
  cDel : List CEv := []                      -- successful DeletePayment calls
  cDelFailed : List CEv := []                -- successful DeleteFailedAttempts calls
  cFinal : List (Nat × Nat) := []            -- hash ↦ final status
  concCases : Nat := 0
  concOps : Nat := 0
  /-- cross-backend stream: this state replays one half of every line; MONITOR lines are not
      printed (the per-backend streams report them), MISMATCH lines are. -/
  quiet : Bool := false
  side : String := ""
  /-- model: existing payments by sequence number (ghost `orderStep`). -/
  order : List Nat := []
  /-- monitor's own creation order (successful InitPayment / DeletePayment(s) answers). -/
  morder : List Nat := []
  /-- hash ↦ largest settled amount the implementation has reported since the payment was
      (re-)initiated. -/
  paid : List (Nat × Nat) := []
  pages : Nat := 0

def mget (m : List (Nat × MP)) (h : Nat) : Option MP := m.lookup h
def mset (m : List (Nat × MP)) (h : Nat) (v : MP) : List (Nat × MP) := (h, v) :: m.filter (·.1 != h)
def mdel (m : List (Nat × MP)) (h : Nat) : List (Nat × MP) := m.filter (·.1 != h)

def lget (m : List (Nat × Nat)) (h : Nat) : Option Nat := m.lookup h
def lset (m : List (Nat × Nat)) (h : Nat) (v : Nat) : List (Nat × Nat) := (h, v) :: m.filter (·.1 != h)
def ldel (m : List (Nat × Nat)) (h : Nat) : List (Nat × Nat) := m.filter (·.1 != h)

def mismatch (s : St) (detail : String) : IO St := do
  IO.println s!"MISMATCH case={s.caseId} line={s.lines} {s.side}{detail}"
  return { s with mismatches := s.mismatches + 1 }

/-- `dupTag`: the failure is attributable solely to an admitted duplicate attempt id (the known
    KVStore overwrite); only such lines carry `dup=1`. -/
def monitor (s : St) (clause detail : String) (dupTag : Bool := false) : IO St := do
  let tag := if dupTag then " dup=1" else ""
  if !s.quiet then
    IO.println s!"MONITOR case={s.caseId} clause={clause} line={s.lines} {detail}{tag}"
  return { s with monitorFails := s.monitorFails + 1 }

def insertLE (a : LE) : List LE → List LE
  | [] => [a]
  | x :: xs => if a.id < x.id then a :: x :: xs else x :: insertLE a xs

/-- ledger as the sorted list of (id, amt, state) strings, to compare with a dump. -/
def ledgerKey (l : List LE) : List String :=
  (l.foldl (fun acc a => insertLE a acc) []).map (fun e => s!"{e.id}:{e.amt}:{e.st}")

def dumpKey (d : Dump) : List String := d.htlcs.map (fun h => s!"{h.id}:{h.amt}:{h.st}")

/-- declarative consistency of a new attempt shape with the in-flight ones. -/
def shapeConsistent (value amt : Nat) (a : Shape) (inflight : List LE) : Bool :=
  if a.blinded then
    a.btotal != 0 && a.mpp.isNone &&
      inflight.all (fun e => e.shape.blinded && e.shape.mpp.isNone && e.shape.btotal == a.btotal)
  else
    match a.mpp with
    | some m => inflight.all (fun e => !e.shape.blinded && e.shape.mpp == some m)
    | none => amt == value && inflight.all (fun e => !e.shape.blinded && e.shape.mpp.isNone)

/-- clauses that only need the implementation's own dump. -/
def checkDump (s : St) (h : Nat) (d : Dump) (hist : Bool := true) : IO St := do
  let mut s := { s with dumps := s.dumps + 1,
                        stSeen := if s.stSeen.contains d.st then s.stSeen else d.st :: s.stSeen }
  let infl := d.htlcs.any (·.st == "I")
  let setl := d.htlcs.any (·.st == "S")
  let fld := d.htlcs.any (·.st == "F")
  if d.htlcs.any (fun x => x.st != "I" && x.st != "S" && x.st != "F") then
    s ← monitor s "status-table" s!"h={h} an attempt is reported both settled and failed"
  let want := tableStatus infl setl fld d.reason.isSome
  if d.st != want then
    s ← monitor s "status-table" s!"h={h} status={d.st} but table(inflight={infl},settled={setl},htlcFailed={fld},paymentFailed={d.reason.isSome})={want}"
  if setl && d.st == 4 then
    s ← monitor s "settled-never-failed" s!"h={h} a payment with a settled attempt is reported failed"
  let sent := (d.htlcs.filter (·.st != "F")).foldl (fun acc x => acc + x.amt) 0
  if sent > d.value then
    s ← monitor s "never-overpay" s!"h={h} settled+inflight={sent} > value={d.value} (stored attempts)"
  if d.rem + sent != d.value || d.nif != (d.htlcs.filter (·.st == "I")).length
      || d.hs != b01 setl || d.pf != b01 (!setl && d.reason.isSome) then
    s ← monitor s "state-fields" s!"h={h} rem={d.rem} nif={d.nif} hs={d.hs} pf={d.pf} inconsistent with attempts (sent={sent}, value={d.value})"
  -- what the router reports to the caller when the lifecycle ends (`TerminalInfo`): a settled
  -- attempt whenever there is one, the failure reason only without one
  if d.ti != "?" then
    let wantTi := if setl then "S" else match d.reason with | some r => s!"R{r}" | none => "-"
    if d.ti != wantTi then
      s ← monitor s "terminal-info" s!"h={h} TerminalInfo()={d.ti} but the attempts / failure reason say {wantTi} (S = a settled attempt, R<n> = failure reason n)"
  if !hist then return s
  -- history clauses
  match lget s.lastSt h with
  | some 3 =>
    if d.st != 3 then
      s ← monitor s "succeeded-absorbing" s!"h={h} status went from succeeded to {d.st}"
  | some 4 =>
    if d.st != 4 then
      s ← monitor s "failed-sticky" s!"h={h} status went from failed to {d.st} without re-initiation"
  | _ => pure ()
  s := { s with lastSt := lset s.lastSt h d.st }
  -- a payment that ever had a settled attempt: never failed, amount paid never decreases
  let paidNow := (d.htlcs.filter (·.st == "S")).foldl (fun acc x => acc + x.amt) 0
  match lget s.paid h with
  | some was =>
    if !setl || paidNow < was then
      s ← monitor s "settled-monotone" s!"h={h} amount paid went from {was} to {paidNow} (settled attempt present: {setl}) without re-initiation / deletion"
    if d.st == 4 then
      s ← monitor s "settled-monotone" s!"h={h} a payment that had a settled attempt ({was} paid) is reported failed"
  | none => pure ()
  if setl then
    s := { s with paid := lset s.paid h (max paidNow ((lget s.paid h).getD 0)) }
  match mget s.mon h with
  | none => s ← monitor s "fetch-truth" s!"h={h} a payment is returned that was never initiated (or was deleted)"
  | some m =>
    if d.value != m.value then
      s ← monitor s "attempts-track" s!"h={h} value={d.value}, initiated with {m.value}"
    if d.reason != m.reason then
      s ← monitor s "attempts-track" s!"h={h} reason differs from the recorded failure reason"
    if dumpKey d != ledgerKey m.ledger then
      s ← monitor s "attempts-track" s!"h={h} stored attempts {dumpKey d} differ from the admitted history {ledgerKey m.ledger}"
  return s

def bumpErr (s : St) (impl : String) : St :=
  if impl == "ok" then { s with okOps := s.okOps + 1 }
  else { s with errOps := s.errOps + 1,
                errKinds := if s.errKinds.contains impl then s.errKinds else impl :: s.errKinds }

/-- concurrent tier: no model replay; the dump-local clauses on every returned payment and
    order-insensitive checks (using the issue / return stamps for happens-before) on the
    quiescent final state. -/
def stepConc (s : St) (ws : List String) (isFinal : Bool) (sS eS : Nat) : IO St := do
  let opName := ws.headD "?"
  let ans := answer ws
  let impl := ans.headD "?"
  let mut s := bumpErr { s with ops := s.ops + 1, concOps := s.concOps + 1 } impl
  if impl == "panic" then
    s ← monitor s "panic" s!"{opName} panicked"
  let hN := (kvNat? ws "h").getD 0
  let dump := if impl == "ok" then parseDump ans else none
  match dump with
  | some d => if opName != "inflight" then s ← checkDump s hN d false
  | none => pure ()
  let ev : CEv := { h := hN, id := (kvNat? ws "id").getD 0, s := sS, e := eS }
  match opName with
  | "init" =>
    if impl == "ok" then
      s := { s with cInit := ev :: s.cInit, reinitOk := s.reinitOk + 1 }
    else
      s := { s with reinitRefused := s.reinitRefused + 1 }
  | "reg" =>
    if impl == "ok" then
      s := { s with regOk := s.regOk + 1, cRegs := { ev with amt := (kvNat? ws "amt").getD 0 } :: s.cRegs }
    else if impl == "ValueExceedsAmt" then
      s := { s with regExceed := s.regExceed + 1 }
  | "settle" | "failatt" =>
    if impl == "ok" then
      let st := if opName == "settle" then "S" else "F"
      s := if opName == "settle" then { s with settles := s.settles + 1 } else { s with failAtts := s.failAtts + 1 }
      if s.cRes.any (fun r => r.id == ev.id) then
        s ← monitor s "resolve-gate" s!"h={hN} attempt {ev.id} resolved twice under concurrency"
      s := { s with cRes := { ev with st := st } :: s.cRes }
  | "fail" =>
    if impl == "ok" then
      s := { s with fails := s.fails + 1, cFail := ev :: s.cFail }
  | "del" =>
    if impl == "ok" then
      s := { s with dels := s.dels + 1, cDel := ev :: s.cDel }
  | "delfailed" =>
    if impl == "ok" then
      s := { s with dels := s.dels + 1, cDelFailed := ev :: s.cDelFailed }
  | "fetch" =>
    if isFinal then
      let inits := s.cInit.filter (·.h == hN)
      let dels := s.cDel.filter (·.h == hN)
      let fails := s.cFail.filter (·.h == hN)
      let regs := s.cRegs.filter (·.h == hN)
      -- no_reinit: at most one InitPayment may succeed, unless a DeletePayment or a Fail of that
      -- hash was issued before the extra one returned (then a re-initiation can be legitimate)
      if inits.length > 1 then
        let unjustified := inits.filter (fun i =>
          !(dels.any (fun d => d.s < i.e)) && !(fails.any (fun f => f.s < i.e)))
        if unjustified.length > 1 then
          s ← monitor s "no-reinit" s!"h={hN} InitPayment succeeded {inits.length} times under concurrency with no Fail / DeletePayment that could explain it"
      -- register_gate: no registration issued after a Fail / DeletePayment returned (unless an
      -- InitPayment of that hash could have happened in between)
      for r in regs do
        for f in fails do
          if f.before r && !(inits.any (fun i => f.s < i.e)) then
            s ← monitor s "register-gate" s!"h={hN} attempt {r.id} admitted (issued at {r.s}) after Fail had returned (at {f.e})"
        for d in dels do
          if d.before r && !(inits.any (fun i => d.s < i.e)) then
            s ← monitor s "register-gate" s!"h={hN} attempt {r.id} admitted (issued at {r.s}) after DeletePayment had returned (at {d.e})"
      -- attempt ids are unique within a concurrent case
      for r in s.cRes do
        if r.h == hN && !(s.cRegs.any (fun x => x.id == r.id)) then
          s ← monitor s "resolve-gate" s!"h={hN} attempt {r.id} resolved but its registration was not admitted"
        if r.h != hN && regs.any (fun x => x.id == r.id) then
          if s.backend == .sql then
            s ← monitor s "resolve-foreign-attempt" s!"h={r.h} id={r.id}: the call resolved an attempt of payment h={hN}"
          else
            s ← monitor s "resolve-gate" s!"h={r.h} id={r.id}: the call resolved an attempt of payment h={hN}"
      -- one epoch only (never deleted, initiated once): the stored attempts must be exactly the
      -- admitted ones with their resolutions; failed ones may have been removed by a
      -- DeleteFailedAttempts that had not returned before the FailAttempt was issued
      let oneEpoch := dels.isEmpty && inits.length ≤ 1
      match dump with
      | none =>
        if !inits.isEmpty && dels.isEmpty then
          s ← monitor s "fetch-truth" s!"h={hN} final fetch={impl} for an initiated payment that was never deleted"
      | some d =>
        if inits.isEmpty then
          s ← monitor s "fetch-truth" s!"h={hN} a payment exists that no InitPayment created"
        if oneEpoch then
          let dfs := s.cDelFailed.filter (·.h == hN)
          let exp : List (LE × Bool × Bool) := regs.map (fun r =>
            match s.cRes.find? (fun x => x.id == r.id) with
            | some x =>
              let failed := x.st == "F"
              -- may be absent: a DeleteFailedAttempts returned after the FailAttempt was issued
              let mayGo := failed && dfs.any (fun df => x.s < df.e)
              -- must be absent: a DeleteFailedAttempts was issued after the FailAttempt returned
              let mustGo := failed && dfs.any (fun df => x.before df)
              (⟨r.id, r.amt, ⟨false, 0, none⟩, x.st⟩, mayGo, mustGo)
            | none => (⟨r.id, r.amt, ⟨false, 0, none⟩, "I"⟩, false, false))
          let have_ := dumpKey d
          let mandatory := ledgerKey ((exp.filter (fun (_, mayGo, _) => !mayGo)).map (·.1))
          let allowed := ledgerKey ((exp.filter (fun (_, _, mustGo) => !mustGo)).map (·.1))
          if !(mandatory.all have_.contains) || !(have_.all allowed.contains) then
            s ← monitor s "attempts-track" s!"h={hN} final attempts {have_} differ from the admitted history (required {mandatory}, allowed {allowed})"
          let sent := ((exp.map (·.1)).filter (·.st != "F")).foldl (fun acc e => acc + e.amt) 0
          if sent > d.value then
            s ← monitor s "never-overpay" s!"h={hN} concurrently admitted settled+inflight amounts {sent} > value={d.value}"
          if d.reason.isSome != !fails.isEmpty then
            s ← monitor s "attempts-track" s!"h={hN} final failure reason set={d.reason.isSome} but {fails.length} Fail calls succeeded"
        s := { s with cFinal := (hN, d.st) :: s.cFinal }
  | "inflight" =>
    if isFinal && impl == "ok" then
      let want := ([0, 1, 2] : List Nat).filter (fun h => match s.cFinal.lookup h with
        | some st => st == 1 || st == 2
        | none => false)
      let wantS := if want.isEmpty then "-" else ",".intercalate (want.map toString)
      if (kv? ans "set") != some wantS then
        s ← monitor s "inflight-set" s!"final FetchInFlightPayments={(kv? ans "set").getD "?"} but the non-terminal payments are {wantS}"
  | _ => pure ()
  return s

def step (s : St) (line : String) : IO St := do
  let s := { s with lines := s.lines + 1 }
  let ws := words line
  match ws with
  | "FACT" :: _ => return s
  | "CASE" :: id :: rest =>
    let isConc := (kv? rest "kind") == some "conc"
    let s := { s with contract := (kv? rest "kind") == some "contract" }
    let s := { s with bulkPending := [] }
    let s := { s with order := [], morder := [], paid := [] }
    let s := { s with caseId := id, store := Store.empty, mon := [], lastSt := [], dup := false,
                      cases := s.cases + 1, conc := isConc, cRegs := [], cRes := [], cInit := [],
                      cFail := [], cDel := [], cDelFailed := [], cFinal := [], concCases := s.concCases + (if isConc then 1 else 0) }
    return s
  | ["END"] => return s
  | [] => return s
  | opName :: _ =>
    if s.conc then
      let isFinal := opName == "final"
      let stamped := opName.startsWith "g="
      let ws' := if isFinal then ws.drop 1 else if stamped then ws.drop 3 else ws
      let sS := if stamped then (kvNat? (ws.take 3) "s").getD 0 else 0
      let eS := if stamped then (kvNat? (ws.take 3) "e").getD 0 else 0
      return ← stepConc s ws' isFinal sS eS
    let ans := answer ws
    let impl := ans.headD "?"
    let implStr := " ".intercalate ans
    let global := opName == "inflight" || opName == "delall" || opName == "list" || opName == "page"
    let some hN := (if global then some 0 else kvNat? ws "h") | mismatch s s!"unparsed line: {line.take 80}"
    let mut s := bumpErr { s with ops := s.ops + 1 } impl
    if s.samples < 6 && !s.quiet then
      IO.println s!"SAMPLE case={s.caseId} {line.take 200}"
      s := { s with samples := s.samples + 1 }
    if impl == "panic" then
      s ← monitor s "panic" s!"{opName} panicked"
    -- ---------- correspondence (X) ----------
    let modelOp : Option Op :=
      match opName with
      | "init" => (kvNat? ws "value").map (Op.init hN)
      | "reg" => do
        let id ← kvNat? ws "id"
        let amt ← kvNat? ws "amt"
        let kind ← kv? ws "kind"
        let addr ← kvNat? ws "addr"
        let total ← kvNat? ws "total"
        let fee ← kvNat? ws "fee"
        some (Op.reg hN ⟨id, amt, fee, shapeOf kind addr total, .inflight⟩)
      | "settle" => (kvNat? ws "id").map (Op.settle hN)
      | "failatt" => (kvNat? ws "id").map (Op.failAtt hN)
      | "fail" => (kvNat? ws "reason").map (Op.fail hN)
      | "del" => some (Op.del hN)
      | "delfailed" => some (Op.delFailed hN)
      | "fetch" => some (Op.fetch hN)
      | _ => none
    if opName == "inflight" then
      -- the SQL store selects by the WHERE clause of FetchNonTerminalPayments
      let set := if s.backend == .sql then s.store.inFlightSetSql [0, 1, 2] else s.store.inFlightSet [0, 1, 2]
      let m := "ok set=" ++ (if set.isEmpty then "-" else ",".intercalate (set.map toString))
      if m != implStr then
        s ← mismatch s s!"inflight: model={m} impl={implStr}"
    else if opName == "list" then
      let l := s.store.listing ((kvNat? ws "incl") == some 1) [0, 1, 2]
      let m := "ok set=" ++ (if l.isEmpty then "-" else ",".intercalate (l.map (fun (h, st) => s!"{h}:{statusNum st}")))
      if m != implStr then
        s ← mismatch s s!"list: model={m} impl={implStr}"
    else if opName == "delall" then
      let fo := (kvNat? ws "fo") == some 1
      let fho := (kvNat? ws "fho") == some 1
      let n := if s.backend == .sql then s.store.bulkCountL fo fho [0, 1, 2] else s.store.bulkCount fo fho [0, 1, 2]
      let m := s!"ok n={n}"
      if m != implStr then
        s ← mismatch s s!"delall fo={fo} fho={fho}: model={m} impl={implStr}"
      s := { s with order := orderStep s.store (Op.delAll fo fho) true s.order }
      s := { s with store := (stepD s.backend s.store (Op.delAll fo fho)).1 }
    else if opName == "page" then
      let incl := (kvNat? ws "incl") == some 1
      let rev := (kvNat? ws "rev") == some 1
      let cur := (kv? ws "cur").bind (·.toNat?)
      let mx := (kvNat? ws "max").getD 1
      let m := match cur with
        | some c => if !s.order.contains c then some "nocursor" else none
        | none => none
      let m := m.getD (
        let l := s.store.page s.order incl rev cur mx
        "ok set=" ++ (if l.isEmpty then "-" else ",".intercalate (l.map (fun (h, st) => s!"{h}:{statusNum st}")))
          ++ s!" off=1 total={s.order.length}")
      if m != implStr then
        s ← mismatch s s!"page incl={incl} rev={rev} cur={cur} max={mx}: model={m} impl={implStr}"
      s := { s with pages := s.pages + 1 }
    else
      match modelOp with
      | none => s ← mismatch s s!"unparsed line: {line.take 80}"
      | some op =>
        if s.contract then
          -- the hypothesis `respects` of `backend_equivalence`, evaluated on the model store
          if !opOk s.store op then
            s ← mismatch s s!"{opName} h={hN}: a contract case issued an operation outside the caller contract (opOk = false)"
          s := { s with contractOps := s.contractOps + 1 }
        -- KV model, or the SQL model with its lightweight status path (`stepSqlL`)
        let (st', r) := stepD s.backend s.store op
        let m := resStr r
        if m != implStr then
          s ← mismatch s s!"{opName} h={hN}: model={m} impl={implStr}"
        s := { s with order := orderStep s.store op (r.1 == .ok) s.order }
        s := { s with store := st' }
    -- ---------- monitor (S) ----------
    let dump := if impl == "ok" then parseDump ans else none
    let mp := mget s.mon hN
    match opName with
    | "init" =>
      if impl == "ok" then
        let some v := kvNat? ws "value" | return s
        match mp with
        | some m =>
          s := { s with reinitOk := s.reinitOk + 1 }
          if m.status != 4 then
            s ← monitor s "no-reinit" s!"h={hN} re-initiated while status={m.status} (1=initiated 2=inflight 3=succeeded)"
        | none => pure ()
        if (lget s.paid hN).isSome then
          s ← monitor s "settled-monotone" s!"h={hN} re-initiated although it had a settled attempt"
        s := { s with mon := mset s.mon hN { value := v }, lastSt := ldel s.lastSt hN,
                      paid := ldel s.paid hN, morder := s.morder.filter (· != hN) ++ [hN] }
      else if mp.isSome then
        s := { s with reinitRefused := s.reinitRefused + 1 }
    | "reg" =>
      if impl == "ok" then
        let some id := kvNat? ws "id" | return s
        let some amt := kvNat? ws "amt" | return s
        let shape := shapeOf ((kv? ws "kind").getD "p") ((kvNat? ws "addr").getD 0) ((kvNat? ws "total").getD 0)
        s := { s with regOk := s.regOk + 1 }
        match mp with
        | none => s ← monitor s "register-gate" s!"h={hN} attempt {id} admitted on a payment that does not exist"
        | some m =>
          if m.ledger.any (·.st == "S") then
            s ← monitor s "register-gate" s!"h={hN} attempt {id} admitted although an attempt has settled"
          if m.reason.isSome then
            s ← monitor s "register-gate" s!"h={hN} attempt {id} admitted although the payment has a failure reason"
          if m.status != 1 && m.status != 2 then
            s ← monitor s "register-gate" s!"h={hN} attempt {id} admitted in status {m.status}"
          if !shapeConsistent m.value amt shape (m.ledger.filter (·.st == "I")) then
            s ← monitor s "register-consistency" s!"h={hN} attempt {id} ({shapeStr shape}, amt={amt}) is inconsistent with the in-flight attempts / payment value {m.value}"
          -- the amount gate on what the store has recorded so far, BEFORE the ledger is touched
          -- (never tagged: a broken gate is a violation on the duplicate-id path too)
          let gateHeld := m.sent + amt ≤ m.value
          if !gateHeld then
            s ← monitor s "register-gate" s!"h={hN} attempt {id} amt={amt} admitted although recorded settled+inflight={m.sent} + amt > value={m.value}"
          let mut m := m
          if m.ledger.any (·.id == id) then
            -- duplicate attempt id admitted: the store overwrote the record of an attempt
            s := { s with dup := true, dupAdmitted := s.dupAdmitted + 1 }
            s ← monitor s "reg-dup-id" s!"h={hN} attempt id {id} admitted twice; the earlier attempt's record is overwritten" true
            -- exposure no longer visible in the stored attempts: the old amount of an overwritten
            -- in-flight record, or the new amount when the record stays marked failed
            let lostNow := (m.ledger.filter (fun e => e.id == id)).foldl
              (fun acc e => acc + (if e.st == "I" then e.amt else if e.st == "F" then amt else 0)) 0
            -- follow the implementation: the record keeps its outcome, takes the new amount
            m := { m with lost := m.lost + lostNow,
                          ledger := m.ledger.map (fun e => if e.id == id then { e with amt := amt, shape := shape } else e) }
          else
            m := { m with ledger := m.ledger ++ [⟨id, amt, shape, "I"⟩] }
          if m.sent + m.lost > m.value then
            -- known only when the stored attempts alone are within the amount and the excess
            -- comes from records overwritten by a duplicate id
            s ← monitor s "never-overpay" s!"h={hN} admitted settled+inflight amounts {m.sent + m.lost} (of which {m.lost} no longer visible in the store) > value={m.value} after attempt {id} amt={amt}" (gateHeld && m.sent ≤ m.value && m.lost > 0)
          if m.sent == m.value then s := { s with regFull := s.regFull + 1 }
          s := { s with mon := mset s.mon hN m }
      else if impl == "ValueExceedsAmt" then
        s := { s with regExceed := s.regExceed + 1 }
    | "settle" | "failatt" =>
      if impl == "ok" then
        let some id := kvNat? ws "id" | return s
        let newSt := if opName == "settle" then "S" else "F"
        s := if opName == "settle" then { s with settles := s.settles + 1 } else { s with failAtts := s.failAtts + 1 }
        match mp with
        | none => s ← monitor s "resolve-gate" s!"h={hN} attempt {id} resolved on a payment that does not exist"
        | some m =>
          if m.status != 1 && m.status != 2 then
            s ← monitor s "resolve-gate" s!"h={hN} attempt {id} resolved although the payment status is {m.status}"
          if m.ledger.any (fun e => e.id == id && e.st == "I") then
            let m := { m with ledger := m.ledger.map (fun e => if e.id == id && e.st == "I" then { e with st := newSt } else e) }
            s := { s with mon := mset s.mon hN m }
          else
            -- not an in-flight attempt of this payment: does it belong to another payment?
            -- (only the SQL store addresses attempts by id alone, and then the payment returned for
            -- hN is unchanged; anything else is an unexplained resolution of hN)
            let unchanged := match dump with
              | some d => dumpKey d == ledgerKey m.ledger
              | none => false
            let owner := if s.backend == .sql && unchanged then
                s.mon.find? (fun (k, o) => k != hN && o.ledger.any (fun e => e.id == id && e.st == "I"))
              else none
            match owner with
            | some (k, o) =>
              s := { s with foreignResolved := s.foreignResolved + 1 }
              s ← monitor s "resolve-foreign-attempt" s!"h={hN} id={id}: the call resolved an attempt of payment h={k}"
              let o := { o with ledger := o.ledger.map (fun e => if e.id == id && e.st == "I" then { e with st := newSt } else e) }
              s := { s with mon := mset s.mon k o }
            | none =>
              s ← monitor s "resolve-gate" s!"h={hN} attempt {id} resolved but it is not an in-flight attempt of the payment"
    | "fail" =>
      if impl == "ok" then
        s := { s with fails := s.fails + 1 }
        match mp with
        | none => s ← monitor s "fetch-truth" s!"h={hN} Fail succeeded on a payment that does not exist"
        | some m => s := { s with mon := mset s.mon hN { m with reason := kvNat? ws "reason" } }
    | "del" | "delfailed" =>
      if impl == "ok" then
        s := { s with dels := s.dels + 1 }
        match mp with
        | none => s ← monitor s "fetch-truth" s!"h={hN} delete succeeded on a payment that does not exist"
        | some m =>
          if m.status == 2 then
            s ← monitor s "delete-inflight" s!"h={hN} {opName} allowed while the payment is in flight"
          if opName == "del" then
            s := { s with mon := mdel s.mon hN, lastSt := ldel s.lastSt hN, paid := ldel s.paid hN,
                          morder := s.morder.filter (· != hN) }
          else
            s := { s with mon := mset s.mon hN { m with ledger := m.ledger.filter (·.st != "F") } }
    | "delall" =>
      if impl == "ok" then
        let fo := (kvNat? ws "fo") == some 1
        let fho := (kvNat? ws "fho") == some 1
        s := { s with bulkDeletes := s.bulkDeletes + 1 }
        -- which payments DeletePayments may act on, from the monitor's own ledger: never an
        -- in-flight one; with failedOnly only a failed one
        let acts := fun (m : MP) => m.status != 2 && (!fo || m.status == 4)
        let hit := s.mon.filter (fun (_, m) => acts m)
        let n := (kvNat? ans "n").getD 0
        let allowed := if fho then 0 else hit.length
        if n > allowed then
          s ← monitor s "bulk-delete" s!"DeletePayments(failedOnly={fo},failedHtlcsOnly={fho}) reports {n} payments deleted but only {allowed} may be (statuses {s.mon.map (fun (h, m) => (h, m.status))})"
        -- remember what each payment looked like; the fetches that follow are judged against it
        s := { s with bulkPending := s.mon.map (fun (h, m) => (h, m.status, acts m && !fho)) }
        let mon' := s.mon.filterMap (fun (h, m) =>
          if acts m then
            if fho then some (h, { m with ledger := m.ledger.filter (·.st != "F") }) else none
          else some (h, m))
        s := { s with mon := mon', lastSt := s.lastSt.filter (fun (h, _) => mon'.any (·.1 == h)),
                      paid := s.paid.filter (fun (h, _) => mon'.any (·.1 == h)),
                      morder := s.morder.filter (fun h => mon'.any (·.1 == h)) }
    | "list" =>
      if impl == "ok" then
        let incl := (kvNat? ws "incl") == some 1
        let want := ([0, 1, 2] : List Nat).filterMap (fun h => match mget s.mon h with
          | some m => if incl || m.status == 3 then some s!"{h}:{m.status}" else none
          | none => none)
        let wantS := if want.isEmpty then "-" else ",".intercalate want
        if (kv? ans "set") != some wantS then
          s ← monitor s "listing" s!"QueryPayments(IncludeIncomplete={incl})={(kv? ans "set").getD "?"} but the payments (hash:status) are {wantS}"
    | "page" =>
      if impl == "ok" then
        -- expected page from the monitor's own creation order and ledger statuses
        let incl := (kvNat? ws "incl") == some 1
        let rev := (kvNat? ws "rev") == some 1
        let cur := (kv? ws "cur").bind (·.toNat?)
        let mx := (kvNat? ws "max").getD 1
        let range := match cur with
          | none => s.morder
          | some c => if rev then s.morder.takeWhile (· != c) else (s.morder.dropWhile (· != c)).drop 1
        let shown := range.filterMap (fun h => match mget s.mon h with
          | some m => if incl || m.status == 3 then some s!"{h}:{m.status}" else none
          | none => none)
        let want := if rev then shown.drop (shown.length - mx) else shown.take mx
        let wantS := if want.isEmpty then "-" else ",".intercalate want
        if (kv? ans "set") != some wantS then
          s ← monitor s "listing" s!"QueryPayments(IncludeIncomplete={incl},Reversed={rev},cursor=h{cur},max={mx})={(kv? ans "set").getD "?"} but by creation order / status the page is {wantS}"
        if (kvNat? ans "off") != some 1 then
          s ← monitor s "listing" s!"QueryPayments page: First/LastIndexOffset or the sequence numbers of the page are inconsistent"
        if (kvNat? ans "total") != some s.mon.length then
          s ← monitor s "listing" s!"QueryPayments TotalCount={(kvNat? ans "total").getD 0} but {s.mon.length} payments exist"
    | "fetch" =>
      match s.bulkPending.find? (·.1 == hN) with
      | some (_, stBefore, mayGo) =>
        s := { s with bulkPending := s.bulkPending.filter (·.1 != hN) }
        if impl == "NotInitiated" && !mayGo then
          s ← monitor s "bulk-delete" s!"h={hN} payment with status {stBefore} was deleted by DeletePayments (only failed payments with failedOnly, never in-flight ones, none with failedHtlcsOnly)"
        match dump, mget s.mon hN with
        | some d, some m =>
          if dumpKey d != ledgerKey m.ledger then
            s ← monitor s "bulk-delete" s!"h={hN} (status {stBefore}) attempts after DeletePayments {dumpKey d}, allowed {ledgerKey m.ledger} (only failed attempts of terminal payments may be removed)"
        | _, _ => pure ()
      | none => pure ()
      if impl == "NotInitiated" && mp.isSome then
        s ← monitor s "fetch-truth" s!"h={hN} an initiated payment is reported as not initiated"
    | "inflight" =>
      if impl == "ok" then
        let want := ([0, 1, 2] : List Nat).filter (fun h => match mget s.mon h with
          | some m => m.status == 1 || m.status == 2
          | none => false)
        let wantS := if want.isEmpty then "-" else ",".intercalate (want.map toString)
        if (kv? ans "set") != some wantS then
          s ← monitor s "inflight-set" s!"FetchInFlightPayments={(kv? ans "set").getD "?"} but the non-terminal payments are {wantS}"
    | _ => pure ()
    -- dump clauses (after the ledger update so that the dump is compared with the new history)
    match dump with
    | some d => if !global then s ← checkDump s hN d
    | none => pure ()
    return s

/-! ### cross-backend stream (`x`): the same call on the real KVStore and the real SQLStore -/

/-- the documented error identities (both answers are errors, nothing is written). -/
def errClassS (opName e : String) : String :=
  match opName with
  | "reg" | "del" | "delfailed" => if e == "NotInitiated" then "other" else e
  | "settle" | "failatt" =>
    if e == "AttemptAlreadyFailed" || e == "AttemptAlreadySettled" then "other" else e
  | _ => e

structure XS where
  kv : St := { backend := .kv, quiet := true, side := "side=kv " }
  sql : St := { backend := .sql, quiet := true, side := "side=sql " }
  caseId : String := "0"
  contract : Bool := false
  /-- some operation of the case so far was outside the history restriction, judged from the
      operation list alone: a registration re-using an attempt id that an earlier registration of
      the case used, or a Settle/FailAttempt naming an id that was used for another payment. -/
  taint : Bool := false
  /-- the two stores have answered differently in this case: nothing more is compared. -/
  diverged : Bool := false
  used : List (Nat × Nat) := []     -- (attempt id, payment) of every registration issued
  lines : Nat := 0
  compared : Nat := 0
  agreedUpToIdentity : Nat := 0
  cases : Nat := 0
  taintedCases : Nat := 0
  divDup : Nat := 0
  divForeign : Nat := 0
  modelDivergent : Nat := 0
  fails : Nat := 0
  samples : Nat := 0

def stepXS (x : XS) (line : String) : IO XS := do
  let ws := words line
  let x := { x with lines := x.lines + 1 }
  match ws with
  | "CASE" :: id :: rest =>
    let kv ← step x.kv line
    let sql ← step x.sql line
    return { x with kv := kv, sql := sql, caseId := id, contract := (kv? rest "kind") == some "contract",
                    taint := false, diverged := false, used := [], cases := x.cases + 1 }
  | [] => return x
  | ["END"] => return x
  | "FACT" :: _ => return x
  | opName :: _ =>
    -- split "<op> => <kv answer> ## <sql answer>"
    let pre := ws.takeWhile (· ≠ "=>")
    let ans := answer ws
    let kvAns := ans.takeWhile (· ≠ "##")
    let sqlAns := (ans.dropWhile (· ≠ "##")).drop 1
    let kvLine := " ".intercalate (pre ++ ["=>"] ++ kvAns)
    let sqlLine := " ".intercalate (pre ++ ["=>"] ++ sqlAns)
    let mut x := x
    if x.samples < 4 then
      IO.println s!"SAMPLE case={x.caseId} {line.take 240}"
      x := { x with samples := x.samples + 1 }
    -- the model's prediction (hypothesis of `backend_bisimulation`), in the SQL model's store
    -- before the call; meaningful while the two stores have not diverged
    let hN := (kvNat? ws "h").getD 0
    let idN := (kvNat? ws "id").getD 0
    let predicted : Bool :=
      match opName with
      | "reg" =>
        let shape := shapeOf ((kv? ws "kind").getD "p") ((kvNat? ws "addr").getD 0) ((kvNat? ws "total").getD 0)
        diverges x.sql.store (Op.reg hN ⟨idN, (kvNat? ws "amt").getD 0, (kvNat? ws "fee").getD 0, shape, .inflight⟩)
      | "settle" => diverges x.sql.store (Op.settle hN idN)
      | "failatt" => diverges x.sql.store (Op.failAtt hN idN)
      | _ => false
    -- history restriction from the operation list alone (a superset of `opOk = false`)
    let wasTaint := x.taint
    if opName == "reg" then
      if x.used.any (·.1 == idN) then x := { x with taint := true }
      x := { x with used := (idN, hN) :: x.used }
    if opName == "settle" || opName == "failatt" then
      if x.used.any (fun (i, h) => i == idN && h != hN) then x := { x with taint := true }
    if x.taint && !wasTaint then
      x := { x with taintedCases := x.taintedCases + 1 }
      if x.contract then
        IO.println s!"MISMATCH case={x.caseId} line={x.lines} a contract case issued {opName} h={hN} id={idN} outside the history restriction"
        x := { x with fails := x.fails + 1 }
    -- both halves through the per-backend pipeline (model replay; monitor lines suppressed)
    let kv ← step x.kv kvLine
    let sql ← step x.sql sqlLine
    x := { x with kv := kv, sql := sql }
    if x.diverged then return x
    -- ---------- backends-agree ----------
    let ka := " ".intercalate kvAns
    let sa := " ".intercalate sqlAns
    let sameUpTo := kvAns.length == 1 && sqlAns.length == 1 && ka != "ok" && sa != "ok" &&
      errClassS opName ka == errClassS opName sa
    let agree := ka == sa || sameUpTo
    x := { x with compared := x.compared + 1,
                  agreedUpToIdentity := x.agreedUpToIdentity + (if ka != sa && sameUpTo then 1 else 0) }
    if predicted then x := { x with modelDivergent := x.modelDivergent + 1 }
    if predicted == agree then
      IO.println s!"MISMATCH case={x.caseId} line={x.lines} {opName} h={hN}: the model predicts {if predicted then "different" else "identical"} answers of the two backends, the real stores answered kv=[{ka.take 60}] sql=[{sa.take 60}]"
      x := { x with fails := x.fails + 1 }
    if !agree then
      x := { x with diverged := true }
      -- the only explained divergences: the two open findings, and only outside the restriction
      let dupShape := x.taint && opName == "reg" && kvAns.headD "" == "ok" && sqlAns.headD "" != "ok"
      let foreignShape := x.taint && (opName == "settle" || opName == "failatt") &&
        sqlAns.headD "" == "ok" && kvAns.headD "" != "ok"
      let tag := if dupShape then " dup=1" else if foreignShape then " foreign=1" else ""
      if dupShape then x := { x with divDup := x.divDup + 1 }
      if foreignShape then x := { x with divForeign := x.divForeign + 1 }
      IO.println s!"MONITOR case={x.caseId} clause=backends-agree line={x.lines} {opName} h={hN} id={idN}: KVStore answered [{ka.take 120}] but SQLStore answered [{sa.take 120}] (history restriction respected so far: {!x.taint}){tag}"
      x := { x with fails := x.fails + 1 }
    return x

/-! ### lifecycle stream (`life`): the real `resumePayment` over the real control tower / KVStore -/

def swName : SwKind → String
  | .ok => "ok" | .idNotFound => "idnotfound" | .unreadable => "unreadable"
  | .generic => "generic" | .link => "link"

def swOf (s : String) : Option SwKind :=
  match s with
  | "ok" | "settle" => some .ok
  | "idnotfound" => some .idNotFound
  | "unreadable" => some .unreadable
  | "generic" => some .generic
  | "link" => some .link
  | _ => none

def opLine : Op → String
  | .init h v => s!"init h={h} value={v}"
  | .reg h a => s!"reg h={h} id={a.id} amt={a.amt} kind=m addr={(a.shape.mpp.getD (0, 0)).1} total={(a.shape.mpp.getD (0, 0)).2} fee={a.fee}"
  | .settle h id => s!"settle h={h} id={id}"
  | .failAtt h id => s!"failatt h={h} id={id}"
  | .fail h r => s!"fail h={h} reason={r}"
  | .del h => s!"del h={h}"
  | .delFailed h => s!"delfailed h={h}"
  | .fetch h => s!"fetch h={h}"
  | .delAll _ _ => "delall"

/-- the lines a model run predicts (same text as the harness prints). -/
def renderEvs (b : Backend) : List Ev → List String
  | [] => []
  | .ask (.crash false n) _ :: .call _ op _ :: rest =>
    s!"O crash after=0 n={n}" :: s!"X {opLine op} => crash" :: renderEvs b rest
  | .ask (.crash true n) _ :: .call pre op _ :: rest =>
    s!"O crash after=1 n={n}" :: s!"{opLine op} => {resStr (LndModel.C16.step b pre op).2}" :: renderEvs b rest
  | .call _ op (some r) :: rest => s!"{opLine op} => {resStr r}" :: renderEvs b rest
  | .call _ op none :: rest => s!"X {opLine op} => crash" :: renderEvs b rest
  | .ask o args :: rest =>
    let a := fun (i : Nat) => args.getD i 0
    let routeArgs := s!"max={a 0} budget={a 1} nif={a 2}"
    (match o with
     | .ctx r n => s!"O ctx reason={r} n={n}"
     | .crash af n => s!"O crash after={b01 af} n={n}"
     | .route amt fee => s!"O route {routeArgs} => amt={amt} fee={fee}"
     | .noRoute r => s!"O route {routeArgs} => noroute reason={r}"
     | .crit => s!"O route {routeArgs} => crit"
     | .nextId id => s!"O nextid => {id}"
     | .send k => s!"O send id={a 0} => {swName k}"
     | .mc v => s!"O mc id={a 0} => " ++ (match v with | none => "err" | some none => "-" | some (some r) => toString r)
     | .result id k => s!"O result id={id} => " ++ (if k == .ok then "settle" else swName k))
    :: renderEvs b rest

def parseOracle (ws : List String) : Option OEv :=
  let ans := answer ws
  match ws with
  | "O" :: "ctx" :: _ => do
    let r ← kvNat? ws "reason"
    let n ← kvNat? ws "n"
    some (OEv.ctx r n)
  | "O" :: "crash" :: _ => do
    let af ← kvNat? ws "after"
    let n ← kvNat? ws "n"
    some (OEv.crash (af == 1) n)
  | "O" :: "route" :: _ =>
    match ans with
    | ["crit"] => some .crit
    | "noroute" :: _ => (kvNat? ans "reason").map OEv.noRoute
    | _ => do
      let amt ← kvNat? ans "amt"
      let fee ← kvNat? ans "fee"
      some (.route amt fee)
  | "O" :: "nextid" :: _ => (ans.head?.bind (·.toNat?)).map OEv.nextId
  | "O" :: "send" :: _ => (ans.head?.bind swOf).map OEv.send
  | "O" :: "mc" :: _ =>
    match ans with
    | ["err"] => some (.mc none)
    | ["-"] => some (.mc (some none))
    | [r] => r.toNat?.map (fun r => OEv.mc (some (some r)))
    | _ => none
  | "O" :: "result" :: _ => do
    let id ← kvNat? ws "id"
    let k ← ans.head?.bind swOf
    some (.result id k)
  | _ => none

def outcomeStr : Outcome → String
  | .preimage => "preimage"
  | .reason r => s!"reason={r}"
  | .nilDeref => "panic"
  | .err .crash => "err=crash"
  | .err .internal => "err=internal"
  | .err .crit => "err=crit"
  | .err .desync => "err=desync"
  | .err (.db e) => s!"err={errName e}"

structure LifeSt where
  st : St := { backend := .kv }
  value : Nat := 0
  addr : Nat := 0
  inRun : Bool := false
  feeLimit : Nat := 0
  keep : Bool := false
  resumed : Bool := false
  snap : Store := Store.empty
  pend : Pending := none
  runLines : List String := []     -- reversed
  oracles : List OEv := []         -- reversed
  runs : Nat := 0
  caseRuns : Nat := 0
  resumedRuns : Nat := 0
  resends : Nat := 0
  oracleLines : Nat := 0
  crashes : Nat := 0
  ctxCancels : Nat := 0
  results : Nat := 0
  outPreimage : Nat := 0
  outReason : Nat := 0
  outErr : Nat := 0
  outCrash : Nat := 0
  launched : Nat := 0
  lifeFails : Nat := 0
  waitedOnPending : Nat := 0

def lifeMismatch (x : LifeSt) (detail : String) : IO LifeSt := do
  IO.println s!"MISMATCH case={x.st.caseId} line={x.st.lines} {detail}"
  return { x with lifeFails := x.lifeFails + 1 }

def lifeMonitor (x : LifeSt) (clause detail : String) : IO LifeSt := do
  IO.println s!"MONITOR case={x.st.caseId} clause={clause} line={x.st.lines} {detail}"
  return { x with lifeFails := x.lifeFails + 1 }

def stepLife (x : LifeSt) (line : String) : IO LifeSt := do
  let ws := words line
  match ws with
  | "CASE" :: _ :: rest =>
    let st ← step x.st line
    return { x with st := st, value := (kvNat? rest "value").getD 0, addr := (kvNat? rest "addr").getD 0,
                    inRun := false, pend := none, runLines := [], oracles := [], caseRuns := 0 }
  | "RUN" :: rest =>
    let resumed := (kv? rest "mode") == some "resumed"
    return { x with st := { x.st with lines := x.st.lines + 1 }, inRun := true, snap := x.st.store,
                    feeLimit := (kvNat? rest "feelimit").getD 0, keep := (kvNat? rest "keep") == some 1,
                    resumed := resumed, runLines := [], oracles := [], runs := x.runs + 1, caseRuns := x.caseRuns + 1,
                    resumedRuns := x.resumedRuns + (if resumed then 1 else 0) }
  | "O" :: kind :: _ =>
    let mut x := { x with st := { x.st with lines := x.st.lines + 1 }, oracleLines := x.oracleLines + 1,
                          runLines := line :: x.runLines }
    match parseOracle ws with
    | some o => x := { x with oracles := o :: x.oracles }
    | none => x ← lifeMismatch x s!"unparsed oracle line: {line.take 100}"
    if kind == "crash" then x := { x with crashes := x.crashes + 1 }
    if kind == "ctx" then x := { x with ctxCancels := x.ctxCancels + 1 }
    if kind == "result" then x := { x with results := x.results + 1 }
    if kind == "send" then
      -- an HTLC is handed to the switch: it must be an attempt the store admitted (and still
      -- records as in flight), by the monitor's own ledger
      let id := (kvNat? ws "id").getD 0
      x := { x with launched := x.launched + 1 }
      let okReg := match mget x.st.mon 0 with
        | some m => m.ledger.any (fun e => e.id == id && e.st == "I")
        | none => false
      if !okReg then
        x ← lifeMonitor x "life-send-unregistered" s!"attempt {id} is handed to the switch although the store has not admitted it (admitted history {(mget x.st.mon 0).map (fun m => ledgerKey m.ledger)})"
    return x
  | "X" :: _ =>
    return { x with st := { x.st with lines := x.st.lines + 1 }, runLines := line :: x.runLines }
  | "ENDRUN" :: _ =>
    let mut x := { x with st := { x.st with lines := x.st.lines + 1 }, inRun := false }
    let implOut := " ".intercalate (answer ws)
    let cfg : LifeCfg := { backend := .kv, h := 0, feeLimit := x.feeLimit,
                           shape := ⟨false, 0, some (x.addr, x.value)⟩, keep := x.keep }
    let actual := x.runLines.reverse
    let r := lifeRun cfg (actual.length + 4) x.snap x.oracles.reverse x.pend
    let predicted := renderEvs .kv r.evs
    -- line-by-line comparison of the whole run
    let rec firstDiff (i : Nat) : List String → List String → Option (Nat × String × String)
      | [], [] => none
      | a :: as, b :: bs => if a == b then firstDiff (i + 1) as bs else some (i, a, b)
      | a :: _, [] => some (i, a, "<nothing>")
      | [], b :: _ => some (i, "<nothing>", b)
    match firstDiff 0 predicted actual with
    | some (i, m, a) =>
      x ← lifeMismatch x s!"run {x.runs} event {i}: model=[{m.take 160}] impl=[{a.take 160}]"
    | none =>
      if outcomeStr r.out != implOut then
        x ← lifeMismatch x s!"run {x.runs} resumePayment returned [{implOut}], model [{outcomeStr r.out}]"
      if !r.os.isEmpty then
        x ← lifeMismatch x s!"run {x.runs}: {r.os.length} oracle answers not consumed by the model"
    if x.pend.isSome then x := { x with waitedOnPending := x.waitedOnPending + 1 }
    x := { x with pend := r.pend }
    -- what the caller is told, against the monitor's own ledger of the implementation's answers
    let mp := mget x.st.mon 0
    let settled := match mp with | some m => m.ledger.any (·.st == "S") | none => false
    match answer ws with
    | ["preimage"] =>
      x := { x with outPreimage := x.outPreimage + 1 }
      if !settled then
        x ← lifeMonitor x "life-outcome" s!"resumePayment reports success (preimage) but no attempt of the payment has settled"
    | [o] =>
      if o.startsWith "reason=" then
        x := { x with outReason := x.outReason + 1 }
        if settled then
          x ← lifeMonitor x "life-outcome" s!"resumePayment reports the payment failed ({o}) although an attempt has settled"
        let want := match mp with | some m => m.reason | none => none
        if (o.drop 7).toNat? != want || want.isNone then
          x ← lifeMonitor x "life-outcome" s!"resumePayment reports {o} but the recorded failure reason is {want}"
      else if o == "err=crash" then x := { x with outCrash := x.outCrash + 1 }
      else if o == "panic" then
        x ← lifeMonitor x "panic" s!"resumePayment panicked"
      else if o == "hang" then
        -- liveness, not a clause of the property: reported as a correspondence failure only
        x ← lifeMismatch x s!"run {x.runs}: resumePayment blocks although no attempt result can arrive any more"
      else x := { x with outErr := x.outErr + 1 }
    | _ => pure ()
    return x
  | _ =>
    -- a database call (inside a run: issued by the lifecycle; outside: by the harness)
    let st ← step x.st line
    let mut x := { x with st := st }
    if x.inRun then x := { x with runLines := line :: x.runLines }
    else if ws.head? == some "init" && (answer ws).head? == some "ok" && x.caseRuns > 0 then
      x := { x with resends := x.resends + 1 }
    return x

end LndModel.C16.Driver

open LndModel.C16.Driver in
def mainLife : IO Unit := do
  let x ← LndModel.Lines.foldStdin stepLife {}
  let s := x.st
  IO.println s!"STAT lines={s.lines}"
  IO.println s!"STAT cases={s.cases}"
  IO.println s!"STAT evaluations={s.ops + x.oracleLines}"
  IO.println s!"STAT nontrivial={s.regOk + s.settles + s.failAtts + s.fails + s.reinitOk + s.reinitRefused + s.regExceed + s.dels + x.crashes + x.results}"
  IO.println s!"STAT life_runs={x.runs}"
  IO.println s!"STAT life_resumed_runs={x.resumedRuns}"
  IO.println s!"STAT life_resends_admitted={x.resends}"
  IO.println s!"STAT life_resends_refused={s.reinitRefused}"
  IO.println s!"STAT life_db_calls={s.ops}"
  IO.println s!"STAT life_oracle_consultations={x.oracleLines}"
  IO.println s!"STAT life_injected_db_failures={x.crashes}"
  IO.println s!"STAT life_ctx_cancellations={x.ctxCancels}"
  IO.println s!"STAT life_switch_results={x.results}"
  IO.println s!"STAT life_runs_started_with_pending_result={x.waitedOnPending}"
  IO.println s!"STAT life_htlcs_launched={x.launched}"
  IO.println s!"STAT life_out_preimage={x.outPreimage}"
  IO.println s!"STAT life_out_reason={x.outReason}"
  IO.println s!"STAT life_out_crash={x.outCrash}"
  IO.println s!"STAT life_out_other_error={x.outErr}"
  IO.println s!"STAT reg_ok={s.regOk}"
  IO.println s!"STAT reg_exceeds_amt={s.regExceed}"
  IO.println s!"STAT settles={s.settles}"
  IO.println s!"STAT fail_attempts={s.failAtts}"
  IO.println s!"STAT payment_fails={s.fails}"
  IO.println s!"STAT statuses_seen={s.stSeen.length}"
  IO.println s!"STAT mismatches={s.mismatches + x.lifeFails}"
  IO.println s!"STAT monitor_failures={s.monitorFails}"

open LndModel.C16.Driver in
def mainX : IO Unit := do
  let x ← LndModel.Lines.foldStdin stepXS {}
  IO.println s!"STAT lines={x.lines}"
  IO.println s!"STAT cases={x.cases}"
  IO.println s!"STAT evaluations={x.compared}"
  IO.println s!"STAT nontrivial={x.kv.regOk + x.kv.settles + x.kv.failAtts + x.kv.fails + x.kv.reinitOk + x.kv.reinitRefused + x.kv.regExceed + x.kv.dels}"
  IO.println s!"STAT xdiff_answers_compared={x.compared}"
  IO.println s!"STAT xdiff_agree_up_to_error_identity={x.agreedUpToIdentity}"
  IO.println s!"STAT xdiff_cases_leaving_restriction={x.taintedCases}"
  IO.println s!"STAT xdiff_divergence_dup_id={x.divDup}"
  IO.println s!"STAT xdiff_divergence_foreign_attempt={x.divForeign}"
  IO.println s!"STAT xdiff_model_predicted_divergent={x.modelDivergent}"
  IO.println s!"STAT xdiff_pages={x.kv.pages}"
  IO.println s!"STAT mismatches={x.kv.mismatches + x.sql.mismatches}"

open LndModel.C16.Driver in
def main (args : List String) : IO Unit := do
  let name := args.getLast?.getD "kv"
  if name.startsWith "x" then
    mainX
    return
  if name.startsWith "life" then
    mainLife
    return
  let backend := if name.startsWith "sql" then LndModel.C16.Backend.sql else LndModel.C16.Backend.kv
  let s ← LndModel.Lines.foldStdin step { backend := backend }
  IO.println s!"STAT lines={s.lines}"
  IO.println s!"STAT cases={s.cases}"
  IO.println s!"STAT evaluations={s.ops}"
  IO.println s!"STAT nontrivial={s.regOk + s.settles + s.failAtts + s.fails + s.reinitOk + s.reinitRefused + s.regExceed + s.dels}"
  IO.println s!"STAT ok_ops={s.okOps}"
  IO.println s!"STAT err_ops={s.errOps}"
  IO.println s!"STAT err_kinds={s.errKinds.length}"
  IO.println s!"STAT reg_ok={s.regOk}"
  IO.println s!"STAT reg_exact_remaining={s.regFull}"
  IO.println s!"STAT reg_exceeds_amt={s.regExceed}"
  IO.println s!"STAT settles={s.settles}"
  IO.println s!"STAT fail_attempts={s.failAtts}"
  IO.println s!"STAT payment_fails={s.fails}"
  IO.println s!"STAT reinit_ok={s.reinitOk}"
  IO.println s!"STAT reinit_refused={s.reinitRefused}"
  IO.println s!"STAT deletes={s.dels}"
  IO.println s!"STAT dumps_checked={s.dumps}"
  IO.println s!"STAT statuses_seen={s.stSeen.length}"
  IO.println s!"STAT dup_ids_admitted={s.dupAdmitted}"
  IO.println s!"STAT foreign_attempts_resolved={s.foreignResolved}"
  IO.println s!"STAT bulk_deletes={s.bulkDeletes}"
  IO.println s!"STAT pages={s.pages}"
  IO.println s!"STAT contract_ops_respecting={s.contractOps}"
  IO.println s!"STAT concurrent_cases={s.concCases}"
  IO.println s!"STAT concurrent_ops={s.concOps}"
  IO.println s!"STAT mismatches={s.mismatches}"
  IO.println s!"STAT monitor_failures={s.monitorFails}"
