/-
C16 — helper lemmas: how the store primitives act on the per-payment view
`Store.payment?`, the per-payment transition relation `PStep`, and the proof
that every `step` of either backend moves every payment along `PStep`.
-/
import LndModel.C16.Model

set_option linter.unusedSimpArgs false
set_option linter.unusedVariables false

namespace LndModel.C16

/-! ### views -/

theorem attemptsOf_mapRows (s : Store) (g : Nat → Attempt → Attempt) (k : Nat) :
    (s.mapRows g).attemptsOf k = (s.attemptsOf k).map (g k) := by
  simp only [Store.attemptsOf, Store.mapRows]
  induction s.rows with
  | nil => rfl
  | cons r rs ih =>
    simp only [List.map_cons, List.filter_cons]
    by_cases h : r.owner = k
    · subst h; simp [ih]
    · have : (r.owner == k) = false := by simpa using h
      simp [this, ih]

theorem attemptsOf_filterRows (s : Store) (keep : Nat → Attempt → Bool) (k : Nat) :
    (s.filterRows keep).attemptsOf k = (s.attemptsOf k).filter (keep k) := by
  simp only [Store.attemptsOf, Store.filterRows, List.filter_map, List.filter_filter]
  congr 1
  apply List.filter_congr
  intro r _
  by_cases h : r.owner = k
  · subst h; simp [Bool.and_comm]
  · have : (r.owner == k) = false := by simpa using h
    simp [this]

theorem attemptsOf_addRow (s : Store) (h : Nat) (a : Attempt) (k : Nat) :
    (s.addRow h a).attemptsOf k = s.attemptsOf k ++ (if k = h then [a] else []) := by
  simp only [Store.attemptsOf, Store.addRow, List.filter_append, List.map_append]
  by_cases hk : k = h
  · subst hk; simp
  · have : (h == k) = false := by
      simp; exact fun e => hk e.symm
    simp [hk, List.filter_cons, this]

theorem attemptsOf_overwriteRow (s : Store) (h : Nat) (a : Attempt) (k : Nat) :
    (s.overwriteRow h a).attemptsOf k =
      if k = h then replaceFirst (fun x => x.id == a.id) (overwriteWith a) (s.attemptsOf k)
      else s.attemptsOf k := by
  simp only [Store.attemptsOf, Store.overwriteRow]
  induction s.rows with
  | nil => simp [replaceFirst]
  | cons r rs ih =>
    by_cases hk : k = h
    · subst hk
      simp only [if_true] at ih ⊢
      by_cases ho : r.owner = k
      · subst ho
        by_cases hid : (r.a.id == a.id) = true
        · simp [replaceFirst, hid, List.filter_cons]
        · have hid' : (r.a.id == a.id) = false := by simpa using hid
          simp [replaceFirst, hid', List.filter_cons, ih]
      · have hne : (r.owner == k) = false := by simpa using ho
        simp [replaceFirst, hne, List.filter_cons, ih]
    · simp only [if_neg hk] at ih ⊢
      by_cases ho : r.owner = h
      · subst ho
        have hne : (r.owner == k) = false := by
          simp; exact fun e => hk e.symm
        by_cases hid : (r.a.id == a.id) = true
        · simp [replaceFirst, hid, List.filter_cons, hne]
        · have hid' : (r.a.id == a.id) = false := by simpa using hid
          simp [replaceFirst, hid', List.filter_cons, hne, ih]
      · have hne : (r.owner == h) = false := by simpa using ho
        simp only [replaceFirst, hne, Bool.false_and, Bool.false_eq_true, if_false, List.filter_cons]
        split <;> simp [ih]


/-- the payment row + attempts seen by `FetchPayment`. -/
def mkP (i : Info) (l : List Attempt) : Payment := ⟨i.value, l, i.reason⟩

theorem payment?_eq (s : Store) (k : Nat) :
    s.payment? k = (s.info k).map (fun i => mkP i (s.attemptsOf k)) := by
  unfold Store.payment?
  cases s.info k <;> rfl

theorem payment?_of_info {s : Store} {k : Nat} {i : Info} (h : s.info k = some i) :
    s.payment? k = some (mkP i (s.attemptsOf k)) := by
  simp [payment?_eq, h]

theorem payment?_none {s : Store} {k : Nat} (h : s.info k = none) : s.payment? k = none := by
  simp [payment?_eq, h]

theorem payment?_some_inv {s : Store} {k : Nat} {p : Payment} (h : s.payment? k = some p) :
    ∃ i, s.info k = some i ∧ p = mkP i (s.attemptsOf k) := by
  rw [payment?_eq] at h
  cases hi : s.info k with
  | none => simp [hi] at h
  | some i => simp [hi] at h; exact ⟨i, rfl, h.symm⟩

/-! ### the per-payment transition relation

Everything either backend can do to one payment in one `step`. -/

inductive PStep (op : Op) (k : Nat) : Option Payment → Option Payment → Prop
  | same (x) : PStep op k x x
  /-- `InitPayment` of an unknown or failed payment. -/
  | create (x : Option Payment) (v : Nat) : op = .init k v →
      (x = none ∨ ∃ p, x = some p ∧ p.status = .failed) → PStep op k x (some ⟨v, [], none⟩)
  /-- `DeletePayment`. -/
  | delete (p : Payment) : op = .del k → p.status ≠ .inFlight → PStep op k (some p) none
  /-- bulk `DeletePayments(failedOnly, false)`: never an in-flight payment, and with
      `failedOnly` only a failed one. -/
  | bulkDelete (p : Payment) (fo : Bool) : op = .delAll fo false → p.status ≠ .inFlight →
      (fo = true → p.status = .failed) → PStep op k (some p) none
  /-- `DeleteFailedAttempts` (or bulk `DeletePayments(_, true)`). -/
  | delFailed (p : Payment) : p.status ≠ .inFlight →
      PStep op k (some p) (some { p with attempts := p.attempts.filter (fun x => !(x.st == .failed)) })
  /-- `RegisterAttempt` with a new id. -/
  | register (p : Payment) (a : Attempt) : p.registrable = .ok → verifyAttempt p a = .ok →
      a.st = .inflight → PStep op k (some p) (some { p with attempts := p.attempts ++ [a] })
  /-- `RegisterAttempt` with an id the payment already has (KV store only). -/
  | overwrite (p : Payment) (a : Attempt) : p.registrable = .ok → verifyAttempt p a = .ok →
      PStep op k (some p) (some { p with attempts :=
        (replaceFirst (fun x => x.id == a.id) (overwriteWith a) p.attempts) })
  /-- `SettleAttempt` / `FailAttempt`. -/
  | resolve (p : Payment) (id : Nat) (st : AState) : st ≠ .inflight →
      PStep op k (some p) (some { p with attempts := p.attempts.map (resolveA id st) })
  /-- `Fail`. -/
  | setReason (p : Payment) (r : Nat) : PStep op k (some p) (some { p with reason := some r })

theorem filter_const_true {α : Type} (l : List α) : l.filter (fun _ => true) = l := by
  induction l <;> simp_all

theorem filter_const_false {α : Type} (l : List α) : l.filter (fun _ => false) = [] := by
  induction l <;> simp_all

theorem info_filterRows (s : Store) (keep) : (s.filterRows keep).info = s.info := rfl
theorem info_mapRows (s : Store) (g) : (s.mapRows g).info = s.info := rfl
theorem info_addRow (s : Store) (h a) : (s.addRow h a).info = s.info := rfl
theorem info_overwriteRow (s : Store) (h a) : (s.overwriteRow h a).info = s.info := rfl
theorem attemptsOf_setInfo (s : Store) (h i k) : (s.setInfo h i).attemptsOf k = s.attemptsOf k := rfl
theorem info_setInfo (s : Store) (h i k) : (s.setInfo h i).info k = if k = h then i else s.info k := rfl

/-- primitives that only touch the rows of `h` leave the other payments alone. -/
theorem payment?_setInfo_ne (s : Store) (h k : Nat) (i : Option Info) (hk : k ≠ h) :
    (s.setInfo h i).payment? k = s.payment? k := by
  simp [payment?_eq, Store.setInfo, hk, Store.attemptsOf]

theorem payment?_filterRows_ne (s : Store) (keep : Nat → Attempt → Bool) (k : Nat)
    (hk : ∀ x, keep k x = true) : (s.filterRows keep).payment? k = s.payment? k := by
  have : keep k = fun _ => true := funext hk
  simp [payment?_eq, info_filterRows, attemptsOf_filterRows, this, filter_const_true]

theorem removable_ok {st : Status} (h : removable st = .ok) : st ≠ .inFlight := by
  cases st <;> simp [removable] at h ⊢

theorem bulkHit_true {s : Store} {fo : Bool} {k : Nat} (h : s.bulkHit fo k = true) :
    ∃ p, s.payment? k = some p ∧ p.status ≠ .inFlight ∧ (fo = true → p.status = .failed) := by
  unfold Store.bulkHit at h
  cases hp : s.payment? k with
  | none => simp [hp] at h
  | some p =>
    simp only [hp, bulkSkip] at h
    refine ⟨p, rfl, ?_, ?_⟩
    · intro hs; simp [hs] at h
    · intro hfo; subst hfo
      cases hs : p.status <;> simp [hs] at h ⊢

theorem payment?_dropInfo (s : Store) (hit : Nat → Bool) (k : Nat) :
    (s.dropInfo hit).payment? k = if hit k = true then none else s.payment? k := by
  simp only [payment?_eq, Store.dropInfo, Store.attemptsOf]
  split <;> simp_all

/-- `resolve` moves every payment along `PStep`. -/
theorem resolve_pstep (b : Backend) (s : Store) (h id : Nat) (st : AState) (hst : st ≠ .inflight)
    (op : Op) (k : Nat) : PStep op k (s.payment? k) ((resolve b s h id st).1.payment? k) := by
  unfold resolve
  cases hp : s.payment? h with
  | none => exact .same _
  | some p =>
    simp only
    cases hu : updatable p.status with
    | ok =>
      simp only
      cases b with
      | kv =>
        simp only
        cases hf : p.attempts.find? (fun x => x.id == id) with
        | none => exact .same _
        | some x =>
          simp only
          cases hx : x.st with
          | failed => exact .same _
          | settled => exact .same _
          | inflight =>
            simp only
            cases hi : s.info k with
            | none =>
              rw [payment?_none hi, payment?_none (by simpa [Store.mapRows] using hi)]
              exact .same _
            | some i =>
              rw [payment?_of_info hi, payment?_of_info (s := s.mapRows _) (i := i) (by simpa [Store.mapRows] using hi),
                attemptsOf_mapRows]
              by_cases hk : k = h
              · subst hk
                simp only [beq_self_eq_true, if_true]
                exact .resolve (mkP i (s.attemptsOf k)) id st hst
              · have : (k == h) = false := by simpa using hk
                simp only [this, Bool.false_eq_true, if_false, List.map_id']
                exact .same _
      | sql =>
        simp only
        cases hf : s.rows.find? (fun r => r.a.id == id) with
        | none => exact .same _
        | some r =>
          simp only
          split
          · exact .same _
          · cases hi : s.info k with
            | none =>
              rw [payment?_none hi, payment?_none (by simpa [Store.mapRows] using hi)]
              exact .same _
            | some i =>
              rw [payment?_of_info hi, payment?_of_info (s := s.mapRows _) (i := i) (by simpa [Store.mapRows] using hi),
                attemptsOf_mapRows]
              exact .resolve (mkP i (s.attemptsOf k)) id st hst
    | _ => exact .same _



/-- Every `step` of either backend moves every payment along `PStep`. -/
theorem step_pstep (b : Backend) (s : Store) (op : Op) (k : Nat) :
    PStep op k (s.payment? k) ((step b s op).1.payment? k) := by
  cases op with
  | init h v =>
    simp only [step]
    cases hg : initGate s h with
    | ok =>
      simp only
      by_cases hk : k = h
      · subst hk
        have : ((s.filterRows (fun o _ => o != k)).setInfo k (some ⟨v, none⟩)).payment? k
            = some ⟨v, [], none⟩ := by
          rw [payment?_of_info (i := ⟨v, none⟩) (by simp [info_setInfo])]
          simp [attemptsOf_setInfo, attemptsOf_filterRows, mkP, filter_const_false]
        rw [this]
        apply PStep.create _ _ rfl
        cases hp : s.payment? k with
        | none => exact Or.inl rfl
        | some p =>
          refine Or.inr ⟨p, rfl, ?_⟩
          simp only [initGate, hp] at hg
          cases hs : p.status <;> simp [hs, initializable] at hg ⊢
      · rw [payment?_setInfo_ne _ _ _ _ hk, payment?_filterRows_ne]
        · exact .same _
        · have : (k != h) = true := by simpa using hk
          simp [this]
    | _ => exact .same _
  | reg h a0 =>
    simp only [step]
    cases hp : s.payment? h with
    | none => exact .same _
    | some p =>
      simp only
      cases hr : p.registrable with
      | ok =>
        simp only
        cases hv : verifyAttempt p { a0 with st := .inflight } with
        | ok =>
          simp only
          obtain ⟨i, hi, hpe⟩ := payment?_some_inv hp
          have hadd : PStep (.reg h a0) k (s.payment? k) ((s.addRow h { a0 with st := .inflight }).payment? k) := by
            by_cases hk : k = h
            · subst hk
              rw [hp, payment?_of_info (s := s.addRow k _) (i := i) (by simpa [info_addRow] using hi),
                attemptsOf_addRow]
              simp only [if_true]
              have := PStep.register (op := .reg k a0) (k := k) p { a0 with st := .inflight } hr hv rfl
              simpa [hpe, mkP] using this
            · have : (s.addRow h { a0 with st := .inflight }).payment? k = s.payment? k := by
                simp [payment?_eq, info_addRow, attemptsOf_addRow, hk]
              rw [this]; exact .same _
          cases b with
          | kv =>
            simp only
            split
            · by_cases hk : k = h
              · subst hk
                rw [hp, payment?_of_info (s := s.overwriteRow k _) (i := i)
                  (by simpa [info_overwriteRow] using hi), attemptsOf_overwriteRow]
                simp only [if_true]
                have := PStep.overwrite (op := .reg k a0) (k := k) p { a0 with st := .inflight } hr hv
                simpa [hpe, mkP] using this
              · have : (s.overwriteRow h { a0 with st := .inflight }).payment? k = s.payment? k := by
                  simp [payment?_eq, info_overwriteRow, attemptsOf_overwriteRow, hk]
                rw [this]; exact .same _
            · exact hadd
          | sql =>
            simp only
            split
            · exact .same _
            · exact hadd
        | _ => exact .same _
      | _ => exact .same _
  | settle h id => exact resolve_pstep b s h id .settled (by simp) _ k
  | failAtt h id => exact resolve_pstep b s h id .failed (by simp) _ k
  | fail h r =>
    simp only [step]
    cases hi : s.info h with
    | none => exact .same _
    | some i =>
      simp only
      by_cases hk : k = h
      · subst hk
        rw [payment?_of_info hi,
          payment?_of_info (s := s.setInfo k _) (i := { i with reason := some r }) (by simp [info_setInfo])]
        have := PStep.setReason (op := .fail k r) (k := k) (mkP i (s.attemptsOf k)) r
        simpa [mkP, attemptsOf_setInfo] using this
      · rw [payment?_setInfo_ne _ _ _ _ hk]; exact .same _
  | del h =>
    simp only [step]
    cases hp : s.payment? h with
    | none => exact .same _
    | some p =>
      simp only
      cases hr : removable p.status with
      | ok =>
        simp only
        by_cases hk : k = h
        · subst hk
          rw [hp, payment?_none (by simp [info_setInfo])]
          exact .delete p rfl (removable_ok hr)
        · rw [payment?_setInfo_ne _ _ _ _ hk]
          rw [payment?_filterRows_ne]
          · exact .same _
          · have : (k != h) = true := by simpa using hk
            simp [this]
      | _ => exact .same _
  | delFailed h =>
    simp only [step]
    cases hp : s.payment? h with
    | none => exact .same _
    | some p =>
      simp only
      cases hr : removable p.status with
      | ok =>
        simp only
        obtain ⟨i, hi, hpe⟩ := payment?_some_inv hp
        by_cases hk : k = h
        · subst hk
          rw [hp, payment?_of_info (s := s.filterRows _) (i := i) (by simpa [info_filterRows] using hi),
            attemptsOf_filterRows]
          have := PStep.delFailed (op := .delFailed k) (k := k) p (removable_ok hr)
          simpa [hpe, mkP] using this
        · rw [payment?_filterRows_ne]
          · exact .same _
          · have : (k == h) = false := by simpa using hk
            simp [this]
      | _ => exact .same _
  | fetch h =>
    simp only [step]
    cases s.payment? h <;> exact .same _
  | delAll fo fho =>
    simp only [step]
    cases fho with
    | true =>
      simp only [if_true]
      cases hh : s.bulkHit fo k with
      | true =>
        obtain ⟨p, hp, hns, _⟩ := bulkHit_true hh
        obtain ⟨i, hi, hpe⟩ := payment?_some_inv hp
        rw [hp, payment?_of_info (s := s.filterRows _) (i := i) (by simpa [info_filterRows] using hi),
          attemptsOf_filterRows]
        have := PStep.delFailed (op := .delAll fo true) (k := k) p hns
        simpa [hpe, mkP, hh] using this
      | false =>
        rw [payment?_filterRows_ne]
        · exact .same _
        · simp [hh]
    | false =>
      simp only [Bool.false_eq_true, if_false]
      rw [payment?_dropInfo]
      cases hh : s.bulkHit fo k with
      | true =>
        obtain ⟨p, hp, hns, hf⟩ := bulkHit_true hh
        simp only [if_true]
        rw [hp]
        exact .bulkDelete p fo rfl hns hf
      | false =>
        simp only [Bool.false_eq_true, if_false]
        rw [payment?_filterRows_ne]
        · exact .same _
        · simp [hh]


/-! ### status -/

theorem scanFlags_eq (as : List Attempt) (i s f : Bool) :
    scanFlags as (i, s, f) = (i || hasInflight as, s || hasSettled as, f || hasFailed as) := by
  induction as generalizing i s f with
  | nil => simp [scanFlags, hasInflight, hasSettled, hasFailed]
  | cons a as ih =>
    unfold scanFlags
    have e1 : (AState.inflight == AState.settled) = false := by decide
    have e2 : (AState.inflight == AState.failed) = false := by decide
    have e3 : (AState.settled == AState.inflight) = false := by decide
    have e4 : (AState.settled == AState.failed) = false := by decide
    have e5 : (AState.failed == AState.inflight) = false := by decide
    have e6 : (AState.failed == AState.settled) = false := by decide
    cases ha : a.st <;>
      simp [ih, hasInflight, hasSettled, hasFailed, ha, Bool.or_assoc, e1, e2, e3, e4, e5, e6]

theorem decideStatus_eq (as : List Attempt) (r : Option Nat) :
    decideStatus as r = statusTable (hasInflight as) (hasSettled as) (hasFailed as) r.isSome := by
  simp only [decideStatus, scanFlags_eq, Bool.false_or]
  cases hasInflight as <;> cases hasSettled as <;> cases hasFailed as <;> cases r.isSome <;> rfl

theorem status_eq (p : Payment) :
    p.status = statusTable (hasInflight p.attempts) (hasSettled p.attempts) (hasFailed p.attempts)
      p.reason.isSome := decideStatus_eq _ _

theorem status_failed_iff (p : Payment) :
    p.status = .failed ↔ hasInflight p.attempts = false ∧ hasSettled p.attempts = false ∧ p.reason.isSome = true := by
  rw [status_eq]
  cases hasInflight p.attempts <;> cases hasSettled p.attempts <;> cases hasFailed p.attempts <;>
    cases p.reason.isSome <;> simp [statusTable]

theorem status_succeeded_iff (p : Payment) :
    p.status = .succeeded ↔ hasInflight p.attempts = false ∧ hasSettled p.attempts = true := by
  rw [status_eq]
  cases hasInflight p.attempts <;> cases hasSettled p.attempts <;> cases hasFailed p.attempts <;>
    cases p.reason.isSome <;> simp [statusTable]

theorem status_initiated_iff (p : Payment) :
    p.status = .initiated ↔ hasInflight p.attempts = false ∧ hasSettled p.attempts = false ∧
      hasFailed p.attempts = false ∧ p.reason.isSome = false := by
  rw [status_eq]
  cases hasInflight p.attempts <;> cases hasSettled p.attempts <;> cases hasFailed p.attempts <;>
    cases p.reason.isSome <;> simp [statusTable]

theorem status_inFlight_iff (p : Payment) :
    p.status = .inFlight ↔ hasInflight p.attempts = true ∨
      (hasSettled p.attempts = false ∧ hasFailed p.attempts = true ∧ p.reason.isSome = false) := by
  rw [status_eq]
  cases hasInflight p.attempts <;> cases hasSettled p.attempts <;> cases hasFailed p.attempts <;>
    cases p.reason.isSome <;> simp [statusTable]

/-- `Registrable() == nil` exactly characterised. -/
theorem registrable_ok_iff (p : Payment) :
    p.registrable = .ok ↔
      (p.status = .initiated ∨ p.status = .inFlight) ∧ hasSettled p.attempts = false ∧ p.reason = none := by
  unfold Payment.registrable Payment.hasSettledHTLC Payment.paymentFailed
  cases hs : p.status with
  | initiated =>
    have := (status_initiated_iff p).1 hs
    have hr : p.reason = none := by
      cases hq : p.reason with
      | none => rfl
      | some _ => simp [hq] at this
    simp [updatable, this.2.1, hr]
  | inFlight =>
    cases hset : hasSettled p.attempts <;> cases hq : p.reason <;> simp [updatable]
  | succeeded => simp [updatable]
  | failed => simp [updatable]

/-! ### amounts -/

theorem sentL_append (as bs : List Attempt) : sentL (as ++ bs) = sentL as + sentL bs := by
  induction as with
  | nil => simp [sentL]
  | cons a as ih => simp [sentL, ih, Nat.add_assoc]

theorem sentL_filter_notFailed (as : List Attempt) :
    sentL (as.filter (fun x => !(x.st == .failed))) = sentL as := by
  induction as with
  | nil => rfl
  | cons a as ih =>
    cases ha : a.st <;> simp [List.filter_cons, sentL, ha, ih]

theorem sentL_map_resolve_le (id : Nat) (st : AState) (as : List Attempt) :
    sentL (as.map (resolveA id st)) ≤ sentL as := by
  induction as with
  | nil => simp [sentL]
  | cons a as ih =>
    simp only [List.map_cons, sentL]
    have h1 : (if (resolveA id st a).st = .failed then 0 else (resolveA id st a).amt)
        ≤ (if a.st = .failed then 0 else a.amt) := by
      unfold resolveA
      split
      · rename_i h
        have : a.st = .inflight := by simp at h; exact h.2
        simp [this]
        split <;> omega
      · exact Nat.le_refl _
    omega

theorem sentL_replaceFirst_le (a : Attempt) (as : List Attempt) :
    sentL (replaceFirst (fun x => x.id == a.id) (overwriteWith a) as) ≤ sentL as + a.amt := by
  induction as with
  | nil => simp [replaceFirst, sentL]
  | cons x xs ih =>
    unfold replaceFirst
    split
    · simp only [sentL, overwriteWith]
      by_cases hx : x.st = .failed <;> simp [hx] <;> omega
    · simp only [sentL]; omega

theorem verify_ok_amount {p : Payment} {a : Attempt} (h : verifyAttempt p a = .ok) :
    p.sent + a.amt ≤ p.value := by
  unfold verifyAttempt at h
  split at h
  · cases h
  · split at h
    · cases h
    · split at h
      · split at h
        · cases h
        · split at h
          · cases h
          · omega
      · rename_i hne
        exact absurd h (hne · |>.elim)


/-! ### backend equivalence -/

/-- every operation of the list respects the contract in the state it is issued in. -/
def respects (s : Store) : List Op → Bool
  | [] => true
  | op :: ops => opOk s op && respects (step .kv s op).1 ops

/-- the error identities the backends are known to differ in (both are errors, nothing is
    written): unknown payment on Register / Delete / DeleteFailedAttempts, and re-resolving an
    attempt. -/
def errClass : Op → Err → Err
  | .reg _ _, .notInitiated => .other
  | .del _, .notInitiated => .other
  | .delFailed _, .notInitiated => .other
  | .settle _ _, .attemptAlreadyFailed => .other
  | .settle _ _, .attemptAlreadySettled => .other
  | .failAtt _ _, .attemptAlreadyFailed => .other
  | .failAtt _ _, .attemptAlreadySettled => .other
  | _, e => e

def canon (op : Op) (r : Res) : Res := (errClass op r.1, r.2)

theorem any_attemptsOf_false (s : Store) (h id : Nat)
    (hall : s.rows.all (fun r => r.a.id != id) = true) :
    (s.attemptsOf h).any (fun x => x.id == id) = false := by
  simp only [Store.attemptsOf]
  generalize s.rows = rows at hall ⊢
  induction rows with
  | nil => rfl
  | cons r rs ih =>
    simp only [List.all_cons, Bool.and_eq_true] at hall
    have hr : (r.a.id == id) = false := by simpa using hall.1
    simp only [List.filter_cons]
    split
    · simp [hr, ih hall.2]
    · exact ih hall.2

theorem any_rows_false (s : Store) (id : Nat)
    (hall : s.rows.all (fun r => r.a.id != id) = true) :
    s.rows.any (fun r => r.a.id == id) = false := by
  generalize s.rows = rows at hall ⊢
  induction rows with
  | nil => rfl
  | cons r rs ih =>
    simp only [List.all_cons, Bool.and_eq_true] at hall
    have hr : (r.a.id == id) = false := by simpa using hall.1
    simp [hr, ih hall.2]

theorem find_attemptsOf (s : Store) (h id : Nat)
    (hall : s.rows.all (fun r => r.a.id != id || r.owner == h) = true) :
    (s.attemptsOf h).find? (fun x => x.id == id) =
      (s.rows.find? (fun r => r.a.id == id)).map (·.a) := by
  simp only [Store.attemptsOf]
  generalize s.rows = rows at hall ⊢
  induction rows with
  | nil => rfl
  | cons r rs ih =>
    simp only [List.all_cons, Bool.and_eq_true] at hall
    simp only [List.filter_cons]
    by_cases ho : (r.owner == h) = true
    · simp only [ho, if_true, List.map_cons, List.find?_cons]
      by_cases hid : (r.a.id == id) = true
      · simp [hid]
      · have hid' : (r.a.id == id) = false := by simpa using hid
        simp only [hid']
        exact ih hall.2
    · have ho' : (r.owner == h) = false := by simpa using ho
      have hid : (r.a.id == id) = false := by
        have := hall.1
        simp only [ho', Bool.or_false] at this
        simpa using this
      simp only [ho', Bool.false_eq_true, if_false, List.find?_cons, hid]
      exact ih hall.2

theorem mapRows_resolve_eq (s : Store) (h id : Nat) (st : AState)
    (hall : s.rows.all (fun r => r.a.id != id || r.owner == h) = true) :
    s.mapRows (fun o x => if o == h then resolveA id st x else x) =
      s.mapRows (fun _ x => resolveA id st x) := by
  simp only [Store.mapRows]
  congr 1
  apply List.map_congr_left
  intro r hr
  have := (List.all_eq_true.1 hall) r hr
  by_cases ho : (r.owner == h) = true
  · simp [ho]
  · have ho' : (r.owner == h) = false := by simpa using ho
    have hid : (r.a.id == id) = false := by
      simp only [ho', Bool.or_false] at this
      simpa using this
    simp [ho', resolveA, hid]

theorem resolve_equiv (s : Store) (h id : Nat) (st : AState)
    (hall : s.rows.all (fun r => r.a.id != id || r.owner == h) = true) :
    (resolve .kv s h id st).1 = (resolve .sql s h id st).1 ∧
    (resolve .kv s h id st).2.2 = (resolve .sql s h id st).2.2 ∧
    ((resolve .kv s h id st).2.1 = (resolve .sql s h id st).2.1 ∨
      (((resolve .kv s h id st).2.1 = .attemptAlreadyFailed ∨
        (resolve .kv s h id st).2.1 = .attemptAlreadySettled) ∧
        (resolve .sql s h id st).2.1 = .other)) := by
  unfold resolve
  cases hp : s.payment? h with
  | none => simp
  | some p =>
    simp only
    cases hu : updatable p.status with
    | ok =>
      simp only
      obtain ⟨i, hi, hpe⟩ := payment?_some_inv hp
      have hf := find_attemptsOf s h id hall
      have hpa : p.attempts = s.attemptsOf h := by rw [hpe]; rfl
      rw [hpa, hf]
      cases hr : s.rows.find? (fun r => r.a.id == id) with
      | none => simp
      | some r =>
        simp only [Option.map_some]
        cases hst : r.a.st with
        | failed => simp [hst]
        | settled => simp [hst]
        | inflight =>
          simp only [hst]
          rw [mapRows_resolve_eq s h id st hall]
          simp
    | _ => simp

/-! ### ghost ledger = stored rows (SQL always; KV under per-payment id freshness) -/

theorem resolve_rows (b : Backend) (s : Store) (h id : Nat) (st : AState) :
    (resolve b s h id st).1.rows =
      if (resolve b s h id st).2.1 == .ok then resolveRows b h id st s.rows else s.rows := by
  unfold resolve
  cases hp : s.payment? h with
  | none => rfl
  | some p =>
    simp only
    cases hu : updatable p.status with
    | ok =>
      simp only
      cases b with
      | kv =>
        simp only
        cases hf : p.attempts.find? (fun x => x.id == id) with
        | none => rfl
        | some x =>
          obtain ⟨xid, xamt, xfee, xshape, xst⟩ := x
          cases xst <;> rfl
      | sql =>
        simp only
        cases hf : s.rows.find? (fun r => r.a.id == id) with
        | none => rfl
        | some r =>
          simp only
          split <;> rfl
    | _ => rfl

/-- one step keeps "ledger = stored rows", for the KV store provided the registered id is new
    for the payment. -/
theorem gstep_ledger (b : Backend) (s : Store) (op : Op)
    (hfresh : b = .kv → regFresh s op = true) :
    (gstep b (s, s.rows) op).2 = (gstep b (s, s.rows) op).1.rows := by
  simp only [gstep]
  cases op with
  | init h v =>
    simp only [step]
    cases hg : initGate s h <;> rfl
  | reg h a0 =>
    simp only [step]
    cases hp : s.payment? h with
    | none => cases b <;> rfl
    | some p =>
      simp only
      cases hr : p.registrable with
      | ok =>
        simp only
        cases hv : verifyAttempt p { a0 with st := .inflight } with
        | ok =>
          simp only
          cases b with
          | kv =>
            obtain ⟨i, hi, hpe⟩ := payment?_some_inv hp
            have hpa : p.attempts = s.attemptsOf h := by rw [hpe]; rfl
            have hf := hfresh rfl
            simp only [regFresh, Bool.not_eq_true'] at hf
            have hf' : p.attempts.any (fun x => x.id == ({ a0 with st := AState.inflight } : Attempt).id) = false := by
              rw [hpa]; exact hf
            simp only [hf']
            rfl
          | sql =>
            simp only
            split <;> rfl
        | _ => rfl
      | _ => rfl
  | settle h id =>
    simp only [step, ledgerStep, resolve_rows]
    by_cases hc : ((resolve b s h id AState.settled).2.1 == Err.ok) = true
    · simp [hc]
    · have hc' : ((resolve b s h id AState.settled).2.1 == Err.ok) = false := by simpa using hc
      simp [hc']
  | failAtt h id =>
    simp only [step, ledgerStep, resolve_rows]
    by_cases hc : ((resolve b s h id AState.failed).2.1 == Err.ok) = true
    · simp [hc]
    · have hc' : ((resolve b s h id AState.failed).2.1 == Err.ok) = false := by simpa using hc
      simp [hc']
  | fail h r =>
    simp only [step]
    cases hi : s.info h <;> rfl
  | del h =>
    simp only [step]
    cases hp : s.payment? h with
    | none => cases b <;> rfl
    | some p =>
      simp only
      cases hr : removable p.status <;> rfl
  | delFailed h =>
    simp only [step]
    cases hp : s.payment? h with
    | none => cases b <;> rfl
    | some p =>
      simp only
      cases hr : removable p.status <;> rfl
  | fetch h =>
    simp only [step]
    cases hp : s.payment? h <;> rfl
  | delAll fo fho =>
    simp only [step]
    cases fho <;> rfl

theorem gstep_fst (b : Backend) (g : GState) (op : Op) : (gstep b g op).1 = (step b g.1 op).1 := rfl

theorem gexec_cons (b : Backend) (g : GState) (op : Op) (ops : List Op) :
    gexec b g (op :: ops) = gexec b (gstep b g op) ops := rfl

theorem gexec_fst (b : Backend) (g : GState) (ops : List Op) :
    (gexec b g ops).1 = exec b g.1 ops := by
  induction ops generalizing g with
  | nil => rfl
  | cons op ops ih => rw [gexec_cons, ih]; rfl

/-- along a run: ledger = stored rows, for SQL unconditionally, for KV under `freshRun`. -/
theorem gexec_ledger (b : Backend) (ops : List Op) (s : Store)
    (hfresh : b = .kv → freshRun b s ops = true) :
    (gexec b (s, s.rows) ops).2 = (gexec b (s, s.rows) ops).1.rows := by
  induction ops generalizing s with
  | nil => rfl
  | cons op ops ih =>
    rw [gexec_cons]
    have h1 := gstep_ledger b s op (fun hb => by
      have := hfresh hb
      simp only [freshRun, Bool.and_eq_true] at this
      exact this.1)
    have h2 : gstep b (s, s.rows) op = ((step b s op).1, (step b s op).1.rows) := by
      apply Prod.ext
      · rfl
      · rw [h1]; rfl
    rw [h2]
    exact ih _ (fun hb => by
      have := hfresh hb
      simp only [freshRun, Bool.and_eq_true] at this
      exact this.2)

theorem admittedSent_rows (s : Store) (h : Nat) : admittedSent s.rows h = sentL (s.attemptsOf h) := rfl

end LndModel.C16
