/-
C16 — second model layer (core Lean only, used by the driver):

* the SQL store's LIGHTWEIGHT status path: `computePaymentStatusFromDB` =
  `loadPaymentResolutions` (query `FetchHtlcAttemptResolutionsForPayments`: one
  nullable `resolution_type` per attempt row of the payment, NO `ORDER BY`) +
  `computePaymentStatusFromResolutions` (stub `HTLCAttempt`s carrying only
  `Settle` / `Failure`, then `decidePaymentStatus`).  It gates `InitPayment`,
  `SettleAttempt`, `FailAttempt`, `DeletePayment`, `DeleteFailedAttempts` and the
  bulk `DeletePayments`; `FetchPayment`, `RegisterAttempt`, `Fail`,
  `QueryPayments` use the full `MPPayment.setState` path.  `stepSqlL` is the SQL
  `step` with the light path at exactly those call sites; the driver replays the
  sql stream on `stepSqlL` (Light2.lean proves `stepSqlL = step .sql`).
* the WHERE clause of the SQL query `FetchNonTerminalPayments`
  (`FetchInFlightPayments` of the SQL store) as a predicate on a payment.
* creation order (payment sequence numbers) as a ghost list and the paginated
  `QueryPayments`.
* a scheduler for concurrent callers (every API call is one transaction).
-/
import LndModel.C16.Model

namespace LndModel.C16

/-! ### the lightweight status path of the SQL store -/

/-- `hr.resolution_type` of the LEFT JOIN row of an attempt: NULL while the attempt has no
    resolution row, `HTLCAttemptResolutionSettled = 1`, `HTLCAttemptResolutionFailed = 2`. -/
def resTypeOf (a : Attempt) : Option Nat :=
  match a.st with
  | .inflight => none
  | .settled => some 1
  | .failed => some 2

/-- the stub `HTLCAttempt` of `computePaymentStatusFromResolutions` (only `Settle` / `Failure`
    are set); `none` = "unknown resolution type" error. -/
def stubOf : Option Nat → Option Attempt
  | none => some ⟨0, 0, 0, ⟨false, 0, none⟩, .inflight⟩
  | some 1 => some ⟨0, 0, 0, ⟨false, 0, none⟩, .settled⟩
  | some 2 => some ⟨0, 0, 0, ⟨false, 0, none⟩, .failed⟩
  | some _ => none

/-- the loop building the stub slice; `none` as soon as one type is unknown. -/
def stubsOf : List (Option Nat) → Option (List Attempt)
  | [] => some []
  | r :: rs =>
    match stubOf r, stubsOf rs with
    | some a, some as => some (a :: as)
    | _, _ => none

/-- `computePaymentStatusFromResolutions(resolutionTypes, failReason)`. -/
def lightStatusOfRes (rts : List (Option Nat)) (reason : Option Nat) : Option Status :=
  match stubsOf rts with
  | some stubs => some (decideStatus stubs reason)
  | none => none

/-- `loadPaymentResolutions`: the resolution types of the attempt rows of payment `h`. -/
def Store.resTypes (s : Store) (h : Nat) : List (Option Nat) := (s.attemptsOf h).map resTypeOf

/-- `computePaymentStatusFromDB` for the payment row `i` of hash `h`. -/
def Store.lightStatus (s : Store) (h : Nat) (i : Info) : Option Status :=
  lightStatusOfRes (s.resTypes h) i.reason

/-- `SettleAttempt` / `FailAttempt` of the SQL store: payment row by hash, LIGHT status,
    `updatable`, INSERT of the resolution row addressed by the global attempt index, then the
    full fetch of the payment. -/
def resolveSqlL (s : Store) (h id : Nat) (st : AState) : Store × Res :=
  match s.info h with
  | none => (s, .notInitiated, none)
  | some i =>
    match s.lightStatus h i with
    | none => (s, .other, none)
    | some stat =>
      match updatable stat with
      | .ok =>
        match s.rows.find? (fun r => r.a.id == id) with
        | none => (s, .other, none)
        | some r =>
          if r.a.st != .inflight then (s, .other, none)
          else
            let s' := s.mapRows (fun _ x => resolveA id st x)
            (s', .ok, s'.payment? h)
      | e => (s, e, none)

/-- the payments the bulk `DeletePayments(failedOnly, …)` acts on, decided by the LIGHT status. -/
def Store.bulkHitL (s : Store) (failedOnly : Bool) (k : Nat) : Bool :=
  match s.info k with
  | none => false
  | some i =>
    match s.lightStatus k i with
    | none => false
    | some stat => !(stat == .inFlight || (failedOnly && stat != .failed))

/-- the SQL store with the lightweight status path at the call sites that use it. -/
def stepSqlL (s : Store) : Op → Store × Res
  | .init h v =>
    match s.info h with
    | none => ((s.filterRows (fun o _ => o != h)).setInfo h (some ⟨v, none⟩), .ok, none)
    | some i =>
      match s.lightStatus h i with
      | none => (s, .other, none)
      | some stat =>
        match initializable stat with
        | .ok => ((s.filterRows (fun o _ => o != h)).setInfo h (some ⟨v, none⟩), .ok, none)
        | e => (s, e, none)
  | .settle h id => resolveSqlL s h id .settled
  | .failAtt h id => resolveSqlL s h id .failed
  | .del h =>
    match s.info h with
    | none => (s, .notInitiated, none)
    | some i =>
      match s.lightStatus h i with
      | none => (s, .other, none)
      | some stat =>
        match removable stat with
        | .ok => ((s.filterRows (fun o _ => o != h)).setInfo h none, .ok, none)
        | e => (s, e, none)
  | .delFailed h =>
    match s.info h with
    | none => (s, .notInitiated, none)
    | some i =>
      match s.lightStatus h i with
      | none => (s, .other, none)
      | some stat =>
        match removable stat with
        | .ok => (s.filterRows (fun o x => !(o == h && x.st == .failed)), .ok, none)
        | e => (s, e, none)
  | .delAll fo fho =>
    if fho then (s.filterRows (fun o x => !(s.bulkHitL fo o && x.st == .failed)), .ok, none)
    else ((s.filterRows (fun o _ => !s.bulkHitL fo o)).dropInfo (s.bulkHitL fo), .ok, none)
  -- full `MPPayment` path (fetchPaymentWithCompleteData + setState)
  | op => step .sql s op

/-- what the driver replays: the KV model, or the SQL model with its lightweight path. -/
def stepD : Backend → Store → Op → Store × Res
  | .kv, s, op => step .kv s op
  | .sql, s, op => stepSqlL s op

/-- `DeletePayments` count with the light status. -/
def Store.bulkCountL (s : Store) (fo fho : Bool) (hs : List Nat) : Nat :=
  if fho then 0 else (hs.filter (s.bulkHitL fo)).length

/-! ### `FetchInFlightPayments` of the SQL store: the WHERE clause of `FetchNonTerminalPayments` -/

/-- `(p.fail_reason IS NULL AND NOT EXISTS (attempt with resolution_type = 1))
     OR EXISTS (attempt without a resolution row)`. -/
def nonTerminalQuery (p : Payment) : Bool :=
  (p.reason.isNone && !(p.attempts.any (fun a => resTypeOf a == some 1))) ||
    p.attempts.any (fun a => (resTypeOf a).isNone)

/-- `FetchInFlightPayments` (SQL) restricted to the hash universe `hs`. -/
def Store.inFlightSetSql (s : Store) (hs : List Nat) : List Nat :=
  hs.filter (fun h => match s.payment? h with
    | some p => nonTerminalQuery p
    | none => false)

/-! ### cross-backend divergence (theorems: Props3.lean) -/

/-- attempt ids are globally unique (the SQL schema's UNIQUE(attempt_index)). -/
def uniqueIds : List Row → Bool
  | [] => true
  | r :: rs => rs.all (fun x => x.a.id != r.a.id) && uniqueIds rs

/-- (F2) `h` is updatable and `id` is an in-flight attempt of another payment. -/
def foreignInflight (s : Store) (h id : Nat) : Bool :=
  match s.payment? h with
  | some p => updatable p.status == .ok &&
      s.rows.any (fun r => r.a.id == id && r.owner != h && r.a.st == .inflight)
  | none => false

/-- the operations on which the two backends differ. -/
def diverges (s : Store) : Op → Bool
  | .reg h a =>
    match s.payment? h with
    | some p => p.registrable == .ok && verifyAttempt p { a with st := .inflight } == .ok &&
        s.rows.any (fun r => r.a.id == a.id)
    | none => false
  | .settle h id => foreignInflight s h id
  | .failAtt h id => foreignInflight s h id
  | _ => false

/-! ### amount paid -/

/-- Σ of the amounts of the settled attempts (what the payment has paid). -/
def settledL : List Attempt → Nat
  | [] => 0
  | a :: as => (if a.st = .settled then a.amt else 0) + settledL as

def Payment.paid (p : Payment) : Nat := settledL p.attempts

/-! ### creation order and paginated `QueryPayments`

Payments are listed by sequence number (KV: `payment-sequence-key`, re-assigned by every
successful `InitPayment`; SQL: the autoincrement `payments.id`, a re-initiation deletes and
re-inserts the row).  The ghost `order` is the list of existing payment hashes by sequence
number. -/

def orderStep (s : Store) (op : Op) (ok : Bool) (o : List Nat) : List Nat :=
  if !ok then o else
  match op with
  | .init h _ => o.filter (· != h) ++ [h]
  | .del h => o.filter (· != h)
  | .delAll fo fho => if fho then o else o.filter (fun k => !s.bulkHit fo k)
  | _ => o

/-- what one listed payment looks like in a paginated answer: hash and status. -/
def Store.listed (s : Store) (incl : Bool) (o : List Nat) : List (Nat × Status) :=
  o.filterMap (fun h => match s.payment? h with
    | some p => if incl || p.status == .succeeded then some (h, p.status) else none
    | none => none)

/-- the elements strictly after `c` in `o` (all of `o` if `c` is `none`; nothing if absent). -/
def afterCursor (c : Option Nat) (o : List Nat) : List Nat :=
  match c with
  | none => o
  | some h => (o.dropWhile (· != h)).drop 1

/-- the elements strictly before `c`. -/
def beforeCursor (c : Option Nat) (o : List Nat) : List Nat :=
  match c with
  | none => o
  | some h => o.takeWhile (· != h)

/-- `QueryPayments{IndexOffset = seq(cursor), MaxPayments = max, Reversed = rev,
    IncludeIncomplete = incl}` (answer in ascending order, as both stores return it). -/
def Store.page (s : Store) (o : List Nat) (incl rev : Bool) (cursor : Option Nat) (max : Nat) :
    List (Nat × Status) :=
  if rev then
    let l := s.listed incl (beforeCursor cursor o)
    l.drop (l.length - max)
  else (s.listed incl (afterCursor cursor o)).take max

/-! ### concurrent callers

Every `paymentsdb.DB` method runs in ONE database transaction (`kvdb.Batch/Update/View`,
`ExecTx`); the database serialises transactions.  A concurrent execution of `n` callers, each
issuing its own list of calls, is then a schedule: at each tick one caller whose program is not
exhausted runs its next call atomically. -/

structure Conc where
  store : Store
  /-- remaining program of every caller -/
  progs : List (List Op)
  /-- completed calls, oldest first: caller, call, answer -/
  trace : List (Nat × Op × Res)

/-- caller `t` runs its next call (nothing happens if it has none left). -/
def Conc.tick (b : Backend) (c : Conc) (t : Nat) : Conc :=
  match c.progs[t]? with
  | some (op :: rest) =>
    let r := step b c.store op
    { store := r.1, progs := c.progs.set t rest, trace := c.trace ++ [(t, op, r.2)] }
  | _ => c

def Conc.sched (b : Backend) (c : Conc) (ticks : List Nat) : Conc := ticks.foldl (Conc.tick b) c

def Conc.start (s : Store) (progs : List (List Op)) : Conc := ⟨s, progs, []⟩

/-- the calls of caller `t` in a trace, in completion order. -/
def callsOf (t : Nat) (tr : List (Nat × Op × Res)) : List Op :=
  (tr.filter (fun e => e.1 == t)).map (·.2.1)

end LndModel.C16
