-- Root of the `LndModel` library. Property modules live in LndModel/CXX/.
import LndModel.Prelude.Lines
