//go:build verif

package tlv

// C10 correspondence/monitor harness for the tlv module (BigSize + Stream).
// Injected with `go test -overlay` INSIDE the /repo/tlv module so the working
// tree is what gets compiled.  One line per operation for the Lean driver
// (drv_c10 tlv).

import (
	"bufio"
	"bytes"
	"encoding/binary"
	"encoding/hex"
	"errors"
	"fmt"
	"io"
	"math"
	"math/rand"
	"os"
	"runtime"
	"sort"
	"strconv"
	"strings"
	"testing"
)

type c10 struct {
	w   *bufio.Writer
	rng *rand.Rand
	n   int
}

func (c *c10) pf(format string, a ...interface{}) { fmt.Fprintf(c.w, format+"\n", a...) }

func c10hx(b []byte) string {
	if len(b) == 0 {
		return "-"
	}
	return hex.EncodeToString(b)
}

// countReader counts the bytes handed out.
type c10cr struct {
	r *bytes.Reader
	n int
}

func (c *c10cr) Read(p []byte) (int, error) {
	k, err := c.r.Read(p)
	c.n += k
	return k, err
}

func (c *c10) caseStart(kind string) {
	c.n++
	c.pf("CASE %d kind=%s", c.n, kind)
}

func (c *c10) caseEnd() {
	c.pf("END")
	if c.n%256 == 0 {
		c.w.Flush()
	}
}

// ---- varint ---------------------------------------------------------------

func (c *c10) vread(kind string, in []byte) {
	c.caseStart(kind)
	res := ""
	func() {
		defer func() {
			if r := recover(); r != nil {
				res = "panic"
			}
		}()
		var buf [8]byte
		cr := &c10cr{r: bytes.NewReader(in)}
		v, err := ReadVarInt(cr, &buf)
		switch {
		case err == nil:
			res = fmt.Sprintf("ok v=%d used=%d", v, cr.n)
		case err == io.EOF:
			res = fmt.Sprintf("eof used=%d", cr.n)
		case err == io.ErrUnexpectedEOF:
			res = fmt.Sprintf("ueof used=%d", cr.n)
		case errors.Is(err, ErrVarIntNotCanonical):
			res = fmt.Sprintf("noncanon used=%d", cr.n)
		default:
			res = "othererr"
		}
	}()
	c.pf("vr %s => %s", c10hx(in), res)
	c.caseEnd()
}

func (c *c10) vwrite(kind string, v uint64) []byte {
	c.caseStart(kind)
	var b bytes.Buffer
	res := ""
	func() {
		defer func() {
			if r := recover(); r != nil {
				res = "panic"
			}
		}()
		var buf [8]byte
		if err := WriteVarInt(&b, v, &buf); err != nil {
			res = "err"
			return
		}
		res = fmt.Sprintf("%s size=%d", c10hx(b.Bytes()), VarIntSize(v))
	}()
	c.pf("vw %d => %s", v, res)
	c.caseEnd()
	return b.Bytes()
}

// ---- stream ---------------------------------------------------------------

// known record spec: kind 'v' varbytes, 'f' fixed n, 'b' bool, 't' truncated uint n.
type c10known struct {
	typ  uint64
	kind byte
	n    int
}

func (k c10known) String() string {
	switch k.kind {
	case 'v', 'b', 'g':
		return fmt.Sprintf("%d:%c", k.typ, k.kind)
	default:
		return fmt.Sprintf("%d:%c%d", k.typ, k.kind, k.n)
	}
}

type c10slot struct {
	k   c10known
	vb  []byte
	u8  uint8
	u16 uint16
	u32 uint32
	u64 uint64
	b32 [32]byte
	b33 [33]byte
	b64 [64]byte
	bl  bool
}

func (s *c10slot) record() Record {
	t := Type(s.k.typ)
	switch s.k.kind {
	case 'v':
		return MakePrimitiveRecord(t, &s.vb)
	case 'b':
		return MakePrimitiveRecord(t, &s.bl)
	case 'g':
		return MakeBigSizeRecord(t, &s.u64)
	case 'f':
		switch s.k.n {
		case 1:
			return MakePrimitiveRecord(t, &s.u8)
		case 2:
			return MakePrimitiveRecord(t, &s.u16)
		case 4:
			return MakePrimitiveRecord(t, &s.u32)
		case 8:
			return MakePrimitiveRecord(t, &s.u64)
		case 32:
			return MakePrimitiveRecord(t, &s.b32)
		case 33:
			return MakePrimitiveRecord(t, &s.b33)
		case 64:
			return MakePrimitiveRecord(t, &s.b64)
		}
	case 't':
		switch s.k.n {
		case 2:
			return MakeDynamicRecord(t, &s.u16, func() uint64 {
				return SizeTUint16(s.u16)
			}, ETUint16, DTUint16)
		case 4:
			return MakeDynamicRecord(t, &s.u32, func() uint64 {
				return SizeTUint32(s.u32)
			}, ETUint32, DTUint32)
		case 8:
			return MakeDynamicRecord(t, &s.u64, func() uint64 {
				return SizeTUint64(s.u64)
			}, ETUint64, DTUint64)
		}
	}
	panic("bad known spec")
}

// value bytes of a parsed known record, through the record's own encoder.
func (s *c10slot) valueBytes() []byte {
	var b bytes.Buffer
	r := s.record()
	if err := r.Encode(&b); err != nil {
		return []byte("ENCERR")
	}
	return b.Bytes()
}

func c10errName(err error) string {
	var tfd ErrTypeForDecoding
	switch {
	case err == io.ErrUnexpectedEOF:
		return "ueof"
	case err == io.EOF:
		return "eof"
	case errors.Is(err, ErrVarIntNotCanonical):
		return "varint"
	case errors.Is(err, ErrStreamNotCanonical):
		return "order"
	case errors.Is(err, ErrRecordTooLarge):
		return "toolarge"
	case errors.As(err, &tfd):
		return "typelen"
	case errors.Is(err, ErrTUintNotMinimal), err.Error() == "corrupted data":
		return "value"
	}
	return "other:" + strings.ReplaceAll(err.Error(), " ", "_")
}

// c10danger: true when running `in` through a NON-P2P decode would make a
// known var-bytes decoder allocate a huge declared length (DVarBytes does
// make([]byte, l) before reading).  Only a safety filter for the harness
// process; such inputs are reported as skipped.
func c10danger(known []c10known, in []byte) bool {
	r := bytes.NewReader(in)
	var buf [8]byte
	for {
		t, err := ReadVarInt(r, &buf)
		if err != nil {
			return false
		}
		l, err := ReadVarInt(r, &buf)
		if err != nil {
			return false
		}
		for _, k := range known {
			if k.typ == t && k.kind == 'v' && l > 1<<20 {
				return true
			}
		}
		if l > uint64(r.Len()) {
			return false
		}
		r.Seek(int64(l), io.SeekCurrent)
	}
}

func (c *c10) stream(kind string, p2p bool, known []c10known, in []byte) {
	sort.Slice(known, func(i, j int) bool { return known[i].typ < known[j].typ })
	if !p2p && c10danger(known, in) {
		return
	}
	c.caseStart(kind)
	specs := make([]string, len(known))
	for i, k := range known {
		specs[i] = k.String()
	}
	spec := strings.Join(specs, ",")
	if spec == "" {
		spec = "-"
	}
	res := ""
	var alloc uint64
	func() {
		defer func() {
			if r := recover(); r != nil {
				res = "panic"
			}
		}()
		slots := make([]*c10slot, len(known))
		recs := make([]Record, len(known))
		for i, k := range known {
			slots[i] = &c10slot{k: k}
			recs[i] = slots[i].record()
		}
		s, err := NewStream(recs...)
		if err != nil {
			res = "err newstream"
			return
		}
		var (
			tm         TypeMap
			ms0, ms1   runtime.MemStats
			plainErr   error
			plainSlots = make([]*c10slot, len(known))
			plainRecs  = make([]Record, len(known))
		)
		runtime.ReadMemStats(&ms0)
		if p2p {
			tm, err = s.DecodeWithParsedTypesP2P(bytes.NewReader(in))
		} else {
			tm, err = s.DecodeWithParsedTypes(bytes.NewReader(in))
		}
		runtime.ReadMemStats(&ms1)
		alloc = ms1.TotalAlloc - ms0.TotalAlloc

		// The plain entry points must agree with the WithParsedTypes ones.
		for i, k := range known {
			plainSlots[i] = &c10slot{k: k}
			plainRecs[i] = plainSlots[i].record()
		}
		ps := MustNewStream(plainRecs...)
		if p2p {
			plainErr = ps.DecodeP2P(bytes.NewReader(in))
		} else {
			plainErr = ps.Decode(bytes.NewReader(in))
		}
		if (plainErr == nil) != (err == nil) {
			res = fmt.Sprintf("disagree plain=%v parsed=%v", plainErr == nil, err == nil)
			return
		}
		if err != nil {
			res = "err " + c10errName(err)
			return
		}

		// All records seen, sorted by type: known ones via their own
		// encoder, unknown ones from the type map.
		type rec struct {
			t uint64
			v []byte
		}
		var all []rec
		var encRecs []Record
		for i, k := range known {
			if v, ok := tm[Type(k.typ)]; ok && v == nil {
				all = append(all, rec{k.typ, slots[i].valueBytes()})
				// a fresh Record: MakeBigSizeRecord captures the size at construction
				encRecs = append(encRecs, slots[i].record())
			}
		}
		for t, v := range tm {
			if v != nil {
				all = append(all, rec{uint64(t), v})
				vv := v
				encRecs = append(encRecs, MakeStaticRecord(
					t, nil, uint64(len(vv)), StubEncoder(vv), nil,
				))
			}
		}
		sort.Slice(all, func(i, j int) bool { return all[i].t < all[j].t })
		SortRecords(encRecs)
		items := make([]string, len(all))
		for i, r := range all {
			items[i] = fmt.Sprintf("%d=%s", r.t, hex.EncodeToString(r.v))
		}
		lst := strings.Join(items, ",")
		if lst == "" {
			lst = "-"
		}
		es, err := NewStream(encRecs...)
		if err != nil {
			res = "ok " + lst + " enc=errnewstream"
			return
		}
		var eb bytes.Buffer
		if err := es.Encode(&eb); err != nil {
			res = "ok " + lst + " enc=err"
			return
		}
		res = "ok " + lst + " enc=" + c10hx(eb.Bytes())
	}()
	pp := 0
	if p2p {
		pp = 1
	}
	c.pf("st %d %s %s => %s alloc=%d", pp, spec, c10hx(in), res, alloc)
	c.caseEnd()
}

// bigsize: a stream that knows type 0 as a BigSize-encoded uint64
// (MakeBigSizeRecord, as used by lnwire's DynPropose/DynCommit and the
// sweeper/revocation-log stores).  Reported to the monitor only.
func (c *c10) bigsize(kind string, p2p bool, in []byte) {
	c.caseStart(kind)
	res := ""
	func() {
		defer func() {
			if r := recover(); r != nil {
				res = "panic"
			}
		}()
		var v uint64
		s := MustNewStream(MakeBigSizeRecord(0, &v))
		var tm TypeMap
		var err error
		if p2p {
			tm, err = s.DecodeWithParsedTypesP2P(bytes.NewReader(in))
		} else {
			tm, err = s.DecodeWithParsedTypes(bytes.NewReader(in))
		}
		if err != nil {
			res = "err " + c10errName(err)
			return
		}
		parsed := 0
		var items []string
		var ts []uint64
		for t, val := range tm {
			if t == 0 && val == nil {
				parsed = 1
				continue
			}
			ts = append(ts, uint64(t))
		}
		sort.Slice(ts, func(i, j int) bool { return ts[i] < ts[j] })
		for _, t := range ts {
			items = append(items, fmt.Sprintf("%d=%s", t, hex.EncodeToString(tm[Type(t)])))
		}
		lst := strings.Join(items, ",")
		if lst == "" {
			lst = "-"
		}
		res = fmt.Sprintf("ok parsed=%d v=%d others=%s", parsed, v, lst)
	}()
	pp := 0
	if p2p {
		pp = 1
	}
	c.pf("bs %d %s => %s", pp, c10hx(in), res)
	c.caseEnd()
}

// probe: call ONE record decoder directly with a declared length l on a reader
// that holds more bytes than that, and report how many bytes it consumed.
// Stream.decode trusts every decoder to consume exactly l bytes.
func (c *c10) probe(k c10known, in []byte, l uint64) {
	c.caseStart("probe")
	res := ""
	func() {
		defer func() {
			if r := recover(); r != nil {
				res = "panic"
			}
		}()
		slot := &c10slot{k: k}
		rec := slot.record()
		cr := &c10cr{r: bytes.NewReader(in)}
		if err := rec.Decode(cr, l); err != nil {
			res = fmt.Sprintf("err used=%d", cr.n)
			return
		}
		res = fmt.Sprintf("ok used=%d", cr.n)
	}()
	via := 0
	if k.kind == 'g' {
		via = 1
	}
	name := strings.ReplaceAll(k.String(), ":", "_")
	c.pf("probe tlv_%s via=%d l=%d %s => %s", name, via, l, c10hx(in), res)
	c.caseEnd()
}

// ---- primitive codecs on the VALUE level -----------------------------------

func (s *c10slot) setNum(v uint64) {
	s.u8, s.u16, s.u32, s.u64, s.bl = uint8(v), uint16(v), uint32(v), v, v&1 == 1
}

func (s *c10slot) num() uint64 {
	switch s.k.kind {
	case 'b':
		if s.bl {
			return 1
		}
		return 0
	}
	switch s.k.n {
	case 1:
		return uint64(s.u8)
	case 2:
		return uint64(s.u16)
	case 4:
		return uint64(s.u32)
	}
	return s.u64
}

// primEnc: the record encoder of kind k on the NUMBER v (truncated to the Go
// type's width): bytes written and the record's declared size.
func (c *c10) primEnc(k c10known, v uint64) []byte {
	c.caseStart("prim-enc")
	res := ""
	var out []byte
	func() {
		defer func() {
			if r := recover(); r != nil {
				res = "panic"
			}
		}()
		slot := &c10slot{k: k}
		slot.setNum(v)
		rec := slot.record()
		var b bytes.Buffer
		if err := rec.Encode(&b); err != nil {
			res = "err"
			return
		}
		out = append([]byte{}, b.Bytes()...)
		res = fmt.Sprintf("%s size=%d", c10hx(out), rec.Size())
	}()
	c.pf("pe %c %d %d => %s", k.kind, k.n, v, res)
	c.caseEnd()
	return out
}

// primDec: the record decoder of kind k on exactly the bytes `in` (declared
// length = len(in)): the NUMBER it yields and what its encoder writes back.
func (c *c10) primDec(k c10known, in []byte) {
	c.caseStart("prim-dec")
	res := ""
	func() {
		defer func() {
			if r := recover(); r != nil {
				res = "panic"
			}
		}()
		slot := &c10slot{k: k}
		rec := slot.record()
		if err := rec.Decode(bytes.NewReader(in), uint64(len(in))); err != nil {
			res = "err " + c10errName(err)
			return
		}
		var b bytes.Buffer
		rec2 := slot.record()
		if err := rec2.Encode(&b); err != nil {
			res = "ok v=" + strconv.FormatUint(slot.num(), 10) + " enc=err"
			return
		}
		res = fmt.Sprintf("ok v=%d enc=%s", slot.num(), c10hx(b.Bytes()))
	}()
	c.pf("pd %c %d %s => %s", k.kind, k.n, c10hx(in), res)
	c.caseEnd()
}

func (c *c10) prims(thorough bool) {
	kinds := []c10known{{0, 't', 2}, {0, 't', 4}, {0, 't', 8}, {0, 'f', 1}, {0, 'f', 2}, {0, 'f', 4}, {0, 'f', 8}, {0, 'b', 0}}
	var vals []uint64
	for _, e := range c10edges {
		for d := -1; d <= 1; d++ {
			vals = append(vals, e+uint64(d))
		}
	}
	// every byte-length boundary of the truncated encodings
	for sh := uint(8); sh < 64; sh += 8 {
		vals = append(vals, 1<<sh-1, 1<<sh, 1<<sh+1, 0xff<<sh)
	}
	n := 40
	if thorough {
		n = 2000
	}
	for i := 0; i < n; i++ {
		vals = append(vals, c.u64())
	}
	for _, k := range kinds {
		for _, v := range vals {
			enc := c.primEnc(k, v)
			if enc == nil && !(k.kind == 't') {
				continue
			}
			c.primDec(k, enc)
			// one leading zero byte more (non-minimal / too long), one byte
			// less, one byte more at the end
			c.primDec(k, c10cat10([]byte{0}, enc))
			if len(enc) > 0 {
				c.primDec(k, enc[1:])
				c.primDec(k, enc[:len(enc)-1])
			}
			c.primDec(k, c10cat10(enc, []byte{byte(v)}))
		}
		for i := 0; i < n; i++ {
			c.primDec(k, c.bytes(c.rng.Intn(11)))
		}
		for l := 0; l <= 9; l++ {
			c.primDec(k, make([]byte, l))
			c.primDec(k, bytes.Repeat([]byte{0xff}, l))
			c.primDec(k, c10cat10(make([]byte, l), []byte{1}))
		}
	}
}

// ---- generators -----------------------------------------------------------

var c10edges = []uint64{
	0, 1, 2, 0xfb, 0xfc, 0xfd, 0xfe, 0xff, 0x100, 0xfffe, 0xffff, 0x10000,
	0x10001, 0xfffffffe, 0xffffffff, 0x100000000, 0x100000001,
	math.MaxInt64 - 1, math.MaxInt64, 1 << 63, 1<<63 + 1,
	math.MaxUint64 - 1, math.MaxUint64,
}

func (c *c10) u64() uint64 {
	switch c.rng.Intn(6) {
	case 0:
		return c10edges[c.rng.Intn(len(c10edges))]
	case 1:
		return uint64(c.rng.Intn(0x200))
	case 2:
		return uint64(c.rng.Intn(0x20000))
	case 3:
		return uint64(c.rng.Int63n(0x200000000))
	case 4:
		e := c10edges[c.rng.Intn(len(c10edges))]
		return e + uint64(c.rng.Intn(5)) - 2
	}
	return c.rng.Uint64()
}

// rawVarint encodes v with the given discriminant width (1, 3, 5, 9 bytes),
// minimal or not.
func c10raw(v uint64, width int) []byte {
	switch width {
	case 1:
		return []byte{byte(v)}
	case 3:
		b := []byte{0xfd, 0, 0}
		binary.BigEndian.PutUint16(b[1:], uint16(v))
		return b
	case 5:
		b := []byte{0xfe, 0, 0, 0, 0}
		binary.BigEndian.PutUint32(b[1:], uint32(v))
		return b
	}
	b := make([]byte, 9)
	b[0] = 0xff
	binary.BigEndian.PutUint64(b[1:], v)
	return b
}

func c10cat10(parts ...[]byte) []byte { return bytes.Join(parts, nil) }

func c10min(v uint64) []byte {
	switch {
	case v < 0xfd:
		return c10raw(v, 1)
	case v <= 0xffff:
		return c10raw(v, 3)
	case v <= 0xffffffff:
		return c10raw(v, 5)
	}
	return c10raw(v, 9)
}

func (c *c10) bytes(n int) []byte {
	b := make([]byte, n)
	c.rng.Read(b)
	return b
}

type c10rec struct {
	t    uint64
	v    []byte
	tw   int    // width override for the type varint (0 = minimal)
	lw   int    // width override for the length varint
	l    uint64 // declared length when lset
	lset bool
}

func (r c10rec) enc() []byte {
	var b []byte
	if r.tw == 0 {
		b = append(b, c10min(r.t)...)
	} else {
		b = append(b, c10raw(r.t, r.tw)...)
	}
	l := uint64(len(r.v))
	if r.lset {
		l = r.l
	}
	if r.lw == 0 {
		b = append(b, c10min(l)...)
	} else {
		b = append(b, c10raw(l, r.lw)...)
	}
	return append(b, r.v...)
}

func c10encAll(rs []c10rec) []byte {
	var b []byte
	for _, r := range rs {
		b = append(b, r.enc()...)
	}
	return b
}

var c10kinds = []c10known{
	{kind: 'v'}, {kind: 'b'}, {kind: 'f', n: 1}, {kind: 'f', n: 2}, {kind: 'f', n: 4},
	{kind: 'f', n: 8}, {kind: 'f', n: 32}, {kind: 'f', n: 33}, {kind: 'f', n: 64},
	{kind: 't', n: 2}, {kind: 't', n: 4}, {kind: 't', n: 8}, {kind: 'g'},
}

// value of a length that suits the kind (valid most of the time).
func (c *c10) valueFor(k c10known) []byte {
	switch k.kind {
	case 'v':
		return c.bytes(c.rng.Intn(40))
	case 'b':
		return []byte{byte(c.rng.Intn(2))}
	case 'g':
		return c10min(c.u64())
	case 'f':
		return c.bytes(k.n)
	case 't':
		n := c.rng.Intn(k.n + 1)
		b := c.bytes(n)
		if n > 0 && b[0] == 0 && c.rng.Intn(4) != 0 {
			b[0] = 1
		}
		return b
	}
	return nil
}

// genRecords: a canonical list of records with strictly increasing types and
// a matching known set (some types left unknown).
func (c *c10) genRecords() ([]c10rec, []c10known) {
	n := c.rng.Intn(6)
	if c.rng.Intn(8) == 0 {
		n = 0
	}
	typs := map[uint64]bool{}
	for len(typs) < n {
		var t uint64
		switch c.rng.Intn(4) {
		case 0:
			t = uint64(c.rng.Intn(12))
		case 1:
			t = c.u64()
		case 2:
			t = uint64(c.rng.Intn(0x300))
		default:
			t = 65536 + uint64(c.rng.Intn(1000))
		}
		typs[t] = true
	}
	var ts []uint64
	for t := range typs {
		ts = append(ts, t)
	}
	sort.Slice(ts, func(i, j int) bool { return ts[i] < ts[j] })
	var rs []c10rec
	var known []c10known
	for _, t := range ts {
		if c.rng.Intn(2) == 0 {
			k := c10kinds[c.rng.Intn(len(c10kinds))]
			k.typ = t
			known = append(known, k)
			v := c.valueFor(k)
			if c.rng.Intn(8) == 0 { // value the decoder must refuse
				switch k.kind {
				case 'b':
					v = []byte{byte(2 + c.rng.Intn(254))}
				case 't':
					v = append([]byte{0}, c.bytes(c.rng.Intn(k.n))...)
				case 'f':
					v = c.bytes(k.n + c.rng.Intn(3) - 1)
				case 'g':
					// surplus / missing bytes w.r.t. the declared length
					if c.rng.Intn(2) == 0 {
						v = append(v, c.bytes(1+c.rng.Intn(3))...)
					} else {
						v = c10raw(uint64(c.rng.Intn(0xfd)), 3)
					}
				}
			}
			rs = append(rs, c10rec{t: t, v: v})
		} else {
			rs = append(rs, c10rec{t: t, v: c.bytes(c.rng.Intn(24))})
		}
	}
	// a few known types that do not occur in the stream
	for i := c.rng.Intn(3); i > 0; i-- {
		t := uint64(c.rng.Intn(300))
		if !typs[t] {
			typs[t] = true
			k := c10kinds[c.rng.Intn(len(c10kinds))]
			k.typ = t
			known = append(known, k)
		}
	}
	return rs, known
}

var c10bigLens = []uint64{
	65534, 65535, 65536, 65537, 1 << 20, 0xffffffff, 0x100000000, 1 << 40,
	math.MaxInt64 - 1, math.MaxInt64, 1 << 63, 1<<63 + 1, math.MaxUint64 - 1, math.MaxUint64,
}

func c10cp(rs []c10rec) []c10rec {
	o := make([]c10rec, len(rs))
	copy(o, rs)
	return o
}

// mutate: one structure-aware mutation; returns name and bytes.
func (c *c10) mutate(rs []c10rec) (string, []byte) {
	rs = c10cp(rs)
	n := len(rs)
	pick := func() int { return c.rng.Intn(n) }
	m := c.rng.Intn(15)
	if n == 0 && m < 10 {
		m = 10 + c.rng.Intn(5)
	}
	switch m {
	case 0: // swap two records
		if n >= 2 {
			i := c.rng.Intn(n - 1)
			rs[i], rs[i+1] = rs[i+1], rs[i]
			return "swap", c10encAll(rs)
		}
		return "dup", c10encAll(append(rs, rs[0]))
	case 1: // duplicate
		i := pick()
		out := append(c10cp(rs[:i+1]), rs[i:]...)
		return "dup", c10encAll(out)
	case 2: // non-minimal type varint
		i := pick()
		w := []int{3, 5, 9}[c.rng.Intn(3)]
		rs[i].tw = w
		return "nonmin-type", c10encAll(rs)
	case 3: // non-minimal length varint
		i := pick()
		w := []int{3, 5, 9}[c.rng.Intn(3)]
		rs[i].lw = w
		return "nonmin-len", c10encAll(rs)
	case 4: // length off by a little
		i := pick()
		d := uint64(c.rng.Intn(5)) - 2
		rs[i].lset, rs[i].l = true, uint64(len(rs[i].v))+d
		return "len-delta", c10encAll(rs)
	case 5: // huge declared length
		i := pick()
		rs[i].lset, rs[i].l = true, c10bigLens[c.rng.Intn(len(c10bigLens))]
		if c.rng.Intn(2) == 0 {
			rs = rs[:i+1]
		}
		return "len-huge", c10encAll(rs)
	case 6: // type made equal to predecessor / predecessor+-1
		if n >= 2 {
			i := 1 + c.rng.Intn(n-1)
			rs[i].t = rs[i-1].t + uint64(c.rng.Intn(3)) - 1
			return "type-adjacent", c10encAll(rs)
		}
		rs[0].t = c.u64()
		return "type-rand", c10encAll(rs)
	case 7: // last record type MaxUint64 (overflow corner), maybe one more after it
		rs = append(rs, c10rec{t: math.MaxUint64, v: c.bytes(c.rng.Intn(4))})
		switch c.rng.Intn(3) {
		case 0:
			rs = append(rs, c10rec{t: 0, v: nil})
		case 1:
			rs = append(rs, c10rec{t: math.MaxUint64, v: nil})
		}
		return "type-max", c10encAll(rs)
	case 8: // value of a record altered in length but declared consistently
		i := pick()
		rs[i].v = c.bytes(c.rng.Intn(70))
		return "value-resize", c10encAll(rs)
	case 9: // exact p2p bound
		if c.rng.Intn(6) != 0 {
			return "random", c.bytes(c.rng.Intn(40))
		}
		i := pick()
		rs[i].v = c.bytes(65533 + c.rng.Intn(5))
		return "value-64k", c10encAll(rs)
	case 10: // truncate
		b := c10encAll(rs)
		if len(b) == 0 {
			return "random", c.bytes(1 + c.rng.Intn(12))
		}
		return "truncate", b[:c.rng.Intn(len(b))]
	case 11: // extend
		b := c10encAll(rs)
		return "extend", append(b, c.bytes(1+c.rng.Intn(6))...)
	case 12: // flip one byte
		b := c10encAll(rs)
		if len(b) == 0 {
			return "random", c.bytes(1 + c.rng.Intn(12))
		}
		i := c.rng.Intn(len(b))
		b[i] ^= byte(1 << uint(c.rng.Intn(8)))
		return "flip", b
	case 13: // set one byte to a discriminant
		b := c10encAll(rs)
		if len(b) == 0 {
			return "random", c.bytes(1 + c.rng.Intn(12))
		}
		i := c.rng.Intn(len(b))
		b[i] = []byte{0xfd, 0xfe, 0xff, 0x00, 0xfc}[c.rng.Intn(5)]
		return "discriminant", b
	}
	return "random", c.bytes(c.rng.Intn(40))
}

func TestVerifC10(t *testing.T) {
	out := os.Getenv("VERIF_OUT")
	if out == "" {
		t.Skip("VERIF_OUT not set")
	}
	seed, _ := strconv.ParseInt(os.Getenv("VERIF_SEED"), 10, 64)
	thorough := os.Getenv("VERIF_TIER") == "thorough"
	f, err := os.Create(out)
	if err != nil {
		t.Fatal(err)
	}
	defer f.Close()
	c := &c10{w: bufio.NewWriterSize(f, 1<<20), rng: rand.New(rand.NewSource(seed))}
	defer c.w.Flush()

	c.pf("FACT maxRecordSize=%d", MaxRecordSize)

	// (0) primitive record codecs on the value level
	c.prims(thorough)

	mult := 1
	if thorough {
		mult = 40
	}

	// (1) BigSize: every edge value +-2, every width, truncations.
	var vals []uint64
	for _, e := range c10edges {
		for d := -2; d <= 2; d++ {
			vals = append(vals, e+uint64(d))
		}
	}
	for i := 0; i < 300*mult; i++ {
		vals = append(vals, c.u64())
	}
	for _, v := range vals {
		enc := c.vwrite("vw", v)
		c.vread("vr-canon", enc)
		c.vread("vr-ext", append(append([]byte{}, enc...), c.bytes(1+c.rng.Intn(3))...))
		for cut := 0; cut < len(enc); cut++ {
			c.vread("vr-trunc", enc[:cut])
		}
		for _, w := range []int{3, 5, 9} {
			if w > len(enc) {
				c.vread("vr-nonmin", c10raw(v, w))
			}
		}
	}
	for i := 0; i < 400*mult; i++ {
		c.vread("vr-random", c.bytes(c.rng.Intn(12)))
	}

	// (2) fixed stream corner cases (both paths).
	type fx struct {
		name  string
		known []c10known
		in    []byte
	}
	be := func(parts ...[]byte) []byte { return bytes.Join(parts, nil) }
	fixed := []fx{
		{"empty", nil, nil},
		{"wrap-2^63", []c10known{{2, 'f', 8}}, be([]byte{0x01}, c10raw(1<<63, 9))},
		{"wrap-2^63-then-record", []c10known{{2, 'f', 8}},
			be([]byte{0x01}, c10raw(1<<63, 9), []byte{0x02, 0x08, 1, 2, 3, 4, 5, 6, 7, 8})},
		{"wrap-max", []c10known{{2, 'f', 8}}, be([]byte{0x01}, c10raw(math.MaxUint64, 9), []byte{0x03, 0x00})},
		{"wrap-2^63-unknown-only", nil, be([]byte{0x05}, c10raw(1<<63+5, 9), []byte{0x07, 0x01, 0xaa})},
		{"len-maxint64", nil, be([]byte{0x01}, c10raw(math.MaxInt64, 9))},
		{"alloc-2^27", nil, be([]byte{0x01}, c10raw(1<<27, 5), []byte{1, 2, 3})},
		{"alloc-2^28", nil, be([]byte{0x01}, c10raw(1<<28, 5))},
		{"alloc-2^31", nil, be([]byte{0x03}, c10raw(1<<31, 5), []byte{9})},
		{"alloc-2^40", nil, be([]byte{0x01}, c10raw(1<<40, 9), []byte{1, 2, 3})},
		{"type-max-alone", nil, be(c10raw(math.MaxUint64, 9), []byte{0x00})},
		{"type-max-then-0", nil, be(c10raw(math.MaxUint64, 9), []byte{0x00, 0x00, 0x00})},
		{"type-max-then-max", nil, be(c10raw(math.MaxUint64, 9), []byte{0x00}, c10raw(math.MaxUint64, 9), []byte{0x00})},
		{"type-max-1-then-max", nil, be(c10raw(math.MaxUint64-1, 9), []byte{0x00}, c10raw(math.MaxUint64, 9), []byte{0x00})},
		{"dup-zero", nil, []byte{0, 0, 0, 0}},
		{"p2p-65535", nil, be([]byte{0x01}, c10raw(65535, 3), make([]byte, 65535))},
		{"p2p-65536", nil, be([]byte{0x01}, c10raw(65536, 5), make([]byte, 65536))},
		{"known-65535", []c10known{{1, 'v', 0}}, be([]byte{0x01}, c10raw(65535, 3), make([]byte, 65535))},
		{"known-65536", []c10known{{1, 'v', 0}}, be([]byte{0x01}, c10raw(65536, 5), make([]byte, 65536))},
	}
	for _, x := range fixed {
		c.w.Flush() // a fatal allocation failure must not lose the earlier cases
		c.stream("fixed-"+x.name, false, x.known, x.in)
		c.stream("fixed-"+x.name, true, x.known, x.in)
	}
	c.w.Flush()

	// (3) generated canonical streams and their mutations.
	for i := 0; i < 700*mult; i++ {
		rs, known := c.genRecords()
		b := c10encAll(rs)
		p2p := c.rng.Intn(2) == 0
		c.stream("canon", p2p, known, b)
		for j := 0; j < 4; j++ {
			name, mb := c.mutate(rs)
			c.stream("mut-"+name, c.rng.Intn(2) == 0, known, mb)
		}
		// truncation at every offset for short streams
		if len(b) > 0 && len(b) <= 24 && i%4 == 0 {
			for cut := 0; cut < len(b); cut++ {
				c.stream("trunc-all", p2p, known, b[:cut])
			}
		}
	}
	for i := 0; i < 300*mult; i++ {
		_, known := c.genRecords()
		c.stream("random", c.rng.Intn(2) == 0, known, c.bytes(c.rng.Intn(30)))
	}

	// (5) every primitive record decoder: bytes consumed vs declared length
	for _, k := range c10kinds {
		k.typ = 1
		reps := 6 * mult
		for i := 0; i < reps; i++ {
			v := c.valueFor(k)
			in := append(append([]byte{}, v...), c.bytes(9)...)
			n := uint64(len(v))
			for _, l := range []uint64{n, n + 1, n + 2, n + 8, 0} {
				c.probe(k, in, l)
			}
			if n > 0 {
				c.probe(k, in, n-1)
			}
			c.probe(k, c.bytes(12), uint64(c.rng.Intn(10)))
		}
	}

	// (4) BigSize-typed record (type 0): declared length right / too long /
	// too short, with and without following records.
	for i := 0; i < 150*mult; i++ {
		v := c.u64()
		val := c10min(v)
		var tail []byte
		switch c.rng.Intn(3) {
		case 0:
			tail = c10rec{t: uint64(1 + 2*c.rng.Intn(20)), v: c.bytes(c.rng.Intn(5))}.enc()
		case 1:
			tail = c10cat10(
				c10rec{t: 3, v: c.bytes(c.rng.Intn(3))}.enc(),
				c10rec{t: 70000, v: c.bytes(c.rng.Intn(3))}.enc(),
			)
		}
		p2p := c.rng.Intn(2) == 0
		// well-formed
		c.bigsize("bs-valid", p2p, c10cat10([]byte{0x00, byte(len(val))}, val, tail))
		// declared length longer than the BigSize: the extra bytes are a
		// well-formed record / random bytes
		extra := c10rec{t: 3, v: c.bytes(c.rng.Intn(3))}.enc()
		if c.rng.Intn(2) == 0 {
			extra = c.bytes(1 + c.rng.Intn(4))
		}
		c.bigsize("bs-len-long", p2p, c10cat10([]byte{0x00, byte(len(val) + len(extra))}, val, extra, tail))
		// declared length shorter than the BigSize
		if len(val) > 1 {
			c.bigsize("bs-len-short", p2p, c10cat10([]byte{0x00, byte(len(val) - 1 - c.rng.Intn(len(val)-1))}, val, tail))
		}
		c.bigsize("bs-len-zero", p2p, c10cat10([]byte{0x00, 0x00}, tail))
		// non-minimal BigSize inside the value
		if len(val) < 9 {
			w := []int{3, 5, 9}[c.rng.Intn(3)]
			if w > len(val) {
				nm := c10raw(v, w)
				c.bigsize("bs-nonmin", p2p, c10cat10([]byte{0x00, byte(len(nm))}, nm, tail))
			}
		}
	}
}
