//go:build verif

package lnd

// C08 harness, stream "beacon". Injected with `go test -overlay` into the root
// package. Drives the REAL preimageBeacon (witness_beacon.go) on top of the
// real channeldb.WitnessCache (bbolt test backend) through random sequences of
// SubscribeUpdates / CancelSubscription / AddPreimages / LookupPreimage /
// interceptedForward.Settle with several overlapping subscribers, out-of-order
// cancels, parallel subscribes/cancels, subscribers that do not read (buffer
// full, sender goroutines blocked), failing cache writes, interceptor errors
// and beacon restarts over the same cache.
//
// The beacon is the conduit through which the preimage learned from the
// OUTGOING htlc (link -> PreimageCache.AddPreimages) reaches the resolver
// that must settle the matching INCOMING htlc on chain
// (htlcIncomingContestResolver: SubscribeUpdates, LookupPreimage, then wait
// on WitnessUpdates).
//
// One line per operation with the implementation's canonical answer; the Lean
// driver (drv_c08 beacon) replays the model and evaluates the monitor.

import (
	"bufio"
	"encoding/hex"
	"errors"
	"fmt"
	"math/rand"
	"os"
	"reflect"
	"runtime"
	"sort"
	"strconv"
	"strings"
	"sync"
	"testing"
	"time"

	"github.com/lightningnetwork/lnd/channeldb"
	"github.com/lightningnetwork/lnd/chanstate"
	"github.com/lightningnetwork/lnd/graph/db/models"
	"github.com/lightningnetwork/lnd/htlcswitch"
	"github.com/lightningnetwork/lnd/htlcswitch/hop"
	"github.com/lightningnetwork/lnd/lntypes"
	"github.com/lightningnetwork/lnd/lnwire"
)

// c08bCache wraps the real witness cache; only addition: a write can be made
// to fail (disk error).
type c08bCache struct {
	db       *channeldb.WitnessCache
	mem      map[lntypes.Hash]lntypes.Preimage
	useDB    bool
	inner    witnessCache
	failNext bool
}

// c08bMem is an in-memory witness cache with the contract of the real one
// (Put semantics, ErrNoWitnesses when absent); used for most cases because a
// bbolt batch write costs ~10 ms.
type c08bMem struct {
	sync.Mutex
	m map[lntypes.Hash]lntypes.Preimage
}

func (m *c08bMem) LookupSha256Witness(h lntypes.Hash) (lntypes.Preimage, error) {
	m.Lock()
	defer m.Unlock()
	p, ok := m.m[h]
	if !ok {
		return lntypes.Preimage{}, channeldb.ErrNoWitnesses
	}
	return p, nil
}

func (m *c08bMem) AddSha256Witnesses(ps ...lntypes.Preimage) error {
	m.Lock()
	defer m.Unlock()
	for _, p := range ps {
		m.m[p.Hash()] = p
	}
	return nil
}

func (c *c08bCache) LookupSha256Witness(h lntypes.Hash) (lntypes.Preimage, error) {
	return c.inner.LookupSha256Witness(h)
}

func (c *c08bCache) AddSha256Witnesses(p ...lntypes.Preimage) error {
	if c.failNext {
		c.failNext = false
		return errors.New("c08 injected cache write failure")
	}
	return c.inner.AddSha256Witnesses(p...)
}

type c08bSlot struct {
	id     int
	lazy   bool
	pre    lntypes.Preimage // the preimage of this slot's htlc
	ch     <-chan lntypes.Preimage
	cancel func()
	fwd    htlcswitch.InterceptedForward
	live   bool // the HARNESS's view: subscribed ok and not yet cancelled
	// lazy slots: number of preimages added while live and not yet drained
	pending int
	dead    bool // timed out once: use the short timeout from now on
}

type c08b struct {
	w        *bufio.Writer
	rng      *rand.Rand
	cache    *c08bCache
	p        *preimageBeacon
	slots    []*c08bSlot
	nextSlot int
	mu       sync.Mutex
	lastFwd  map[uint64]htlcswitch.InterceptedForward
	ckeys    []uint64
	icptErr  map[uint64]bool
	timeouts int
	caseNo   int
	seed     int64
	preCtr   uint64
	added    []lntypes.Preimage
}

func (c *c08b) pf(format string, a ...interface{}) { fmt.Fprintf(c.w, format+"\n", a...) }

func (c *c08b) newBeacon() {
	c.p = newPreimageBeacon(c.cache,
		func(f htlcswitch.InterceptedForward) error {
			c.mu.Lock()
			defer c.mu.Unlock()
			id := f.Packet().IncomingCircuit.HtlcID
			c.lastFwd[id] = f
			if c.icptErr[id] {
				return errors.New("c08 injected interceptor error")
			}
			return nil
		},
		func(k models.CircuitKey) error {
			c.mu.Lock()
			defer c.mu.Unlock()
			c.ckeys = append(c.ckeys, k.HtlcID)
			return nil
		},
	)
}

// liveCount reads the size of the beacon's subscriber map by reflection (so
// that a refactoring of the struct does not stop the harness from compiling);
// -1 if there is no such map.
func (c *c08b) liveCount() int {
	c.p.RLock()
	defer c.p.RUnlock()
	f := reflect.ValueOf(c.p).Elem().FieldByName("subscribers")
	if !f.IsValid() || f.Kind() != reflect.Map {
		return -1
	}
	return f.Len()
}

func (c *c08b) freshPre() lntypes.Preimage {
	var p lntypes.Preimage
	c.rng.Read(p[:])
	c.preCtr++
	// unique within the run
	p[0] = byte(c.preCtr)
	p[1] = byte(c.preCtr >> 8)
	p[2] = byte(c.preCtr >> 16)
	return p
}

func c08bHex(p lntypes.Preimage) string { return hex.EncodeToString(p[:]) }

func (c *c08b) takeCkeys() string {
	c.mu.Lock()
	defer c.mu.Unlock()
	if len(c.ckeys) == 0 {
		return "-"
	}
	s := make([]string, 0, len(c.ckeys))
	sort.Slice(c.ckeys, func(i, j int) bool { return c.ckeys[i] < c.ckeys[j] })
	for _, k := range c.ckeys {
		s = append(s, strconv.FormatUint(k, 10))
	}
	c.ckeys = nil
	return strings.Join(s, ",")
}

func (c *c08b) tmo(s *c08bSlot) time.Duration {
	if s.dead || c.timeouts >= 3 {
		return 60 * time.Millisecond
	}
	return 3 * time.Second
}

// settlePause gives sender goroutines of the beacon time to run.
func settlePause(d time.Duration) {
	for i := 0; i < 4; i++ {
		runtime.Gosched()
	}
	time.Sleep(d)
	for i := 0; i < 4; i++ {
		runtime.Gosched()
	}
}

func drainNow(ch <-chan lntypes.Preimage) []lntypes.Preimage {
	var out []lntypes.Preimage
	for {
		select {
		case p := <-ch:
			out = append(out, p)
		default:
			return out
		}
	}
}

func fmtRecv(m map[int][]lntypes.Preimage) string {
	if len(m) == 0 {
		return "-"
	}
	ids := make([]int, 0, len(m))
	for id := range m {
		ids = append(ids, id)
	}
	sort.Ints(ids)
	parts := make([]string, 0, len(ids))
	for _, id := range ids {
		ps := make([]string, 0, len(m[id]))
		for _, p := range m[id] {
			ps = append(ps, c08bHex(p))
		}
		parts = append(parts, fmt.Sprintf("%d:%s", id, strings.Join(ps, ",")))
	}
	return strings.Join(parts, ";")
}

// collect reads what the eager slots receive after `n` preimages were handed
// to the beacon: slots the harness believes live are read until n items
// arrived (or a timeout), then after a pause every eager slot (live or not)
// is polled once more without blocking (duplicates, deliveries to cancelled
// subscribers).
func (c *c08b) collect(n int) (string, string) {
	recv := map[int][]lntypes.Preimage{}
	var tos []string
	for _, s := range c.slots {
		if s.lazy || !s.live || s.ch == nil {
			continue
		}
		timer := time.NewTimer(c.tmo(s))
	loop:
		for len(recv[s.id]) < n {
			select {
			case p := <-s.ch:
				recv[s.id] = append(recv[s.id], p)
			case <-timer.C:
				tos = append(tos, strconv.Itoa(s.id))
				s.dead = true
				c.timeouts++
				break loop
			}
		}
		timer.Stop()
	}
	settlePause(300 * time.Microsecond)
	for _, s := range c.slots {
		if s.lazy || s.ch == nil {
			continue
		}
		if x := drainNow(s.ch); len(x) > 0 {
			recv[s.id] = append(recv[s.id], x...)
		}
	}
	to := "-"
	if len(tos) > 0 {
		to = strings.Join(tos, ",")
	}
	return fmtRecv(recv), to
}

func (c *c08b) subscribeOne(s *c08bSlot, icptFail bool) string {
	c.mu.Lock()
	c.icptErr[uint64(s.id)] = icptFail
	c.mu.Unlock()
	res := "ok"
	func() {
		defer func() {
			if r := recover(); r != nil {
				res = "panic"
			}
		}()
		sub, err := c.p.SubscribeUpdates(
			lnwire.NewShortChanIDFromInt(7),
			&chanstate.HTLC{HtlcIndex: uint64(s.id), RHash: s.pre.Hash()},
			&hop.Payload{}, []byte{2},
		)
		if err != nil {
			res = "err"
			return
		}
		s.ch = sub.WitnessUpdates
		s.cancel = sub.CancelSubscription
		s.live = true
	}()
	c.mu.Lock()
	s.fwd = c.lastFwd[uint64(s.id)]
	c.mu.Unlock()
	return res
}

func (c *c08b) newSlot(lazy bool) *c08bSlot {
	s := &c08bSlot{id: c.nextSlot, lazy: lazy, pre: c.freshPre()}
	c.nextSlot++
	c.slots = append(c.slots, s)
	return s
}

func (c *c08b) pktInfo(s *c08bSlot) string {
	if s.fwd == nil {
		return "-"
	}
	pk := s.fwd.Packet()
	return fmt.Sprintf("%d:%s", pk.IncomingCircuit.HtlcID, hex.EncodeToString(pk.Hash[:]))
}

func (c *c08b) opSub(lazy, icptFail bool) *c08bSlot {
	s := c.newSlot(lazy)
	res := c.subscribeOne(s, icptFail)
	mode := "e"
	if lazy {
		mode = "l"
	}
	ic := "ok"
	if icptFail {
		ic = "err"
	}
	chcap := 0
	if s.ch != nil {
		chcap = cap(s.ch)
	}
	c.pf("sub %d mode=%s icpt=%s hash=%s => %s live=%d ckey=%s pkt=%s cap=%d", s.id, mode, ic,
		hex.EncodeToString(func() []byte { h := s.pre.Hash(); return h[:] }()), res, c.liveCount(),
		c.takeCkeys(), c.pktInfo(s), chcap)
	return s
}

func (c *c08b) opParSub(n int) {
	ss := make([]*c08bSlot, n)
	for i := range ss {
		ss[i] = c.newSlot(false)
	}
	res := make([]string, n)
	var wg sync.WaitGroup
	for i := range ss {
		wg.Add(1)
		go func(i int) {
			defer wg.Done()
			res[i] = c.subscribeOne(ss[i], false)
		}(i)
	}
	wg.Wait()
	ids := make([]string, n)
	hs := make([]string, n)
	for i, s := range ss {
		ids[i] = strconv.Itoa(s.id)
		h := s.pre.Hash()
		hs[i] = hex.EncodeToString(h[:])
	}
	c.pf("psub %s hash=%s => %s live=%d ckey=%s", strings.Join(ids, ","), strings.Join(hs, ","),
		strings.Join(res, ","), c.liveCount(), c.takeCkeys())
}

func (c *c08b) cancelOne(s *c08bSlot) string {
	res := "ok"
	func() {
		defer func() {
			if r := recover(); r != nil {
				res = "panic"
			}
		}()
		s.cancel()
	}()
	s.live = false
	return res
}

func (c *c08b) opCancel(s *c08bSlot) {
	res := c.cancelOne(s)
	c.pf("cancel %d => %s live=%d ckey=%s", s.id, res, c.liveCount(), c.takeCkeys())
}

func (c *c08b) opParCancel(ss []*c08bSlot) {
	res := make([]string, len(ss))
	var wg sync.WaitGroup
	for i := range ss {
		wg.Add(1)
		go func(i int) {
			defer wg.Done()
			res[i] = c.cancelOne(ss[i])
		}(i)
	}
	wg.Wait()
	ids := make([]string, len(ss))
	for i, s := range ss {
		ids[i] = strconv.Itoa(s.id)
	}
	c.pf("pcancel %s => %s live=%d ckey=%s", strings.Join(ids, ","), strings.Join(res, ","), c.liveCount(), c.takeCkeys())
}

func (c *c08b) opAdd(ps []lntypes.Preimage, fail bool) {
	c.cache.failNext = fail && len(ps) > 0
	res := "ok"
	func() {
		defer func() {
			if r := recover(); r != nil {
				res = "panic"
			}
		}()
		if err := c.p.AddPreimages(ps...); err != nil {
			res = "err"
		}
	}()
	c.cache.failNext = false
	n := 0
	if res == "ok" {
		n = len(ps)
		c.added = append(c.added, ps...)
		for _, s := range c.slots {
			if s.lazy && s.live {
				s.pending += n
			}
		}
	}
	recv, to := c.collect(n)
	hs := make([]string, 0, len(ps))
	for _, p := range ps {
		hs = append(hs, c08bHex(p))
	}
	arg := "-"
	if len(hs) > 0 {
		arg = strings.Join(hs, ",")
	}
	f := 0
	if fail {
		f = 1
	}
	c.pf("add %s fail=%d => %s live=%d recv=%s timeout=%s", arg, f, res, c.liveCount(), recv, to)
}

func (c *c08b) opISettle(s *c08bSlot, p lntypes.Preimage) {
	if s.fwd == nil {
		return
	}
	res := "ok"
	func() {
		defer func() {
			if r := recover(); r != nil {
				res = "panic"
			}
		}()
		err := s.fwd.Settle(p)
		switch {
		case err == nil:
		case errors.Is(err, ErrPreimageMismatch):
			res = "mismatch"
		default:
			res = "err"
		}
	}()
	n := 0
	if res == "ok" {
		n = 1
		c.added = append(c.added, p)
		for _, x := range c.slots {
			if x.lazy && x.live {
				x.pending++
			}
		}
	}
	recv, to := c.collect(n)
	other := "ok"
	if !errors.Is(s.fwd.Fail(nil), ErrCannotFail) || !errors.Is(s.fwd.Resume(), ErrCannotResume) ||
		!errors.Is(s.fwd.FailWithCode(lnwire.CodeTemporaryChannelFailure), ErrCannotFail) {

		other = "bad"
	}
	c.pf("isettle %d %s => %s live=%d recv=%s timeout=%s failresume=%s", s.id, c08bHex(p), res, c.liveCount(), recv, to, other)
}

func (c *c08b) opLookup(h lntypes.Hash) {
	res := "none"
	func() {
		defer func() {
			if r := recover(); r != nil {
				res = "panic"
			}
		}()
		if p, ok := c.p.LookupPreimage(h); ok {
			res = c08bHex(p)
		}
	}()
	c.pf("lookup %s => %s", hex.EncodeToString(h[:]), res)
}

// opDrain reads a lazy slot: a live one until everything added while it was
// subscribed arrived (or timeout); a cancelled one only what is there after a
// pause.
func (c *c08b) opDrain(s *c08bSlot) {
	var got []lntypes.Preimage
	to := "-"
	if s.live {
		timer := time.NewTimer(c.tmo(s))
	loop:
		for len(got) < s.pending {
			select {
			case p := <-s.ch:
				got = append(got, p)
			case <-timer.C:
				to = strconv.Itoa(s.id)
				s.dead = true
				c.timeouts++
				break loop
			}
		}
		timer.Stop()
	}
	settlePause(2 * time.Millisecond)
	if s.ch != nil {
		got = append(got, drainNow(s.ch)...)
	}
	st := "cancelled"
	if s.live {
		st = "live"
	}
	s.pending = 0
	ps := make([]string, 0, len(got))
	for _, p := range got {
		ps = append(ps, c08bHex(p))
	}
	r := "-"
	if len(ps) > 0 {
		r = strings.Join(ps, ",")
	}
	c.pf("drain %d state=%s => %s timeout=%s", s.id, st, r, to)
}

func (c *c08b) opRestart() {
	// the process died: subscriptions are gone without a cancel, the cache stays
	for _, s := range c.slots {
		s.live = false
		s.ch = nil
	}
	c.slots = nil
	c.mu.Lock()
	c.lastFwd = map[uint64]htlcswitch.InterceptedForward{}
	c.mu.Unlock()
	c.newBeacon()
	c.pf("restart => ok live=%d", c.liveCount())
}

func (c *c08b) liveSlots(lazy, all bool) []*c08bSlot {
	var out []*c08bSlot
	for _, s := range c.slots {
		if s.live && (all || s.lazy == lazy) {
			out = append(out, s)
		}
	}
	return out
}

func (c *c08b) startCase(kind string) {
	c.caseNo++
	// every 4th case runs on the real bbolt-backed cache
	c.cache.useDB = c.caseNo%4 == 1
	if c.cache.useDB {
		c.cache.inner = c.cache.db
	} else {
		c.cache.inner = &c08bMem{m: map[lntypes.Hash]lntypes.Preimage{}}
	}
	c.slots = nil
	c.nextSlot = 0
	c.added = nil
	c.mu.Lock()
	c.lastFwd = map[uint64]htlcswitch.InterceptedForward{}
	c.icptErr = map[uint64]bool{}
	c.ckeys = nil
	c.mu.Unlock()
	c.newBeacon()
	c.pf("CASE b%d-%d kind=%s realdb=%v", c.seed, c.caseNo, kind, c.cache.useDB)
}

func (c *c08b) endCase() {
	// everything still live is cancelled in random order; then nothing may be
	// left in the beacon, and nothing may arrive any more
	live := c.liveSlots(false, true)
	c.rng.Shuffle(len(live), func(i, j int) { live[i], live[j] = live[j], live[i] })
	for _, s := range live {
		if s.lazy {
			c.opDrain(s)
		}
		c.opCancel(s)
	}
	if len(c.added) > 0 {
		c.opLookup(c.added[c.rng.Intn(len(c.added))].Hash())
	}
	c.opAdd([]lntypes.Preimage{c.freshPre()}, false)
	settlePause(1 * time.Millisecond)
	stale := map[int][]lntypes.Preimage{}
	for _, s := range c.slots {
		if s.ch == nil || s.lazy {
			continue
		}
		if x := drainNow(s.ch); len(x) > 0 {
			stale[s.id] = x
		}
	}
	c.pf("final live=%d stale=%s", c.liveCount(), fmtRecv(stale))
	c.pf("END")
}

func (c *c08b) batch(max int) []lntypes.Preimage {
	n := 1
	switch r := c.rng.Intn(10); {
	case r < 5:
		n = 1
	case r < 8:
		n = 2
	default:
		n = 1 + c.rng.Intn(max)
	}
	ps := make([]lntypes.Preimage, n)
	for i := range ps {
		ps[i] = c.freshPre()
	}
	return ps
}

// scripted boundary shapes of the subscriber life cycle: cancel order relative
// to subscribe order (oldest first, newest first, middle), subscribe after a
// cancel, with a delivery between every two steps.
func (c *c08b) scripted(order string, n int) {
	c.startCase("order-" + order)
	var ss []*c08bSlot
	for i := 0; i < n; i++ {
		ss = append(ss, c.opSub(false, false))
	}
	c.opAdd(c.batch(3), false)
	idx := make([]int, n)
	for i := range idx {
		idx[i] = i
	}
	switch order {
	case "fifo":
	case "lifo":
		for i := range idx {
			idx[i] = n - 1 - i
		}
	case "middle":
		idx[0], idx[n/2] = idx[n/2], idx[0]
	case "random":
		c.rng.Shuffle(n, func(i, j int) { idx[i], idx[j] = idx[j], idx[i] })
	}
	for k, i := range idx {
		if k == n-1 {
			break
		}
		c.opCancel(ss[i])
		c.opAdd(c.batch(2), false)
		c.opSub(false, false)
		c.opAdd(c.batch(2), false)
		// the preimage of a still subscribed htlc arrives through the cache
		c.opAdd([]lntypes.Preimage{ss[idx[n-1]].pre}, false)
		c.opLookup(ss[idx[n-1]].pre.Hash())
	}
	c.endCase()
}

func (c *c08b) randomCase(kind string) {
	c.startCase(kind)
	nops := 8 + c.rng.Intn(22)
	maxLive := 2 + c.rng.Intn(7)
	lazyOK := kind == "lazy"
	for i := 0; i < nops; i++ {
		live := c.liveSlots(false, true)
		r := c.rng.Intn(100)
		switch {
		case r < 28 && len(live) < maxLive:
			lazy := lazyOK && c.rng.Intn(3) == 0
			icf := kind == "icpt" && c.rng.Intn(4) == 0
			c.opSub(lazy, icf)
		case r < 33 && len(live)+3 <= maxLive && kind == "parallel":
			c.opParSub(2 + c.rng.Intn(3))
		case r < 52 && len(live) > 0:
			// out-of-order cancel: any live subscriber, biased to the oldest
			var s *c08bSlot
			if c.rng.Intn(3) == 0 {
				s = live[0]
			} else {
				s = live[c.rng.Intn(len(live))]
			}
			if s.lazy && c.rng.Intn(2) == 0 {
				c.opDrain(s)
			}
			c.opCancel(s)
		case r < 56 && len(live) >= 2 && kind == "parallel":
			c.rng.Shuffle(len(live), func(i, j int) { live[i], live[j] = live[j], live[i] })
			k := 2 + c.rng.Intn(len(live)-1)
			var ss []*c08bSlot
			for _, s := range live[:k] {
				if !s.lazy {
					ss = append(ss, s)
				}
			}
			if len(ss) > 0 {
				c.opParCancel(ss)
			}
		case r < 80:
			switch q := c.rng.Intn(20); {
			case q == 0:
				c.opAdd(nil, false)
			case q == 1:
				c.opAdd(c.batch(3), true)
			case q < 5 && len(live) > 0:
				// the preimage of a subscribed htlc
				c.opAdd([]lntypes.Preimage{live[c.rng.Intn(len(live))].pre}, false)
			case q == 5 && len(c.added) > 0 && !lazyOK:
				// a preimage that is already in the cache: subscribers are told again
				c.opAdd([]lntypes.Preimage{c.added[c.rng.Intn(len(c.added))]}, false)
			case q < 9 && lazyOK:
				// more than the channel buffer: sender goroutines block on lazy subscribers
				ps := make([]lntypes.Preimage, 4+c.rng.Intn(9))
				for i := range ps {
					ps[i] = c.freshPre()
				}
				c.opAdd(ps, false)
			default:
				c.opAdd(c.batch(4), false)
			}
		case r < 86 && len(live) > 0:
			s := live[c.rng.Intn(len(live))]
			p := s.pre
			if c.rng.Intn(3) == 0 {
				p = c.freshPre()
			}
			c.opISettle(s, p)
		case r < 94:
			switch q := c.rng.Intn(4); {
			case q == 0 && len(c.added) > 0:
				c.opLookup(c.added[c.rng.Intn(len(c.added))].Hash())
			case q == 1 && len(c.slots) > 0:
				c.opLookup(c.slots[c.rng.Intn(len(c.slots))].pre.Hash())
			case q == 2:
				var h lntypes.Hash
				c.rng.Read(h[:])
				c.opLookup(h)
			default:
				if len(c.added) > 0 {
					c.opLookup(c.added[len(c.added)-1].Hash())
				}
			}
		case r < 97:
			lz := c.liveSlots(true, false)
			if len(lz) > 0 {
				c.opDrain(lz[c.rng.Intn(len(lz))])
			} else if lazyOK {
				// a cancelled lazy slot: only what was buffered may be there
				for _, s := range c.slots {
					if s.lazy && !s.live && s.ch != nil {
						c.opDrain(s)
						break
					}
				}
			}
		default:
			if kind == "restart" {
				keep := c.added
				c.opRestart()
				c.added = keep
				if len(keep) > 0 {
					c.opLookup(keep[c.rng.Intn(len(keep))].Hash())
				}
			}
		}
	}
	c.endCase()
}

func TestVerifC08Beacon(t *testing.T) {
	out := os.Getenv("VERIF_OUT")
	if out == "" {
		t.Skip("VERIF_OUT not set")
	}
	seed, _ := strconv.ParseInt(os.Getenv("VERIF_SEED"), 10, 64)
	if seed == 0 {
		seed = 1
	}
	tier := os.Getenv("VERIF_TIER")
	f, err := os.Create(out)
	if err != nil {
		t.Fatal(err)
	}
	defer f.Close()
	w := bufio.NewWriterSize(f, 1<<20)
	defer w.Flush()

	cdb, err := channeldb.MakeTestDB(t)
	if err != nil {
		t.Fatal(err)
	}
	c := &c08b{
		w:     w,
		rng:   rand.New(rand.NewSource(seed*7919 + 8)),
		cache: &c08bCache{db: cdb.NewWitnessCache()},
		seed:  seed,
	}
	c.pf("FACT stream=beacon")

	for _, order := range []string{"fifo", "lifo", "middle", "random"} {
		for _, n := range []int{2, 3, 5} {
			c.scripted(order, n)
		}
	}
	ncases := 150
	if tier == "thorough" {
		ncases = 1000
	}
	kinds := []string{"churn", "churn", "churn", "lazy", "icpt", "parallel", "restart"}
	for i := 0; i < ncases; i++ {
		c.randomCase(kinds[c.rng.Intn(len(kinds))])
	}
}
