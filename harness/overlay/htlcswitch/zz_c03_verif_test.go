//go:build verif

package htlcswitch

// C03 harness, link level (stream `link`).  One REAL channelLink (Alice: real
// switch with its mailbox orchestrator, real mailbox, real bbolt channel DB,
// real invoice registry) talks to an honest peer played by the harness (Bob: a
// real lnwallet.LightningChannel on its own DB, driven under the discipline of
// lnd's link: an accepted commitment_signed is revoked for at once).  Every
// message in either direction travels through lnwire.WriteMessage ->
// lnwire.ReadMessage.
//
// The connection flaps INSIDE ONE PROCESS at random instants: Alice's link is
// removed from the switch (stopped) while messages may still sit unread in its
// mailbox - some delivered in a burst right before the stop, some read off the
// connection by the peer object after the link's htlcManager is gone - the
// switch and the mailbox survive, both channels are reloaded from disk, a new
// link is attached to the same switch, both sides exchange channel_reestablish
// (the real syncChanStates on Alice's side) and retransmit.  Flaps also hit the
// resynchronisation itself (before / after either reestablish is processed).
//
// Trace (one CASE per fixture):
//   B add id= amt= inv= => res        Bob adds an HTLC (Alice is the exit hop: known invoice / unknown hash)
//   B sign|revoke => res
//   W <dir> <kind> <built> => <decoded>   the wire
//   TA <kind> late=<0|1>              put into Alice's mailbox (late: after her link stopped)
//   FA <kind> [id=]                   Alice sent it
//   BP <kind> [id=] => res            Bob processed it (Receive* / ProcessChanSyncMsg)
//   BX <kind>                         lost with the connection
//   F n= burst= unread= late= ...     flap
//   R <node> => ok lt= lto= ltt= rt= rto= rtt= rp= lwr=    state reloaded from disk
//   Y / YW <node> ...                 channel_reestablish as built / as decoded
//   P B => res msgs=<kinds>           Bob's ProcessChanSyncMsg
//   LF code= action= err=             Alice's link failed (OnChannelFailure)
//   Q => ok|timeout                   drained to quiescence
//   V B lh= rh= l=<ids> r=<ids>       Bob's HTLCs on his / on Alice's lowest unrevoked commitment
//   S <node> ...                      commitments at quiescence

import (
	"bufio"
	"bytes"
	"context"
	"crypto/sha256"
	"encoding/hex"
	"errors"
	"fmt"
	"math/rand"
	"os"
	"sort"
	"strconv"
	"strings"
	"sync"
	"sync/atomic"
	"testing"
	"time"

	"github.com/btcsuite/btcd/btcec/v2"
	"github.com/btcsuite/btclog"
	btclogv2 "github.com/btcsuite/btclog/v2"
	"github.com/btcsuite/btcd/btcutil/v2"
	"github.com/btcsuite/btcd/wire/v2"
	sphinx "github.com/lightningnetwork/lightning-onion"
	"github.com/lightningnetwork/lnd/channeldb"
	cstate "github.com/lightningnetwork/lnd/chanstate"
	"github.com/lightningnetwork/lnd/contractcourt"
	"github.com/lightningnetwork/lnd/graph/db/models"
	"github.com/lightningnetwork/lnd/htlcswitch/hop"
	"github.com/lightningnetwork/lnd/input"
	"github.com/lightningnetwork/lnd/lntypes"
	"github.com/lightningnetwork/lnd/lnwallet"
	"github.com/lightningnetwork/lnd/lnwallet/chainfee"
	"github.com/lightningnetwork/lnd/lnwire"
	"github.com/lightningnetwork/lnd/shachain"
	"github.com/lightningnetwork/lnd/ticker"
)

// ---------------------------------------------------------------------------
// the wire
// ---------------------------------------------------------------------------

func c03lWireRT(m lnwire.Message) (out lnwire.Message, res string) {
	res = "ok"
	defer func() {
		if r := recover(); r != nil {
			out, res = nil, "err:panic"
		}
	}()
	var b bytes.Buffer
	if _, err := lnwire.WriteMessage(&b, m, 0); err != nil {
		return nil, "err:encode"
	}
	rd := bytes.NewReader(b.Bytes())
	out, err := lnwire.ReadMessage(rd, 0)
	if err != nil {
		return nil, "err:decode"
	}
	if rd.Len() != 0 {
		return nil, "err:trailing"
	}
	return out, "ok"
}

func c03lH(b ...[]byte) string {
	h := sha256.New()
	for _, x := range b {
		h.Write(x)
	}
	return hex.EncodeToString(h.Sum(nil)[:6])
}

func c03lNonceTok(n lnwire.OptMusig2NonceTLV) string {
	tok := "-"
	n.WhenSomeV(func(v lnwire.Musig2Nonce) { tok = c03lH(v[:]) })
	return tok
}

func c03lNoncesTok(n lnwire.OptLocalNonces) string {
	tok := "-"
	n.WhenSome(func(d lnwire.LocalNoncesData) {
		keys := make([]string, 0, len(d.NoncesMap))
		for k, v := range d.NoncesMap {
			keys = append(keys, c03lH(k[:], v[:]))
		}
		sort.Strings(keys)
		tok = strconv.Itoa(len(keys)) + "/" + strings.Join(keys, "/")
	})
	return tok
}

func c03lKind(m lnwire.Message) string {
	switch m.(type) {
	case *lnwire.UpdateAddHTLC:
		return "add"
	case *lnwire.UpdateFulfillHTLC:
		return "settle"
	case *lnwire.UpdateFailHTLC:
		return "fail"
	case *lnwire.UpdateFailMalformedHTLC:
		return "malformed"
	case *lnwire.UpdateFee:
		return "fee"
	case *lnwire.CommitSig:
		return "commitsig"
	case *lnwire.RevokeAndAck:
		return "revoke"
	case *lnwire.ChannelReestablish:
		return "reest"
	case *lnwire.ChannelReady:
		return "channel_ready"
	case *lnwire.Error:
		return "error"
	case *lnwire.Warning:
		return "warning"
	}
	return fmt.Sprintf("other_%d", uint16(m.MsgType()))
}

// c03lCanon renders the fields the receiver acts upon, straight from the
// struct (not via the encoder under test).
func c03lCanon(m lnwire.Message) string {
	switch v := m.(type) {
	case *lnwire.UpdateAddHTLC:
		bp := "-"
		v.BlindingPoint.WhenSomeV(func(k *btcec.PublicKey) {
			if k != nil {
				bp = c03lH(k.SerializeCompressed())
			}
		})
		return fmt.Sprintf("add:%s:%d:%d:%s:%d:%s:%s:%d", c03lH(v.ChanID[:]), v.ID,
			uint64(v.Amount), c03lH(v.PaymentHash[:]), v.Expiry, c03lH(v.OnionBlob[:]),
			bp, len(v.CustomRecords))
	case *lnwire.UpdateFulfillHTLC:
		return fmt.Sprintf("settle:%s:%d:%s:%d", c03lH(v.ChanID[:]), v.ID,
			c03lH(v.PaymentPreimage[:]), len(v.CustomRecords))
	case *lnwire.UpdateFailHTLC:
		return fmt.Sprintf("fail:%s:%d:%d:%s", c03lH(v.ChanID[:]), v.ID, len(v.Reason),
			c03lH(v.Reason))
	case *lnwire.UpdateFailMalformedHTLC:
		return fmt.Sprintf("malformed:%s:%d:%s:%d", c03lH(v.ChanID[:]), v.ID,
			c03lH(v.ShaOnionBlob[:]), uint16(v.FailureCode))
	case *lnwire.UpdateFee:
		return fmt.Sprintf("fee:%s:%d", c03lH(v.ChanID[:]), v.FeePerKw)
	case *lnwire.CommitSig:
		var hs [][]byte
		for i := range v.HtlcSigs {
			hs = append(hs, v.HtlcSigs[i].RawBytes())
		}
		ps := "-"
		v.PartialSig.WhenSomeV(func(p lnwire.PartialSigWithNonce) {
			sb := p.Sig.Bytes()
			ps = c03lH(sb[:], p.Nonce[:])
		})
		return fmt.Sprintf("sig:%s:%s:%d:%s:%s:%d", c03lH(v.ChanID[:]),
			c03lH(v.CommitSig.RawBytes()), len(v.HtlcSigs), c03lH(hs...), ps,
			len(v.CustomRecords))
	case *lnwire.RevokeAndAck:
		nk := "nil"
		if v.NextRevocationKey != nil {
			nk = c03lH(v.NextRevocationKey.SerializeCompressed())
		}
		return fmt.Sprintf("rev:%s:%s:%s:%s:%s", c03lH(v.ChanID[:]), c03lH(v.Revocation[:]),
			nk, c03lNonceTok(v.LocalNonce), c03lNoncesTok(v.LocalNonces))
	case *lnwire.ChannelReady:
		nk := "nil"
		if v.NextPerCommitmentPoint != nil {
			nk = c03lH(v.NextPerCommitmentPoint.SerializeCompressed())
		}
		return fmt.Sprintf("ready:%s:%s", c03lH(v.ChanID[:]), nk)
	case *lnwire.ChannelReestablish:
		pt := "nil"
		if v.LocalUnrevokedCommitPoint != nil {
			pt = c03lH(v.LocalUnrevokedCommitPoint.SerializeCompressed())
		}
		return fmt.Sprintf("reest:%s:%d:%d:%s:%s:%s:%s", c03lH(v.ChanID[:]),
			v.NextLocalCommitHeight, v.RemoteCommitTailHeight,
			c03lH(v.LastRemoteCommitSecret[:]), pt, c03lNonceTok(v.LocalNonce),
			c03lNoncesTok(v.LocalNonces))
	}
	return "opaque:" + c03lKind(m)
}

func c03lSecretIndex(prod shachain.Producer, secret [32]byte, limit uint64) string {
	var zero [32]byte
	if secret == zero {
		return "none"
	}
	for i := uint64(0); i <= limit; i++ {
		s, err := prod.AtIndex(i)
		if err != nil {
			break
		}
		if bytes.Equal(s[:], secret[:]) {
			return strconv.FormatUint(i, 10)
		}
	}
	return "bad"
}

func c03lPointIndex(prod shachain.Producer, pt *btcec.PublicKey, limit uint64) string {
	if pt == nil {
		return "absent"
	}
	for i := uint64(0); i <= limit; i++ {
		s, err := prod.AtIndex(i)
		if err != nil {
			break
		}
		if input.ComputeCommitmentPoint(s[:]).IsEqual(pt) {
			return strconv.FormatUint(i, 10)
		}
	}
	return "bad"
}

// ---------------------------------------------------------------------------
// why a link failed: LinkFailureError carries only a code; the reason is in
// the link's error log ("failing link: <reason> with error: <code>")
// ---------------------------------------------------------------------------

type c03lLogSink struct {
	mu      sync.Mutex
	reasons map[string]string // channel point -> last failure reason
}

var c03lSink = &c03lLogSink{reasons: map[string]string{}}

func (s *c03lLogSink) Write(p []byte) (int, error) {
	line := string(p)
	if i := strings.Index(line, "failing link: "); i >= 0 {
		cp := ""
		if a := strings.Index(line, "ChannelLink("); a >= 0 {
			if b := strings.Index(line[a:], ")"); b > 0 {
				cp = line[a+len("ChannelLink(") : a+b]
			}
		}
		reason := line[i+len("failing link: "):]
		if j := strings.Index(reason, " with error:"); j >= 0 {
			reason = reason[:j]
		}
		s.mu.Lock()
		s.reasons[cp] = reason
		s.mu.Unlock()
	}
	return len(p), nil
}

func (s *c03lLogSink) reason(cp string) string {
	s.mu.Lock()
	defer s.mu.Unlock()
	return s.reasons[cp]
}

// ---------------------------------------------------------------------------
// one case
// ---------------------------------------------------------------------------

type c03lHtlc struct {
	id    uint64
	amt   lnwire.MilliSatoshi
	known bool
}

type c03lRun struct {
	t   *testing.T
	r   *rand.Rand
	buf bytes.Buffer
	w   *bufio.Writer

	stats map[string]int

	sw       *Switch
	link     *channelLink
	peer     *mockPeer
	tick     chan time.Time
	registry *mockInvoiceRegistry
	pcache   *mockPreimageCache

	aliceRestore func() (*lnwallet.LightningChannel, error)
	bobRestore   func() (*lnwallet.LightningChannel, error)
	bob          *lnwallet.LightningChannel
	chanID       lnwire.ChannelID
	prodA, prodB shachain.Producer

	bobOut    []lnwire.Message // sent by Bob, on the wire
	aIn       []lnwire.Message // sent by Alice, pulled off her peer object, not yet processed by Bob
	bobSynced bool             // Bob has processed Alice's channel_reestablish of this connection
	crashed   bool             // Bob died holding an unrevoked commitment (only right before a flap)

	stopping *int32 // set while the harness is stopping the current link

	mu         sync.Mutex
	forgePoint *btcec.PublicKey // commit point of the forged channel_reestablish under test
	fails  []string // link failures reported through OnChannelFailure, not yet emitted
	epoch  int
	nextID int
	dead   bool
	htlcs  []c03lHtlc
}

func (r *c03lRun) emit(format string, a ...interface{}) {
	fmt.Fprintf(r.w, format, a...)
}

func c03lClean(s string) string {
	var sb strings.Builder
	n := 0
	for _, c := range s {
		switch {
		case c >= 'a' && c <= 'z', c >= 'A' && c <= 'Z':
			sb.WriteRune(c)
			n++
		case c == ' ' || c == ':' || c == '_':
			if n > 0 {
				sb.WriteRune('_')
			}
		}
		if sb.Len() > 110 {
			break
		}
	}
	return strings.Trim(sb.String(), "_")
}

func c03lErr(err error) string {
	if err == nil {
		return "ok"
	}
	var ics *lnwallet.InvalidCommitSigError
	var ihs *lnwallet.InvalidHtlcSigError
	var ldl *lnwallet.ErrCommitSyncLocalDataLoss
	switch {
	case errors.As(err, &ics):
		return "invalidCommitSig"
	case errors.As(err, &ihs):
		return "invalidHtlcSig"
	case errors.Is(err, lnwallet.ErrInvalidLastCommitSecret):
		return "invalidSecret"
	case errors.Is(err, lnwallet.ErrInvalidLocalUnrevokedCommitPoint):
		return "invalidCommitPoint"
	case errors.Is(err, lnwallet.ErrCommitSyncRemoteDataLoss):
		return "remoteDataLoss"
	case errors.Is(err, lnwallet.ErrCannotSyncCommitChains):
		return "cannotSync"
	case errors.As(err, &ldl):
		return "localDataLoss"
	case errors.Is(err, lnwallet.ErrNoWindow):
		return "noWindow"
	case errors.Is(err, lnwallet.ErrBelowChanReserve):
		return "belowReserve"
	case errors.Is(err, lnwallet.ErrMaxHTLCNumber):
		return "maxHtlcs"
	}
	return "err:" + c03lClean(err.Error())
}

// flushFails emits the link failures reported so far.
func (r *c03lRun) flushFails() {
	r.mu.Lock()
	fs := r.fails
	r.fails = nil
	r.mu.Unlock()
	for _, f := range fs {
		r.emit("LF %s\n", f)
		if strings.Contains(f, "stopping=1") && (strings.Contains(f, "shutting_down") ||
			strings.Contains(f, "quit_signal") || strings.Contains(f, "context_canceled")) {
			// the link noticed that it is being stopped while it was
			// signing / syncing: not a failure of the channel
			r.stats["link_stop_noticed"]++
			continue
		}
		r.stats["link_failed"]++
		r.dead = true
	}
}

// newLink attaches a new link for `ch` to the (surviving) switch.
func (r *c03lRun) newLink(ch *lnwallet.LightningChannel) error {
	var (
		decoder    = newMockIteratorDecoder()
		obfuscator = NewMockObfuscator()
		peer       = &mockPeer{
			sentMsgs: make(chan lnwire.Message, 4000),
			quit:     make(chan struct{}),
		}
		policy = models.ForwardingPolicy{
			MinHTLCOut:    lnwire.NewMSatFromSatoshis(5),
			BaseFee:       lnwire.NewMSatFromSatoshis(1),
			TimeLockDelta: 6,
		}
	)
	notifyUpdateChan := make(chan *contractcourt.ContractUpdate)
	doneChan := make(chan struct{})
	notifyContractUpdate := func(u *contractcourt.ContractUpdate) error {
		select {
		case notifyUpdateChan <- u:
		case <-doneChan:
		}
		return nil
	}
	epoch := r.epoch
	stopping := new(int32)
	r.stopping = stopping
	bticker := ticker.NewForce(time.Hour)
	sw := r.sw
	cfg := ChannelLinkConfig{
		FwrdingPolicy:      policy,
		Peer:               peer,
		BestHeight:         sw.BestHeight,
		Circuits:           sw.CircuitModifier(),
		ForwardPackets: func(linkQuit <-chan struct{}, _ bool, packets ...*htlcPacket) error {
			return sw.ForwardPackets(linkQuit, packets...)
		},
		DecodeHopIterators: decoder.DecodeHopIterators,
		ExtractErrorEncrypter: func(*btcec.PublicKey) (hop.ErrorEncrypter, lnwire.FailCode) {
			return obfuscator, lnwire.CodeNone
		},
		FetchLastChannelUpdate: mockGetChanUpdateMessage,
		PreimageCache:          r.pcache,
		OnChannelFailure: func(_ lnwire.ChannelID, _ lnwire.ShortChannelID, e LinkFailureError) {
			why := c03lSink.reason(ch.ChannelPoint().String())
			// this callback is where lnd's peer tells the remote side (error
			// message) and the chain arbitrator: what is DURABLE at this very
			// moment is what survives if the node dies right after the reply
			marks := r.durableMarks()
			r.mu.Lock()
			r.fails = append(r.fails, fmt.Sprintf("epoch=%d stopping=%d code=%d action=%d %s err=%s why=%s",
				epoch, atomic.LoadInt32(stopping), int(e.code), int(e.FailureAction), marks,
				c03lClean(e.Error()), c03lClean(why)))
			r.mu.Unlock()
		},
		UpdateContractSignals: func(*contractcourt.ContractSignals) error { return nil },
		NotifyContractUpdate:  notifyContractUpdate,
		Registry:              r.registry,
		FeeEstimator:          newMockFeeEstimator(),
		ChainEvents:           &contractcourt.ChainEventSubscription{},
		BatchTicker:           bticker,
		FwdPkgGCTicker:        ticker.NewForce(15 * time.Second),
		PendingCommitTicker:   ticker.New(time.Minute),
		BatchSize:             10000,
		MinUpdateTimeout:      30 * time.Minute,
		MaxUpdateTimeout:      40 * time.Minute,
		MaxOutgoingCltvExpiry: DefaultMaxOutgoingCltvExpiry,
		MaxFeeAllocation:      DefaultMaxLinkFeeAllocation,
		NotifyActiveLink:        func(wire.OutPoint) {},
		NotifyActiveChannel:     func(wire.OutPoint) {},
		NotifyInactiveChannel:   func(wire.OutPoint) {},
		NotifyInactiveLinkEvent: func(wire.OutPoint) {},
		NotifyChannelUpdate:     func(*cstate.OpenChannel) {},
		HtlcNotifier:            sw.cfg.HtlcNotifier,
		SyncStates:              true,
		GetAliases: func(lnwire.ShortChannelID) []lnwire.ShortChannelID {
			return nil
		},
		ShouldFwdExpAccountability: func() bool { return true },
	}
	l := NewChannelLink(cfg, ch)
	if err := sw.AddLink(l); err != nil {
		return err
	}
	core := l.(*channelLink)
	go func() {
		for {
			select {
			case <-notifyUpdateChan:
			case <-core.cg.Done():
				close(doneChan)
				return
			}
		}
	}()
	r.t.Cleanup(func() {
		close(peer.quit)
		l.Stop()
	})
	r.link, r.peer, r.tick = core, peer, bticker.Force
	return nil
}

// durableMarks reads Alice's channel status from her database (not from the
// link's in-memory state): ChanStatusBorked, ChanStatusLocalDataLoss and
// whether the stored data-loss commit point is the one of the forged
// channel_reestablish (lcp).
func (r *c03lRun) durableMarks() string {
	ch, err := r.aliceRestore()
	if err != nil {
		return "borked=? dl=? lcp=?"
	}
	st := ch.State()
	b, d, lcp := 0, 0, "-"
	if st.HasChanStatus(cstate.ChanStatusBorked) {
		b = 1
	}
	if st.HasChanStatus(cstate.ChanStatusLocalDataLoss) {
		d = 1
		lcp = "bad"
		r.mu.Lock()
		want := r.forgePoint
		r.mu.Unlock()
		if pt, err := st.DataLossCommitPoint(); err == nil && pt != nil && want != nil &&
			pt.IsEqual(want) {

			lcp = "ok"
		}
	}
	return fmt.Sprintf("borked=%d dl=%d lcp=%s", b, d, lcp)
}

// ---------------------------------------------------------------------------
// what the link does with a channel_reestablish that is not the honest one
// (the peer lost state / we lost state / inconsistent fields):
//
//   LV kind=<forgery> nl=.. rt=.. sec=.. pt=.. nonce=.. nonces=.. dyn=..
//      => <proceed|failed|timeout> code=<sync|recovery|n> action=<forceclose|none|n>
//         borked=<0|1> dl=<0|1> lcp=<ok|bad|-> sent=<kinds|-> ready=<0|1> stopping=<0|1> why=<..>
//
// borked / dl / lcp are read from Alice's DATABASE inside OnChannelFailure,
// i.e. before anybody is told about the failure; sent = what her link sent
// after its own channel_reestablish.
// ---------------------------------------------------------------------------

func (r *c03lRun) forgeFinal() {
	if r.dead {
		return
	}
	r.flap()
	if r.dead || len(r.bobOut) != 1 {
		r.stats[fmt.Sprintf("forge_skipped_dead%v_out%d", r.dead, len(r.bobOut))]++
		return
	}
	hm, ok := r.bobOut[0].(*lnwire.ChannelReestablish)
	r.bobOut = nil
	if !ok {
		return
	}
	m := *hm
	dn, dt, sec, pt := 0, 0, "match", "match"
	delta := func() int { return []int{-2, -1, -1, 1, 1, 2}[r.r.Intn(6)] }
	switch x := r.r.Intn(12); {
	case x < 1:
	case x < 5:
		dt = delta()
	case x < 8:
		dn = delta()
	case x < 9:
		sec = []string{"rand", "zero"}[r.r.Intn(2)]
		dt = []int{0, 1}[r.r.Intn(2)]
	case x < 10:
		pt = []string{"rand", "absent"}[r.r.Intn(2)]
		dt = []int{0, 1, -1}[r.r.Intn(3)]
	default:
		dt, dn = []int{-2, -1, 0, 1, 2}[r.r.Intn(5)], []int{-2, -1, 0, 1, 2}[r.r.Intn(5)]
		sec = []string{"match", "match", "rand", "zero"}[r.r.Intn(4)]
		pt = []string{"match", "match", "rand", "absent"}[r.r.Intn(4)]
	}
	nl := int64(hm.NextLocalCommitHeight) + int64(dn)
	tl := int64(hm.RemoteCommitTailHeight) + int64(dt)
	if nl < 0 {
		nl = 0
	}
	if tl < 0 {
		tl = 0
	}
	m.NextLocalCommitHeight, m.RemoteCommitTailHeight = uint64(nl), uint64(tl)
	switch sec {
	case "match":
		m.LastRemoteCommitSecret = [32]byte{}
		if tl > 0 {
			sc, err := r.prodA.AtIndex(uint64(tl - 1))
			if err != nil {
				return
			}
			copy(m.LastRemoteCommitSecret[:], sc[:])
		}
	case "rand":
		r.r.Read(m.LastRemoteCommitSecret[:])
	case "zero":
		m.LastRemoteCommitSecret = [32]byte{}
	}
	switch pt {
	case "match":
		if nl > 0 {
			sc, err := r.prodB.AtIndex(uint64(nl - 1))
			if err != nil {
				return
			}
			m.LocalUnrevokedCommitPoint = input.ComputeCommitmentPoint(sc[:])
		}
	case "rand":
		var b [32]byte
		r.r.Read(b[:])
		b[0] &= 0x7f
		b[31] |= 1
		_, pub := btcec.PrivKeyFromBytes(b[:])
		m.LocalUnrevokedCommitPoint = pub
	case "absent":
		m.LocalUnrevokedCommitPoint = nil
	}
	kind := fmt.Sprintf("n%+d,t%+d,s:%s,p:%s", dn, dt, sec, pt)
	if dn == 0 && dt == 0 && sec == "match" && pt == "match" {
		kind = "honest"
	}
	got, res := c03lWireRT(&m)
	dec, isRe := got.(*lnwire.ChannelReestablish)
	if res != "ok" || !isRe {
		return
	}
	r.mu.Lock()
	r.forgePoint = dec.LocalUnrevokedCommitPoint
	r.mu.Unlock()
	fields := r.reestFields("B", dec)
	link := r.link
	link.HandleChannelUpdate(dec)
	// the link's answer: a failure (OnChannelFailure) or a completed
	// resynchronisation (markReestablished: every retransmission has been sent)
	verdict, fail := "timeout", ""
	deadline := time.Now().Add(30 * time.Second)
	for time.Now().Before(deadline) {
		// only a failure of THIS link counts (a late report of the link
		// stopped before stays in the list and is emitted as usual)
		cur := fmt.Sprintf("epoch=%d ", r.epoch)
		r.mu.Lock()
		for i, f := range r.fails {
			if strings.HasPrefix(f, cur) {
				fail = f
				r.fails = append(append([]string{}, r.fails[:i]...), r.fails[i+1:]...)
				break
			}
		}
		r.mu.Unlock()
		if fail != "" {
			verdict = "failed"
			break
		}
		if atomic.LoadInt32(&link.reestablished) == 1 {
			verdict = "proceed"
			break
		}
		time.Sleep(200 * time.Microsecond)
	}
	// what she sent on this connection after her own channel_reestablish
	var sent []string
	ready, seenReest := 0, false
	for done := false; !done; {
		select {
		case am := <-r.peer.sentMsgs:
			k := c03lKind(am)
			switch {
			case k == "reest":
				seenReest = true
			case k == "channel_ready":
				ready = 1
			case seenReest:
				sent = append(sent, k)
			}
		default:
			done = true
		}
	}
	list := "-"
	if len(sent) > 0 {
		list = strings.Join(sent, ",")
	}
	kv := func(f, k string) string {
		for _, w := range strings.Fields(f) {
			if strings.HasPrefix(w, k+"=") {
				return w[len(k)+1:]
			}
		}
		return "-"
	}
	code, action := "-", "-"
	if fail != "" {
		switch kv(fail, "code") {
		case strconv.Itoa(int(ErrSyncError)):
			code = "sync"
		case strconv.Itoa(int(ErrRecoveryError)):
			code = "recovery"
		default:
			code = kv(fail, "code")
		}
		switch kv(fail, "action") {
		case strconv.Itoa(int(LinkFailureForceClose)):
			action = "forceclose"
		case strconv.Itoa(int(LinkFailureForceNone)):
			action = "none"
		default:
			action = kv(fail, "action")
		}
	}
	marks := r.durableMarks()
	if fail != "" {
		marks = fmt.Sprintf("borked=%s dl=%s lcp=%s", kv(fail, "borked"), kv(fail, "dl"), kv(fail, "lcp"))
	}
	r.emit("LV kind=%s %s => %s code=%s action=%s %s sent=%s ready=%d stopping=%s why=%s\n", kind, fields,
		verdict, code, action, marks, list, ready, kv(fail, "stopping"), kv(fail, "why"))
	r.stats["forged_reestablish"]++
	r.stats["forged_"+verdict]++
	r.mu.Lock()
	r.forgePoint = nil
	r.mu.Unlock()
}

// skeleton fields of a channel state as it is on disk.
func c03lDisk(st *cstate.OpenChannel) string {
	st.RLock()
	lc, rc := st.LocalCommitment, st.RemoteCommitment
	lwr := st.LastWasRevoke
	st.RUnlock()
	rp := "-"
	if d, err := st.RemoteCommitChainTip(); err == nil && d != nil {
		rp = fmt.Sprintf("%d:%d:%d", d.Commitment.CommitHeight, d.Commitment.LocalLogIndex,
			d.Commitment.RemoteLogIndex)
	}
	b := 0
	if lwr {
		b = 1
	}
	return fmt.Sprintf("lt=%d lto=%d ltt=%d rt=%d rto=%d rtt=%d rp=%s lwr=%d", lc.CommitHeight,
		lc.LocalLogIndex, lc.RemoteLogIndex, rc.CommitHeight, rc.LocalLogIndex,
		rc.RemoteLogIndex, rp, b)
}

func (r *c03lRun) reestFields(node string, m *lnwire.ChannelReestablish) string {
	// the secret is an element of the RECEIVER's producer, the point of the sender's
	own, other := r.prodA, r.prodB
	if node == "B" {
		own, other = r.prodB, r.prodA
	}
	limit := m.NextLocalCommitHeight + m.RemoteCommitTailHeight + 6
	dyn := "-"
	m.DynHeight.WhenSome(func(h lnwire.DynHeight) { dyn = strconv.FormatUint(uint64(h), 10) })
	return fmt.Sprintf("nl=%d rt=%d sec=%s pt=%s nonce=%s nonces=%s dyn=%s",
		m.NextLocalCommitHeight, m.RemoteCommitTailHeight,
		c03lSecretIndex(other, m.LastRemoteCommitSecret, limit),
		c03lPointIndex(own, m.LocalUnrevokedCommitPoint, limit),
		c03lNonceTok(m.LocalNonce), c03lNoncesTok(m.LocalNonces), dyn)
}

// overWire sends m through the wire; emits the W line (and Y / YW for a
// channel_reestablish).
func (r *c03lRun) overWire(dir string, m lnwire.Message) (lnwire.Message, bool) {
	sent := c03lCanon(m)
	from := string(dir[0])
	if re, ok := m.(*lnwire.ChannelReestablish); ok {
		r.emit("Y %s dlp=1 %s\n", from, r.reestFields(from, re))
	}
	got, res := c03lWireRT(m)
	tok := res
	if res == "ok" {
		tok = c03lCanon(got)
	}
	r.emit("W %s %s %s => %s\n", dir, c03lKind(m), sent, tok)
	r.stats["wire_"+c03lKind(m)]++
	if res != "ok" {
		r.stats["wire_failed"]++
		r.dead = true
		return nil, false
	}
	if re, ok := got.(*lnwire.ChannelReestablish); ok {
		r.emit("YW %s %s\n", from, r.reestFields(from, re))
	}
	return got, true
}

// toAlice takes the k oldest messages Bob sent off the wire and puts them into
// the mailbox of Alice's (possibly already stopped) link.
func (r *c03lRun) toAlice(k int, late bool) int {
	n := 0
	for n < k && len(r.bobOut) > 0 && !r.dead {
		m := r.bobOut[0]
		r.bobOut = r.bobOut[1:]
		got, ok := r.overWire("BA", m)
		if !ok {
			return n
		}
		l := 0
		if late {
			l = 1
		}
		r.emit("TA %s late=%d\n", c03lKind(m), l)
		r.link.HandleChannelUpdate(got)
		n++
	}
	return n
}

// pull moves what Alice's link has sent so far onto the wire towards Bob.
func (r *c03lRun) pull() int {
	n := 0
	for {
		select {
		case m := <-r.peer.sentMsgs:
			got, ok := r.overWire("AB", m)
			if !ok {
				return n
			}
			extra := ""
			switch v := got.(type) {
			case *lnwire.UpdateFulfillHTLC:
				extra = fmt.Sprintf(" id=%d", v.ID)
			case *lnwire.UpdateFailHTLC:
				extra = fmt.Sprintf(" id=%d", v.ID)
			case *lnwire.UpdateFailMalformedHTLC:
				extra = fmt.Sprintf(" id=%d", v.ID)
			case *lnwire.CommitSig:
				extra = fmt.Sprintf(" nhtlc=%d", len(v.HtlcSigs))
			case *lnwire.Error:
				extra = " data=" + c03lClean(string(v.Data))
			}
			r.emit("FA %s%s\n", c03lKind(got), extra)
			r.stats["alice_sent_"+c03lKind(got)]++
			r.aIn = append(r.aIn, got)
			n++
		default:
			return n
		}
	}
}

func (r *c03lRun) bobSend(m lnwire.Message) { r.bobOut = append(r.bobOut, m) }

// view prints which of Bob's HTLCs are on his lowest unrevoked commitment and
// on Alice's lowest unrevoked commitment (on both = irrevocably committed).
func (r *c03lRun) view() {
	st := r.bob.State()
	st.RLock()
	lc, rc := st.LocalCommitment, st.RemoteCommitment
	st.RUnlock()
	ids := func(c *channeldb.ChannelCommitment) string {
		var l []string
		for _, h := range c.Htlcs {
			if !h.Incoming {
				l = append(l, strconv.FormatUint(h.HtlcIndex, 10))
			}
		}
		sort.Strings(l)
		return c03lJoin(l)
	}
	r.emit("V B lh=%d rh=%d l=%s r=%s\n", lc.CommitHeight, rc.CommitHeight, ids(&lc), ids(&rc))
}

func (r *c03lRun) bobRevoke() {
	rev, _, _, err := r.bob.RevokeCurrentCommitment()
	r.emit("B revoke => %s\n", c03lErr(err))
	if err != nil {
		r.dead = true
		return
	}
	r.view()
	r.bobSend(rev)
}

func (r *c03lRun) bobSign() bool {
	st, err := r.bob.SignNextCommitment(context.Background())
	n := 0
	if err == nil {
		n = len(st.HtlcSigs)
	}
	r.emit("B sign => %s nhtlc=%d\n", c03lErr(err), n)
	r.stats["bob_sign_"+strings.SplitN(c03lErr(err), ":", 2)[0]]++
	if err != nil {
		return false
	}
	r.bobSend(&lnwire.CommitSig{ChanID: r.chanID, CommitSig: st.CommitSig,
		HtlcSigs: st.HtlcSigs, PartialSig: st.PartialSig})
	return true
}

func (r *c03lRun) bobCanSign() bool {
	if !r.bobSynced || r.crashed || !r.bob.OweCommitment() {
		return false
	}
	_, err := r.bob.State().RemoteCommitChainTip()
	return errors.Is(err, cstate.ErrNoPendingCommit)
}

// bobAdd: Bob offers an HTLC for which Alice is the exit hop.
func (r *c03lRun) bobAdd() {
	known := r.r.Intn(4) != 0
	var amt lnwire.MilliSatoshi
	switch r.r.Intn(6) {
	case 0:
		amt = lnwire.NewMSatFromSatoshis(btcutil.Amount(100 + r.r.Intn(90))) // dust on both
	case 1:
		amt = lnwire.NewMSatFromSatoshis(btcutil.Amount(300 + r.r.Intn(400))) // dust on Bob's commitment only
	default:
		amt = lnwire.NewMSatFromSatoshis(btcutil.Amount(2000 + r.r.Intn(60000)))
	}
	expiry := uint32(testStartingHeight + testInvoiceCltvExpiry)
	blob, err := generateRoute(hop.NewLegacyPayload(&sphinx.HopData{
		Realm:         [1]byte{},
		NextAddress:   [8]byte{},
		ForwardAmount: uint64(amt),
		OutgoingCltv:  expiry,
	}))
	if err != nil {
		r.emit("B add => err:route\n")
		r.dead = true
		return
	}
	r.nextID++
	var pre lntypes.Preimage
	copy(pre[:], fmt.Sprintf("c03-link-%d-%d-%d", r.r.Int63(), r.nextID, r.epoch))
	pre[31] = byte(r.nextID)
	rhash := sha256.Sum256(pre[:])
	var payAddr [32]byte
	copy(payAddr[:], rhash[:])
	payAddr[0] ^= 0x55
	invoice, htlc, _, err := generatePaymentWithPreimage(amt, amt, expiry, blob, &pre, rhash, payAddr)
	if err != nil {
		r.emit("B add => err:payment\n")
		r.dead = true
		return
	}
	if known {
		if err := r.registry.AddInvoice(context.Background(), *invoice, htlc.PaymentHash); err != nil {
			r.emit("B add => err:invoice_%s\n", c03lClean(err.Error()))
			r.dead = true
			return
		}
	}
	htlc.ChanID = r.chanID
	idx, err := r.bob.AddHTLC(htlc, nil)
	inv := "unknown"
	if known {
		inv = "known"
	}
	r.emit("B add id=%d amt=%d inv=%s => %s\n", idx, uint64(amt), inv, c03lErr(err))
	r.stats["bob_add_"+strings.SplitN(c03lErr(err), ":", 2)[0]]++
	if err != nil {
		return
	}
	htlc.ID = idx
	r.htlcs = append(r.htlcs, c03lHtlc{id: idx, amt: amt, known: known})
	r.bobSend(htlc)
}

// bobProcess handles the oldest message from Alice the way an honest link does.
// crash: if it is a commitment_signed, die before revoking (only used for the
// last message before a flap).
func (r *c03lRun) bobProcess(crash bool) {
	if len(r.aIn) == 0 || r.dead {
		return
	}
	m := r.aIn[0]
	r.aIn = r.aIn[1:]
	kind := c03lKind(m)
	if !r.bobSynced && kind != "reest" {
		// an honest peer sends channel_reestablish first
		r.emit("BP %s => err:before_reestablish\n", kind)
		r.stats["bob_recv_unsynced"]++
		r.dead = true
		return
	}
	var err error
	extra := ""
	switch v := m.(type) {
	case *lnwire.ChannelReestablish:
		if r.bobSynced {
			r.emit("BP reest => err:unexpected\n")
			r.dead = true
			return
		}
		out, _, _, perr := r.bob.ProcessChanSyncMsg(context.Background(), v)
		var kinds []string
		for _, o := range out {
			kinds = append(kinds, c03lKind(o))
		}
		list := "-"
		if len(kinds) > 0 {
			list = strings.Join(kinds, ",")
		}
		r.emit("P B => %s msgs=%s\n", c03lErr(perr), list)
		r.stats["bob_sync_"+strings.SplitN(c03lErr(perr), ":", 2)[0]]++
		r.stats["bob_retransmits"] += len(out)
		if perr != nil {
			r.dead = true
			return
		}
		r.bobSynced = true
		for _, o := range out {
			r.bobSend(o)
		}
		return
	case *lnwire.ChannelReady:
		r.emit("BP channel_ready => ok\n")
		return
	case *lnwire.UpdateFulfillHTLC:
		extra = fmt.Sprintf(" id=%d", v.ID)
		err = r.bob.ReceiveHTLCSettle(v.PaymentPreimage, v.ID)
	case *lnwire.UpdateFailHTLC:
		extra = fmt.Sprintf(" id=%d", v.ID)
		err = r.bob.ReceiveFailHTLC(v.ID, v.Reason)
	case *lnwire.UpdateFailMalformedHTLC:
		extra = fmt.Sprintf(" id=%d", v.ID)
		err = r.bob.ReceiveFailHTLC(v.ID, []byte{1})
	case *lnwire.UpdateFee:
		err = r.bob.ReceiveUpdateFee(chainfee.SatPerKWeight(v.FeePerKw))
	case *lnwire.CommitSig:
		err = r.bob.ReceiveNewCommitment(&lnwallet.CommitSigs{CommitSig: v.CommitSig,
			HtlcSigs: v.HtlcSigs, PartialSig: v.PartialSig})
		if err == nil && crash {
			r.emit("BP commitsig => ok crash=1\n")
			r.stats["bob_crash_before_revoke"]++
			r.crashed = true
			return
		}
	case *lnwire.RevokeAndAck:
		_, _, err = r.bob.ReceiveRevocation(v)
	default:
		// error / warning / anything else: the peer gives up on the channel
		r.emit("BP %s => err:peer_sent_%s\n", kind, kind)
		r.dead = true
		return
	}
	r.emit("BP %s%s => %s\n", kind, extra, c03lErr(err))
	r.stats["bob_recv_"+kind]++
	if err != nil {
		r.stats["bob_rejected"]++
		r.dead = true
		return
	}
	if kind == "commitsig" {
		r.bobRevoke()
	}
	if kind == "revoke" {
		r.view()
	}
}

func (r *c03lRun) forceTick() {
	select {
	case r.tick <- time.Now():
		r.emit("T\n")
	case <-time.After(300 * time.Millisecond):
		r.emit("T timeout\n")
	}
}

func (r *c03lRun) mailboxLen() int {
	mb, ok := r.link.mailBox.(*memoryMailBox)
	if !ok {
		return -1
	}
	mb.wireCond.L.Lock()
	defer mb.wireCond.L.Unlock()
	return mb.wireMessages.Len()
}

// settle gives Alice's goroutines a moment; bounded, never decides a verdict.
func (r *c03lRun) breathe() {
	d := time.Duration(r.r.Intn(4)) * time.Millisecond
	if r.r.Intn(3) == 0 {
		d = 0
	}
	time.Sleep(d)
}

type c03lCommit struct {
	h        uint64
	lb, rb   uint64
	htlcs    []string
	lli, rli uint64
}

func c03lCommitOf(c *channeldb.ChannelCommitment) c03lCommit {
	out := c03lCommit{h: c.CommitHeight, lb: uint64(c.LocalBalance), rb: uint64(c.RemoteBalance),
		lli: c.LocalLogIndex, rli: c.RemoteLogIndex}
	for _, h := range c.Htlcs {
		d := "o"
		if h.Incoming {
			d = "i"
		}
		out.htlcs = append(out.htlcs, fmt.Sprintf("%s:%d:%d", d, h.HtlcIndex, uint64(h.Amt)))
	}
	sort.Strings(out.htlcs)
	return out
}

func c03lSnap(st *cstate.OpenChannel) (l, rm c03lCommit, pending bool) {
	st.RLock()
	lc, rc := st.LocalCommitment, st.RemoteCommitment
	st.RUnlock()
	_, err := st.RemoteCommitChainTip()
	return c03lCommitOf(&lc), c03lCommitOf(&rc), !errors.Is(err, cstate.ErrNoPendingCommit)
}

func c03lJoin(l []string) string {
	if len(l) == 0 {
		return "-"
	}
	return strings.Join(l, ",")
}

type c03lSnapshot struct {
	l, r [2]c03lCommit // local / remote commitment of A, B
	pend [2]bool
}

// take reads both channel states (each one atomically).
func (r *c03lRun) take() c03lSnapshot {
	var sn c03lSnapshot
	for i, st := range []*cstate.OpenChannel{r.link.channel.State(), r.bob.State()} {
		sn.l[i], sn.r[i], sn.pend[i] = c03lSnap(st)
	}
	return sn
}

func (r *c03lRun) snapshot(tag string, sn c03lSnapshot) {
	for i := 0; i < 2; i++ {
		p := 0
		if sn.pend[i] {
			p = 1
		}
		r.emit(tag+" %s lh=%d rh=%d pend=%d ll=%d lr=%d rl=%d rr=%d lhtlcs=%s rhtlcs=%s\n",
			string(rune('A'+i)), sn.l[i].h, sn.r[i].h, p, sn.l[i].lb, sn.l[i].rb, sn.r[i].lb,
			sn.r[i].rb, c03lJoin(sn.l[i].htlcs), c03lJoin(sn.r[i].htlcs))
	}
}

// quiet: nothing in flight, nobody owes anything, both chains agree.  The
// snapshot returned is the (atomic) read of Alice's state the verdict is based
// on: the monitor's mirror check is evaluated on exactly that state.
func (r *c03lRun) quiet() (bool, c03lSnapshot) {
	var none c03lSnapshot
	if len(r.bobOut) != 0 || len(r.aIn) != 0 || len(r.peer.sentMsgs) != 0 || !r.bobSynced ||
		!r.link.isReestablished() {

		return false, none
	}
	if r.mailboxLen() != 0 || r.bob.OweCommitment() || r.link.channel.OweCommitment() {
		return false, none
	}
	sn := r.take()
	if sn.pend[0] || sn.pend[1] {
		return false, none
	}
	if len(r.peer.sentMsgs) != 0 {
		return false, none
	}
	return sn.l[0].h == sn.r[1].h && sn.r[0].h == sn.l[1].h, sn
}

// drain runs the resumed exchange to the end: everything is delivered, Bob
// answers like a link, both sign while they owe a commitment.
func (r *c03lRun) drain() {
	deadline := time.Now().Add(40 * time.Second)
	iters, calm := 0, 0
	for !r.dead {
		iters++
		r.flushFails()
		if r.dead {
			break
		}
		r.pull()
		for len(r.aIn) > 0 && !r.dead {
			r.bobProcess(false)
		}
		if r.dead {
			break
		}
		if r.bobCanSign() {
			r.bobSign()
		}
		r.toAlice(len(r.bobOut), false)
		if ok, sn := r.quiet(); ok {
			calm++
			if calm >= 3 {
				r.emit("Q => ok\n")
				r.stats["quiescent"]++
				r.snapshot("S", sn)
				return
			}
			time.Sleep(3 * time.Millisecond)
			continue
		}
		calm = 0
		if r.bobSynced && len(r.peer.sentMsgs) == 0 && r.mailboxLen() == 0 &&
			r.link.channel.OweCommitment() && iters%4 == 0 {

			r.forceTick()
		}
		if time.Now().After(deadline) {
			r.flushFails()
			if !r.dead {
				r.emit("Q => timeout bobOut=%d aIn=%d mailbox=%d bobOwes=%v aliceOwes=%v\n",
					len(r.bobOut), len(r.aIn), r.mailboxLen(), r.bob.OweCommitment(),
					r.link.channel.OweCommitment())
				r.stats["quiesce_timeout"]++
				r.snapshot("SX", r.take()) // diagnostic only
				r.dead = true
			}
			return
		}
		time.Sleep(time.Millisecond)
	}
	r.flushFails()
}

// flap: the connection drops and comes back inside one process.
func (r *c03lRun) flap() {
	if r.dead {
		return
	}
	r.stats["flaps"]++
	if !r.bobSynced {
		r.stats["flaps_during_resync"]++
	}
	r.pull()
	// (a) a burst reaches Alice's mailbox right before her link stops
	burst := 0
	if len(r.bobOut) > 0 && r.r.Intn(2) == 0 {
		burst = r.toAlice(1+r.r.Intn(len(r.bobOut)), false)
		if r.r.Intn(2) == 0 {
			time.Sleep(time.Duration(r.r.Intn(1500)) * time.Microsecond)
		}
	}
	// (b) the link goes away; switch and mailbox stay
	old := r.link
	atomic.StoreInt32(r.stopping, 1)
	done := make(chan struct{})
	go func() {
		r.sw.RemoveLink(old.ChanID())
		close(done)
	}()
	select {
	case <-done:
	case <-time.After(30 * time.Second):
		r.emit("F => err:stop_timeout\n")
		r.dead = true
		return
	}
	unread := r.mailboxLen()
	// (c) messages the peer object reads off the dying connection after the
	// link's htlcManager is gone
	late := 0
	if len(r.bobOut) > 0 && r.r.Intn(2) == 0 {
		late = r.toAlice(1+r.r.Intn(len(r.bobOut)), true)
	}
	lost := len(r.bobOut)
	for _, m := range r.bobOut {
		r.emit("BX %s\n", c03lKind(m))
	}
	r.bobOut = nil
	// (d) what Alice had sent: Bob still handles a prefix, the rest is lost
	r.pull()
	total := len(r.aIn)
	k := 0
	switch r.r.Intn(4) {
	case 0:
	case 1:
		k = total
	default:
		k = r.r.Intn(total + 1)
	}
	for i := 0; i < k && len(r.aIn) > 0 && !r.dead; i++ {
		crash := i == k-1 && r.r.Intn(2) == 0
		r.bobProcess(crash)
	}
	for _, m := range r.aIn {
		r.emit("BX %s\n", c03lKind(m))
	}
	r.aIn = nil
	// whatever Bob produced while handling that prefix never leaves
	for _, m := range r.bobOut {
		r.emit("BX %s\n", c03lKind(m))
	}
	r.bobOut = nil
	r.emit("F n=%d burst=%d unread=%d late=%d lostBA=%d procAB=%d/%d\n", r.stats["flaps"], burst,
		unread, late, lost, k, total)
	if unread > 0 || late > 0 {
		r.stats["flaps_with_unread_mail"]++
	}
	if r.dead {
		return
	}
	r.flushFails()
	if r.dead {
		return
	}
	r.epoch++
	// (e) both reload from disk
	bob, err := r.bobRestore()
	if err != nil {
		r.emit("R B => err:%s\n", c03lClean(err.Error()))
		r.dead = true
		return
	}
	r.bob, r.bobSynced, r.crashed = bob, false, false
	alice, err := r.aliceRestore()
	if err != nil {
		r.emit("R A => err:%s\n", c03lClean(err.Error()))
		r.dead = true
		return
	}
	r.emit("R A => ok %s\n", c03lDisk(alice.State()))
	r.emit("R B => ok %s\n", c03lDisk(bob.State()))
	// (f) a new link on the same switch / mailbox; it sends its
	// channel_reestablish and waits for Bob's
	if err := r.newLink(alice); err != nil {
		r.emit("L => err:%s\n", c03lClean(err.Error()))
		r.dead = true
		return
	}
	// (g) Bob sends his
	msg, err := bob.State().ChanSyncMsg()
	if err != nil {
		r.emit("Y B => %s\n", c03lErr(err))
		r.dead = true
		return
	}
	r.bobSend(msg)
}

// start brings up the first link (fresh channel, also with a
// channel_reestablish exchange).
func (r *c03lRun) start(alice *lnwallet.LightningChannel) bool {
	r.emit("R A => ok %s\n", c03lDisk(alice.State()))
	r.emit("R B => ok %s\n", c03lDisk(r.bob.State()))
	if err := r.newLink(alice); err != nil {
		r.emit("L => err:%s\n", c03lClean(err.Error()))
		return false
	}
	msg, err := r.bob.State().ChanSyncMsg()
	if err != nil {
		r.emit("Y B => %s\n", c03lErr(err))
		return false
	}
	r.bobSend(msg)
	return true
}

// handshake lets the reconnection get through: both reestablish messages are
// delivered and processed.
func (r *c03lRun) handshake() {
	deadline := time.Now().Add(5 * time.Second)
	r.toAlice(len(r.bobOut), false)
	for !r.dead && !r.bobSynced && time.Now().Before(deadline) {
		r.pull()
		for len(r.aIn) > 0 && !r.bobSynced && !r.dead {
			r.bobProcess(false)
		}
		r.flushFails()
		if !r.bobSynced {
			time.Sleep(200 * time.Microsecond)
		}
	}
}

func (r *c03lRun) step() {
	switch x := r.r.Intn(100); {
	case x < 22:
		if r.bobSynced && !r.crashed && len(r.htlcs) < 40 {
			r.bobAdd()
		}
	case x < 36:
		if r.bobCanSign() {
			r.bobSign()
		}
	case x < 58:
		if len(r.bobOut) > 0 {
			r.toAlice(1+r.r.Intn(len(r.bobOut)), false)
		}
	case x < 66:
		r.pull()
	case x < 86:
		r.pull()
		if n := len(r.aIn); n > 0 {
			k := 1 + r.r.Intn(n)
			for i := 0; i < k && !r.dead; i++ {
				r.bobProcess(false)
			}
		}
	case x < 92:
		if r.bobSynced {
			r.forceTick()
		}
	default:
		r.breathe()
	}
	r.breathe()
	r.flushFails()
}

func c03lRunCase(t *testing.T, id int, seed int64, steps, flapEvery int) (*bytes.Buffer, map[string]int) {
	r := &c03lRun{t: t, r: rand.New(rand.NewSource(seed)), stats: map[string]int{}}
	r.w = bufio.NewWriterSize(&r.buf, 1<<16)
	const chanAmt = btcutil.SatoshiPerBitcoin * 5
	const chanReserve = btcutil.SatoshiPerBitcoin / 100

	var cid [8]byte
	r.r.Read(cid[:])
	scid := lnwire.NewShortChanIDFromInt(uint64(id)<<32 | uint64(r.r.Uint32()))
	aliceLc, bobLc, err := createTestChannel(t, alicePrivKey, bobPrivKey, chanAmt, chanAmt,
		chanReserve, chanReserve, scid)
	if err != nil {
		t.Errorf("createTestChannel: %v", err)
		return &r.buf, r.stats
	}
	aliceDb := testChannelStateDB(t, aliceLc.channel).GetParentDB()
	r.sw, err = initSwitchWithDB(testStartingHeight, aliceDb)
	if err != nil {
		t.Errorf("switch: %v", err)
		return &r.buf, r.stats
	}
	r.registry = newMockRegistry(t)
	r.pcache = newMockPreimageCache()
	r.aliceRestore, r.bobRestore = aliceLc.restore, bobLc.restore
	r.bob = bobLc.channel
	r.chanID = lnwire.NewChanIDFromOutPoint(aliceLc.channel.State().FundingOutpoint)
	r.prodA = aliceLc.channel.State().RevocationProducer
	r.prodB = bobLc.channel.State().RevocationProducer

	r.emit("CASE %d kind=link seed=%d cap=%d steps=%d\n", id, seed, int64(2*chanAmt), steps)
	if r.start(aliceLc.channel) {
		for i := 0; i < steps && !r.dead; i++ {
			if flapEvery > 0 && r.r.Intn(flapEvery) == 0 {
				r.flap()
				if r.r.Intn(5) < 3 {
					r.handshake()
				}
				// a further drop while the resynchronisation is under way
				for r.r.Intn(3) == 0 && !r.dead {
					for j := r.r.Intn(4); j > 0 && !r.dead; j-- {
						r.step()
					}
					r.flap()
				}
				continue
			}
			r.step()
			if r.r.Intn(25) == 0 {
				r.drain()
			}
		}
		r.drain()
		if !r.dead && r.r.Intn(2) == 0 {
			// a reconnection of the quiescent channel
			r.flap()
			r.drain()
		}
		// the last connection of the case: the peer's channel_reestablish
		// is stale / ahead / inconsistent
		r.forgeFinal()
	}
	r.flushFails()
	r.emit("END\n")
	r.w.Flush()
	r.stats["cases"]++
	if r.dead {
		r.stats["dead_cases"]++
	}
	return &r.buf, r.stats
}

func TestVerifC03(t *testing.T) {
	out := os.Getenv("VERIF_OUT")
	if out == "" {
		t.Skip("VERIF_OUT not set")
	}
	seed, _ := strconv.ParseInt(os.Getenv("VERIF_SEED"), 10, 64)
	tier := os.Getenv("VERIF_TIER")
	f, err := os.Create(out)
	if err != nil {
		t.Fatal(err)
	}
	defer f.Close()
	w := bufio.NewWriterSize(f, 1<<20)
	defer w.Flush()

	h := btclogv2.NewDefaultHandler(c03lSink, btclogv2.WithNoTimestamp())
	h.SetLevel(btclog.LevelError)
	UseLogger(btclogv2.NewSLogger(h))

	cases, steps := 160, 90
	if tier == "thorough" {
		cases, steps = 1200, 160
	}
	if v, err := strconv.Atoi(os.Getenv("VERIF_C03_LINK_CASES")); err == nil && v >= 0 {
		cases = v
	}
	var (
		mu    sync.Mutex
		stats = map[string]int{}
	)
	t.Run("cases", func(t *testing.T) {
		for i := 0; i < cases; i++ {
			id := i + 1
			t.Run(fmt.Sprintf("link_%d", id), func(t *testing.T) {
				t.Parallel()
				buf, st := c03lRunCase(t, id, seed*7_000_003+int64(id)*101, 20+steps/2+(id%3)*steps/4,
					7+id%12)
				mu.Lock()
				defer mu.Unlock()
				w.Write(buf.Bytes())
				for k, v := range st {
					stats[k] += v
				}
			})
		}
	})
	keys := make([]string, 0, len(stats))
	for k := range stats {
		keys = append(keys, k)
	}
	sort.Strings(keys)
	for _, k := range keys {
		fmt.Fprintf(w, "HSTAT %s=%d\n", k, stats[k])
	}
}
