//go:build verif && race

package htlcswitch

// c08Race: the harness is running under the race detector (slower; waits are scaled).
const c08Race = true
