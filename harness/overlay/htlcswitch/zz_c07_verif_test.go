//go:build verif

package htlcswitch

// C07 correspondence/monitor harness. Injected with `go test -overlay`; drives
// the REAL circuitMap (NewCircuitMap over a real bbolt kvdb backend, restarted
// on the same file), Switch.closeCircuit / Switch.teardownCircuit and
// OpenChannel.NextLocalHtlcIndex, and prints one line per operation plus a full
// snapshot of memory and of both disk buckets for the Lean driver (drv_c07).

import (
	"bufio"
	"bytes"
	"errors"
	"fmt"
	"math/rand"
	"os"
	"path/filepath"
	"sort"
	"strconv"
	"strings"
	"sync"
	"testing"
	"time"

	"github.com/lightningnetwork/lnd/chanstate"
	"github.com/lightningnetwork/lnd/clock"
	"github.com/lightningnetwork/lnd/htlcswitch/hop"
	"github.com/lightningnetwork/lnd/kvdb"
	"github.com/lightningnetwork/lnd/lnwire"
)

const (
	c07Chans = 3 // channel ids 0 (= hop.Source), 1, 2
	c07Ids   = 4 // htlc ids 0..3
)

var errC07Injected = errors.New("c07 injected write failure")
var errC07Read = errors.New("c07 injected read failure")

// c07DB wraps the real backend; while armed every read-write transaction runs
// its closure and is then rolled back with an error (a failed commit).
type c07DB struct {
	kvdb.Backend
	armed  bool
	writes int
}

func (d *c07DB) Update(f func(tx kvdb.RwTx) error, reset func()) error {
	d.writes++
	if !d.armed {
		return d.Backend.Update(f, reset)
	}
	return d.Backend.Update(func(tx kvdb.RwTx) error {
		if err := f(tx); err != nil {
			return err
		}
		return errC07Injected
	}, reset)
}

// c07Store answers only RemoteCommitChainTip (used by NextLocalHtlcIndex).
// reads/failAt: fault injection, the failAt-th read (1-based, counted over all
// stores sharing the counter) returns a storage error.
type c07Store struct {
	chanstate.Store
	pendingIdx int64 // -1: no pending commit
	reads      *int
	failAt     int
}

func (s *c07Store) RemoteCommitChainTip(*chanstate.OpenChannel) (*chanstate.CommitDiff, error) {
	if s.reads != nil {
		*s.reads++
		if *s.reads == s.failAt {
			return nil, errC07Read
		}
	}
	if s.pendingIdx < 0 {
		return nil, chanstate.ErrNoPendingCommit
	}
	return &chanstate.CommitDiff{
		Commitment: chanstate.ChannelCommitment{LocalHtlcIndex: uint64(s.pendingIdx)},
	}, nil
}

type c07Closed struct {
	ch      int
	pending bool
}
type c07Active struct {
	ch         int
	pending    bool
	remoteIdx  uint64
	pendingIdx int64
	// channel kind as the OpenChannel reports it: 0 regular, 1
	// option-scid-alias, 2 zero-conf unconfirmed, 3 zero-conf confirmed
	// (ShortChanID() = alias = ch, ZeroConfRealScid() = real). Links and
	// keystones always use ShortChanID().
	kind int
	real int
}

// c07OpenChan builds the OpenChannel the switch / circuit map gets from the
// channel DB for an active channel of the environment.
func c07OpenChan(a c07Active, st chanstate.Store) *chanstate.OpenChannel {
	ct := chanstate.SingleFunderTweaklessBit
	switch a.kind {
	case 1:
		ct |= chanstate.AnchorOutputsBit | chanstate.ScidAliasChanBit | chanstate.ScidAliasFeatureBit
	case 2, 3:
		ct |= chanstate.AnchorOutputsBit | chanstate.ZeroConfBit | chanstate.ScidAliasChanBit |
			chanstate.ScidAliasFeatureBit
	}
	oc := &chanstate.OpenChannel{
		ChanType:       ct,
		ShortChannelID: lnwire.NewShortChanIDFromInt(uint64(a.ch)),
		IsPending:      a.pending,
		Db:             st,
		RemoteCommitment: chanstate.ChannelCommitment{
			LocalHtlcIndex: a.remoteIdx,
		},
	}
	if a.kind == 3 {
		oc.SetConfirmedScidForStore(lnwire.NewShortChanIDFromInt(uint64(a.real)))
	}
	return oc
}

func c07ActiveStr(x c07Active) string {
	p := "-"
	if x.pendingIdx >= 0 {
		p = strconv.FormatInt(x.pendingIdx, 10)
	}
	return fmt.Sprintf("%d:%d:%d:%s:%d:%d", x.ch, c07b(x.pending), x.remoteIdx, p, x.kind, x.real)
}

// c07Kind draws a channel kind; the real scid of a confirmed zero-conf channel
// is mostly an id no keystone uses, sometimes the id of another channel of the
// universe.
func (c *c07) c07Kind(a *c07Active, nchans int) {
	switch r := c.rng.Intn(100); {
	case r < 35:
		a.kind = 0
	case r < 50:
		a.kind = 1
	case r < 65:
		a.kind = 2
	default:
		a.kind = 3
		a.real = 100 + a.ch
		if c.p(30) {
			a.real = 1 + (a.ch+c.rng.Intn(nchans-1))%nchans
			if a.real == a.ch {
				a.real = 100 + a.ch
			}
		}
	}
}
type c07Env struct {
	closed []c07Closed
	active []c07Active
	res    map[CircuitKey]bool
	fail   int // k > 0: the k-th RemoteCommitChainTip read of this start fails
}

type c07 struct {
	t      *testing.T
	w      *bufio.Writer
	rng    *rand.Rand
	dir    string
	n      int
	file   string
	inner  kvdb.Backend
	db     *c07DB
	rawDB  bool // concurrency stream: no wrapper, real Batch
	cm     *circuitMap
	sw     *Switch
	env    c07Env
	nlines int
	univ   []CircuitKey // key universe of the snapshots (default: c07Universe)

	// mailbox stream
	mo      *mailOrchestrator
	uids    map[*htlcPacket]int
	nextUID int
	up      map[int]bool
	inbox   map[int][]*htlcPacket // received by the "link", not yet acked
}

func (c *c07) pf(format string, a ...interface{}) {
	fmt.Fprintf(c.w, format+"\n", a...)
	c.nlines++
}

func c07Key(ch, id int) CircuitKey {
	return CircuitKey{ChanID: lnwire.NewShortChanIDFromInt(uint64(ch)), HtlcID: uint64(id)}
}

func c07ks(k CircuitKey) string {
	return strconv.FormatUint(k.ChanID.ToUint64(), 10) + "." + strconv.FormatUint(k.HtlcID, 10)
}

func c07Less(a, b CircuitKey) bool {
	if a.ChanID.ToUint64() != b.ChanID.ToUint64() {
		return a.ChanID.ToUint64() < b.ChanID.ToUint64()
	}
	return a.HtlcID < b.HtlcID
}

func c07SortKeys(l []CircuitKey) {
	sort.Slice(l, func(i, j int) bool { return c07Less(l[i], l[j]) })
}

func c07Join(l []string) string {
	if len(l) == 0 {
		return "-"
	}
	return strings.Join(l, ",")
}

func c07KeyList(l []CircuitKey) string {
	s := make([]string, len(l))
	for i, k := range l {
		s[i] = c07ks(k)
	}
	return c07Join(s)
}

func c07Universe() []CircuitKey {
	var u []CircuitKey
	for ch := 0; ch < c07Chans; ch++ {
		for id := 0; id < c07Ids; id++ {
			u = append(u, c07Key(ch, id))
		}
	}
	return u
}

func c07Err(err error) string {
	switch {
	case err == nil:
		return "ok"
	case errors.Is(err, errC07Injected):
		return "wferr"
	case errors.Is(err, errC07Read):
		return "rderr"
	case errors.Is(err, ErrDuplicateKeystone):
		return "dupks"
	case errors.Is(err, ErrUnknownCircuit):
		return "unknown"
	case errors.Is(err, ErrCircuitClosing):
		return "closing"
	case errors.Is(err, ErrCorruptedCircuitMap):
		return "corrupt"
	default:
		return "err"
	}
}

// ---------------------------------------------------------------- lifecycle

func (c *c07) config() *CircuitMapConfig {
	var backend kvdb.Backend = c.db
	if c.rawDB {
		backend = c.inner
	}
	return &CircuitMapConfig{
		DB: backend,
		FetchAllOpenChannels: func() ([]*chanstate.OpenChannel, error) {
			var res []*chanstate.OpenChannel
			reads := new(int)
			for _, a := range c.env.active {
				res = append(res, c07OpenChan(a,
					&c07Store{pendingIdx: a.pendingIdx, reads: reads, failAt: c.env.fail}))
			}
			return res, nil
		},
		FetchClosedChannels: func(pendingOnly bool) ([]*chanstate.ChannelCloseSummary, error) {
			var res []*chanstate.ChannelCloseSummary
			for _, cl := range c.env.closed {
				if pendingOnly && !cl.pending {
					continue
				}
				res = append(res, &chanstate.ChannelCloseSummary{
					ShortChanID: lnwire.NewShortChanIDFromInt(uint64(cl.ch)),
					IsPending:   cl.pending,
				})
			}
			return res, nil
		},
		CheckResolutionMsg: func(outKey *CircuitKey) error {
			if c.env.res[*outKey] {
				return nil
			}
			return errors.New("not found")
		},
	}
}

func (c *c07) openDB() {
	db, err := kvdb.GetBoltBackend(&kvdb.BoltBackendConfig{
		DBPath:         c.dir,
		DBFileName:     c.file,
		NoFreelistSync: true,
		DBTimeout:      kvdb.DefaultDBTimeout,
	})
	if err != nil {
		c.t.Fatalf("open db: %v", err)
	}
	c.inner = db
	c.db = &c07DB{Backend: db}
}

func (c *c07) newMap() string {
	res := "ok"
	func() {
		defer func() {
			if r := recover(); r != nil {
				res = "panic"
			}
		}()
		m, err := NewCircuitMap(c.config())
		if err != nil {
			res = c07Err(err)
			return
		}
		c.cm = m.(*circuitMap)
		c.sw = &Switch{circuits: c.cm}
	}()
	return res
}

func (c *c07) startCase(kind string, raw bool) {
	c.n++
	c.file = fmt.Sprintf("c07_%d.db", c.n)
	c.rawDB = raw
	c.env = c07Env{res: map[CircuitKey]bool{}}
	c.openDB()
	c.pf("CASE %d kind=%s", c.n, kind)
	if r := c.newMap(); r != "ok" {
		c.t.Fatalf("initial NewCircuitMap: %s", r)
	}
}

func (c *c07) endCase() {
	c.pf("END")
	c.inner.Close()
	os.Remove(filepath.Join(c.dir, c.file))
}

// ---------------------------------------------------------------- snapshot

func c07Circ(pc *PaymentCircuit) string {
	out := "-"
	if pc.Outgoing != nil {
		out = c07ks(*pc.Outgoing)
	}
	l := "0"
	if pc.LoadedFromDisk {
		l = "1"
	}
	return c07ks(pc.Incoming) + "/" + out + "/" + l
}

// dumpDisk lists both disk buckets, read through the real (unwrapped) backend.
func (c *c07) dumpDisk() (a, k []string) {
	err := kvdb.View(c.inner, func(tx kvdb.RTx) error {
		ab := tx.ReadBucket(circuitAddKey)
		kb := tx.ReadBucket(circuitKeystoneKey)
		if ab == nil || kb == nil {
			return ErrCorruptedCircuitMap
		}
		if err := ab.ForEach(func(kk, v []byte) error {
			var key CircuitKey
			if err := key.SetBytes(kk); err != nil {
				return err
			}
			pc := &PaymentCircuit{}
			if err := pc.Decode(bytes.NewReader(v)); err != nil {
				return err
			}
			if pc.Incoming != key {
				a = append(a, c07ks(key)+"!"+c07ks(pc.Incoming))
			} else {
				a = append(a, c07ks(key))
			}
			return nil
		}); err != nil {
			return err
		}
		return kb.ForEach(func(kk, v []byte) error {
			var ok, ik CircuitKey
			if err := ok.SetBytes(kk); err != nil {
				return err
			}
			if err := ik.SetBytes(v); err != nil {
				return err
			}
			k = append(k, c07ks(ok)+">"+c07ks(ik))
			return nil
		})
	}, func() { a, k = nil, nil })
	if err != nil {
		a, k = []string{"dumperr"}, []string{"dumperr"}
	}
	return a, k
}

func (c *c07) snap() {
	u := c.univ
	if u == nil {
		u = c07Universe()
	}
	var p, o, cl, a, k []string
	for _, key := range u {
		if pc := c.cm.LookupCircuit(key); pc != nil {
			p = append(p, c07ks(key)+"/"+c07Circ(pc))
		}
	}
	for _, key := range u {
		if pc := c.cm.LookupOpenCircuit(key); pc != nil {
			same := "0"
			if c.cm.LookupCircuit(pc.Incoming) == pc {
				same = "1"
			}
			o = append(o, c07ks(key)+"/"+c07Circ(pc)+"/"+same)
		}
	}
	c.cm.mtx.RLock()
	var ckeys []CircuitKey
	for key := range c.cm.closed {
		ckeys = append(ckeys, key)
	}
	rawP, rawO := len(c.cm.pending), len(c.cm.opened)
	c.cm.mtx.RUnlock()
	c07SortKeys(ckeys)
	for _, key := range ckeys {
		cl = append(cl, c07ks(key))
	}
	a, k = c.dumpDisk()
	c.pf("snap np=%d no=%d rp=%d ro=%d P=%s O=%s C=%s A=%s K=%s",
		c.cm.NumPending(), c.cm.NumOpen(), rawP, rawO,
		c07Join(p), c07Join(o), c07Join(cl), c07Join(a), c07Join(k))
}

// ---------------------------------------------------------------- operations

func c07b(b bool) int {
	if b {
		return 1
	}
	return 0
}

func (c *c07) arm(wf bool) {
	if !c.rawDB {
		c.db.armed = wf
	}
}

func c07Circuits(l []*PaymentCircuit) string {
	kk := make([]CircuitKey, len(l))
	for i, pc := range l {
		kk[i] = pc.Incoming
	}
	return c07KeyList(kk)
}

func (c *c07) opCommit(batch []CircuitKey, wf bool) {
	circuits := make([]*PaymentCircuit, len(batch))
	for i, k := range batch {
		circuits[i] = &PaymentCircuit{
			Incoming:       k,
			PaymentHash:    [32]byte{byte(k.ChanID.ToUint64()), byte(k.HtlcID), byte(c.rng.Intn(3))},
			IncomingAmount: lnwire.MilliSatoshi(1000 + c.rng.Intn(10)),
			OutgoingAmount: lnwire.MilliSatoshi(900),
		}
	}
	res := ""
	func() {
		defer func() {
			if r := recover(); r != nil {
				res = "panic"
			}
		}()
		c.arm(wf)
		acts, err := c.cm.CommitCircuits(circuits...)
		c.arm(false)
		// pointer discipline: every returned circuit must be one of ours
		own := "1"
		for _, l := range [][]*PaymentCircuit{acts.Adds, acts.Drops, acts.Fails} {
			for _, pc := range l {
				found := false
				for _, mine := range circuits {
					if mine == pc {
						found = true
					}
				}
				if !found {
					own = "0"
				}
			}
		}
		res = fmt.Sprintf("adds=%s drops=%s fails=%s err=%s own=%s",
			c07Circuits(acts.Adds), c07Circuits(acts.Drops), c07Circuits(acts.Fails), c07Err(err), own)
	}()
	c.arm(false)
	c.pf("commit %s wf=%d => %s", c07KeyList(batch), c07b(wf), res)
	c.snap()
}

func (c *c07) opOpen(kst []Keystone, wf bool) {
	res := ""
	func() {
		defer func() {
			if r := recover(); r != nil {
				res = "panic"
			}
		}()
		c.arm(wf)
		res = c07Err(c.cm.OpenCircuits(kst...))
	}()
	c.arm(false)
	s := make([]string, len(kst))
	for i, k := range kst {
		s[i] = c07ks(k.InKey) + ">" + c07ks(k.OutKey)
	}
	c.pf("open %s wf=%d => %s", c07Join(s), c07b(wf), res)
	c.snap()
}

func (c *c07) opTrim(ch int, start uint64, wf bool) {
	res := ""
	func() {
		defer func() {
			if r := recover(); r != nil {
				res = "panic"
			}
		}()
		c.arm(wf)
		res = c07Err(c.cm.TrimOpenCircuits(lnwire.NewShortChanIDFromInt(uint64(ch)), start))
	}()
	c.arm(false)
	c.pf("trim %d %d wf=%d => %s", ch, start, c07b(wf), res)
	c.snap()
}

func c07CloseRes(pc *PaymentCircuit, err error) string {
	if err != nil {
		return c07Err(err)
	}
	if pc == nil {
		return "nil"
	}
	return "ok:" + c07ks(pc.Incoming)
}

func (c *c07) opClose(o CircuitKey) {
	res := ""
	func() {
		defer func() {
			if r := recover(); r != nil {
				res = "panic"
			}
		}()
		res = c07CloseRes(c.cm.CloseCircuit(o))
	}()
	c.pf("close %s => %s", c07ks(o), res)
	c.snap()
}

func (c *c07) opFail(k CircuitKey) {
	res := ""
	func() {
		defer func() {
			if r := recover(); r != nil {
				res = "panic"
			}
		}()
		res = c07CloseRes(c.cm.FailCircuit(k))
	}()
	c.pf("fail %s => %s", c07ks(k), res)
	c.snap()
}

// opSwClose drives Switch.closeCircuit with a response packet.
func (c *c07) opSwClose(hasSource bool, k, o CircuitKey, settle bool) {
	var msg lnwire.Message = &lnwire.UpdateFailHTLC{}
	if settle {
		msg = &lnwire.UpdateFulfillHTLC{}
	}
	pkt := &htlcPacket{
		hasSource:      hasSource,
		incomingChanID: k.ChanID,
		incomingHTLCID: k.HtlcID,
		outgoingChanID: o.ChanID,
		outgoingHTLCID: o.HtlcID,
		htlc:           msg,
	}
	res := ""
	func() {
		defer func() {
			if r := recover(); r != nil {
				res = "panic"
			}
		}()
		pc, err := c.sw.closeCircuit(pkt)
		res = c07CloseRes(pc, err)
		if err == nil && pc != nil && !hasSource {
			// the packet must now carry the incoming key of the circuit
			if pkt.inKey() != pc.Incoming || pkt.circuit != pc {
				res += "!pkt"
			}
		}
	}()
	c.pf("swclose src=%d %s %s settle=%d => %s", c07b(hasSource), c07ks(k), c07ks(o), c07b(settle), res)
	c.snap()
}

func (c *c07) opDelete(keys []CircuitKey, wf bool) {
	res := ""
	func() {
		defer func() {
			if r := recover(); r != nil {
				res = "panic"
			}
		}()
		c.arm(wf)
		res = c07Err(c.cm.DeleteCircuits(keys...))
	}()
	c.arm(false)
	c.pf("delete %s wf=%d => %s", c07KeyList(keys), c07b(wf), res)
	c.snap()
}

// opSwTear drives Switch.teardownCircuit. typ: 0 settle, 1 fail, 2 add (invalid).
func (c *c07) opSwTear(k CircuitKey, typ int, withCircuit bool, wf bool) {
	var msg lnwire.Message
	switch typ {
	case 0:
		msg = &lnwire.UpdateFulfillHTLC{}
	case 1:
		msg = &lnwire.UpdateFailHTLC{}
	default:
		msg = &lnwire.UpdateAddHTLC{}
	}
	pkt := &htlcPacket{incomingChanID: k.ChanID, incomingHTLCID: k.HtlcID, htlc: msg}
	if withCircuit {
		pkt.circuit = &PaymentCircuit{Incoming: k}
	}
	res := ""
	func() {
		defer func() {
			if r := recover(); r != nil {
				res = "panic"
			}
		}()
		c.arm(wf)
		err := c.sw.teardownCircuit(pkt)
		switch {
		case err == nil:
			res = "ok"
		case errors.Is(err, errC07Injected):
			res = "wferr"
		default:
			res = "badtype"
		}
	}()
	c.arm(false)
	c.pf("swtear %s typ=%d circ=%d wf=%d => %s", c07ks(k), typ, c07b(withCircuit), c07b(wf), res)
	c.snap()
}

func (c *c07) opRestart(env c07Env) {
	c.env = env
	var cl, ac []string
	for _, x := range env.closed {
		cl = append(cl, fmt.Sprintf("%d:%d", x.ch, c07b(x.pending)))
	}
	for _, x := range env.active {
		ac = append(ac, c07ActiveStr(x))
	}
	var rk []CircuitKey
	for k, v := range env.res {
		if v {
			rk = append(rk, k)
		}
	}
	c07SortKeys(rk)
	// the volatile state is dropped: close the file, reopen it, build a new map
	c.cm, c.sw = nil, nil
	c.inner.Close()
	c.openDB()
	res := c.newMap()
	fl := "-"
	if env.fail > 0 {
		fl = strconv.Itoa(env.fail)
	}
	c.pf("restart closed=%s active=%s res=%s fail=%s => %s", c07Join(cl), c07Join(ac), c07KeyList(rk), fl, res)
	if res == "rderr" && env.fail > 0 {
		// the start was aborted by the injected read failure: dump what it
		// left on disk, then start again without the fault
		a, k := c.dumpDisk()
		c.pf("dsnap A=%s K=%s", c07Join(a), c07Join(k))
		c.nextIdxLines(env, true)
		env.fail = 0
		c.opRestart(env)
		return
	}
	if res != "ok" {
		c.t.Fatalf("restart failed: %s", res)
	}
	c.nextIdxLines(env, env.fail > 0 || c.p(15))
	c.snap()
}

// nextIdxLines checks the link side of NextLocalHtlcIndex on its own, also
// with a failing read of the pending remote commitment.
func (c *c07) nextIdxLines(env c07Env, withFault bool) {
	for _, x := range env.active {
		for _, fault := range []bool{false, true} {
			if fault && !withFault {
				continue
			}
			st := &c07Store{pendingIdx: x.pendingIdx}
			if fault {
				st.reads, st.failAt = new(int), 1
			}
			oc := &chanstate.OpenChannel{
				Db:               st,
				RemoteCommitment: chanstate.ChannelCommitment{LocalHtlcIndex: x.remoteIdx},
			}
			r := ""
			func() {
				defer func() {
					if rec := recover(); rec != nil {
						r = "panic"
					}
				}()
				n, err := oc.NextLocalHtlcIndex()
				r = strconv.FormatUint(n, 10)
				if err != nil {
					r = "err"
				}
			}()
			p := "-"
			if x.pendingIdx >= 0 {
				p = strconv.FormatInt(x.pendingIdx, 10)
			}
			c.pf("nextidx %d %s fail=%d => %s", x.remoteIdx, p, c07b(fault), r)
		}
	}
}

// ---------------------------------------------------------------- generator

func (c *c07) pendingKeys() (all, unopened, withKs []CircuitKey) {
	for k, pc := range c.cm.pending {
		all = append(all, k)
		if pc.Outgoing == nil {
			unopened = append(unopened, k)
		} else {
			withKs = append(withKs, k)
		}
	}
	c07SortKeys(all)
	c07SortKeys(unopened)
	c07SortKeys(withKs)
	return
}

func (c *c07) openedKeys() []CircuitKey {
	var l []CircuitKey
	for k := range c.cm.opened {
		l = append(l, k)
	}
	c07SortKeys(l)
	return l
}

func (c *c07) closedKeys() []CircuitKey {
	var l []CircuitKey
	for k := range c.cm.closed {
		l = append(l, k)
	}
	c07SortKeys(l)
	return l
}

func (c *c07) randKey() CircuitKey {
	return c07Key(c.rng.Intn(c07Chans), c.rng.Intn(c07Ids))
}

func (c *c07) pickKey(l []CircuitKey) CircuitKey {
	if len(l) == 0 {
		return c.randKey()
	}
	return l[c.rng.Intn(len(l))]
}

func (c *c07) p(pct int) bool { return c.rng.Intn(100) < pct }

// openedIdsOn returns the sorted htlc ids of opened out keys on channel ch.
func (c *c07) openedIdsOn(ch int) []int {
	var ids []int
	for k := range c.cm.opened {
		if int(k.ChanID.ToUint64()) == ch {
			ids = append(ids, int(k.HtlcID))
		}
	}
	sort.Ints(ids)
	return ids
}

// boundaryIdx picks a trim bound around the opened ids of a channel.
func (c *c07) boundaryIdx(ch int) uint64 {
	ids := c.openedIdsOn(ch)
	cands := []int{0, 1, c07Ids - 1, c07Ids, c07Ids + 1, c.rng.Intn(c07Ids + 1)}
	if len(ids) > 0 {
		lo, hi := ids[0], ids[len(ids)-1]
		cands = append(cands, lo, hi, hi+1, lo+1, hi, hi+1, lo)
		if lo > 0 {
			cands = append(cands, lo-1)
		}
		if hi > 0 {
			cands = append(cands, hi-1)
		}
	}
	return uint64(cands[c.rng.Intn(len(cands))])
}

// nextOutKey models the outgoing link: htlc ids on a channel are allocated
// sequentially after the highest id in use (wrapping inside the small universe).
func (c *c07) nextOutKey(taken map[CircuitKey]bool, disciplined bool) CircuitKey {
	ch := 1 + c.rng.Intn(c07Chans-1)
	if !disciplined && c.p(12) {
		ch = 0
	}
	ids := c.openedIdsOn(ch)
	start := 0
	if len(ids) > 0 {
		start = ids[len(ids)-1] + 1
	}
	for d := 0; d < c07Ids; d++ {
		k := c07Key(ch, (start+d)%c07Ids)
		if taken[k] {
			continue
		}
		if _, ok := c.cm.opened[k]; ok {
			continue
		}
		return k
	}
	return c07Key(ch, start%c07Ids)
}

func (c *c07) genCommit(chaos int) {
	all, _, _ := c.pendingKeys()
	in := map[CircuitKey]bool{}
	for _, k := range all {
		in[k] = true
	}
	var free []CircuitKey
	for _, k := range c07Universe() {
		if !in[k] {
			free = append(free, k)
		}
	}
	n := 1 + c.rng.Intn(4)
	var batch []CircuitKey
	for i := 0; i < n; i++ {
		switch r := c.rng.Intn(100); {
		case r < 55:
			batch = append(batch, c.pickKey(free))
		case r < 85:
			batch = append(batch, c.pickKey(all))
		default:
			batch = append(batch, c.randKey())
		}
	}
	if c.p(25) {
		batch = append(batch, batch[c.rng.Intn(len(batch))])
	}
	if c.p(4) {
		batch = nil
	}
	c.opCommit(batch, c.p(chaos))
}

func (c *c07) genOpen(chaos int, disciplined bool) {
	all, unopened, withKs := c.pendingKeys()
	n := 1 + c.rng.Intn(3)
	var kst []Keystone
	usedIn := map[CircuitKey]bool{}
	usedOut := map[CircuitKey]bool{}
	for i := 0; i < n; i++ {
		var in, out CircuitKey
		switch r := c.rng.Intn(100); {
		case disciplined || r < 72:
			var cand []CircuitKey
			for _, k := range unopened {
				if !usedIn[k] {
					cand = append(cand, k)
				}
			}
			if len(cand) == 0 {
				continue
			}
			in = cand[c.rng.Intn(len(cand))]
		case r < 82:
			in = c.pickKey(withKs)
		case r < 90:
			in = c.pickKey(all)
		default:
			in = c.randKey()
		}
		switch r := c.rng.Intn(100); {
		case disciplined || r < 75:
			out = c.nextOutKey(usedOut, disciplined)
		case r < 88:
			out = c.randKey()
		default:
			out = c.pickKey(c.openedKeys())
		}
		// two keystones with the same out key in one batch make the Go
		// rollback order-dependent (map iteration); never generated.
		if usedOut[out] {
			continue
		}
		if disciplined {
			if _, ok := c.cm.opened[out]; ok {
				continue
			}
		}
		usedIn[in] = true
		usedOut[out] = true
		kst = append(kst, Keystone{InKey: in, OutKey: out})
	}
	if len(kst) == 0 && !c.p(10) {
		return
	}
	wf := c.p(chaos)
	c.opOpen(kst, wf)
}

func (c *c07) genTrim(chaos int, disciplined bool) {
	ch := c.rng.Intn(c07Chans)
	if disciplined {
		ch = 1 + c.rng.Intn(c07Chans-1)
	}
	wf := !disciplined && c.p(chaos)
	c.opTrim(ch, c.boundaryIdx(ch), wf)
}

func (c *c07) genClose() {
	o := c.randKey()
	if c.p(75) {
		o = c.pickKey(c.openedKeys())
	}
	if c.p(50) {
		c.opClose(o)
	} else {
		c.opSwClose(false, c.randKey(), o, c.p(50))
	}
}

func (c *c07) genFail() {
	all, _, _ := c.pendingKeys()
	k := c.randKey()
	if c.p(75) {
		k = c.pickKey(all)
	}
	if c.p(50) {
		c.opFail(k)
	} else {
		c.opSwClose(true, k, c.randKey(), c.p(50))
	}
}

func (c *c07) genDelete(chaos int) {
	all, _, _ := c.pendingKeys()
	cl := c.closedKeys()
	if c.p(35) {
		k := c.randKey()
		switch r := c.rng.Intn(100); {
		case r < 60:
			k = c.pickKey(cl)
		case r < 85:
			k = c.pickKey(all)
		}
		typ := 0
		switch r := c.rng.Intn(100); {
		case r < 45:
			typ = 0
		case r < 90:
			typ = 1
		default:
			typ = 2
		}
		c.opSwTear(k, typ, c.p(70), c.p(chaos))
		return
	}
	n := 1 + c.rng.Intn(3)
	var keys []CircuitKey
	for i := 0; i < n; i++ {
		switch r := c.rng.Intn(100); {
		case r < 55:
			keys = append(keys, c.pickKey(cl))
		case r < 85:
			keys = append(keys, c.pickKey(all))
		default:
			keys = append(keys, c.randKey())
		}
	}
	if c.p(15) {
		keys = append(keys, keys[c.rng.Intn(len(keys))])
	}
	if c.p(3) {
		keys = nil
	}
	c.opDelete(keys, c.p(chaos))
}

func (c *c07) genRestart(disciplined bool) {
	env := c07Env{res: map[CircuitKey]bool{}}
	pClosed := 22
	if c.p(40) {
		pClosed = 0
	}
	isClosed := map[int]bool{}
	for ch := 0; ch < c07Chans; ch++ {
		if c.p(pClosed) {
			pend := c.p(25)
			env.closed = append(env.closed, c07Closed{ch: ch, pending: pend})
			isClosed[ch] = !pend
		}
	}
	order := c.rng.Perm(c07Chans)
	for _, ch := range order {
		if isClosed[ch] && !c.p(5) {
			continue
		}
		if c.p(8) {
			continue // channel unknown to the channel DB
		}
		a := c07Active{ch: ch, pending: c.p(8), pendingIdx: -1}
		c.c07Kind(&a, c07Chans)
		if disciplined {
			// the committed ids of a live channel are a prefix: the bound
			// lies at or after every id that made it into a commitment.
			a.remoteIdx = c.boundaryIdx(ch)
		} else {
			a.remoteIdx = c.boundaryIdx(ch)
		}
		if c.p(40) {
			a.pendingIdx = int64(c.boundaryIdx(ch))
		}
		env.active = append(env.active, a)
	}
	for _, o := range c.openedKeys() {
		if c.p(50) {
			env.res[o] = true
		}
	}
	if c.p(20) {
		env.res[c.randKey()] = true
	}
	if c.p(14) {
		// fault class: a read of a pending remote commitment fails during the
		// startup trim. Most of the time the live channels carry a signed,
		// not yet revoked commitment that covers all their open keystones,
		// while the last revoked one covers only some of them.
		env.fail = 1 + c.rng.Intn(len(env.active)+1)
		for i := range env.active {
			a := &env.active[i]
			ids := c.openedIdsOn(a.ch)
			if len(ids) == 0 || !c.p(75) {
				continue
			}
			lo, hi := ids[0], ids[len(ids)-1]
			a.remoteIdx = uint64(lo + c.rng.Intn(hi-lo+1))
			a.pendingIdx = int64(hi + 1)
		}
	}
	c.opRestart(env)
}

func (c *c07) runCase(kind string, nops int) {
	c.startCase(kind, false)
	c.snap()
	chaos := 8
	disciplined := kind == "disciplined"
	if kind == "chaos" {
		chaos = 20
	}
	if disciplined {
		chaos = 6
	}
	for i := 0; i < nops; i++ {
		switch r := c.rng.Intn(100); {
		case r < 24:
			c.genCommit(chaos)
		case r < 44:
			c.genOpen(chaos, disciplined)
		case r < 52:
			c.genTrim(chaos, disciplined)
		case r < 65:
			c.genClose()
		case r < 74:
			c.genFail()
		case r < 88:
			c.genDelete(chaos)
		default:
			c.genRestart(disciplined)
		}
	}
	// every case ends with a restart so that restart exactness is checked on
	// whatever state the sequence reached
	c.genRestart(disciplined)
	c.endCase()
}

// scripted cases: the package's own scenarios plus the corner cases of the
// decision table and of trimming, so that they are present for every seed.
func (c *c07) scripted() {
	k := c07Key
	noEnv := func() c07Env { return c07Env{res: map[CircuitKey]bool{}} }
	live := func(idx ...uint64) c07Env {
		e := noEnv()
		for i, n := range idx {
			e.active = append(e.active, c07Active{ch: i + 1, remoteIdx: n, pendingIdx: -1})
		}
		return e
	}

	// decision table: fresh / duplicate in memory / restored half-open / restored open
	c.startCase("script-table", false)
	c.snap()
	c.opCommit([]CircuitKey{k(1, 0), k(1, 1), k(1, 0)}, false)
	c.opCommit([]CircuitKey{k(1, 0)}, false)
	c.opOpen([]Keystone{{InKey: k(1, 1), OutKey: k(2, 0)}}, false)
	c.opCommit([]CircuitKey{k(1, 1)}, false)
	c.opRestart(live(4, 4))
	c.opCommit([]CircuitKey{k(1, 0), k(1, 1), k(1, 2)}, false)
	c.opFail(k(1, 0))
	c.opFail(k(1, 0))
	c.opClose(k(2, 0))
	c.opClose(k(2, 0))
	c.opFail(k(1, 1))
	c.opDelete([]CircuitKey{k(1, 0), k(1, 1)}, false)
	c.opClose(k(2, 0))
	c.opCommit([]CircuitKey{k(1, 0)}, false)
	c.opRestart(live(0, 0))
	c.endCase()

	// half-open rollback: keystone at/after the bound is trimmed, below it stays
	c.startCase("script-trim", false)
	c.snap()
	c.opCommit([]CircuitKey{k(1, 0), k(1, 1), k(1, 2), k(1, 3)}, false)
	c.opOpen([]Keystone{
		{InKey: k(1, 0), OutKey: k(2, 0)}, {InKey: k(1, 1), OutKey: k(2, 1)},
		{InKey: k(1, 2), OutKey: k(2, 2)}, {InKey: k(1, 3), OutKey: k(2, 3)},
	}, false)
	c.opTrim(2, 3, false)
	c.opRestart(live(0, 2))
	c.opCommit([]CircuitKey{k(1, 0), k(1, 1), k(1, 2), k(1, 3)}, false)
	c.opTrim(2, 1, true)
	c.opRestart(live(0, 1))
	c.opTrim(2, 0, false)
	c.opRestart(live(0, 0))
	c.endCase()

	// half-open rollback for every channel kind: the keystones are keyed by
	// ShortChanID() (the alias for zero-conf channels), ids 0 committed, 1 not
	for kind := 0; kind < 4; kind++ {
		c.startCase("script-kind", false)
		c.snap()
		c.opCommit([]CircuitKey{k(1, 0), k(1, 1)}, false)
		c.opOpen([]Keystone{{InKey: k(1, 0), OutKey: k(2, 0)}, {InKey: k(1, 1), OutKey: k(2, 1)}}, false)
		ek := noEnv()
		ek.active = []c07Active{
			{ch: 1, remoteIdx: 0, pendingIdx: -1, kind: kind, real: 101},
			{ch: 2, remoteIdx: 1, pendingIdx: -1, kind: kind, real: 102},
		}
		c.opRestart(ek)
		c.opCommit([]CircuitKey{k(1, 0), k(1, 1)}, false)
		c.endCase()
	}

	// a gap in the opened ids stops the scan (ContiguousFrom is needed)
	c.startCase("script-gap", false)
	c.snap()
	c.opCommit([]CircuitKey{k(1, 0), k(1, 1)}, false)
	c.opOpen([]Keystone{{InKey: k(1, 0), OutKey: k(2, 0)}, {InKey: k(1, 1), OutKey: k(2, 2)}}, false)
	c.opRestart(live(0, 1))
	c.endCase()

	// purge of closed channels and the resolution-message exception
	c.startCase("script-purge", false)
	c.snap()
	c.opCommit([]CircuitKey{k(1, 0), k(1, 1), k(2, 0), k(0, 1), k(1, 2)}, false)
	c.opOpen([]Keystone{
		{InKey: k(1, 0), OutKey: k(2, 0)}, {InKey: k(1, 1), OutKey: k(2, 1)},
		{InKey: k(2, 0), OutKey: k(1, 0)}, {InKey: k(0, 1), OutKey: k(2, 2)},
	}, false)
	e := noEnv()
	e.closed = []c07Closed{{ch: 2}, {ch: 0}}
	e.active = []c07Active{{ch: 1, remoteIdx: 4, pendingIdx: -1}}
	e.res[k(2, 0)] = true
	c.opRestart(e)
	c.opClose(k(2, 0))
	c.opDelete([]CircuitKey{k(1, 0)}, false)
	e2 := noEnv()
	e2.closed = []c07Closed{{ch: 2}, {ch: 1, pending: true}}
	c.opRestart(e2)
	c.endCase()

	// a failing read of the pending remote commitment during the startup trim:
	// the commitment carries 2.1 and 2.2, the revoked one only 2.0
	c.startCase("script-tipfault", false)
	c.snap()
	c.opCommit([]CircuitKey{k(1, 0), k(1, 1), k(1, 2), k(1, 3)}, false)
	c.opOpen([]Keystone{
		{InKey: k(1, 0), OutKey: k(2, 0)}, {InKey: k(1, 1), OutKey: k(2, 1)},
		{InKey: k(1, 2), OutKey: k(2, 2)}, {InKey: k(1, 3), OutKey: k(2, 3)},
	}, false)
	ef := noEnv()
	ef.active = []c07Active{{ch: 1, remoteIdx: 0, pendingIdx: -1}, {ch: 2, remoteIdx: 1, pendingIdx: 3}}
	ef.fail = 2
	c.opRestart(ef)
	c.opCommit([]CircuitKey{k(1, 1), k(1, 2), k(1, 3)}, false)
	c.opClose(k(2, 2))
	ef.fail = 1
	c.opRestart(ef)
	c.endCase()

	// rollback on write failure
	c.startCase("script-rollback", false)
	c.snap()
	c.opCommit([]CircuitKey{k(1, 0)}, false)
	c.opCommit([]CircuitKey{k(1, 0), k(1, 1), k(1, 1), k(1, 2)}, true)
	c.opCommit([]CircuitKey{k(1, 1)}, false)
	c.opOpen([]Keystone{{InKey: k(1, 1), OutKey: k(2, 0)}}, true)
	c.opOpen([]Keystone{{InKey: k(1, 1), OutKey: k(2, 0)}}, false)
	c.opClose(k(2, 0))
	c.opDelete([]CircuitKey{k(1, 1), k(1, 0)}, true)
	c.opClose(k(2, 0))
	c.opDelete([]CircuitKey{k(1, 1), k(1, 0)}, false)
	c.opSwTear(k(1, 1), 0, false, true)
	c.opRestart(live(0, 0))
	c.endCase()
}

// concurrency stream: goroutines race Close/Fail/Delete (and a second
// OpenCircuits) on one circuit. Only the monitor looks at these lines.
func (c *c07) raceCase() {
	c.startCase("race", true)
	in := c07Key(1, c.rng.Intn(c07Ids))
	out := c07Key(2, c.rng.Intn(c07Ids))
	other := c07Key(1, (int(in.HtlcID)+1)%c07Ids)
	c.opCommit([]CircuitKey{in, other}, false)
	c.opOpen([]Keystone{{InKey: in, OutKey: out}}, false)
	if c.p(30) {
		c.opRestart(c07Env{res: map[CircuitKey]bool{}})
	}

	type job struct {
		name string
		run  func() string
	}
	jobs := []job{
		{"close", func() string { return c07CloseRes(c.cm.CloseCircuit(out)) }},
		{"fail", func() string { return c07CloseRes(c.cm.FailCircuit(in)) }},
	}
	if c.p(60) {
		jobs = append(jobs, job{"close", func() string { return c07CloseRes(c.cm.CloseCircuit(out)) }})
	}
	if c.p(60) {
		jobs = append(jobs, job{"fail", func() string { return c07CloseRes(c.cm.FailCircuit(in)) }})
	}
	withDelete := c.p(50)
	if withDelete {
		jobs = append(jobs, job{"delete", func() string { return c07Err(c.cm.DeleteCircuits(in)) }})
	}
	if c.p(40) {
		o2 := c07Key(2, (int(out.HtlcID)+1)%c07Ids)
		jobs = append(jobs, job{"open", func() string {
			return c07Err(c.cm.OpenCircuits(Keystone{InKey: other, OutKey: o2}))
		}})
	}
	c.rng.Shuffle(len(jobs), func(i, j int) { jobs[i], jobs[j] = jobs[j], jobs[i] })
	res := make([]string, len(jobs))
	var wg sync.WaitGroup
	startCh := make(chan struct{})
	for i := range jobs {
		wg.Add(1)
		go func(i int) {
			defer wg.Done()
			defer func() {
				if r := recover(); r != nil {
					res[i] = "panic"
				}
			}()
			<-startCh
			res[i] = jobs[i].run()
		}(i)
	}
	close(startCh)
	wg.Wait()
	var parts []string
	for i, j := range jobs {
		parts = append(parts, j.name+"="+res[i])
	}
	c.pf("race in=%s out=%s delete=%d => %s", c07ks(in), c07ks(out), c07b(withDelete), strings.Join(parts, ","))
	c.snap()
	c.endCase()
}

func TestVerifC07(t *testing.T) {
	out := os.Getenv("VERIF_OUT")
	if out == "" {
		t.Skip("VERIF_OUT not set")
	}
	seed, _ := strconv.ParseInt(os.Getenv("VERIF_SEED"), 10, 64)
	tier := os.Getenv("VERIF_TIER")
	f, err := os.Create(out)
	if err != nil {
		t.Fatal(err)
	}
	defer f.Close()
	w := bufio.NewWriterSize(f, 1<<20)
	defer w.Flush()

	dir := ""
	if st, err := os.Stat("/dev/shm"); err == nil && st.IsDir() {
		dir, _ = os.MkdirTemp("/dev/shm", "c07_")
	}
	if dir == "" {
		dir = t.TempDir()
	} else {
		defer os.RemoveAll(dir)
	}

	c := &c07{t: t, w: w, rng: rand.New(rand.NewSource(seed*7919 + 7)), dir: dir}
	c.pf("FACT chans=%d ids=%d source=%d", c07Chans, c07Ids, 0)

	cases, races := 3000, 150
	budget := 70 * time.Second
	if tier == "thorough" {
		cases, races = 120000, 4000
		budget = 14 * time.Minute
	}
	startT := time.Now()
	c.scripted()
	kinds := []string{"seq", "seq", "disciplined", "disciplined", "chaos"}
	for i := 0; i < cases && time.Since(startT) < budget; i++ {
		kind := kinds[c.rng.Intn(len(kinds))]
		nops := 8 + c.rng.Intn(34)
		c.runCase(kind, nops)
	}
	for i := 0; i < races && time.Since(startT) < budget; i++ {
		c.raceCase()
	}
}

// ======================================================================
// mailbox stream: the real mailOrchestrator + memoryMailBox (+ the real
// Switch.handlePacketSettle / handlePacketFail feeding it from the real
// circuit map). The harness plays the links: while a link is "up" it receives
// whatever the mailbox courier offers; a link start is GetOrCreateMailBox,
// BindLiveShortChanID, ResetPackets, receive.

var c07Sids = []int{1, 2}

func c07Cid(sid int) lnwire.ChannelID { return lnwire.ChannelID{byte(sid), 0xc7} }

func (c *c07) newOrch() {
	if c.mo != nil {
		c.mo.Stop()
	}
	c.mo = newMailOrchestrator(&mailOrchConfig{
		forwardPackets: func(<-chan struct{}, ...*htlcPacket) error { return nil },
		clock:          clock.NewDefaultClock(),
		expiry:         time.Hour,
		failMailboxUpdate: func(_, _ lnwire.ShortChannelID) lnwire.FailureMessage {
			return &lnwire.FailTemporaryNodeFailure{}
		},
	})
	c.up = map[int]bool{}
	c.inbox = map[int][]*htlcPacket{}
	if c.sw != nil {
		c.sw.mailOrchestrator = c.mo
	}
}

func (c *c07) box(sid int) *memoryMailBox {
	c.mo.mu.RLock()
	defer c.mo.mu.RUnlock()
	mb, ok := c.mo.mailboxes[c07Cid(sid)]
	if !ok {
		return nil
	}
	return mb.(*memoryMailBox)
}

func (c *c07) newPkt(in, out CircuitKey, typ int) *htlcPacket {
	var msg lnwire.Message
	switch typ {
	case 0:
		msg = &lnwire.UpdateFulfillHTLC{}
	case 1:
		msg = &lnwire.UpdateFailHTLC{}
	default:
		msg = &lnwire.UpdateAddHTLC{}
	}
	pkt := &htlcPacket{
		incomingChanID: in.ChanID, incomingHTLCID: in.HtlcID,
		outgoingChanID: out.ChanID, outgoingHTLCID: out.HtlcID,
		htlc: msg,
	}
	c.nextUID++
	c.uids[pkt] = c.nextUID
	return pkt
}

func c07IsHead(mb *memoryMailBox, pkt *htlcPacket) bool {
	mb.pktCond.L.Lock()
	defer mb.pktCond.L.Unlock()
	if mb.repHead != nil && mb.repHead.Value.(*htlcPacket) == pkt {
		return true
	}
	if mb.addHead != nil && mb.addHead.Value.(*pktWithExpiry).pkt == pkt {
		return true
	}
	return false
}

// drain plays the running link: receive until the mailbox has nothing at its heads.
func (c *c07) drain(sid int) []int {
	var got []int
	if !c.up[sid] {
		return got
	}
	mb := c.box(sid)
	if mb == nil {
		return got
	}
	for {
		mb.pktCond.L.Lock()
		pending := mb.repHead != nil || mb.addHead != nil
		mb.pktCond.L.Unlock()
		if !pending {
			return got
		}
		select {
		case pkt := <-mb.PacketOutBox():
			got = append(got, c.uids[pkt])
			c.inbox[sid] = append(c.inbox[sid], pkt)
			// the courier advances its head right after the hand-over
			for i := 0; i < 200000 && c07IsHead(mb, pkt); i++ {
				time.Sleep(10 * time.Microsecond)
			}
		case <-time.After(5 * time.Second):
			got = append(got, -1)
			return got
		}
	}
}

func c07Ints(l []int) string {
	if len(l) == 0 {
		return "-"
	}
	s := make([]string, len(l))
	for i, v := range l {
		s[i] = strconv.Itoa(v)
	}
	return strings.Join(s, ".")
}

// drainAll returns "sid:uids;..." for every link that received something.
func (c *c07) drainAll() string {
	var parts []string
	for _, sid := range c07Sids {
		if g := c.drain(sid); len(g) > 0 {
			parts = append(parts, fmt.Sprintf("%d:%s", sid, c07Ints(g)))
		}
	}
	if len(parts) == 0 {
		return "-"
	}
	return strings.Join(parts, ";")
}

func (c *c07) msnap() {
	var parts []string
	for _, sid := range c07Sids {
		c.mo.mu.RLock()
		_, live := c.mo.liveIndex[lnwire.NewShortChanIDFromInt(uint64(sid))]
		var un []int
		for _, p := range c.mo.unclaimedPackets[lnwire.NewShortChanIDFromInt(uint64(sid))] {
			un = append(un, c.uids[p])
		}
		c.mo.mu.RUnlock()
		mb := c.box(sid)
		var rd, rt, ad, at []int
		if mb != nil {
			mb.pktCond.L.Lock()
			done := true
			for e := mb.repPkts.Front(); e != nil; e = e.Next() {
				if e == mb.repHead {
					done = false
				}
				u := c.uids[e.Value.(*htlcPacket)]
				if done {
					rd = append(rd, u)
				} else {
					rt = append(rt, u)
				}
			}
			done = true
			for e := mb.addPkts.Front(); e != nil; e = e.Next() {
				if e == mb.addHead {
					done = false
				}
				u := c.uids[e.Value.(*pktWithExpiry).pkt]
				if done {
					ad = append(ad, u)
				} else {
					at = append(at, u)
				}
			}
			// the per-key indexes must mirror the queues
			if len(mb.repIndex) != mb.repPkts.Len() || len(mb.addIndex) != mb.addPkts.Len() {
				rd = append(rd, -2)
			}
			mb.pktCond.L.Unlock()
		}
		parts = append(parts, fmt.Sprintf("%d/%d/%d/%d/U=%s/RD=%s/RT=%s/AD=%s/AT=%s",
			sid, c07b(live), c07b(mb != nil), c07b(c.up[sid]),
			c07Ints(un), c07Ints(rd), c07Ints(rt), c07Ints(ad), c07Ints(at)))
	}
	c.pf("msnap %s", strings.Join(parts, " "))
}

func (c *c07) sidOf(n int) lnwire.ShortChannelID {
	return lnwire.NewShortChanIDFromInt(uint64(n))
}

func (c *c07) mDeliver(sid int, in CircuitKey, typ int) {
	pkt := c.newPkt(in, c.randKey(), typ)
	res := ""
	func() {
		defer func() {
			if r := recover(); r != nil {
				res = "panic"
			}
		}()
		err := c.mo.Deliver(c.sidOf(sid), pkt)
		switch {
		case err == nil:
			res = "ok"
		case errors.Is(err, ErrPacketAlreadyExists):
			res = "exists"
		default:
			res = "err"
		}
	}()
	c.pf("mdeliver %d %d %s %d => %s recv=%s", sid, c.uids[pkt], c07ks(in), typ, res, c.drainAll())
	c.msnap()
}

func (c *c07) mGetBox(sid int) {
	c.mo.GetOrCreateMailBox(c07Cid(sid), c.sidOf(sid))
	c.pf("mgetbox %d => ok recv=%s", sid, c.drainAll())
	c.msnap()
}

func (c *c07) mLinkUp(sid int) {
	mb := c.mo.GetOrCreateMailBox(c07Cid(sid), c.sidOf(sid))
	c.mo.BindLiveShortChanID(mb, c07Cid(sid), c.sidOf(sid))
	res := "ok"
	if err := mb.ResetPackets(); err != nil {
		res = "err"
	}
	c.up[sid] = true
	c.pf("mlinkup %d => %s recv=%s", sid, res, c.drainAll())
	c.msnap()
}

func (c *c07) mLinkDown(sid int) {
	c.up[sid] = false
	c.pf("mlinkdown %d => ok recv=-", sid)
	c.msnap()
}

func (c *c07) mReset(sid int) {
	mb := c.box(sid)
	if mb == nil {
		return
	}
	res := "ok"
	if err := mb.ResetPackets(); err != nil {
		res = "err"
	}
	c.pf("mreset %d => %s recv=%s", sid, res, c.drainAll())
	c.msnap()
}

func (c *c07) mAck(sid int, in CircuitKey) {
	mb := c.box(sid)
	if mb == nil {
		return
	}
	had := mb.HasPacket(in)
	ok := mb.AckPacket(in)
	if ok {
		// forget it in the harness' view of the link
		l := c.inbox[sid][:0]
		for _, p := range c.inbox[sid] {
			if !(p.inKey() == in) {
				l = append(l, p)
			}
		}
		c.inbox[sid] = l
	}
	c.pf("mack %d %s => %d has=%d recv=%s", sid, c07ks(in), c07b(ok), c07b(had), c.drainAll())
	c.msnap()
}

// mRelay pushes a settle/fail from an outgoing link through the real
// Switch.handlePacketSettle / handlePacketFail: circuit map arbitration, then
// mailOrchestrator.Deliver to the incoming link's mailbox.
func (c *c07) mRelay(o CircuitKey, settle bool) {
	// locally initiated payments take the networkResult path, not a mailbox
	if pc := c.cm.LookupOpenCircuit(o); pc != nil && pc.Incoming.ChanID == hop.Source {
		return
	}
	typ := 1
	if settle {
		typ = 0
	}
	pkt := c.newPkt(CircuitKey{}, o, typ)
	res, in := "", "-"
	func() {
		defer func() {
			if r := recover(); r != nil {
				res = "panic"
			}
		}()
		var err error
		if settle {
			err = c.sw.handlePacketSettle(pkt)
		} else {
			err = c.sw.handlePacketFail(pkt, pkt.htlc.(*lnwire.UpdateFailHTLC))
		}
		switch {
		case err == nil:
			res = "ok"
		case errors.Is(err, ErrPacketAlreadyExists):
			res = "exists"
		case errors.Is(err, ErrCircuitClosing):
			res = "closing"
		default:
			res = "err"
		}
		if pkt.circuit != nil {
			in = c07ks(pkt.inKey())
		}
	}()
	c.pf("mrelay %s settle=%d %d => %s in=%s recv=%s", c07ks(o), c07b(settle), c.uids[pkt], res, in, c.drainAll())
	c.snap()
	c.msnap()
}

func (c *c07) mRestart() {
	c.genRestart(true)
	c.newOrch()
	c.pf("mrestart => ok")
	c.msnap()
}

func (c *c07) runMboxCase(nops int) {
	c.startCase("mbox", false)
	c.uids = map[*htlcPacket]int{}
	c.nextUID = 0
	c.newOrch()
	c.snap()
	c.msnap()
	pickSid := func() int { return c07Sids[c.rng.Intn(len(c07Sids))] }
	for i := 0; i < nops; i++ {
		switch r := c.rng.Intn(100); {
		case r < 16:
			c.genCommit(0)
		case r < 28:
			c.genOpen(0, true)
		case r < 44:
			o := c.randKey()
			if c.p(85) {
				o = c.pickKey(c.openedKeys())
			}
			c.mRelay(o, c.p(50))
		case r < 52:
			typ := 2
			switch t := c.rng.Intn(100); {
			case t < 40:
				typ = 0
			case t < 60:
				typ = 1
			}
			c.mDeliver(pickSid(), c.randKey(), typ)
		case r < 66:
			c.mLinkUp(pickSid())
		case r < 70:
			c.mLinkDown(pickSid())
		case r < 74:
			c.mReset(pickSid())
		case r < 76:
			c.mGetBox(pickSid())
		case r < 90:
			// the link processes a response it received: tear the circuit
			// down, then ack the packet out of the mailbox
			sid := pickSid()
			in := c.randKey()
			if l := c.inbox[sid]; len(l) > 0 && c.p(80) {
				in = l[c.rng.Intn(len(l))].inKey()
				if c.p(70) {
					c.opDelete([]CircuitKey{in}, false)
				}
			} else if mb := c.box(sid); mb != nil && c.p(60) {
				// a packet that is queued but was not received yet (link down)
				mb.pktCond.L.Lock()
				var q []CircuitKey
				for e := mb.repHead; e != nil; e = e.Next() {
					q = append(q, e.Value.(*htlcPacket).inKey())
				}
				for e := mb.addHead; e != nil; e = e.Next() {
					q = append(q, e.Value.(*pktWithExpiry).pkt.inKey())
				}
				mb.pktCond.L.Unlock()
				if len(q) > 0 {
					in = q[c.rng.Intn(len(q))]
				}
			}
			c.mAck(sid, in)
		case r < 95:
			c.genDelete(0)
		default:
			c.mRestart()
		}
	}
	c.mo.Stop()
	c.mo = nil
	c.endCase()
}

func TestVerifC07Mailbox(t *testing.T) {
	out := os.Getenv("VERIF_OUT")
	if out == "" {
		t.Skip("VERIF_OUT not set")
	}
	seed, _ := strconv.ParseInt(os.Getenv("VERIF_SEED"), 10, 64)
	tier := os.Getenv("VERIF_TIER")
	f, err := os.Create(out)
	if err != nil {
		t.Fatal(err)
	}
	defer f.Close()
	w := bufio.NewWriterSize(f, 1<<20)
	defer w.Flush()

	dir := ""
	if st, err := os.Stat("/dev/shm"); err == nil && st.IsDir() {
		dir, _ = os.MkdirTemp("/dev/shm", "c07m_")
	}
	if dir == "" {
		dir = t.TempDir()
	} else {
		defer os.RemoveAll(dir)
	}
	c := &c07{t: t, w: w, rng: rand.New(rand.NewSource(seed*104729 + 11)), dir: dir}
	c.pf("FACT chans=%d ids=%d source=%d", c07Chans, c07Ids, 0)
	cases := 1500
	budget := 60 * time.Second
	if tier == "thorough" {
		cases = 20000
		budget = 7 * time.Minute
	}
	startT := time.Now()
	for i := 0; i < cases && time.Since(startT) < budget; i++ {
		c.runMboxCase(10 + c.rng.Intn(40))
	}
}
