//go:build verif

package htlcswitch

// C07 `codec` stream (round 7): the persistence codecs of the circuit map and
// what the map really stores.
//
//   - pure codec cases: PaymentCircuit.Encode / Decode / circuitMap.decodeCircuit
//     and CircuitKey.Bytes / SetBytes on boundary-biased field values, all five
//     encrypter kinds, truncated / extended / corrupted records;
//   - persistence cases: the real circuitMap on a real bbolt file with circuits
//     that carry a full payload (AddRef, hash, amounts, encrypter), commit /
//     open / close / fail / delete (with injected write failures), raw
//     corruption of one stored value, restarts (also aborted by an undecodable
//     record or by a failing onion-key re-extraction); after every operation
//     the payload of every pending circuit and the RAW bytes of both buckets,
//     in bbolt's iteration order, are printed for the Lean driver.

import (
	"bufio"
	"bytes"
	"encoding/hex"
	"errors"
	"fmt"
	"io"
	"math/rand"
	"os"
	"sort"
	"strconv"
	"strings"
	"testing"
	"time"

	"github.com/btcsuite/btcd/btcec/v2"
	"github.com/lightningnetwork/lnd/channeldb"
	"github.com/lightningnetwork/lnd/htlcswitch/hop"
	"github.com/lightningnetwork/lnd/kvdb"
	"github.com/lightningnetwork/lnd/lnwire"
)

type c07c struct {
	*c07
	valid     [][]byte        // valid compressed ephemeral keys
	noExtract map[string]bool // hex of keys the extractor refuses
	pend      []CircuitKey    // keys the harness has committed in this case (superset)
}

func c07hex(b []byte) string {
	if len(b) == 0 {
		return "-"
	}
	return hex.EncodeToString(b)
}

func (c *c07c) extracter() hop.ErrorEncrypterExtracter {
	return func(pk *btcec.PublicKey) (hop.ErrorEncrypter, lnwire.FailCode) {
		if c.noExtract[hex.EncodeToString(pk.SerializeCompressed())] {
			return nil, lnwire.CodeTemporaryChannelFailure
		}
		return &hop.SphinxErrorEncrypter{EphemeralKey: pk}, lnwire.CodeNone
	}
}

// c07Payload is the harness-side description of a circuit.
type c07Payload struct {
	h      uint64
	i      uint16
	k      CircuitKey
	hash   [32]byte
	ia, oa uint64
	t      int    // 0 none 1 sphinx 2 mock 3 introduction 4 relaying
	e      []byte // ephemeral key (valid compressed point) for 1,3,4
}

func (p c07Payload) String() string {
	return fmt.Sprintf("%s/%d/%d/%s/%d/%d/%d/%s", c07ks(p.k), p.h, p.i, hex.EncodeToString(p.hash[:]),
		p.ia, p.oa, p.t, c07hex(p.e))
}

func (p c07Payload) circuit() *PaymentCircuit {
	pc := &PaymentCircuit{
		AddRef:         channeldb.AddRef{Height: p.h, Index: p.i},
		Incoming:       p.k,
		PaymentHash:    p.hash,
		IncomingAmount: lnwire.MilliSatoshi(p.ia),
		OutgoingAmount: lnwire.MilliSatoshi(p.oa),
	}
	if p.t == 2 {
		pc.ErrorEncrypter = NewMockObfuscator()
	} else if p.t != 0 {
		pk, err := btcec.ParsePubKey(p.e)
		if err != nil {
			panic(err)
		}
		sph := &hop.SphinxErrorEncrypter{EphemeralKey: pk}
		switch p.t {
		case 1:
			pc.ErrorEncrypter = sph
		case 3:
			pc.ErrorEncrypter = &hop.IntroductionErrorEncrypter{ErrorEncrypter: sph}
		case 4:
			pc.ErrorEncrypter = &hop.RelayingErrorEncrypter{ErrorEncrypter: sph}
		}
	}
	return pc
}

// c07PayloadOf reads the persisted fields back from a circuit object.
func c07PayloadOf(pc *PaymentCircuit) string {
	t := 0
	var e []byte
	if pc.ErrorEncrypter != nil {
		t = int(pc.ErrorEncrypter.Type())
		var b bytes.Buffer
		func() {
			defer func() {
				if r := recover(); r != nil {
					b.Reset()
					b.WriteString("!")
				}
			}()
			_ = pc.ErrorEncrypter.Encode(&b)
		}()
		e = b.Bytes()
	}
	return fmt.Sprintf("%s/%d/%d/%s/%d/%d/%d/%s", c07ks(pc.Incoming), pc.AddRef.Height, pc.AddRef.Index,
		hex.EncodeToString(pc.PaymentHash[:]), uint64(pc.IncomingAmount), uint64(pc.OutgoingAmount), t, c07hex(e))
}

func c07DecErr(err error) string {
	var unk UnknownEncrypterType
	switch {
	case err == nil:
		return "ok"
	case errors.Is(err, errC07Injected):
		return "wferr"
	case errors.Is(err, io.EOF):
		return "eof"
	case errors.Is(err, io.ErrUnexpectedEOF):
		return "ueof"
	case errors.As(err, &unk):
		return "unkenc:" + strconv.Itoa(int(unk))
	case strings.Contains(err.Error(), "unable to reconstruct onion"):
		return "extract"
	case strings.Contains(err.Error(), "length of serialized circuit"):
		return "keylen"
	default:
		return "badkey"
	}
}

var c07U64 = []uint64{0, 1, 255, 256, 65535, 65536, 1<<32 - 1, 1 << 32, 1<<56 + 1, 1<<63 - 1, 1 << 63, 1<<64 - 1}

func (c *c07c) u64() uint64 {
	if c.p(70) {
		return c07U64[c.rng.Intn(len(c07U64))]
	}
	return c.rng.Uint64()
}

func (c *c07c) payload(k CircuitKey) c07Payload {
	p := c07Payload{h: c.u64(), i: uint16(c.u64()), k: k, ia: c.u64(), oa: c.u64()}
	switch c.rng.Intn(4) {
	case 0:
	case 1:
		for j := range p.hash {
			p.hash[j] = 0xff
		}
	default:
		c.rng.Read(p.hash[:])
	}
	p.t = c.rng.Intn(5)
	if p.t == 1 || p.t == 3 || p.t == 4 {
		// the last valid key is the one the extractor refuses: never committed
		p.e = c.valid[c.rng.Intn(len(c.valid)-1)]
	}
	return p
}

// ---------------------------------------------------------------- pure codec

func (c *c07c) decLine(tag string, of int, mode string, b []byte) {
	res := ""
	func() {
		defer func() {
			if r := recover(); r != nil {
				res = "panic"
			}
		}()
		pc := &PaymentCircuit{}
		if err := pc.Decode(bytes.NewReader(b)); err != nil {
			res = c07DecErr(err)
			return
		}
		res = "ok " + c07PayloadOf(pc)
	}()
	c.pf("dec of=%d mode=%s %s => %s", of, mode, c07hex(b), res)
	// the same bytes through circuitMap.decodeCircuit (Decode + Reextract)
	res = ""
	func() {
		defer func() {
			if r := recover(); r != nil {
				res = "panic"
			}
		}()
		cm := &circuitMap{cfg: &CircuitMapConfig{ExtractErrorEncrypter: c.extracter()}}
		pc, err := cm.decodeCircuit(b)
		if err != nil {
			res = c07DecErr(err)
			return
		}
		res = "ok " + c07PayloadOf(pc)
	}()
	c.pf("dst of=%d mode=%s %s => %s", of, mode, c07hex(b), res)
	_ = tag
}

func (c *c07c) codecCase() {
	c.n++
	c.pf("CASE %d kind=codec", c.n)
	k := CircuitKey{ChanID: lnwire.NewShortChanIDFromInt(c.u64()), HtlcID: c.u64()}
	// keys
	kb := k.Bytes()
	c.pf("kb %d %d => %s", k.ChanID.ToUint64(), k.HtlcID, c07hex(kb))
	for _, b := range [][]byte{kb, kb[:15], append(append([]byte{}, kb...), 0), nil, kb[:8]} {
		var kk CircuitKey
		if err := kk.SetBytes(b); err != nil {
			c.pf("sb %s => %s", c07hex(b), c07DecErr(err))
		} else {
			c.pf("sb %s => ok:%s", c07hex(b), c07ks(kk))
		}
	}
	// circuit
	p := c.payload(k)
	var buf bytes.Buffer
	if err := p.circuit().Encode(&buf); err != nil {
		c.pf("enc %s => %s", p, "err")
		c.pf("END")
		return
	}
	enc := append([]byte{}, buf.Bytes()...)
	c.pf("enc %s => %s", p, c07hex(enc))
	c.decLine("full", c.n, "full", enc)
	// trailing bytes are ignored by Decode
	ext := append(append([]byte{}, enc...), byte(c.rng.Intn(256)), 7)
	c.decLine("ext", c.n, "ext", ext)
	// truncations: every field boundary +-1, plus random cuts
	cuts := map[int]bool{0: true}
	for _, bnd := range []int{8, 10, 26, 58, 66, 74, 75, len(enc)} {
		for _, d := range []int{-1, 0, 1} {
			if x := bnd + d; x >= 0 && x < len(enc) {
				cuts[x] = true
			}
		}
	}
	for j := 0; j < 3; j++ {
		cuts[c.rng.Intn(len(enc))] = true
	}
	var cl []int
	for x := range cuts {
		cl = append(cl, x)
	}
	sort.Ints(cl)
	for _, x := range cl {
		c.decLine("trunc", c.n, "trunc", enc[:x])
	}
	// mutated type byte (offset 74) and ephemeral key
	for _, tb := range []byte{0, 1, 2, 3, 4, 5, 9, 255} {
		m := append([]byte{}, enc...)
		m[74] = tb
		c.decLine("mut", c.n, "mut", m)
		if tb == 1 || tb == 3 || tb == 4 {
			// a record with a key: valid, refused by the extractor, invalid point
			base := append([]byte{}, enc[:75]...)
			base[74] = tb
			for _, e := range c.valid {
				c.decLine("mut", c.n, "mut", append(append([]byte{}, base...), e...))
			}
			bad := append([]byte{}, c.valid[0]...)
			bad[0] = 0x05
			c.decLine("mut", c.n, "mut", append(append([]byte{}, base...), bad...))
			bad2 := append([]byte{2}, bytes.Repeat([]byte{0xff}, 32)...)
			c.decLine("mut", c.n, "mut", append(append([]byte{}, base...), bad2...))
			c.decLine("mut", c.n, "mut", append(append([]byte{}, base...), c.valid[0][:20]...))
		}
	}
	c.pf("END")
}

// ---------------------------------------------------------------- persistence

func (c *c07c) newMapC() string {
	res := "ok"
	func() {
		defer func() {
			if r := recover(); r != nil {
				res = "panic"
			}
		}()
		cfg := c.config()
		cfg.ExtractErrorEncrypter = c.extracter()
		m, err := NewCircuitMap(cfg)
		if err != nil {
			res = c07DecErr(err)
			return
		}
		c.cm = m.(*circuitMap)
		c.sw = &Switch{circuits: c.cm}
	}()
	return res
}

// rawDisk dumps both buckets as raw hex in bbolt's iteration order.
func (c *c07c) rawDisk() (a, k []string) {
	err := kvdb.View(c.inner, func(tx kvdb.RTx) error {
		ab := tx.ReadBucket(circuitAddKey)
		kb := tx.ReadBucket(circuitKeystoneKey)
		if ab == nil || kb == nil {
			return ErrCorruptedCircuitMap
		}
		if err := ab.ForEach(func(kk, v []byte) error {
			a = append(a, c07hex(kk)+":"+c07hex(v))
			return nil
		}); err != nil {
			return err
		}
		return kb.ForEach(func(kk, v []byte) error {
			k = append(k, c07hex(kk)+":"+c07hex(v))
			return nil
		})
	}, func() { a, k = nil, nil })
	if err != nil {
		a, k = []string{"dumperr"}, []string{"dumperr"}
	}
	return a, k
}

func (c *c07c) psnap() {
	c.cm.mtx.RLock()
	var pk, ok, ck []CircuitKey
	for key := range c.cm.pending {
		pk = append(pk, key)
	}
	for key := range c.cm.opened {
		ok = append(ok, key)
	}
	for key := range c.cm.closed {
		ck = append(ck, key)
	}
	c.cm.mtx.RUnlock()
	c07SortKeys(pk)
	c07SortKeys(ok)
	c07SortKeys(ck)
	var p, o []string
	for _, key := range pk {
		if pc := c.cm.LookupCircuit(key); pc != nil {
			p = append(p, c07ks(key)+"/"+c07PayloadOf(pc)+"/"+strings.SplitN(c07Circ(pc), "/", 2)[1])
		}
	}
	for _, key := range ok {
		if pc := c.cm.LookupOpenCircuit(key); pc != nil {
			o = append(o, c07ks(key)+">"+c07ks(pc.Incoming))
		}
	}
	a, k := c.rawDisk()
	c.pf("psnap P=%s O=%s C=%s A=%s K=%s", c07Join(p), c07Join(o), c07KeyList(ck), c07Join(a), c07Join(k))
}

func (c *c07c) pCommit(batch []c07Payload, wf bool) {
	circuits := make([]*PaymentCircuit, len(batch))
	s := make([]string, len(batch))
	for i, p := range batch {
		circuits[i] = p.circuit()
		s[i] = p.String()
	}
	res := ""
	func() {
		defer func() {
			if r := recover(); r != nil {
				res = "panic"
			}
		}()
		c.arm(wf)
		acts, err := c.cm.CommitCircuits(circuits...)
		c.arm(false)
		idx := func(l []*PaymentCircuit) string {
			var r []string
			for _, pc := range l {
				for i, mine := range circuits {
					if mine == pc {
						r = append(r, strconv.Itoa(i))
					}
				}
			}
			return c07Join(r)
		}
		res = fmt.Sprintf("adds=%s drops=%s fails=%s err=%s ai=%s", c07Circuits(acts.Adds),
			c07Circuits(acts.Drops), c07Circuits(acts.Fails), c07Err(err), idx(acts.Adds))
	}()
	c.arm(false)
	c.pf("pcommit %s wf=%d => %s", strings.Join(s, ";"), c07b(wf), res)
	c.psnap()
}

// corrupt overwrites the stored value of one circuit directly in the bucket.
func (c *c07c) corrupt(k CircuitKey, v []byte, mode string, pl string) {
	err := kvdb.Update(c.inner, func(tx kvdb.RwTx) error {
		return tx.ReadWriteBucket(circuitAddKey).Put(k.Bytes(), v)
	}, func() {})
	c.pf("corrupt %s %s mode=%s pl=%s => %s", c07ks(k), c07hex(v), mode, pl, c07Err(err))
}

func (c *c07c) storedValue(k CircuitKey) []byte {
	var v []byte
	_ = kvdb.View(c.inner, func(tx kvdb.RTx) error {
		if x := tx.ReadBucket(circuitAddKey).Get(k.Bytes()); x != nil {
			v = append([]byte{}, x...)
		}
		return nil
	}, func() { v = nil })
	return v
}

func (c *c07c) restartC(env c07Env) string {
	c.env = env
	var cl, ac []string
	for _, x := range env.closed {
		cl = append(cl, fmt.Sprintf("%d:%d", x.ch, c07b(x.pending)))
	}
	for _, x := range env.active {
		ac = append(ac, c07ActiveStr(x))
	}
	c.cm, c.sw = nil, nil
	c.inner.Close()
	c.openDB()
	res := c.newMapC()
	c.pf("restart closed=%s active=%s res=- => %s", c07Join(cl), c07Join(ac), res)
	if res == "ok" {
		c.psnap()
	} else {
		a, k := c.rawDisk()
		c.pf("pdsnap A=%s K=%s", c07Join(a), c07Join(k))
	}
	return res
}

var c07cChans = []uint64{1, 2, 256, 1<<32 + 1}
var c07cIds = []uint64{0, 1, 2, 255, 256, 1 << 56}

func (c *c07c) keyC() CircuitKey {
	return CircuitKey{
		ChanID: lnwire.NewShortChanIDFromInt(c07cChans[c.rng.Intn(len(c07cChans))]),
		HtlcID: c07cIds[c.rng.Intn(len(c07cIds))],
	}
}

func (c *c07c) livePending() []CircuitKey {
	c.cm.mtx.RLock()
	defer c.cm.mtx.RUnlock()
	var l []CircuitKey
	for k := range c.cm.pending {
		l = append(l, k)
	}
	c07SortKeys(l)
	return l
}

func (c *c07c) envC() c07Env {
	env := c07Env{res: map[CircuitKey]bool{}}
	for _, ch := range []int{1, 2, 256} {
		switch {
		case c.p(12):
			env.closed = append(env.closed, c07Closed{ch: ch, pending: c.p(25)})
		default:
			a := c07Active{ch: ch, pending: c.p(10), remoteIdx: uint64(c.rng.Intn(4)), pendingIdx: -1}
			if c.p(30) {
				a.pendingIdx = int64(a.remoteIdx) + int64(c.rng.Intn(3))
			}
			env.active = append(env.active, a)
		}
	}
	return env
}

func (c *c07c) persistCase(nops int) {
	c.n++
	c.file = fmt.Sprintf("c07c_%d.db", c.n)
	c.rawDB = false
	c.env = c07Env{res: map[CircuitKey]bool{}}
	c.openDB()
	c.pf("CASE %d kind=persist", c.n)
	if r := c.newMapC(); r != "ok" {
		c.t.Fatalf("initial NewCircuitMap: %s", r)
	}
	nextOut := map[uint64]uint64{}
	for op := 0; op < nops; op++ {
		r := c.rng.Intn(100)
		if op == nops-1 {
			r = 99
		}
		switch {
		case r < 38:
			n := 1 + c.rng.Intn(3)
			var batch []c07Payload
			for j := 0; j < n; j++ {
				k := c.keyC()
				if j > 0 && c.p(20) {
					k = batch[0].k // duplicate in the batch, different payload
				}
				batch = append(batch, c.payload(k))
			}
			c.pCommit(batch, c.p(12))
		case r < 52:
			var kst []Keystone
			taken := map[CircuitKey]bool{}
			for _, k := range c.livePending() {
				pc := c.cm.LookupCircuit(k)
				if pc == nil || pc.HasKeystone() || !c.p(60) || len(kst) >= 2 {
					continue
				}
				och := []uint64{1, 2, 256}[c.rng.Intn(3)]
				o := CircuitKey{ChanID: lnwire.NewShortChanIDFromInt(och), HtlcID: nextOut[och]}
				if taken[o] {
					continue
				}
				taken[o] = true
				nextOut[och]++
				kst = append(kst, Keystone{InKey: k, OutKey: o})
			}
			if len(kst) > 0 {
				wf := c.p(10)
				c.opOpenC(kst, wf)
				if wf {
					for _, ks := range kst {
						nextOut[ks.OutKey.ChanID.ToUint64()] = 0
					}
				}
			}
		case r < 66:
			lp := c.livePending()
			var keys []CircuitKey
			for _, k := range lp {
				if c.p(40) {
					keys = append(keys, k)
				}
			}
			if c.p(20) {
				keys = append(keys, c.keyC())
			}
			wf := c.p(15)
			res := ""
			func() {
				defer func() {
					if r := recover(); r != nil {
						res = "panic"
					}
				}()
				c.arm(wf)
				res = c07Err(c.cm.DeleteCircuits(keys...))
			}()
			c.arm(false)
			c.pf("delete %s wf=%d => %s", c07KeyList(keys), c07b(wf), res)
			c.psnap()
		case r < 72:
			lp := c.livePending()
			if len(lp) == 0 {
				continue
			}
			k := lp[c.rng.Intn(len(lp))]
			pc, err := c.cm.FailCircuit(k)
			c.pf("fail %s => %s", c07ks(k), c07CloseRes(pc, err))
			c.psnap()
		case r < 84:
			// corrupt one stored record, restart (aborted unless the new value
			// is a well-formed record), repair, restart
			lp := c.livePending()
			if len(lp) == 0 {
				continue
			}
			k := lp[c.rng.Intn(len(lp))]
			orig := c.storedValue(k)
			if orig == nil {
				continue
			}
			var v []byte
			mode, pl := "", "-"
			switch c.rng.Intn(5) {
			case 0:
				v, mode = orig[:c.rng.Intn(len(orig))], "trunc"
			case 1:
				v, mode = append([]byte{}, orig...), "type"
				v[74] = []byte{5, 9, 200}[c.rng.Intn(3)]
			case 2:
				// another well-formed record of the same key
				p := c.payload(k)
				var b bytes.Buffer
				_ = p.circuit().Encode(&b)
				v, mode, pl = b.Bytes(), "rewrite", p.String()
			case 3:
				// sphinx record whose onion key cannot be re-extracted
				p := c.payload(k)
				p.t, p.e = []int{1, 3, 4}[c.rng.Intn(3)], c.valid[len(c.valid)-1]
				var b bytes.Buffer
				_ = p.circuit().Encode(&b)
				v, mode, pl = b.Bytes(), "noextract", p.String()
			default:
				p := c.payload(k)
				p.t, p.e = 1, c.valid[0]
				var b bytes.Buffer
				_ = p.circuit().Encode(&b)
				v, mode = b.Bytes(), "badpoint"
				v[75] = 0x05
			}
			c.corrupt(k, v, mode, pl)
			env := c.envC()
			if c.restartC(env) != "ok" {
				// repair: the purge of the aborted start may have removed the record
				if c.storedValue(k) != nil {
					c.corrupt(k, orig, "repair", "-")
				}
				if r := c.restartC(env); r != "ok" {
					// reported on the restart line; the case ends here
					c.endCaseC()
					return
				}
			}
			for ch := range nextOut {
				nextOut[ch] = 0
			}
			c.resyncOut(nextOut)
		default:
			if r := c.restartC(c.envC()); r != "ok" {
				c.endCaseC()
				return
			}
			c.resyncOut(nextOut)
		}
	}
	c.endCaseC()
}

func (c *c07c) endCaseC() {
	c.pf("END")
	c.inner.Close()
	os.Remove(c.dir + "/" + c.file)
}

// resyncOut: after a restart the next out id of a channel is one above the
// highest open id (the trim may have rolled some back).
func (c *c07c) resyncOut(nextOut map[uint64]uint64) {
	for ch := range nextOut {
		nextOut[ch] = 0
	}
	c.cm.mtx.RLock()
	for o := range c.cm.opened {
		ch := o.ChanID.ToUint64()
		if o.HtlcID+1 > nextOut[ch] {
			nextOut[ch] = o.HtlcID + 1
		}
	}
	c.cm.mtx.RUnlock()
}

func (c *c07c) opOpenC(kst []Keystone, wf bool) {
	res := ""
	func() {
		defer func() {
			if r := recover(); r != nil {
				res = "panic"
			}
		}()
		c.arm(wf)
		res = c07Err(c.cm.OpenCircuits(kst...))
	}()
	c.arm(false)
	s := make([]string, len(kst))
	for i, k := range kst {
		s[i] = c07ks(k.InKey) + ">" + c07ks(k.OutKey)
	}
	c.pf("open %s wf=%d => %s", c07Join(s), c07b(wf), res)
	c.psnap()
}

func TestVerifC07Codec(t *testing.T) {
	out := os.Getenv("VERIF_OUT")
	if out == "" {
		t.Skip("VERIF_OUT not set")
	}
	seed, _ := strconv.ParseInt(os.Getenv("VERIF_SEED"), 10, 64)
	tier := os.Getenv("VERIF_TIER")
	f, err := os.Create(out)
	if err != nil {
		t.Fatal(err)
	}
	defer f.Close()
	w := bufio.NewWriterSize(f, 1<<20)
	defer w.Flush()

	dir := ""
	if st, err := os.Stat("/dev/shm"); err == nil && st.IsDir() {
		dir, _ = os.MkdirTemp("/dev/shm", "c07c_")
	}
	if dir == "" {
		dir = t.TempDir()
	} else {
		defer os.RemoveAll(dir)
	}

	base := &c07{t: t, w: w, rng: rand.New(rand.NewSource(seed*104729 + 11)), dir: dir}
	c := &c07c{c07: base, noExtract: map[string]bool{}}
	var vh, nh []string
	for i := 1; i <= 4; i++ {
		var sk [32]byte
		sk[31] = byte(i)
		sk[0] = byte(17 * i)
		_, pk := btcec.PrivKeyFromBytes(sk[:])
		b := pk.SerializeCompressed()
		c.valid = append(c.valid, b)
		vh = append(vh, hex.EncodeToString(b))
	}
	// the extractor refuses the last key
	last := hex.EncodeToString(c.valid[len(c.valid)-1])
	c.noExtract[last] = true
	nh = append(nh, last)
	c.pf("FACT vk=%s noextract=%s", strings.Join(vh, ","), strings.Join(nh, ","))

	codecs, persists := 150, 250
	budget := 25 * time.Second
	if tier == "thorough" {
		codecs, persists = 3000, 12000
		budget = 4 * time.Minute
	}
	startT := time.Now()
	for i := 0; i < codecs; i++ {
		c.codecCase()
	}
	for i := 0; i < persists && time.Since(startT) < budget; i++ {
		c.persistCase(8 + c.rng.Intn(18))
	}
}
