//go:build verif

package htlcswitch

// C09 correspondence/monitor harness. Injected with `go test -overlay`; drives
// the REAL (*channelLink).CheckHtlcForward / CheckHtlcTransit of links built
// with NewChannelLink over real lnwallet channels (createTestChannel), plus
// ExpectedFee and InboundFee.CalcFee directly, and prints one line per
// evaluation for the Lean driver (drv_c09).
//
// Line formats (all integers decimal):
//   fwd  min max base rate tld rej maxcltv bw in out ein eout h ib ir FIX => RES
//   tr   min max base rate tld rej maxcltv bw out eout h            FIX => RES
//   efee base rate amt   => fee(uint64)
//   calc ib ir amt       => fee(int64)
// FIX = a a_scid a_fl a_dg f f_scid f_fl f_dg : what the link's two channel
//   update sources return during this evaluation: cfg.FailAliasUpdate (a = 0:
//   nil) and cfg.FetchLastChannelUpdate (f = 0: error). An update is printed as
//   (short channel id, message_flags<<8|channel_flags, 48-bit digest of every
//   other field).
// RES = VERDICT payload code e e_scid e_fl e_dg calls
//   Everything in RES except `calls` is read from the FINAL wire failure: the
//   failure message of the returned *LinkError (WireMessage(), i.e. after
//   NewLinkError / NewDetailedLinkError) is serialised with lnwire.EncodeFailure
//   exactly as the switch does for the upstream update_fail_htlc and decoded
//   again. VERDICT = decoded failure type (+ the LinkError's failure detail for
//   TemporaryChannelFailure / UnknownNextPeer / ChannelDisabled), payload = the
//   integer carried in the failure data (-1 if none), code = the BOLT-4 failure
//   code on the wire, e.. = the channel_update embedded in the failure (e = 0:
//   none), calls = aliasCalls + 10*fetchCalls + 100*(calls with a wrong scid).

import (
	"bufio"
	"bytes"
	"encoding/binary"
	"errors"
	"fmt"
	"hash/fnv"
	"math"
	"math/big"
	"math/rand"
	"os"
	"strconv"
	"sync/atomic"
	"testing"
	"time"

	"github.com/btcsuite/btcd/btcec/v2/ecdsa"
	"github.com/btcsuite/btcd/btcutil/v2"
	"github.com/btcsuite/btcd/wire/v2"
	sphinx "github.com/lightningnetwork/lightning-onion"
	"github.com/lightningnetwork/lnd/fn/v2"
	"github.com/lightningnetwork/lnd/graph/db/models"
	"github.com/lightningnetwork/lnd/htlcswitch/hop"
	"github.com/lightningnetwork/lnd/lnwallet"
	"github.com/lightningnetwork/lnd/lnwire"
	"github.com/lightningnetwork/lnd/routing/route"
	"github.com/lightningnetwork/lnd/tlv"
)

type c09pol struct {
	min, max, base, rate uint64
	tld, rej, maxcltv    uint32
}

type c09in struct {
	in, out      uint64
	ein, eout, h uint32
	ib, ir       int32
}

type c09 struct {
	t     *testing.T
	w     *bufio.Writer
	rng   *rand.Rand
	n     int
	links []*channelLink
	fix   map[*channelLink]*c09fix
	cur   *channelLink
	lines int
}

// c09fix is what the channel-update sources of one real link return during
// one evaluation, and what they were asked.
type c09fix struct {
	alias    *lnwire.ChannelUpdate1 // cfg.FailAliasUpdate (nil: no alias update)
	fetched  *lnwire.ChannelUpdate1 // cfg.FetchLastChannelUpdate
	fetchErr bool
	orig     lnwire.ShortChannelID // originalScid the caller passes
	self     lnwire.ShortChannelID // the link's own short channel id

	aliasCalls, fetchCalls, badArgs int

	// when set, FailAliasUpdate is answered by the real Switch.failAliasUpdate
	swAlias func(lnwire.ShortChannelID, bool) *lnwire.ChannelUpdate1
}

func (f *c09fix) calls() int {
	return f.aliasCalls + 10*f.fetchCalls + 100*f.badArgs
}

// c09fp: (scid, message_flags<<8|channel_flags, 48-bit digest of the rest).
func c09fp(u *lnwire.ChannelUpdate1) (uint64, uint64, uint64) {
	if u == nil {
		return 0, 0, 0
	}
	h := fnv.New64a()
	var b [8]byte
	put := func(v uint64) {
		binary.BigEndian.PutUint64(b[:], v)
		h.Write(b[:])
	}
	put(uint64(u.Timestamp))
	put(uint64(u.MessageFlags))
	put(uint64(u.ChannelFlags))
	put(uint64(u.TimeLockDelta))
	put(uint64(u.HtlcMinimumMsat))
	put(uint64(u.BaseFee))
	put(uint64(u.FeeRate))
	put(uint64(u.HtlcMaximumMsat))
	h.Write(u.ChainHash[:])
	u.InboundFee.WhenSome(func(r tlv.RecordT[tlv.TlvType55555, lnwire.Fee]) {
		put(1)
		put(uint64(uint32(r.Val.BaseFee)))
		put(uint64(uint32(r.Val.FeeRate)))
	})
	return u.ShortChannelID.ToUint64(),
		uint64(u.MessageFlags)<<8 | uint64(u.ChannelFlags),
		h.Sum64() >> 16
}

func c09fpStr(u *lnwire.ChannelUpdate1) string {
	if u == nil {
		return "0 0 0 0"
	}
	a, b, d := c09fp(u)
	return fmt.Sprintf("1 %d %d %d", a, b, d)
}

// fixStr prints the FIX group of a line.
func (f *c09fix) fixStr() string {
	fe := f.fetched
	if f.fetchErr {
		fe = nil
	}
	return c09fpStr(f.alias) + " " + c09fpStr(fe)
}

// randUpd draws a channel_update: every field the failure construction copies
// is varied independently of the link's forwarding policy (disabled bit,
// direction bit, message flags, short channel id, timestamp, fee fields,
// optional max_htlc and inbound fee record).
func (c *c09) randUpd(scid lnwire.ShortChannelID, p c09pol) *lnwire.ChannelUpdate1 {
	u := &lnwire.ChannelUpdate1{Signature: wireSig}
	u.ShortChannelID = scid
	if c.rng.Intn(4) == 0 {
		u.ShortChannelID = lnwire.NewShortChanIDFromInt(
			c.pick64(0, 77, 16_000_000<<40|5<<16|1, c.rng.Uint64()),
		)
	}
	u.ChainHash[0] = byte(c.rng.Intn(3))
	u.Timestamp = c.pick32(0, 1, c.rng.Uint32(), math.MaxUint32)
	u.MessageFlags = lnwire.ChanUpdateMsgFlags(c.pick64(1, 1, 1, 0, 2, 3, 255))
	// bit 0: direction, bit 1: disabled
	u.ChannelFlags = lnwire.ChanUpdateChanFlags(c.pick64(0, 1, 2, 3, 2, 3, 0,
		uint64(c.rng.Intn(256))))
	u.TimeLockDelta = uint16(c.pick64(uint64(p.tld), 40, 0,
		uint64(c.rng.Intn(65536))))
	u.HtlcMinimumMsat = lnwire.MilliSatoshi(c.pick64(p.min, 1000, 0,
		c.rng.Uint64()))
	u.BaseFee = uint32(c.pick64(p.base, 1000, 0, uint64(c.rng.Uint32())))
	u.FeeRate = uint32(c.pick64(p.rate, 1, 0, uint64(c.rng.Uint32())))
	if u.MessageFlags.HasMaxHtlc() {
		u.HtlcMaximumMsat = lnwire.MilliSatoshi(c.pick64(p.max, 990_000_000,
			0, c.rng.Uint64()))
	}
	if c.rng.Intn(3) == 0 {
		u.InboundFee = tlv.SomeRecordT(
			tlv.NewRecordT[tlv.TlvType55555](lnwire.Fee{
				BaseFee: int32(c.rng.Uint32()),
				FeeRate: int32(c.rng.Intn(2001) - 1000),
			}),
		)
	}
	return u
}

// setFix draws the update fixtures of link l for the next evaluation.
func (c *c09) setFix(l *channelLink, p c09pol, orig lnwire.ShortChannelID) *c09fix {
	f := c.fix[l]
	f.orig = orig
	f.aliasCalls, f.fetchCalls, f.badArgs = 0, 0, 0
	f.fetched = c.randUpd(f.self, p)
	f.fetchErr = c.rng.Intn(40) == 0
	f.alias = nil
	if c.rng.Intn(5) == 0 {
		f.alias = c.randUpd(orig, p)
	}
	return f
}

func (c *c09) pf(format string, a ...interface{}) {
	fmt.Fprintf(c.w, format+"\n", a...)
	c.lines++
}

func (c *c09) startCase(kind string) {
	c.n++
	c.pf("CASE %d kind=%s", c.n, kind)
}

func (c *c09) endCase() { c.pf("END") }

// c09Final maps the returned *LinkError to the result group of a line, read
// from the failure as it goes on the wire (see the header).
func c09Final(le *LinkError) string {
	if le == nil {
		return "accept -1 0 0 0 0 0"
	}
	msg := le.WireMessage()
	if msg == nil {
		return "nilmsg -1 0 0 0 0 0"
	}
	var b bytes.Buffer
	if err := lnwire.EncodeFailure(&b, msg, 0); err != nil {
		return fmt.Sprintf("encodefail -1 %d 0 0 0 0", uint16(msg.Code()))
	}
	return c09FinalWire(b.Bytes(), le.FailureDetail)
}

// c09FinalWire decodes a serialised failure (the plaintext of the upstream
// update_fail_htlc reason) and prints VERDICT payload code e e_scid e_fl e_dg.
func c09FinalWire(raw []byte, detail FailureDetail) string {
	msg, err := lnwire.DecodeFailure(bytes.NewReader(raw), 0)
	if err != nil || msg == nil {
		return "decodefail -1 0 0 0 0 0"
	}
	det := func(base string, known ...FailureDetail) string {
		if detail == nil {
			if base == "TemporaryChannelFailure" {
				return base + "/none"
			}
			return base
		}
		for _, k := range known {
			if detail == k {
				switch k {
				case OutgoingFailureHTLCExceedsMax:
					return base + "/HtlcExceedsMax"
				case OutgoingFailureInsufficientBalance:
					return base + "/InsufficientBalance"
				case OutgoingFailureLinkNotEligible:
					return base + "/LinkNotEligible"
				case OutgoingFailureCircularRoute:
					return base + "/CircularRoute"
				case OutgoingFailureForwardsDisabled:
					return base + "/ForwardsDisabled"
				}
			}
		}
		return base + "/other"
	}
	name, payload := "", "-1"
	u64 := func(v uint64) string { return strconv.FormatUint(v, 10) }
	var upd *lnwire.ChannelUpdate1
	switch m := msg.(type) {
	case *lnwire.FailFeeInsufficient:
		name, payload, upd = "FeeInsufficient", u64(uint64(m.HtlcMsat)), &m.Update
	case *lnwire.FailIncorrectCltvExpiry:
		name, payload, upd = "IncorrectCltvExpiry", u64(uint64(m.CltvExpiry)), &m.Update
	case *lnwire.FailExpiryTooSoon:
		name, upd = "ExpiryTooSoon", &m.Update
	case *lnwire.FailExpiryTooFar:
		name = "ExpiryTooFar"
	case *lnwire.FailAmountBelowMinimum:
		name, payload, upd = "AmountBelowMinimum", u64(uint64(m.HtlcMsat)), &m.Update
	case *lnwire.FailTemporaryChannelFailure:
		name = det("TemporaryChannelFailure", OutgoingFailureHTLCExceedsMax,
			OutgoingFailureInsufficientBalance,
			OutgoingFailureLinkNotEligible, OutgoingFailureCircularRoute)
		upd = m.Update
	case *lnwire.FailChannelDisabled:
		name = det("ChannelDisabled", OutgoingFailureForwardsDisabled)
		upd = &m.Update
	case *lnwire.FailUnknownNextPeer:
		name = det("UnknownNextPeer", OutgoingFailureLinkNotEligible)
	case *lnwire.FailTemporaryNodeFailure:
		name = "TemporaryNodeFailure"
	default:
		name = fmt.Sprintf("other:%d", uint16(m.Code()))
	}
	return fmt.Sprintf("%s %s %d %s", name, payload, uint16(msg.Code()),
		c09fpStr(upd))
}

// newLink builds a real channelLink (NewChannelLink) over a real test channel.
func (c *c09) newLink(aliceAmt, bobAmt, reserve btcutil.Amount) *channelLink {
	ch, _, err := createTestChannel(
		c.t, alicePrivKey, bobPrivKey, aliceAmt, bobAmt, reserve,
		reserve, lnwire.NewShortChanIDFromInt(uint64(len(c.links)+1)),
	)
	if err != nil {
		c.t.Fatalf("createTestChannel(%v,%v,%v): %v", aliceAmt, bobAmt,
			reserve, err)
	}
	fix := &c09fix{}
	cfg := ChannelLinkConfig{
		FwrdingPolicy: models.ForwardingPolicy{
			MinHTLCOut: 1000, BaseFee: 1000, FeeRate: 1,
			TimeLockDelta: 40,
		},
		Peer: &mockPeer{
			sentMsgs: make(chan lnwire.Message, 10),
			quit:     make(chan struct{}),
		},
		FetchLastChannelUpdate: func(scid lnwire.ShortChannelID) (
			*lnwire.ChannelUpdate1, error) {

			fix.fetchCalls++
			if scid != fix.self {
				fix.badArgs++
			}
			if fix.fetchErr || fix.fetched == nil {
				return nil, errors.New("c09: no channel update")
			}
			cp := *fix.fetched
			return &cp, nil
		},
		OutgoingCltvRejectDelta: 3,
		MaxOutgoingCltvExpiry:   DefaultMaxOutgoingCltvExpiry,
		HtlcNotifier:            &mockHTLCNotifier{},
		DisallowQuiescence:      true,
	}
	link, ok := NewChannelLink(cfg, ch.channel).(*channelLink)
	if !ok {
		c.t.Fatalf("NewChannelLink did not return *channelLink")
	}
	fix.self = link.ShortChanID()
	link.attachFailAliasUpdate(
		func(scid lnwire.ShortChannelID, incoming bool) *lnwire.ChannelUpdate1 {
			fix.aliasCalls++
			if scid != fix.orig || incoming {
				fix.badArgs++
			}
			if fix.swAlias != nil {
				return fix.swAlias(scid, incoming)
			}
			if fix.alias == nil {
				return nil
			}
			cp := *fix.alias
			return &cp
		},
	)
	c.links = append(c.links, link)
	c.fix[link] = fix
	return link
}

// shrinkBandwidth adds a pending outgoing HTLC to the link's channel so that
// the spendable bandwidth changes.
func (c *c09) shrinkBandwidth(l *channelLink) {
	bw := uint64(l.Bandwidth())
	if bw < 2000 {
		return
	}
	amt := 1 + c.rng.Uint64()%(bw/40+1)
	var ph [32]byte
	c.rng.Read(ph[:])
	_, _ = l.channel.AddHTLC(&lnwire.UpdateAddHTLC{
		Amount: lnwire.MilliSatoshi(amt), Expiry: 500000,
		PaymentHash: ph,
	}, nil)
}

func (c *c09) apply(l *channelLink, p c09pol, ib, ir int32) {
	l.UpdateForwardingPolicy(models.ForwardingPolicy{
		MinHTLCOut:    lnwire.MilliSatoshi(p.min),
		MaxHTLC:       lnwire.MilliSatoshi(p.max),
		BaseFee:       lnwire.MilliSatoshi(p.base),
		FeeRate:       lnwire.MilliSatoshi(p.rate),
		TimeLockDelta: p.tld,
		// The outgoing link's own inbound fee is not part of the
		// decision (the incoming link's is passed as an argument):
		// fill it with values different from the argument.
		InboundFee: models.InboundFee{Base: ib ^ 0x5555, Rate: -ir - 7},
	})
	l.Lock()
	l.cfg.OutgoingCltvRejectDelta = p.rej
	l.cfg.MaxOutgoingCltvExpiry = p.maxcltv
	l.Unlock()
}

// origScid: the short channel id the sender put in the onion (the link's own,
// an alias, anything).
func (c *c09) origScid(l *channelLink) lnwire.ShortChannelID {
	return lnwire.NewShortChanIDFromInt(c.pick64(77,
		l.ShortChanID().ToUint64(), 16_000_000<<40|7<<16|2, c.rng.Uint64()))
}

func (c *c09) fwd(l *channelLink, p c09pol, x c09in) {
	c.apply(l, p, x.ib, x.ir)
	orig := c.origScid(l)
	fix := c.setFix(l, p, orig)
	bw := uint64(l.Bandwidth())
	aux := c.drawAux(l, bw, x.out)
	res := "panic -1 0 0 0 0 0"
	func() {
		defer func() {
			if r := recover(); r != nil {
				res = "panic -1 0 0 0 0 0"
			}
		}()
		var hash [32]byte
		le := l.CheckHtlcForward(
			hash, lnwire.MilliSatoshi(x.in),
			lnwire.MilliSatoshi(x.out), x.ein, x.eout,
			models.InboundFee{Base: x.ib, Rate: x.ir}, x.h,
			orig, aux.records(),
		)
		res = c09Final(le)
	}()
	if aux != nil {
		c.clearAux(l)
		c.pf("afwd %s %d %d %d %d %d %d %d %d %d %d %d %d %d %d %d %s => %s %d %d",
			aux.str(), p.min, p.max, p.base, p.rate, p.tld, p.rej,
			p.maxcltv, bw, x.in, x.out, x.ein, x.eout, x.h, x.ib, x.ir,
			fix.fixStr(), res, fix.calls(), aux.seen(l, bw, x.out))
		return
	}
	c.pf("fwd %d %d %d %d %d %d %d %d %d %d %d %d %d %d %d %s => %s %d",
		p.min, p.max, p.base, p.rate, p.tld, p.rej, p.maxcltv, bw,
		x.in, x.out, x.ein, x.eout, x.h, x.ib, x.ir, fix.fixStr(), res,
		fix.calls())
}

func (c *c09) transit(l *channelLink, p c09pol, x c09in) {
	c.apply(l, p, x.ib, x.ir)
	// CheckHtlcTransit passes hop.Source (the zero id) as original scid
	fix := c.setFix(l, p, lnwire.ShortChannelID{})
	bw := uint64(l.Bandwidth())
	aux := c.drawAux(l, bw, x.out)
	res := "panic -1 0 0 0 0 0"
	func() {
		defer func() {
			if r := recover(); r != nil {
				res = "panic -1 0 0 0 0 0"
			}
		}()
		var hash [32]byte
		le := l.CheckHtlcTransit(
			hash, lnwire.MilliSatoshi(x.out), x.eout, x.h,
			aux.records(),
		)
		res = c09Final(le)
	}()
	if aux != nil {
		c.clearAux(l)
		c.pf("atr %s %d %d %d %d %d %d %d %d %d %d %d %s => %s %d %d",
			aux.str(), p.min, p.max, p.base, p.rate, p.tld, p.rej,
			p.maxcltv, bw, x.out, x.eout, x.h, fix.fixStr(), res,
			fix.calls(), aux.seen(l, bw, x.out))
		return
	}
	c.pf("tr %d %d %d %d %d %d %d %d %d %d %d %s => %s %d",
		p.min, p.max, p.base, p.rate, p.tld, p.rej, p.maxcltv, bw,
		x.out, x.eout, x.h, fix.fixStr(), res, fix.calls())
}

func (c *c09) efee(base, rate, amt uint64) {
	res := "panic"
	func() {
		defer func() {
			if r := recover(); r != nil {
				res = "panic"
			}
		}()
		f := ExpectedFee(models.ForwardingPolicy{
			BaseFee: lnwire.MilliSatoshi(base),
			FeeRate: lnwire.MilliSatoshi(rate),
		}, lnwire.MilliSatoshi(amt))
		res = strconv.FormatUint(uint64(f), 10)
	}()
	c.pf("efee %d %d %d => %s", base, rate, amt, res)
}

func (c *c09) calc(ib, ir int32, amt uint64) {
	res := "panic"
	func() {
		defer func() {
			if r := recover(); r != nil {
				res = "panic"
			}
		}()
		f := models.InboundFee{Base: ib, Rate: ir}
		res = strconv.FormatInt(f.CalcFee(lnwire.MilliSatoshi(amt)), 10)
	}()
	c.pf("calc %d %d %d => %s", ib, ir, amt, res)
}

// ---- generators ----------------------------------------------------------

const (
	c09Amt13   = uint64(10_000_000_000_000)      // 10^13 msat, Dom bound
	c09InbWrap = uint64(922_337_203_685)         // floor(2^63 / 10^7)
	c09Two63   = uint64(1) << 63
	c09Max64   = math.MaxUint64
	c09Two31   = uint64(1) << 31
	c09Max32   = uint64(math.MaxUint32)
	c09Clamp   = int32(10_000_000)
)

func (c *c09) pick64(v ...uint64) uint64 { return v[c.rng.Intn(len(v))] }
func (c *c09) pick32(v ...uint32) uint32 { return v[c.rng.Intn(len(v))] }
func (c *c09) pickI(v ...int32) int32    { return v[c.rng.Intn(len(v))] }

// logU returns a roughly log-uniform value in [lo, hi].
func (c *c09) logU(lo, hi uint64) uint64 {
	if hi <= lo {
		return lo
	}
	span := hi - lo
	bits := 1 + c.rng.Intn(64)
	v := c.rng.Uint64()
	if bits < 64 {
		v &= (uint64(1) << bits) - 1
	}
	if span != c09Max64 {
		v %= span + 1
	}
	return lo + v
}

// around returns v-1, v, v+1 (wrapping in uint64) for each v.
func around64(vs ...uint64) []uint64 {
	var out []uint64
	seen := map[uint64]bool{}
	for _, v := range vs {
		for _, d := range []uint64{c09Max64, 0, 1} { // -1, 0, +1
			x := v + d
			if !seen[x] {
				seen[x] = true
				out = append(out, x)
			}
		}
	}
	return out
}

// around32 takes exact (possibly out-of-range / negative) values and returns
// the uint32 neighbourhoods of both the value reduced mod 2^32 and the value
// clamped to [0, 2^32-1].
func around32(vs ...int64) []uint32 {
	var out []uint32
	seen := map[uint32]bool{}
	add := func(x uint32) {
		if !seen[x] {
			seen[x] = true
			out = append(out, x)
		}
	}
	for _, v := range vs {
		for d := int64(-1); d <= 1; d++ {
			x := v + d
			add(uint32(uint64(x))) // mod 2^32
			if x < 0 {
				add(0)
			} else if x > int64(c09Max32) {
				add(uint32(c09Max32))
			}
		}
	}
	return out
}

var c09Million = big.NewInt(1_000_000)

// exactFee returns the exact outbound fee and the exact total required fee
// (unbounded integers) for forwarding `out`.
func exactFee(p c09pol, out uint64, ib, ir int32) (*big.Int, *big.Int) {
	o := new(big.Int).SetUint64(out)
	of := new(big.Int).Mul(o, new(big.Int).SetUint64(p.rate))
	of.Quo(of, c09Million)
	of.Add(of, new(big.Int).SetUint64(p.base))
	r := int64(ir)
	if r > int64(c09Clamp) {
		r = int64(c09Clamp)
	} else if r < -int64(c09Clamp) {
		r = -int64(c09Clamp)
	}
	x := new(big.Int).Add(o, of)
	inf := new(big.Int).Mul(big.NewInt(r), x)
	inf.Quo(inf, c09Million) // big.Int.Quo truncates towards zero
	inf.Add(inf, big.NewInt(int64(ib)))
	tot := new(big.Int).Add(inf, of)
	return of, tot
}

// goFee replicates the fixed-width arithmetic (only to aim inputs at the
// thresholds the code itself computes when they differ from the exact ones).
func goFee(p c09pol, out uint64, ib, ir int32) int64 {
	of := p.base + (out*p.rate)/1000000
	r := int64(ir)
	if r > int64(c09Clamp) {
		r = int64(c09Clamp)
	} else if r < -int64(c09Clamp) {
		r = -int64(c09Clamp)
	}
	fee := int64(ib) + r*int64(out+of)/1000000
	return fee + int64(of)
}

// inCandidates: incoming amounts around every threshold of the fee rule.
func (c *c09) inCandidates(p c09pol, out uint64, ib, ir int32) []uint64 {
	vs := []uint64{0, out, c09Amt13, c09Two63, c09Max64}
	_, tot := exactFee(p, out, ib, ir)
	th := new(big.Int).Add(new(big.Int).SetUint64(out), tot)
	if th.Sign() >= 0 && th.IsUint64() {
		vs = append(vs, th.Uint64())
	}
	vs = append(vs, out+uint64(goFee(p, out, ib, ir)))
	return around64(vs...)
}

// validIn returns the smallest incoming amount satisfying the exact fee rule
// (clamped into uint64).
func validIn(p c09pol, out uint64, ib, ir int32) uint64 {
	_, tot := exactFee(p, out, ib, ir)
	if tot.Sign() < 0 {
		return out
	}
	th := new(big.Int).Add(new(big.Int).SetUint64(out), tot)
	if th.IsUint64() {
		return th.Uint64()
	}
	return c09Max64
}

func (c *c09) randPolicy(bw uint64, extreme bool) c09pol {
	var p c09pol
	p.min = c.pick64(0, 1, 1000, c.logU(0, 1_000_000))
	p.max = c.pick64(0, bw, bw/2+1, c.logU(p.min, c09Amt13), 990_000_000,
		c09Amt13)
	p.base = c.pick64(0, 1, 1000, c.logU(0, 100_000), 1<<32-1)
	p.rate = c.pick64(0, 1, 10, 100, 2500, 1_000_000, c.logU(0, 1_000_000))
	p.tld = c.pick32(0, 1, 18, 40, 80, 144, uint32(c.rng.Intn(500)))
	p.rej = c.pick32(0, 1, 3, 13, uint32(c.rng.Intn(50)))
	p.maxcltv = c.pick32(2016, 2016, 2016, 1, 100, 0,
		uint32(c.rng.Intn(5000)))
	if extreme {
		if c.rng.Intn(3) == 0 {
			p.min = c.pick64(c09Two63, c09Max64, c09Amt13+1, c.logU(0, c09Max64))
		}
		if c.rng.Intn(3) == 0 {
			p.max = c.pick64(c09Two63, c09Max64, 1, c.logU(0, c09Max64))
		}
		if c.rng.Intn(3) == 0 {
			p.base = c.pick64(1<<32, c09Two63-1, c09Two63, c09Max64,
				c.logU(0, c09Max64))
		}
		if c.rng.Intn(3) == 0 {
			p.rate = c.pick64(1_000_001, 10_000_000, 1<<32, 1<<40,
				c09Two63, c09Max64, c.logU(0, c09Max64))
		}
		if c.rng.Intn(3) == 0 {
			p.tld = c.pick32(1<<31-1, 1<<31, math.MaxUint32,
				c.rng.Uint32())
		}
		if c.rng.Intn(3) == 0 {
			p.rej = c.pick32(1<<31-1, 1<<31, math.MaxUint32,
				c.rng.Uint32())
		}
		if c.rng.Intn(3) == 0 {
			p.maxcltv = c.pick32(1<<31-1, 1<<31, math.MaxUint32,
				c.rng.Uint32())
		}
	}
	return p
}

func (c *c09) randInbound() (int32, int32) {
	ib := c.pickI(0, 0, 0, -1, 1, -1000, 1000, math.MinInt32, math.MaxInt32,
		int32(c.rng.Intn(200001)-100000), int32(c.rng.Uint32()))
	ir := c.pickI(0, 0, 0, -1, 1, -100, 100, -2500, 2500, -1_000_000,
		1_000_000, -c09Clamp+1, -c09Clamp, -c09Clamp-1, c09Clamp-1,
		c09Clamp, c09Clamp+1, math.MinInt32, math.MaxInt32,
		int32(c.rng.Intn(2_000_001)-1_000_000),
		int32(c.rng.Intn(2_000_001)-1_000_000), int32(c.rng.Uint32()))
	return ib, ir
}

var c09IrGrid = []int32{0, -1, 1, -1_000_000, 1_000_000, -c09Clamp + 1,
	-c09Clamp, -c09Clamp - 1, c09Clamp - 1, c09Clamp, c09Clamp + 1,
	math.MinInt32, math.MaxInt32, -461_000, 461_000}
var c09IbGrid = []int32{0, -1, 1, -1000, 1000, math.MinInt32, math.MaxInt32}

// basePoint builds an input that satisfies every rule when that is feasible.
func (c *c09) basePoint(p c09pol, bw uint64, ib, ir int32, extreme bool) c09in {
	var x c09in
	x.ib, x.ir = ib, ir
	hi := bw
	if p.max != 0 && p.max < hi {
		hi = p.max
	}
	switch {
	case c.rng.Intn(12) == 0:
		// amounts around the int64 overflow threshold of CalcFee
		x.out = c.logU(c09InbWrap-5_000_000_000, c09InbWrap+80_000_000_000)
	case p.min <= hi:
		x.out = c.logU(p.min, hi)
	default:
		x.out = c.logU(0, c09Amt13)
	}
	if extreme && c.rng.Intn(4) == 0 {
		x.out = c.pick64(c09Two63, c09Max64, c09Two63-1, c09Amt13+1,
			c.logU(0, c09Max64))
	}
	x.in = validIn(p, x.out, ib, ir)
	if x.in < c09Max64-1000 {
		x.in += c.pick64(0, 0, 1, uint64(c.rng.Intn(1000)))
	}
	x.h = c.pick32(0, 1, 840_000, 840_000, uint32(c.rng.Intn(1_000_000)),
		uint32(c.rng.Intn(1_000_000)), 1<<31-5000)
	if extreme && c.rng.Intn(3) == 0 {
		x.h = c.pick32(1<<31-1, 1<<31, math.MaxUint32, math.MaxUint32-p.rej,
			math.MaxUint32-p.maxcltv, math.MaxUint32-2016, c.rng.Uint32())
	}
	// outgoing expiry in (h+rej, h+maxcltv] when feasible
	lo := uint64(x.h) + uint64(p.rej) + 1
	hi2 := uint64(x.h) + uint64(p.maxcltv)
	var eo uint64
	if lo <= hi2 {
		eo = lo + c.rng.Uint64()%(hi2-lo+1)
	} else {
		eo = lo
	}
	if eo > c09Max32 {
		eo = c09Max32
	}
	x.eout = uint32(eo)
	// incoming expiry in [eout+tld, eout+maxcltv] when feasible
	lo = eo + uint64(p.tld)
	hi2 = eo + uint64(p.maxcltv)
	ei := lo
	if lo < hi2 {
		ei = lo + c.rng.Uint64()%(hi2-lo+1)
	}
	if ei > c09Max32 {
		ei = c09Max32
	}
	x.ein = uint32(ei)
	return x
}

// gridCase emits the base point and, for every input and every policy field,
// the boundary neighbourhood of each comparison constant while the other
// dimensions stay at the (mostly valid) base point.
func (c *c09) gridCase(l *channelLink, extreme bool) {
	bw := uint64(l.Bandwidth())
	p := c.randPolicy(bw, extreme)
	ib, ir := c.randInbound()
	b := c.basePoint(p, bw, ib, ir, extreme)
	kind := "grid"
	if extreme {
		kind = "grid-extreme"
	}
	c.startCase(kind)
	c.fwd(l, p, b)
	c.transit(l, p, b)

	// incoming amount
	for _, v := range c.inCandidates(p, b.out, ib, ir) {
		x := b
		x.in = v
		c.fwd(l, p, x)
	}
	// outgoing amount (incoming re-aimed at the exact threshold, and 1 below)
	outs := []uint64{0, p.min, p.max, bw, c09Amt13, c09InbWrap, c09Two63,
		c09Max64, b.in}
	if p.rate > 1 {
		outs = append(outs, c09Max64/p.rate) // amt*rate wraps just above
	}
	for _, v := range around64(outs...) {
		x := b
		x.out = v
		x.in = validIn(p, v, ib, ir)
		c.fwd(l, p, x)
		c.transit(l, p, x)
		if x.in > 0 && c.rng.Intn(2) == 0 {
			x.in--
			c.fwd(l, p, x)
		}
	}
	// outgoing expiry
	for _, v := range around32(0, int64(b.h)+int64(p.rej),
		int64(b.h)+int64(p.maxcltv), int64(b.ein)-int64(p.tld),
		int64(b.ein), int64(b.ein)-int64(p.maxcltv), int64(c09Two31),
		int64(c09Max32)) {

		x := b
		x.eout = v
		c.fwd(l, p, x)
		c.transit(l, p, x)
	}
	// incoming expiry
	for _, v := range around32(0, int64(b.eout), int64(b.eout)+int64(p.tld),
		int64(b.eout)+int64(p.maxcltv), int64(c09Two31), int64(c09Max32)) {

		x := b
		x.ein = v
		c.fwd(l, p, x)
	}
	// height
	for _, v := range around32(0, int64(b.eout)-int64(p.rej),
		int64(b.eout)-int64(p.maxcltv), int64(c09Two31), int64(c09Max32),
		int64(c09Max32)+1-int64(p.rej), int64(c09Max32)+1-int64(p.maxcltv)) {

		x := b
		x.h = v
		c.fwd(l, p, x)
		c.transit(l, p, x)
	}
	// inbound fee (incoming re-aimed at the exact threshold / 1 below)
	for _, r := range c09IrGrid {
		x := b
		x.ir = r
		x.in = validIn(p, x.out, x.ib, r)
		c.fwd(l, p, x)
		if x.in > 0 {
			x.in--
			c.fwd(l, p, x)
		}
	}
	for _, bb := range c09IbGrid {
		x := b
		x.ib = bb
		x.in = validIn(p, x.out, bb, x.ir)
		c.fwd(l, p, x)
		if x.in > 0 {
			x.in--
			c.fwd(l, p, x)
		}
	}
	// policy fields around the base point's values
	for _, v := range around64(b.out, 0) {
		q := p
		q.min = v
		c.fwd(l, q, b)
		c.transit(l, q, b)
		q = p
		q.max = v
		c.fwd(l, q, b)
		c.transit(l, q, b)
	}
	for _, v := range around64(p.base, p.rate) {
		q := p
		if c.rng.Intn(2) == 0 {
			q.base = v
		} else {
			q.rate = v
		}
		c.fwd(l, q, b)
	}
	for _, v := range around32(int64(b.ein)-int64(b.eout), 0) {
		q := p
		q.tld = v
		c.fwd(l, q, b)
	}
	for _, v := range around32(int64(b.eout)-int64(b.h), 0,
		int64(c09Max32)+1-int64(b.h)) {

		q := p
		q.rej = v
		c.fwd(l, q, b)
		c.transit(l, q, b)
		q = p
		q.maxcltv = v
		c.fwd(l, q, b)
		c.transit(l, q, b)
	}
	for _, v := range around32(int64(b.ein) - int64(b.eout)) {
		q := p
		q.maxcltv = v
		c.fwd(l, q, b)
	}
	c.endCase()
}

// randomCase: independent draws for every field from the special-value pools.
func (c *c09) randomCase(l *channelLink, n int) {
	c.startCase("random")
	bw := uint64(l.Bandwidth())
	for k := 0; k < n; k++ {
		p := c.randPolicy(bw, c.rng.Intn(3) == 0)
		ib, ir := c.randInbound()
		var x c09in
		x.ib, x.ir = ib, ir
		x.out = c.pick64(c.logU(0, bw+1), c.logU(0, c09Amt13),
			c.logU(0, c09Max64), p.min, p.max, bw, bw+1)
		x.in = c.pick64(validIn(p, x.out, ib, ir), c.logU(0, c09Amt13),
			x.out, x.out+p.base, c.logU(0, c09Max64))
		x.h = c.pick32(uint32(c.rng.Intn(1_000_000)), c.rng.Uint32(),
			math.MaxUint32-uint32(c.rng.Intn(3000)), 0)
		x.eout = c.pick32(x.h+p.rej+uint32(c.rng.Intn(5)),
			x.h+uint32(c.rng.Intn(3000)), c.rng.Uint32(),
			x.h+p.maxcltv-uint32(c.rng.Intn(3)))
		x.ein = c.pick32(x.eout+p.tld, x.eout+p.tld+uint32(c.rng.Intn(3)),
			x.eout+uint32(c.rng.Intn(3000)), c.rng.Uint32(),
			x.eout-uint32(c.rng.Intn(3)))
		c.fwd(l, p, x)
		if k%4 == 0 {
			c.transit(l, p, x)
		}
	}
	c.endCase()
}

// corpus: fixed inputs — the package's own examples, the wrap-around witnesses
// of the Lean file, and the thresholds of CalcFee's int64 product.
func (c *c09) corpus(l *channelLink) {
	c.startCase("corpus")
	p := c09pol{min: 500, max: 1000, base: 10, rate: 0, tld: 20, rej: 0,
		maxcltv: 2016}
	for _, x := range []c09in{
		{in: 1500, out: 1000, ein: 200, eout: 150},
		{in: 100, out: 50, ein: 200, eout: 150},
		{in: 1500, out: 1200, ein: 200, eout: 150},
		{in: 1005, out: 1000, ein: 200, eout: 150},
		{in: 100005, out: 100000, ein: 200, eout: 150},
		{in: 1500, out: 1000, ein: 200, eout: 150, h: 190},
		{in: 1500, out: 1000, ein: 200, eout: 190},
		{in: 1500, out: 1000, ein: 10200, eout: 10100},
		{in: 1500, out: 1000, ein: 150 + 2017, eout: 150},
		{in: 1500, out: 1000, ein: 150 + 2016, eout: 150},
		{in: 1500, out: 1000, ein: 190, eout: 200},
		{in: 1007, out: 1000, ein: 200, eout: 150, ib: -2, ir: -1000},
		{in: 898, out: 1000, ein: 200, eout: 150, ib: -10, ir: -100000},
	} {
		c.fwd(l, p, x)
	}
	c.endCase()

	// wrap-around witnesses outside the realistic domain
	c.startCase("corpus-wrap")
	q := c09pol{min: 0, max: 0, base: 1000, rate: 100, tld: 40, rej: 3,
		maxcltv: 2016}
	// height + rejectDelta wraps: 2^32-2 + 3 = 1 (mod 2^32)
	c.fwd(l, q, c09in{in: 200_000, out: 100_000, ein: 140, eout: 100,
		h: math.MaxUint32 - 1})
	c.transit(l, q, c09in{out: 100_000, eout: 100, h: math.MaxUint32 - 1})
	// amt*rate wraps for an absurd rate (2^40 ppm): fee looks tiny
	q2 := q
	q2.rate = 1 << 40
	c.fwd(l, q2, c09in{in: 16_778_216, out: 16_777_216, ein: 1140,
		eout: 1100, h: 1000})
	c.endCase()

	// CalcFee's int64 product rate*int64(amt): |rate| is clamped to 10^7, the
	// product wraps for amt >= 2^63/10^7 ~ 9.22*10^11 msat (9.22 BTC).
	c.startCase("corpus-inbound")
	pz := c09pol{min: 0, max: 0, base: 0, rate: 0, tld: 40, rej: 3,
		maxcltv: 2016}
	for _, out := range []uint64{c09InbWrap - 1, c09InbWrap, c09InbWrap + 1,
		930_000_000_000, 1_000_000_000_000} {

		for _, r := range []int32{-c09Clamp, c09Clamp, math.MinInt32,
			math.MaxInt32, -c09Clamp + 1, c09Clamp - 1} {

			x := c09in{out: out, ein: 1140, eout: 1100, h: 1000, ir: r}
			x.in = out + 1000
			c.fwd(l, pz, x)
			x.in = validIn(pz, out, 0, r)
			c.fwd(l, pz, x)
			c.calc(0, r, out)
		}
	}
	c.endCase()
}

// feeGrids: ExpectedFee and InboundFee.CalcFee directly.
func (c *c09) feeGrids(nRand int) {
	c.startCase("fee-grid")
	bases := []uint64{0, 1, 1000, 1<<32 - 1, 1 << 32, c09Two63, c09Max64}
	rates := []uint64{0, 1, 999_999, 1_000_000, 1_000_001, 10_000_000,
		1 << 32, c09Max64}
	amts := around64(0, 1_000_000, 999_999_999, c09Amt13, c09InbWrap,
		c09Two63, c09Max64, 18_446_744_073_709, 1<<32)
	for _, b := range bases {
		for _, r := range rates {
			for _, a := range amts {
				c.efee(b, r, a)
			}
			if r > 1 {
				for _, a := range around64(c09Max64 / r) {
					c.efee(b, r, a)
				}
			}
		}
	}
	for _, b := range c09IbGrid {
		for _, r := range c09IrGrid {
			for _, a := range amts {
				c.calc(b, r, a)
			}
			// one unit of the proportional part, both signs: rounding
			for _, a := range []uint64{1, 999_999, 1_000_001, 1_999_999,
				2_000_000} {

				c.calc(b, r, a)
			}
		}
	}
	c.endCase()
	c.startCase("fee-random")
	for k := 0; k < nRand; k++ {
		c.efee(c.pick64(c.logU(0, 1<<32), c.logU(0, c09Max64)),
			c.pick64(c.logU(0, 1_000_000), c.logU(0, c09Max64)),
			c.pick64(c.logU(0, c09Amt13), c.logU(0, c09Max64)))
		ib, ir := c.randInbound()
		c.calc(ib, ir, c.pick64(c.logU(0, c09Amt13), c.logU(0, c09Max64),
			c.logU(c09InbWrap-1000, c09InbWrap+1000)))
	}
	c.endCase()
}

func TestVerifC09(t *testing.T) {
	outPath := os.Getenv("VERIF_OUT")
	if outPath == "" {
		t.Skip("VERIF_OUT not set")
	}
	seed, _ := strconv.ParseInt(os.Getenv("VERIF_SEED"), 10, 64)
	tier := os.Getenv("VERIF_TIER")
	// the databases of the test channels / switches live in t.TempDir():
	// keep them in memory when the machine offers a tmpfs (every write
	// transaction fsyncs).
	if st, err := os.Stat("/dev/shm"); err == nil && st.IsDir() {
		t.Setenv("TMPDIR", "/dev/shm")
	}
	f, err := os.Create(outPath)
	if err != nil {
		t.Fatal(err)
	}
	defer f.Close()
	c := &c09{t: t, w: bufio.NewWriterSize(f, 1<<20),
		rng: rand.New(rand.NewSource(seed*7919 + 9)),
		fix: make(map[*channelLink]*c09fix)}
	defer c.w.Flush()

	// constants read from the code (behaviourally where unexported)
	clampProbe := models.InboundFee{Rate: math.MaxInt32}
	c.pf("FACT defaultMaxCltv=%d inboundClampTimes1e6=%d feeAt1e6ppm=%d",
		DefaultMaxOutgoingCltvExpiry,
		clampProbe.CalcFee(1_000_000),
		uint64(ExpectedFee(models.ForwardingPolicy{FeeRate: 1_000_000},
			12345)))

	nCases, nRandFee, nChans := 3000, 10000, 12
	if tier == "thorough" {
		nCases, nRandFee, nChans = 60000, 400000, 40
	}

	// channels of very different sizes: alice's side decides the bandwidth
	sizes := []btcutil.Amount{5_000, 20_000, 1_000_000, 16_777_215,
		100_000_000, 1_000_000_000, 1_100_000_000, 25_000_000_000}
	for k := 0; k < nChans; k++ {
		a := sizes[k%len(sizes)]
		if k >= len(sizes) {
			a = btcutil.Amount(5_000 + c.logU(0, 30_000_000_000))
		}
		reserve := btcutil.Amount(c.pick64(0, 1000, uint64(a)/100))
		c.newLink(a, btcutil.Amount(c.pick64(0, 100_000, uint64(a))),
			reserve)
	}

	c.corpus(c.links[5])
	c.feeGrids(nRandFee)

	for k := 0; k < nCases; k++ {
		l := c.links[c.rng.Intn(len(c.links))]
		if c.rng.Intn(2) == 0 {
			c.shrinkBandwidth(l)
		}
		switch {
		case k%10 == 9:
			c.randomCase(l, 60)
		default:
			c.gridCase(l, k%4 == 3)
		}
	}
	// level 2: the real Switch choosing among parallel links to one peer
	nSw := 4000
	if tier == "thorough" {
		nSw = 80000
	}
	c.switchLevel(nSw)

	// level 3: end to end over a real three-hop network
	nE2E := 150
	if tier == "thorough" {
		nE2E = 1500
	}
	c.e2eLevel(nE2E)

	t.Logf("C09 harness: %d cases, %d lines", c.n, c.lines)
}

// ---- level 2: Switch.handlePacketAdd / getLocalLink over parallel links ------
//
// Line formats (LINK = elig unadv scid min max base rate tld rej maxcltv bw f f_scid f_fl f_dg):
//   sw  mode req via rjh h in out ein eout ib ir orig ia bi n LINK*n => chosen RES
//   swl req via h out eout orig bi n LINK*n                         => chosen RES
// mode 0 = channel-addressed forward (outgoingHop Left(id)), mode 1 =
// node-addressed forward (outgoingHop Right(pubkey), req = -1). The n links are
// ALL links the switch has to the next peer; req = index of the link that owns
// the id the sender used (by construction of the fixture), via = how the
// sender named it: 0 its ShortChanID as registered in the switch, 1 another
// alias of it, 2 the confirmed scid of a zero-conf channel, 3 an id nobody
// owns (n = 0, req = -1). orig = that id as an integer, ia = cfg.IsAlias(orig),
// bi = s.baseIndex[orig] (-1: no entry) as read from the switch. rjh =
// cfg.RejectHTLC. Per link: unadv = IsUnadvertised, scid = ShortChanID, f.. =
// the channel_update the fixture hands out for this channel (f = 0: lookup
// error). chosen = index of the link whose handleSwitchPacket received the add
// (sw) / that getLocalLink returned (swl), -1 if none.
// RES = VERDICT payload code e e_scid e_fl e_dg as on link level; for `sw` it is
// decoded from the reason of the update_fail_htlc packet that the switch mailed
// to the incoming link (mock obfuscator = plaintext), i.e. the failure the
// upstream peer receives.

// c09swLink is a link registered in the real Switch: the switch plumbing
// (ids, peer, mailbox, dust accessors) comes from the package's mockChannelLink,
// while the forwarding decision is delegated to a REAL channelLink with its own
// policy, cfg and channel bandwidth.
type c09swLink struct {
	*mockChannelLink
	real *channelLink
	elig bool
	got  *htlcPacket
}

func (l *c09swLink) CheckHtlcForward(payHash [32]byte, in,
	out lnwire.MilliSatoshi, ein, eout uint32, inb models.InboundFee,
	h uint32, scid lnwire.ShortChannelID,
	cr lnwire.CustomRecords) *LinkError {

	return l.real.CheckHtlcForward(payHash, in, out, ein, eout, inb, h, scid, cr)
}

func (l *c09swLink) CheckHtlcTransit(payHash [32]byte, amt lnwire.MilliSatoshi,
	timeout uint32, h uint32, cr lnwire.CustomRecords) *LinkError {

	return l.real.CheckHtlcTransit(payHash, amt, timeout, h, cr)
}

func (l *c09swLink) EligibleToForward() bool       { return l.elig }
func (l *c09swLink) Bandwidth() lnwire.MilliSatoshi { return l.real.Bandwidth() }
func (l *c09swLink) UpdateForwardingPolicy(p models.ForwardingPolicy) {
	l.real.UpdateForwardingPolicy(p)
}
func (l *c09swLink) handleSwitchPacket(pkt *htlcPacket) error {
	l.got = pkt
	return nil
}

// owns: the ids under which the sender may name this channel.
func (l *c09swLink) ids() (own lnwire.ShortChannelID,
	aliases []lnwire.ShortChannelID, confirmed *lnwire.ShortChannelID) {

	own = l.shortChanID
	for _, a := range l.aliases {
		if a != own {
			aliases = append(aliases, a)
		}
	}
	if l.zeroConf && l.confirmedZC && l.realScid != own {
		r := l.realScid
		confirmed = &r
	}
	return
}

type c09peer struct {
	*mockPeer
	pub [33]byte
}

func (p *c09peer) PubKey() [33]byte { return p.pub }

type c09sw struct {
	s     *Switch
	in    *mockChannelLink
	peers [][]*c09swLink
	keys  [][33]byte
	htlc  uint64
}

func (c *c09) newPeer(tag byte) *c09peer {
	p := &c09peer{mockPeer: &mockPeer{
		sentMsgs: make(chan lnwire.Message, 10),
		quit:     make(chan struct{}),
	}}
	p.pub[0] = 2
	p.pub[1] = tag
	return p
}

func c09Alias(k uint32) lnwire.ShortChannelID {
	return lnwire.ShortChannelID{BlockHeight: 16_000_000 + k, TxIndex: k,
		TxPosition: uint16(k)}
}

func (c *c09) setupSwitch() *c09sw {
	s, err := initSwitchWithTempDB(c.t, 840_000)
	if err != nil {
		c.t.Fatalf("initSwitch: %v", err)
	}
	if err := s.Start(); err != nil {
		c.t.Fatalf("switch start: %v", err)
	}
	c.t.Cleanup(func() { _ = s.Stop() })
	sw := &c09sw{s: s}

	mk := func(id byte, scid, realScid lnwire.ShortChannelID, peer *c09peer,
		unadv, zeroConf, option bool) *mockChannelLink {

		var cid lnwire.ChannelID
		cid[0] = id
		return newMockChannelLink(
			s, cid, scid, realScid, peer, true, unadv, zeroConf, option,
		)
	}
	sw.in = mk(1, lnwire.NewShortChanIDFromInt(1001),
		lnwire.ShortChannelID{}, c.newPeer(1), false, false, false)
	if err := s.AddLink(sw.in); err != nil {
		c.t.Fatalf("AddLink(in): %v", err)
	}

	// peers with 3, 2 and 1 parallel plain channels and one peer whose 5
	// channels use scid aliases (option-scid-alias public / unadvertised,
	// zero-conf unconfirmed / confirmed public / confirmed unadvertised), all
	// over real links of different channel sizes.
	type spec struct {
		real                   int
		unadv, zeroConf, option bool
		confirmed              bool
		nAlias                 int
	}
	groups := [][]spec{
		{{real: 2}, {real: 4}, {real: 5}},
		{{real: 3}, {real: 6}},
		{{real: 7}},
		{
			{real: 8, option: true, nAlias: 2},
			{real: 9, option: true, unadv: true, nAlias: 1},
			{real: 10, zeroConf: true, unadv: true, nAlias: 1},
			{real: 11, zeroConf: true, confirmed: true, nAlias: 1},
			{real: 1, zeroConf: true, confirmed: true, unadv: true},
		},
	}
	id := byte(10)
	alias := uint32(100)
	for g, specs := range groups {
		peer := c.newPeer(byte(10 + g))
		var ls []*c09swLink
		for _, sp := range specs {
			scid := lnwire.NewShortChanIDFromInt(2000 + uint64(id))
			realScid := lnwire.ShortChannelID{}
			if sp.zeroConf {
				// a zero-conf link is registered under an alias
				realScid = lnwire.ShortChannelID{}
				if sp.confirmed {
					realScid = scid
				}
				scid = c09Alias(alias)
				alias++
			}
			m := mk(id, scid, realScid, peer, sp.unadv, sp.zeroConf,
				sp.option)
			for k := 0; k < sp.nAlias; k++ {
				m.addAlias(c09Alias(alias))
				alias++
			}
			l := &c09swLink{mockChannelLink: m, real: c.links[sp.real],
				elig: true}
			id++
			if err := s.AddLink(l); err != nil {
				c.t.Fatalf("AddLink: %v", err)
			}
			// production wiring: the link's FailAliasUpdate is the switch's
			c.fix[l.real].swAlias = s.failAliasUpdate
			ls = append(ls, l)
		}
		sw.peers = append(sw.peers, ls)
		sw.keys = append(sw.keys, peer.pub)
	}

	// the switch's own source of channel updates (used by failAliasUpdate):
	// the update of the channel that owns the id, from the same fixture
	s.cfg.FetchLastChannelUpdate = func(scid lnwire.ShortChannelID) (
		*lnwire.ChannelUpdate1, error) {

		for _, ls := range sw.peers {
			for _, l := range ls {
				own, aliases, conf := l.ids()
				hit := scid == own || (conf != nil && scid == *conf)
				for _, a := range aliases {
					hit = hit || scid == a
				}
				if !hit {
					continue
				}
				f := c.fix[l.real]
				f.fetchCalls++
				if f.fetchErr || f.fetched == nil {
					return nil, errors.New("c09: no channel update")
				}
				cp := *f.fetched
				return &cp, nil
			}
		}
		return nil, errors.New("c09: unknown channel")
	}
	return sw
}

// swPolicies derives one policy per parallel link from a common policy p0 and a
// base point x that sits exactly on p0's thresholds: each link keeps p0
// (accepts) or moves ONE threshold by one unit across the HTLC (rejects).
func (c *c09) swPolicies(p0 c09pol, x c09in, n int) []c09pol {
	ps := make([]c09pol, n)
	gap := uint64(x.ein) - uint64(x.eout)
	for k := range ps {
		q := p0
		switch c.rng.Intn(14) {
		case 0:
			q.base++ // fee now 1 msat short
		case 1:
			q.rate += 1 + uint64(c.rng.Intn(1000))
		case 2:
			q.min = x.out + 1
		case 3:
			q.max = x.out - 1
			if q.max == 0 {
				q.max = 1
			}
		case 4:
			q.tld = uint32(gap + 1)
		case 5:
			if x.eout > x.h {
				q.rej = x.eout - x.h // eout <= h + rej
			}
		case 6:
			if x.eout > x.h+1 {
				q.maxcltv = x.eout - x.h - 1
			}
		case 7:
			if gap > 0 {
				q.maxcltv = uint32(gap - 1)
			}
		case 8:
			if q.base > 0 {
				q.base-- // still accepts, different policy
			}
		case 9:
			q.min = x.out // boundary, accepts
			q.max = x.out
		}
		ps[k] = q
	}
	return ps
}

func (c *c09) swEval(sw *c09sw, local bool) {
	g := c.pick64(0, 0, 0, 0, 1, 1, 2, 3, 3, 3)
	links := sw.peers[g]
	n := len(links)

	// common base policy and an HTLC sitting exactly on its thresholds
	minBw := uint64(math.MaxUint64)
	for _, l := range links {
		if bw := uint64(l.real.Bandwidth()); bw < minBw {
			minBw = bw
		}
	}
	p0 := c.randPolicy(minBw, false)
	p0.max = c.pick64(0, 0, 400_000_000_000)
	p0.maxcltv = c.pick32(2016, 2016, 2016, 144, uint32(100+c.rng.Intn(3000)))
	ib := c.pickI(0, 0, -1, 1, -1000, 1000, int32(c.rng.Intn(20001)-10000))
	ir := c.pickI(0, 0, -1, 1, -100, 100, -2500, 2500,
		int32(c.rng.Intn(200_001)-100_000))
	var x c09in
	x.ib, x.ir = ib, ir
	hi := c.pick64(minBw, minBw, minBw+1, 4*minBw+5)
	if hi > 400_000_000_000 {
		hi = 400_000_000_000
	}
	if p0.min > hi {
		p0.min = 0
	}
	x.out = c.logU(p0.min, hi)
	x.in = validIn(p0, x.out, ib, ir) + c.pick64(0, 0, 0, 1, 5)
	x.h = c.pick32(840_000, uint32(c.rng.Intn(1_000_000)), 1)
	lo := x.h + p0.rej + 1
	x.eout = lo + uint32(c.rng.Intn(int(p0.maxcltv)+1))/2
	x.ein = x.eout + p0.tld + uint32(c.rng.Intn(4))
	ps := c.swPolicies(p0, x, n)

	// how the sender names the channel
	mode, req, via := 0, c.rng.Intn(n), 0
	own, aliases, conf := links[req].ids()
	orig := own
	switch k := c.rng.Intn(3); {
	case k == 1 && len(aliases) > 0:
		via, orig = 1, aliases[c.rng.Intn(len(aliases))]
	case k == 2 && conf != nil:
		via, orig = 2, *conf
	}
	unknown := false
	switch r := c.rng.Intn(40); {
	case r == 0:
		// an id the switch does not know (plain or alias range)
		unknown, via = true, 3
		orig = lnwire.NewShortChanIDFromInt(999_999)
		if c.rng.Intn(2) == 0 {
			orig = c09Alias(9_999)
		}
	case r < 10 && !local:
		mode, req, via = 1, -1, 0
		orig = lnwire.ShortChannelID{}
	}

	var hash [32]byte
	c.rng.Read(hash[:])
	atomic.StoreUint32(&sw.s.bestHeight, x.h)
	desc := ""
	for k, l := range links {
		l.elig = c.rng.Intn(7) != 0
		l.got = nil
		c.apply(l.real, ps[k], ib, ir)
		f := c.setFix(l.real, ps[k], orig)
		if local {
			f.orig = lnwire.ShortChannelID{}
		}
		f.alias = nil
		e, u := 0, 0
		if l.elig {
			e = 1
		}
		if l.unadvertised {
			u = 1
		}
		fe := f.fetched
		if f.fetchErr {
			fe = nil
		}
		desc += fmt.Sprintf(" %d %d %d %d %d %d %d %d %d %d %d %s", e, u,
			l.shortChanID.ToUint64(), ps[k].min, ps[k].max, ps[k].base,
			ps[k].rate, ps[k].tld, ps[k].rej, ps[k].maxcltv,
			uint64(l.real.Bandwidth()), c09fpStr(fe))
	}

	pkt := &htlcPacket{
		incomingChanID:  sw.in.ShortChanID(),
		incomingHTLCID:  sw.htlc,
		outgoingChanID:  orig,
		incomingAmount:  lnwire.MilliSatoshi(x.in),
		amount:          lnwire.MilliSatoshi(x.out),
		incomingTimeout: x.ein,
		outgoingTimeout: x.eout,
		inboundFee:      models.InboundFee{Base: ib, Rate: ir},
		obfuscator:      NewMockObfuscator(),
	}
	sw.htlc++
	htlc := &lnwire.UpdateAddHTLC{
		PaymentHash: hash, Amount: lnwire.MilliSatoshi(x.out),
		Expiry: x.eout,
	}
	pkt.htlc = htlc
	if mode == 1 {
		pkt.outgoingHop = fn.NewRight[lnwire.ShortChannelID, [33]byte](
			sw.keys[g],
		)
	} else {
		pkt.outgoingHop = fn.NewLeft[lnwire.ShortChannelID, [33]byte](
			pkt.outgoingChanID,
		)
	}
	if unknown {
		n, req, desc = 0, -1, ""
	}
	// the switch's view of the id, read before the call
	ia, bi := 0, "-1"
	if sw.s.cfg.IsAlias(orig) {
		ia = 1
	}
	sw.s.indexMtx.RLock()
	if b, ok := sw.s.baseIndex[orig]; ok {
		bi = strconv.FormatUint(b.ToUint64(), 10)
	}
	sw.s.indexMtx.RUnlock()
	rjh := 0
	if !local && c.rng.Intn(30) == 0 {
		rjh = 1
	}

	res := "panic -1 0 0 0 0 0"
	var ret ChannelLink
	func() {
		defer func() {
			if r := recover(); r != nil {
				res = "panic -1 0 0 0 0 0"
			}
		}()
		if local {
			pkt.incomingChanID = lnwire.ShortChannelID{}
			l, le := sw.s.getLocalLink(pkt, htlc)
			ret = l
			res = c09Final(le)
			return
		}
		sw.s.cfg.RejectHTLC = rjh == 1
		err := sw.s.handlePacketAdd(pkt, htlc)
		sw.s.cfg.RejectHTLC = false
		switch e := err.(type) {
		case nil:
			res = "accept -1 0 0 0 0 0"
		case *LinkError:
			// what the upstream peer gets: the update_fail_htlc mailed
			// to the incoming link
			select {
			case fp := <-sw.in.packets:
				fail, ok := fp.htlc.(*lnwire.UpdateFailHTLC)
				if !ok || len(fail.Reason) < len(fakeHmac) ||
					fp.incomingHTLCID != pkt.incomingHTLCID {

					res = "badfailpkt -1 0 0 0 0 0"
					break
				}
				res = c09FinalWire(fail.Reason[len(fakeHmac):],
					e.FailureDetail)
				sw.in.mailBox.AckPacket(fp.inKey())
			case <-time.After(20 * time.Second):
				res = "nofailpkt -1 0 0 0 0 0"
			}
		default:
			res = "error -1 0 0 0 0 0"
		}
	}()
	chosen := -1
	for k, l := range links {
		if l.got != nil || (ret != nil && ret == ChannelLink(l)) {
			if chosen >= 0 {
				chosen = -2 // delivered to more than one link
			} else {
				chosen = k
			}
		}
	}
	if local {
		c.pf("swl %d %d %d %d %d %d %s %d%s => %d %s", req, via, x.h, x.out,
			x.eout, orig.ToUint64(), bi, n, desc, chosen, res)
		return
	}
	c.pf("sw %d %d %d %d %d %d %d %d %d %d %d %d %d %s %d%s => %d %s", mode,
		req, via, rjh, x.h, x.in, x.out, x.ein, x.eout, ib, ir,
		orig.ToUint64(), ia, bi, n, desc, chosen, res)
}

func (c *c09) switchLevel(nEvals int) {
	sw := c.setupSwitch()
	for k := 0; k < nEvals; k++ {
		if k%50 == 0 {
			if k > 0 {
				c.endCase()
			}
			c.startCase("switch")
			for _, ls := range sw.peers {
				for _, l := range ls {
					if c.rng.Intn(3) == 0 {
						c.shrinkBandwidth(l.real)
					}
				}
			}
		}
		c.swEval(sw, k%8 == 7)
		if k%4 == 1 {
			c.fauEval(sw)
		}
		if k%4 == 3 {
			c.circEval(sw)
		}
	}
	c.endCase()
	// outside the switch the links use the plain fixtures again
	for _, f := range c.fix {
		f.swAlias = nil
	}
}

// ---- level 3: end to end over a real three-hop network -----------------------
//
// alice -> bob -> carol with the package's newThreeHopNetwork: real switches,
// real channelLinks on both sides of both channels, real lnwallet channels.
// Nothing of the forwarding path is mocked except the onion codec (the
// package's mockHopIterator: the per-hop payloads are given in clear) and the
// failure obfuscator (plaintext). One evaluation = one payment:
//
//   e2e min max base rate tld rej maxcltv bw in out ein eout h ib ir => OUTCOME payload code
//     alice sends update_add_htlc(amount = in, expiry = ein) to bob with the
//     onion payload {next = the bob->carol channel, amt_to_forward = out,
//     outgoing_cltv = eout} for bob. (min..maxcltv, bw) = forwarding policy,
//     cfg and Bandwidth() of bob's OUTGOING link (bob->carol), (ib, ir) = the
//     inbound fee of the policy of bob's INCOMING link (alice->bob), h = bob's
//     best height. Both policies are installed with ONE call of
//     Switch.UpdateForwardingPolicies; the incoming link's outgoing-side fields
//     and the outgoing link's own inbound fee are decoys (values that would
//     change the verdict if they were used). The path exercised in bob:
//     channelLink.processRemoteAdds (packet construction from the add and the
//     payload) -> Switch.ForwardPackets -> handlePacketAdd -> CheckHtlcForward
//     -> failAddPacket / handleSwitchPacket -> the real outgoing link.
//   snd min max base rate tld rej maxcltv bw out eout h => OUTCOME payload code
//     alice's own Switch.SendHTLC(first hop = alice->bob, amount = out, expiry
//     = eout) with bob as exit hop; (min.., bw) = policy/cfg/bandwidth of
//     alice's link, h = alice's best height (SendHTLC -> getLocalLink ->
//     CheckHtlcTransit).
// OUTCOME: settled (the payment went through) | exitfail (failed by the final
// hop with a final-hop failure: the hop under test forwarded it) | VERDICT (the
// failure of the hop under test as decoded by the sender; for snd the local
// *LinkError with its detail) | local:VERDICT (e2e only: alice's own switch
// refused; not an evaluation of bob) | error:<text>.

func c09Payload(next lnwire.ShortChannelID, amt uint64, cltv uint32) *hop.Payload {
	var nb [8]byte
	binary.BigEndian.PutUint64(nb[:], next.ToUint64())
	return hop.NewLegacyPayload(&sphinx.HopData{
		NextAddress: nb, ForwardAmount: amt, OutgoingCltv: cltv,
	})
}

func c09MsgStr(msg lnwire.FailureMessage, detail FailureDetail) string {
	if msg == nil {
		return "nilmsg -1 0"
	}
	var b bytes.Buffer
	if err := lnwire.EncodeFailure(&b, msg, 0); err != nil {
		return fmt.Sprintf("encodefail -1 %d", uint16(msg.Code()))
	}
	var name, payload string
	var code int
	fmt.Sscan(c09FinalWire(b.Bytes(), detail), &name, &payload, &code)
	return fmt.Sprintf("%s %s %d", name, payload, code)
}

// c09Outcome classifies the result of a payment attempt.
func c09Outcome(err error) string {
	if err == nil {
		return "settled -1 0"
	}
	var le *LinkError
	if errors.As(err, &le) {
		return "local:" + c09MsgStr(le.WireMessage(), le.FailureDetail)
	}
	var fe *ForwardingError
	if errors.As(err, &fe) {
		switch fe.WireMessage().(type) {
		case *lnwire.FailIncorrectDetails,
			*lnwire.FailFinalIncorrectCltvExpiry,
			*lnwire.FailFinalIncorrectHtlcAmount,
			*lnwire.FailFinalExpiryTooSoon:

			return fmt.Sprintf("exitfail -1 %d",
				uint16(fe.WireMessage().Code()))
		}
		return c09MsgStr(fe.WireMessage(), nil)
	}
	txt := []byte(err.Error())
	for i := range txt {
		if txt[i] == ' ' || txt[i] == '\n' || txt[i] == '\t' {
			txt[i] = '_'
		}
	}
	if len(txt) > 60 {
		txt = txt[:60]
	}
	return "error:" + string(txt) + " -1 0"
}

type c09net struct {
	n *threeHopNetwork
}

func (c *c09) setHeights(n *threeHopNetwork, h uint32) {
	atomic.StoreUint32(&n.aliceServer.htlcSwitch.bestHeight, h)
	atomic.StoreUint32(&n.bobServer.htlcSwitch.bestHeight, h)
	atomic.StoreUint32(&n.carolServer.htlcSwitch.bestHeight, h)
}

func c09SetCltvCfg(l *channelLink, rej, maxcltv uint32) {
	l.Lock()
	l.cfg.OutgoingCltvRejectDelta = rej
	l.cfg.MaxOutgoingCltvExpiry = maxcltv
	l.Unlock()
}

func c09FwdPolicy(p c09pol, ib, ir int32) models.ForwardingPolicy {
	return models.ForwardingPolicy{
		MinHTLCOut:    lnwire.MilliSatoshi(p.min),
		MaxHTLC:       lnwire.MilliSatoshi(p.max),
		BaseFee:       lnwire.MilliSatoshi(p.base),
		FeeRate:       lnwire.MilliSatoshi(p.rate),
		TimeLockDelta: p.tld,
		InboundFee:    models.InboundFee{Base: ib, Rate: ir},
	}
}

// e2ePolicy: a realistic policy (everything inside the domain).
func (c *c09) e2ePolicy() c09pol {
	var p c09pol
	p.min = c.pick64(0, 1000, 5000, c.logU(1000, 100_000))
	p.max = c.pick64(0, 0, 150_000_000, c.logU(200_000, 250_000_000))
	p.base = c.pick64(0, 1, 1000, c.logU(0, 20_000))
	p.rate = c.pick64(0, 1, 100, 2500, 50_000, c.logU(0, 100_000))
	p.tld = c.pick32(6, 18, 40, 80, 144, 1+uint32(c.rng.Intn(200)))
	p.rej = c.pick32(3, 3, 10, 13, uint32(c.rng.Intn(20)))
	p.maxcltv = c.pick32(2016, 2016, 1000, 500+uint32(c.rng.Intn(2000)))
	return p
}

func (c *c09) e2eEval(n *threeHopNetwork) {
	h := c.pick32(100, 100, 1000, 840_000, uint32(1000+c.rng.Intn(900_000)))
	c.setHeights(n, h)
	p := c.e2ePolicy()
	ib := c.pickI(0, 0, -1000, 1000, -1, 1, int32(c.rng.Intn(20001)-10000))
	ir := c.pickI(0, 0, -100, 100, -2500, 2500, -50_000, 50_000,
		int32(c.rng.Intn(200_001)-100_000))

	in1, out1 := n.firstBobChannelLink, n.secondBobChannelLink
	// decoys: the incoming link's own outgoing-side policy would reject
	// everything (huge min_htlc, huge fees, huge delta); the outgoing link's
	// own inbound fee differs from the incoming link's.
	decoyIn := models.ForwardingPolicy{
		MinHTLCOut: 1 << 50, MaxHTLC: 1, BaseFee: 1 << 40, FeeRate: 900_000,
		TimeLockDelta: 1500,
		InboundFee:    models.InboundFee{Base: ib, Rate: ir},
	}
	n.bobServer.htlcSwitch.UpdateForwardingPolicies(
		map[wire.OutPoint]models.ForwardingPolicy{
			in1.ChannelPoint():  decoyIn,
			out1.ChannelPoint(): c09FwdPolicy(p, ib^0x5555, -ir-7),
		},
	)
	c09SetCltvCfg(out1, p.rej, p.maxcltv)
	c09SetCltvCfg(in1, 1<<20, 0) // decoy
	// alice's own link never stands in the way
	n.aliceServer.htlcSwitch.UpdateForwardingPolicies(
		map[wire.OutPoint]models.ForwardingPolicy{
			n.aliceChannelLink.ChannelPoint(): {},
		},
	)
	c09SetCltvCfg(n.aliceChannelLink, 0, 1<<30)

	// base point satisfying every rule, then at most one threshold moved
	var x c09in
	x.ib, x.ir, x.h = ib, ir, h
	lo, hi := p.min, uint64(200_000_000)
	if p.max != 0 && p.max < hi {
		hi = p.max
	}
	if lo < 1000 {
		lo = 1000
	}
	if lo > hi {
		lo = hi
	}
	x.out = c.logU(lo, hi)
	eoLo := uint64(h) + uint64(p.rej) + 1
	if eoLo < uint64(h)+testInvoiceCltvExpiry {
		eoLo = uint64(h) + testInvoiceCltvExpiry
	}
	x.eout = uint32(eoLo + uint64(c.rng.Intn(40)))
	gap := p.tld + uint32(c.rng.Intn(3))*uint32(c.rng.Intn(30))
	if gap > p.maxcltv {
		gap = p.maxcltv
	}
	x.ein = x.eout + gap
	mut := c.rng.Intn(16)
	switch mut {
	case 0: // one below min_htlc / exactly min_htlc
		if p.min > 1001 {
			x.out = p.min - uint64(c.rng.Intn(2))
		}
	case 1: // exactly max_htlc / one above
		if p.max != 0 {
			x.out = p.max + uint64(c.rng.Intn(2))
		}
	case 2: // outgoing expiry at / one past the too-soon bound
		x.eout = h + p.rej + uint32(c.rng.Intn(2))
		x.ein = x.eout + gap
	case 3: // outgoing expiry at / one past the too-far bound
		x.eout = h + p.maxcltv + uint32(c.rng.Intn(2))
		x.ein = x.eout + gap
	case 4, 5: // expiry gap one below / at the time-lock delta
		x.ein = x.eout + p.tld - uint32(c.rng.Intn(2))
	case 6: // expiry gap at / one above the maximum
		x.ein = x.eout + p.maxcltv + uint32(c.rng.Intn(2))
	case 7: // incoming expiry below the outgoing one
		x.ein = x.eout - uint32(1+c.rng.Intn(3))
	}
	x.in = validIn(p, x.out, ib, ir)
	switch mut {
	case 8, 9, 10, 11: // one msat short of / exactly the required fee
		if c.rng.Intn(2) == 0 && x.in > 0 {
			x.in--
		}
	case 12: // incoming below outgoing (only reachable with a discount)
		if x.out > 1 {
			x.in = x.out - 1
		}
	case 13:
		x.in += uint64(c.rng.Intn(1000))
	}
	if x.in == 0 {
		x.in = 1
	}

	bw := uint64(out1.Bandwidth())
	hops := []*hop.Payload{
		c09Payload(out1.ShortChanID(), x.out, x.eout),
		c09Payload(hop.Exit, x.out, x.eout),
	}
	res := "panic -1 0"
	func() {
		defer func() {
			if r := recover(); r != nil {
				res = "panic -1 0"
			}
		}()
		_, err := makePayment(
			n.aliceServer, n.carolServer, in1.ShortChanID(), hops,
			lnwire.MilliSatoshi(x.out), lnwire.MilliSatoshi(x.in), x.ein,
		).Wait(20 * time.Second)
		res = c09Outcome(err)
	}()
	c.pf("e2e %d %d %d %d %d %d %d %d %d %d %d %d %d %d %d => %s",
		p.min, p.max, p.base, p.rate, p.tld, p.rej, p.maxcltv, bw,
		x.in, x.out, x.ein, x.eout, x.h, x.ib, x.ir, res)
}

func (c *c09) sndEval(n *threeHopNetwork) {
	h := c.pick32(100, 1000, 840_000, uint32(1000+c.rng.Intn(900_000)))
	c.setHeights(n, h)
	p := c.e2ePolicy()
	l := n.aliceChannelLink
	n.aliceServer.htlcSwitch.UpdateForwardingPolicies(
		map[wire.OutPoint]models.ForwardingPolicy{
			l.ChannelPoint(): c09FwdPolicy(p, 77, -5),
		},
	)
	c09SetCltvCfg(l, p.rej, p.maxcltv)
	lo, hi := p.min, uint64(200_000_000)
	if p.max != 0 && p.max < hi {
		hi = p.max
	}
	if lo < 1000 {
		lo = 1000
	}
	if lo > hi {
		lo = hi
	}
	out := c.logU(lo, hi)
	eoLo := uint64(h) + uint64(p.rej) + 1
	if eoLo < uint64(h)+testInvoiceCltvExpiry {
		eoLo = uint64(h) + testInvoiceCltvExpiry
	}
	eout := uint32(eoLo + uint64(c.rng.Intn(40)))
	switch c.rng.Intn(8) {
	case 0:
		if p.min > 1001 {
			out = p.min - uint64(c.rng.Intn(2))
		}
	case 1:
		if p.max != 0 {
			out = p.max + uint64(c.rng.Intn(2))
		}
	case 2:
		eout = h + p.rej + uint32(c.rng.Intn(2))
	case 3:
		eout = h + p.maxcltv + uint32(c.rng.Intn(2))
	}
	bw := uint64(l.Bandwidth())
	hops := []*hop.Payload{c09Payload(hop.Exit, out, eout)}
	res := "panic -1 0"
	func() {
		defer func() {
			if r := recover(); r != nil {
				res = "panic -1 0"
			}
		}()
		_, err := makePayment(
			n.aliceServer, n.bobServer, l.ShortChanID(), hops,
			lnwire.MilliSatoshi(out), lnwire.MilliSatoshi(out), eout,
		).Wait(20 * time.Second)
		res = c09Outcome(err)
	}()
	c.pf("snd %d %d %d %d %d %d %d %d %d %d %d => %s",
		p.min, p.max, p.base, p.rate, p.tld, p.rej, p.maxcltv, bw, out,
		eout, h, res)
}

func (c *c09) e2eLevel(nEvals int) {
	channels, _, err := createClusterChannels(
		c.t, btcutil.SatoshiPerBitcoin*5, btcutil.SatoshiPerBitcoin*5,
	)
	if err != nil {
		c.t.Fatalf("createClusterChannels: %v", err)
	}
	n := newThreeHopNetwork(c.t, channels.aliceToBob, channels.bobToAlice,
		channels.bobToCarol, channels.carolToBob, testStartingHeight)
	if err := n.start(); err != nil {
		c.t.Fatalf("three hop network: %v", err)
	}
	defer n.stop()
	t0 := time.Now()
	defer func() {
		c.t.Logf("C09 level 3: %d payments in %v", nEvals, time.Since(t0))
	}()
	for k := 0; k < nEvals; k++ {
		if k%25 == 0 {
			if k > 0 {
				c.endCase()
			}
			c.startCase("e2e")
		}
		if k%5 == 4 {
			c.sndEval(n)
		} else {
			c.e2eEval(n)
		}
	}
	c.endCase()
}

// ---- Switch.failAliasUpdate, called directly ---------------------------------
//
//   fau scid inc ia a2r bi nal al0 sign F(bi) F(a2r) F(scid) own => asked R
// scid = the id passed, inc = the `incoming` flag, ia = cfg.IsAlias(scid), a2r =
// s.aliasToReal[scid], bi = s.baseIndex[scid] (-1: no entry), nal / al0 = number
// of aliases and first alias of forwardingIndex[bi].getAliases() (-1 -1: no
// such link), sign = cfg.SignAliasUpdate succeeds, F(k) = what
// cfg.FetchLastChannelUpdate returns for key k during this call (4 integers,
// first 0: error / k absent), own = 4 integers: the fixture update of the
// channel that owns scid by construction (first 0: nobody / lookup error).
// asked = the key FetchLastChannelUpdate was called with (-1: not called),
// R = fingerprint of the returned update (first 0: nil).
func (c *c09) fauEval(sw *c09sw) {
	s := sw.s
	// all ids the switch could be asked about
	type idOwner struct {
		id    lnwire.ShortChannelID
		owner *c09swLink
	}
	var ids []idOwner
	for _, ls := range sw.peers {
		for _, l := range ls {
			own, aliases, conf := l.ids()
			ids = append(ids, idOwner{own, l})
			for _, a := range aliases {
				ids = append(ids, idOwner{a, l})
			}
			if conf != nil {
				ids = append(ids, idOwner{*conf, l})
			}
		}
	}
	ids = append(ids, idOwner{lnwire.NewShortChanIDFromInt(999_999), nil},
		idOwner{c09Alias(9_999), nil}, idOwner{sw.in.ShortChanID(), nil})
	pick := ids[c.rng.Intn(len(ids))]
	scid, incoming := pick.id, c.rng.Intn(2) == 0

	// fresh fixtures for every channel
	for _, ls := range sw.peers {
		for _, l := range ls {
			c.setFix(l.real, c.e2ePolicy(), scid)
		}
	}
	signOk := c.rng.Intn(8) != 0
	var asked []lnwire.ShortChannelID
	origFetch, origSign := s.cfg.FetchLastChannelUpdate, s.cfg.SignAliasUpdate
	s.cfg.FetchLastChannelUpdate = func(k lnwire.ShortChannelID) (
		*lnwire.ChannelUpdate1, error) {

		asked = append(asked, k)
		return origFetch(k)
	}
	s.cfg.SignAliasUpdate = func(u *lnwire.ChannelUpdate1) (
		*ecdsa.Signature, error) {

		if !signOk {
			return nil, errors.New("c09: signer unavailable")
		}
		return origSign(u)
	}
	defer func() {
		s.cfg.FetchLastChannelUpdate, s.cfg.SignAliasUpdate = origFetch, origSign
	}()

	fetchStr := func(k lnwire.ShortChannelID, present bool) string {
		if !present {
			return "0 0 0 0"
		}
		u, err := origFetch(k)
		if err != nil {
			return "0 0 0 0"
		}
		return c09fpStr(u)
	}
	ia, a2r, bi, nal, al0 := 0, "-1", "-1", -1, "-1"
	if s.cfg.IsAlias(scid) {
		ia = 1
	}
	s.indexMtx.RLock()
	realScid, hasReal := s.aliasToReal[scid]
	baseScid, hasBase := s.baseIndex[scid]
	if hasReal {
		a2r = strconv.FormatUint(realScid.ToUint64(), 10)
	}
	if hasBase {
		bi = strconv.FormatUint(baseScid.ToUint64(), 10)
		if l, ok := s.forwardingIndex[baseScid]; ok {
			al := l.getAliases()
			nal = len(al)
			if nal > 0 {
				al0 = strconv.FormatUint(al[0].ToUint64(), 10)
			}
		}
	}
	s.indexMtx.RUnlock()
	fB, fR, fS := fetchStr(baseScid, hasBase), fetchStr(realScid, hasReal),
		fetchStr(scid, true)
	own := "0 0 0 0"
	if pick.owner != nil {
		f := c.fix[pick.owner.real]
		if !f.fetchErr && f.fetched != nil {
			own = c09fpStr(f.fetched)
		}
	}
	res := "panic"
	func() {
		defer func() {
			if r := recover(); r != nil {
				res = "-2 0 0 0 0"
			}
		}()
		u := s.failAliasUpdate(scid, incoming)
		key := "-1"
		if len(asked) == 1 {
			key = strconv.FormatUint(asked[0].ToUint64(), 10)
		} else if len(asked) > 1 {
			key = "-3"
		}
		res = key + " " + c09fpStr(u)
	}()
	inc, sg := 0, 0
	if incoming {
		inc = 1
	}
	if signOk {
		sg = 1
	}
	c.pf("fau %d %d %d %s %s %d %s %d %s %s %s %s => %s", scid.ToUint64(), inc,
		ia, a2r, bi, nal, al0, sg, fB, fR, fS, own, res)
}

// ---- aux traffic shaper --------------------------------------------------------
//
//   afwd AUX <the integers of fwd> FIX => RES calls seen
//   atr  AUX <the integers of tr>  FIX => RES calls seen
// AUX = custom handle auxbw: what the link's cfg.AuxTrafficShaper answers during
// this evaluation: IsCustomHTLC (0/1), ShouldHandleTraffic (0/1, -1: error),
// PaymentBandwidth (msat, -1: error). seen = 1 iff every call the shaper
// received had the expected arguments (the link's own short channel id, the
// link's Bandwidth(), the HTLC amount, the custom records of the call) and
// PaymentBandwidth was called iff ShouldHandleTraffic returned true.
type c09aux struct {
	AuxTrafficShaper // nil: the remaining methods must not be reached

	custom     bool
	handle     int
	bw         int64
	recs       lnwire.CustomRecords
	shouldN    int
	payN       int
	customN    int
	badArgs    int
	cid        lnwire.ShortChannelID
	linkBw, amt lnwire.MilliSatoshi
}

func (a *c09aux) records() lnwire.CustomRecords {
	if a == nil {
		return nil
	}
	return a.recs
}

func (a *c09aux) IsCustomHTLC(r lnwire.CustomRecords) bool {
	a.customN++
	if len(r) != len(a.recs) {
		a.badArgs++
	}
	return a.custom
}

func (a *c09aux) ShouldHandleTraffic(cid lnwire.ShortChannelID,
	_, htlcBlob fn.Option[tlv.Blob]) (bool, error) {

	a.shouldN++
	if cid != a.cid || htlcBlob.IsSome() != (len(a.recs) > 0) {
		a.badArgs++
	}
	if a.handle < 0 {
		return false, errors.New("c09: shaper unavailable")
	}
	return a.handle == 1, nil
}

func (a *c09aux) PaymentBandwidth(_, htlcBlob, _ fn.Option[tlv.Blob],
	linkBandwidth, htlcAmt lnwire.MilliSatoshi, _ lnwallet.AuxHtlcView,
	_ route.Vertex) (lnwire.MilliSatoshi, error) {

	a.payN++
	if linkBandwidth != a.linkBw || htlcAmt != a.amt ||
		htlcBlob.IsSome() != (len(a.recs) > 0) {

		a.badArgs++
	}
	if a.bw < 0 {
		return 0, errors.New("c09: no bandwidth")
	}
	return lnwire.MilliSatoshi(a.bw), nil
}

func (a *c09aux) str() string {
	cu := 0
	if a.custom {
		cu = 1
	}
	return fmt.Sprintf("%d %d %d", cu, a.handle, a.bw)
}

// seen: 1 iff the shaper was used as expected.
func (a *c09aux) seen(l *channelLink, bw, out uint64) int {
	if a.badArgs != 0 || a.customN > 1 || a.shouldN > 1 || a.payN > 1 {
		return 0
	}
	if a.payN == 1 && (a.shouldN != 1 || a.handle != 1) {
		return 0
	}
	return 1
}

// drawAux installs, one evaluation in six, a traffic shaper on the link.
func (c *c09) drawAux(l *channelLink, bw, out uint64) *c09aux {
	if c.rng.Intn(6) != 0 {
		return nil
	}
	a := &c09aux{cid: l.ShortChanID(), linkBw: lnwire.MilliSatoshi(bw),
		amt: lnwire.MilliSatoshi(out)}
	a.custom = c.rng.Intn(4) == 0
	a.handle = int(c.pick64(0, 1, 1, 1, 2)) - 0
	if a.handle == 2 {
		a.handle = -1
	}
	cand := []uint64{bw, out, out - 1, out + 1, 0, bw / 2, c.logU(0, c09Amt13)}
	v := cand[c.rng.Intn(len(cand))]
	if v > math.MaxInt64 {
		v = math.MaxInt64
	}
	a.bw = int64(v)
	if c.rng.Intn(8) == 0 {
		a.bw = -1
	}
	if c.rng.Intn(2) == 0 {
		a.recs = lnwire.CustomRecords{65536 + uint64(c.rng.Intn(9)): {1, 2}}
	}
	l.Lock()
	l.cfg.AuxTrafficShaper = fn.Some[AuxTrafficShaper](a)
	l.Unlock()
	return a
}

func (c *c09) clearAux(l *channelLink) {
	l.Lock()
	l.cfg.AuxTrafficShaper = fn.None[AuxTrafficShaper]()
	l.Unlock()
}

// ---- Switch.checkCircularForward, called directly -------------------------------
//
//   circ in out allow biIn biOut => R
// in / out = the incoming and the requested outgoing id, allow = the
// allowCircular argument, biIn / biOut = s.baseIndex[id] (-1: no entry). R = 0:
// nil, 1: FailTemporaryChannelFailure without channel_update and with detail
// OutgoingFailureCircularRoute, 2: anything else.
func (c *c09) circEval(sw *c09sw) {
	s := sw.s
	var ids []lnwire.ShortChannelID
	for _, ls := range sw.peers {
		for _, l := range ls {
			own, aliases, conf := l.ids()
			ids = append(ids, own)
			ids = append(ids, aliases...)
			if conf != nil {
				ids = append(ids, *conf)
			}
		}
	}
	ids = append(ids, lnwire.NewShortChanIDFromInt(999_999), c09Alias(9_999),
		sw.in.ShortChanID())
	in := ids[c.rng.Intn(len(ids))]
	out := ids[c.rng.Intn(len(ids))]
	if c.rng.Intn(3) == 0 {
		// another id of the same channel, or the same id
		for _, ls := range sw.peers {
			for _, l := range ls {
				own, aliases, conf := l.ids()
				all := append([]lnwire.ShortChannelID{own}, aliases...)
				if conf != nil {
					all = append(all, *conf)
				}
				for _, a := range all {
					if a == in {
						out = all[c.rng.Intn(len(all))]
					}
				}
			}
		}
	}
	allow := c.rng.Intn(3) == 0
	bi := func(id lnwire.ShortChannelID) string {
		s.indexMtx.RLock()
		defer s.indexMtx.RUnlock()
		if b, ok := s.baseIndex[id]; ok {
			return strconv.FormatUint(b.ToUint64(), 10)
		}
		return "-1"
	}
	biIn, biOut := bi(in), bi(out)
	res := 2
	func() {
		defer func() {
			if r := recover(); r != nil {
				res = 2
			}
		}()
		var hash [32]byte
		le := s.checkCircularForward(in, out, allow, hash)
		switch {
		case le == nil:
			res = 0
		default:
			m, ok := le.WireMessage().(*lnwire.FailTemporaryChannelFailure)
			if ok && m.Update == nil &&
				le.FailureDetail == OutgoingFailureCircularRoute {

				res = 1
			}
		}
	}()
	al := 0
	if allow {
		al = 1
	}
	c.pf("circ %d %d %d %s %s => %d", in.ToUint64(), out.ToUint64(), al, biIn,
		biOut, res)
}
