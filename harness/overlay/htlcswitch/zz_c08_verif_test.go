//go:build verif

package htlcswitch

// C08 harness. Injected with `go test -overlay`. Drives the package's own
// three-hop fixture (real links, real switches, real channels on real bbolt
// DBs, mock peers) with batches of concurrent payments Alice->Bob->Carol and
// Carol->Bob->Alice, injects delays / connection cuts / full restarts, and
// records the WIRE TRACE as seen by the receivers at all four channel ends plus
// payment results and a quiescence snapshot. The Lean driver drv_c08 runs the
// C08 monitor (the model as an acceptor) over that trace.
//
// Nothing in here ever fails the Go test because of timing: every wait is
// bounded and a timeout is reported in the trace (`quiesced => timeout`).

import (
	"bufio"
	"context"
	"crypto/sha256"
	"encoding/binary"
	"encoding/hex"
	"fmt"
	"math/rand"
	"net"
	"os"
	"runtime"
	"sort"
	"strconv"
	"strings"
	"sync"
	"sync/atomic"
	"testing"
	"time"

	"github.com/btcsuite/btcd/btcec/v2"
	"github.com/btcsuite/btcd/btcutil/v2"
	"github.com/btcsuite/btcd/wire/v2"
	sphinx "github.com/lightningnetwork/lightning-onion"
	"github.com/lightningnetwork/lnd/channeldb"
	"github.com/lightningnetwork/lnd/htlcswitch/hop"
	"github.com/lightningnetwork/lnd/input"
	"github.com/lightningnetwork/lnd/invoices"
	"github.com/lightningnetwork/lnd/kvdb"
	"github.com/lightningnetwork/lnd/lntypes"
	"github.com/lightningnetwork/lnd/lnwallet"
	"github.com/lightningnetwork/lnd/lnwire"
	"github.com/lightningnetwork/lnd/ticker"
)

// ---------------------------------------------------------------------------
// testing.TB shield: the fixture calls t.Fatal / require.* on setup problems.
// Those must not fail the Go test (they would be reported as a broken
// harness); the case is reported as inconclusive instead.

type c08TB struct {
	testing.TB
	mu   sync.Mutex
	errs []string
}

func (c *c08TB) c08note(s string) {
	c.mu.Lock()
	c.errs = append(c.errs, s)
	c.mu.Unlock()
}
func (c *c08TB) c08errs() []string {
	c.mu.Lock()
	defer c.mu.Unlock()
	return append([]string(nil), c.errs...)
}
func (c *c08TB) Helper()                           {}
func (c *c08TB) Fail()                             { c.c08note("Fail") }
func (c *c08TB) FailNow()                          { c.c08note("FailNow"); runtime.Goexit() }
func (c *c08TB) Error(a ...interface{})            { c.c08note(fmt.Sprint(a...)) }
func (c *c08TB) Errorf(f string, a ...interface{}) { c.c08note(fmt.Sprintf(f, a...)) }
func (c *c08TB) Fatal(a ...interface{})            { c.c08note(fmt.Sprint(a...)); runtime.Goexit() }
func (c *c08TB) Fatalf(f string, a ...interface{}) { c.c08note(fmt.Sprintf(f, a...)); runtime.Goexit() }
func (c *c08TB) Log(a ...interface{})              {}
func (c *c08TB) Logf(f string, a ...interface{})   {}
func (c *c08TB) Skip(a ...interface{})             { runtime.Goexit() }
func (c *c08TB) Skipf(f string, a ...interface{})  { runtime.Goexit() }
func (c *c08TB) SkipNow()                          { runtime.Goexit() }
func (c *c08TB) Failed() bool                      { return len(c.c08errs()) > 0 }

// ---------------------------------------------------------------------------
// specification of one case

const (
	c08KValid      = "valid"       // invoice known, amounts fine
	c08KOverpay    = "overpay"     // htlc pays more than the invoice
	c08KUnderpay   = "underpay"    // invoice asks for more than the htlc carries
	c08KUnknown    = "unknown"     // no invoice for the hash
	c08KHoldSettle = "hold_settle" // hold invoice, settled later
	c08KHoldCancel = "hold_cancel" // hold invoice, cancelled later
	c08KCancelled  = "cancelled"   // invoice cancelled before the payment
	c08KBadFee     = "badfee"      // amtIn - amtOut one msat below the policy fee
	c08KBigFee     = "bigfee"      // amtIn - amtOut above the policy fee
	c08KBadCltv    = "badcltv"     // incoming expiry too close to the outgoing one
	c08KLowAmt     = "lowamt"      // amtOut below the outgoing link's min htlc
	c08KUnknownHop = "unknownhop"  // next hop is not a channel of Bob
	c08KExitShort  = "exitshort"   // exit payload asks for more than the htlc carries
	c08KOverCap    = "overcap"     // more than the outgoing channel can carry
	c08KNegFee     = "negfee"      // Bob is asked to forward MORE than he receives
)

type c08Pay struct {
	n       int
	dir     int // 0: Alice->Bob->Carol, 1: Carol->Bob->Alice
	kind    string
	amtIn   lnwire.MilliSatoshi // first hop htlc amount
	amtOut  lnwire.MilliSatoshi // amount Bob is told to forward
	pre     lntypes.Preimage
	hash    lntypes.Hash
	pid     uint64
	gap     time.Duration // delay before launching (after the previous one)
	resolve time.Duration // hold invoices: delay between accept and settle/cancel

	// runtime
	launched bool
	sendErr  bool
	result   string // "" while unknown
}

// c08Pred places a cut at a protocol point: the nth message of type t arriving
// at node `at` on channel ch in the current epoch; `before`: that message is
// already lost, otherwise it is the last one delivered.
type c08Pred struct {
	at, ch, t string
	nth       int
	before    bool
}

type c08Spec struct {
	id        string
	kind      string         // plain|delay|cut|restart|tamper
	capSat    btcutil.Amount // Alice<->Bob, each side
	capSat2   btcutil.Amount // Bob<->Carol, each side
	pays      []*c08Pay
	delayProb float64 // per message
	delayMax  time.Duration
	// cut: at the cutAt-th passed wire message of the current epoch, the
	// channels in cutScope lose this and every later message until the restart.
	cutAt    []int    // one entry per planned restart (-1: timed restart, -2: cutPred)
	cutScope []string // "AB" | "BC" | "ALL"
	cutPred  []*c08Pred
	// crash (cutAt == -3): Bob dies right after his crashNth-th durable write
	// of kind crashLabel ("" = any write): every later write of Bob fails and
	// all his connections are cut; nothing is stopped gracefully before the
	// restart reloads Bob from what is on disk.
	crashLabel []string
	crashNth   []int
	// flaps: reconnect of ONE channel (both links re-created from disk, the
	// switches and their mailboxes / circuit maps stay up).
	// stall: a cut WITHOUT restart (the peer withholds its messages on that
	// channel from this point on); a later flap of the channel heals it.
	// lateLinks: after a restart Bob's switch starts before his links exist.
	lateLinks bool
	// postFlaps: when everything has settled down after the last restart, both
	// channels reconnect once more (second bind of each mailbox).
	postFlaps  bool
	stallPred  *c08Pred
	stallScope string
	flapPred   []*c08Pred
	flapCh     []string
	flapWait   []time.Duration
	restartT   []time.Duration
	tamper     bool // flip a bit of the first downstream update_fulfill Bob receives
}

// ---------------------------------------------------------------------------
// ungraceful crash of Bob: a kvdb wrapper around Bob's one database

var errC08Crashed = fmt.Errorf("c08: node crashed")

var c08Labels = []struct{ fn, label string }{
	{"AppendRemoteCommitChain", "sign"},
	{"AdvanceCommitChainTail", "revrecv"},
	{"UpdateChannelCommitment", "revsend"},
	{"SetFwdFilter", "fwdfilter"},
	{"CommitCircuits", "commitcirc"},
	{"OpenCircuits", "keystone"},
	{"DeleteCircuits", "delcirc"},
	{"TrimOpenCircuits", "trim"},
	{"AckAddHtlcs", "ack"},
	{"ackSettleFail", "ack"},
	{"AckSettleFails", "ack"},
	{"RemoveFwdPkg", "gc"},
}

func c08WriteLabel() string {
	var pcs [40]uintptr
	n := runtime.Callers(3, pcs[:])
	frames := runtime.CallersFrames(pcs[:n])
	for {
		f, more := frames.Next()
		for _, l := range c08Labels {
			if strings.Contains(f.Function, l.fn) {
				return l.label
			}
		}
		if !more {
			break
		}
	}
	return "other"
}

type c08CrashDB struct {
	kvdb.Backend
	r       *c08Run
	wmu     sync.Mutex // serialises Bob's writes (bbolt does anyway)
	crashed bool
	label   string
	nth     int // crash after the nth matching write; -1: not armed
	count   int
	// flap trigger: after the flapNth-th write of kind flapLabel, ask the
	// driver to flap channel flapCh and wait until flapLink is quitting.
	flapLabel string
	flapNth   int
	flapCnt   int
	flapCh    string
	flapLink  *channelLink
}

func (d *c08CrashDB) Update(f func(tx kvdb.RwTx) error, reset func()) error {
	d.wmu.Lock()
	defer d.wmu.Unlock()
	if d.crashed {
		return errC08Crashed
	}
	lbl := c08WriteLabel()
	if err := d.Backend.Update(f, reset); err != nil {
		return err
	}
	if d.flapNth > 0 && d.flapLabel == lbl {
		d.flapCnt++
		if d.flapCnt == d.flapNth {
			d.flapNth = 0
			select {
			case d.r.flapSig <- d.flapCh:
			default:
			}
			if l := d.flapLink; l != nil {
				select {
				case <-l.cg.Done():
				case <-time.After(2 * time.Second):
				}
			}
		}
	}
	if d.nth >= 0 && (d.label == "" || d.label == lbl) {
		d.count++
		if d.count >= d.nth {
			d.crashed = true
			d.nth = -1
			r := d.r
			r.mu.Lock()
			r.cut["AB"], r.cut["BC"] = true, true
			r.cutArmed, r.predArmed = -1, nil
			r.crashes++
			r.lines = append(r.lines, fmt.Sprintf("x crash after=%s n=%d", lbl, d.count))
			r.mu.Unlock()
			select {
			case r.cutSig <- struct{}{}:
			default:
			}
		}
	}
	return nil
}

func (d *c08CrashDB) arm(label string, nth int) {
	d.wmu.Lock()
	d.crashed, d.label, d.nth, d.count = false, label, nth, 0
	d.wmu.Unlock()
}

// ---------------------------------------------------------------------------
// one running case

type c08Run struct {
	st   *testing.T
	tb   *c08TB
	spec *c08Spec
	rng  *rand.Rand // only used under mu

	mu        sync.Mutex
	lines     []string
	seq       int
	lastWire  time.Time
	epochMsgs int // passed wire messages in this epoch
	cut       map[string]bool
	cutPlan   int // index into spec.cutAt
	cutArmed  int // message index that triggers the cut, -1 none
	predArmed *c08Pred
	predCount int
	cutScope  string
	cutSig    chan struct{}
	tampered  bool
	dropped   int
	delayed   int

	linkFailed int32
	holdsOpen  int32 // hold invoices the harness has not yet settled / cancelled
	crashDB    *c08CrashDB
	crashes    int
	flaps      int
	flapSig    chan string
	flapping   map[string]bool // channel whose two links are being re-created: hold its messages
	flapPlan   int
	flapArmed  *c08Pred
	flapCount  int
	ackStop    chan struct{}

	idAB, idBC lnwire.ChannelID
	scAB, scBC lnwire.ShortChannelID
	outpoints  [4]wire.OutPoint
	dbs        [4]*channeldb.DB
	privs      [4][]byte

	n    *threeHopNetwork
	regs [3]*mockInvoiceRegistry // alice, bob, carol

	resMu sync.Mutex
	epoch int
}

func (r *c08Run) emit(format string, a ...interface{}) {
	r.mu.Lock()
	r.lines = append(r.lines, fmt.Sprintf(format, a...))
	r.mu.Unlock()
}

func (r *c08Run) chanName(id lnwire.ChannelID) string {
	switch id {
	case r.idAB:
		return "AB"
	case r.idBC:
		return "BC"
	}
	return "?"
}

func c08hx(b []byte) string { return hex.EncodeToString(b) }

// hook is the message interceptor installed at the server `at`; it sees every
// message that node RECEIVES, in delivery order, before the link handles it.
func (r *c08Run) hook(at string) messageInterceptor {
	return func(m lnwire.Message) (bool, error) {
		var (
			cid  lnwire.ChannelID
			desc string
			prot = true // a commitment-protocol message (counts for cut points)
		)
		switch msg := m.(type) {
		case *lnwire.UpdateAddHTLC:
			cid = msg.ChanID
			desc = fmt.Sprintf("t=add id=%d hash=%s amt=%d exp=%d", msg.ID,
				c08hx(msg.PaymentHash[:]), uint64(msg.Amount), msg.Expiry)
		case *lnwire.UpdateFulfillHTLC:
			cid = msg.ChanID
			// tamper: Carol (or the wire) hands Bob a wrong preimage.
			if at == "bob" && r.spec.tamper {
				r.mu.Lock()
				if !r.tampered {
					r.tampered = true
					msg.PaymentPreimage[7] ^= 0x40
				}
				r.mu.Unlock()
			}
			desc = fmt.Sprintf("t=ful id=%d pre=%s", msg.ID, c08hx(msg.PaymentPreimage[:]))
		case *lnwire.UpdateFailHTLC:
			cid = msg.ChanID
			desc = fmt.Sprintf("t=fail id=%d", msg.ID)
		case *lnwire.UpdateFailMalformedHTLC:
			cid = msg.ChanID
			desc = fmt.Sprintf("t=mal id=%d", msg.ID)
		case *lnwire.CommitSig:
			cid = msg.ChanID
			desc = fmt.Sprintf("t=sig n=%d", len(msg.HtlcSigs))
		case *lnwire.RevokeAndAck:
			cid = msg.ChanID
			desc = "t=rev"
		case *lnwire.ChannelReestablish:
			cid = msg.ChanID
			desc = fmt.Sprintf("t=reest next=%d rem=%d", msg.NextLocalCommitHeight, msg.RemoteCommitTailHeight)
			prot = false
		case *lnwire.ChannelReady:
			cid = msg.ChanID
			desc = "t=ready"
			prot = false
		case *lnwire.UpdateFee:
			cid = msg.ChanID
			desc = fmt.Sprintf("t=fee v=%d", msg.FeePerKw)
		case *lnwire.Error:
			cid = msg.ChanID
			desc = "t=err"
			prot = false
		default:
			return false, nil
		}
		ch := r.chanName(cid)

		// a channel whose links are being re-created: hold the message until both
		// links are registered (a real peer only talks on an established connection)
		for i := 0; i < 25000; i++ {
			r.mu.Lock()
			hold := r.flapping[ch]
			r.mu.Unlock()
			if !hold {
				break
			}
			time.Sleep(200 * time.Microsecond)
		}

		// delay (outside the lock; delays this node's whole inbound queue,
		// which preserves per-connection order).
		var d time.Duration
		r.mu.Lock()
		if prot && r.spec.delayProb > 0 && r.rng.Float64() < r.spec.delayProb {
			d = time.Duration(1+r.rng.Int63n(int64(r.spec.delayMax/time.Millisecond))) * time.Millisecond
			r.delayed++
		}
		r.mu.Unlock()
		if d > 0 {
			time.Sleep(d)
		}

		r.mu.Lock()
		defer r.mu.Unlock()
		trigger, after := false, false
		if prot && !r.cut[ch] {
			if r.cutArmed >= 0 && r.epochMsgs >= r.cutArmed {
				trigger = true
			}
			if pr := r.predArmed; pr != nil && pr.at == at && pr.ch == ch && strings.HasPrefix(desc, "t="+pr.t+" ") || pr != nil && pr.at == at && pr.ch == ch && desc == "t="+pr.t {
				r.predCount++
				if r.predCount == pr.nth {
					trigger, after = true, !pr.before
				}
			}
		}
		setCut := func() {
			r.cutArmed, r.predArmed = -1, nil
			switch r.cutScope {
			case "ALL":
				r.cut["AB"], r.cut["BC"] = true, true
			default:
				r.cut[r.cutScope] = true
			}
			r.lines = append(r.lines, fmt.Sprintf("x cut scope=%s after=%d", r.cutScope, r.epochMsgs))
			select {
			case r.cutSig <- struct{}{}:
			default:
			}
		}
		if trigger && !after {
			setCut()
		}
		if r.cut[ch] {
			r.dropped++
			return true, nil
		}
		if prot {
			r.epochMsgs++
		}
		r.seq++
		r.lastWire = time.Now()
		if trigger && after {
			defer setCut()
		}
		if fp := r.flapArmed; fp != nil && prot && fp.at == at && fp.ch == ch &&
			(strings.HasPrefix(desc, "t="+fp.t+" ") || desc == "t="+fp.t) {
			r.flapCount++
			if r.flapCount == fp.nth {
				r.flapArmed = nil
				select {
				case r.flapSig <- r.spec.flapCh[r.flapPlan]:
				default:
				}
			}
		}
		r.lines = append(r.lines, fmt.Sprintf("w seq=%d at=%s ch=%s %s", r.seq, at, ch, desc))
		return false, nil
	}
}

// ---------------------------------------------------------------------------
// channels

func c08Restore(st *testing.T, db *channeldb.DB, priv []byte, op wire.OutPoint) (*lnwallet.LightningChannel, error) {
	keyPriv, keyPub := btcec.PrivKeyFromBytes(priv)
	chans, err := db.ChannelStateDB().FetchOpenChannels(keyPub)
	if err != nil {
		return nil, err
	}
	for _, c := range chans {
		if c.FundingOutpoint == op {
			signer := input.NewMockSigner([]*btcec.PrivateKey{keyPriv}, nil)
			pool := lnwallet.NewSigPool(2, signer)
			if err := pool.Start(); err != nil {
				return nil, err
			}
			st.Cleanup(func() { _ = pool.Stop() })
			return lnwallet.NewLightningChannel(
				signer, c, pool,
				lnwallet.WithLeafStore(&lnwallet.MockAuxLeafStore{}),
				lnwallet.WithAuxSigner(lnwallet.NewDefaultAuxSignerMock(st)),
			)
		}
	}
	return nil, fmt.Errorf("channel %v not found", op)
}

func c08ParentDB(tb testing.TB, c *lnwallet.LightningChannel) *channeldb.DB {
	return testChannelStateDB(tb, c).GetParentDB()
}

// c08PkgState inspects the forwarding packages of one of Bob's channels:
//   - staleShifted / stalePlain: adds whose AckFilter bit is not set although the
//     htlc is gone from both commitments ("shifted": an earlier add of the same
//     package is acked);
//   - misread: ids of still-live, forwarded (FwdFilter bit set) adds of a
//     processed package that sit behind an acked add and whose rank among the
//     un-acked adds has a clear FwdFilter bit.
func c08PkgState(ch *lnwallet.LightningChannel) (staleShifted, stalePlain int, misread []uint64, err error) {
	pkgs, err := ch.LoadFwdPkgs()
	if err != nil {
		return 0, 0, nil, err
	}
	live := map[uint64]bool{}
	st := ch.State()
	for _, h := range st.LocalCommitment.Htlcs {
		if h.Incoming {
			live[h.HtlcIndex] = true
		}
	}
	for _, h := range st.RemoteCommitment.Htlcs {
		if h.Incoming {
			live[h.HtlcIndex] = true
		}
	}
	for _, p := range pkgs {
		if p.State == channeldb.FwdStateLockedIn {
			continue
		}
		rank := 0
		ackedBefore := false
		for j, u := range p.Adds {
			if p.AckFilter.Contains(uint16(j)) {
				ackedBefore = true
				continue
			}
			k := rank
			rank++
			add, ok := u.UpdateMsg.(*lnwire.UpdateAddHTLC)
			if !ok {
				continue
			}
			if !live[add.ID] {
				if ackedBefore {
					staleShifted++
				} else {
					stalePlain++
				}
				continue
			}
			if k != j && p.FwdFilter.Contains(uint16(j)) && !p.FwdFilter.Contains(uint16(k)) {
				misread = append(misread, add.ID)
			}
		}
	}
	return staleShifted, stalePlain, misread, nil
}

func (r *c08Run) emitPkgState(tag string, name string, ch *lnwallet.LightningChannel) {
	ss, sp, mis, err := c08PkgState(ch)
	if err != nil {
		r.emit("note pkgstate %s: %s", name, c08clean(err.Error()))
		return
	}
	ids := make([]string, len(mis))
	for i, id := range mis {
		ids[i] = strconv.FormatUint(id, 10)
	}
	r.emit("%s pkgs end=%s stale_shifted=%d stale_plain=%d misread=%s", tag, name, ss, sp, c08Join(ids))
}

func c08Join(l []string) string {
	if len(l) == 0 {
		return "-"
	}
	return strings.Join(l, ",")
}

// ---------------------------------------------------------------------------
// network (re)construction

func (r *c08Run) buildNetwork(cc *clusterChannels) error {
	keep := r.regs
	opt := func(a, b, c *mockServer) {
		if keep[0] != nil {
			a.registry, b.registry, c.registry = keep[0], keep[1], keep[2]
		}
	}
	var n *threeHopNetwork
	bobStarted := false
	if r.epoch > 0 && r.spec.lateLinks {
		// Bob's switch comes up (and replays its forwarding packages) BEFORE his
		// links are registered, as when the peers connect late after a node
		// restart: responses for circuits whose incoming link is not there yet
		// are parked by the mail orchestrator as "unclaimed".
		n = r.newNetworkBobFirst(cc, opt)
		bobStarted = true
	} else {
		n = newThreeHopNetwork(r.tb, cc.aliceToBob, cc.bobToAlice, cc.bobToCarol, cc.carolToBob,
			testStartingHeight, opt)
	}
	if keep[0] == nil {
		r.regs = [3]*mockInvoiceRegistry{n.aliceServer.registry, n.bobServer.registry, n.carolServer.registry}
	}
	n.aliceServer.intersect(r.hook("alice"))
	if !bobStarted {
		n.bobServer.intersect(r.hook("bob"))
	}
	n.carolServer.intersect(r.hook("carol"))
	epoch := r.epoch
	onFail := func(id lnwire.ChannelID, _ lnwire.ShortChannelID, e LinkFailureError) {
		atomic.AddInt32(&r.linkFailed, 1)
		r.emit("note linkfail epoch=%d ch=%s code=%d action=%d", epoch, r.chanName(id), int(e.code), int(e.FailureAction))
	}
	for _, l := range []*channelLink{n.aliceChannelLink, n.firstBobChannelLink, n.secondBobChannelLink, n.carolChannelLink} {
		r.tuneLink(l, onFail)
	}
	r.n = n
	// In production the switch acks duplicate settle/fail references every
	// 15s (AckEventTicker); the fixture's ticker never fires. Fire it often.
	r.ackStop = make(chan struct{})
	go func(stop chan struct{}, sw *Switch) {
		ft, ok := sw.cfg.AckEventTicker.(*ticker.Force)
		if !ok {
			return
		}
		for {
			select {
			case <-stop:
				return
			case <-time.After(40 * time.Millisecond):
			}
			select {
			case ft.Force <- time.Now():
			case <-stop:
				return
			case <-time.After(20 * time.Millisecond):
			}
		}
	}(r.ackStop, n.bobServer.htlcSwitch)
	if r.epoch > 0 {
		cm := n.bobServer.htlcSwitch.circuits
		r.emit("note bob circuit map after restart: pending=%d open=%d", cm.NumPending(), cm.NumOpen())
	}
	for _, s := range []*mockServer{n.aliceServer, n.bobServer, n.carolServer} {
		if s == n.bobServer && bobStarted {
			continue
		}
		if err := s.Start(); err != nil {
			return err
		}
	}
	// bounded wait for the links to finish channel_reestablish
	deadline := time.Now().Add(20 * time.Second)
	for time.Now().Before(deadline) {
		if n.aliceChannelLink.EligibleToForward() && n.firstBobChannelLink.EligibleToForward() &&
			n.secondBobChannelLink.EligibleToForward() && n.carolChannelLink.EligibleToForward() {
			return nil
		}
		// a planned cut hit during channel_reestablish: the links can not
		// become eligible before the next restart.
		r.mu.Lock()
		cut := r.cut["AB"] || r.cut["BC"]
		r.mu.Unlock()
		if cut {
			return nil
		}
		time.Sleep(10 * time.Millisecond)
	}
	return fmt.Errorf("links not eligible")
}

// newNetworkBobFirst is newThreeHopNetwork with one difference: Bob's server (and
// switch) is started before Bob's two links are created.
func (r *c08Run) newNetworkBobFirst(cc *clusterChannels, opt serverOption) *threeHopNetwork {
	t := r.tb
	aliceDb := testChannelStateDB(t, cc.aliceToBob).GetParentDB()
	bobDb := testChannelStateDB(t, cc.bobToAlice).GetParentDB()
	carolDb := testChannelStateDB(t, cc.carolToBob).GetParentDB()
	hn := newHopNetwork()
	mk := func(name string, db *channeldb.DB) *mockServer {
		s, err := newMockServer(t, name, testStartingHeight, db, hn.defaultDelta)
		if err != nil {
			t.Fatalf("mock server: %v", err)
		}
		return s
	}
	aliceServer, bobServer, carolServer := mk("alice", aliceDb), mk("bob", bobDb), mk("carol", carolDb)
	opt(aliceServer, bobServer, carolServer)
	aliceDec, bobDec, carolDec := newMockIteratorDecoder(), newMockIteratorDecoder(), newMockIteratorDecoder()
	// hooks must be installed before a server's loop runs
	bobServer.intersect(r.hook("bob"))
	if err := bobServer.Start(); err != nil {
		t.Fatalf("bob start: %v", err)
	}
	time.Sleep(30 * time.Millisecond)
	r.emit("note bob switch started before his links: unclaimed=%d", r.unclaimed(bobServer.htlcSwitch))
	link := func(s, p *mockServer, c *lnwallet.LightningChannel, d *mockIteratorDecoder) *channelLink {
		l, err := hn.createChannelLink(s, p, c, d)
		if err != nil {
			t.Fatalf("link: %v", err)
		}
		return l.(*channelLink)
	}
	n := &threeHopNetwork{
		aliceServer: aliceServer, aliceOnionDecoder: aliceDec,
		bobServer: bobServer, bobOnionDecoder: bobDec,
		carolServer: carolServer, carolOnionDecoder: carolDec,
		hopNetwork: *hn,
	}
	// Bob's links first: his server loop is already running and would discard a
	// channel_reestablish for a link that does not exist yet.
	n.firstBobChannelLink = link(bobServer, aliceServer, cc.bobToAlice, bobDec)
	n.secondBobChannelLink = link(bobServer, carolServer, cc.bobToCarol, bobDec)
	n.aliceChannelLink = link(aliceServer, bobServer, cc.aliceToBob, aliceDec)
	n.carolChannelLink = link(carolServer, bobServer, cc.carolToBob, carolDec)
	return n
}

func (r *c08Run) tuneLink(l *channelLink, onFail func(lnwire.ChannelID, lnwire.ShortChannelID, LinkFailureError)) {
	l.cfg.OnChannelFailure = onFail
	// the fixture shares ONE mockObfuscator (which mutates itself) between
	// all links of all nodes; give every htlc its own.
	l.cfg.ExtractErrorEncrypter = func(*btcec.PublicKey) (hop.ErrorEncrypter, lnwire.FailCode) {
		return NewMockObfuscator(), lnwire.CodeNone
	}
}

// flap reconnects ONE channel: both links are removed from their switches
// (stopped), messages in flight are lost, both channel objects are reloaded
// from disk and two new links are attached to the SAME switches (mailboxes and
// circuit maps survive).
func (r *c08Run) flap(ch string) error {
	n := r.n
	var (
		srvA, srvB   *mockServer
		linkA, linkB *channelLink
		iA, iB       int
		decA, decB   *mockIteratorDecoder
	)
	if ch == "AB" {
		srvA, srvB, linkA, linkB, iA, iB = n.aliceServer, n.bobServer, n.aliceChannelLink, n.firstBobChannelLink, 0, 1
		decA, decB = n.aliceOnionDecoder, n.bobOnionDecoder
	} else {
		srvA, srvB, linkA, linkB, iA, iB = n.bobServer, n.carolServer, n.secondBobChannelLink, n.carolChannelLink, 2, 3
		decA, decB = n.bobOnionDecoder, n.carolOnionDecoder
	}
	r.mu.Lock()
	r.cut[ch] = true
	r.mu.Unlock()
	id := linkA.ChanID()
	_ = linkB
	done := make(chan struct{})
	go func() {
		srvA.htlcSwitch.RemoveLink(id)
		srvB.htlcSwitch.RemoveLink(id)
		close(done)
	}()
	select {
	case <-done:
	case <-time.After(30 * time.Second):
		return fmt.Errorf("flap stop timeout")
	}
	// everything still queued for this channel is lost
	deadline := time.Now().Add(3 * time.Second)
	for (len(srvA.messages) != 0 || len(srvB.messages) != 0) && time.Now().Before(deadline) {
		time.Sleep(time.Millisecond)
	}
	time.Sleep(2 * time.Millisecond)
	r.mu.Lock()
	r.lines = append(r.lines, "x flap ch="+ch)
	r.cut[ch] = false
	r.flapping[ch] = true
	r.flaps++
	if r.spec.stallPred != nil && r.predArmed == r.spec.stallPred && r.spec.stallScope == ch {
		r.predArmed = nil // the stall would have no healing reconnect any more
	}
	r.mu.Unlock()
	defer func() {
		r.mu.Lock()
		r.flapping[ch] = false
		r.mu.Unlock()
	}()
	cA, err := c08Restore(r.st, r.dbs[iA], r.privs[iA], r.outpoints[iA])
	if err != nil {
		return err
	}
	cB, err := c08Restore(r.st, r.dbs[iB], r.privs[iB], r.outpoints[iB])
	if err != nil {
		return err
	}
	bobSide, bobName := cA, "bob.BC"
	if ch == "AB" {
		bobSide, bobName = cB, "bob.AB"
	}
	if pkgs, err := bobSide.LoadFwdPkgs(); err == nil {
		for _, p := range pkgs {
			r.emit("note fwdpkg(flap) end=%s height=%d state=%d adds=%d fwd=%v ack=%v sf=%d sfack=%v",
				bobName, p.Height, int(p.State), len(p.Adds), p.FwdFilter, p.AckFilter, len(p.SettleFails),
				p.SettleFailFilter)
		}
	}
	epoch := r.epoch
	onFail := func(id lnwire.ChannelID, _ lnwire.ShortChannelID, e LinkFailureError) {
		atomic.AddInt32(&r.linkFailed, 1)
		r.emit("note linkfail epoch=%d ch=%s code=%d action=%d", epoch, r.chanName(id), int(e.code), int(e.FailureAction))
	}
	// the fixture's decoder caches iterators that are consumed on first use;
	// a re-created link must decode afresh (as after a full restart).
	decA, decB = newMockIteratorDecoder(), newMockIteratorDecoder()
	lA, err := n.hopNetwork.createChannelLink(srvA, srvB, cA, decA)
	if err != nil {
		return err
	}
	lB, err := n.hopNetwork.createChannelLink(srvB, srvA, cB, decB)
	if err != nil {
		return err
	}
	r.tuneLink(lA.(*channelLink), onFail)
	r.tuneLink(lB.(*channelLink), onFail)
	r.mu.Lock()
	r.flapping[ch] = false
	r.mu.Unlock()
	if ch == "AB" {
		n.aliceChannelLink, n.firstBobChannelLink = lA.(*channelLink), lB.(*channelLink)
	} else {
		n.secondBobChannelLink, n.carolChannelLink = lA.(*channelLink), lB.(*channelLink)
	}
	dl := time.Now().Add(20 * time.Second)
	for time.Now().Before(dl) {
		if lA.EligibleToForward() && lB.EligibleToForward() {
			return nil
		}
		time.Sleep(5 * time.Millisecond)
	}
	return fmt.Errorf("flap: links not eligible")
}

func (r *c08Run) armFlap() {
	r.mu.Lock()
	defer r.mu.Unlock()
	r.flapArmed, r.flapCount = nil, 0
	if r.flapPlan < len(r.spec.flapPred) {
		fp := r.spec.flapPred[r.flapPlan]
		if fp.at == "db" {
			if d := r.crashDB; d != nil && r.n != nil {
				d.wmu.Lock()
				d.flapLabel, d.flapNth, d.flapCnt, d.flapCh = fp.t, fp.nth, 0, r.spec.flapCh[r.flapPlan]
				d.flapLink = r.n.firstBobChannelLink
				if d.flapCh == "BC" {
					d.flapLink = r.n.secondBobChannelLink
				}
				d.wmu.Unlock()
			}
		} else {
			r.flapArmed = fp
		}
	}
}

func (r *c08Run) stopNetwork() bool {
	if r.ackStop != nil {
		close(r.ackStop)
		r.ackStop = nil
	}
	done := make(chan struct{})
	n := r.n
	go func() {
		n.stop()
		close(done)
	}()
	select {
	case <-done:
		return true
	case <-time.After(45 * time.Second):
		return false
	}
}

func (r *c08Run) restart() error {
	if !r.stopNetwork() {
		return fmt.Errorf("stop timeout")
	}
	r.mu.Lock()
	r.lines = append(r.lines, "x restart")
	r.cut = map[string]bool{}
	r.epochMsgs = 0
	r.cutArmed = -1
	r.mu.Unlock()
	if r.crashDB != nil {
		r.crashDB.arm("", -1)
	}
	var chans [4]*lnwallet.LightningChannel
	for i := 0; i < 4; i++ {
		c, err := c08Restore(r.st, r.dbs[i], r.privs[i], r.outpoints[i])
		if err != nil {
			return fmt.Errorf("restore %d: %v", i, err)
		}
		chans[i] = c
	}
	for i := 1; i <= 2; i++ {
		r.emitPkgState("x", []string{"", "bob.AB", "bob.BC"}[i], chans[i])
		if pkgs, err := chans[i].LoadFwdPkgs(); err == nil {
			for _, p := range pkgs {
				r.emit("note fwdpkg end=%s height=%d state=%d adds=%d fwd=%v ack=%v sf=%d sfack=%v",
					[]string{"", "bob.AB", "bob.BC"}[i], p.Height, int(p.State), len(p.Adds), p.FwdFilter,
					p.AckFilter, len(p.SettleFails), p.SettleFailFilter)
			}
		}
	}
	r.epoch++
	atomic.StoreInt32(&r.linkFailed, 0)
	r.armCut()
	return r.buildNetwork(&clusterChannels{
		aliceToBob: chans[0], bobToAlice: chans[1], bobToCarol: chans[2], carolToBob: chans[3],
	})
}

func (r *c08Run) armCut() {
	r.mu.Lock()
	defer r.mu.Unlock()
	r.cutArmed, r.predArmed, r.predCount = -1, nil, 0
	if r.cutPlan < len(r.spec.cutAt) && r.spec.cutAt[r.cutPlan] >= 0 {
		r.cutArmed = r.spec.cutAt[r.cutPlan]
		r.cutScope = r.spec.cutScope[r.cutPlan]
	}
	if r.cutPlan < len(r.spec.cutAt) && r.spec.cutAt[r.cutPlan] == -2 {
		r.predArmed = r.spec.cutPred[r.cutPlan]
		r.cutScope = r.spec.cutScope[r.cutPlan]
	}
	if r.spec.stallPred != nil && r.epoch == 0 && r.predArmed == nil && r.cutArmed < 0 {
		r.predArmed = r.spec.stallPred
		r.cutScope = r.spec.stallScope
	}
	if r.cutPlan < len(r.spec.cutAt) && r.spec.cutAt[r.cutPlan] == -3 && r.crashDB != nil {
		r.crashDB.arm(r.spec.crashLabel[r.cutPlan], r.spec.crashNth[r.cutPlan])
	}
}

// ---------------------------------------------------------------------------
// payments

func c08Payload(next lnwire.ShortChannelID, amt lnwire.MilliSatoshi, cltv uint32) *hop.Payload {
	var nb [8]byte
	binary.BigEndian.PutUint64(nb[:], next.ToUint64())
	return hop.NewLegacyPayload(&sphinx.HopData{
		Realm: [1]byte{}, NextAddress: nb, ForwardAmount: uint64(amt), OutgoingCltv: cltv,
	})
}

func (r *c08Run) sender(p *c08Pay) (*mockServer, *mockServer, lnwire.ShortChannelID, lnwire.ShortChannelID) {
	if p.dir == 0 {
		return r.n.aliceServer, r.n.carolServer, r.scAB, r.scBC
	}
	return r.n.carolServer, r.n.aliceServer, r.scBC, r.scAB
}

func (r *c08Run) recvRegistry(p *c08Pay) *mockInvoiceRegistry {
	if p.dir == 0 {
		return r.regs[2]
	}
	return r.regs[0]
}

func (r *c08Run) launch(p *c08Pay) {
	snd, _, first, next := r.sender(p)
	reg := r.recvRegistry(p)
	const (
		finalCltv = testStartingHeight + testInvoiceCltvExpiry
		delta     = 6
	)
	inExpiry := uint32(finalCltv + delta)
	exitAmt := p.amtOut
	invAmt := p.amtOut
	switch p.kind {
	case c08KOverpay:
		invAmt = p.amtOut - p.amtOut/10
	case c08KUnderpay:
		invAmt = p.amtOut + 1000
	case c08KBadCltv:
		inExpiry = uint32(finalCltv + delta - 1)
	case c08KUnknownHop:
		next = lnwire.NewShortChanIDFromInt(next.ToUint64() + 7777)
	case c08KExitShort:
		exitAmt = p.amtOut + 1
	}
	hops := []*hop.Payload{
		c08Payload(next, p.amtOut, finalCltv),
		c08Payload(hop.Exit, exitAmt, finalCltv),
	}
	blob, err := generateRoute(hops...)
	if err != nil {
		p.sendErr, p.result = true, "senderr"
		return
	}
	ctx := context.Background()
	if p.kind != c08KUnknown {
		var payAddr [32]byte
		copy(payAddr[:], p.hash[:])
		payAddr[0] ^= 0xff
		hold := p.kind == c08KHoldSettle || p.kind == c08KHoldCancel
		var pre *lntypes.Preimage
		if !hold {
			pp := p.pre
			pre = &pp
		}
		inv, _, _, err := generatePaymentWithPreimage(invAmt, p.amtIn, inExpiry, blob, pre, p.hash, payAddr)
		if err == nil {
			err = reg.AddInvoice(ctx, *inv, p.hash)
		}
		if err != nil {
			r.emit("note pay n=%d invoice error %s", p.n, c08clean(err.Error()))
		}
		if p.kind == c08KCancelled {
			_ = reg.CancelInvoice(ctx, p.hash)
		}
	}
	htlc := &lnwire.UpdateAddHTLC{
		PaymentHash: p.hash, Amount: p.amtIn, Expiry: inExpiry, OnionBlob: blob,
	}
	p.launched = true
	if err := snd.htlcSwitch.SendHTLC(first, p.pid, htlc); err != nil {
		r.resMu.Lock()
		p.sendErr, p.result = true, "senderr"
		r.resMu.Unlock()
		return
	}
	r.subscribe(p, r.epoch)
}

func c08clean(s string) string {
	s = strings.Map(func(c rune) rune {
		if c == ' ' || c == '\n' || c == '\t' || c == '=' {
			return '_'
		}
		return c
	}, s)
	if len(s) > 60 {
		s = s[:60]
	}
	return s
}

// subscribe waits (in a goroutine) for the attempt result on the sender's
// current switch. Results of an old epoch's switch (shutting down) are ignored.
func (r *c08Run) subscribe(p *c08Pay, epoch int) {
	snd, _, _, _ := r.sender(p)
	ch, err := snd.htlcSwitch.GetAttemptResult(p.pid, p.hash, newMockDeobfuscator())
	if err != nil {
		r.emit("note pay n=%d subscribe: %s", p.n, c08clean(err.Error()))
		return
	}
	go func() {
		res, ok := <-ch
		if !ok || res == nil {
			return // switch shut down
		}
		out := "ok pre=" + c08hx(res.Preimage[:])
		if res.Error != nil {
			out = "fail code=other"
			if ct, ok := res.Error.(ClearTextError); ok && ct.WireMessage() != nil {
				out = fmt.Sprintf("fail code=%d", uint16(ct.WireMessage().Code()))
			}
		}
		r.resMu.Lock()
		if p.result == "" {
			p.result = out
		}
		r.resMu.Unlock()
	}()
}

func (r *c08Run) resultOf(p *c08Pay) string {
	r.resMu.Lock()
	defer r.resMu.Unlock()
	return p.result
}

// resolveHold waits (bounded) for a hold invoice to be accepted, then settles
// or cancels it. Runs in its own goroutine; stop is closed at case end.
func (r *c08Run) resolveHold(p *c08Pay, stop <-chan struct{}, wg *sync.WaitGroup) {
	defer wg.Done()
	defer atomic.AddInt32(&r.holdsOpen, -1)
	ctx := context.Background()
	reg := r.recvRegistry(p)
	deadline := time.Now().Add(8 * time.Second)
	accepted := false
	for time.Now().Before(deadline) {
		inv, err := reg.LookupInvoice(ctx, p.hash)
		if err == nil && inv.State == invoices.ContractAccepted {
			accepted = true
			break
		}
		if r.resultOf(p) != "" {
			break
		}
		select {
		case <-stop:
			return
		case <-time.After(15 * time.Millisecond):
		}
	}
	if accepted {
		select {
		case <-stop:
		case <-time.After(p.resolve):
		}
	}
	if p.kind == c08KHoldSettle && accepted {
		if err := reg.SettleHodlInvoice(ctx, p.pre); err != nil {
			r.emit("note pay n=%d settle-hold: %s", p.n, c08clean(err.Error()))
			_ = reg.CancelInvoice(ctx, p.hash)
		}
		return
	}
	_ = reg.CancelInvoice(ctx, p.hash)
}

// ---------------------------------------------------------------------------
// quiescence

type c08End struct {
	name string
	ch   *lnwallet.LightningChannel
}

func (r *c08Run) ends() []c08End {
	return []c08End{
		{"alice.AB", r.n.aliceChannelLink.channel},
		{"bob.AB", r.n.firstBobChannelLink.channel},
		{"bob.BC", r.n.secondBobChannelLink.channel},
		{"carol.BC", r.n.carolChannelLink.channel},
	}
}

func c08Pending(c *lnwallet.LightningChannel) uint64 {
	return c.NumPendingUpdates(lntypes.Local, lntypes.Local) + c.NumPendingUpdates(lntypes.Local, lntypes.Remote) +
		c.NumPendingUpdates(lntypes.Remote, lntypes.Local) + c.NumPendingUpdates(lntypes.Remote, lntypes.Remote)
}

func (r *c08Run) mailboxPkts(s *Switch) int {
	o := s.mailOrchestrator
	o.mu.RLock()
	defer o.mu.RUnlock()
	n := 0
	for _, mb := range o.mailboxes {
		if m, ok := mb.(*memoryMailBox); ok {
			m.pktMtx.Lock()
			n += m.repPkts.Len() + m.addPkts.Len()
			m.pktMtx.Unlock()
		}
	}
	return n
}

// unclaimed counts the packets Bob's mail orchestrator has parked for links
// that were not registered when the packet arrived.
func (r *c08Run) unclaimed(s *Switch) int {
	o := s.mailOrchestrator
	o.mu.RLock()
	defer o.mu.RUnlock()
	n := 0
	for _, l := range o.unclaimedPackets {
		n += len(l)
	}
	return n
}

func (r *c08Run) queuesEmpty() bool {
	return len(r.n.aliceServer.messages) == 0 && len(r.n.bobServer.messages) == 0 && len(r.n.carolServer.messages) == 0
}

func (r *c08Run) clean() bool {
	for _, e := range r.ends() {
		if len(e.ch.ActiveHtlcs()) != 0 || c08Pending(e.ch) != 0 {
			return false
		}
		if len(e.ch.StateSnapshot().Htlcs) != 0 {
			return false
		}
	}
	bs := r.n.bobServer.htlcSwitch
	return bs.circuits.NumPending() == 0 && bs.circuits.NumOpen() == 0 && r.mailboxPkts(bs) == 0
}

func (r *c08Run) idleFor() time.Duration {
	r.mu.Lock()
	defer r.mu.Unlock()
	return time.Since(r.lastWire)
}

// waitQuiescent returns "yes" (network idle and nothing left over), "dirty"
// (network idle for a long window, all payments answered, but something is
// left over), "linkfailed" or "timeout".
func (r *c08Run) waitQuiescent(slow time.Duration) string {
	resDeadline := time.Now().Add(6*time.Second + slow)
	hard := time.Now().Add(30*time.Second + 2*slow)
	const (
		idleClean = 500 * time.Millisecond
		idleDirty = 5 * time.Second
	)
	for time.Now().Before(hard) {
		allRes := true
		for _, p := range r.spec.pays {
			if p.launched && r.resultOf(p) == "" {
				allRes = false
			}
		}
		if allRes || time.Now().After(resDeadline) {
			idle := r.idleFor()
			if idle >= idleClean && r.queuesEmpty() {
				if r.clean() {
					// re-check after a short pause: nothing may have moved.
					time.Sleep(100 * time.Millisecond)
					if r.idleFor() >= idleClean && r.queuesEmpty() && r.clean() {
						if allRes {
							return "yes"
						}
						return "yes_noresult"
					}
					continue
				}
				if atomic.LoadInt32(&r.linkFailed) > 0 {
					return "linkfailed"
				}
				if idle >= idleDirty+slow && atomic.LoadInt32(&r.holdsOpen) == 0 {
					return "dirty"
				}
			}
		}
		time.Sleep(25 * time.Millisecond)
	}
	if atomic.LoadInt32(&r.linkFailed) > 0 {
		return "linkfailed"
	}
	return "timeout"
}

func (r *c08Run) snapshot(tag string) {
	for _, e := range r.ends() {
		s := e.ch.StateSnapshot()
		r.emit("%s end=%s local=%d remote=%d height=%d htlcs=%d active=%d pending=%d", tag, e.name,
			uint64(s.LocalBalance), uint64(s.RemoteBalance), s.CommitHeight, len(s.Htlcs),
			len(e.ch.ActiveHtlcs()), c08Pending(e.ch))
	}
	if tag != "q" {
		return
	}
	for _, x := range []struct {
		name string
		s    *Switch
	}{{"alice", r.n.aliceServer.htlcSwitch}, {"bob", r.n.bobServer.htlcSwitch}, {"carol", r.n.carolServer.htlcSwitch}} {
		r.emit("q circ node=%s pending=%d open=%d mailbox=%d unclaimed=%d", x.name, x.s.circuits.NumPending(),
			x.s.circuits.NumOpen(), r.mailboxPkts(x.s), r.unclaimed(x.s))
	}
	if cm, ok := r.n.bobServer.htlcSwitch.circuits.(*circuitMap); ok {
		var mem, disk []string
		nOpen := 0
		cm.mtx.RLock()
		for k, c := range cm.pending {
			if c.HasKeystone() {
				nOpen++
				continue
			}
			id := "AB." + strconv.FormatUint(k.HtlcID, 10)
			if k.ChanID == r.scBC {
				id = "BC." + strconv.FormatUint(k.HtlcID, 10)
			}
			if c.LoadedFromDisk {
				disk = append(disk, id)
			} else {
				mem = append(mem, id)
			}
		}
		cm.mtx.RUnlock()
		sort.Strings(mem)
		sort.Strings(disk)
		r.emit("q bobcirc keystone=%d halfopen_mem=%s halfopen_disk=%s", nOpen, c08Join(mem), c08Join(disk))
	}
	for _, e := range r.ends()[1:3] {
		pkgs, err := e.ch.LoadFwdPkgs()
		if err != nil {
			r.emit("note fwdpkgs %s: %s", e.name, c08clean(err.Error()))
			continue
		}
		var adds, acked, sf, sfAcked, fwd, ff, ffAcked int
		for _, p := range pkgs {
			for i, u := range p.SettleFails {
				if _, ok := u.UpdateMsg.(*lnwire.UpdateFailHTLC); ok {
					ff++
					if p.SettleFailFilter.Contains(uint16(i)) {
						ffAcked++
					}
				}
			}
			adds += len(p.Adds)
			sf += len(p.SettleFails)
			for i := range p.Adds {
				if p.AckFilter.Contains(uint16(i)) {
					acked++
				}
				if p.FwdFilter.Contains(uint16(i)) {
					fwd++
				}
			}
			for i := range p.SettleFails {
				if p.SettleFailFilter.Contains(uint16(i)) {
					sfAcked++
				}
			}
		}
		r.emit("q fwd end=%s pkgs=%d adds=%d fwd=%d acked=%d sf=%d sfacked=%d fails=%d failsacked=%d", e.name, len(pkgs), adds, fwd, acked, sf, sfAcked, ff, ffAcked)
		r.emitPkgState("q", e.name, e.ch)
	}
}

// ---------------------------------------------------------------------------
// running one case

func (r *c08Run) run() (status string) {
	spec := r.spec
	status = "setup_error"
	cc, _, err := createClusterChannels(r.st, spec.capSat, spec.capSat2)
	if err != nil {
		r.emit("note setup: %s", c08clean(err.Error()))
		return
	}
	// One database for Bob, as in a real node: move his Bob<->Carol channel
	// into the DB that also holds Alice<->Bob, the circuit map and the
	// forwarding packages (the fixture would give it a DB of its own, which
	// turns the cross-channel AddRef / SettleFailRef acks into no-ops).
	rawBobDB := c08ParentDB(r.tb, cc.bobToAlice)
	r.crashDB = &c08CrashDB{Backend: rawBobDB.Backend, r: r, nth: -1}
	bobDB, err := channeldb.CreateWithBackend(r.crashDB)
	if err != nil {
		r.emit("note setup wrap: %s", c08clean(err.Error()))
		return
	}
	cc.bobToAlice.State().Db = bobDB.ChannelStateDB()
	st := cc.bobToCarol.State()
	st.Db = bobDB.ChannelStateDB()
	if err := st.SyncPending(&net.TCPAddr{IP: net.ParseIP("127.0.0.1"), Port: 18557}, 1); err != nil {
		r.emit("note setup rehome: %s", c08clean(err.Error()))
		return
	}
	r.dbs = [4]*channeldb.DB{c08ParentDB(r.tb, cc.aliceToBob), bobDB, bobDB, c08ParentDB(r.tb, cc.carolToBob)}
	r.privs = [4][]byte{alicePrivKey, bobPrivKey, bobPrivKey, carolPrivKey}
	r.outpoints = [4]wire.OutPoint{cc.aliceToBob.ChannelPoint(), cc.bobToAlice.ChannelPoint(),
		cc.bobToCarol.ChannelPoint(), cc.carolToBob.ChannelPoint()}
	r.idAB = lnwire.NewChanIDFromOutPoint(cc.aliceToBob.ChannelPoint())
	r.idBC = lnwire.NewChanIDFromOutPoint(cc.bobToCarol.ChannelPoint())
	r.scAB = cc.aliceToBob.ShortChanID()
	r.scBC = cc.bobToCarol.ShortChanID()
	r.armCut()
	if err := r.buildNetwork(cc); err != nil {
		r.emit("note setup network: %s", c08clean(err.Error()))
		r.stopNetwork()
		return
	}
	r.armFlap()
	defer func() {
		if !r.stopNetwork() {
			r.emit("note final stop timeout")
		}
	}()
	r.snapshot("init")
	status = "ran"

	slow := time.Duration(0)
	if c08Race {
		slow = 10 * time.Second
	}

	stop := make(chan struct{})
	var wg sync.WaitGroup
	defer func() {
		close(stop)
		wg.Wait()
	}()

	// restarts are driven from this goroutine, interleaved with the launches.
	start := time.Now()
	nextRestart := 0
	doRestart := func() bool {
		if err := r.restart(); err != nil {
			r.emit("note restart: %s", c08clean(err.Error()))
			return false
		}
		for _, p := range spec.pays {
			if p.launched && !p.sendErr && r.resultOf(p) == "" {
				r.subscribe(p, r.epoch)
			}
		}
		return true
	}
	var cutSeen time.Time
	restartDue := func() bool {
		if nextRestart >= len(spec.restartT) {
			return false
		}
		if spec.cutAt[nextRestart] >= 0 || spec.cutAt[nextRestart] <= -2 {
			if cutSeen.IsZero() {
				select {
				case <-r.cutSig:
					cutSeen = time.Now()
				default:
					// a cut that never triggers (too few messages) degrades
					// to a timed restart after 3s
					return time.Since(start) > 3*time.Second+spec.restartT[nextRestart]
				}
			}
			// the cut happened; crash a moment later
			if time.Since(cutSeen) >= spec.restartT[nextRestart] {
				cutSeen = time.Time{}
				return true
			}
			return false
		}
		return time.Since(start) > spec.restartT[nextRestart]
	}
	serve := func(d time.Duration) bool {
		end := time.Now().Add(d)
		for {
			if restartDue() {
				r.cutPlan++
				nextRestart++
				if !doRestart() {
					return false
				}
				start = time.Now()
			}
			select {
			case ch := <-r.flapSig:
				time.Sleep(spec.flapWait[r.flapPlan])
				if err := r.flap(ch); err != nil {
					r.emit("note flap: %s", c08clean(err.Error()))
					return false
				}
				r.flapPlan++
				r.armFlap()
			default:
			}
			if !time.Now().Before(end) {
				return true
			}
			time.Sleep(500 * time.Microsecond)
		}
	}

	for _, p := range spec.pays {
		if !serve(p.gap) {
			return "restart_error"
		}
		r.launch(p)
		if p.kind == c08KHoldSettle || p.kind == c08KHoldCancel {
			wg.Add(1)
			atomic.AddInt32(&r.holdsOpen, 1)
			go r.resolveHold(p, stop, &wg)
		}
	}
	// keep serving restarts until all planned ones happened (bounded)
	for nextRestart < len(spec.restartT) {
		if !serve(20 * time.Millisecond) {
			return "restart_error"
		}
		if time.Since(start) > 20*time.Second {
			break
		}
	}

	if len(spec.flapPred) > 0 {
		fEnd := time.Now().Add(4 * time.Second)
		for r.flapPlan < len(spec.flapPred) && time.Now().Before(fEnd) {
			if !serve(10 * time.Millisecond) {
				return "restart_error"
			}
		}
	}
	if spec.postFlaps && r.epoch > 0 {
		pre := r.waitQuiescent(0)
		r.emit("note pre-postflap quiescence: %s", pre)
		for _, ch := range []string{"AB", "BC"} {
			if err := r.flap(ch); err != nil {
				r.emit("note post flap: %s", c08clean(err.Error()))
				return "restart_error"
			}
			time.Sleep(150 * time.Millisecond)
		}
	}
	// No new fault may start from here on: a cut that triggered now would never be
	// followed by the reconnect that makes the peers retransmit.
	r.mu.Lock()
	r.predArmed, r.cutArmed, r.flapArmed = nil, -1, nil
	r.mu.Unlock()
	if r.crashDB != nil {
		r.crashDB.wmu.Lock()
		r.crashDB.nth, r.crashDB.flapNth = -1, 0
		r.crashDB.wmu.Unlock()
	}
	{
		// a connection that is still cut (stalled peer whose planned flap never
		// triggered) must always heal before quiescence is judged
		for _, ch := range []string{"AB", "BC"} {
			r.mu.Lock()
			cut := r.cut[ch]
			r.mu.Unlock()
			if cut {
				time.Sleep(300 * time.Millisecond)
				if err := r.flap(ch); err != nil {
					r.emit("note heal flap: %s", c08clean(err.Error()))
					return "restart_error"
				}
			}
		}
	}
	q := r.waitQuiescent(slow)
	for _, p := range spec.pays {
		res := r.resultOf(p)
		if res == "" {
			res = "none"
		}
		r.emit("res n=%d => %s", p.n, res)
		if p.kind != c08KUnknown && p.launched {
			st := "unknown"
			if inv, err := r.recvRegistry(p).LookupInvoice(context.Background(), p.hash); err == nil {
				switch inv.State {
				case invoices.ContractOpen:
					st = "open"
				case invoices.ContractSettled:
					st = "settled"
				case invoices.ContractCanceled:
					st = "canceled"
				case invoices.ContractAccepted:
					st = "accepted"
				}
			}
			r.emit("inv n=%d state=%s", p.n, st)
		}
	}
	r.snapshot("q")
	r.mu.Lock()
	dropped, delayed := r.dropped, r.delayed
	r.mu.Unlock()
	r.emit("info dropped=%d delayed=%d linkfailed=%d restarts=%d crashes=%d flaps=%d fixture_errs=%d", dropped, delayed,
		atomic.LoadInt32(&r.linkFailed), r.epoch, r.crashes, r.flaps, len(r.tb.c08errs()))
	r.emit("quiesced => %s", q)
	return "ran"
}

// ---------------------------------------------------------------------------
// generator

var c08AmtSat = []int64{5, 6, 100, 199, 200, 201, 799, 800, 801, 1000, 4177, 4178, 4179, 4417, 4418, 4419,
	4777, 4778, 4779, 5017, 5018, 5019, 10000, 50000, 100000}

func c08GenAmt(rng *rand.Rand, capSat int64) lnwire.MilliSatoshi {
	var sat int64
	switch rng.Intn(10) {
	case 0:
		sat = capSat / 2
	case 1:
		sat = capSat / 3
	default:
		sat = c08AmtSat[rng.Intn(len(c08AmtSat))]
	}
	m := sat * 1000
	switch rng.Intn(4) {
	case 0:
		m++
	case 1:
		m += 999
	}
	return lnwire.MilliSatoshi(m)
}

// c08Scripts are scripted corner cases; they run first in every tier.
func c08Script(seed int64, idx int) *c08Spec {
	rng := rand.New(rand.NewSource(seed*7 + int64(idx)))
	mk := func(dir int, kind string, amt lnwire.MilliSatoshi) *c08Pay {
		p := &c08Pay{n: 0, dir: dir, kind: kind, pid: 1, amtOut: amt, amtIn: amt + 1000,
			resolve: 50 * time.Millisecond}
		rng.Read(p.pre[:])
		p.hash = sha256.Sum256(p.pre[:])
		return p
	}
	s := &c08Spec{id: fmt.Sprintf("s%d-%d", seed, idx), kind: "script", capSat: 3000000, capSat2: 3000000}
	amt := c08GenAmt(rng, 3000000)
	first, second := "AB", "BC" // first hop / second hop channel
	snd, rcv := "alice", "carol"
	dir := idx % 2
	if dir == 1 {
		first, second, snd, rcv = "BC", "AB", "carol", "alice"
	}
	two := func(a, b *c08Pred) {
		s.cutAt = []int{-2, -2}
		s.cutScope = []string{"ALL", "ALL"}
		s.cutPred = []*c08Pred{a, b}
		s.restartT = []time.Duration{30 * time.Millisecond, 30 * time.Millisecond}
	}
	sc := idx / 2
	if sc == 4 {
		sc = 99 // the partially acked package scenario (default branch)
	}
	switch sc {
	case 0:
		// crash right after Bob offered the outgoing add (unsigned); after the
		// restart Bob fails the incoming htlc; crash again when only Bob's final
		// revoke_and_ack of that removal is missing.
		s.pays = []*c08Pay{mk(dir, c08KValid, amt)}
		two(&c08Pred{at: rcv, ch: second, t: "add", nth: 1}, &c08Pred{at: snd, ch: first, t: "rev", nth: 1, before: true})
	case 1:
		// same, second crash one step earlier: the peer's commit_sig is lost.
		s.pays = []*c08Pay{mk(dir, c08KValid, amt)}
		two(&c08Pred{at: rcv, ch: second, t: "add", nth: 1}, &c08Pred{at: "bob", ch: first, t: "sig", nth: 1, before: true})
	case 2:
		// crash when the downstream fulfill reached Bob but nothing was signed;
		// crash again after Bob relayed it upstream.
		s.pays = []*c08Pay{mk(dir, c08KValid, amt)}
		two(&c08Pred{at: "bob", ch: second, t: "ful", nth: 1}, &c08Pred{at: snd, ch: first, t: "ful", nth: 1})
	case 3:
		// downstream fail: crash when Bob revoked but did not yet sign / relay.
		s.pays = []*c08Pay{mk(dir, c08KUnknown, amt)}
		two(&c08Pred{at: "bob", ch: second, t: "fail", nth: 1}, &c08Pred{at: snd, ch: first, t: "fail", nth: 1})
		s.lateLinks, s.postFlaps = true, true
	case 5:
		// downstream fail relayed upstream; Bob dies right after persisting
		// the commitment that carries the upstream fail (4th signature of the
		// run), i.e. before the circuit is deleted and before commit_sig is sent.
		s.pays = []*c08Pay{mk(dir, c08KUnknown, amt)}
		s.cutAt, s.cutScope, s.cutPred = []int{-3}, []string{"ALL"}, []*c08Pred{nil}
		s.crashLabel, s.crashNth = []string{"sign"}, []int{4}
		s.restartT = []time.Duration{40 * time.Millisecond}
	case 6:
		// Bob dies between OpenCircuits (keystone) and the signature of the
		// outgoing add.
		s.pays = []*c08Pay{mk(dir, c08KValid, amt)}
		s.cutAt, s.cutScope, s.cutPred = []int{-3}, []string{"ALL"}, []*c08Pred{nil}
		s.crashLabel, s.crashNth = []string{"keystone"}, []int{1}
		s.restartT = []time.Duration{40 * time.Millisecond}
	case 7:
		// Bob dies right after CommitCircuits / right after SetFwdFilter.
		s.pays = []*c08Pay{mk(dir, c08KValid, amt)}
		s.cutAt, s.cutScope, s.cutPred = []int{-3}, []string{"ALL"}, []*c08Pred{nil}
		s.crashLabel, s.crashNth = []string{[]string{"commitcirc", "fwdfilter"}[rng.Intn(2)]}, []int{1}
		s.restartT = []time.Duration{40 * time.Millisecond}
	case 8:
		// settle path: Bob dies after the n-th signature (n = 3..5), around
		// the persisted upstream settle.
		s.pays = []*c08Pay{mk(dir, c08KValid, amt)}
		s.cutAt, s.cutScope, s.cutPred = []int{-3}, []string{"ALL"}, []*c08Pred{nil}
		s.crashLabel, s.crashNth = []string{"sign"}, []int{3 + rng.Intn(3)}
		s.restartT = []time.Duration{40 * time.Millisecond}
		s.lateLinks, s.postFlaps = true, true
	case 9:
		// link flap of the outgoing channel right when the peer's
		// revoke_and_ack that completes a downstream fail reaches Bob.
		s.pays = []*c08Pay{mk(dir, c08KUnknown, amt)}
		s.flapPred = []*c08Pred{{at: "bob", ch: second, t: "rev", nth: 2}}
		s.flapCh = []string{second}
		s.flapWait = []time.Duration{time.Duration(rng.Intn(3000)) * time.Microsecond}
	case 10:
		// the INCOMING link is stopped right after Switch.ForwardPackets made
		// the circuit durable (CommitCircuits) and before the add packet was
		// handed to the switch's forwarder.
		s.pays = []*c08Pay{mk(dir, c08KValid, amt)}
		s.flapPred = []*c08Pred{{at: "db", t: "commitcirc", nth: 1}}
		s.flapCh = []string{first}
		s.flapWait = []time.Duration{0}
	case 11:
		// the OUTGOING link is stopped right after ReceiveRevocation made the
		// downstream fail durable and marked the package processed (3rd SetFwdFilter Bob
		// persists) and before the response was handed to the switch: only the
		// replay of the package by the re-created link can recover it.
		s.pays = []*c08Pay{mk(dir, c08KUnknown, amt)}
		s.flapPred = []*c08Pred{{at: "db", t: "fwdfilter", nth: 3}}
		s.flapCh = []string{second}
		s.flapWait = []time.Duration{0}
	case 12, 13:
		// the upstream peer withholds the revoke_and_ack for Bob's 2nd commit_sig
		// (Bob's incoming link has no revocation window left), the response of
		// the first payment (settle: case 12, fail: case 13) reaches the incoming
		// link, which can not sign it; then the upstream connection flaps with
		// the switch staying up (mailbox ResetPackets) and the peer answers again.
		k := c08KHoldSettle
		if sc == 13 {
			k = c08KHoldCancel
		}
		p0 := mk(dir, k, amt)
		p0.resolve = 450 * time.Millisecond
		p1 := mk(dir, c08KValid, c08GenAmt(rng, 3000000))
		p1.n, p1.pid, p1.gap = 1, 2, 200*time.Millisecond
		s.pays = []*c08Pay{p0, p1}
		s.stallPred = &c08Pred{at: "bob", ch: first, t: "rev", nth: 2, before: true}
		s.stallScope = first
		fl := "ful"
		if sc == 13 {
			fl = "fail"
		}
		s.flapPred = []*c08Pred{{at: "bob", ch: second, t: fl, nth: 1}}
		s.flapCh = []string{first}
		s.flapWait = []time.Duration{time.Duration(120+rng.Intn(100)) * time.Millisecond}
	case 14:
		// bidirectional traffic with colliding circuit keys and a BOUNCED add:
		// two payments Alice->Carol are forwarded as outgoing htlcs 0,1 on B<->C
		// and resolved by Carol; then Carol sends two payments to Alice at the
		// same instant (peer-assigned incoming ids 0,1 on B<->C: the same circuit
		// keys as the old OUTGOING htlcs), each more than half of Bob's balance on
		// A<->B: the switch's bandwidth check passes for both before the outgoing
		// link has added the first, so the link's AddHTLC rejects the second and
		// the add is bounced through mailBox.FailAdd.
		s.capSat, s.capSat2 = 300000, 3000000
		mkn := func(n int, d int, k string, a lnwire.MilliSatoshi, gap time.Duration) *c08Pay {
			p := mk(d, k, a)
			p.n, p.pid, p.gap = n, uint64(n+1), gap
			return p
		}
		big := lnwire.MilliSatoshi(160000+rng.Intn(30000)) * 1000
		s.pays = []*c08Pay{
			mkn(0, 0, c08KValid, 4000000, 0),
			mkn(1, 0, c08KValid, 7000000, 0),
			mkn(2, 1, c08KValid, big, 600*time.Millisecond),
			mkn(3, 1, c08KValid, big+1000, 0),
			mkn(4, 1, c08KValid, big+2000, 0),
		}
		if dir == 1 {
			// variant: the bounced adds race with a link flap of the outgoing channel
			s.flapPred = []*c08Pred{{at: "bob", ch: "BC", t: "add", nth: 1}}
			s.flapCh = []string{"AB"}
			s.flapWait = []time.Duration{time.Duration(rng.Intn(30)) * time.Millisecond}
		}
	case 15:
		// Bob dies right after ReceiveRevocation made the downstream response
		// durable in the outgoing channel's forwarding package (3rd revocation he
		// persists). After the restart his switch comes up BEFORE his links: the
		// replayed response finds no mailbox for the incoming link and is parked
		// as "unclaimed"; the links are added (first bind), everything completes,
		// then both channels reconnect once more (second bind).
		k := c08KUnknown
		if rng.Intn(2) == 0 {
			k = c08KValid
		}
		s.pays = []*c08Pay{mk(dir, k, amt)}
		s.cutAt, s.cutScope, s.cutPred = []int{-3}, []string{"ALL"}, []*c08Pred{nil}
		s.crashLabel, s.crashNth = []string{"revrecv"}, []int{3}
		s.restartT = []time.Duration{40 * time.Millisecond}
		s.lateLinks, s.postFlaps = true, true
	default:
		// a forwarding package whose FIRST add is already acked while a LATER
		// add has only a half-open circuit at the crash: Z exhausts Bob's
		// revocation window on the outgoing channel (the peer's revoke_and_ack
		// is lost), X (too big for the outgoing channel) is forwarded, failed
		// back by the outgoing link and acked, Y is forwarded but can not be
		// signed. Crash; crash again after everything settled down.
		if dir == 0 {
			s.capSat, s.capSat2 = 3000000, 300000
		} else {
			s.capSat, s.capSat2 = 300000, 3000000
		}
		z := mk(dir, c08KValid, 20000000)
		x := mk(dir, c08KOverCap, 400000000)

		y := mk(dir, c08KValid, 30000000+lnwire.MilliSatoshi(rng.Intn(1000)))
		x.n, x.pid, x.gap = 1, 2, 250*time.Millisecond
		y.n, y.pid, y.gap = 2, 3, 0
		s.pays = []*c08Pay{z, x, y}
		s.cutAt = []int{-2, -1}
		s.cutScope = []string{second, ""}
		s.cutPred = []*c08Pred{{at: "bob", ch: second, t: "rev", nth: 1, before: true}, nil}
		s.restartT = []time.Duration{900 * time.Millisecond, 1500 * time.Millisecond}
	}
	return s
}

const c08NumScripts = 32

func c08GenSpec(seed int64, idx int, tier string) *c08Spec {
	if idx < c08NumScripts {
		return c08Script(seed, idx)
	}
	rng := rand.New(rand.NewSource(seed*1000003 + int64(idx)*7919 + 17))
	s := &c08Spec{id: fmt.Sprintf("s%d-%d", seed, idx)}
	caps := []btcutil.Amount{300000, 3000000, btcutil.SatoshiPerBitcoin}
	s.capSat = caps[rng.Intn(len(caps))]
	s.capSat2 = s.capSat
	if rng.Intn(2) == 0 {
		s.capSat2 = caps[rng.Intn(len(caps))]
	}
	kinds := []string{"plain", "delay", "crash", "cut", "stall", "crash", "restart", "flap", "tamper", "crash", "flap", "cut", "stall"}
	s.kind = kinds[idx%len(kinds)]
	np := 6 + rng.Intn(9)
	if tier == "thorough" {
		np = 6 + rng.Intn(19)
	}
	switch s.kind {
	case "delay":
		s.delayProb = []float64{0.05, 0.2, 0.5}[rng.Intn(3)]
		s.delayMax = time.Duration(5+rng.Intn(25)) * time.Millisecond
	case "cut", "restart":
		nr := 1
		if rng.Intn(3) == 0 {
			nr = 2
		}
		for i := 0; i < nr; i++ {
			if s.kind == "cut" {
				s.cutAt = append(s.cutAt, rng.Intn(12*np/(i+1)+4))
				s.cutScope = append(s.cutScope, []string{"AB", "BC", "ALL"}[rng.Intn(3)])
				s.restartT = append(s.restartT, time.Duration(rng.Intn(120)+rng.Intn(2)*rng.Intn(700))*time.Millisecond)
			} else {
				s.cutAt = append(s.cutAt, -1)
				s.cutScope = append(s.cutScope, "")
				s.restartT = append(s.restartT, time.Duration(30+rng.Intn(600))*time.Millisecond)
			}
		}
		if rng.Intn(2) == 0 {
			s.delayProb = 0.1
			s.delayMax = 15 * time.Millisecond
		}
	case "crash":
		nr := 1 + rng.Intn(2)
		labels := []string{"sign", "sign", "sign", "delcirc", "keystone", "commitcirc", "fwdfilter", "revrecv", "revrecv",
			"revsend", "ack", "", ""}
		for i := 0; i < nr; i++ {
			l := labels[rng.Intn(len(labels))]
			s.cutAt = append(s.cutAt, -3)
			s.cutScope = append(s.cutScope, "ALL")
			s.cutPred = append(s.cutPred, nil)
			s.crashLabel = append(s.crashLabel, l)
			max := 2 * np
			if l == "" {
				max = 12 * np
			}
			s.crashNth = append(s.crashNth, 1+rng.Intn(max/(i+1)+1))
			s.restartT = append(s.restartT, time.Duration(rng.Intn(300))*time.Millisecond)
		}
		if rng.Intn(3) == 0 {
			s.delayProb = 0.1
			s.delayMax = 15 * time.Millisecond
		}
		s.lateLinks = rng.Intn(2) == 0
		s.postFlaps = rng.Intn(3) == 0
	case "flap":
		nf := 1 + rng.Intn(3)
		for i := 0; i < nf; i++ {
			ch := []string{"AB", "BC"}[rng.Intn(2)]
			if rng.Intn(3) == 0 {
				s.flapPred = append(s.flapPred, &c08Pred{at: "db",
					t: []string{"commitcirc", "fwdfilter", "revrecv", "sign", "keystone", "delcirc"}[rng.Intn(6)], nth: 1 + rng.Intn(np)})
			} else {
				s.flapPred = append(s.flapPred, &c08Pred{at: "bob", ch: ch,
					t: []string{"rev", "rev", "sig", "ful", "fail", "add"}[rng.Intn(6)], nth: 1 + rng.Intn(np)})
			}
			s.flapCh = append(s.flapCh, ch)
			s.flapWait = append(s.flapWait, time.Duration(rng.Intn(4000))*time.Microsecond)
		}
	case "stall":
		// a peer stops answering on one channel at its n-th revoke_and_ack; later
		// (when the m-th response from the OTHER channel reaches Bob) the stalled
		// connection flaps and the peer answers again.
		ch := []string{"AB", "BC"}[rng.Intn(2)]
		oth := "BC"
		if ch == "BC" {
			oth = "AB"
		}
		s.stallPred = &c08Pred{at: "bob", ch: ch, t: "rev", nth: 2 + rng.Intn(np), before: true}
		s.stallScope = ch
		s.flapPred = []*c08Pred{{at: "bob", ch: oth, t: []string{"ful", "fail"}[rng.Intn(2)], nth: 1 + rng.Intn(3)}}
		s.flapCh = []string{ch}
		s.flapWait = []time.Duration{time.Duration(60+rng.Intn(250)) * time.Millisecond}
	case "tamper":
		s.tamper = true
		np = 1 + rng.Intn(3)
	}
	payKinds := []string{c08KValid, c08KValid, c08KValid, c08KValid, c08KValid, c08KOverpay, c08KUnderpay,
		c08KUnknown, c08KHoldSettle, c08KHoldSettle, c08KHoldCancel, c08KCancelled, c08KBadFee, c08KBigFee,
		c08KBigFee, c08KBadCltv, c08KLowAmt, c08KUnknownHop, c08KExitShort, c08KOverCap, c08KNegFee}
	for i := 0; i < np; i++ {
		p := &c08Pay{n: i, dir: rng.Intn(2), pid: uint64(i + 1)}
		p.kind = payKinds[rng.Intn(len(payKinds))]
		if s.tamper {
			p.kind = c08KValid
			p.dir = 0
			if i > 0 {
				p.dir = rng.Intn(2)
			}
		}
		rng.Read(p.pre[:])
		p.hash = sha256.Sum256(p.pre[:])
		minCap := int64(s.capSat)
		if int64(s.capSat2) < minCap {
			minCap = int64(s.capSat2)
		}
		p.amtOut = c08GenAmt(rng, minCap)
		fee := lnwire.MilliSatoshi(1000)
		switch p.kind {
		case c08KBadFee:
			fee = 999
		case c08KBigFee:
			fee = []lnwire.MilliSatoshi{1001, 2000, 12345, 1000000}[rng.Intn(4)]
		case c08KLowAmt:
			p.amtOut = lnwire.MilliSatoshi([]int64{1, 4999, 4000}[rng.Intn(3)])
		case c08KOverCap:
			p.amtOut = lnwire.MilliSatoshi(minCap*1000 + int64(rng.Intn(3))*1000 - 3000000)
		}
		p.amtIn = p.amtOut + fee
		if p.kind == c08KNegFee {
			if p.amtOut < 10000 {
				p.amtOut += 10000
			}
			p.amtIn = p.amtOut - lnwire.MilliSatoshi([]int64{1, 1000, 5000}[rng.Intn(3)])
		}
		switch rng.Intn(4) {
		case 0:
			p.gap = 0
		case 1:
			p.gap = time.Duration(rng.Intn(5)) * time.Millisecond
		default:
			p.gap = time.Duration(rng.Intn(60)) * time.Millisecond
		}
		p.resolve = time.Duration(rng.Intn(400)) * time.Millisecond
		s.pays = append(s.pays, p)
	}
	return s
}

// ---------------------------------------------------------------------------
// entry point

func TestVerifC08(t *testing.T) {
	out := os.Getenv("VERIF_OUT")
	if out == "" {
		t.Skip("VERIF_OUT not set")
	}
	seed, _ := strconv.ParseInt(os.Getenv("VERIF_SEED"), 10, 64)
	if seed == 0 {
		seed = 1
	}
	tier := os.Getenv("VERIF_TIER")
	ncases, workers := 100, 6
	if tier == "thorough" {
		ncases, workers = 1600, 6
	}
	if v, err := strconv.Atoi(os.Getenv("VERIF_C08_CASES")); err == nil && v > 0 {
		ncases = v
	}
	f, err := os.Create(out)
	if err != nil {
		t.Fatal(err)
	}
	defer f.Close()
	w := bufio.NewWriterSize(f, 1<<20)
	defer w.Flush()
	fmt.Fprintf(w, "FACT baseFeeMsat=1000 minHtlcOutMsat=5000 timeLockDelta=6 startHeight=%d race=%v\n",
		testStartingHeight, c08Race)

	var (
		wmu  sync.Mutex
		next int32 = -1
		wg   sync.WaitGroup
	)
	for k := 0; k < workers; k++ {
		wg.Add(1)
		go func() {
			defer wg.Done()
			for {
				i := int(atomic.AddInt32(&next, 1))
				if i >= ncases {
					return
				}
				spec := c08GenSpec(seed, i, tier)
				var lines []string
				status := "aborted"
				t.Run(spec.id, func(st *testing.T) {
					r := &c08Run{
						st: st, tb: &c08TB{TB: st}, spec: spec,
						rng: rand.New(rand.NewSource(seed ^ int64(i)<<20 ^ 0x5eed)),
						cut: map[string]bool{}, cutArmed: -1, cutSig: make(chan struct{}, 4),
						flapSig: make(chan string, 4), flapping: map[string]bool{},
						lastWire: time.Now(),
					}
					done := make(chan struct{})
					go func() {
						defer close(done)
						defer func() {
							if x := recover(); x != nil {
								r.emit("note panic %s", c08clean(fmt.Sprint(x)))
								status = "panic"
							}
						}()
						status = r.run()
					}()
					<-done
					r.mu.Lock()
					lines = append([]string(nil), r.lines...)
					r.mu.Unlock()
					for _, e := range r.tb.c08errs() {
						lines = append(lines, "note fixture: "+c08clean(e))
					}
				})
				wmu.Lock()
				fmt.Fprintf(w, "CASE %s kind=%s cap=%d cap2=%d pays=%d status=%s\n", spec.id, spec.kind,
					int64(spec.capSat), int64(spec.capSat2), len(spec.pays), status)
				ps := append([]*c08Pay(nil), spec.pays...)
				sort.Slice(ps, func(a, b int) bool { return ps[a].n < ps[b].n })
				for _, p := range ps {
					fmt.Fprintf(w, "pay n=%d dir=%d kind=%s hash=%s pre=%s amtIn=%d amtOut=%d\n", p.n, p.dir,
						p.kind, c08hx(p.hash[:]), c08hx(p.pre[:]), uint64(p.amtIn), uint64(p.amtOut))
				}
				for _, l := range lines {
					fmt.Fprintln(w, l)
				}
				fmt.Fprintln(w, "END")
				w.Flush()
				wmu.Unlock()
			}
		}()
	}
	wg.Wait()
}
