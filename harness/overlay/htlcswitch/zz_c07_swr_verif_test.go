//go:build verif

package htlcswitch

// C07 `swrestart` stream: the response path of the REAL Switch across node
// restarts. Switch.New / Start / ForwardPackets / Stop over a real bbolt file,
// real circuit map, real forwarding packages written and acked through the
// channeldb packagers, mock links played by the harness:
//
//	outgoing link:  completeCircuit (OpenCircuits) for forwarded adds,
//	                AddFwdPkg when "the peer revoked", then hands the un-acked
//	                settle/fails of a package to the switch (like
//	                processRemoteSettleFails), possibly again later
//	incoming link:  takes responses out of its mailbox, "signs" (the ack of
//	                the SettleFailRefs is persisted, as AppendRemoteCommitChain
//	                does together with the commit diff), deletes the closed
//	                circuits + AckPacket
//	node restart:   after ANY operation; Switch.Start re-forwards from disk
//
// Every line carries the implementation's answer; after every operation the
// circuit map (snap) and the forwarding packages with their SettleFailFilter
// bits, Switch.pendingSettleFails, the undelivered mailbox contents and the
// link-side lists (wsnap) are dumped for the Lean driver.

import (
	"errors"
	"fmt"
	"os"
	"path/filepath"
	"sort"
	"strconv"
	"strings"
	"testing"
	"time"

	"bufio"
	"math/rand"

	"github.com/lightningnetwork/lnd/chainntnfs"
	"github.com/lightningnetwork/lnd/channeldb"
	"github.com/lightningnetwork/lnd/chanstate"
	"github.com/lightningnetwork/lnd/clock"
	"github.com/lightningnetwork/lnd/htlcswitch/hop"
	"github.com/lightningnetwork/lnd/kvdb"
	"github.com/lightningnetwork/lnd/lntest/mock"
	"github.com/lightningnetwork/lnd/lnwire"
	"github.com/lightningnetwork/lnd/ticker"
)

const (
	c07wChans = 5 // 0 = hop.Source (unused), in: 1, 3   out: 2, 4
	c07wIds   = 8
)

var (
	c07wIn  = []int{1, 3}
	c07wOut = []int{2, 4}
	c07wAll = []int{1, 2, 3, 4}
)

type c07wLink struct {
	*mockChannelLink
	pub [33]byte
}

func (l *c07wLink) PeerPubKey() [33]byte { return l.pub }

type c07wEnt struct {
	ch     int
	height uint64
	idx    int
	out    int
	settle bool
}

type c07w struct {
	*c07
	s       *Switch
	links   map[int]*c07wLink
	nextOut map[int]int
	pkgH    map[int]uint64
	ents    []c07wEnt
	inbox   map[int][]*htlcPacket
	signed  map[int][]CircuitKey
	wenv    c07Env
}

func c07wSid(n int) lnwire.ShortChannelID { return lnwire.NewShortChanIDFromInt(uint64(n)) }
func c07wCid(n int) lnwire.ChannelID      { return lnwire.ChannelID{byte(n), 0xc7, 0x57} }

func c07wUniverse() []CircuitKey {
	var u []CircuitKey
	for ch := 0; ch < c07wChans; ch++ {
		for id := 0; id < c07wIds; id++ {
			u = append(u, c07Key(ch, id))
		}
	}
	return u
}

func (w *c07w) chans() ([]*chanstate.OpenChannel, error) {
	var res []*chanstate.OpenChannel
	for _, a := range w.wenv.active {
		res = append(res, c07OpenChan(a, &c07Store{pendingIdx: a.pendingIdx}))
	}
	return res, nil
}

// newSwitch = htlcswitch.New + Start on the current DB with the current env.
func (w *c07w) newSwitch() string {
	cfg := Config{
		DB:                   w.db,
		FetchAllOpenChannels: w.chans,
		FetchAllChannels:     w.chans,
		FetchClosedChannels: func(bool) ([]*chanstate.ChannelCloseSummary, error) {
			return nil, nil
		},
		SwitchPackager: channeldb.NewSwitchPackager(),
		FwdingLog: &mockForwardingLog{
			events: make(map[time.Time]channeldb.ForwardingEvent),
		},
		FetchLastChannelUpdate: func(scid lnwire.ShortChannelID) (*lnwire.ChannelUpdate1, error) {
			return &lnwire.ChannelUpdate1{ShortChannelID: scid}, nil
		},
		Notifier: &mock.ChainNotifier{
			SpendChan: make(chan *chainntnfs.SpendDetail),
			EpochChan: make(chan *chainntnfs.BlockEpoch),
			ConfChan:  make(chan *chainntnfs.TxConfirmation),
		},
		// tickers only fire when the harness forces them
		FwdEventTicker:         ticker.NewForce(time.Hour),
		LogEventTicker:         ticker.NewForce(time.Hour),
		AckEventTicker:         ticker.NewForce(time.Hour),
		HtlcNotifier:           &mockHTLCNotifier{},
		Clock:                  clock.NewDefaultClock(),
		MailboxDeliveryTimeout: time.Hour,
		MaxFeeExposure:         DefaultMaxFeeExposure,
		IsAlias:                isAlias,
	}
	s, err := New(cfg, testStartingHeight)
	if err != nil {
		return "newerr:" + c07Err(err)
	}
	if err := s.Start(); err != nil {
		return "starterr"
	}
	w.s = s
	w.cm = s.circuits.(*circuitMap)
	w.sw = s
	w.barrier()
	w.links = map[int]*c07wLink{}
	for _, ch := range c07wAll {
		l := &c07wLink{
			mockChannelLink: newMockChannelLink(
				s, c07wCid(ch), c07wSid(ch), hop.Source, nil, true, false, false, false,
			),
			pub: [33]byte{2, byte(ch), 0xc7},
		}
		if err := s.AddLink(l); err != nil {
			return "addlinkerr"
		}
		w.links[ch] = l
	}
	return "ok"
}

// barrier returns once the forwarder goroutine has handled everything that was
// queued before: a settle for a circuit that cannot exist is answered last.
func (w *c07w) barrier() {
	errCh := make(chan error, 1)
	pkt := &htlcPacket{
		outgoingChanID: c07wSid(99),
		htlc:           &lnwire.UpdateFulfillHTLC{},
	}
	if err := w.s.routeAsync(pkt, errCh, nil); err != nil {
		return
	}
	select {
	case <-errCh:
	case <-time.After(10 * time.Second):
		w.t.Fatalf("switch does not answer")
	}
}

func c07wDrain(mb *memoryMailBox) []*htlcPacket {
	var got []*htlcPacket
	for {
		mb.pktCond.L.Lock()
		pending := mb.repHead != nil || mb.addHead != nil
		mb.pktCond.L.Unlock()
		if !pending {
			return got
		}
		select {
		case pkt := <-mb.PacketOutBox():
			got = append(got, pkt)
			for i := 0; i < 200000 && c07IsHead(mb, pkt); i++ {
				time.Sleep(10 * time.Microsecond)
			}
		case <-time.After(5 * time.Second):
			got = append(got, nil)
			return got
		}
	}
}

func (w *c07w) box(ch int) *memoryMailBox {
	return w.links[ch].mailBox.(*memoryMailBox)
}

func c07wRef(r *channeldb.SettleFailRef) string {
	if r == nil {
		return "-"
	}
	return fmt.Sprintf("%d:%d:%d", r.Source.ToUint64(), r.Height, r.Index)
}

func c07wResp(p *htlcPacket) string {
	if p == nil {
		return "timeout"
	}
	t := "f"
	switch p.htlc.(type) {
	case *lnwire.UpdateFulfillHTLC:
		t = "s"
	case *lnwire.UpdateAddHTLC:
		t = "a"
	}
	return c07ks(p.inKey()) + "@" + c07wRef(p.destRef) + ":" + t
}

func c07wResps(l []*htlcPacket) string {
	s := make([]string, len(l))
	for i, p := range l {
		s[i] = c07wResp(p)
	}
	return c07Join(s)
}

// wsnap dumps the durable packages (read back through the switch's own
// loader), pendingSettleFails, undelivered mailbox replies and the link lists.
func (w *c07w) wsnap() {
	var e, pa, mb, ib, sg []string
	for _, ch := range c07wOut {
		pkgs, err := w.s.loadChannelFwdPkgs(c07wSid(ch))
		if err != nil {
			e = append(e, "loaderr")
			continue
		}
		for _, p := range pkgs {
			for i, u := range p.SettleFails {
				t, id := "f", uint64(0)
				switch m := u.UpdateMsg.(type) {
				case *lnwire.UpdateFulfillHTLC:
					t, id = "s", m.ID
				case *lnwire.UpdateFailHTLC:
					id = m.ID
				}
				e = append(e, fmt.Sprintf("%d:%d:%d/%d.%d/%s/%d", ch, p.Height, i, ch, id, t,
					c07b(p.SettleFailFilter.Contains(uint16(i)))))
			}
		}
	}
	for i := range w.s.pendingSettleFails {
		pa = append(pa, c07wRef(&w.s.pendingSettleFails[i]))
	}
	for _, ch := range c07wIn {
		m := w.box(ch)
		m.pktCond.L.Lock()
		for el := m.repHead; el != nil; el = el.Next() {
			mb = append(mb, c07wResp(el.Value.(*htlcPacket)))
		}
		m.pktCond.L.Unlock()
		for _, p := range w.inbox[ch] {
			ib = append(ib, c07wResp(p))
		}
		for _, k := range w.signed[ch] {
			sg = append(sg, c07ks(k))
		}
	}
	// nothing may be parked as unclaimed: every link is bound
	w.s.mailOrchestrator.mu.RLock()
	un := 0
	for _, l := range w.s.mailOrchestrator.unclaimedPackets {
		un += len(l)
	}
	w.s.mailOrchestrator.mu.RUnlock()
	w.pf("wsnap E=%s PA=%s MB=%s IB=%s SG=%s un=%d", c07Join(e), c07Join(pa), c07Join(mb), c07Join(ib), c07Join(sg), un)
}

func (w *c07w) both() {
	w.snap()
	w.wsnap()
}

// ---------------------------------------------------------------- operations

// wAdd: an add arrives from incoming link in.ChanID and is forwarded over out
// channel ch by the real ForwardPackets; the outgoing link opens the circuit.
func (w *c07w) wAdd(in CircuitKey, ch int) {
	o := w.nextOut[ch]
	pkt := &htlcPacket{
		incomingChanID: in.ChanID,
		incomingHTLCID: in.HtlcID,
		outgoingChanID: c07wSid(ch),
		htlc: &lnwire.UpdateAddHTLC{
			PaymentHash: [32]byte{byte(in.ChanID.ToUint64()), byte(in.HtlcID), byte(o), 0xc7},
			Amount:      1,
		},
	}
	res := ""
	func() {
		defer func() {
			if r := recover(); r != nil {
				res = "panic"
			}
		}()
		if err := w.s.ForwardPackets(nil, pkt); err != nil {
			res = "fwderr"
			return
		}
		w.barrier()
		got := c07wDrain(w.box(ch))
		if len(got) != 1 || got[0] != pkt {
			res = fmt.Sprintf("notdelivered:%d", len(got))
			return
		}
		l := w.links[ch]
		l.htlcID = uint64(o)
		if err := l.completeCircuit(pkt); err != nil {
			res = "openerr:" + c07Err(err)
			return
		}
		w.nextOut[ch] = o + 1
		res = "ok"
	}()
	w.pf("wadd %s %s => %s", c07ks(in), c07ks(c07Key(ch, o)), res)
	w.both()
}

// wPkg: the peer of out channel ch revoked; the package with its settle/fails
// is written through the channel's packager.
func (w *c07w) wPkg(ch int, outs []int, settles []bool) uint64 {
	h := w.pkgH[ch]
	w.pkgH[ch] = h + 1
	var ups []channeldb.LogUpdate
	var desc []string
	for i, o := range outs {
		var msg lnwire.Message
		t := "f"
		if settles[i] {
			msg = &lnwire.UpdateFulfillHTLC{
				ChanID: c07wCid(ch), ID: uint64(o),
				PaymentPreimage: [32]byte{byte(ch), byte(o), 0x07},
			}
			t = "s"
		} else {
			msg = &lnwire.UpdateFailHTLC{ChanID: c07wCid(ch), ID: uint64(o), Reason: []byte{byte(o), 7}}
		}
		ups = append(ups, channeldb.LogUpdate{LogIndex: uint64(i), UpdateMsg: msg})
		desc = append(desc, fmt.Sprintf("%d.%d:%s", ch, o, t))
		w.ents = append(w.ents, c07wEnt{ch: ch, height: h, idx: i, out: o, settle: settles[i]})
	}
	pkg := channeldb.NewFwdPkg(c07wSid(ch), h, nil, ups)
	err := kvdb.Update(w.inner, func(tx kvdb.RwTx) error {
		return channeldb.NewChannelPackager(c07wSid(ch)).AddFwdPkg(tx, pkg)
	}, func() {})
	w.pf("wpkg %d %d %s => %s", ch, h, c07Join(desc), c07Err(err))
	w.both()
	return h
}

// wFwd: the outgoing link hands the not yet acked settle/fails of package
// (ch, h) to the switch, as channelLink.processRemoteSettleFails does.
func (w *c07w) wFwd(ch int, h uint64) {
	res := "ok"
	n := 0
	func() {
		defer func() {
			if r := recover(); r != nil {
				res = "panic"
			}
		}()
		pkgs, err := w.s.loadChannelFwdPkgs(c07wSid(ch))
		if err != nil {
			res = "loaderr"
			return
		}
		var pkts []*htlcPacket
		for _, p := range pkgs {
			if p.Height != h {
				continue
			}
			for i, u := range p.SettleFails {
				if p.SettleFailFilter.Contains(uint16(i)) {
					continue
				}
				destRef := p.DestRef(uint16(i))
				switch m := u.UpdateMsg.(type) {
				case *lnwire.UpdateFulfillHTLC:
					pkts = append(pkts, &htlcPacket{
						outgoingChanID: c07wSid(ch), outgoingHTLCID: m.ID,
						destRef: &destRef, htlc: m,
					})
				case *lnwire.UpdateFailHTLC:
					pkts = append(pkts, &htlcPacket{
						outgoingChanID: c07wSid(ch), outgoingHTLCID: m.ID,
						destRef: &destRef, htlc: m,
					})
				}
			}
		}
		n = len(pkts)
		if err := w.s.ForwardPackets(nil, pkts...); err != nil {
			res = "fwderr"
			return
		}
		w.barrier()
	}()
	w.pf("wfwd %d %d => %s n=%d", ch, h, res, n)
	w.both()
}

// wRecv: incoming link sid takes every queued response out of its mailbox.
func (w *c07w) wRecv(sid int) {
	got := c07wDrain(w.box(sid))
	w.inbox[sid] = append(w.inbox[sid], got...)
	w.pf("wrecv %d => %s", sid, c07wResps(got))
	w.both()
}

// wSign: incoming link sid signs a commitment with the first n responses of
// its update log: their SettleFailRefs are acked in one transaction.
func (w *c07w) wSign(sid, n int) {
	l := w.inbox[sid]
	if n > len(l) {
		n = len(l)
	}
	var refs []channeldb.SettleFailRef
	var keys []CircuitKey
	for _, p := range l[:n] {
		if p.destRef != nil {
			refs = append(refs, *p.destRef)
		}
		keys = append(keys, p.inKey())
	}
	err := kvdb.Update(w.inner, func(tx kvdb.RwTx) error {
		return w.s.cfg.SwitchPackager.AckSettleFails(tx, refs...)
	}, func() {})
	if err == nil {
		w.signed[sid] = append(w.signed[sid], keys...)
		w.inbox[sid] = append([]*htlcPacket{}, l[n:]...)
	}
	w.pf("wsign %d %d => %s keys=%s", sid, n, c07Err(err), c07KeyList(keys))
	w.both()
}

// wDel: incoming link sid deletes the circuits closed by its commitment(s) and
// removes the responses from its mailbox.
func (w *c07w) wDel(sid int, wf bool) {
	keys := append([]CircuitKey{}, w.signed[sid]...)
	res := ""
	func() {
		defer func() {
			if r := recover(); r != nil {
				res = "panic"
			}
		}()
		w.arm(wf)
		err := w.s.circuits.DeleteCircuits(keys...)
		w.arm(false)
		res = c07Err(err)
		if err == nil {
			for _, k := range keys {
				w.box(sid).AckPacket(k)
			}
			w.signed[sid] = nil
		}
	}()
	w.arm(false)
	w.pf("wdel %d %s wf=%d => %s", sid, c07KeyList(keys), c07b(wf), res)
	w.both()
}

// wAck: the switch's ack ticker fires.
func (w *c07w) wAck(wf bool) {
	w.arm(wf)
	select {
	case w.s.cfg.AckEventTicker.(*ticker.Force).Force <- time.Now():
	case <-time.After(10 * time.Second):
		w.t.Fatalf("ack ticker not consumed")
	}
	w.barrier()
	w.arm(false)
	w.pf("wack wf=%d => ok", c07b(wf))
	w.both()
}

func (w *c07w) wRestart(env c07Env) {
	w.wenv = env
	var ac []string
	for _, x := range env.active {
		ac = append(ac, c07ActiveStr(x))
	}
	_ = w.s.Stop()
	w.s, w.cm, w.sw = nil, nil, nil
	w.inner.Close()
	w.openDB()
	// everything volatile on the link side is gone as well
	w.inbox = map[int][]*htlcPacket{}
	res := w.newSwitch()
	w.pf("wrestart closed=- active=%s res=- => %s", c07Join(ac), res)
	if res != "ok" {
		w.t.Fatalf("wrestart: %s", res)
	}
	// circuits of the links' closed-circuit lists that no longer exist are
	// dropped from them (the links would find nothing to delete)
	for _, sid := range c07wIn {
		var keep []CircuitKey
		for _, k := range w.signed[sid] {
			if w.cm.LookupCircuit(k) != nil {
				keep = append(keep, k)
			}
		}
		w.signed[sid] = keep
	}
	w.both()
}

// ---------------------------------------------------------------- generator

func (w *c07w) maxEntOut(ch int) int {
	m := -1
	for _, e := range w.ents {
		if e.ch == ch && e.out > m {
			m = e.out
		}
	}
	return m
}

func (w *c07w) hasEnt(ch, out int) bool {
	for _, e := range w.ents {
		if e.ch == ch && e.out == out {
			return true
		}
	}
	return false
}

func (w *c07w) genEnv() c07Env {
	env := c07Env{res: map[CircuitKey]bool{}}
	for _, ch := range w.rng.Perm(4) {
		ch++
		if w.p(5) {
			continue // unknown to the channel DB
		}
		a := c07Active{ch: ch, pending: w.p(4), pendingIdx: -1}
		w.c07Kind(&a, 4)
		// the peer only answered HTLCs that are on a commitment: the next
		// local htlc index lies above every answered out id
		lo := w.maxEntOut(ch) + 1
		hi := w.nextOut[ch]
		if hi < lo {
			hi = lo
		}
		idx := lo + w.rng.Intn(hi-lo+1)
		if w.p(35) {
			idx = hi
		}
		if w.p(40) {
			a.remoteIdx = uint64(idx)
		} else {
			// a pending, signed not revoked commitment carries the newest ones
			a.pendingIdx = int64(idx)
			a.remoteIdx = uint64(w.rng.Intn(idx + 1))
		}
		env.active = append(env.active, a)
	}
	return env
}

func (w *c07w) genAdd() {
	var chs []int
	for _, ch := range c07wOut {
		if w.nextOut[ch] < c07wIds {
			chs = append(chs, ch)
		}
	}
	var free []CircuitKey
	for _, sid := range c07wIn {
		for id := 0; id < 4; id++ {
			k := c07Key(sid, id)
			if w.cm.LookupCircuit(k) == nil {
				free = append(free, k)
			}
		}
	}
	if len(chs) == 0 || len(free) == 0 {
		return
	}
	w.wAdd(free[w.rng.Intn(len(free))], chs[w.rng.Intn(len(chs))])
}

func (w *c07w) genPkg() {
	ch := c07wOut[w.rng.Intn(len(c07wOut))]
	var cand []int
	for o := 0; o < w.nextOut[ch]; o++ {
		if w.hasEnt(ch, o) {
			continue
		}
		if w.cm.LookupOpenCircuit(c07Key(ch, o)) != nil || w.p(8) {
			cand = append(cand, o)
		}
	}
	if len(cand) == 0 {
		return
	}
	w.rng.Shuffle(len(cand), func(i, j int) { cand[i], cand[j] = cand[j], cand[i] })
	n := 1 + w.rng.Intn(3)
	if w.p(60) && n < 2 {
		n = 2
	}
	if n > len(cand) {
		n = len(cand)
	}
	outs := cand[:n]
	settles := make([]bool, n)
	for i := range settles {
		settles[i] = w.p(55)
	}
	h := w.wPkg(ch, outs, settles)
	if w.p(72) {
		w.wFwd(ch, h)
	}
}

func (w *c07w) genFwd() {
	if len(w.ents) == 0 {
		return
	}
	e := w.ents[w.rng.Intn(len(w.ents))]
	w.wFwd(e.ch, e.height)
}

func (w *c07w) runCaseW(nops int) {
	w.n++
	w.file = fmt.Sprintf("c07w_%d.db", w.n)
	w.rawDB = false
	w.openDB()
	w.nextOut = map[int]int{}
	w.pkgH = map[int]uint64{2: 5, 4: 11}
	w.ents = nil
	w.inbox = map[int][]*htlcPacket{}
	w.signed = map[int][]CircuitKey{}
	w.wenv = c07Env{res: map[CircuitKey]bool{}}
	for _, ch := range c07wAll {
		w.wenv.active = append(w.wenv.active, c07Active{ch: ch, pendingIdx: -1})
	}
	w.pf("CASE %d kind=swr", w.n)
	if r := w.newSwitch(); r != "ok" {
		w.t.Fatalf("initial switch: %s", r)
	}
	w.both()
	pickIn := func() int { return c07wIn[w.rng.Intn(len(c07wIn))] }
	// pickWith prefers a link for which `n` is non-zero
	pickWith := func(n func(int) int) int {
		sid := pickIn()
		if n(sid) == 0 {
			for _, o := range c07wIn {
				if n(o) > 0 {
					return o
				}
			}
		}
		return sid
	}
	for i := 0; i < nops; i++ {
		switch r := w.rng.Intn(100); {
		case r < 20:
			w.genAdd()
		case r < 37:
			w.genPkg()
		case r < 43:
			w.genFwd()
		case r < 58:
			w.wRecv(pickWith(func(s int) int {
				m := w.box(s)
				m.pktCond.L.Lock()
				defer m.pktCond.L.Unlock()
				if m.repHead != nil {
					return 1
				}
				return 0
			}))
		case r < 73:
			sid := pickWith(func(s int) int { return len(w.inbox[s]) })
			if n := len(w.inbox[sid]); n > 0 {
				k := 1
				if w.p(35) {
					k = 1 + w.rng.Intn(n)
				}
				w.wSign(sid, k)
			}
		case r < 83:
			sid := pickWith(func(s int) int { return len(w.signed[s]) })
			if len(w.signed[sid]) > 0 || w.p(10) {
				w.wDel(sid, w.p(8))
			}
		case r < 87:
			w.wAck(w.p(10))
		default:
			w.wRestart(w.genEnv())
		}
	}
	// the case ends with a restart and a full round of deliveries, so that
	// whatever the schedule left un-acked is observed being relayed again
	w.wRestart(w.genEnv())
	for _, sid := range c07wIn {
		w.wRecv(sid)
	}
	w.pf("END")
	_ = w.s.Stop()
	w.inner.Close()
	os.Remove(filepath.Join(w.dir, w.file))
}

// scriptedW: the crash windows of the property on a package of two
// settle/fails, present for every seed.
func (w *c07w) scriptedW() {
	start := func() {
		w.n++
		w.file = fmt.Sprintf("c07w_%d.db", w.n)
		w.rawDB = false
		w.openDB()
		w.nextOut = map[int]int{}
		w.pkgH = map[int]uint64{2: 5, 4: 11}
		w.ents = nil
		w.inbox = map[int][]*htlcPacket{}
		w.signed = map[int][]CircuitKey{}
		w.wenv = c07Env{res: map[CircuitKey]bool{}}
		for _, ch := range c07wAll {
			w.wenv.active = append(w.wenv.active, c07Active{ch: ch, pendingIdx: -1})
		}
		w.pf("CASE %d kind=swr-script", w.n)
		if r := w.newSwitch(); r != "ok" {
			w.t.Fatalf("initial switch: %s", r)
		}
		w.both()
	}
	end := func() {
		w.pf("END")
		_ = w.s.Stop()
		w.inner.Close()
		os.Remove(filepath.Join(w.dir, w.file))
	}
	env := func(idx2 uint64) c07Env {
		e := c07Env{res: map[CircuitKey]bool{}}
		e.active = []c07Active{
			{ch: 1, pendingIdx: -1, kind: 1}, {ch: 2, remoteIdx: idx2, pendingIdx: -1, kind: 3, real: 102},
			{ch: 3, pendingIdx: -1}, {ch: 4, pendingIdx: -1},
		}
		return e
	}
	// crash after each step of: package written / relayed / received / signed / deleted
	for crash := 0; crash < 6; crash++ {
		start()
		w.wAdd(c07Key(1, 0), 2)
		w.wAdd(c07Key(1, 1), 2)
		w.wAdd(c07Key(3, 0), 2)
		h := w.wPkg(2, []int{0, 1, 2}, []bool{true, false, true})
		if crash >= 1 {
			w.wFwd(2, h)
		}
		if crash >= 2 {
			w.wRecv(1)
			w.wFwd(2, h) // the outgoing link replays the package
		}
		if crash >= 3 {
			w.wSign(1, 1)
		}
		if crash >= 4 {
			w.wDel(1, crash == 4)
		}
		w.wRestart(env(3))
		w.wRecv(1)
		w.wRecv(3)
		w.wSign(1, 2)
		w.wSign(3, 1)
		w.wRestart(env(3))
		w.wRecv(1)
		w.wRecv(3)
		w.wDel(1, false)
		w.wDel(3, false)
		w.wAck(false)
		w.wRestart(env(3))
		w.wRecv(1)
		w.wRecv(3)
		end()
	}
}

func TestVerifC07SwRestart(t *testing.T) {
	out := os.Getenv("VERIF_OUT")
	if out == "" {
		t.Skip("VERIF_OUT not set")
	}
	seed, _ := strconv.ParseInt(os.Getenv("VERIF_SEED"), 10, 64)
	tier := os.Getenv("VERIF_TIER")
	f, err := os.Create(out)
	if err != nil {
		t.Fatal(err)
	}
	defer f.Close()
	bw := bufio.NewWriterSize(f, 1<<20)
	defer bw.Flush()

	dir := ""
	if st, err := os.Stat("/dev/shm"); err == nil && st.IsDir() {
		dir, _ = os.MkdirTemp("/dev/shm", "c07w_")
	}
	if dir == "" {
		dir = t.TempDir()
	} else {
		defer os.RemoveAll(dir)
	}
	c := &c07{t: t, w: bw, rng: rand.New(rand.NewSource(seed*15485863 + 13)), dir: dir}
	c.univ = c07wUniverse()
	w := &c07w{c07: c}
	c.pf("FACT chans=%d ids=%d source=%d", c07wChans, c07wIds, 0)
	cases := 260
	budget := 50 * time.Second
	if tier == "thorough" {
		cases = 8000
		budget = 200 * time.Second
	}
	startT := time.Now()
	w.scriptedW()
	for i := 0; i < cases && time.Since(startT) < budget; i++ {
		w.runCaseW(12 + w.rng.Intn(34))
	}
}

var _ = errors.New
var _ = sort.Ints
var _ = strings.Join
