//go:build verif

package shachain

// C06 correspondence/monitor harness. Injected with `go test -overlay`; drives
// the real RevocationStore / RevocationProducer and prints one line per
// operation for the Lean driver (drv_c06).

import (
	"bufio"
	"bytes"
	"encoding/hex"
	"fmt"
	"math/rand"
	"os"
	"strconv"
	"testing"

	"github.com/btcsuite/btcd/chainhash/v2"
)

type c06 struct {
	w     *bufio.Writer
	rng   *rand.Rand
	store *RevocationStore
	n     int
}

func (c *c06) pf(format string, a ...interface{}) { fmt.Fprintf(c.w, format+"\n", a...) }

func hx(b []byte) string {
	if len(b) == 0 {
		return "-"
	}
	return hex.EncodeToString(b)
}

func (c *c06) startCase(kind string, root *chainhash.Hash, k0 uint64) {
	c.n++
	c.pf("CASE %d kind=%s root=%s k0=%d", c.n, kind, hx(root[:]), k0)
}

func (c *c06) load(b []byte) {
	res := "ok"
	func() {
		defer func() {
			if r := recover(); r != nil {
				res = "panic"
			}
		}()
		s, err := NewRevocationStoreFromBytes(bytes.NewReader(b))
		if err != nil {
			res = "err"
			return
		}
		c.store = s
	}()
	c.pf("load %s => %s", hx(b), res)
}

func (c *c06) add(h *chainhash.Hash, prodIdx int64) string {
	res := "ok"
	func() {
		defer func() {
			if r := recover(); r != nil {
				res = "panic"
			}
		}()
		if err := c.store.AddNextEntry(h); err != nil {
			res = "reject"
		}
	}()
	if prodIdx >= 0 {
		c.pf("addp %d %s => %s", prodIdx, hx(h[:]), res)
	} else {
		c.pf("add %s => %s", hx(h[:]), res)
	}
	return res
}

func (c *c06) look(v uint64) {
	h, err := c.store.LookUp(v)
	if err != nil {
		c.pf("look %d => none", v)
		return
	}
	c.pf("look %d => %s", v, hx(h[:]))
}

func (c *c06) enc() []byte {
	var b bytes.Buffer
	if err := c.store.Encode(&b); err != nil {
		c.pf("enc => err")
		return nil
	}
	c.pf("enc => %s", hx(b.Bytes()))
	return b.Bytes()
}

func (c *c06) state() {
	c.pf("state => len=%d index=%d", c.store.lenBuckets, uint64(c.store.index))
}

func (c *c06) prod(p *RevocationProducer, v uint64) *chainhash.Hash {
	h, err := p.AtIndex(v)
	if err != nil {
		c.pf("prod %s %d => err", hx(p.root.hash[:]), v)
		return nil
	}
	c.pf("prod %s %d => %s", hx(p.root.hash[:]), v, hx(h[:]))
	return h
}

func (c *c06) randHash() chainhash.Hash {
	var h chainhash.Hash
	c.rng.Read(h[:])
	return h
}

// honestBytes serialises the store an honest receiver holds after the first
// k0 secrets of producer p (next index n = startIndex - k0), computed from the
// definition (bucket b = most recent index with exactly b trailing zeros)
// rather than by k0 insertions, so deep positions are reachable.
func honestBytes(p *RevocationProducer, k0 uint64) []byte {
	var b bytes.Buffer
	start := uint64(startIndex)
	type be struct {
		idx uint64
		h   chainhash.Hash
	}
	var bs []be
	if k0 > 0 {
		n := start - k0 // next index; all indexes in (n, start] were received
		if k0 == start+1 {
			n = 0
		}
		for bkt := uint(0); bkt <= uint(maxHeight); bkt++ {
			var m uint64
			if k0 == start+1 {
				// everything received, incl. index 0 (bucket 48)
				if bkt == uint(maxHeight) {
					m = 0
				} else {
					m = uint64(1) << bkt
				}
			} else {
				if bkt == uint(maxHeight) {
					break
				}
				m = ((n >> bkt) + 1) << bkt
				if (m>>bkt)&1 == 0 {
					m += uint64(1) << bkt
				}
				if m > start {
					break
				}
			}
			h, err := p.AtIndex(start - m)
			if err != nil {
				panic(err)
			}
			bs = append(bs, be{m, *h})
		}
	}
	b.WriteByte(byte(len(bs)))
	for _, e := range bs {
		var ib [8]byte
		for i := 0; i < 8; i++ {
			ib[i] = byte(e.idx >> (8 * uint(7-i)))
		}
		b.Write(ib[:])
		b.Write(e.h[:])
	}
	next := start - k0
	var ib [8]byte
	for i := 0; i < 8; i++ {
		ib[i] = byte(next >> (8 * uint(7-i)))
	}
	b.Write(ib[:])
	return b.Bytes()
}

// structured positions: bit patterns that exercise every bucket level.
func (c *c06) pickK0() uint64 {
	start := uint64(startIndex)
	switch c.rng.Intn(6) {
	case 0: // small
		return uint64(c.rng.Intn(300))
	case 1: // next index has z trailing zeros, random upper bits
		z := uint(c.rng.Intn(48))
		n := (c.rng.Uint64() & start) >> z << z
		n |= uint64(1) << z
		n &= start
		return start - n
	case 2: // next index is all-ones tail
		z := uint(c.rng.Intn(48))
		n := (c.rng.Uint64() & start) | ((uint64(1) << z) - 1)
		return start - n
	case 3: // alternating / single zero run
		n := uint64(0xAAAAAAAAAAAA) >> uint(c.rng.Intn(2))
		n &^= ((uint64(1) << uint(c.rng.Intn(20))) - 1) << uint(c.rng.Intn(28))
		return start - (n & start)
	case 4: // near the end of the index space
		return start - uint64(c.rng.Intn(70))
	default:
		return start - (c.rng.Uint64() & start)
	}
}

func TestVerifC06(t *testing.T) {
	out := os.Getenv("VERIF_OUT")
	if out == "" {
		t.Skip("VERIF_OUT not set")
	}
	seed, _ := strconv.ParseInt(os.Getenv("VERIF_SEED"), 10, 64)
	thorough := os.Getenv("VERIF_TIER") == "thorough"
	f, err := os.Create(out)
	if err != nil {
		t.Fatal(err)
	}
	defer f.Close()
	c := &c06{w: bufio.NewWriterSize(f, 1<<20), rng: rand.New(rand.NewSource(seed))}
	defer c.w.Flush()

	c.pf("FACT maxHeight=%d startIndex=%d numBuckets=%d", maxHeight, uint64(startIndex), len(c06buckets()))

	mult := 1
	if thorough {
		mult = 12
	}
	start := uint64(startIndex)

	// (1) sequential insertion from a fresh store.
	for i := 0; i < 6*mult; i++ {
		root := c.randHash()
		p := NewRevocationProducer(root)
		c.startCase("fresh", &root, 0)
		c.store = NewRevocationStore()
		c.pf("new")
		k := 40 + c.rng.Intn(200)
		for j := 0; j < k; j++ {
			h := c.prod(p, uint64(j))
			c.add(h, int64(j))
			if c.rng.Intn(4) == 0 {
				c.look(uint64(c.rng.Intn(j + 3)))
			}
			if c.rng.Intn(16) == 0 {
				c.state()
				b := c.enc()
				c.load(b)
				c.enc()
			}
		}
		for v := 0; v <= k+1; v++ {
			c.look(uint64(v))
		}
		c.state()
		c.pf("END")
	}

	// (2) deep positions, then continue honestly.
	for i := 0; i < 60*mult; i++ {
		root := c.randHash()
		p := NewRevocationProducer(root)
		k0 := c.pickK0()
		if i == 0 {
			k0 = start // next index 0: the 2^48-th secret goes to bucket 48
		}
		if i == 1 {
			k0 = start - 1
		}
		c.startCase("deep", &root, k0)
		c.load(honestBytes(p, k0))
		c.state()
		k := k0
		steps := 1 + c.rng.Intn(40)
		for j := 0; j < steps && k <= start; j++ {
			// lookups around: inserted, not inserted, far away
			if k > 0 {
				c.look(k - 1)
				c.look(uint64(c.rng.Int63n(int64(k))))
				if k > 70 {
					c.look(k - 1 - uint64(c.rng.Intn(64)))
					c.look(k - (uint64(1) << uint(c.rng.Intn(47))%k) - 1 + 0)
				}
			}
			c.look(k)
			c.look(k + uint64(c.rng.Intn(5)))
			h := c.prod(p, k)
			// sometimes try a corrupted secret first: must be rejected
			// whenever there is something to check it against.
			if c.rng.Intn(3) == 0 {
				bad := *h
				bad[c.rng.Intn(32)] ^= 1 << uint(c.rng.Intn(8))
				if c.add(&bad, -1) == "ok" {
					// accepted (index had no trailing zeros): the store now
					// holds a foreign secret; stop the honest run here.
					c.state()
					break
				}
				// rejected: the store must be unchanged, so the honest
				// secret for the same position must still be accepted.
				c.state()
			}
			c.add(h, int64(k))
			k++
			if c.rng.Intn(5) == 0 {
				c.state()
				b := c.enc()
				c.load(b)
				c.enc()
			}
		}
		c.state()
		c.pf("END")
	}

	// (3) out-of-order / foreign secrets on honest stores.
	for i := 0; i < 30*mult; i++ {
		root := c.randHash()
		p := NewRevocationProducer(root)
		k0 := c.pickK0()
		if k0 > start-2 {
			k0 = start - 2
		}
		c.startCase("foreign", &root, k0)
		c.load(honestBytes(p, k0))
		switch c.rng.Intn(3) {
		case 0: // secret of another index
			off := uint64(1 + c.rng.Intn(3))
			h := c.prod(p, k0+off)
			c.add(h, -1)
		case 1: // secret of another producer
			r2 := c.randHash()
			p2 := NewRevocationProducer(r2)
			h, _ := p2.AtIndex(k0)
			c.add(h, -1)
		default:
			h := c.randHash()
			c.add(&h, -1)
		}
		c.state()
		c.look(k0)
		if k0 > 0 {
			c.look(k0 - 1)
		}
		c.pf("END")
	}

	// (2b) the top of the index space: stores with 47, 48 and 49 active
	// buckets (the 49th only exists after the LAST secret, internal index 0).
	// Each store is reached by real AddNextEntry calls from the honest state
	// just before, then Encode -> NewRevocationStoreFromBytes -> Encode and
	// look-ups incl. v = 2^48-1 (index 0) on the decoded store.
	for i, n0 := range []uint64{
		1, 2, 3, // next index 1..3 -> after the adds: everything incl. index 0, lenBuckets 49
		uint64(1)<<47 + 1, uint64(1) << 47, // lenBuckets 47 -> 48 when index 2^47 arrives
		uint64(1)<<46 + 2, uint64(1)<<47 + uint64(1)<<46 + 1,
		1 + uint64(c.rng.Intn(6)),
	} {
		root := c.randHash()
		p := NewRevocationProducer(root)
		k0 := start - n0
		c.startCase("deep", &root, k0)
		c.load(honestBytes(p, k0))
		c.state()
		k := k0
		steps := int(n0) + 1
		if steps > 4 {
			steps = 2 + i%3
		}
		for j := 0; j < steps && k <= start; j++ {
			h := c.prod(p, k)
			c.add(h, int64(k))
			k++
			c.state()
			b := c.enc()
			c.load(b)
			c.enc()
			c.look(k - 1)
			c.look(k)
			c.look(0)
			c.look(start)
			c.look(k0 + uint64(c.rng.Int63n(int64(k-k0))))
			c.look(uint64(c.rng.Int63n(int64(k0))))
		}
		c.pf("END")
	}

	// (3c) a FOREIGN but self-consistent subtree: the next index n has d low
	// one-bits, i.e. n = I + 2^d - 1 with I having exactly d trailing zeros.
	// AddNextEntry compares a new element only with the buckets below its
	// own level, so the 2^d values derived from an arbitrary value at I are
	// all accepted.  Whatever was accepted must be reproduced exactly
	// (theorem store_reproduces_accepted); monitor clause reproduce-accepted.
	for i := 0; i < 10*mult; i++ {
		root := c.randHash()
		p := NewRevocationProducer(root)
		d := uint(1 + c.rng.Intn(5))
		n := (c.rng.Uint64() & start) | ((uint64(1) << d) - 1)
		n |= uint64(1) << d // bit d set: I = n - (2^d - 1) has exactly d trailing zeros
		if i == 0 {
			n = (uint64(1) << d) - 1 // the very end of the index space: I = 0
			n |= 0
		}
		k0 := start - n
		base := n - ((uint64(1) << d) - 1)
		if i == 0 {
			// I = 0 has 48 trailing zeros: use the whole-level variant only for small d
			base = 0
			d = 3
			n = 7
			k0 = start - n
		}
		c.startCase("subtree", &root, k0)
		c.load(honestBytes(p, k0))
		c.state()
		fr := c.randHash()
		fake := &element{index: index(base), hash: fr}
		k := k0
		okAll := true
		for t := n; ; t-- {
			e, err := fake.derive(index(t))
			if err != nil {
				panic(err)
			}
			if c.add(&e.hash, -1) != "ok" {
				okAll = false
				break
			}
			k++
			c.look(k - 1)
			if k > 1 {
				c.look(k0 + uint64(c.rng.Int63n(int64(k-k0))))
			}
			if k0 > 0 {
				c.look(uint64(c.rng.Int63n(int64(k0))))
			}
			if t == base {
				break
			}
		}
		c.state()
		if okAll {
			for v := k0; v < k+2; v++ {
				c.look(v)
			}
			b := c.enc()
			c.load(b)
			c.enc()
			for v := k0; v < k+1; v++ {
				c.look(v)
			}
			if base > 0 {
				// the honest continuation: index base-1 is odd (accepted), the
				// one after it must be refused (it cannot derive the foreign bucket)
				h := c.prod(p, k)
				c.add(h, -1)
				c.look(k)
				c.look(k - 1)
				h2 := c.prod(p, k+1)
				c.add(h2, -1)
				c.look(k + 1)
				c.state()
			}
		}
		c.pf("END")
	}

	// (3b) producer beyond the index space: indexes >= 2^48 (and values with
	// high bits set) must be refused, never aliased onto an in-range secret.
	for i := 0; i < 4*mult; i++ {
		root := c.randHash()
		p := NewRevocationProducer(root)
		c.startCase("prodrange", &root, 0)
		c.store = NewRevocationStore()
		c.pf("new")
		for _, v := range []uint64{
			start - 1, start, start + 1, start + 2, start + 1 + uint64(c.rng.Intn(1000)),
			(start + 1) | uint64(c.rng.Uint32()), (uint64(1) << 49) - 1, uint64(1) << 63,
			(uint64(1) << 63) | uint64(c.rng.Intn(8)), ^uint64(0), c.rng.Uint64() | (uint64(1) << (48 + uint(c.rng.Intn(16)))),
		} {
			c.prod(p, v)
			c.prod(p, v&start) // the in-range index it would alias to
		}
		c.pf("END")
	}

	// (4) decoder on arbitrary / mutated bytes.
	for i := 0; i < 80*mult; i++ {
		root := c.randHash()
		p := NewRevocationProducer(root)
		c.startCase("bytes", &root, 0)
		c.store = NewRevocationStore()
		c.pf("new")
		var b []byte
		if c.rng.Intn(2) == 0 {
			b = honestBytes(p, c.pickK0())
			switch c.rng.Intn(4) {
			case 0:
				b = b[:c.rng.Intn(len(b)+1)]
			case 1:
				b[0] = byte(c.rng.Intn(256))
			case 2:
				b[c.rng.Intn(len(b))] ^= 1 << uint(c.rng.Intn(8))
			default:
				b = append(b, byte(c.rng.Intn(256)))
			}
		} else {
			b = make([]byte, c.rng.Intn(60))
			c.rng.Read(b)
			if len(b) > 0 && c.rng.Intn(2) == 0 {
				b[0] = byte(c.rng.Intn(3))
			}
		}
		c.load(b)
		c.state()
		c.enc()
		c.look(uint64(c.rng.Intn(4)))
		c.pf("END")
	}
}

func c06buckets() []element {
	s := NewRevocationStore()
	return s.buckets[:]
}
