//go:build verif

package discovery

// C20 correspondence/monitor harness ("only authentic, fresh gossip changes the
// channel graph").  Injected with `go test -overlay`.
//
// Every case runs inside a testing/synctest bubble (deterministic fake clock,
// `synctest.Wait` = "the gossiper is quiescent"), on the package's own
// createTestCtx fixture (real AuthenticatedGossiper, validation barrier,
// trickle/broadcast path, reject/premature/future caches, ban manager) whose
// mock graph source is replaced by the real graph.Builder on a real graph DB
// (graphdb.MakeTestGraph: bbolt kv store, or the SQL store under
// -tags test_db_sqlite) and whose testify mock chain is replaced by a small
// programmable chain.  Keys and signatures are real secp256k1/ECDSA.
//
// One line per operation: the message as a record over *symbolic* keys and
// signatures (key ids; a signature is `k<key>.d<digest id>` when the harness
// produced it by signing that DataToSign byte string with that key, `j<n>`
// otherwise), the independently recomputed real ECDSA validity (btcec), the
// result of ProcessRemoteAnnouncement, the messages handed to Broadcast and a
// canonical dump of the graph after the operation.

import (
	"bufio"
	"bytes"
	"context"
	"crypto/sha256"
	"encoding/binary"
	"encoding/hex"
	"errors"
	"fmt"
	"image/color"
	"math/rand"
	"net"
	"os"
	"sort"
	"strconv"
	"strings"
	"sync"
	"testing"
	"testing/synctest"
	"time"

	"github.com/btcsuite/btcd/btcec/v2"
	"github.com/btcsuite/btcd/btcec/v2/ecdsa"
	"github.com/btcsuite/btcd/btcutil/v2"
	"github.com/btcsuite/btcd/chaincfg/v2"
	"github.com/btcsuite/btcd/chainhash/v2"
	"github.com/btcsuite/btcd/txscript/v2"
	"github.com/btcsuite/btcd/wire/v2"
	"github.com/lightningnetwork/lnd/actor"
	"github.com/lightningnetwork/lnd/fn/v2"
	"github.com/lightningnetwork/lnd/graph"
	graphdb "github.com/lightningnetwork/lnd/graph/db"
	"github.com/lightningnetwork/lnd/graph/db/models"
	"github.com/lightningnetwork/lnd/input"
	"github.com/lightningnetwork/lnd/kvdb"
	"github.com/lightningnetwork/lnd/lnwallet/btcwallet"
	"github.com/lightningnetwork/lnd/lnwire"
	"github.com/lightningnetwork/lnd/routing/chainview"
	"github.com/lightningnetwork/lnd/routing/route"
)

// ---------------------------------------------------------------------------
// programmable chain

type c20Out struct {
	script []byte
	value  int64
	spent  int // 0 unspent, 1 spent (ErrOutputSpent), 2 other GetUtxo error
}

type c20TxKey struct {
	h  int64
	tx uint32
}

type c20Chain struct {
	mu         sync.Mutex
	best       int32
	noBlock    map[int64]bool       // height unknown to the backend
	fetchErr   map[int64]bool       // GetBlock fails with a transport error
	shortBlock map[c20TxKey]bool    // the block has only tx indices < tx
	shortTx    map[uint64]bool      // the tx has only outputs < pos (by scid)
	outs       map[uint64]*c20Out   // by scid
	known      map[int64]bool       // heights with at least one programmed scid
}

func newC20Chain(best int32) *c20Chain {
	return &c20Chain{
		best: best, noBlock: map[int64]bool{}, fetchErr: map[int64]bool{},
		shortBlock: map[c20TxKey]bool{}, shortTx: map[uint64]bool{},
		outs: map[uint64]*c20Out{}, known: map[int64]bool{},
	}
}

func c20HeightHash(h int64) *chainhash.Hash {
	var hash chainhash.Hash
	binary.BigEndian.PutUint64(hash[8:16], uint64(h))
	hash[0] = 0xc2
	return &hash
}

func (c *c20Chain) GetBestBlock() (*chainhash.Hash, int32, error) {
	c.mu.Lock()
	defer c.mu.Unlock()
	return c20HeightHash(int64(c.best)), c.best, nil
}

func (c *c20Chain) GetBlockHash(height int64) (*chainhash.Hash, error) {
	c.mu.Lock()
	defer c.mu.Unlock()
	if !c.known[height] || c.noBlock[height] {
		return nil, fmt.Errorf("-8: Block number out of range")
	}
	return c20HeightHash(height), nil
}

// buildBlock materialises the block at height h from the programmed outputs.
func (c *c20Chain) buildBlock(h int64) []*wire.MsgTx {
	ntx := 1
	limit := -1
	for s := range c.outs {
		id := lnwire.NewShortChanIDFromInt(s)
		if int64(id.BlockHeight) == h && int(id.TxIndex)+1 > ntx {
			ntx = int(id.TxIndex) + 1
		}
	}
	for s := range c.shortTx {
		id := lnwire.NewShortChanIDFromInt(s)
		if int64(id.BlockHeight) == h && int(id.TxIndex)+1 > ntx {
			ntx = int(id.TxIndex) + 1
		}
	}
	for k := range c.shortBlock {
		if k.h == h && (limit < 0 || int(k.tx) < limit) {
			limit = int(k.tx)
		}
	}
	if limit >= 0 && ntx > limit {
		ntx = limit
	}
	if ntx < 1 {
		ntx = 1
	}
	txs := make([]*wire.MsgTx, ntx)
	for i := range txs {
		tx := wire.NewMsgTx(2)
		tx.LockTime = uint32(h*1000) + uint32(i)
		// every transaction has several outputs; the ones no scid was programmed
		// for are ordinary unspent outputs with some other script
		nout := 6
		for s := range c.outs {
			id := lnwire.NewShortChanIDFromInt(s)
			if int64(id.BlockHeight) == h && int(id.TxIndex) == i && !c.shortTx[s] &&
				int(id.TxPosition)+1 > nout {

				nout = int(id.TxPosition) + 1
			}
		}
		for s := range c.shortTx {
			id := lnwire.NewShortChanIDFromInt(s)
			if int64(id.BlockHeight) == h && int(id.TxIndex) == i && nout > int(id.TxPosition) {
				nout = int(id.TxPosition)
			}
		}
		for j := 0; j < nout; j++ {
			tx.TxOut = append(tx.TxOut, &wire.TxOut{Value: 7, PkScript: []byte{0x51, byte(j)}})
		}
		for s, o := range c.outs {
			id := lnwire.NewShortChanIDFromInt(s)
			if int64(id.BlockHeight) == h && int(id.TxIndex) == i && int(id.TxPosition) < nout {
				tx.TxOut[id.TxPosition] = &wire.TxOut{Value: o.value, PkScript: o.script}
			}
		}
		txs[i] = tx
	}
	return txs
}

func (c *c20Chain) GetBlock(hash *chainhash.Hash) (*wire.MsgBlock, error) {
	c.mu.Lock()
	defer c.mu.Unlock()
	h := int64(binary.BigEndian.Uint64(hash[8:16]))
	if c.fetchErr[h] {
		return nil, fmt.Errorf("connection refused")
	}
	if !c.known[h] || c.noBlock[h] {
		return nil, fmt.Errorf("block not found")
	}
	return &wire.MsgBlock{Transactions: c.buildBlock(h)}, nil
}

func (c *c20Chain) GetBlockHeader(*chainhash.Hash) (*wire.BlockHeader, error) {
	return &wire.BlockHeader{}, nil
}

func (c *c20Chain) GetUtxo(op *wire.OutPoint, _ []byte, _ uint32,
	_ <-chan struct{}) (*wire.TxOut, error) {

	c.mu.Lock()
	defer c.mu.Unlock()
	// answer per outpoint (txid:index): find the transaction, then the output
	for h := range c.known {
		if c.noBlock[h] || c.fetchErr[h] {
			continue
		}
		for ti, tx := range c.buildBlock(h) {
			if tx.TxHash() != op.Hash {
				continue
			}
			if int(op.Index) >= len(tx.TxOut) {
				return nil, fmt.Errorf("unknown outpoint")
			}
			id := lnwire.ShortChannelID{
				BlockHeight: uint32(h), TxIndex: uint32(ti), TxPosition: uint16(op.Index),
			}
			if o, ok := c.outs[id.ToUint64()]; ok {
				switch o.spent {
				case 1:
					return nil, btcwallet.ErrOutputSpent
				case 2:
					return nil, fmt.Errorf("rpc timeout")
				}
				return &wire.TxOut{Value: o.value, PkScript: o.script}, nil
			}
			out := tx.TxOut[op.Index]
			return &wire.TxOut{Value: out.Value, PkScript: out.PkScript}, nil
		}
	}
	return nil, fmt.Errorf("unknown outpoint")
}

// trueOutpoint is the harness's own ground truth: the outpoint txid:output of the
// scid (height, tx_index, output index), or "-" if there is no such output.
func (c *c20Chain) trueOutpoint(scid lnwire.ShortChannelID) string {
	c.mu.Lock()
	defer c.mu.Unlock()
	h := int64(scid.BlockHeight)
	if !c.known[h] || c.noBlock[h] || c.fetchErr[h] {
		return "-"
	}
	txs := c.buildBlock(h)
	if int(scid.TxIndex) >= len(txs) || int(scid.TxPosition) >= len(txs[scid.TxIndex].TxOut) {
		return "-"
	}
	return fmt.Sprintf("%s.%d", txs[scid.TxIndex].TxHash().String()[:16], scid.TxPosition)
}

// program sets what the chain answers for scid.
func (c *c20Chain) program(scid lnwire.ShortChannelID, res string, script []byte,
	value int64, spent int) {

	c.mu.Lock()
	defer c.mu.Unlock()
	h := int64(scid.BlockHeight)
	s := scid.ToUint64()
	c.known[h] = true
	delete(c.noBlock, h)
	delete(c.fetchErr, h)
	delete(c.shortBlock, c20TxKey{h, scid.TxIndex})
	delete(c.shortTx, s)
	delete(c.outs, s)
	switch res {
	case "utxo":
		c.outs[s] = &c20Out{script: script, value: value, spent: spent}
	case "noout":
		c.shortTx[s] = true
	case "notx":
		c.shortBlock[c20TxKey{h, scid.TxIndex}] = true
	case "noblk":
		c.noBlock[h] = true
	case "fetcherr":
		c.fetchErr[h] = true
	}
}

// c20View is the FilteredChainView stub the (never started) Builder calls
// UpdateFilter on.
type c20View struct{}

func newC20ChainView() chainview.FilteredChainView { return c20View{} }

func (c20View) FilteredBlocks() <-chan *chainview.FilteredBlock     { return nil }
func (c20View) DisconnectedBlocks() <-chan *chainview.FilteredBlock { return nil }
func (c20View) UpdateFilter([]graphdb.EdgePoint, uint32) error      { return nil }
func (c20View) FilterBlock(*chainhash.Hash) (*chainview.FilteredBlock, error) {
	return nil, fmt.Errorf("not implemented")
}
func (c20View) Start() error { return nil }
func (c20View) Stop() error  { return nil }

// ---------------------------------------------------------------------------
// harness state

type c20 struct {
	t    *testing.T
	w    *bufio.Writer
	rng  *rand.Rand
	tier string
	n    int // case counter

	privs  []*btcec.PrivateKey
	keyIDs map[[33]byte]int
	keyPub map[int][33]byte
	digIDs map[string]int
	sigs   map[[64]byte]string
	junk   int
	shapes []lnwire.ShortChannelID
	chains map[chainhash.Hash]int
	skipped int
}

type c20Pending struct {
	mid int
	f   actor.Future[error]
}

type c20Case struct {
	h       *c20
	tc      *testCtx
	g       *graphdb.ChannelGraph
	vg      *graphdb.VersionedGraph
	builder *graph.Builder
	chain   *c20Chain
	notif   *mockNotifier

	bmu    sync.Mutex
	bcast  []lnwire.Message
	mids   map[string]int
	nmid   int
	pend   []c20Pending
	scids  map[uint64]bool
	peers  map[int]*mockPeer
	assume bool
	pruneN int

	opts    c20CaseOpts
	self    route.Vertex
	hb      *c20Hooked // nil unless opts.hooked
	started time.Time  // fake-clock instant of Builder.Start()
	ticks   int
	withH   bool // every dump also reports the cache answers
	focus   uint64
	t       *testing.T
}

func (h *c20) pf(format string, a ...interface{}) { fmt.Fprintf(h.w, format+"\n", a...) }

func c20hx(b []byte) string {
	if len(b) == 0 {
		return "-"
	}
	return hex.EncodeToString(b)
}

func (h *c20) keyID(k [33]byte) int {
	if id, ok := h.keyIDs[k]; ok {
		return id
	}
	id := len(h.keyIDs)
	h.keyIDs[k] = id
	h.keyPub[id] = k
	return id
}

func (h *c20) pub(i int) [33]byte {
	var k [33]byte
	copy(k[:], h.privs[i].PubKey().SerializeCompressed())
	return k
}

func (h *c20) digID(data []byte) int {
	s := string(data)
	if id, ok := h.digIDs[s]; ok {
		return id
	}
	id := len(h.digIDs) + 1
	h.digIDs[s] = id
	return id
}

func (h *c20) chainID(c chainhash.Hash) int {
	if id, ok := h.chains[c]; ok {
		return id
	}
	id := len(h.chains)
	h.chains[c] = id
	return id
}

// sign produces a real ECDSA signature of privs[ki] over the double-SHA256 of
// data and records its symbolic term.
func (h *c20) sign(ki int, data []byte) lnwire.Sig {
	sig := ecdsa.Sign(h.privs[ki], chainhash.DoubleHashB(data))
	ls, err := lnwire.NewSigFromSignature(sig)
	if err != nil {
		h.t.Fatalf("sig: %v", err)
	}
	var raw [64]byte
	copy(raw[:], ls.RawBytes())
	h.sigs[raw] = fmt.Sprintf("k%d.d%d", h.keyID(h.pub(ki)), h.digID(data))
	return ls
}

func (h *c20) sigTerm(s lnwire.Sig) string {
	var raw [64]byte
	copy(raw[:], s.RawBytes())
	if t, ok := h.sigs[raw]; ok {
		return t
	}
	h.junk++
	t := fmt.Sprintf("j%d", h.junk)
	h.sigs[raw] = t
	return t
}

// realVerify recomputes ECDSA validity independently of lnd's netann package.
func c20RealVerify(s lnwire.Sig, key []byte, data []byte) bool {
	sig, err := s.ToSignature()
	if err != nil {
		return false
	}
	pk, err := btcec.ParsePubKey(key)
	if err != nil {
		return false
	}
	return sig.Verify(chainhash.DoubleHashB(data), pk)
}

// verifyingKeys lists the ids of all keys known to the harness under which the
// signature really verifies over data.
func (h *c20) verifyingKeys(s lnwire.Sig, data []byte) []int {
	var out []int
	for id := 0; id < len(h.keyPub); id++ {
		k := h.keyPub[id]
		if c20RealVerify(s, k[:], data) {
			out = append(out, id)
		}
	}
	return out
}

func c20ints(xs []int) string {
	if len(xs) == 0 {
		return "-"
	}
	ss := make([]string, len(xs))
	for i, x := range xs {
		ss[i] = strconv.Itoa(x)
	}
	return strings.Join(ss, ",")
}

func c20feat(f *lnwire.RawFeatureVector) string {
	if f == nil {
		return "-"
	}
	var b bytes.Buffer
	if err := f.Encode(&b); err != nil {
		return "err"
	}
	bs := b.Bytes()
	if len(bs) >= 2 {
		bs = bs[2:]
	}
	return c20hx(bs)
}

func c20isTap(f *lnwire.RawFeatureVector) int {
	if f == nil || f.IsEmpty() {
		return 0
	}
	fv := lnwire.NewFeatureVector(f, lnwire.Features)
	if fv.HasFeature(lnwire.SimpleTaprootChannelsOptionalStaging) {
		return 1
	}
	return 0
}

func c20nodeFieldsHash(feat string, col color.RGBA, alias string, addrs []net.Addr, extra []byte) string {
	var sb strings.Builder
	sb.WriteString(feat)
	fmt.Fprintf(&sb, "|%d,%d,%d|%q|", col.R, col.G, col.B, alias)
	for _, a := range addrs {
		sb.WriteString(a.String())
		sb.WriteString(";")
	}
	sb.WriteString("|")
	sb.WriteString(c20hx(extra))
	sum := sha256.Sum256([]byte(sb.String()))
	return hex.EncodeToString(sum[:6])
}

// ---------------------------------------------------------------------------
// scripts (built by hand, independently of input.GenMultiSigScript)

func c20MultiSigScript(a, b [33]byte) []byte {
	if bytes.Compare(a[:], b[:]) == 1 {
		a, b = b, a
	}
	ws, err := txscript.NewScriptBuilder().AddOp(txscript.OP_2).AddData(a[:]).
		AddData(b[:]).AddOp(txscript.OP_2).AddOp(txscript.OP_CHECKMULTISIG).Script()
	if err != nil {
		panic(err)
	}
	sum := sha256.Sum256(ws)
	pk, err := txscript.NewScriptBuilder().AddOp(txscript.OP_0).AddData(sum[:]).Script()
	if err != nil {
		panic(err)
	}
	return pk
}

func c20TaprootScript(a, b [33]byte) []byte {
	ka, err1 := btcec.ParsePubKey(a[:])
	kb, err2 := btcec.ParsePubKey(b[:])
	if err1 != nil || err2 != nil {
		return []byte{0x51, 0x20}
	}
	s, _, err := input.GenTaprootFundingScript(ka, kb, 0, fn.None[chainhash.Hash]())
	if err != nil {
		return []byte{0x51, 0x20}
	}
	return s
}

// ---------------------------------------------------------------------------
// case life cycle

type c20CaseOpts struct {
	kind        string
	assumeValid bool
	height      uint32
	hooked      bool // graph store on a transaction-barrier backend, single-entry caches (conc stream)
	strict      bool // Builder.StrictZombiePruning
	start       bool // Builder.Start(): the real zombie-pruning ticker runs
}

func (h *c20) runCase(o c20CaseOpts, body func(cs *c20Case)) {
	h.n++
	if o.height == 0 {
		o.height = 1000
	}
	synctest.Test(h.t, func(t *testing.T) {
		tc, err := createTestCtx(t, o.height, false)
		if err != nil {
			t.Fatalf("createTestCtx: %v", err)
		}
		synctest.Wait()

		cs := &c20Case{
			h: h, tc: tc, mids: map[string]int{}, scids: map[uint64]bool{},
			peers: map[int]*mockPeer{}, notif: tc.notifier, assume: o.assumeValid, opts: o, t: t,
		}
		copy(cs.self[:], selfKeyPriv.PubKey().SerializeCompressed())
		self := cs.self
		cs.chain = newC20Chain(int32(o.height))
		if o.hooked {
			cs.hb = newC20Hooked(t)
			cs.g = cs.hb.open(t)
		} else {
			cs.g = c20MakeGraph(t, h.n%2 == 0)
		}
		if err := cs.g.SetSourceNode(context.Background(), models.NewV1ShellNode(self)); err != nil {
			t.Fatalf("source node: %v", err)
		}
		// Swap the fixture's mock graph source / mock chain / broadcast sink
		// for the real ones (all gossiper goroutines are idle here).
		cs.wire(t)
		cfg := tc.gossiper.cfg
		cfg.ChainIO = cs.chain
		cfg.AssumeChannelValid = o.assumeValid
		cfg.RebroadcastInterval = c20Rebroadcast
		cfg.Broadcast = func(_ map[route.Vertex]struct{}, msgs ...lnwire.Message) error {
			cs.bmu.Lock()
			cs.bcast = append(cs.bcast, msgs...)
			cs.bmu.Unlock()
			return nil
		}

		h.pf("CASE %d kind=%s av=%d height=%d self=%d strict=%d", h.n, o.kind, c20b2i(o.assumeValid),
			o.height, h.keyID(self), c20b2i(o.strict))
		body(cs)
		// quiescent end of the case: what the store's caches answer must be what is durable
		cs.withH = false
		h.pf("coh %s", cs.dumpOpt(true))
		h.pf("END")
		h.w.Flush()
	})
}

// wire builds the real graph.Builder over cs.g and makes it the gossiper's graph
// source (also used after a simulated restart of the graph store).
func (cs *c20Case) wire(t *testing.T) {
	o := cs.opts
	cs.vg = graphdb.NewVersionedGraph(cs.g, lnwire.GossipVersion1)
	b, err := graph.NewBuilder(&graph.Config{
		SelfNode:            cs.self,
		Graph:               cs.g,
		Chain:               cs.chain,
		ChainView:           newC20ChainView(),
		ChannelPruneExpiry:  graph.DefaultChannelPruneExpiry,
		GraphPruneInterval:  c20PruneInterval,
		FirstTimePruneDelay: c20PruneInterval,
		AssumeChannelValid:  o.assumeValid,
		StrictZombiePruning: o.strict,
		IsAlias:             func(lnwire.ShortChannelID) bool { return false },
	})
	if err != nil {
		t.Fatalf("builder: %v", err)
	}
	cs.builder = b
	cs.tc.gossiper.cfg.Graph = b
	if o.start {
		cs.started = time.Now()
		cs.ticks = 0
		if err := b.Start(); err != nil {
			t.Fatalf("builder start: %v", err)
		}
		t.Cleanup(func() { _ = b.Stop() })
	}
}

// c20MakeGraph is graphdb.MakeTestGraph; with smallCaches and the bbolt store the
// store's reject/channel caches hold a single entry, so freshness decisions
// regularly have to be recomputed from the database.
func c20MakeGraph(t *testing.T, smallCaches bool) *graphdb.ChannelGraph {
	store := graphdb.NewTestDB(t)
	if _, isKV := store.(*graphdb.KVStore); isKV && smallCaches {
		backend, cleanup, err := kvdb.GetTestBackend(t.TempDir(), "cgr2")
		if err != nil {
			t.Fatalf("backend: %v", err)
		}
		t.Cleanup(cleanup)
		kv, err := graphdb.NewKVStore(backend, graphdb.WithRejectCacheSize(1),
			graphdb.WithChannelCacheSize(1))
		if err != nil {
			t.Fatalf("kv store: %v", err)
		}
		store = kv
	}
	g, err := graphdb.NewChannelGraph(store, graphdb.WithSyncGraphCachePopulation())
	if err != nil {
		t.Fatalf("graph: %v", err)
	}
	if err := g.Start(); err != nil {
		t.Fatalf("graph start: %v", err)
	}
	t.Cleanup(func() { _ = g.Stop() })
	return g
}

const c20Rebroadcast = 24 * time.Hour
// not a multiple of the gossiper fixture's hourly tickers: with sqlite a retransmit
// scan and the prune transaction starting at the same fake instant collide (busy
// time-outs elapse instantly on the fake clock) and the prune tick is lost
const c20PruneInterval = 61*time.Minute + 7*time.Second

func c20b2i(b bool) int {
	if b {
		return 1
	}
	return 0
}

func (cs *c20Case) peer(id int) *mockPeer {
	if p, ok := cs.peers[id]; ok {
		return p
	}
	var seed [32]byte
	binary.BigEndian.PutUint32(seed[28:], uint32(id)+1)
	seed[0] = 0x9e
	priv, _ := btcec.PrivKeyFromBytes(seed[:])
	p := &mockPeer{pk: priv.PubKey()}
	cs.peers[id] = p
	return p
}

// settle lets the gossiper finish, forces a trickle and returns the relayed
// message ids and resolved pending submissions.
func (cs *c20Case) settle() (string, string) {
	synctest.Wait()
	time.Sleep(2*trickleDelay + 20*time.Millisecond)
	synctest.Wait()

	cs.bmu.Lock()
	bc := cs.bcast
	cs.bcast = nil
	cs.bmu.Unlock()
	var rel, unf, unfStripped []string
	for _, m := range bc {
		key := c20Wire(m)
		id, ok := cs.mids[string(key)]
		if !ok {
			rel = append(rel, fmt.Sprintf("?%d", m.MsgType()))
			continue
		}
		rel = append(rel, strconv.Itoa(id))
		// the received bytes with exactly the unknown extra-data TLVs removed
		var stripped []byte
		if cu, isCU := m.(*lnwire.ChannelUpdate1); isCU && len(cu.ExtraOpaqueData) > 0 {
			ext := []byte(cu.ExtraOpaqueData)
			if known, okTLV := c20KnownTLVs(ext); okTLV && len(known) < len(ext) {
				stripped = append(append([]byte(nil), key[:len(key)-len(ext)]...), known...)
			}
		}
		// what the peer layer would put on the wire for this struct
		var b bytes.Buffer
		if _, err := lnwire.WriteMessage(&b, m, 0); err != nil || !bytes.Equal(b.Bytes(), key) {
			unf = append(unf, strconv.Itoa(id))
			if err == nil && stripped != nil && bytes.Equal(b.Bytes(), stripped) {
				unfStripped = append(unfStripped, strconv.Itoa(id))
			}
		}
	}
	sort.Strings(rel)
	sort.Strings(unf)
	sort.Strings(unfStripped)
	relay := "-"
	if len(rel) > 0 {
		relay = strings.Join(rel, ",")
	}
	j := func(xs []string) string {
		if len(xs) == 0 {
			return "-"
		}
		return strings.Join(xs, ",")
	}
	relay += " wf=" + j(unf) + " wfs=" + j(unfStripped)

	var rs []string
	var keep []c20Pending
	for _, p := range cs.pend {
		if r, done := c20Poll(p.f); done {
			rs = append(rs, fmt.Sprintf("%d:%s", p.mid, r))
		} else {
			keep = append(keep, p)
		}
	}
	cs.pend = keep
	sort.Strings(rs)
	rss := "-"
	if len(rs) > 0 {
		rss = strings.Join(rs, ",")
	}
	return relay, rss
}

func c20Poll(f actor.Future[error]) (string, bool) {
	ctx, cancel := context.WithCancel(context.Background())
	cancel()
	gerr, ctxErr := actor.AwaitFuture[error](ctx, f)
	if ctxErr != nil {
		return "pending", false
	}
	return c20Classify(gerr), true
}

func c20Classify(err error) string {
	if err == nil {
		return "ok"
	}
	m := err.Error()
	has := func(s string) bool { return strings.Contains(m, s) }
	switch {
	case has("panic while"):
		return "panic"
	case errors.Is(err, ErrNoFundingTransaction):
		return "e_nofund"
	case errors.Is(err, ErrInvalidFundingOutput):
		return "e_badfund"
	case errors.Is(err, ErrChannelSpent):
		return "e_spent"
	case graph.IsError(err, graph.ErrIgnored):
		return "e_ignored"
	case graph.IsError(err, graph.ErrOutdated):
		return "e_outdated"
	case has("recently rejected"):
		return "e_rejected"
	case has("for own channel"):
		return "e_own"
	case has("gossiper on chain="):
		return "e_chain"
	case has("ignoring closed channel"):
		return "e_closed"
	case has("zero timestamp"):
		return "e_zerots"
	case has("skewed timestamp"):
		return "e_skew"
	case has("unable to validate announcement"):
		return "e_casig"
	case has("unable to validate channel update announcement"):
		if has("max htlc flag not set") || has("invalid max htlc") || has("greater than capacity") {
			return "e_fields"
		}
		return "e_usig"
	case has("incorrect pubkey to resurrect"):
		return "e_zkey"
	case has("unable to verify channel update signature"):
		return "e_zsig"
	case has("unable to validate node announcement"):
		return "e_nsig"
	}
	return "e_other"
}

// dump prints the canonical graph: channels, policies, nodes (all read from
// the graph DB) and the zombie-index entries of every scid the case touched.
func (cs *c20Case) dump() string { return cs.dumpOpt(cs.withH) }

// dumpOpt: with cacheAnswers the dump also carries `H=`: what the store's
// (cache-backed) HasV1ChannelEdge answers for every scid of the case.
func (cs *c20Case) dumpOpt(cacheAnswers bool) string {
	h := cs.h
	ctx := context.Background()
	var chans, pols, nodes, zs []string
	pol := func(scid uint64, dir int, p *models.ChannelEdgePolicy) {
		if p == nil {
			return
		}
		pols = append(pols, fmt.Sprintf("%d:%d:%d:%d:%d:%d:%d:%d:%d:%d:%s", scid, dir,
			p.LastUpdate.Unix(), uint8(p.MessageFlags), uint8(p.ChannelFlags), p.TimeLockDelta,
			uint64(p.MinHTLC), uint64(p.MaxHTLC), uint64(p.FeeBaseMSat),
			uint64(p.FeeProportionalMillionths), c20hx(p.ExtraOpaqueData)))
	}
	err := cs.vg.ForEachChannel(ctx, func(i *models.ChannelEdgeInfo, p1, p2 *models.ChannelEdgePolicy) error {
		b1 := i.BitcoinKey1Bytes.UnwrapOr(route.Vertex{})
		b2 := i.BitcoinKey2Bytes.UnwrapOr(route.Vertex{})
		feat := "-"
		if i.Features != nil {
			feat = c20feat(i.Features.RawFeatureVector)
		}
		chans = append(chans, fmt.Sprintf("%d:%d:%d:%d:%d:%d:%d:%s:%s:%s.%d", i.ChannelID,
			h.keyID(i.NodeKey1Bytes), h.keyID(i.NodeKey2Bytes), h.keyID(b1), h.keyID(b2),
			int64(i.Capacity), c20ProofFlag(i), feat, c20hx(i.ExtraOpaqueData),
			i.ChannelPoint.Hash.String()[:16], i.ChannelPoint.Index))
		pol(i.ChannelID, 0, p1)
		pol(i.ChannelID, 1, p2)
		return nil
	}, func() { chans, pols = nil, nil })
	if err != nil {
		chans = append(chans, "err")
	}
	err = cs.vg.ForEachNode(ctx, func(n *models.Node) error {
		fh := "-"
		if n.HaveAnnouncement() {
			feat := "-"
			if n.Features != nil {
				feat = c20feat(n.Features.RawFeatureVector)
			}
			fh = c20nodeFieldsHash(feat, n.Color.UnwrapOr(color.RGBA{}), n.Alias.UnwrapOr(""),
				n.Addresses, n.ExtraOpaqueData)
		}
		ts := n.LastUpdate.Unix()
		if ts < 0 {
			ts = 0
		}
		nodes = append(nodes, fmt.Sprintf("%d:%d:%s", h.keyID(n.PubKeyBytes), ts, fh))
		return nil
	}, func() { nodes = nil })
	if err != nil {
		nodes = append(nodes, "err")
	}
	var ids []uint64
	for s := range cs.scids {
		ids = append(ids, s)
	}
	sort.Slice(ids, func(i, j int) bool { return ids[i] < ids[j] })
	for _, s := range ids {
		z, k1, k2, err := cs.vg.IsZombieEdge(ctx, s)
		if err != nil {
			zs = append(zs, "err")
		} else if z {
			zs = append(zs, fmt.Sprintf("%d:%d:%d", s, h.keyID(k1), h.keyID(k2)))
		}
	}
	j := func(xs []string) string {
		if len(xs) == 0 {
			return "-"
		}
		sort.Strings(xs)
		return strings.Join(xs, "|")
	}
	out := fmt.Sprintf("C=%s P=%s N=%s Z=%s", j(chans), j(pols), j(nodes), j(zs))
	if cacheAnswers {
		var hs []string
		for _, s := range ids {
			// (single-entry caches: asking for another scid would evict the
			// entry under test, so the per-op report is about the focus only)
			if cs.focus != 0 && s != cs.focus && cs.withH {
				continue
			}
			hs = append(hs, fmt.Sprintf("%d:%s", s, cs.cacheAnswer(s)))
		}
		out += " H=" + j(hs)
	}
	return out
}

// cacheAnswer is the store's HasV1ChannelEdge answer exists:zombie:ts1:ts2.
func (cs *c20Case) cacheAnswer(scid uint64) string {
	t1, t2, ex, zo, err := cs.g.HasV1ChannelEdge(context.Background(), scid)
	if err != nil && !errors.Is(err, graphdb.ErrGraphNoEdgesFound) {
		return "err"
	}
	u := func(t time.Time) int64 {
		if t.Unix() < 0 {
			return 0
		}
		return t.Unix()
	}
	return fmt.Sprintf("%d:%d:%d:%d", c20b2i(ex), c20b2i(zo), u(t1), u(t2))
}

func (cs *c20Case) mid(raw []byte) int {
	if id, ok := cs.mids[string(raw)]; ok {
		return id
	}
	cs.nmid++
	cs.mids[string(raw)] = cs.nmid
	return cs.nmid
}

// c20KnownTLVs parses a TLV stream by hand and returns the concatenation of the
// records lnwire knows for a channel_update (type 55555, inbound fee).
func c20KnownTLVs(b []byte) ([]byte, bool) {
	big := func(b []byte) (uint64, int) {
		if len(b) == 0 {
			return 0, 0
		}
		switch b[0] {
		case 0xfd:
			if len(b) < 3 {
				return 0, 0
			}
			return uint64(binary.BigEndian.Uint16(b[1:3])), 3
		case 0xfe:
			if len(b) < 5 {
				return 0, 0
			}
			return uint64(binary.BigEndian.Uint32(b[1:5])), 5
		case 0xff:
			if len(b) < 9 {
				return 0, 0
			}
			return binary.BigEndian.Uint64(b[1:9]), 9
		}
		return uint64(b[0]), 1
	}
	var out []byte
	for len(b) > 0 {
		t, n1 := big(b)
		if n1 == 0 {
			return nil, false
		}
		l, n2 := big(b[n1:])
		if n2 == 0 || uint64(len(b)-n1-n2) < l {
			return nil, false
		}
		end := n1 + n2 + int(l)
		if t == 55555 {
			out = append(out, b[:end]...)
		}
		b = b[end:]
	}
	return out, true
}

// c20Signed returns the byte string the BOLT 7 signatures of a message cover:
// everything after the signature field(s) of the wire encoding.  It is
// computed from the wire bytes, independently of lnwire's DataToSign.
func c20Signed(m lnwire.Message) []byte {
	raw := c20Wire(m)
	n := 64
	if _, ok := m.(*lnwire.ChannelAnnouncement1); ok {
		n = 256
	}
	if len(raw) < 2+n {
		return nil
	}
	return raw[2+n:]
}

// c20Wire serialises a message the way a remote peer would have sent it,
// without touching the struct (lnwire's ChannelUpdate1.Encode rewrites the
// extra data, so the extra bytes are appended by hand).
func c20Wire(m lnwire.Message) []byte {
	var b bytes.Buffer
	switch a := m.(type) {
	case *lnwire.ChannelUpdate1:
		c := *a
		c.ExtraOpaqueData = nil
		c.InboundFee = lnwire.ChannelUpdate1{}.InboundFee
		if _, err := lnwire.WriteMessage(&b, &c, 0); err != nil {
			return nil
		}
		b.Write(a.ExtraOpaqueData)
	case *lnwire.ChannelAnnouncement1:
		c := *c20CopyCA(a)
		if _, err := lnwire.WriteMessage(&b, &c, 0); err != nil {
			return nil
		}
	case *lnwire.NodeAnnouncement1:
		c := *c20CopyNA(a)
		if _, err := lnwire.WriteMessage(&b, &c, 0); err != nil {
			return nil
		}
	default:
		return nil
	}
	return b.Bytes()
}

// describe renders a message as a symbolic record plus the independently
// recomputed real signature validity; it also cross-checks the symbolic
// signature abstraction against the real verification (`sym=` must be 1).
func (cs *c20Case) describe(m lnwire.Message, raw []byte) (string, uint64) {
	h := cs.h
	c20Signed := func(x lnwire.Message) []byte {
		n := 64
		if _, ok := x.(*lnwire.ChannelAnnouncement1); ok {
			n = 256
		}
		if len(raw) < 2+n {
			return nil
		}
		return raw[2+n:]
	}
	switch a := m.(type) {
	case *lnwire.ChannelAnnouncement1:
		data := c20Signed(a)
		d := h.digID(data)
		slots := []struct {
			s lnwire.Sig
			k [33]byte
		}{{a.BitcoinSig1, a.BitcoinKey1}, {a.BitcoinSig2, a.BitcoinKey2}, {a.NodeSig1, a.NodeID1}, {a.NodeSig2, a.NodeID2}}
		rv, sym := "", 1
		terms := make([]string, 4)
		for i, sl := range slots {
			real := c20RealVerify(sl.s, sl.k[:], data)
			rv += strconv.Itoa(c20b2i(real))
			terms[i] = h.sigTerm(sl.s)
			if (terms[i] == fmt.Sprintf("k%d.d%d", h.keyID(sl.k), d)) != real {
				sym = 0
			}
		}
		scid := a.ShortChannelID.ToUint64()
		return fmt.Sprintf("ca chain=%d scid=%d n1=%d n2=%d b1=%d b2=%d feat=%s tap=%d extra=%s "+
			"bs1=%s bs2=%s ns1=%s ns2=%s dig=%d rv=%s sym=%d fop=%s",
			h.chainID(a.ChainHash), scid, h.keyID(a.NodeID1), h.keyID(a.NodeID2),
			h.keyID(a.BitcoinKey1), h.keyID(a.BitcoinKey2), c20feat(a.Features), c20isTap(a.Features),
			c20hx(a.ExtraOpaqueData), terms[0], terms[1], terms[2], terms[3], d, rv, sym,
			cs.chain.trueOutpoint(a.ShortChannelID)), scid

	case *lnwire.ChannelUpdate1:
		data := c20Signed(a)
		d := h.digID(data)
		term := h.sigTerm(a.Signature)
		vk := h.verifyingKeys(a.Signature, data)
		sym := 1
		want := []int{}
		var sk, sd int
		if n, _ := fmt.Sscanf(term, "k%d.d%d", &sk, &sd); n == 2 && sd == d {
			want = append(want, sk)
		}
		if c20ints(want) != c20ints(vk) {
			sym = 0
		}
		scid := a.ShortChannelID.ToUint64()
		return fmt.Sprintf("cu chain=%d scid=%d ts=%d mf=%d cf=%d tld=%d min=%d max=%d base=%d rate=%d "+
			"extra=%s sig=%s dig=%d vk=%s sym=%d",
			h.chainID(a.ChainHash), scid, a.Timestamp, uint8(a.MessageFlags), uint8(a.ChannelFlags),
			a.TimeLockDelta, uint64(a.HtlcMinimumMsat), uint64(a.HtlcMaximumMsat), a.BaseFee, a.FeeRate,
			c20hx(a.ExtraOpaqueData), term, d, c20ints(vk), sym), scid

	case *lnwire.NodeAnnouncement1:
		data := c20Signed(a)
		d := h.digID(data)
		term := h.sigTerm(a.Signature)
		vk := h.verifyingKeys(a.Signature, data)
		sym := 1
		want := []int{}
		var sk, sd int
		if n, _ := fmt.Sscanf(term, "k%d.d%d", &sk, &sd); n == 2 && sd == d {
			want = append(want, sk)
		}
		if c20ints(want) != c20ints(vk) {
			sym = 0
		}
		fh := c20nodeFieldsHash(c20feat(a.Features), a.RGBColor, a.Alias.String(), a.Addresses,
			a.ExtraOpaqueData)
		return fmt.Sprintf("na node=%d ts=%d fh=%s sig=%s dig=%d vk=%s sym=%d",
			h.keyID(a.NodeID), a.Timestamp, fh, term, d, c20ints(vk), sym), 0
	}
	return "unknown", 0
}

// submit serialises m as a remote peer would and feeds the bytes in.
func (cs *c20Case) submit(pid int, m lnwire.Message) {
	raw := c20Wire(m)
	if raw == nil {
		cs.h.skipped++
		return
	}
	cs.submitRaw(pid, raw)
}

// submitRaw decodes the wire bytes (like the peer's read handler) and hands the
// message to ProcessRemoteAnnouncement as coming from peer pid.
func (cs *c20Case) submitRaw(pid int, raw []byte) {
	m, err := lnwire.ReadMessage(bytes.NewReader(raw), 0)
	if err != nil {
		cs.h.skipped++
		return
	}
	switch m.(type) {
	case *lnwire.ChannelAnnouncement1, *lnwire.ChannelUpdate1, *lnwire.NodeAnnouncement1:
	default:
		cs.h.skipped++
		return
	}
	desc, scid := cs.describe(m, raw)
	if scid != 0 {
		cs.scids[scid] = true
	}
	id := cs.mid(raw)
	now := time.Now().UnixNano()
	res := ""
	var fut actor.Future[error]
	func() {
		defer func() {
			if r := recover(); r != nil {
				res = "panic"
			}
		}()
		fut = cs.tc.gossiper.ProcessRemoteAnnouncement(context.Background(), m, cs.peer(pid))
	}()
	relay, rs := cs.settle()
	if res == "" {
		r, done := c20Poll(fut)
		res = r
		if !done {
			cs.pend = append(cs.pend, c20Pending{mid: id, f: fut})
		}
	}
	parts := strings.SplitN(desc, " ", 2)
	cs.h.pf("%s id=%d peer=%d %s now=%d => res=%s rs=%s relay=%s %s", parts[0], id, pid, parts[1],
		now, res, rs, relay, cs.dump())
}

// entry delivers a channel update through one of the builder's own entry
// points, bypassing the gossiper: kind "au" = Builder.ApplyChannelUpdate
// (updates carried in onion failure messages), "ue" = Builder.UpdateEdge.
func (cs *c20Case) entry(kind string, m *lnwire.ChannelUpdate1) {
	raw := c20Wire(m)
	if raw == nil {
		cs.h.skipped++
		return
	}
	dm, err := lnwire.ReadMessage(bytes.NewReader(raw), 0)
	if err != nil {
		cs.h.skipped++
		return
	}
	u, ok := dm.(*lnwire.ChannelUpdate1)
	if !ok {
		cs.h.skipped++
		return
	}
	desc, scid := cs.describe(u, raw)
	cs.scids[scid] = true
	id := cs.mid(raw)
	now := time.Now().UnixNano()
	res := ""
	func() {
		defer func() {
			if r := recover(); r != nil {
				res = "panic"
			}
		}()
		if kind == "au" {
			res = strconv.FormatBool(cs.builder.ApplyChannelUpdate(u))
			return
		}
		pol, err := models.ChanEdgePolicyFromWire(u.ShortChannelID.ToUint64(), u)
		if err == nil {
			err = cs.builder.UpdateEdge(context.Background(), pol)
		}
		switch {
		case err == nil:
			res = "ok"
		case graph.IsError(err, graph.ErrIgnored):
			res = "e_ignored"
		case graph.IsError(err, graph.ErrOutdated):
			res = "e_outdated"
		default:
			res = "e_other"
		}
	}()
	relay, rs := cs.settle()
	parts := strings.SplitN(desc, " ", 2)
	cs.h.pf("%s id=%d peer=0 %s now=%d => res=%s rs=%s relay=%s %s", kind, id, parts[1], now, res, rs,
		relay, cs.dump())
}

// block announces a new best block to the gossiper (replays future messages).
func (cs *c20Case) block(height uint32) {
	now := time.Now().UnixNano()
	cs.chain.mu.Lock()
	cs.chain.best = int32(height)
	cs.chain.mu.Unlock()
	cs.notif.notifyBlock(chainhash.Hash{}, height)
	relay, rs := cs.settle()
	cs.h.pf("blk h=%d now=%d => rs=%s relay=%s %s", height, now, rs, relay, cs.dump())
}

const (
	c20ScriptMS = iota
	c20ScriptTR
	c20ScriptOther
)

// chainSet programs the chain for scid and prints the symbolic description.
// res: "utxo" | "noout" | "notx" (tx index out of range) | "noblk" | "fetcherr".
func (cs *c20Case) chainSet(scid lnwire.ShortChannelID, res string, kind int, k1, k2 [33]byte,
	value int64, spent int) {

	h := cs.h
	cs.scids[scid.ToUint64()] = true
	script, sdesc := []byte{0x00, 0x14, 1, 2, 3, 4, 5, 6, 7, 8, 9, 10, 11, 12, 13, 14, 15, 16, 17, 18, 19, 20}, "o.1"
	switch kind {
	case c20ScriptMS:
		script = c20MultiSigScript(k1, k2)
		sdesc = fmt.Sprintf("ms.%d.%d", h.keyID(k1), h.keyID(k2))
	case c20ScriptTR:
		script = c20TaprootScript(k1, k2)
		sdesc = fmt.Sprintf("tr.%d.%d", h.keyID(k1), h.keyID(k2))
	}
	cs.chain.program(scid, res, script, value, spent)
	h.pf("chain scid=%d res=%s script=%s value=%d spent=%d", scid.ToUint64(), res, sdesc, value, spent)
}

// prune reports the funding output of scid as spent in a new block to the graph
// DB (ChannelGraph.PruneGraph, what the builder does for closed channels): the
// channel goes away and unconnected nodes are garbage-collected.
func (cs *c20Case) prune(scid lnwire.ShortChannelID) {
	ctx := context.Background()
	op := wire.OutPoint{Index: 0xffff}
	if info, _, _, err := cs.vg.FetchChannelEdgesByID(ctx, scid.ToUint64()); err == nil && info != nil {
		op = info.ChannelPoint
	}
	cs.pruneN++
	hash := *c20HeightHash(int64(2000 + cs.pruneN))
	res := "ok"
	func() {
		defer func() {
			if r := recover(); r != nil {
				res = "panic"
			}
		}()
		if _, err := cs.g.PruneGraph(ctx, []*wire.OutPoint{&op}, &hash, uint32(2000+cs.pruneN)); err != nil {
			res = "err"
		}
	}()
	relay, rs := cs.settle()
	cs.h.pf("prn scid=%d => res=%s rs=%s relay=%s %s", scid.ToUint64(), res, rs, relay, cs.dump())
}

// zombie marks scid as a zombie in the graph DB, the way the builder's pruning
// does, with the given resurrection keys.
func (cs *c20Case) zombie(scid lnwire.ShortChannelID, k1, k2 [33]byte) {
	cs.scids[scid.ToUint64()] = true
	err := cs.g.MarkEdgeZombie(context.Background(), lnwire.GossipVersion1, scid.ToUint64(), k1, k2)
	res := "ok"
	if err != nil {
		res = "err"
	}
	cs.h.pf("zmb scid=%d k1=%d k2=%d => res=%s %s", scid.ToUint64(), cs.h.keyID(k1), cs.h.keyID(k2),
		res, cs.dump())
}

// ---------------------------------------------------------------------------
// message construction

type c20Chan struct {
	scid   lnwire.ShortChannelID
	n1, n2 int // indices into privs
	b1, b2 int
	cap    int64
}

var c20MainNet = *chaincfg.MainNetParams.GenesisHash

func (h *c20) signCA(a *lnwire.ChannelAnnouncement1, n1, n2, b1, b2 int) {
	data := c20Signed(a)
	if data == nil {
		h.t.Fatalf("cannot serialise")
	}
	a.NodeSig1 = h.sign(n1, data)
	a.NodeSig2 = h.sign(n2, data)
	a.BitcoinSig1 = h.sign(b1, data)
	a.BitcoinSig2 = h.sign(b2, data)
}

func (h *c20) mkCA(c c20Chan) *lnwire.ChannelAnnouncement1 {
	a := &lnwire.ChannelAnnouncement1{
		ChainHash:      c20MainNet,
		ShortChannelID: c.scid,
		Features:       lnwire.NewRawFeatureVector(),
		NodeID1:        h.pub(c.n1), NodeID2: h.pub(c.n2),
		BitcoinKey1: h.pub(c.b1), BitcoinKey2: h.pub(c.b2),
	}
	h.signCA(a, c.n1, c.n2, c.b1, c.b2)
	return a
}

func c20CopyCA(a *lnwire.ChannelAnnouncement1) *lnwire.ChannelAnnouncement1 {
	b := *a
	b.Features = a.Features.Clone()
	b.ExtraOpaqueData = append([]byte(nil), a.ExtraOpaqueData...)
	return &b
}

type c20Upd struct {
	ts                  uint32
	mf, cf              uint8
	tld                 uint16
	min, max            uint64
	base, rate          uint32
	extra               []byte
}

func c20DefaultUpd(ts uint32, dir uint8) c20Upd {
	return c20Upd{ts: ts, mf: 1, cf: dir, tld: 40, min: 1000, max: 200_000_000, base: 1000, rate: 1}
}

func (h *c20) mkCU(scid lnwire.ShortChannelID, u c20Upd, signer int) *lnwire.ChannelUpdate1 {
	a := &lnwire.ChannelUpdate1{
		ChainHash: c20MainNet, ShortChannelID: scid, Timestamp: u.ts,
		MessageFlags: lnwire.ChanUpdateMsgFlags(u.mf), ChannelFlags: lnwire.ChanUpdateChanFlags(u.cf),
		TimeLockDelta: u.tld, HtlcMinimumMsat: lnwire.MilliSatoshi(u.min),
		HtlcMaximumMsat: lnwire.MilliSatoshi(u.max), BaseFee: u.base, FeeRate: u.rate,
		ExtraOpaqueData: u.extra,
	}
	h.resignCU(a, signer)
	return a
}

func (h *c20) resignCU(a *lnwire.ChannelUpdate1, signer int) {
	data := c20Signed(a)
	if data == nil {
		h.t.Fatalf("cannot serialise")
	}
	a.Signature = h.sign(signer, data)
}

func c20CopyCU(a *lnwire.ChannelUpdate1) *lnwire.ChannelUpdate1 {
	b := *a
	b.ExtraOpaqueData = append([]byte(nil), a.ExtraOpaqueData...)
	return &b
}

func (h *c20) mkNA(node int, ts uint32, variant int) *lnwire.NodeAnnouncement1 {
	alias, _ := lnwire.NewNodeAlias(fmt.Sprintf("n%d-v%d", node, variant))
	a := &lnwire.NodeAnnouncement1{
		Features:  lnwire.NewRawFeatureVector(),
		Timestamp: ts,
		NodeID:    h.pub(node),
		RGBColor:  color.RGBA{R: uint8(variant), G: 2, B: 3},
		Alias:     alias,
		Addresses: []net.Addr{&net.TCPAddr{IP: net.IP{10, 0, 0, byte(1 + variant%200)}, Port: 9735}},
	}
	h.resignNA(a, node)
	return a
}

func (h *c20) resignNA(a *lnwire.NodeAnnouncement1, signer int) {
	data := c20Signed(a)
	if data == nil {
		h.t.Fatalf("cannot serialise")
	}
	a.Signature = h.sign(signer, data)
}

func c20CopyNA(a *lnwire.NodeAnnouncement1) *lnwire.NodeAnnouncement1 {
	b := *a
	b.Features = a.Features.Clone()
	b.Addresses = append([]net.Addr(nil), a.Addresses...)
	b.ExtraOpaqueData = append([]byte(nil), a.ExtraOpaqueData...)
	return &b
}

func c20FlipSig(s lnwire.Sig, pos int, bit uint) lnwire.Sig {
	raw := append([]byte(nil), s.RawBytes()...)
	raw[pos%64] ^= 1 << (bit % 8)
	ns, err := lnwire.NewSigFromWireECDSA(raw)
	if err != nil {
		return s
	}
	return ns
}

func c20BadKey(k [33]byte) [33]byte {
	k[0] = 0x05
	return k
}

var c20TLV = []byte{0x21, 0x02, 0xaa, 0xbb} // one odd TLV record (type 33, 2 bytes)
var c20TLV2 = []byte{0x21, 0x02, 0xaa, 0xbc}

// ---------------------------------------------------------------------------
// single-field corruptions (the returned messages are NOT re-signed)

type c20Mut struct {
	name string
	m    lnwire.Message
}

func (h *c20) caMutations(c c20Chan, a *lnwire.ChannelAnnouncement1, other *lnwire.ChannelAnnouncement1) []c20Mut {
	var out []c20Mut
	add := func(name string, f func(b *lnwire.ChannelAnnouncement1)) {
		b := c20CopyCA(a)
		f(b)
		out = append(out, c20Mut{name, b})
	}
	spare := h.pub(9)
	add("chain", func(b *lnwire.ChannelAnnouncement1) { b.ChainHash[3] ^= 1 })
	add("scid.h", func(b *lnwire.ChannelAnnouncement1) { b.ShortChannelID.BlockHeight-- })
	add("scid.tx", func(b *lnwire.ChannelAnnouncement1) { b.ShortChannelID.TxIndex++ })
	add("scid.pos", func(b *lnwire.ChannelAnnouncement1) { b.ShortChannelID.TxPosition++ })
	add("n1", func(b *lnwire.ChannelAnnouncement1) { b.NodeID1 = spare })
	add("n2", func(b *lnwire.ChannelAnnouncement1) { b.NodeID2 = spare })
	add("b1", func(b *lnwire.ChannelAnnouncement1) { b.BitcoinKey1 = spare })
	add("b2", func(b *lnwire.ChannelAnnouncement1) { b.BitcoinKey2 = spare })
	add("n1bad", func(b *lnwire.ChannelAnnouncement1) { b.NodeID1 = c20BadKey(b.NodeID1) })
	add("b2bad", func(b *lnwire.ChannelAnnouncement1) { b.BitcoinKey2 = c20BadKey(b.BitcoinKey2) })
	add("n1=b1", func(b *lnwire.ChannelAnnouncement1) { b.NodeID1 = b.BitcoinKey1 })
	add("swapn", func(b *lnwire.ChannelAnnouncement1) { b.NodeID1, b.NodeID2 = b.NodeID2, b.NodeID1 })
	add("swapb", func(b *lnwire.ChannelAnnouncement1) {
		b.BitcoinKey1, b.BitcoinKey2 = b.BitcoinKey2, b.BitcoinKey1
	})
	sigp := []func(b *lnwire.ChannelAnnouncement1) *lnwire.Sig{
		func(b *lnwire.ChannelAnnouncement1) *lnwire.Sig { return &b.NodeSig1 },
		func(b *lnwire.ChannelAnnouncement1) *lnwire.Sig { return &b.NodeSig2 },
		func(b *lnwire.ChannelAnnouncement1) *lnwire.Sig { return &b.BitcoinSig1 },
		func(b *lnwire.ChannelAnnouncement1) *lnwire.Sig { return &b.BitcoinSig2 },
	}
	signers := []int{c.n1, c.n2, c.b1, c.b2}
	names := []string{"ns1", "ns2", "bs1", "bs2"}
	data := c20Signed(a)
	odata := c20Signed(other)
	for i := range sigp {
		i := i
		pos, bit := h.rng.Intn(64), uint(h.rng.Intn(8))
		add(names[i]+".flip", func(b *lnwire.ChannelAnnouncement1) { *sigp[i](b) = c20FlipSig(*sigp[i](b), pos, bit) })
		// right key, other digest
		add(names[i]+".otherdig", func(b *lnwire.ChannelAnnouncement1) { *sigp[i](b) = h.sign(signers[i], odata) })
		// other key, right digest
		add(names[i]+".otherkey", func(b *lnwire.ChannelAnnouncement1) { *sigp[i](b) = h.sign(9, data) })
		// the (valid) signature of every other slot
		for j := range sigp {
			j := j
			if j != i {
				add(names[i]+"<-"+names[j], func(b *lnwire.ChannelAnnouncement1) { *sigp[i](b) = *sigp[j](a) })
			}
		}
	}
	add("feat", func(b *lnwire.ChannelAnnouncement1) { b.Features.Set(lnwire.FeatureBit(99)) })
	add("feat.tap", func(b *lnwire.ChannelAnnouncement1) {
		b.Features.Set(lnwire.SimpleTaprootChannelsOptionalStaging)
	})
	add("extra", func(b *lnwire.ChannelAnnouncement1) { b.ExtraOpaqueData = append([]byte(nil), c20TLV...) })
	return out
}

func (h *c20) cuMutations(c c20Chan, a *lnwire.ChannelUpdate1, signer, otherSigner int) []c20Mut {
	var out []c20Mut
	add := func(name string, f func(b *lnwire.ChannelUpdate1)) {
		b := c20CopyCU(a)
		f(b)
		out = append(out, c20Mut{name, b})
	}
	data := c20Signed(a)
	add("chain", func(b *lnwire.ChannelUpdate1) { b.ChainHash[7] ^= 0x80 })
	add("ts+1", func(b *lnwire.ChannelUpdate1) { b.Timestamp++ })
	add("ts-1", func(b *lnwire.ChannelUpdate1) { b.Timestamp-- })
	add("ts+big", func(b *lnwire.ChannelUpdate1) { b.Timestamp += 100000 })
	add("mf.nomax", func(b *lnwire.ChannelUpdate1) { b.MessageFlags &^= 1 })
	add("mf.bit1", func(b *lnwire.ChannelUpdate1) { b.MessageFlags |= 2 })
	add("cf.dir", func(b *lnwire.ChannelUpdate1) { b.ChannelFlags ^= 1 })
	add("cf.disable", func(b *lnwire.ChannelUpdate1) { b.ChannelFlags ^= 2 })
	add("cf.bit7", func(b *lnwire.ChannelUpdate1) { b.ChannelFlags ^= 0x80 })
	add("tld", func(b *lnwire.ChannelUpdate1) { b.TimeLockDelta++ })
	add("min", func(b *lnwire.ChannelUpdate1) { b.HtlcMinimumMsat++ })
	add("max", func(b *lnwire.ChannelUpdate1) { b.HtlcMaximumMsat-- })
	add("base", func(b *lnwire.ChannelUpdate1) { b.BaseFee++ })
	add("rate", func(b *lnwire.ChannelUpdate1) { b.FeeRate += 7 })
	add("extra", func(b *lnwire.ChannelUpdate1) {
		if len(b.ExtraOpaqueData) == 0 {
			b.ExtraOpaqueData = append([]byte(nil), c20TLV...)
		} else {
			b.ExtraOpaqueData = append([]byte(nil), c20TLV2...)
		}
	})
	pos, bit := h.rng.Intn(64), uint(h.rng.Intn(8))
	add("sig.flip", func(b *lnwire.ChannelUpdate1) { b.Signature = c20FlipSig(b.Signature, pos, bit) })
	add("sig.otherkey", func(b *lnwire.ChannelUpdate1) { b.Signature = h.sign(otherSigner, data) })
	add("sig.sparekey", func(b *lnwire.ChannelUpdate1) { b.Signature = h.sign(9, data) })
	add("sig.btckey", func(b *lnwire.ChannelUpdate1) { b.Signature = h.sign(c.b1, data) })
	add("sig.otherdig", func(b *lnwire.ChannelUpdate1) {
		o := c20CopyCU(a)
		o.BaseFee += 3
		od := c20Signed(o)
		b.Signature = h.sign(signer, od)
	})
	// wrong-direction signer: the other node signs validly, direction bit unchanged
	add("wrongdir.resigned", func(b *lnwire.ChannelUpdate1) { h.resignCU(b, otherSigner) })
	// direction bit flipped and re-signed by the same node (still the wrong signer)
	add("dirflip.resigned", func(b *lnwire.ChannelUpdate1) { b.ChannelFlags ^= 1; h.resignCU(b, signer) })
	return out
}

func (h *c20) naMutations(a *lnwire.NodeAnnouncement1, signer, other int) []c20Mut {
	var out []c20Mut
	add := func(name string, f func(b *lnwire.NodeAnnouncement1)) {
		b := c20CopyNA(a)
		f(b)
		out = append(out, c20Mut{name, b})
	}
	data := c20Signed(a)
	add("node", func(b *lnwire.NodeAnnouncement1) { b.NodeID = h.pub(other) })
	add("node.bad", func(b *lnwire.NodeAnnouncement1) { b.NodeID = c20BadKey(b.NodeID) })
	add("ts+1", func(b *lnwire.NodeAnnouncement1) { b.Timestamp++ })
	add("ts-1", func(b *lnwire.NodeAnnouncement1) { b.Timestamp-- })
	add("feat", func(b *lnwire.NodeAnnouncement1) { b.Features.Set(lnwire.FeatureBit(77)) })
	add("color", func(b *lnwire.NodeAnnouncement1) { b.RGBColor.B ^= 1 })
	add("alias", func(b *lnwire.NodeAnnouncement1) { b.Alias[0] ^= 1 })
	add("addr", func(b *lnwire.NodeAnnouncement1) {
		b.Addresses = []net.Addr{&net.TCPAddr{IP: net.IP{10, 9, 9, 9}, Port: 9735}}
	})
	add("extra", func(b *lnwire.NodeAnnouncement1) { b.ExtraOpaqueData = append([]byte(nil), c20TLV...) })
	pos, bit := h.rng.Intn(64), uint(h.rng.Intn(8))
	add("sig.flip", func(b *lnwire.NodeAnnouncement1) { b.Signature = c20FlipSig(b.Signature, pos, bit) })
	add("sig.otherkey", func(b *lnwire.NodeAnnouncement1) { b.Signature = h.sign(other, data) })
	add("sig.otherdig", func(b *lnwire.NodeAnnouncement1) {
		o := c20CopyNA(a)
		o.Timestamp += 5
		od := c20Signed(o)
		b.Signature = h.sign(signer, od)
	})
	return out
}

// byteCorrupt flips one bit of the wire encoding (type prefix excluded).
func (h *c20) byteCorrupt(m lnwire.Message) []byte {
	raw := c20Wire(m)
	if len(raw) < 3 {
		return nil
	}
	raw = append([]byte(nil), raw...)
	pos := 2 + h.rng.Intn(len(raw)-2)
	raw[pos] ^= 1 << uint(h.rng.Intn(8))
	return raw
}

// ---------------------------------------------------------------------------
// scenarios

func (h *c20) scid(height uint32, tx uint32, pos uint16) lnwire.ShortChannelID {
	return lnwire.ShortChannelID{BlockHeight: height, TxIndex: tx, TxPosition: pos}
}

// stdChan: five channel shapes over three nodes; block height, tx index and
// output index of each scid are drawn independently from the seed (initShapes).
func (h *c20) stdChan(i int) c20Chan {
	if i < 0 {
		i = -i
	}
	k := i % 5
	c := []c20Chan{
		{n1: 0, n2: 1, b1: 3, b2: 4, cap: 1_000_000},
		{n1: 1, n2: 2, b1: 5, b2: 6, cap: 250_000},
		{n1: 2, n2: 0, b1: 7, b2: 8, cap: 16_777_215},
		{n1: 0, n2: 1, b1: 5, b2: 8, cap: 400_000},
		{n1: 1, n2: 2, b1: 3, b2: 7, cap: 2_000_000},
	}[k]
	c.scid = h.shapes[k]
	return c
}

func (h *c20) initShapes() {
	for k := 0; k < 5; k++ {
		tx := uint32(1 + h.rng.Intn(3))
		pos := uint16(h.rng.Intn(4))
		switch k {
		case 0: // tx index and output index differ
			for uint32(pos) == tx {
				pos = uint16(h.rng.Intn(4))
			}
		case 3: // they coincide
			pos = uint16(tx)
		case 4: // first transaction of the block
			tx, pos = 0, uint16(1+h.rng.Intn(3))
		}
		h.shapes = append(h.shapes, h.scid(uint32(450+100*k+h.rng.Intn(40)), tx, pos))
	}
}

func (cs *c20Case) goodChain(c c20Chan) {
	cs.chainSet(c.scid, "utxo", c20ScriptMS, cs.h.pub(c.b1), cs.h.pub(c.b2), c.cap, 0)
}

func (cs *c20Case) nowSec() uint32 { return uint32(time.Now().Unix()) }

// caseCACorrupt: every single-field corruption of a valid channel announcement,
// each from a fresh peer, then the valid one, then a duplicate.
func (h *c20) caseCACorrupt(variant int) {
	c := h.stdChan(variant)
	h.runCase(c20CaseOpts{kind: "ca-corrupt"}, func(cs *c20Case) {
		cs.goodChain(c)
		// the neighbouring scids exist on chain too (so a corrupted scid is
		// rejected because of the signatures, not because of the chain)
		for _, s := range []lnwire.ShortChannelID{
			h.scid(c.scid.BlockHeight-1, c.scid.TxIndex, c.scid.TxPosition),
			h.scid(c.scid.BlockHeight, c.scid.TxIndex+1, c.scid.TxPosition),
			h.scid(c.scid.BlockHeight, c.scid.TxIndex, c.scid.TxPosition+1),
		} {
			cs.chainSet(s, "utxo", c20ScriptMS, h.pub(c.b1), h.pub(c.b2), c.cap, 0)
		}
		a := h.mkCA(c)
		if variant%2 == 1 {
			a.ExtraOpaqueData = append([]byte(nil), c20TLV2...)
			h.signCA(a, c.n1, c.n2, c.b1, c.b2)
		}
		oc := h.stdChan(variant + 1)
		other := h.mkCA(oc)
		muts := h.caMutations(c, a, other)
		h.rng.Shuffle(len(muts), func(i, j int) { muts[i], muts[j] = muts[j], muts[i] })
		pid := 1
		for _, mu := range muts {
			cs.submit(pid, mu.m)
			pid++
		}
		nb := 6
		if h.tier == "thorough" {
			nb = 40
		}
		for i := 0; i < nb; i++ {
			if raw := h.byteCorrupt(a); raw != nil {
				cs.submitRaw(pid, raw)
				pid++
			}
		}
		cs.submit(pid, a)
		cs.submit(pid+1, a)
		cs.submit(pid, a)
	})
}

// caseChain: validly signed announcements against every kind of funding
// output problem.
func (h *c20) caseChain(variant int) {
	c := h.stdChan(variant)
	if c.scid.TxIndex == 0 {
		c.scid.TxIndex = 2 // "notx" needs a transaction index that can be out of range
	}
	kinds := []string{"spent", "utxoerr", "wrongkeys", "p2wkh", "noout", "notx", "noblk", "fetcherr",
		"swapped", "taproot-mismatch", "taproot-ok", "onekey"}
	for _, k := range kinds {
		k := k
		h.runCase(c20CaseOpts{kind: "chain-" + k}, func(cs *c20Case) {
			a := h.mkCA(c)
			b1, b2 := h.pub(c.b1), h.pub(c.b2)
			switch k {
			case "spent":
				cs.chainSet(c.scid, "utxo", c20ScriptMS, b1, b2, c.cap, 1)
			case "utxoerr":
				cs.chainSet(c.scid, "utxo", c20ScriptMS, b1, b2, c.cap, 2)
			case "wrongkeys":
				cs.chainSet(c.scid, "utxo", c20ScriptMS, b1, h.pub(9), c.cap, 0)
			case "onekey":
				cs.chainSet(c.scid, "utxo", c20ScriptMS, b2, b2, c.cap, 0)
			case "p2wkh":
				cs.chainSet(c.scid, "utxo", c20ScriptOther, b1, b2, c.cap, 0)
			case "noout":
				cs.chainSet(c.scid, "noout", c20ScriptMS, b1, b2, c.cap, 0)
			case "notx":
				cs.chainSet(c.scid, "notx", c20ScriptMS, b1, b2, c.cap, 0)
			case "noblk":
				cs.chainSet(c.scid, "noblk", c20ScriptMS, b1, b2, c.cap, 0)
			case "fetcherr":
				cs.chainSet(c.scid, "fetcherr", c20ScriptMS, b1, b2, c.cap, 0)
			case "swapped":
				cs.chainSet(c.scid, "utxo", c20ScriptMS, b2, b1, c.cap, 0)
			case "taproot-mismatch":
				cs.chainSet(c.scid, "utxo", c20ScriptTR, b1, b2, c.cap, 0)
			case "taproot-ok":
				cs.chainSet(c.scid, "utxo", c20ScriptTR, b1, b2, c.cap, 0)
				a.Features.Set(lnwire.SimpleTaprootChannelsOptionalStaging)
				h.signCA(a, c.n1, c.n2, c.b1, c.b2)
			}
			u0 := h.mkCU(c.scid, c20DefaultUpd(cs.nowSec()-100, 0), c.n1)
			if variant%2 == 0 {
				cs.submit(3, u0) // premature update waits for the channel
			}
			cs.submit(1, a)
			cs.submit(1, a) // same peer again: reject cache
			cs.submit(2, a) // other peer: zombie / closed-scid index
			// the chain is repaired; the earlier verdict may persist
			cs.goodChain(c)
			cs.submit(4, a)
			cs.submit(5, h.mkCU(c.scid, c20DefaultUpd(cs.nowSec()-50, 1), c.n2))
			cs.submit(5, h.mkNA(c.n1, cs.nowSec()-50, 1))
		})
	}
}

// caseCUCorrupt: known channel, every single-field corruption of a valid
// update, then the valid one.
func (h *c20) caseCUCorrupt(variant int) {
	c := h.stdChan(variant)
	dir := uint8(variant % 2)
	signer, other := c.n1, c.n2
	if dir == 1 {
		signer, other = c.n2, c.n1
	}
	h.runCase(c20CaseOpts{kind: "cu-corrupt"}, func(cs *c20Case) {
		cs.goodChain(c)
		cs.submit(1, h.mkCA(c))
		ts := cs.nowSec() - 1000
		if variant%4 >= 2 {
			// an older policy exists already
			cs.submit(1, h.mkCU(c.scid, c20DefaultUpd(ts-10, dir), signer))
		}
		ud := c20DefaultUpd(ts, dir)
		ud.base = 2000
		if variant%3 == 1 {
			ud.extra = append([]byte(nil), c20TLV...)
		}
		u := h.mkCU(c.scid, ud, signer)
		muts := h.cuMutations(c, u, signer, other)
		h.rng.Shuffle(len(muts), func(i, j int) { muts[i], muts[j] = muts[j], muts[i] })
		pid := 2
		for _, mu := range muts {
			cs.submit(pid, mu.m)
			pid++
		}
		// scid corruptions (unknown channel: cached, never applied)
		for i, f := range []func(b *lnwire.ChannelUpdate1){
			func(b *lnwire.ChannelUpdate1) { b.ShortChannelID.BlockHeight-- },
			func(b *lnwire.ChannelUpdate1) { b.ShortChannelID.TxIndex++ },
			func(b *lnwire.ChannelUpdate1) { b.ShortChannelID.TxPosition++ },
		} {
			if (variant+i)%3 == 0 {
				b := c20CopyCU(u)
				f(b)
				cs.submit(pid, b)
				pid++
			}
		}
		nb := 5
		if h.tier == "thorough" {
			nb = 30
		}
		for i := 0; i < nb; i++ {
			if raw := h.byteCorrupt(u); raw != nil {
				cs.submitRaw(pid, raw)
				pid++
			}
		}
		cs.submit(pid, u)
		cs.submit(pid+1, u)
	})
}

// caseCUFresh: validly signed updates around every comparison in the update
// path (staleness, zero, future skew, field consistency vs capacity, keep-alive,
// rate limit).
func (h *c20) caseCUFresh(variant int) {
	c := h.stdChan(variant)
	dir := uint8(variant % 2)
	signer := c.n1
	if dir == 1 {
		signer = c.n2
	}
	expiry := uint32(graph.DefaultChannelPruneExpiry / time.Second)
	rb := uint32(c20Rebroadcast / time.Second)
	h.runCase(c20CaseOpts{kind: "cu-fresh"}, func(cs *c20Case) {
		cs.goodChain(c)
		cs.submit(1, h.mkCA(c))
		t0 := cs.nowSec() - 5000
		d := func(ts uint32) c20Upd { return c20DefaultUpd(ts, dir) }
		send := func(u c20Upd) { cs.submit(1+h.rng.Intn(3), h.mkCU(c.scid, u, signer)) }
		capM := uint64(c.cap) * 1000
		switch variant % 6 {
		case 0: // staleness
			send(d(t0))
			u := d(t0 - 1)
			u.base = 7
			send(u)
			u = d(t0)
			u.base = 8
			send(u)
			u = d(t0 + 1)
			u.base = 9
			send(u)
			send(u)
			u = d(0)
			send(u)
			u = d(t0 + 2)
			u.cf ^= 1 // other direction has no policy yet; signed by the wrong node
			send(u)
		case 1: // future skew boundary (exact, fake clock)
			now := cs.nowSec()
			for _, ts := range []uint32{now + expiry + 2, now + expiry + 1, now + expiry, now + expiry - 1} {
				u := d(ts)
				u.base = ts % 1000
				send(u)
			}
		case 2: // field consistency
			type fm struct {
				mf       uint8
				min, max uint64
			}
			for i, f := range []fm{{0, 1000, capM}, {1, 1000, 0}, {1, 1000, 999}, {1, 1000, capM + 1},
				{1, 1000, 1000}, {1, 1000, capM}, {1, capM, capM}, {3, 1, capM - 1}, {1, 0, 1}} {
				u := d(t0 + uint32(i))
				u.mf, u.min, u.max = f.mf, f.min, f.max
				u.rate = uint32(i)
				send(u)
			}
		case 3: // keep-alive
			send(d(t0))
			send(d(t0 + 1))
			send(d(t0 + rb - 1))
			u := d(t0 + 10)
			u.cf |= 2 // disable: not a keep-alive
			send(u)
			u2 := u
			u2.ts = u.ts + rb
			send(u2) // keep-alive exactly at the interval
			u3 := u2
			u3.ts = u2.ts + rb - 1
			send(u3)
			u3.ts = u2.ts + rb + 5
			send(u3)
		case 4: // rate limit: more distinct updates than the burst
			for i := 0; i < 13; i++ {
				u := d(t0 + uint32(i))
				u.base = uint32(100 + i)
				send(u)
			}
			// the other direction has its own limiter
			os := c.n2
			if dir == 1 {
				os = c.n1
			}
			for i := 0; i < 3; i++ {
				u := c20DefaultUpd(t0+uint32(i), dir^1)
				u.rate = uint32(5 + i)
				cs.submit(1, h.mkCU(c.scid, u, os))
			}
		case 5: // extra data / flags round trip, disable toggles
			u := d(t0)
			u.extra = append([]byte(nil), c20TLV...)
			send(u)
			u.ts++
			u.extra = append([]byte(nil), c20TLV2...)
			send(u)
			u.ts++
			u.extra = nil
			u.cf |= 2
			send(u)
			u.ts++
			u.cf |= 0x40
			send(u)
			u.ts++
			u.mf |= 2
			send(u)
		}
	})
}

// caseNA: node announcements: unknown node, known node, staleness, corruption.
func (h *c20) caseNA(variant int) {
	c := h.stdChan(variant)
	h.runCase(c20CaseOpts{kind: "na"}, func(cs *c20Case) {
		cs.goodChain(c)
		t0 := cs.nowSec() - 777
		node, other := c.n1, c.n2
		if variant%2 == 1 {
			node, other = c.n2, c.n1
		}
		a0 := h.mkNA(node, t0, 0)
		cs.submit(1, a0) // no channel yet: ignored
		cs.submit(1, h.mkCA(c))
		if variant%3 == 0 {
			cs.submit(2, h.mkNA(node, t0-5, 3)) // an older announcement is stored first
		}
		muts := h.naMutations(a0, node, other)
		h.rng.Shuffle(len(muts), func(i, j int) { muts[i], muts[j] = muts[j], muts[i] })
		pid := 3
		for _, mu := range muts {
			cs.submit(pid, mu.m)
			pid++
		}
		nb := 4
		if h.tier == "thorough" {
			nb = 30
		}
		for i := 0; i < nb; i++ {
			if raw := h.byteCorrupt(a0); raw != nil {
				cs.submitRaw(pid, raw)
				pid++
			}
		}
		cs.submit(pid, h.mkNA(9, t0, 0)) // validly signed, node without a channel
		cs.submit(pid, h.mkNA(node, 0, 1))
		cs.submit(pid, a0)
		cs.submit(pid, a0)
		cs.submit(pid, h.mkNA(node, t0-1, 1))
		cs.submit(pid, h.mkNA(node, t0, 2)) // equal timestamp, different content
		cs.submit(pid, h.mkNA(node, t0+1, 2))
		cs.submit(pid, h.mkNA(other, t0, 0))
		// a far-future node announcement (no skew check on this path)
		cs.submit(pid, h.mkNA(other, 4294967295, 4))
	})
}

// caseOrder: orderings and duplicates of {chan_ann, upd dir0, upd dir1,
// node_ann x2}, including updates before their channel.
func (h *c20) caseOrder(perm []int, dupAt int, badKind int) {
	c := h.stdChan(h.n)
	h.runCase(c20CaseOpts{kind: "order"}, func(cs *c20Case) {
		cs.goodChain(c)
		t0 := cs.nowSec() - 300
		ca := h.mkCA(c)
		u0 := h.mkCU(c.scid, c20DefaultUpd(t0, 0), c.n1)
		u1 := h.mkCU(c.scid, c20DefaultUpd(t0+1, 1), c.n2)
		switch badKind {
		case 1: // premature update with a corrupted signature
			u0.Signature = c20FlipSig(u0.Signature, 5, 1)
		case 2: // premature update signed by the wrong direction's node
			h.resignCU(u0, c.n2)
		case 3: // premature update with inconsistent fields (max > capacity)
			u1.HtlcMaximumMsat = lnwire.MilliSatoshi(uint64(c.cap)*1000 + 1)
			h.resignCU(u1, c.n2)
		case 4: // premature update whose base fee was altered after signing
			u1.BaseFee++
		case 5: // the channel announcement itself is invalid
			ca.NodeSig2 = c20FlipSig(ca.NodeSig2, 40, 3)
		}
		msgs := []lnwire.Message{ca, u0, u1, h.mkNA(c.n1, t0, 0), h.mkNA(c.n2, t0, 0)}
		for i, p := range perm {
			pid := 1 + i%2
			cs.submit(pid, msgs[p])
			if i == dupAt {
				cs.submit(3, msgs[p])
			}
		}
		// finally everything once more from a third peer, channel first
		for _, m := range msgs {
			cs.submit(4, m)
		}
	})
}

// caseZombie: zombie-index entries and the resurrection rules.
func (h *c20) caseZombie(variant int) {
	c := h.stdChan(variant)
	expiry := uint32(graph.DefaultChannelPruneExpiry / time.Second)
	h.runCase(c20CaseOpts{kind: "zombie"}, func(cs *c20Case) {
		cs.goodChain(c)
		var zero [33]byte
		k1, k2 := h.pub(c.n1), h.pub(c.n2)
		switch variant % 4 {
		case 1:
			k2 = zero
		case 2:
			k1 = zero
		case 3:
			k1, k2 = zero, zero
		}
		cs.zombie(c.scid, k1, k2)
		now := cs.nowSec()
		cs.submit(1, h.mkCA(c)) // known (zombie) edge: ignored
		// stale for a zombie: older than the prune expiry (exact boundary)
		cs.submit(1, h.mkCU(c.scid, c20DefaultUpd(now-expiry-1, 0), c.n1))
		cs.submit(1, h.mkCU(c.scid, c20DefaultUpd(now-expiry+5, 0), c.n2)) // wrong signer
		bad := h.mkCU(c.scid, c20DefaultUpd(now-10, 1), c.n2)
		bad.Signature = c20FlipSig(bad.Signature, 9, 2)
		cs.submit(2, bad)
		cs.submit(2, h.mkCU(c.scid, c20DefaultUpd(now-20, 1), c.n2))
		cs.submit(3, h.mkCU(c.scid, c20DefaultUpd(now-30, 0), c.n1))
		cs.submit(4, h.mkCA(c))
		cs.submit(4, h.mkCU(c.scid, c20DefaultUpd(now-5, 0), c.n1))
	})
}

// caseFuture: messages for a block height the gossiper has not seen yet.
func (h *c20) caseFuture(variant int) {
	c := h.stdChan(variant)
	c.scid.BlockHeight = 1005
	h.runCase(c20CaseOpts{kind: "future"}, func(cs *c20Case) {
		cs.goodChain(c)
		t0 := cs.nowSec() - 60
		ca := h.mkCA(c)
		if variant%3 == 2 {
			ca.BitcoinSig1 = c20FlipSig(ca.BitcoinSig1, 3, 3)
		}
		cs.submit(1, ca)
		if variant%3 != 2 && variant%2 == 0 {
			cs.submit(2, h.mkCU(c.scid, c20DefaultUpd(t0, 0), c.n1))
		}
		cs.block(1004)
		cs.block(1005)
		cs.submit(3, h.mkCU(c.scid, c20DefaultUpd(t0+1, 1), c.n2))
		cs.submit(3, h.mkCA(c))
	})
}

// caseCacheMiss: stale / equal / newer updates for one channel interleaved with
// traffic for another one, so that (with single-entry store caches) every
// freshness decision is recomputed from the database.
func (h *c20) caseCacheMiss(variant int) {
	a, b := h.stdChan(variant), h.stdChan(variant+1)
	h.runCase(c20CaseOpts{kind: "cache-miss"}, func(cs *c20Case) {
		cs.goodChain(a)
		cs.goodChain(b)
		cs.submit(1, h.mkCA(a))
		cs.submit(1, h.mkCA(b))
		t0 := cs.nowSec() - 4000
		touch := func(i uint32) {
			u := c20DefaultUpd(t0+i, uint8(i%2))
			u.base = 50 + i
			signer := b.n1
			if i%2 == 1 {
				signer = b.n2
			}
			cs.submit(2, h.mkCU(b.scid, u, signer))
		}
		send := func(ts uint32, dir uint8, base uint32) {
			u := c20DefaultUpd(ts, dir)
			u.base = base
			signer := a.n1
			if dir == 1 {
				signer = a.n2
			}
			cs.submit(3, h.mkCU(a.scid, u, signer))
		}
		send(t0+100, 0, 1)
		send(t0+200, 1, 2)
		touch(1)
		send(t0+150, 1, 3) // stale for direction 1 (but newer than direction 0)
		touch(2)
		send(t0+200, 1, 4) // equal
		touch(3)
		send(t0+50, 0, 5) // stale for direction 0
		touch(4)
		send(t0+100, 0, 6) // equal
		touch(5)
		send(t0+201, 1, 7) // newer
		touch(6)
		send(t0+101, 0, 8) // newer
		na := h.mkNA(a.n1, t0, 0)
		cs.submit(3, na)
		touch(7)
		cs.submit(3, h.mkNA(a.n1, t0-1, 1))
		cs.submit(3, h.mkNA(a.n1, t0, 2))
	})
}

// caseEntry: the builder's own entry points (ApplyChannelUpdate / UpdateEdge)
// with newer, equal, older timestamps, wrong-direction signers, corrupted
// signatures and fields, inconsistent fields, unknown and zombie channels.
func (h *c20) caseEntry(variant int) {
	c := h.stdChan(variant)
	other := h.stdChan(variant + 1)
	kind := []string{"au", "ue"}[variant%2]
	h.runCase(c20CaseOpts{kind: "entry-" + kind}, func(cs *c20Case) {
		cs.goodChain(c)
		t0 := cs.nowSec() - 3000
		mk := func(ts uint32, dir uint8, base uint32) *lnwire.ChannelUpdate1 {
			u := c20DefaultUpd(ts, dir)
			u.base = base
			signer := c.n1
			if dir == 1 {
				signer = c.n2
			}
			return h.mkCU(c.scid, u, signer)
		}
		cs.entry(kind, mk(t0, 0, 1)) // channel unknown
		cs.submit(1, h.mkCA(c))
		if variant%4 < 2 {
			cs.submit(1, mk(t0, 0, 1)) // stored through the gossiper first
		} else {
			cs.entry(kind, mk(t0, 0, 1))
		}
		cs.entry(kind, mk(t0, 0, 2))   // equal timestamp, different fee
		cs.entry(kind, mk(t0-1, 0, 3)) // older
		cs.entry(kind, mk(t0+1, 0, 4)) // newer
		cs.entry(kind, mk(t0+1, 0, 5)) // equal again
		cs.entry(kind, mk(t0+1, 0, 4)) // exact duplicate
		// the other direction: equal to direction 0's timestamp is fine, then equal to its own
		cs.entry(kind, mk(t0+1, 1, 6))
		cs.entry(kind, mk(t0+1, 1, 7))
		cs.entry(kind, mk(t0, 1, 8))
		// wrong-direction signer, corrupted signature, corrupted field
		w := mk(t0+10, 0, 9)
		h.resignCU(w, c.n2)
		cs.entry(kind, w)
		f := mk(t0+11, 1, 10)
		f.Signature = c20FlipSig(f.Signature, 17, 4)
		cs.entry(kind, f)
		g := mk(t0+12, 0, 11)
		g.FeeRate++
		cs.entry(kind, g)
		// inconsistent fields, validly signed
		bad := c20DefaultUpd(t0+13, 0)
		bad.max = uint64(c.cap)*1000 + 1
		cs.entry(kind, h.mkCU(c.scid, bad, c.n1))
		bad = c20DefaultUpd(t0+14, 1)
		bad.mf = 0
		cs.entry(kind, h.mkCU(c.scid, bad, c.n2))
		// zero timestamp, far future, foreign chain hash (validly signed)
		cs.entry(kind, mk(0, 0, 12))
		cs.entry(kind, mk(cs.nowSec()+40*24*3600, 1, 13))
		x := mk(t0+20, 0, 14)
		x.ChainHash[0] ^= 1
		h.resignCU(x, c.n1)
		cs.entry(kind, x)
		// a zombie channel and a channel that is not in the graph
		cs.zombie(other.scid, h.pub(other.n1), h.pub(other.n2))
		cs.entry(kind, h.mkCU(other.scid, c20DefaultUpd(cs.nowSec()-5, 0), other.n1))
		// the gossiper afterwards still sees consistent timestamps
		cs.submit(2, mk(t0+1, 0, 15))
		cs.submit(2, mk(t0+30, 0, 16))
		cs.entry(kind, mk(t0+30, 0, 17))
	})
}

// casePrune: channels are closed on chain and pruned; node announcements and
// updates for the vanished channel / node must no longer be applied.
func (h *c20) casePrune(variant int) {
	a, b := h.stdChan(variant), h.stdChan(variant+1) // they share one node
	h.runCase(c20CaseOpts{kind: "prune"}, func(cs *c20Case) {
		cs.goodChain(a)
		cs.goodChain(b)
		t0 := cs.nowSec() - 2000
		cs.submit(1, h.mkCA(a))
		cs.submit(1, h.mkCA(b))
		for _, n := range []int{a.n1, a.n2, b.n1, b.n2} {
			cs.submit(1, h.mkNA(n, t0, 0))
		}
		cs.submit(1, h.mkCU(a.scid, c20DefaultUpd(t0, 0), a.n1))
		cs.submit(1, h.mkCU(a.scid, c20DefaultUpd(t0, 1), a.n2))
		cs.submit(1, h.mkCU(b.scid, c20DefaultUpd(t0, 0), b.n1))
		if variant%2 == 1 {
			cs.chainSet(a.scid, "utxo", c20ScriptMS, h.pub(a.b1), h.pub(a.b2), a.cap, 1)
		}
		cs.prune(a.scid)
		// the nodes of the vanished channel: newer announcements
		cs.submit(2, h.mkNA(a.n1, t0+5, 1))
		cs.submit(2, h.mkNA(a.n2, t0+5, 1))
		cs.submit(2, h.mkCU(a.scid, c20DefaultUpd(t0+5, 0), a.n1))
		cs.entry("au", h.mkCU(a.scid, c20DefaultUpd(t0+6, 1), a.n2))
		cs.entry("ue", h.mkCU(a.scid, c20DefaultUpd(t0+7, 1), a.n2))
		cs.submit(3, h.mkCA(a)) // re-announced: accepted again only if still unspent
		cs.submit(3, h.mkNA(a.n1, t0+6, 2))
		cs.prune(b.scid)
		cs.prune(b.scid) // nothing left to prune
		cs.submit(4, h.mkNA(b.n2, t0+9, 3))
		cs.submit(4, h.mkNA(b.n1, t0+9, 3))
	})
}

// caseSibling: multi-output funding transactions.  The scid's own output
// (height, tx_index, output) and a sibling output of the same transaction
// (in particular output #tx_index) are programmed independently: spent /
// unspent, same 2-of-2 script / another script.
func (h *c20) caseSibling(variant int) {
	c := h.stdChan(variant)
	if uint32(c.scid.TxPosition) == c.scid.TxIndex {
		c.scid.TxPosition = uint16(c.scid.TxIndex + 1)
	}
	sib := h.scid(c.scid.BlockHeight, c.scid.TxIndex, uint16(c.scid.TxIndex))
	other := h.scid(c.scid.BlockHeight, c.scid.TxIndex, c.scid.TxPosition+1)
	b1, b2 := h.pub(c.b1), h.pub(c.b2)
	h.runCase(c20CaseOpts{kind: "sibling"}, func(cs *c20Case) {
		t0 := cs.nowSec() - 500
		switch variant % 4 {
		case 0: // own output spent, identical sibling unspent
			cs.chainSet(c.scid, "utxo", c20ScriptMS, b1, b2, c.cap, 1)
			cs.chainSet(sib, "utxo", c20ScriptMS, b1, b2, c.cap, 0)
			cs.chainSet(other, "utxo", c20ScriptMS, b1, b2, c.cap, 0)
		case 1: // own output fine, siblings spent
			cs.chainSet(c.scid, "utxo", c20ScriptMS, b1, b2, c.cap, 0)
			cs.chainSet(sib, "utxo", c20ScriptMS, b1, b2, c.cap+1, 1)
			cs.chainSet(other, "utxo", c20ScriptMS, b1, b2, c.cap+2, 1)
		case 2: // own output has another script, sibling carries the 2-of-2
			cs.chainSet(c.scid, "utxo", c20ScriptOther, b1, b2, c.cap, 0)
			cs.chainSet(sib, "utxo", c20ScriptMS, b1, b2, c.cap, 0)
		case 3: // own output fine, siblings are ordinary outputs with other values
			cs.chainSet(c.scid, "utxo", c20ScriptMS, b1, b2, c.cap, 0)
			cs.chainSet(sib, "utxo", c20ScriptOther, b1, b2, 12345, 0)
		}
		cs.submit(1, h.mkCA(c))
		cs.submit(2, h.mkCU(c.scid, c20DefaultUpd(t0, 0), c.n1))
		// the sibling's own scid announced with the same keys
		sc := c
		sc.scid = sib
		cs.submit(3, h.mkCA(sc))
		cs.submit(4, h.mkCA(c))
	})
}

// caseMisc: own-channel announcement, AssumeChannelValid.
func (h *c20) caseOwn() {
	h.runCase(c20CaseOpts{kind: "own"}, func(cs *c20Case) {
		c := h.stdChan(0)
		cs.goodChain(c)
		a := h.mkCA(c)
		copy(a.NodeID2[:], selfKeyPriv.PubKey().SerializeCompressed())
		cs.submit(1, a)
		cs.submit(1, h.mkCA(c))
	})
}

func (h *c20) caseAssumeValid(variant int) {
	c := h.stdChan(variant)
	h.runCase(c20CaseOpts{kind: "assume-valid", assumeValid: true}, func(cs *c20Case) {
		// no funding output on chain at all
		t0 := cs.nowSec() - 60
		bad := h.mkCA(c)
		bad.NodeSig1 = c20FlipSig(bad.NodeSig1, 1, 1)
		cs.submit(1, bad)
		cs.submit(2, h.mkCA(c))
		u := c20DefaultUpd(t0, 0)
		u.max = 1 << 60 // capacity unknown (0): not checked
		cs.submit(2, h.mkCU(c.scid, u, c.n1))
		cs.submit(2, h.mkCU(c.scid, c20DefaultUpd(t0, 1), c.n1)) // wrong signer
		cs.submit(2, h.mkNA(c.n2, t0, 0))
	})
}

// caseRandom: random interleavings of valid / re-signed / corrupted messages
// over up to three channels, with chain changes in between.
func (h *c20) caseRandom() {
	r := h.rng
	h.runCase(c20CaseOpts{kind: "random"}, func(cs *c20Case) {
		nch := 1 + r.Intn(3)
		off := r.Intn(5)
		chans := make([]c20Chan, nch)
		cas := make([]*lnwire.ChannelAnnouncement1, nch)
		for i := range chans {
			chans[i] = h.stdChan(i + off)
			switch r.Intn(8) {
			case 0:
				cs.chainSet(chans[i].scid, "utxo", c20ScriptMS, h.pub(chans[i].b1), h.pub(chans[i].b2), chans[i].cap, 1)
			case 1:
				cs.chainSet(chans[i].scid, "utxo", c20ScriptMS, h.pub(chans[i].b1), h.pub(9), chans[i].cap, 0)
			case 2:
				// nothing on chain
			default:
				cs.goodChain(chans[i])
			}
			cas[i] = h.mkCA(chans[i])
		}
		t0 := cs.nowSec() - 10000
		// per (chan,dir): last timestamp handed out; at most one update per
		// (chan,dir) is sent while the channel may still be unknown.
		sentCA := make([]bool, nch)
		early := map[[2]int]bool{}
		dead := map[int]bool{}
		nops := 8 + r.Intn(10)
		for i := 0; i < nops; i++ {
			ci := r.Intn(nch)
			c := chans[ci]
			pid := 1 + r.Intn(3)
			switch k := r.Intn(10); {
			case k < 2:
				a := cas[ci]
				if r.Intn(4) == 0 {
					ms := h.caMutations(c, a, cas[(ci+1)%nch])
					cs.submit(pid+10+i, ms[r.Intn(len(ms))].m)
				} else {
					cs.submit(pid, a)
					sentCA[ci] = true
				}
			case k < 7:
				dir := r.Intn(2)
				if !sentCA[ci] {
					// at most one cached update per channel: lnd replays
					// cached updates concurrently, so the outcome for two
					// updates of one direction depends on goroutine order.
					if early[[2]int{ci, 0}] {
						continue
					}
					early[[2]int{ci, 0}] = true
				}
				signer, other := c.n1, c.n2
				if dir == 1 {
					signer, other = c.n2, c.n1
				}
				u := c20DefaultUpd(t0+uint32(r.Intn(6)), uint8(dir))
				u.base = uint32(r.Intn(3))
				if r.Intn(5) == 0 {
					u.cf |= 2
				}
				switch r.Intn(8) {
				case 0:
					u.max = uint64(c.cap)*1000 + uint64(r.Intn(2))
				case 1:
					u.ts = 0
				case 2:
					u.min = u.max + uint64(r.Intn(2))
				}
				m := h.mkCU(c.scid, u, signer)
				if r.Intn(7) == 0 {
					ms := h.cuMutations(c, m, signer, other)
					m = ms[r.Intn(len(ms))].m.(*lnwire.ChannelUpdate1)
				}
				switch r.Intn(8) {
				case 0:
					cs.entry("au", m)
				case 1:
					cs.entry("ue", m)
				default:
					cs.submit(pid, m)
				}
			case k < 9:
				node := []int{c.n1, c.n2, 9}[r.Intn(3)]
				m := h.mkNA(node, t0+uint32(r.Intn(5)), r.Intn(3))
				if r.Intn(5) == 0 {
					oth := c.n1
					if node == c.n1 {
						oth = c.n2
					}
					ms := h.naMutations(m, node, oth)
					cs.submit(pid, ms[r.Intn(len(ms))].m)
				} else {
					cs.submit(pid, m)
				}
			default:
				switch r.Intn(3) {
				case 0:
					if dead[ci] {
						continue
					}
					cs.goodChain(c)
				case 1:
					cs.chainSet(c.scid, "utxo", c20ScriptMS, h.pub(c.b1), h.pub(c.b2), c.cap, 1)
				default:
					// closed on chain: spent, then pruned (never re-added, so
					// updates cached afterwards are never replayed concurrently)
					cs.chainSet(c.scid, "utxo", c20ScriptMS, h.pub(c.b1), h.pub(c.b2), c.cap, 1)
					cs.prune(c.scid)
					dead[ci] = true
				}
			}
		}
	})
}

// ---------------------------------------------------------------------------

func TestVerifC20(t *testing.T) {
	out := os.Getenv("VERIF_OUT")
	if out == "" {
		t.Skip("VERIF_OUT not set")
	}
	seed, _ := strconv.ParseInt(os.Getenv("VERIF_SEED"), 10, 64)
	tier := os.Getenv("VERIF_TIER")
	f, err := os.Create(out)
	if err != nil {
		t.Fatal(err)
	}
	defer f.Close()
	h := &c20{
		t: t, w: bufio.NewWriterSize(f, 1<<20), rng: rand.New(rand.NewSource(seed*7919 + 20)), tier: tier,
		keyIDs: map[[33]byte]int{}, keyPub: map[int][33]byte{}, digIDs: map[string]int{},
		sigs: map[[64]byte]string{}, chains: map[chainhash.Hash]int{},
	}
	defer h.w.Flush()
	h.keyID([33]byte{}) // id 0 = the all-zero key
	h.chainID(c20MainNet)
	for i := 0; i < 10; i++ {
		var sb [40]byte
		binary.BigEndian.PutUint64(sb[:8], uint64(seed))
		binary.BigEndian.PutUint32(sb[8:12], uint32(i))
		copy(sb[12:], "c20-key")
		sum := sha256.Sum256(sb[:])
		priv, _ := btcec.PrivKeyFromBytes(sum[:])
		h.privs = append(h.privs, priv)
		h.keyID(h.pub(i))
	}

	h.initShapes()
	h.pf("FACT expiry=%d rebroadcast=%d burst=%d interval=%d zslot2=%d", int64(graph.DefaultChannelPruneExpiry/time.Second),
		int64(c20Rebroadcast/time.Second), DefaultMaxChannelUpdateBurst,
		int64(DefaultChannelUpdateInterval/time.Second), h.probeZombieSlot2())

	thorough := tier == "thorough"
	rep := func(q, th int) int {
		if thorough {
			return th
		}
		return q
	}

	// debugging aid (never set by the runner): only the announcement-signatures class
	if os.Getenv("C20_ONLY") == "annsig" {
		for v := 0; v < rep(14, 56); v++ {
			h.caseAnnSig(v + 14*int(seed%4))
		}
		return
	}
	for v := 0; v < rep(2, 6); v++ {
		h.caseCACorrupt(v)
	}
	for v := 0; v < rep(1, 3); v++ {
		h.caseChain(v + int(seed))
	}
	for v := 0; v < rep(4, 12); v++ {
		h.caseCUCorrupt(v)
	}
	for v := 0; v < rep(6, 12); v++ {
		h.caseCUFresh(v)
	}
	for v := 0; v < rep(3, 6); v++ {
		h.caseNA(v)
	}
	// orderings
	perms := c20Perms(5)
	if !thorough {
		h.rng.Shuffle(len(perms), func(i, j int) { perms[i], perms[j] = perms[j], perms[i] })
		perms = perms[:24]
	}
	for i, p := range perms {
		h.caseOrder(p, h.rng.Intn(6), i%6)
	}
	for v := 0; v < rep(4, 8); v++ {
		h.caseZombie(v)
	}
	for v := 0; v < rep(3, 6); v++ {
		h.caseFuture(v)
	}
	for v := 0; v < rep(2, 6); v++ {
		h.caseCacheMiss(v)
	}
	for v := 0; v < rep(4, 8); v++ {
		h.caseEntry(v)
	}
	for v := 0; v < rep(3, 6); v++ {
		h.casePrune(v)
	}
	for v := 0; v < rep(8, 20); v++ {
		h.caseSibling(v)
	}
	h.caseOwn()
	for v := 0; v < rep(2, 3); v++ {
		h.caseAssumeValid(v)
	}
	for v := 0; v < rep(14, 56); v++ {
		h.caseAnnSig(v + 14*int(seed%4))
	}
	h.concCases(thorough, seed)
	nrand := rep(300, 4000)
	if d, err := strconv.Atoi(os.Getenv("C20_RANDOM_DIV")); err == nil && d > 0 {
		nrand /= d
	}
	for i := 0; i < nrand; i++ {
		h.caseRandom()
	}
	_ = btcutil.Amount(0)
}

func c20Perms(n int) [][]int {
	var out [][]int
	var rec func(cur []int, used int)
	rec = func(cur []int, used int) {
		if len(cur) == n {
			out = append(out, append([]int(nil), cur...))
			return
		}
		for i := 0; i < n; i++ {
			if used&(1<<i) == 0 {
				rec(append(cur, i), used|1<<i)
			}
		}
	}
	rec(nil, 0)
	return out
}
