//go:build verif

package discovery

// C20 — announcement-signatures assembly (handleAnnSig).
//
// A channel of ours is in the graph without a proof (Builder.AddEdge with
// AuthProof == nil, what the funding manager's local announcement leads to).
// The two halves of the proof — ours through ProcessLocalAnnouncement, the
// peer's through ProcessRemoteAnnouncement — arrive in either order, duplicated,
// corrupted (flipped signature, valid signature of the wrong key, signature over
// another channel's digest, node/bitcoin signatures swapped), from a node that is
// not in the channel, before the channel exists (orphans), before the proof is
// mature (replayed by a block), across a re-open of the persistent
// WaitingProofStore.  Every line reports the store's content next to the graph
// dump; every channel of the dump says whether its stored proof really verifies
// (btcec) over the announcement rebuilt by hand from the stored record.

import (
	"context"
	"encoding/binary"
	"fmt"
	"sort"
	"strings"
	"time"

	"github.com/btcsuite/btcd/btcec/v2"
	"github.com/lightningnetwork/lnd/actor"
	"github.com/lightningnetwork/lnd/channeldb"
	"github.com/lightningnetwork/lnd/chanstate"
	"github.com/lightningnetwork/lnd/graph/db/models"
	"github.com/lightningnetwork/lnd/lnwire"
)

const c20ProofMatureDelta = 6

// c20AS is the proof-path fixture of a case.
type c20AS struct {
	db    *channeldb.DB
	store *channeldb.WaitingProofStore
	decl  map[uint64][]byte // scid -> the bytes the four signatures of its announcement cover
	fc    bool
}

// c20ProofFlag: 0 = no proof stored, 1 = stored proof whose four signatures
// really verify under the stored keys over the announcement rebuilt from the
// stored record, 2 = stored proof that does not.
func c20ProofFlag(i *models.ChannelEdgeInfo) int {
	if i.AuthProof == nil {
		return 0
	}
	a := &lnwire.ChannelAnnouncement1{
		ChainHash:       i.ChainHash,
		ShortChannelID:  lnwire.NewShortChanIDFromInt(i.ChannelID),
		NodeID1:         i.NodeKey1Bytes,
		NodeID2:         i.NodeKey2Bytes,
		ExtraOpaqueData: i.ExtraOpaqueData,
		Features:        lnwire.NewRawFeatureVector(),
	}
	if i.Features != nil && i.Features.RawFeatureVector != nil {
		a.Features = i.Features.RawFeatureVector
	}
	b1, ok1 := i.BitcoinKey1Bytes.UnwrapOrErr(fmt.Errorf("none"))
	b2, ok2 := i.BitcoinKey2Bytes.UnwrapOrErr(fmt.Errorf("none"))
	if ok1 != nil || ok2 != nil {
		return 2
	}
	a.BitcoinKey1, a.BitcoinKey2 = b1, b2
	data := c20Signed(a)
	if data == nil {
		return 2
	}
	p := i.AuthProof
	sigs := [][]byte{p.NodeSig1(), p.NodeSig2(), p.BitcoinSig1(), p.BitcoinSig2()}
	keys := [][33]byte{i.NodeKey1Bytes, i.NodeKey2Bytes, b1, b2}
	for k, raw := range sigs {
		s, err := lnwire.NewSigFromECDSARawSignature(raw)
		if err != nil {
			return 2
		}
		if !c20RealVerify(s, keys[k][:], data) {
			return 2
		}
	}
	return 1
}

func (h *c20) selfIdx() int {
	if len(h.privs) == 10 {
		h.privs = append(h.privs, selfKeyPriv)
		h.keyID(h.pub(10))
	}
	return 10
}

func (cs *c20Case) peerKey(i int) *mockPeer {
	return &mockPeer{pk: cs.h.privs[i].PubKey()}
}

// asInit replaces the fixture's waiting-proof store by one on a database the
// case owns (so that it can be re-opened) and sets the proof maturity depth.
func (cs *c20Case) asInit(findChannel bool) *c20AS {
	db := channeldb.OpenForTesting(cs.t, cs.t.TempDir())
	st, err := channeldb.NewWaitingProofStore(db)
	if err != nil {
		cs.t.Fatalf("waiting proof store: %v", err)
	}
	as := &c20AS{db: db, store: st, decl: map[uint64][]byte{}, fc: findChannel}
	cfg := cs.tc.gossiper.cfg
	cfg.WaitingProofStore = st
	cfg.ProofMatureDelta = c20ProofMatureDelta
	cfg.FindChannel = func(_ *btcec.PublicKey, _ lnwire.ChannelID) (*chanstate.OpenChannel, error) {
		if findChannel {
			return nil, nil
		}
		return nil, fmt.Errorf("channel not found")
	}
	cs.h.pf("asc pmd=%d fc=%d", c20ProofMatureDelta, c20b2i(findChannel))
	return as
}

// declare makes the announcement of a channel (with its four valid signatures)
// known to the driver: digest, message id of the full announcement.
func (cs *c20Case) declare(as *c20AS, a *lnwire.ChannelAnnouncement1) {
	raw := c20Wire(a)
	desc, scid := cs.describe(a, raw)
	cs.scids[scid] = true
	as.decl[scid] = c20Signed(a)
	parts := strings.SplitN(desc, " ", 2)
	cs.h.pf("dcl id=%d peer=0 %s", cs.mid(raw), parts[1])
}

// addNoProof: Builder.AddEdge of the channel without an AuthProof.
func (cs *c20Case) addNoProof(a *lnwire.ChannelAnnouncement1) {
	raw := c20Wire(a)
	desc, scid := cs.describe(a, raw)
	cs.scids[scid] = true
	parts := strings.SplitN(desc, " ", 2)
	now := time.Now().UnixNano()
	res := "panic"
	func() {
		defer func() { _ = recover() }()
		edge, err := cs.edgeOf(a)
		if err != nil {
			res = "e_edge"
			return
		}
		edge.AuthProof = nil
		res = c20EdgeRes(cs.builder.AddEdge(context.Background(), edge))
	}()
	relay, rs := cs.settle()
	cs.h.pf("ae id=%d peer=0 %s proof=0 now=%d => res=%s rs=%s relay=%s %s", cs.mid(raw), parts[1], now, res,
		rs, relay, cs.asDump(nil))
}

func (cs *c20Case) waitingDump(as *c20AS) string {
	if as == nil {
		return "W=-"
	}
	var ws []string
	err := as.store.ForAll(func(p *channeldb.WaitingProof) error {
		v1, ok := p.WaitingProofInner.(*channeldb.V1WaitingProof)
		if !ok {
			ws = append(ws, "v2")
			return nil
		}
		k := p.Key()
		ws = append(ws, fmt.Sprintf("%d:%d:%s:%s", v1.ShortChannelID.ToUint64(), k[9],
			cs.h.sigTerm(v1.NodeSignature), cs.h.sigTerm(v1.BitcoinSignature)))
		return nil
	}, func() { ws = nil })
	if err != nil && err != channeldb.ErrWaitingProofNotFound {
		return "W=err"
	}
	if len(ws) == 0 {
		return "W=-"
	}
	sort.Strings(ws)
	return "W=" + strings.Join(ws, "|")
}

func (cs *c20Case) asDump(as *c20AS) string {
	return cs.waitingDump(as) + " " + cs.dump()
}

func c20ASClassify(err error) string {
	if err == nil {
		return "ok"
	}
	m := err.Error()
	switch {
	case strings.Contains(m, "panic while"):
		return "panic"
	case strings.Contains(m, "unable to store the proof"):
		return "e_nochan"
	case strings.Contains(m, "doesn't belong to the peer"):
		return "e_notpeer"
	case strings.Contains(m, "isn't valid"):
		return "e_invalid"
	}
	return "e_other"
}

// half delivers one announcement_signatures message: local (our funding
// manager) or remote from the peer whose identity key is privs[src].
func (cs *c20Case) half(as *c20AS, local bool, src int, m *lnwire.AnnounceSignatures1) {
	h := cs.h
	scid := m.ShortChannelID.ToUint64()
	cs.scids[scid] = true
	data := as.decl[scid]
	vn, vb := []int{}, []int{}
	if data != nil {
		vn = h.verifyingKeys(m.NodeSignature, data)
		vb = h.verifyingKeys(m.BitcoinSignature, data)
	}
	var wireBuf strings.Builder
	fmt.Fprintf(&wireBuf, "as|%d|%d|%x|%x", c20b2i(local), src, m.NodeSignature.RawBytes(), m.BitcoinSignature.RawBytes())
	id := cs.mid([]byte(wireBuf.String() + fmt.Sprint(scid)))
	now := time.Now().UnixNano()
	res := ""
	var fut actor.Future[error]
	func() {
		defer func() {
			if r := recover(); r != nil {
				res = "panic"
			}
		}()
		if local {
			fut = cs.tc.gossiper.ProcessLocalAnnouncement(m)
		} else {
			fut = cs.tc.gossiper.ProcessRemoteAnnouncement(context.Background(), m, cs.peerKey(src))
		}
	}()
	relay, rs := cs.settle()
	if res == "" {
		if gerr, ctxErr := func() (error, error) {
			ctx, cancel := context.WithCancel(context.Background())
			cancel()
			return actor.AwaitFuture[error](ctx, fut)
		}(); ctxErr != nil {
			res = "pending"
		} else {
			res = c20ASClassify(gerr)
		}
	}
	srcKey := h.keyID(h.pub(src))
	if local {
		srcKey = h.keyID(cs.self)
	}
	h.pf("as id=%d loc=%d src=%d scid=%d ns=%s bs=%s vn=%s vb=%s now=%d => res=%s rs=%s relay=%s %s", id,
		c20b2i(local), srcKey, scid, h.sigTerm(m.NodeSignature), h.sigTerm(m.BitcoinSignature),
		c20ints(vn), c20ints(vb), now, res, rs, relay, cs.asDump(as))
}

// reopen: the waiting-proof store is built again from its database (restart).
func (cs *c20Case) reopen(as *c20AS) {
	st, err := channeldb.NewWaitingProofStore(as.db)
	if err != nil {
		cs.t.Fatalf("waiting proof store: %v", err)
	}
	as.store = st
	cs.tc.gossiper.cfg.WaitingProofStore = st
	cs.h.pf("rst => %s", cs.asDump(as))
}

func (cs *c20Case) asBlock(as *c20AS, height uint32) {
	now := time.Now().UnixNano()
	cs.chain.mu.Lock()
	cs.chain.best = int32(height)
	cs.chain.mu.Unlock()
	cs.notif.notifyBlock(*c20HeightHash(int64(height)), height)
	relay, rs := cs.settle()
	cs.h.pf("blk h=%d now=%d => rs=%s relay=%s %s", height, now, rs, relay, cs.asDump(as))
}

func (h *c20) mkHalf(a *lnwire.ChannelAnnouncement1, nodeKey, btcKey int) *lnwire.AnnounceSignatures1 {
	data := c20Signed(a)
	var cid lnwire.ChannelID
	binary.BigEndian.PutUint64(cid[:8], a.ShortChannelID.ToUint64())
	return &lnwire.AnnounceSignatures1{
		ChannelID:        cid,
		ShortChannelID:   a.ShortChannelID,
		NodeSignature:    h.sign(nodeKey, data),
		BitcoinSignature: h.sign(btcKey, data),
	}
}

// caseAnnSig: see the file comment.
func (h *c20) caseAnnSig(variant int) {
	self := h.selfIdx()
	peer := 1 + variant%2 // privs index of the channel peer
	selfFirst := (variant/2)%2 == 0
	c := c20Chan{n1: self, n2: peer, b1: 3, b2: 4, cap: 700_000}
	if !selfFirst {
		c = c20Chan{n1: peer, n2: self, b1: 4, b2: 3, cap: 700_000}
	}
	c.scid = h.scid(uint32(600+variant), uint32(1+variant%3), uint16(variant%4))
	kind := variant % 14
	opts := c20CaseOpts{kind: fmt.Sprintf("annsig-%d", kind)}
	if kind == 9 {
		opts.height = c.scid.BlockHeight + 2
	}
	if kind == 12 {
		opts.assumeValid = true
	}
	selfB, peerB := c.b1, c.b2
	if !selfFirst {
		selfB, peerB = c.b2, c.b1
	}
	h.runCase(opts, func(cs *c20Case) {
		as := cs.asInit(kind != 8)
		cs.goodChain(c)
		a := h.mkCA(c)
		cs.declare(as, a)
		t0 := cs.nowSec() - 600
		good := func(local bool) *lnwire.AnnounceSignatures1 {
			if local {
				return h.mkHalf(a, self, selfB)
			}
			return h.mkHalf(a, peer, peerB)
		}
		ownDir, peerDir := uint8(0), uint8(1)
		if !selfFirst {
			ownDir, peerDir = 1, 0
		}
		setup := func() {
			cs.addNoProof(a)
			cs.entry("ue", h.mkCU(c.scid, c20DefaultUpd(t0, ownDir), self))
			cs.submit(1, h.mkCU(c.scid, c20DefaultUpd(t0+1, peerDir), peer)) // applied, not relayed
			cs.submit(1, h.mkNA(peer, t0, variant%3))                       // applied, not relayed
		}
		finish := func() {
			// now announced: a fresh update of the peer is relayed, a duplicate half is a no-op
			fu := c20DefaultUpd(t0+50, peerDir)
			fu.base = 1500
			cs.submit(1, h.mkCU(c.scid, fu, peer))
			cs.half(as, false, peer, good(false))
		}
		switch kind {
		case 0:
			setup()
			cs.half(as, true, self, good(true))
			cs.half(as, false, peer, good(false))
			finish()
		case 1:
			setup()
			cs.half(as, false, peer, good(false))
			cs.half(as, true, self, good(true))
			finish()
		case 2:
			setup()
			cs.half(as, false, peer, good(false))
			cs.reopen(as)
			cs.half(as, true, self, good(true))
			finish()
		case 3:
			setup()
			cs.half(as, true, self, good(true))
			cs.reopen(as)
			cs.half(as, false, peer, good(false))
			finish()
		case 4: // flipped bit in the peer's node / bitcoin signature
			setup()
			bad := good(false)
			if variant%4 < 2 {
				bad.NodeSignature = c20FlipSig(bad.NodeSignature, 3+variant%20, uint(variant%8))
			} else {
				bad.BitcoinSignature = c20FlipSig(bad.BitcoinSignature, 3+variant%20, uint(variant%8))
			}
			cs.half(as, false, peer, bad)
			cs.half(as, true, self, good(true))
			cs.half(as, false, peer, good(false))
			cs.half(as, true, self, good(true))
			finish()
		case 5: // valid signatures of the wrong keys in the peer's half
			setup()
			cs.half(as, true, self, good(true))
			cs.half(as, false, peer, h.mkHalf(a, peer, peer))   // bitcoin slot signed by the node key
			cs.half(as, false, peer, h.mkHalf(a, peerB, peerB)) // node slot signed by the bitcoin key
			cs.half(as, false, peer, h.mkHalf(a, peer, selfB))  // bitcoin slot signed by OUR bitcoin key
			cs.half(as, false, peer, h.mkHalf(a, 2+variant%2*7, peerB))
			cs.half(as, false, peer, good(false))
			finish()
		case 6: // half from a node that is not in the channel; swapped signatures
			setup()
			cs.half(as, true, self, good(true))
			cs.half(as, false, 5, good(false))
			sw := good(false)
			sw.NodeSignature, sw.BitcoinSignature = sw.BitcoinSignature, sw.NodeSignature
			cs.half(as, false, peer, sw)
			cs.half(as, false, peer, good(false))
			finish()
		case 7: // orphan halves wait for the channel
			cs.half(as, false, peer, good(false))
			setup()
			cs.half(as, true, self, good(true))
			finish()
		case 8: // orphan half for a channel FindChannel does not know
			cs.half(as, false, peer, good(false))
			cs.half(as, true, self, good(true))
			setup()
			cs.half(as, true, self, good(true))
			cs.half(as, false, peer, good(false))
			finish()
		case 9: // premature halves are replayed by the block that makes the proof mature
			setup()
			cs.half(as, false, peer, good(false))
			cs.half(as, true, self, good(true))
			cs.asBlock(as, c.scid.BlockHeight+c20ProofMatureDelta-2)
			cs.half(as, false, peer, good(false)) // one block short of maturity: parked again
			cs.asBlock(as, c.scid.BlockHeight+c20ProofMatureDelta-1)
			finish()
		case 10: // a half for a channel of other nodes that already has its proof
			oc := h.stdChan(variant)
			cs.goodChain(oc)
			oa := h.mkCA(oc)
			cs.submit(2, oa)
			as.decl[oc.scid.ToUint64()] = c20Signed(oa)
			cs.half(as, false, oc.n1, h.mkHalf(oa, oc.n1, oc.b1))
			cs.half(as, false, oc.n2, h.mkHalf(oa, oc.n2, oc.b2))
			cs.half(as, false, 9, h.mkHalf(oa, oc.n2, oc.b2))
		case 11: // the peer's signatures are over another channel's announcement
			setup()
			other := *c20CopyCA(a)
			other.ShortChannelID = h.scid(c.scid.BlockHeight, c.scid.TxIndex+1, c.scid.TxPosition)
			h.signCA(&other, c.n1, c.n2, c.b1, c.b2)
			wrong := h.mkHalf(&other, peer, peerB)
			wrong.ShortChannelID = c.scid
			cs.half(as, false, peer, wrong)
			cs.half(as, true, self, good(true))
			// and over the right channel but with the node ids swapped in the signed data
			sw := *c20CopyCA(a)
			sw.NodeID1, sw.NodeID2 = sw.NodeID2, sw.NodeID1
			wrong2 := h.mkHalf(&sw, peer, peerB)
			cs.half(as, false, peer, wrong2)
			cs.half(as, true, self, good(true))
			cs.half(as, false, peer, good(false))
			cs.half(as, true, self, good(true))
			finish()
		case 12: // AssumeChannelValid waives the chain lookup, never the signatures
			setup()
			bad := good(false)
			bad.BitcoinSignature = c20FlipSig(bad.BitcoinSignature, 9, 2)
			cs.half(as, true, self, good(true))
			cs.half(as, false, peer, bad)
			cs.half(as, false, peer, good(false))
			finish()
		case 13: // duplicates, and our own half corrupted
			setup()
			cs.half(as, false, peer, good(false))
			cs.half(as, false, peer, good(false))
			badL := good(true)
			badL.NodeSignature = c20FlipSig(badL.NodeSignature, 11, 5)
			cs.half(as, true, self, badL)
			cs.half(as, true, self, good(true))
			cs.half(as, false, peer, good(false))
			cs.half(as, true, self, good(true))
			finish()
		}
	})
}
