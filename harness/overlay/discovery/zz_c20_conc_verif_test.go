//go:build verif

package discovery

// C20 — concurrency cases for the graph store's caches (reject cache / channel
// cache in front of the durable store) and the builder's zombie pruning.
//
// The graph store (KVStore on bbolt, or SQLStore on sqlite when the stream is
// built with -tags test_db_sqlite) is opened on a backend wrapper that has
// barriers at transaction begin / end-of-body / end: `r.begin r.mid r.end` for
// read transactions, `w.begin w.pre w.post` for write transactions.  A case
// arms one barrier for one operation (a cache-miss lookup or a graph write)
// and, when the operation reaches it, starts the *other* operation and waits
// until that one either finished ("inside") or every other goroutine of the
// process is parked (it is blocked on the store's lock).  Then the armed
// operation continues.  With a lock discipline that makes "read the durable
// entry + insert it into the cache" atomic w.r.t. writes nothing can finish
// inside; a store that reads outside the lock lets the write finish inside and
// then caches the stale entry.
//
// Afterwards stale / equal / fresh updates are replayed through the real
// gossiper and the builder's own entry points, and every line carries `H=`,
// the store's cache-backed answers, next to the durable graph dump.

import (
	"context"
	"database/sql"
	"fmt"
	"runtime"
	"strings"
	"sync"
	"testing"
	"testing/synctest"
	"time"

	"github.com/btcsuite/btcd/chaincfg/v2"
	"github.com/btcsuite/btcd/chainhash/v2"
	"github.com/lightningnetwork/lnd/fn/v2"
	"github.com/lightningnetwork/lnd/graph"
	graphdb "github.com/lightningnetwork/lnd/graph/db"
	"github.com/lightningnetwork/lnd/graph/db/models"
	"github.com/lightningnetwork/lnd/kvdb"
	"github.com/lightningnetwork/lnd/lnwire"
	"github.com/lightningnetwork/lnd/sqldb"
)

// ---------------------------------------------------------------------------
// barriers

type c20Barrier struct {
	mu    sync.Mutex
	point string
	hook  func()
	fired bool
}

func (b *c20Barrier) arm(point string, hook func()) {
	b.mu.Lock()
	b.point, b.hook, b.fired = point, hook, false
	b.mu.Unlock()
}

func (b *c20Barrier) disarm() bool {
	b.mu.Lock()
	defer b.mu.Unlock()
	b.point, b.hook = "", nil
	return b.fired
}

func (b *c20Barrier) hit(point string) {
	b.mu.Lock()
	if b.hook == nil || b.point != point {
		b.mu.Unlock()
		return
	}
	hk := b.hook
	b.hook, b.point, b.fired = nil, "", true
	b.mu.Unlock()
	hk()
}

// c20KV wraps a kvdb backend (what KVStore and its batch scheduler use).
type c20KV struct {
	kvdb.Backend
	b *c20Barrier
}

func (k *c20KV) View(f func(tx kvdb.RTx) error, reset func()) error {
	k.b.hit("r.begin")
	err := k.Backend.View(func(tx kvdb.RTx) error {
		e := f(tx)
		k.b.hit("r.mid")
		return e
	}, reset)
	k.b.hit("r.end")
	return err
}

func (k *c20KV) Update(f func(tx kvdb.RwTx) error, reset func()) error {
	k.b.hit("w.begin")
	err := k.Backend.Update(func(tx kvdb.RwTx) error {
		e := f(tx)
		k.b.hit("w.pre")
		return e
	}, reset)
	k.b.hit("w.post")
	return err
}

// c20SQL wraps the SQL store's transaction executor.
type c20SQL struct {
	graphdb.BatchedSQLQueries
	b *c20Barrier
}

func (q *c20SQL) ExecTx(ctx context.Context, opts sqldb.TxOptions,
	body func(graphdb.SQLQueries) error, reset func()) error {

	pre, mid, post := "w.begin", "w.pre", "w.post"
	if opts.ReadOnly() {
		pre, mid, post = "r.begin", "r.mid", "r.end"
	}
	q.b.hit(pre)
	err := q.BatchedSQLQueries.ExecTx(ctx, opts, func(db graphdb.SQLQueries) error {
		e := body(db)
		q.b.hit(mid)
		return e
	}, reset)
	q.b.hit(post)
	return err
}

// c20Hooked is one durable graph database that can be (re-)opened: every open
// yields a fresh store object with cold single-entry caches on the same data.
type c20Hooked struct {
	bar  *c20Barrier
	kv   *c20KV
	sqlq *c20SQL
}

func newC20Hooked(t *testing.T) *c20Hooked {
	hb := &c20Hooked{bar: &c20Barrier{}}
	if _, isKV := graphdb.NewTestDB(t).(*graphdb.KVStore); isKV {
		backend, cleanup, err := kvdb.GetTestBackend(t.TempDir(), "cgrc")
		if err != nil {
			t.Fatalf("backend: %v", err)
		}
		t.Cleanup(cleanup)
		hb.kv = &c20KV{Backend: backend, b: hb.bar}
		return hb
	}
	db := sqldb.NewTestSqliteDB(t).BaseDB
	ex := sqldb.NewTransactionExecutor(db, func(tx *sql.Tx) graphdb.SQLQueries {
		return db.WithTx(tx)
	})
	hb.sqlq = &c20SQL{BatchedSQLQueries: ex, b: hb.bar}
	return hb
}

func (hb *c20Hooked) kind() string {
	if hb.kv != nil {
		return "kv"
	}
	return "sql"
}

func (hb *c20Hooked) open(t *testing.T) *graphdb.ChannelGraph {
	var store graphdb.Store
	small := []graphdb.StoreOptionModifier{
		graphdb.WithRejectCacheSize(1), graphdb.WithChannelCacheSize(1),
	}
	if hb.kv != nil {
		kv, err := graphdb.NewKVStore(hb.kv, small...)
		if err != nil {
			t.Fatalf("kv store: %v", err)
		}
		store = kv
	} else {
		s, err := graphdb.NewSQLStore(&graphdb.SQLStoreConfig{
			ChainHash: *chaincfg.MainNetParams.GenesisHash,
			QueryCfg:  sqldb.DefaultSQLiteConfig(),
		}, hb.sqlq, small...)
		if err != nil {
			t.Fatalf("sql store: %v", err)
		}
		store = s
	}
	g, err := graphdb.NewChannelGraph(store, graphdb.WithSyncGraphCachePopulation())
	if err != nil {
		t.Fatalf("graph: %v", err)
	}
	if err := g.Start(); err != nil {
		t.Fatalf("graph start: %v", err)
	}
	t.Cleanup(func() { _ = g.Stop() })
	return g
}

// ---------------------------------------------------------------------------
// "finished or blocked"

var c20StackBuf = make([]byte, 8<<20)

// c20OthersParked: no goroutine other than the caller is running, runnable or
// in a system call.
func c20OthersParked() bool {
	n := runtime.Stack(c20StackBuf, true)
	gs := strings.Split(string(c20StackBuf[:n]), "\n\n")
	for i, g := range gs {
		if i == 0 {
			continue // the calling goroutine comes first
		}
		nl := strings.Index(g, "\n")
		if nl < 0 {
			continue
		}
		hdr := g[:nl]
		lb, rb := strings.Index(hdr, "["), strings.LastIndex(hdr, "]")
		if lb < 0 || rb < lb {
			continue
		}
		st := hdr[lb+1 : rb]
		if c := strings.Index(st, ","); c >= 0 {
			st = st[:c]
		}
		st = strings.TrimSuffix(st, " (durable)")
		switch st {
		case "running", "runnable", "preempted", "copystack", "GC assist marking":
			return false
		case "syscall":
			if !strings.Contains(g, "os/signal.signal_recv") {
				return false
			}
		}
	}
	return true
}

// c20DoneOrParked waits until `done` delivers or everything else is parked.
func c20DoneOrParked(done <-chan string) (string, bool) {
	quiet := 0
	for i := 0; i < 4_000_000; i++ {
		select {
		case r := <-done:
			return r, true
		default:
		}
		runtime.Gosched()
		if i%4 != 3 {
			continue
		}
		if !c20OthersParked() {
			quiet = 0
			continue
		}
		quiet++
		if quiet >= 3 {
			select {
			case r := <-done:
				return r, true
			default:
			}
			return "", false
		}
	}
	return "timeout", false
}

// overlap runs a lookup `rd` and a write `wr` under the schedule `sched` and
// reports the lookup's answer, the write's result, whether the armed barrier
// was reached and whether the attempted operation finished inside it.
func (cs *c20Case) overlap(sched string, rd, wr func() string) (ans, wres string, fired, inside bool) {
	bar := cs.hb.bar
	switch sched {
	case "seq-rw":
		return rd(), wr(), true, false
	case "seq-wr":
		wres = wr()
		return rd(), wres, true, false
	}
	prim, other := rd, wr
	if strings.HasPrefix(sched, "w.") {
		prim, other = wr, rd
	}
	done := make(chan string, 1)
	started := false
	var ores string
	bar.arm(sched, func() {
		started = true
		go func() { done <- other() }()
		ores, inside = c20DoneOrParked(done)
	})
	pres := prim()
	fired = bar.disarm()
	switch {
	case !started:
		ores = other() // the barrier was never reached: plain sequence
	case !inside:
		ores = <-done
	}
	if strings.HasPrefix(sched, "w.") {
		return ores, pres, fired, inside
	}
	return pres, ores, fired, inside
}

// ---------------------------------------------------------------------------
// operations of the stream

// cool makes the store's cache entries cold: mode "restart" re-opens the graph
// store (fresh caches on the same database, new builder), "evict" looks up
// another channel (the caches hold one entry).
func (cs *c20Case) cool(t *testing.T, mode string, otherScid uint64) {
	switch mode {
	case "restart":
		cs.g = cs.hb.open(t)
		cs.wire(t)
	default:
		cs.builder.IsKnownEdge(lnwire.NewShortChanIDFromInt(otherScid))
		for range cs.vg.ChanUpdatesInHorizon(context.Background(),
			graphdb.ChanUpdateRange{
				StartTime: fn.Some(time.Unix(0, 0)), EndTime: fn.Some(time.Unix(1<<40, 0)),
			}) {
		}
	}
	cs.h.pf("cool mode=%s => %s", mode, cs.dumpOpt(false))
}

// addEdge delivers the channel of a (validly signed) announcement through
// Builder.AddEdge, the entry point of locally trusted callers; the edge is
// built exactly like handleChanAnnouncement does (funding data from the real
// validateFundingTransaction).
func (cs *c20Case) edgeOf(a *lnwire.ChannelAnnouncement1) (*models.ChannelEdgeInfo, error) {
	proof := models.NewV1ChannelAuthProof(
		a.NodeSig1.ToSignatureBytes(), a.NodeSig2.ToSignatureBytes(),
		a.BitcoinSig1.ToSignatureBytes(), a.BitcoinSig2.ToSignatureBytes(),
	)
	edge, err := models.NewV1Channel(
		a.ShortChannelID.ToUint64(), a.ChainHash, a.NodeID1, a.NodeID2,
		&models.ChannelV1Fields{
			BitcoinKey1Bytes: a.BitcoinKey1, BitcoinKey2Bytes: a.BitcoinKey2,
			ExtraOpaqueData: a.ExtraOpaqueData,
		}, models.WithChanProof(proof), models.WithFeatures(a.Features),
	)
	if err != nil {
		return nil, err
	}
	op, capacity, script, err := cs.tc.gossiper.validateFundingTransaction(
		context.Background(), a, fn.None[chainhash.Hash](),
	)
	if err != nil {
		return nil, err
	}
	edge.FundingScript = fn.Some(script)
	edge.Capacity = capacity
	edge.ChannelPoint = op
	return edge, nil
}

func c20EdgeRes(err error) string {
	switch {
	case err == nil:
		return "ok"
	case graph.IsError(err, graph.ErrIgnored):
		return "e_ignored"
	case graph.IsError(err, graph.ErrOutdated):
		return "e_outdated"
	}
	return "e_other"
}

// c20Writer describes one graph write: how to run it and how to print it.
type c20Writer struct {
	kind string
	run  func() string
	desc string // symbolic record (everything between the op kind and `=>`)
}

func (cs *c20Case) writerUE(m *lnwire.ChannelUpdate1) c20Writer {
	raw := c20Wire(m)
	desc, scid := cs.describe(m, raw)
	cs.scids[scid] = true
	id := cs.mid(raw)
	parts := strings.SplitN(desc, " ", 2)
	return c20Writer{kind: "ue", desc: fmt.Sprintf("id=%d peer=0 %s", id, parts[1]), run: func() string {
		pol, err := models.ChanEdgePolicyFromWire(m.ShortChannelID.ToUint64(), m)
		if err == nil {
			err = cs.builder.UpdateEdge(context.Background(), pol)
		}
		return c20EdgeRes(err)
	}}
}

func (cs *c20Case) writerAE(a *lnwire.ChannelAnnouncement1) c20Writer {
	raw := c20Wire(a)
	desc, scid := cs.describe(a, raw)
	cs.scids[scid] = true
	id := cs.mid(raw)
	parts := strings.SplitN(desc, " ", 2)
	edge, eerr := cs.edgeOf(a)
	return c20Writer{kind: "ae", desc: fmt.Sprintf("id=%d peer=0 %s", id, parts[1]), run: func() string {
		if eerr != nil {
			return "e_edge"
		}
		return c20EdgeRes(cs.builder.AddEdge(context.Background(), edge))
	}}
}

// writerDel: what Builder.pruneZombieChans does for a channel it found to be a
// zombie: DeleteChannelEdges(strict, markZombie=true) + PruneGraphNodes.
func (cs *c20Case) writerDel(scid uint64, strict bool) c20Writer {
	cs.scids[scid] = true
	return c20Writer{kind: "del", desc: fmt.Sprintf("scid=%d strict=%d", scid, c20b2i(strict)), run: func() string {
		ctx := context.Background()
		if err := cs.vg.DeleteChannelEdges(ctx, strict, true, scid); err != nil {
			return "err"
		}
		if err := cs.g.PruneGraphNodes(ctx); err != nil {
			return "err"
		}
		return "ok"
	}}
}

// writerZmb: Builder.MarkZombieEdge (what the gossiper does for an announcement
// whose funding output is missing / spent).
func (cs *c20Case) writerZmb(scid uint64) c20Writer {
	cs.scids[scid] = true
	return c20Writer{kind: "zmb", desc: fmt.Sprintf("scid=%d k1=0 k2=0", scid), run: func() string {
		if err := cs.builder.MarkZombieEdge(scid); err != nil {
			return "err"
		}
		return "ok"
	}}
}

type c20Reader struct {
	desc string
	run  func() string
}

func (cs *c20Case) reader(kind string, scid lnwire.ShortChannelID, ts uint32, dir uint8) c20Reader {
	id := scid.ToUint64()
	switch kind {
	case "has":
		return c20Reader{desc: fmt.Sprintf("rd=has rscid=%d", id), run: func() string {
			ex, zo, err := cs.vg.HasChannelEdge(context.Background(), id)
			if err != nil {
				return "err"
			}
			return fmt.Sprintf("%d:%d", c20b2i(ex), c20b2i(zo))
		}}
	case "known":
		return c20Reader{desc: fmt.Sprintf("rd=known rscid=%d", id), run: func() string {
			return fmt.Sprintf("%d", c20b2i(cs.builder.IsKnownEdge(scid)))
		}}
	}
	return c20Reader{desc: fmt.Sprintf("rd=stale rscid=%d rts=%d rdir=%d", id, ts, dir), run: func() string {
		return fmt.Sprintf("%d", c20b2i(cs.builder.IsStaleEdgePolicy(
			scid, time.Unix(int64(ts), 0), lnwire.ChanUpdateChanFlags(dir))))
	}}
}

// concOp prints the write's ordinary op line extended by the lookup that was
// overlapped with it.
func (cs *c20Case) concOp(sched string, r c20Reader, w c20Writer) {
	now := time.Now().UnixNano()
	var ans, wres string
	var fired, inside bool
	func() {
		defer func() {
			if rec := recover(); rec != nil {
				wres = "panic"
			}
		}()
		ans, wres, fired, inside = cs.overlap(sched, r.run, w.run)
	}()
	relay, rs := cs.settle()
	cs.h.pf("%s %s now=%d %s sched=%s fired=%d inside=%d ans=%s => res=%s rs=%s relay=%s %s",
		w.kind, w.desc, now, r.desc, sched, c20b2i(fired), c20b2i(inside), ans, wres, rs, relay, cs.dump())
}

// plain write without an overlapped lookup.
func (cs *c20Case) write(w c20Writer) {
	now := time.Now().UnixNano()
	res := "panic"
	func() {
		defer func() { _ = recover() }()
		res = w.run()
	}()
	relay, rs := cs.settle()
	cs.h.pf("%s %s now=%d => res=%s rs=%s relay=%s %s", w.kind, w.desc, now, res, rs, relay, cs.dump())
}

// zombiePrune lets the fake clock pass the builder's next graph-prune tick: the
// real Builder.pruneZombieChans runs.
func (cs *c20Case) zombiePrune() {
	cs.ticks++
	tick := cs.started.Add(time.Duration(cs.ticks) * c20PruneInterval)
	if d := time.Until(tick); d > 0 {
		time.Sleep(d)
	}
	synctest.Wait()
	relay, rs := cs.settle()
	cs.h.pf("zpr now=%d => rs=%s relay=%s %s", tick.UnixNano(), rs, relay, cs.dump())
}

// c20ProbeZombieSlot2 measures on the real store which key DeleteChannelEdges
// with strict zombie pruning records in the second slot of the zombie index for
// a channel whose node2 policy is the older one: 1 = node1's key, 2 = node2's
// key, 0 = probe failed.
func (h *c20) probeZombieSlot2() int {
	ctx := context.Background()
	store := graphdb.NewTestDB(h.t)
	g, err := graphdb.NewChannelGraph(store, graphdb.WithSyncGraphCachePopulation())
	if err != nil || g.Start() != nil {
		return 0
	}
	defer func() { _ = g.Stop() }()
	n1, n2 := h.pub(0), h.pub(1)
	if string(n1[:]) > string(n2[:]) {
		n1, n2 = n2, n1
	}
	edge, err := models.NewV1Channel(4242, c20MainNet, n1, n2, &models.ChannelV1Fields{
		BitcoinKey1Bytes: n1, BitcoinKey2Bytes: n2,
	})
	if err != nil || g.AddChannelEdge(ctx, edge) != nil {
		return 0
	}
	psig := h.sign(0, []byte("c20-probe"))
	for dir, ts := range []int64{2000, 1000} {
		pol := &models.ChannelEdgePolicy{
			Version: lnwire.GossipVersion1, SigBytes: psig.ToSignatureBytes(), ChannelID: 4242,
			LastUpdate: time.Unix(ts, 0), ChannelFlags: lnwire.ChanUpdateChanFlags(dir),
			TimeLockDelta: 10, MinHTLC: 1, FeeBaseMSat: 1, FeeProportionalMillionths: 1,
		}
		if err := g.UpdateEdgePolicy(ctx, pol); err != nil {
			return 0
		}
	}
	vg := graphdb.NewVersionedGraph(g, lnwire.GossipVersion1)
	if err := vg.DeleteChannelEdges(ctx, true, true, 4242); err != nil {
		return 0
	}
	z, _, k2, err := vg.IsZombieEdge(ctx, 4242)
	switch {
	case err != nil || !z:
		return 0
	case k2 == n1:
		return 1
	case k2 == n2:
		return 2
	}
	return 0
}

// ---------------------------------------------------------------------------
// cases

var c20Scheds = []string{"seq-rw", "seq-wr", "r.begin", "r.mid", "r.end", "w.begin", "w.pre", "w.post"}

// caseConc: one (lookup kind, write kind, schedule) triple on a cold cache
// entry, then replays through the real freshness checks.
func (h *c20) caseConc(rk, wk, sched, coolMode string, variant int) {
	c, other := h.stdChan(variant), h.stdChan(variant+1)
	h.runCase(c20CaseOpts{kind: "conc-" + wk, hooked: true, strict: variant%2 == 1}, func(cs *c20Case) {
		cs.withH, cs.focus = true, c.scid.ToUint64()
		t := cs.t
		cs.goodChain(c)
		cs.goodChain(other)
		t0 := cs.nowSec() - 6000
		T1, T2 := t0+100, t0+300
		dir := uint8(variant % 2)
		signer, osigner := c.n1, c.n2
		if dir == 1 {
			signer, osigner = c.n2, c.n1
		}
		mk := func(ts uint32, d uint8, base uint32) *lnwire.ChannelUpdate1 {
			u := c20DefaultUpd(ts, d)
			u.base = base
			s := c.n1
			if d == 1 {
				s = c.n2
			}
			return h.mkCU(c.scid, u, s)
		}
		_ = osigner
		_ = signer
		cs.submit(1, h.mkCA(other))
		cs.submit(1, h.mkCU(other.scid, c20DefaultUpd(t0, 0), other.n1))
		known := wk == "ue" || wk == "del"
		if known {
			cs.submit(1, h.mkCA(c))
			cs.submit(1, mk(T1, dir, 1))
			if variant%3 == 0 {
				cs.submit(1, mk(T1+7, 1-dir, 2))
			}
		}
		cs.cool(t, coolMode, other.scid.ToUint64())

		var w c20Writer
		switch wk {
		case "ue":
			w = cs.writerUE(mk(T2, dir, 3))
		case "ae":
			w = cs.writerAE(h.mkCA(c))
		case "del":
			w = cs.writerDel(c.scid.ToUint64(), cs.opts.strict)
		default:
			w = cs.writerZmb(c.scid.ToUint64())
		}
		cs.concOp(sched, cs.reader(rk, c.scid, T1+50, dir), w)

		// replays through the real freshness checks (at most one update per
		// direction is sent while the channel may be unknown: lnd replays cached
		// premature updates of one direction in goroutine order)
		cs.submit(2, mk(T1+50, dir, 4)) // between the two stored timestamps
		cs.submit(3, h.mkCA(c))         // duplicate / re-announcement
		cs.entry("au", mk(T1+60, dir, 5))
		cs.entry("ue", mk(T1+70, dir, 6))
		cs.submit(2, mk(T2, dir, 7))   // equal to the newer one
		cs.submit(3, mk(T2+1, dir, 8)) // fresh
		cs.submit(3, mk(T1+8, 1-dir, 9))
		cs.submit(4, mk(T2+1, dir, 10)) // equal again
	})
}

// caseZombiePrune: the builder's real zombie pruning (graph-prune ticker) with
// and without strict pruning, then resurrection attempts by either party.
func (h *c20) caseZombiePrune(variant int) {
	c, other := h.stdChan(variant), h.stdChan(variant+2)
	expiry := uint32(graph.DefaultChannelPruneExpiry / time.Second)
	strict := variant%2 == 0
	h.runCase(c20CaseOpts{kind: "zombie-prune", strict: strict, start: true}, func(cs *c20Case) {
		cs.goodChain(c)
		cs.goodChain(other)
		now := cs.nowSec()
		mk := func(ch c20Chan, ts uint32, d uint8, base uint32, signer int) *lnwire.ChannelUpdate1 {
			u := c20DefaultUpd(ts, d)
			u.base = base
			return h.mkCU(ch.scid, u, signer)
		}
		own := func(ch c20Chan, d uint8) int {
			if d == 1 {
				return ch.n2
			}
			return ch.n1
		}
		cs.submit(1, h.mkCA(c))
		cs.submit(1, h.mkCA(other))
		// which direction lags behind (older than the prune expiry at the tick)
		lag := uint8((variant / 2) % 2)
		pi := uint32(c20PruneInterval / time.Second)
		old := now - expiry + pi/2 // stale at the tick (one interval later), accepted now
		switch (variant / 4) % 3 {
		case 0: // both directions known, one lags
			cs.submit(1, mk(c, old, lag, 1, own(c, lag)))
			cs.submit(1, mk(c, now-100, 1-lag, 2, own(c, 1-lag)))
		case 1: // only the lagging direction has ever been seen
			cs.submit(1, mk(c, old, lag, 1, own(c, lag)))
		default: // both lag
			cs.submit(1, mk(c, old, lag, 1, own(c, lag)))
			cs.submit(1, mk(c, old+5, 1-lag, 2, own(c, 1-lag)))
		}
		// the other channel is healthy, or exactly at the boundary
		cs.submit(1, mk(other, now-50, 0, 3, other.n1))
		cs.submit(1, mk(other, now-expiry+pi+uint32(variant%3)-1, 1, 4, other.n2))
		cs.zombiePrune()
		now = cs.nowSec()
		// resurrection attempts: each direction, signed by each party (who tries
		// first alternates: the rightful owner of a direction may be refused, the
		// other party may succeed).  As soon as the zombie entry is gone the
		// channel is re-announced, so at most one update waits for it (lnd
		// replays several cached updates of one direction in goroutine order).
		readded := false
		readd := func() {
			if readded {
				return
			}
			z, _, _, err := cs.vg.IsZombieEdge(context.Background(), c.scid.ToUint64())
			if err == nil && !z {
				cs.submit(4, h.mkCA(c))
				readded = true
			}
		}
		for i, d := range []uint8{1 - lag, lag} {
			signers := []int{own(c, 1-d), own(c, d)}
			if (variant/12+i)%2 == 1 {
				signers[0], signers[1] = signers[1], signers[0]
			}
			for j, s := range signers {
				cs.submit(2+i, mk(c, now-uint32(100-10*i-j), d, uint32(10+2*i+j), s))
				readd()
			}
		}
		cs.submit(4, h.mkCA(c))
		cs.submit(4, mk(c, now, lag, 20, own(c, lag)))
		cs.submit(4, mk(c, now, 1-lag, 21, own(c, 1-lag)))
		cs.zombiePrune()
	})
}

// horizon reports what ChanUpdatesInHorizon (channel cache in front of the
// store; what gossip syncers are answered from) says about the policies of scid.
func (cs *c20Case) horizon(scid uint64, inLoop func()) string {
	var t0, t1 int64
	first := true
	for e, err := range cs.vg.ChanUpdatesInHorizon(context.Background(), graphdb.ChanUpdateRange{
		StartTime: fn.Some(time.Unix(0, 0)), EndTime: fn.Some(time.Unix(1<<40, 0)),
	}) {
		if err != nil {
			return "err"
		}
		if e.Info != nil && e.Info.ChannelID == scid {
			if e.Policy1 != nil {
				t0 = e.Policy1.LastUpdate.Unix()
			}
			if e.Policy2 != nil {
				t1 = e.Policy2.LastUpdate.Unix()
			}
		}
		if first && inLoop != nil {
			first = false
			inLoop()
		}
	}
	return fmt.Sprintf("%d:%d:%d", scid, t0, t1)
}

// caseHorizon: an update is applied while a horizon query is being consumed
// (the consumer of the iterator runs between the store's durable read and its
// channel-cache insert); afterwards the horizon is queried again.
func (h *c20) caseHorizon(variant int) {
	c := h.stdChan(variant)
	h.runCase(c20CaseOpts{kind: "horizon", hooked: true}, func(cs *c20Case) {
		cs.goodChain(c)
		t0 := cs.nowSec() - 6000
		dir := uint8(variant % 2)
		mk := func(ts uint32, d uint8, base uint32) *lnwire.ChannelUpdate1 {
			u := c20DefaultUpd(ts, d)
			u.base = base
			s := c.n1
			if d == 1 {
				s = c.n2
			}
			return h.mkCU(c.scid, u, s)
		}
		cs.submit(1, h.mkCA(c))
		cs.submit(1, mk(t0+100, dir, 1))
		cs.cool(cs.t, "restart", 0)
		during := cs.horizon(c.scid.ToUint64(), func() {
			if variant%2 == 0 {
				cs.entry("ue", mk(t0+300, dir, 2))
			} else {
				cs.submit(2, mk(t0+300, dir, 2))
			}
		})
		after := cs.horizon(c.scid.ToUint64(), nil)
		h.pf("hz during=%s after=%s => %s", during, after, cs.dumpOpt(false))
	})
}

func (h *c20) concCases(thorough bool, seed int64) {
	readers := []string{"has", "known", "stale"}
	writers := []string{"ue", "ae", "del", "zmb"}
	_, isKV := graphdb.NewTestDB(h.t).(*graphdb.KVStore)
	n := 0
	for wi, wk := range writers {
		for ri, rk := range readers {
			for si, sched := range c20Scheds {
				n++
				if !thorough {
					// quick: every pair overlapped after the lookup's durable read
					// (kv: also inside it); the sequential orders, the lookup's
					// begin barrier and the write barriers are sampled by seed
					// (the sqlite store is slower to set up: sparser sample)
					always := sched == "r.end" || (isKV && sched == "r.mid")
					mod := 4
					if !isKV {
						mod = 8
					}
					if !always && (int(seed)+wi+ri+si)%mod != 0 {
						continue
					}
				}
				mode := "restart"
				if (n+int(seed))%2 == 0 {
					mode = "evict"
				}
				h.caseConc(rk, wk, sched, mode, n+int(seed))
			}
		}
	}
	for v := 0; v < 2; v++ {
		h.caseHorizon(v + int(seed))
	}
	nz := 6
	if !isKV {
		nz = 4
	}
	if thorough {
		nz = 24
	}
	for v := 0; v < nz; v++ {
		h.caseZombiePrune(v + int(seed)*2)
	}
}
