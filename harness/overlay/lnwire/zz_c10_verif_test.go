//go:build verif

package lnwire

// C10 harness for the lnwire message layer.  Drives the REAL ReadMessage /
// WriteMessage / DecodeFailure / EncodeFailure for every message type that
// makeEmptyMessage registers with (i) values of the package's own rapid
// generators (RandTestMessage), (ii) structure-aware mutations of their
// encodings, (iii) random bytes; one line per input for drv_c10 lnwire.

import (
	"bufio"
	"bytes"
	"encoding/binary"
	"encoding/hex"
	"fmt"
	"io"
	"math/rand"
	"net"
	"os"
	"reflect"
	"runtime"
	"sort"
	"strconv"
	"strings"
	"testing"
	"unsafe"

	"github.com/btcsuite/btcd/btcec/v2"
	"github.com/lightningnetwork/lnd/tlv"
	"github.com/lightningnetwork/lnd/tor"
	"pgregory.net/rapid"
)

type c10 struct {
	w   *bufio.Writer
	rng *rand.Rand
	n   int
}

func (c *c10) pf(format string, a ...interface{}) { fmt.Fprintf(c.w, format+"\n", a...) }

func c10hx(b []byte) string {
	if len(b) == 0 {
		return "-"
	}
	return hex.EncodeToString(b)
}

func (c *c10) bytes(n int) []byte {
	b := make([]byte, n)
	c.rng.Read(b)
	return b
}

// ---- normalising structural dump (nil == empty; pointers followed) --------

var c10pkType = reflect.TypeOf((*btcec.PublicKey)(nil))

var c10extraType = reflect.TypeOf(ExtraOpaqueData{})

// c10canon writes a normalised structural dump of v.  With skipExtra the raw
// ExtraOpaqueData fields (a byte cache of the extension tail that Encode
// rebuilds from the typed fields) are blanked.
func c10canon(v reflect.Value, sb *strings.Builder, depth int, skipExtra bool) {
	if depth > 40 {
		sb.WriteString("<deep>")
		return
	}
	if !v.IsValid() {
		sb.WriteString("nil")
		return
	}
	if skipExtra && v.Type() == c10extraType {
		sb.WriteString("<extra>")
		return
	}
	switch v.Kind() {
	case reflect.Ptr:
		if v.IsNil() {
			sb.WriteString("nil")
			return
		}
		if v.Type() == c10pkType && v.CanInterface() {
			pk := v.Interface().(*btcec.PublicKey)
			sb.WriteString("pk:" + hex.EncodeToString(pk.SerializeCompressed()))
			return
		}
		sb.WriteString("&")
		c10canon(v.Elem(), sb, depth+1, skipExtra)
	case reflect.Interface:
		if v.IsNil() {
			sb.WriteString("nil")
			return
		}
		sb.WriteString("i(" + v.Elem().Type().String() + ")")
		c10canon(v.Elem(), sb, depth+1, skipExtra)
	case reflect.Struct:
		sb.WriteString("{")
		for i := 0; i < v.NumField(); i++ {
			sb.WriteString(v.Type().Field(i).Name + ":")
			c10canon(v.Field(i), sb, depth+1, skipExtra)
			sb.WriteString(";")
		}
		sb.WriteString("}")
	case reflect.Slice:
		if v.Len() == 0 {
			sb.WriteString("[]")
			return
		}
		fallthrough
	case reflect.Array:
		if v.Type().Elem().Kind() == reflect.Uint8 {
			b := make([]byte, v.Len())
			for i := range b {
				b[i] = byte(v.Index(i).Uint())
			}
			sb.WriteString("x" + hex.EncodeToString(b))
			return
		}
		sb.WriteString("[")
		for i := 0; i < v.Len(); i++ {
			c10canon(v.Index(i), sb, depth+1, skipExtra)
			sb.WriteString(",")
		}
		sb.WriteString("]")
	case reflect.Map:
		if v.Len() == 0 {
			sb.WriteString("{}")
			return
		}
		items := make([]string, 0, v.Len())
		it := v.MapRange()
		for it.Next() {
			var e strings.Builder
			c10canon(it.Key(), &e, depth+1, skipExtra)
			e.WriteString("=>")
			c10canon(it.Value(), &e, depth+1, skipExtra)
			items = append(items, e.String())
		}
		sort.Strings(items)
		sb.WriteString("{" + strings.Join(items, ",") + "}")
	case reflect.Bool:
		fmt.Fprintf(sb, "%v", v.Bool())
	case reflect.Int, reflect.Int8, reflect.Int16, reflect.Int32, reflect.Int64:
		fmt.Fprintf(sb, "%d", v.Int())
	case reflect.Uint, reflect.Uint8, reflect.Uint16, reflect.Uint32, reflect.Uint64, reflect.Uintptr:
		fmt.Fprintf(sb, "%d", v.Uint())
	case reflect.String:
		fmt.Fprintf(sb, "%q", v.String())
	case reflect.Float32, reflect.Float64:
		fmt.Fprintf(sb, "%v", v.Float())
	case reflect.Func:
		if v.IsNil() {
			sb.WriteString("nilfunc")
		} else {
			sb.WriteString("func")
		}
	default:
		sb.WriteString("?" + v.Kind().String())
	}
}

func c10dump(m interface{}) string {
	var sb strings.Builder
	c10canon(reflect.ValueOf(m), &sb, 0, false)
	return sb.String()
}

// c10extras: hex of every ExtraOpaqueData field of m in depth-first order (the
// raw extension-tail cache; the only place where two values with equal typed
// dumps can differ).
func c10extras(v reflect.Value, out *[]string, depth int) {
	if depth > 12 || !v.IsValid() {
		return
	}
	if v.Type() == c10extraType {
		b := make([]byte, v.Len())
		for i := range b {
			b[i] = byte(v.Index(i).Uint())
		}
		*out = append(*out, c10hx(b))
		return
	}
	switch v.Kind() {
	case reflect.Ptr, reflect.Interface:
		if !v.IsNil() {
			c10extras(v.Elem(), out, depth+1)
		}
	case reflect.Struct:
		for i := 0; i < v.NumField(); i++ {
			c10extras(v.Field(i), out, depth+1)
		}
	}
}

func c10extraList(m interface{}) string {
	var out []string
	c10extras(reflect.ValueOf(m), &out, 0)
	if len(out) == 0 {
		return "none"
	}
	return strings.Join(out, ",")
}

func c10dumpTyped(m interface{}) string {
	var sb strings.Builder
	c10canon(reflect.ValueOf(m), &sb, 0, true)
	return sb.String()
}

// ---- operations -------------------------------------------------------------

func (c *c10) caseStart(kind string, mt MessageType) {
	c.n++
	c.pf("CASE %d kind=%s type=%d", c.n, kind, uint16(mt))
}

func (c *c10) caseEnd() {
	c.pf("END")
	if c.n%64 == 0 {
		c.w.Flush()
	}
}

// chain: dec(in) -> v1, enc(v1) -> e1, dec(e1) -> v2, enc(v2) -> e2.
// The structural dumps are taken BEFORE the value is encoded (Encode methods
// may rewrite fields of the message).
func c10chain(dec func([]byte) (interface{}, error), enc func(interface{}) ([]byte, error),
	in []byte) (res string, e1 []byte) {

	var alloc uint64
	defer func() {
		if r := recover(); r != nil {
			res = fmt.Sprintf("panic alloc=%d", alloc)
		}
	}()
	var ms0, ms1 runtime.MemStats
	runtime.ReadMemStats(&ms0)
	v1, err := dec(in)
	runtime.ReadMemStats(&ms1)
	alloc = ms1.TotalAlloc - ms0.TotalAlloc
	if err != nil {
		if um, ok := err.(*UnknownMessage); ok && um != nil {
			return fmt.Sprintf("err unknown alloc=%d", alloc), nil
		}
		return fmt.Sprintf("err alloc=%d", alloc), nil
	}
	d1, t1, x1 := c10dump(v1), c10dumpTyped(v1), c10extraList(v1)
	e1, err = enc(v1)
	if err != nil {
		return fmt.Sprintf("ok encerr alloc=%d", alloc), nil
	}
	v2, err := dec(e1)
	if err != nil {
		return fmt.Sprintf("ok enc=%s redecerr size=%d alloc=%d", c10hx(e1), len(e1), alloc), e1
	}
	d2, t2 := c10dump(v2), c10dumpTyped(v2)
	e2, err := enc(v2)
	fixb, fixv, fixt := 0, 0, 0
	if err == nil && bytes.Equal(e1, e2) {
		fixb = 1
	}
	if d1 == d2 {
		fixv = 1
	}
	if t1 == t2 {
		fixt = 1
	}
	xd := ""
	if fixv == 0 {
		// the raw extension tails of dec(in) and dec(enc(dec in)), for the
		// monitor's classification of what was lost
		xd = fmt.Sprintf(" xd1=%s xd2=%s", x1, c10extraList(v2))
	}
	return fmt.Sprintf("ok enc=%s fixb=%d fixv=%d fixt=%d size=%d alloc=%d%s", c10hx(e1), fixb, fixv, fixt, len(e1), alloc, xd), e1
}

func c10decMsg(b []byte) (interface{}, error) {
	m, err := ReadMessage(bytes.NewReader(b), 0)
	return m, err
}

func c10encMsg(v interface{}) ([]byte, error) {
	var b bytes.Buffer
	_, err := WriteMessage(&b, v.(Message), 0)
	return b.Bytes(), err
}

func c10decFail(b []byte) (interface{}, error) {
	m, err := DecodeFailure(bytes.NewReader(b), 0)
	return m, err
}

func c10encFail(v interface{}) ([]byte, error) {
	var b bytes.Buffer
	err := EncodeFailure(&b, v.(FailureMessage), 0)
	return b.Bytes(), err
}

func (c *c10) msg(kind string, in []byte) {
	if len(in) > 65535 {
		in = in[:65535]
	}
	mt := MessageType(0)
	if len(in) >= 2 {
		mt = MessageType(binary.BigEndian.Uint16(in))
	}
	c.caseStart(kind, mt)
	res, _ := c10chain(c10decMsg, c10encMsg, in)
	c.pf("msg %s => %s", c10hx(in), res)
	c.caseEnd()
}

func (c *c10) fail(kind string, in []byte) {
	c.caseStart(kind, 0)
	res, _ := c10chain(c10decFail, c10encFail, in)
	c.pf("fail %s => %s", c10hx(in), res)
	c.caseEnd()
}

// val: a generated message value: encode, decode, compare.
func (c *c10) val(kind string, mt MessageType, m Message) (out []byte) {
	c.caseStart(kind, mt)
	res := ""
	func() {
		defer func() {
			if r := recover(); r != nil {
				res = "panic"
				out = nil
			}
		}()
		d0 := c10dump(m)
		var b bytes.Buffer
		n, err := WriteMessage(&b, m, 0)
		if err != nil {
			res = "encerr"
			return
		}
		out = append([]byte{}, b.Bytes()...)
		m2, err := ReadMessage(bytes.NewReader(out), 0)
		if err != nil {
			res = fmt.Sprintf("%s decerr size=%d", c10hx(out), n)
			return
		}
		// Encode may rewrite the redundant raw ExtraData field of m from
		// its typed records: equal to the value before OR after encoding.
		rt := 0
		d2 := c10dump(m2)
		if d2 == d0 || d2 == c10dump(m) {
			rt = 1
		}
		res = fmt.Sprintf("%s rt=%d size=%d", c10hx(out), rt, n)
	}()
	c.pf("val %d => %s", uint16(mt), res)
	c.caseEnd()
	return out
}

// ---- TLV helpers (generic, on raw bytes) -----------------------------------

type c10rec struct {
	t uint64
	v []byte
}

func c10big(v uint64, width int) []byte {
	if width == 0 {
		switch {
		case v < 0xfd:
			width = 1
		case v <= 0xffff:
			width = 3
		case v <= 0xffffffff:
			width = 5
		default:
			width = 9
		}
	}
	switch width {
	case 1:
		return []byte{byte(v)}
	case 3:
		b := []byte{0xfd, 0, 0}
		binary.BigEndian.PutUint16(b[1:], uint16(v))
		return b
	case 5:
		b := []byte{0xfe, 0, 0, 0, 0}
		binary.BigEndian.PutUint32(b[1:], uint32(v))
		return b
	}
	b := make([]byte, 9)
	b[0] = 0xff
	binary.BigEndian.PutUint64(b[1:], v)
	return b
}

func c10encRecs(rs []c10rec) []byte {
	var b []byte
	for _, r := range rs {
		b = append(b, c10big(r.t, 0)...)
		b = append(b, c10big(uint64(len(r.v)), 0)...)
		b = append(b, r.v...)
	}
	return b
}

// c10parseTail parses b as a canonical TLV stream of opaque records.
func c10parseTail(b []byte) ([]c10rec, bool) {
	s, err := tlv.NewStream()
	if err != nil {
		return nil, false
	}
	tm, err := s.DecodeWithParsedTypesP2P(bytes.NewReader(b))
	if err != nil {
		return nil, false
	}
	var rs []c10rec
	for t, v := range tm {
		rs = append(rs, c10rec{uint64(t), v})
	}
	sort.Slice(rs, func(i, j int) bool { return rs[i].t < rs[j].t })
	return rs, true
}

// c10tailOffset: smallest offset >= 2 from which the encoding parses as a
// non-empty canonical TLV stream, or len(enc) when there is none.
func c10tailOffset(enc []byte) int {
	for off := 2; off < len(enc); off++ {
		if len(enc)-off > 4096 {
			continue
		}
		if rs, ok := c10parseTail(enc[off:]); ok && len(rs) > 0 {
			return off
		}
	}
	return len(enc)
}

// ---- mutations ---------------------------------------------------------------

func c10cat(parts ...[]byte) []byte { return bytes.Join(parts, nil) }

func (c *c10) mutations(enc []byte, others [][]byte, thorough bool) {
	n := len(enc)
	if n < 2 {
		return
	}
	cp := func() []byte { return append([]byte{}, enc...) }

	// truncations
	cuts := map[int]bool{2: true, n - 1: true}
	for i := 0; i < 4; i++ {
		cuts[2+c.rng.Intn(n-1)] = true
	}
	if thorough && n <= 400 {
		for i := 2; i < n; i++ {
			cuts[i] = true
		}
	}
	for cut := range cuts {
		if cut >= 2 && cut < n {
			c.msg("mut-truncate", enc[:cut])
		}
	}

	// extensions: raw bytes, unknown odd records (below / inside the custom range), even record
	c.msg("mut-extend-raw", c10cat(enc, c.bytes(1+c.rng.Intn(8))))
	c.msg("mut-extend-odd", c10cat(enc, c10encRecs([]c10rec{{0xfff1, c.bytes(c.rng.Intn(6))}})))
	c.msg("mut-extend-custom", c10cat(enc, c10encRecs([]c10rec{{1<<32 + 1, c.bytes(c.rng.Intn(6))}})))
	c.msg("mut-extend-even", c10cat(enc, c10encRecs([]c10rec{{0xfff0, c.bytes(c.rng.Intn(6))}})))
	c.msg("mut-extend-nonmin", c10cat(enc, c10big(0xfff3, 5), []byte{0x00}))
	c.msg("mut-extend-lenlong", c10cat(enc, c10big(0xfff5, 0), []byte{0x05, 1, 2}))

	// byte-level: flips, discriminants, length-looking fields
	for i := 0; i < 6 && n > 2; i++ {
		b := cp()
		var p int
		switch c.rng.Intn(3) {
		case 0:
			p = 2 + c.rng.Intn(n-2+0)
			if p >= n {
				p = n - 1
			}
		case 1: // near the end (TLV tail)
			p = n - 1 - c.rng.Intn(min(n-2, 48)+0)
			if p < 2 {
				p = 2
			}
			if p >= n {
				p = n - 1
			}
		default: // near the start
			p = 2 + c.rng.Intn(min(n-2, 80)+0)
			if p >= n {
				p = n - 1
			}
		}
		if p < 2 || p >= n {
			continue
		}
		switch c.rng.Intn(3) {
		case 0:
			b[p] ^= byte(1 << uint(c.rng.Intn(8)))
			c.msg("mut-flip", b)
		case 1:
			b[p] = []byte{0xfd, 0xfe, 0xff, 0x00, 0xfc, 0x01}[c.rng.Intn(6)]
			c.msg("mut-setbyte", b)
		default:
			b[p] += byte(c.rng.Intn(3)) + 0xff
			c.msg("mut-incdec", b)
		}
	}

	// TLV-tail aware mutations
	off := c10tailOffset(enc)
	if off < n {
		rs, _ := c10parseTail(enc[off:])
		pre := enc[:off]
		pick := func() int { return c.rng.Intn(len(rs)) }
		cpr := func() []c10rec { return append([]c10rec{}, rs...) }
		raw := func(rs []c10rec, i int, tw, lw int, l uint64, lset bool) []byte {
			var b []byte
			for j, r := range rs {
				if j != i {
					b = append(b, c10encRecs([]c10rec{r})...)
					continue
				}
				b = append(b, c10big(r.t, tw)...)
				ll := uint64(len(r.v))
				if lset {
					ll = l
				}
				b = append(b, c10big(ll, lw)...)
				b = append(b, r.v...)
			}
			return b
		}
		if len(rs) >= 2 {
			x := cpr()
			i := c.rng.Intn(len(x) - 1)
			x[i], x[i+1] = x[i+1], x[i]
			c.msg("tlv-swap", c10cat(pre, c10encRecs(x)))
		}
		{
			i := pick()
			x := append(cpr()[:i+1], rs[i:]...)
			c.msg("tlv-dup", c10cat(pre, c10encRecs(x)))
		}
		c.msg("tlv-nonmin-type", c10cat(pre, raw(rs, pick(), []int{3, 5, 9}[c.rng.Intn(3)], 0, 0, false)))
		c.msg("tlv-nonmin-len", c10cat(pre, raw(rs, pick(), 0, []int{3, 5, 9}[c.rng.Intn(3)], 0, false)))
		{
			i := pick()
			c.msg("tlv-len-delta", c10cat(pre, raw(rs, i, 0, 0, uint64(len(rs[i].v))+uint64(c.rng.Intn(5))-2, true)))
		}
		{
			i := pick()
			l := []uint64{65535, 65536, 1 << 32, 1<<63 - 1, 1 << 63, 1<<64 - 1}[c.rng.Intn(6)]
			c.msg("tlv-len-huge", c10cat(pre, raw(rs, i, 0, 0, l, true)))
		}
		{ // drop one record
			i := pick()
			x := append(cpr()[:i], rs[i+1:]...)
			c.msg("tlv-drop", c10cat(pre, c10encRecs(x)))
		}
		{ // resize one record's value
			x := cpr()
			i := pick()
			x[i].v = c.bytes(c.rng.Intn(70))
			c.msg("tlv-resize", c10cat(pre, c10encRecs(x)))
		}
		{ // insert an unknown record in sorted position (odd or even type)
			x := cpr()
			t := uint64(c.rng.Intn(64))
			if c.rng.Intn(3) == 0 {
				t = 65536 + uint64(c.rng.Intn(64))
			}
			dupl := false
			for _, r := range x {
				if r.t == t {
					dupl = true
				}
			}
			if !dupl {
				x = append(x, c10rec{t, c.bytes(c.rng.Intn(12))})
				sort.Slice(x, func(i, j int) bool { return x[i].t < x[j].t })
				c.msg("tlv-insert", c10cat(pre, c10encRecs(x)))
			}
		}
		{ // type of the last record set to 2^64-1, optionally followed by one more
			x := cpr()
			x[len(x)-1].t = 1<<64 - 1
			b := c10encRecs(x)
			if c.rng.Intn(2) == 0 {
				b = append(b, 0x01, 0x00)
			}
			c.msg("tlv-type-max", c10cat(pre, b))
		}
	}

	// splice with another message of the same type
	if len(others) > 0 {
		o := others[c.rng.Intn(len(others))]
		if len(o) > 2 {
			a := 2 + c.rng.Intn(n-1)
			if a > n {
				a = n
			}
			bb := 2 + c.rng.Intn(len(o)-1)
			if bb > len(o) {
				bb = len(o)
			}
			c.msg("mut-splice", c10cat(enc[:a], o[bb:]))
		}
	}
}

// ---- content mutations with valid framing ---------------------------------

var c10elemSizes = []int{1, 2, 4, 8, 16, 32, 33, 64, 66}

// c10grow appends one more "element" of e bytes to v: a copy of the last e
// bytes with the final byte bumped (keeps sorted lists sorted), or random
// bytes when v is shorter than e.
func (c *c10) grow(v []byte, e int) []byte {
	out := append([]byte{}, v...)
	if len(v) >= e {
		el := append([]byte{}, v[len(v)-e:]...)
		if el[e-1] < 0xff {
			el[e-1]++
		}
		return append(out, el...)
	}
	return append(out, c.bytes(e)...)
}

// c10tailOffsets: every offset (>= 2) from which the encoding parses as a
// non-empty canonical TLV stream; the true start of the extension tail and
// each of its record boundaries are among them.  At most the smallest and the
// three largest are returned.
func c10tailOffsets(enc []byte) []int {
	var offs []int
	for off := 2; off < len(enc); off++ {
		if len(enc)-off > 8192 {
			continue
		}
		if rs, ok := c10parseTail(enc[off:]); ok && len(rs) > 0 {
			offs = append(offs, off)
		}
	}
	if len(offs) > 4 {
		offs = append([]int{offs[0]}, offs[len(offs)-3:]...)
	}
	return offs
}

// tlvContent: grow / shrink the VALUE of each record of the extension tail by
// one element of several plausible sizes, keeping type/length framing
// canonical.  Targets cross-field consistency constraints (a record whose
// element count is tied to another field) and per-record length checks.
func (c *c10) tlvContent(enc []byte, thorough bool) {
	for _, off := range c10tailOffsets(enc) {
		rs, _ := c10parseTail(enc[off:])
		pre := enc[:off]
		for i := range rs {
			sizes := []int{1, 8, c10elemSizes[c.rng.Intn(len(c10elemSizes))]}
			if thorough {
				sizes = c10elemSizes
			}
			for _, e := range sizes {
				x := append([]c10rec{}, rs...)
				x[i].v = c.grow(rs[i].v, e)
				c.msg(fmt.Sprintf("tlvval-grow-%d", e), c10cat(pre, c10encRecs(x)))
				if len(rs[i].v) >= e {
					y := append([]c10rec{}, rs...)
					y[i].v = rs[i].v[:len(rs[i].v)-e]
					c.msg(fmt.Sprintf("tlvval-shrink-%d", e), c10cat(pre, c10encRecs(y)))
				}
			}
			// the whole value appended once more as a second, DIFFERENT element (first and
			// last byte bumped): list-valued records of any element size get two distinct
			// elements (address lists, nonce maps, id lists), framing canonical
			if n := len(rs[i].v); n >= 2 && n <= 4096 {
				el := append([]byte{}, rs[i].v...)
				if el[0] < 0xff {
					el[0]++
				}
				if el[n-1] < 0xff {
					el[n-1]++
				}
				x := append([]c10rec{}, rs...)
				x[i].v = append(append([]byte{}, rs[i].v...), el...)
				c.msg("tlvval-dup-elem", c10cat(pre, c10encRecs(x)))
			}
			// the stream ends inside record i: declared length kept, 1 / 2 value bytes missing
			for _, d := range []int{1, 2} {
				if len(rs[i].v) >= d {
					cut := c10cat(pre, c10encRecs(rs[:i+1]))
					c.msg(fmt.Sprintf("tlvrec-last-short-%d", d), cut[:len(cut)-d])
				}
			}
			// first element dropped / duplicated (count changes, framing valid)
			if len(rs[i].v) >= 9 {
				y := append([]c10rec{}, rs...)
				y[i].v = append(append([]byte{}, rs[i].v[:1]...), rs[i].v[9:]...)
				c.msg("tlvval-drop-first-8", c10cat(pre, c10encRecs(y)))
			}
		}
	}
}

// blobContent: the same for u16-length-prefixed blobs of the fixed part
// (encoded id lists, address lists, scripts, payloads): every position whose
// big-endian u16 is a length L > 0 such that the blob ends exactly where the
// message ends or where a canonical TLV tail starts.  The blob grows/shrinks
// by one element and the length prefix is fixed up.
func (c *c10) blobContent(enc []byte, thorough bool) {
	n := len(enc)
	cands := 0
	for p := 2; p+2 < n && cands < 6; p++ {
		l := int(binary.BigEndian.Uint16(enc[p:]))
		end := p + 2 + l
		if l == 0 || end > n || n-end > 8192 {
			continue
		}
		if end < n {
			if _, ok := c10parseTail(enc[end:]); !ok {
				continue
			}
		}
		cands++
		blob := enc[p+2 : end]
		put := func(kind string, nb []byte) {
			if len(nb) > 65535 {
				return
			}
			hdr := []byte{byte(len(nb) >> 8), byte(len(nb))}
			c.msg(kind, c10cat(enc[:p], hdr, nb, enc[end:]))
		}
		sizes := []int{1, 8, c10elemSizes[c.rng.Intn(len(c10elemSizes))]}
		if thorough {
			sizes = c10elemSizes
		}
		for _, e := range sizes {
			put(fmt.Sprintf("blob-grow-%d", e), c.grow(blob, e))
			if len(blob) >= e {
				put(fmt.Sprintf("blob-shrink-%d", e), blob[:len(blob)-e])
			}
		}
		// length prefix off by one with the content untouched
		for _, d := range []int{-1, 1} {
			if l+d >= 0 && l+d <= 65535 {
				b := append([]byte{}, enc...)
				binary.BigEndian.PutUint16(b[p:], uint16(l+d))
				c.msg("blob-len-delta", b)
			}
		}
	}
}

// ---- address lists ([]net.Addr fields) ---------------------------------------

var c10addrSliceType = reflect.TypeOf([]net.Addr(nil))

// c10setAddrs stores addrs into every settable []net.Addr field of m.
func c10setAddrs(v reflect.Value, addrs []net.Addr, depth int) bool {
	if depth > 4 {
		return false
	}
	switch v.Kind() {
	case reflect.Ptr, reflect.Interface:
		if v.IsNil() {
			return false
		}
		return c10setAddrs(v.Elem(), addrs, depth+1)
	case reflect.Struct:
		found := false
		for i := 0; i < v.NumField(); i++ {
			f := v.Field(i)
			if f.Type() == c10addrSliceType && f.CanSet() {
				f.Set(reflect.ValueOf(addrs))
				found = true
			} else if f.Kind() == reflect.Struct || f.Kind() == reflect.Ptr {
				if c10setAddrs(f, addrs, depth+1) {
					found = true
				}
			}
		}
		return found
	}
	return false
}

const c10hostChars = "abcdefghijklmnopqrstuvwxyz0123456789-."

// one address of the given descriptor kind (1 tcp4, 2 tcp6, 3 tor v2, 4 tor v3,
// 5 DNS hostname, 6 unknown type with a payload of random length).
func (c *c10) addr(kind int) net.Addr {
	port := 1 + c.rng.Intn(65535)
	switch kind {
	case 1:
		return &net.TCPAddr{IP: net.IP(c.bytes(4)), Port: port}
	case 2:
		return &net.TCPAddr{IP: net.IP(c.bytes(16)), Port: port}
	case 3:
		return &tor.OnionAddr{
			OnionService: tor.Base32Encoding.EncodeToString(c.bytes(tor.V2DecodedLen)) + tor.OnionSuffix,
			Port:         port,
		}
	case 4:
		return &tor.OnionAddr{
			OnionService: tor.Base32Encoding.EncodeToString(c.bytes(tor.V3DecodedLen)) + tor.OnionSuffix,
			Port:         port,
		}
	case 5:
		l := []int{1, 2, 11, 63, 64, 200, 255}[c.rng.Intn(7)]
		h := make([]byte, l)
		for i := range h {
			h[i] = c10hostChars[c.rng.Intn(len(c10hostChars))]
		}
		return &DNSAddress{Hostname: string(h), Port: uint16(port)}
	}
	pl := []int{0, 1, 2, 5, 30}[c.rng.Intn(5)]
	return &OpaqueAddrs{Payload: append([]byte{byte(6 + c.rng.Intn(250))}, c.bytes(pl)...)}
}

// addrLists: every ordered pair of known descriptor kinds, every known kind
// followed by an unknown-type descriptor (which must come last: it swallows
// the rest of the list), singletons, and a few longer random lists.
func (c *c10) addrLists() [][]net.Addr {
	var out [][]net.Addr
	for a := 1; a <= 6; a++ {
		out = append(out, []net.Addr{c.addr(a)})
		if a == 6 {
			continue
		}
		for b := 1; b <= 6; b++ {
			out = append(out, []net.Addr{c.addr(a), c.addr(b)})
		}
	}
	for i := 0; i < 6; i++ {
		var l []net.Addr
		for j := c.rng.Intn(6); j >= 0; j-- {
			l = append(l, c.addr(1+c.rng.Intn(5)))
		}
		if c.rng.Intn(2) == 0 {
			l = append(l, c.addr(6))
		}
		out = append(out, l)
	}
	return out
}

// addrBlobMutations: byte-level edits of the address list inside a valid
// encoding: after every descriptor insert an unknown-type descriptor / a
// padding (type 0) descriptor, cut inside a descriptor, all with the u16
// length fixed up.
func (c *c10) addrBlobMutations(enc []byte, addrs []net.Addr) {
	var whole bytes.Buffer
	if err := WriteNetAddrs(&whole, addrs); err != nil || whole.Len() <= 2 {
		return
	}
	p := bytes.Index(enc, whole.Bytes())
	if p < 0 {
		return
	}
	blob := whole.Bytes()[2:]
	end := p + 2 + len(blob)
	put := func(kind string, nb []byte) {
		hdr := []byte{byte(len(nb) >> 8), byte(len(nb))}
		c.msg(kind, c10cat(enc[:p], hdr, nb, enc[end:]))
	}
	pos := 0
	for _, a := range addrs {
		var one bytes.Buffer
		if err := WriteNetAddrs(&one, []net.Addr{a}); err != nil {
			return
		}
		pos += one.Len() - 2
		if pos > len(blob) {
			return
		}
		unk := append([]byte{byte(6 + c.rng.Intn(250))}, c.bytes([]int{0, 1, 3}[c.rng.Intn(3)])...)
		put("addr-insert-unknown", c10cat(blob[:pos], unk, blob[pos:]))
		put("addr-unknown-last", c10cat(blob[:pos], unk))
		put("addr-insert-pad", c10cat(blob[:pos], []byte{0}, blob[pos:]))
		if pos >= 2 {
			put("addr-cut", blob[:pos-1-c.rng.Intn(2)])
		}
	}
}

// ---- record decoder probes ----------------------------------------------------

// every type of the package with a `Record() tlv.Record` method.  via=1: the
// decoder delegates to tlv.DBigSize.
type c10prod struct {
	name string
	via  int
	mk   func() tlv.RecordProducer
}

var c10producers = []c10prod{
	{"BlindedPath", 0, func() tlv.RecordProducer { return &BlindedPath{} }},
	{"BlindedPaths", 0, func() tlv.RecordProducer { return &BlindedPaths{} }},
	{"ChannelID", 0, func() tlv.RecordProducer { return &ChannelID{} }},
	{"DynHeight", 0, func() tlv.RecordProducer { return new(DynHeight) }},
	{"ChannelType", 0, func() tlv.RecordProducer { return (*ChannelType)(NewRawFeatureVector()) }},
	{"ChanUpdateDisableFlags", 0, func() tlv.RecordProducer { return new(ChanUpdateDisableFlags) }},
	{"TrueBoolean", 0, func() tlv.RecordProducer { return &TrueBoolean{} }},
	{"DNSAddress", 0, func() tlv.RecordProducer { return &DNSAddress{} }},
	{"RawFeatureVector", 0, func() tlv.RecordProducer { return NewRawFeatureVector() }},
	{"FeatureVector", 0, func() tlv.RecordProducer { return NewFeatureVector(NewRawFeatureVector(), nil) }},
	{"LocalNoncesData", 0, func() tlv.RecordProducer { return &LocalNoncesData{} }},
	{"MilliSatoshi", 1, func() tlv.RecordProducer { return new(MilliSatoshi) }},
	{"Musig2Nonce", 0, func() tlv.RecordProducer { return &Musig2Nonce{} }},
	{"NodeAlias2", 0, func() tlv.RecordProducer { return new(NodeAlias2) }},
	{"Color", 0, func() tlv.RecordProducer { return &Color{} }},
	{"IPV4Addrs", 0, func() tlv.RecordProducer { return new(IPV4Addrs) }},
	{"IPV6Addrs", 0, func() tlv.RecordProducer { return new(IPV6Addrs) }},
	{"TorV3Addrs", 0, func() tlv.RecordProducer { return new(TorV3Addrs) }},
	{"OutPoint", 0, func() tlv.RecordProducer { return &OutPoint{} }},
	{"PartialSig", 0, func() tlv.RecordProducer { return &PartialSig{} }},
	{"PartialSigWithNonce", 0, func() tlv.RecordProducer { return &PartialSigWithNonce{} }},
	{"QueryOptions", 0, func() tlv.RecordProducer { return (*QueryOptions)(NewRawFeatureVector()) }},
	{"ShortChannelID", 0, func() tlv.RecordProducer { return &ShortChannelID{} }},
	{"Sig", 0, func() tlv.RecordProducer { return &Sig{} }},
	{"Timestamps", 0, func() tlv.RecordProducer { return new(Timestamps) }},
	{"DeliveryAddress", 0, func() tlv.RecordProducer { return new(DeliveryAddress) }},
	{"Fee", 0, func() tlv.RecordProducer { return &Fee{} }},
	{"LeaseExpiry", 0, func() tlv.RecordProducer { return new(LeaseExpiry) }},
}

type c10cr struct {
	r *bytes.Reader
	n int
}

func (c *c10cr) Read(p []byte) (int, error) {
	k, err := c.r.Read(p)
	c.n += k
	return k, err
}

var _ io.Reader = (*c10cr)(nil)

// probe: one record decoder called with declared length l on a reader that
// holds more bytes; reports the bytes consumed.  tlv.Stream.decode trusts the
// decoder to consume exactly l.  Returns (accepted, consumed).
func (c *c10) probe(p c10prod, in []byte, l uint64, emit bool) (bool, int) {
	ok, used, res := false, 0, ""
	func() {
		defer func() {
			if r := recover(); r != nil {
				res = "panic"
			}
		}()
		rec := p.mk().Record()
		cr := &c10cr{r: bytes.NewReader(in)}
		err := rec.Decode(cr, l)
		used = cr.n
		if err != nil {
			res = fmt.Sprintf("err used=%d", cr.n)
			return
		}
		ok = true
		res = fmt.Sprintf("ok used=%d", cr.n)
	}()
	if emit {
		c.caseStart("probe", 0)
		c.pf("probe lnwire_%s via=%d l=%d %s => %s", p.name, p.via, l, c10hx(in), res)
		c.caseEnd()
	}
	return ok, used
}

// probeAround: sample is (believed to be) a value of p; declared lengths
// around its true length, with surplus bytes available on the reader.
func (c *c10) probeAround(p c10prod, sample []byte) {
	in := append(append([]byte{}, sample...), c.bytes(12)...)
	n := uint64(len(sample))
	for _, l := range []uint64{n, n + 1, n + 2, n + 8, 0} {
		c.probe(p, in, l, true)
	}
	if n > 0 {
		c.probe(p, in, n-1, true)
	}
}

func (c *c10) probes(harvest [][]byte, thorough bool) {
	for _, p := range c10producers {
		// (a) the zero value's own encoding
		func() {
			defer func() { _ = recover() }()
			var b bytes.Buffer
			rec := p.mk().Record()
			if err := rec.Encode(&b); err == nil {
				c.probeAround(p, b.Bytes())
			}
		}()
		// (b) record values harvested from generated messages that this
		// decoder accepts in full
		hits := 0
		for _, v := range harvest {
			if hits >= 4 && !thorough {
				break
			}
			if ok, used := c.probe(p, v, uint64(len(v)), false); ok && used == len(v) && len(v) > 0 {
				hits++
				c.probeAround(p, v)
			}
		}
		// (c) random bytes of typical sizes
		for _, n := range []int{0, 1, 2, 3, 4, 8, 9, 12, 32, 33, 34, 64, 66, 98} {
			in := c.bytes(n + 8)
			c.probe(p, in, uint64(n), true)
			if thorough {
				c.probe(p, in, uint64(n+1), true)
			}
		}
	}
}

// sizeBoundary: pad a valid encoding up to the 65535 limit with one unknown
// record / raw bytes so that the total hits 65533..65535 exactly.
// ---- boundary feature vectors (generic, by reflection) ---------------------

var c10rfvType = reflect.TypeOf(RawFeatureVector{})

// c10featVecs collects every feature vector reachable from v: values of type
// RawFeatureVector or of a type defined on it (ChannelType, QueryOptions, …),
// held by value, by pointer, inside tlv.RecordT / fn.Option wrappers
// (unexported fields are reached through their address).  The message must
// have been passed by pointer so that its fields are addressable.
func c10featVecs(v reflect.Value, out *[]*RawFeatureVector, depth int) {
	if depth > 14 || !v.IsValid() {
		return
	}
	switch v.Kind() {
	case reflect.Ptr, reflect.Interface:
		if !v.IsNil() {
			c10featVecs(v.Elem(), out, depth+1)
		}
	case reflect.Struct:
		if v.Type().ConvertibleTo(c10rfvType) && v.CanAddr() {
			fv := (*RawFeatureVector)(unsafe.Pointer(v.UnsafeAddr()))
			*out = append(*out, fv)
			return
		}
		// an absent optional (fn.Option with isSome == false) holds no value:
		// what lies inside it is not part of the message value
		if f := v.FieldByName("isSome"); f.IsValid() && f.Kind() == reflect.Bool &&
			strings.HasPrefix(v.Type().Name(), "Option[") && !f.Bool() {

			return
		}
		for i := 0; i < v.NumField(); i++ {
			c10featVecs(v.Field(i), out, depth+1)
		}
	}
}

// c10featSets: sets of feature bits around every boundary of the encoding
// (byte boundaries at both ends of the uint16 bit-index space; the largest
// vector has 8192 bytes = bit 65535).
var c10featSets = [][]FeatureBit{
	{65535}, {65528}, {65527}, {0, 65535}, {65534, 7, 8}, {65519, 65520},
	{32767, 32768}, {255, 256}, {2047}, {2048},
}

// featureBoundaries: the generated value `mk()` with every feature vector it
// holds set to boundary bit sets, as a value (lossless round trip) and as
// bytes (canonical fixpoint).  Any set of 16-bit feature bits is a well-formed
// vector, so these are well-formed values.  Returns false when the value holds
// no feature vector.
func (c *c10) featureBoundaries(mt MessageType, mk func() Message, sets [][]FeatureBit) bool {
	found := false
	for _, set := range sets {
		m := mk()
		if m == nil {
			return found
		}
		var fvs []*RawFeatureVector
		c10featVecs(reflect.ValueOf(m), &fvs, 0)
		if len(fvs) == 0 {
			return false
		}
		found = true
		for _, fv := range fvs {
			fv.features = make(map[FeatureBit]struct{}, len(set))
			for _, b := range set {
				fv.features[b] = struct{}{}
			}
		}
		if enc := c.val("gen-feat", mt, m); enc != nil {
			c.msg("valid", enc)
		}
	}
	return found
}

// ---- onion failure VALUES with boundary integers ---------------------------

var c10u64Bounds = []uint64{0, 1, 0xfc, 0xfd, 0xfe, 0xff, 0x100, 0xffff, 0x10000, 0x10001,
	0xffffffff, 0x100000000, 0x100000001, 1<<63 - 1, 1 << 63, 1<<64 - 2, 1<<64 - 1}

// c10setUints sets every unsigned-integer field at the top level of the failure
// struct (exported or not; nested messages such as the channel_update are left
// alone) to v truncated to the field's width.  Every such field of every
// failure message is an unconstrained integer, so the result is well-formed.
func c10setUints(fm FailureMessage, v uint64) bool {
	rv := reflect.ValueOf(fm)
	if rv.Kind() != reflect.Ptr || rv.IsNil() || rv.Elem().Kind() != reflect.Struct {
		return false
	}
	st := rv.Elem()
	any := false
	for i := 0; i < st.NumField(); i++ {
		f := st.Field(i)
		switch f.Kind() {
		case reflect.Uint8, reflect.Uint16, reflect.Uint32, reflect.Uint64:
			reflect.NewAt(f.Type(), unsafe.Pointer(f.UnsafeAddr())).Elem().SetUint(v)
			any = true
		}
	}
	return any
}

func c10cloneFail(fm FailureMessage) FailureMessage {
	rv := reflect.ValueOf(fm)
	n := reflect.New(rv.Elem().Type())
	n.Elem().Set(rv.Elem())
	return n.Interface().(FailureMessage)
}

// fval: an onion failure VALUE: EncodeFailure, DecodeFailure, compare.
func (c *c10) fval(kind string, fm FailureMessage) (out []byte) {
	c.caseStart(kind, 0)
	res := ""
	func() {
		defer func() {
			if r := recover(); r != nil {
				res = "panic"
				out = nil
			}
		}()
		d0 := c10dump(fm)
		var b bytes.Buffer
		if err := EncodeFailure(&b, fm, 0); err != nil {
			res = "encerr"
			return
		}
		out = append([]byte{}, b.Bytes()...)
		fm2, err := DecodeFailure(bytes.NewReader(out), 0)
		if err != nil {
			res = fmt.Sprintf("%s decerr size=%d", c10hx(out), len(out))
			return
		}
		rt := 0
		d2 := c10dump(fm2)
		if d2 == d0 || d2 == c10dump(fm) {
			rt = 1
		}
		res = fmt.Sprintf("%s rt=%d size=%d", c10hx(out), rt, len(out))
	}()
	c.pf("fval %d => %s", uint16(fm.Code()), res)
	c.caseEnd()
	return out
}

// c10frameFail wraps an inner failure message like EncodeFailure does (without
// its 256-byte limit).
func c10frameFail(inner []byte) []byte {
	pad := 0
	if len(inner) < FailureMessageLength {
		pad = FailureMessageLength - len(inner)
	}
	return c10cat([]byte{byte(len(inner) >> 8), byte(len(inner))}, inner,
		[]byte{byte(pad >> 8), byte(pad)}, make([]byte, pad))
}

// failUpdateVariants: structure-aware edits of the channel_update embedded in a
// canonical failure encoding.  The update is located generically: a u16 length
// that reaches exactly the end of the inner message, followed by the 2-byte
// message type of channel_update (what writeOnionErrorChanUpdate writes).
func (c *c10) failUpdateVariants(enc []byte) {
	if len(enc) < 6 {
		return
	}
	l := int(binary.BigEndian.Uint16(enc))
	if 2+l > len(enc) {
		return
	}
	inner := enc[2 : 2+l]
	for pos := 2; pos+4 <= len(inner); pos++ {
		ul := int(binary.BigEndian.Uint16(inner[pos:]))
		if pos+2+ul != len(inner) || inner[pos+2] != 0x01 || inner[pos+3] != 0x02 {
			continue
		}
		head, upd := inner[:pos], inner[pos+4:] // upd: update body without the type prefix
		mk := func(declared int, body ...[]byte) []byte {
			return c10frameFail(c10cat(head, []byte{byte(declared >> 8), byte(declared)}, c10cat(body...)))
		}
		typ := []byte{0x01, 0x02}
		// compatibility mode: no type prefix
		c.fail("fail-upd-noprefix", mk(len(upd), upd))
		// declared length beyond / short of the data that is there
		for _, d := range []int{1, 2, 9, 1000, 65535 - ul} {
			c.fail("fail-upd-len-long", mk(ul+d, typ, upd))
		}
		for _, d := range []int{1, 2, 3, 8, 9, ul - 3, ul - 2, ul - 1, ul} {
			if d >= 0 && d <= ul {
				c.fail("fail-upd-len-short", mk(ul-d, typ, upd))
			}
		}
		// surplus bytes after the update inside the inner message
		c.fail("fail-upd-surplus", mk(ul, typ, upd, c.bytes(1+c.rng.Intn(20))))
		// extension records appended to the update's TLV tail (types above the
		// known 55555 so that the stream stays canonical), length fixed up: the
		// inner message crosses the 256-byte limit of EncodeFailure
		for _, extLen := range []int{0, 1, 40, 255 - len(inner) - 5, 256 - len(inner) - 5, 257 - len(inner) - 5, 300} {
			if extLen < 0 {
				continue
			}
			for _, t := range []uint64{55557, 55558} {
				ext := c10encRecs([]c10rec{{t, c.bytes(extLen)}})
				c.fail("fail-upd-ext", mk(ul+len(ext), typ, upd, ext))
				c.fail("fail-upd-ext-noprefix", mk(len(upd)+len(ext), upd, ext))
			}
		}
		// inbound-fee record (known type 55555, 8 bytes) present / wrong length
		for _, n := range []int{8, 7, 9} {
			ext := c10encRecs([]c10rec{{55555, c.bytes(n)}})
			c.fail("fail-upd-known-rec", mk(ul+len(ext), typ, upd, ext))
		}
		// message-flags bit 0 (max-HTLC field present) toggled: the body is 8 bytes
		// longer / shorter than the flag says
		if len(upd) > 108 {
			u2 := append([]byte{}, upd...)
			u2[108] ^= 1
			c.fail("fail-upd-flag", mk(ul, typ, u2))
			if u2[108]&1 == 1 {
				u3 := c10cat(u2[:128], c.bytes(8), u2[128:])
				c.fail("fail-upd-flag-fit", mk(ul+8, typ, u3))
			} else if len(u2) >= 136 {
				u3 := c10cat(u2[:128], u2[136:])
				c.fail("fail-upd-flag-fit", mk(ul-8, typ, u3))
			}
		}
		// an update whose own first two bytes are 0102 without the prefix
		// (signature starting with 0102): read as a prefix by the decoder
		if len(upd) >= 2 {
			u2 := append([]byte{}, upd...)
			u2[0], u2[1] = 0x01, 0x02
			c.fail("fail-upd-sig0102", mk(len(u2), u2))
			c.fail("fail-upd-sig0102", mk(ul, typ, u2))
		}
		return
	}
}

// failPayloadVariants: the inner message (code ‖ payload) cut at every length,
// and extended, with matching framing: optional tack-on fields
// (incorrect_or_unknown_payment_details) and partial fields.
func (c *c10) failPayloadVariants(enc []byte, thorough bool) {
	if len(enc) < 4 {
		return
	}
	l := int(binary.BigEndian.Uint16(enc))
	if 2+l > len(enc) || l > 64 && !thorough {
		return
	}
	inner := enc[2 : 2+l]
	for k := 0; k <= len(inner) && k <= 64; k++ {
		c.fail("fail-inner-cut", c10frameFail(inner[:k]))
	}
	c.fail("fail-inner-ext", c10frameFail(c10cat(inner, c.bytes(1+c.rng.Intn(8)))))
}

func (c *c10) sizeBoundary(enc []byte, thorough bool) {
	totals := []int{65535}
	if thorough {
		totals = []int{65533, 65534, 65535}
	}
	for _, total := range totals {
		room := total - len(enc)
		if room < 8 {
			continue
		}
		// record header: type 0xfff1 (3 bytes) + len (3 bytes) + value
		vlen := room - 6
		rec := c10cat(c10big(0xfff1, 0), c10big(uint64(vlen), 3), make([]byte, vlen))
		c.msg(fmt.Sprintf("size-%d-tlv", total), c10cat(enc, rec))
	}
	c.msg("size-65535-raw", c10cat(enc, c.bytes(65535-len(enc))))
}

func TestVerifC10(t *testing.T) {
	out := os.Getenv("VERIF_OUT")
	if out == "" {
		t.Skip("VERIF_OUT not set")
	}
	seed, _ := strconv.ParseInt(os.Getenv("VERIF_SEED"), 10, 64)
	thorough := os.Getenv("VERIF_TIER") == "thorough"
	f, err := os.Create(out)
	if err != nil {
		t.Fatal(err)
	}
	defer f.Close()
	c := &c10{w: bufio.NewWriterSize(f, 1<<20), rng: rand.New(rand.NewSource(seed))}
	defer c.w.Flush()

	c.pf("FACT maxMsgBody=%d maxSliceLength=%d failureMessageLength=%d msgEnd=%d customTypeStart=%d",
		MaxMsgBody, MaxSliceLength, FailureMessageLength, uint16(MsgEnd), uint16(CustomTypeStart))

	// every registered message type
	var types []MessageType
	for mt := MessageType(0); mt < MsgEnd; mt++ {
		if _, err := makeEmptyMessage(mt); err == nil {
			types = append(types, mt)
		}
	}
	types = append(types, CustomTypeStart+7)
	ts := make([]string, len(types))
	for i, mt := range types {
		ts[i] = strconv.Itoa(int(mt))
	}
	c.pf("FACT types=%s", strings.Join(ts, ","))

	nGen, nMutated, nContent := 10, 4, 10
	if thorough {
		nGen, nMutated, nContent = 250, 80, 60
	}

	var harvest [][]byte
	seenVal := map[string]bool{}
	for ti, mt := range types {
		mt := mt
		gen := rapid.Custom(func(rt *rapid.T) Message {
			m, err := makeEmptyMessage(mt)
			if err != nil {
				panic(err)
			}
			return m.(TestMessage).RandTestMessage(rt)
		})
		var encs [][]byte
		addrSeed := -1
		for i := 0; i < nGen; i++ {
			var m Message
			func() {
				defer func() {
					if r := recover(); r != nil {
						m = nil
					}
				}()
				m = gen.Example(int(seed)*1000003 + ti*1009 + i)
			}()
			if m == nil {
				continue
			}
			enc := c.val("gen", mt, m)
			if enc == nil {
				continue
			}
			encs = append(encs, enc)
			c.msg("valid", enc)
			if c10setAddrs(reflect.ValueOf(m), nil, 0) && addrSeed < 0 {
				addrSeed = int(seed)*1000003 + ti*1009 + i
			}
		}
		// messages with []net.Addr fields: address lists composed of all
		// descriptor kinds in all orders (the package generator only
		// produces tcp4/tcp6), as values and as byte-level edits.
		if addrSeed >= 0 {
			lists := c.addrLists()
			if !thorough {
				c.rng.Shuffle(len(lists), func(i, j int) { lists[i], lists[j] = lists[j], lists[i] })
			}
			for li, addrs := range lists {
				var m Message
				func() {
					defer func() {
						if r := recover(); r != nil {
							m = nil
						}
					}()
					m = gen.Example(addrSeed)
				}()
				if m == nil || !c10setAddrs(reflect.ValueOf(m), addrs, 0) {
					break
				}
				enc := c.val("gen-addrs", mt, m)
				if enc == nil {
					continue
				}
				c.msg("valid", enc)
				if thorough || li < 12 {
					c.addrBlobMutations(enc, addrs)
				}
			}
		}
		// boundary feature vectors in every message value that holds one
		{
			nFeat, maxFeat := 0, 2
			if thorough {
				maxFeat = 6
			}
			for i := 0; i < nGen && nFeat < maxFeat; i++ {
				s := int(seed)*1000003 + ti*1009 + i
				mk := func() (m Message) {
					defer func() {
						if r := recover(); r != nil {
							m = nil
						}
					}()
					return gen.Example(s)
				}
				sets := c10featSets
				if !thorough {
					k := 4 + (int(seed)+ti+i)%(len(c10featSets)-5)
					sets = append(append([][]FeatureBit{}, c10featSets[:4]...), c10featSets[k:k+2]...)
				}
				if c.featureBoundaries(mt, mk, sets) {
					nFeat++
				} else if i >= 3 {
					break
				}
			}
		}
		// content mutations with valid framing, on every generated encoding
		for i, enc := range encs {
			if i >= nContent {
				break
			}
			for _, off := range c10tailOffsets(enc) {
				rs, _ := c10parseTail(enc[off:])
				for _, r := range rs {
					if k := string(r.v); !seenVal[k] && len(r.v) <= 2048 && len(harvest) < 400 {
						seenVal[k] = true
						harvest = append(harvest, r.v)
					}
				}
			}
			c.tlvContent(enc, thorough)
			c.blobContent(enc, thorough)
		}
		// the empty message of the type (all-zero value) is also a value
		if m, err := makeEmptyMessage(mt); err == nil {
			if enc := c.val("gen-empty", mt, m); enc != nil {
				encs = append(encs, enc)
				c.msg("valid-empty", enc)
			}
		}
		for i, enc := range encs {
			if i >= nMutated {
				break
			}
			c.mutations(enc, encs, thorough)
		}
		if len(encs) > 0 {
			c.sizeBoundary(encs[0], thorough)
		}
		// random bodies
		nr := 12
		if thorough {
			nr = 150
		}
		for i := 0; i < nr; i++ {
			var l int
			switch c.rng.Intn(4) {
			case 0:
				l = c.rng.Intn(16)
			case 1:
				l = c.rng.Intn(200)
			case 2:
				l = c.rng.Intn(2000)
			default:
				if len(encs) > 0 {
					l = len(encs[0]) - 2 + c.rng.Intn(5) - 2
					if l < 0 {
						l = 0
					}
				}
			}
			b := make([]byte, 2+l)
			binary.BigEndian.PutUint16(b, uint16(mt))
			c.rng.Read(b[2:])
			c.msg("random", b)
		}
		// all-0xff and all-zero bodies of the nominal size
		if len(encs) > 0 {
			for _, fill := range []byte{0x00, 0xff} {
				b := bytes.Repeat([]byte{fill}, len(encs[0])+40)
				binary.BigEndian.PutUint16(b, uint16(mt))
				c.msg("fill", b)
			}
		}
	}
	// every record decoder of the package: bytes consumed == declared length
	c.probes(harvest, thorough)

	// values at the 65535-byte limit: body of exactly MaxMsgBody must be
	// written and read back, one byte more must be refused by WriteMessage.
	{
		mk := func(n int) []byte { return make([]byte, n) }
		cust := func(n int) Message {
			m, err := NewCustom(CustomTypeStart+7, mk(n))
			if err != nil {
				panic(err)
			}
			return m
		}
		fit := []Message{
			&Ping{NumPongBytes: 1, PaddingBytes: mk(MaxMsgBody - 4)},
			&UpdateFee{ExtraData: mk(MaxMsgBody - 36)},
			&Error{Data: mk(MaxMsgBody - 34)},
			&Pong{PongBytes: mk(MaxMsgBody - 2)},
			cust(MaxMsgBody),
		}
		big := []Message{
			&Ping{NumPongBytes: 1, PaddingBytes: mk(MaxMsgBody - 4 + 1)},
			&Ping{NumPongBytes: 1, PaddingBytes: mk(65535)},
			&UpdateFee{ExtraData: mk(MaxMsgBody - 36 + 1)},
			&UpdateFee{ExtraData: mk(MaxMsgBody - 36 + 2)},
			&Error{Data: mk(MaxMsgBody - 34 + 1)},
			&Error{Data: mk(65535)},
			&Pong{PongBytes: mk(MaxMsgBody - 2 + 1)},
			&UpdateFailHTLC{Reason: mk(65535), ExtraData: mk(70000)},
			cust(MaxMsgBody + 1),
			cust(MaxMsgBody + 3),
		}
		for _, m := range fit {
			c.val("gen-fit", m.MsgType(), m)
		}
		for _, m := range big {
			c.val("gen-big", m.MsgType(), m)
		}
	}

	// unknown / unregistered types
	for _, mt := range []uint16{0, 3, 15, 20, 37, 112, 129, 266, 778, 32767} {
		b := c10cat([]byte{byte(mt >> 8), byte(mt)}, c.bytes(c.rng.Intn(40)))
		c.msg("unknown-type", b)
	}
	c.msg("empty-input", nil)
	c.msg("one-byte", []byte{0x00})

	// onion failures
	var fencs [][]byte
	for _, fm := range onionFailures {
		var b bytes.Buffer
		if err := EncodeFailure(&b, fm, 0); err != nil {
			continue
		}
		fencs = append(fencs, append([]byte{}, b.Bytes()...))
	}
	// failure VALUES: the fixtures, and every fixture with its integer fields
	// set to boundary values (BigSize / width boundaries).
	for _, fm := range onionFailures {
		c.fval("fail-gen", c10cloneFail(fm))
		for vi, v := range c10u64Bounds {
			f2 := c10cloneFail(fm)
			if !c10setUints(f2, v) {
				break
			}
			if enc := c.fval("fail-gen", f2); enc != nil {
				c.fail("fail-valid", enc)
				if thorough || vi == 0 || vi == int(seed)%len(c10u64Bounds) {
					fencs = append(fencs, enc)
				}
			}
		}
	}
	nValid := len(fencs)
	// every registered failure code with an empty payload and padding
	for code := 0; code < 1<<16; code++ {
		if _, err := makeEmptyOnionError(FailCode(code)); err != nil {
			continue
		}
		body := []byte{byte(code >> 8), byte(code)}
		padLen := FailureMessageLength - len(body)
		b := c10cat([]byte{0, byte(len(body))}, body, []byte{byte(padLen >> 8), byte(padLen)}, make([]byte, padLen))
		fencs = append(fencs, b)
	}
	for i, enc := range fencs {
		if i < nValid {
			c.fail("fail-valid", enc)
			c.failUpdateVariants(enc)
			c.failPayloadVariants(enc, thorough)
		} else {
			c.fail("fail-bare", enc)
		}
		n := len(enc)
		for i := 0; i < 3; i++ {
			c.fail("fail-truncate", enc[:c.rng.Intn(n)])
		}
		c.fail("fail-extend", c10cat(enc, c.bytes(1+c.rng.Intn(4))))
		reps := 4
		if thorough {
			reps = 40
		}
		for i := 0; i < reps; i++ {
			b := append([]byte{}, enc...)
			p := c.rng.Intn(min(n, 80))
			if c.rng.Intn(2) == 0 {
				b[p] ^= byte(1 << uint(c.rng.Intn(8)))
			} else {
				b[p] = byte(c.rng.Intn(256))
			}
			c.fail("fail-flip", b)
		}
		// longer failure body with TLV-ish extension and matching lengths
		if n >= 4 {
			l := int(binary.BigEndian.Uint16(enc))
			if 2+l <= n {
				// inner lengths 253..257: both sides of EncodeFailure's 256-byte limit
				for _, extLen := range []int{c.rng.Intn(200), 249 - l, 250 - l, 251 - l, 252 - l, 253 - l, 300} {
					if extLen < 0 {
						continue
					}
					body := c10cat(enc[2:2+l], c10encRecs([]c10rec{{0xfff1, c.bytes(extLen)}}))
					pad := 0
					if len(body) < FailureMessageLength {
						pad = FailureMessageLength - len(body)
					}
					b := c10cat([]byte{byte(len(body) >> 8), byte(len(body))}, body,
						[]byte{byte(pad >> 8), byte(pad)}, make([]byte, pad))
					c.fail("fail-extend-body", b)
				}
			}
		}
	}
	nr := 60
	if thorough {
		nr = 2000
	}
	for i := 0; i < nr; i++ {
		c.fail("fail-random", c.bytes(c.rng.Intn(300)))
	}
}
