//go:build verif

package invoices

import "github.com/lightningnetwork/lnd/lntypes"

// VerifC15Expire invokes the cancellation callback that InvoiceRegistry.Start
// registered with the InvoiceExpiryWatcher (cancelInvoiceImpl(hash, force)),
// i.e. exactly what the watcher's expireInvoice calls when an invoice expires
// by timestamp (force only for keysend invoices) or by block height (always
// forced), and returns its error (expireInvoice only logs it).
func VerifC15Expire(ew *InvoiceExpiryWatcher, hash lntypes.Hash,
	force bool) error {

	return ew.cancelInvoice(hash, force)
}
