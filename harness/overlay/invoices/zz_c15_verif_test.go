//go:build verif

package invoices_test

// C15 correspondence/monitor harness. Injected with `go test -overlay`; drives
// the real InvoiceRegistry (over the kv store or the native SQL store, chosen
// by VERIF_STORE) with generated event sequences and prints one line per
// operation + the implementation's canonical answers for the Lean driver
// (drv_c15).  Every random choice derives from VERIF_SEED; the operation
// sequence does not depend on the implementation's answers, so the same seed
// yields the same operations for both stores.

import (
	"bufio"
	"context"
	"crypto/sha256"
	"database/sql"
	"encoding/hex"
	"errors"
	"fmt"
	"math/rand"
	"os"
	"sort"
	"strconv"
	"strings"
	"testing"
	"time"

	"github.com/btcsuite/btcd/chainhash/v2"
	"github.com/lightningnetwork/lnd/amp"
	"github.com/lightningnetwork/lnd/channeldb"
	"github.com/lightningnetwork/lnd/clock"
	invpkg "github.com/lightningnetwork/lnd/invoices"
	"github.com/lightningnetwork/lnd/lntypes"
	"github.com/lightningnetwork/lnd/lnwire"
	"github.com/lightningnetwork/lnd/record"
	"github.com/lightningnetwork/lnd/sqldb"
)

const c15Hold = 30 // seconds, HtlcHoldDuration

type c15inv struct {
	hash      lntypes.Hash
	pre       lntypes.Preimage
	stored    bool // preimage stored in the invoice terms
	val       uint64
	addr      [32]byte
	cltv      int32
	hodl      bool
	feat      string // subset of "tpPma": tlv, payaddr optional, payaddr Required, mpp optional, amp required
	keys      []c15key // circuit keys handed out for this invoice
	idx       int
	spont     bool // no invoice added up front (spontaneous keysend / AMP)
	bogus     bool
	storedPre lntypes.Preimage
}

// c15key is a full circuit key: (short channel id, per-channel htlc id).
type c15key struct{ ch, id uint64 }

func (k c15key) String() string { return fmt.Sprintf("%d.%d", k.ch, k.id) }

func c15keyLess(a, b c15key) bool {
	if a.ch != b.ch {
		return a.ch < b.ch
	}
	return a.id < b.id
}

func c15keyOf(k invpkg.CircuitKey) c15key {
	return c15key{k.ChanID.ToUint64(), k.HtlcID}
}

type c15op struct {
	kind string // notify | settle | cancel | tick
	hash lntypes.Hash
	key  c15key
	amt  uint64
	exp  uint32
	ht   int32

	mpp      bool
	mppTotal uint64
	mppAddr  [32]byte

	amp   bool
	setID [32]byte
	share [32]byte
	index uint32

	ks []byte

	// blinded-path payload: path id and total_amt_msat
	path    bool
	pathID  [32]byte
	pathTot uint64

	pre lntypes.Preimage
	dt  int

	force bool
}

type c15 struct {
	t     *testing.T
	w     *bufio.Writer
	rng   *rand.Rand
	store string
	n     int

	root    *testing.T
	sqlDB   *sqldb.BaseDB
	sqlUses int
	nudges  int
	// tick operations that ran into their deadline (the registry's timers did
	// not do what the database dump promises): after a few of them the
	// deadline is shortened, every one is still reported as `timeout`.
	tickTimeouts int

	// per case
	reg    *invpkg.InvoiceRegistry
	ew     *invpkg.InvoiceExpiryWatcher
	clk    *clock.TestClock
	now    time.Time
	hodl   chan interface{}
	hashes []lntypes.Hash
	subs   map[c15key]bool
	R      int32

	// circuit-key allocation of the case (generation time)
	chans   []uint64
	nextID  map[uint64]uint64
	used    map[c15key]bool
	allKeys []c15key
	h0     int64
	height int64
}

func (c *c15) pf(format string, a ...interface{}) { fmt.Fprintf(c.w, format+"\n", a...) }

func c15hx(b []byte) string { return hex.EncodeToString(b) }

func (c *c15) rbytes() (r [32]byte) {
	c.rng.Read(r[:])
	return
}

func (c *c15) pick(n int) int { return c.rng.Intn(n) }

func (c *c15) chance(pct int) bool { return c.rng.Intn(100) < pct }

func (c *c15) ckey(k c15key) invpkg.CircuitKey {
	return invpkg.CircuitKey{
		ChanID: lnwire.NewShortChanIDFromInt(k.ch),
		HtlcID: k.id,
	}
}

// resetKeys starts the circuit-key universe of a case: 1-3 channels (ids
// disjoint from every other case, the SQL store has a global UNIQUE (chan_id,
// htlc_id)), each with its own htlc counter as in lnd (htlc ids are
// per-channel counters, so different channels hand out the same ids).
func (c *c15) resetKeys() {
	nch := []int{1, 2, 2, 2, 3, 3, 3, 3}[c.pick(8)]
	c.chans = nil
	c.nextID = map[uint64]uint64{}
	c.used = map[c15key]bool{}
	c.allKeys = nil
	base := []uint64{0, 0, 0, 1, 5, 4294967295}[c.pick(6)]
	for j := 0; j < nch; j++ {
		ch := uint64(c.n)*4 + uint64(j)
		c.chans = append(c.chans, ch)
		c.nextID[ch] = base
		if c.chance(20) {
			c.nextID[ch] = base + uint64(c.pick(3))
		}
	}
}

// ---------------------------------------------------------------- names

func c15fail(o invpkg.FailResolutionResult) string {
	switch o {
	case invpkg.ResultReplayToCanceled:
		return "ReplayToCanceled"
	case invpkg.ResultInvoiceAlreadyCanceled:
		return "InvoiceAlreadyCanceled"
	case invpkg.ResultInvoiceAlreadySettled:
		return "InvoiceAlreadySettled"
	case invpkg.ResultAmountTooLow:
		return "AmountTooLow"
	case invpkg.ResultExpiryTooSoon:
		return "ExpiryTooSoon"
	case invpkg.ResultCanceled:
		return "Canceled"
	case invpkg.ResultInvoiceNotOpen:
		return "InvoiceNotOpen"
	case invpkg.ResultMppTimeout:
		return "MppTimeout"
	case invpkg.ResultAddressMismatch:
		return "AddressMismatch"
	case invpkg.ResultHtlcSetTotalMismatch:
		return "SetTotalMismatch"
	case invpkg.ResultHtlcSetTotalTooLow:
		return "SetTotalTooLow"
	case invpkg.ResultHtlcSetOverpayment:
		return "SetOverpayment"
	case invpkg.ResultInvoiceNotFound:
		return "InvoiceNotFound"
	case invpkg.ResultKeySendError:
		return "KeySendError"
	case invpkg.ResultMppInProgress:
		return "MppInProgress"
	case invpkg.ResultHtlcInvoiceTypeMismatch:
		return "TypeMismatch"
	case invpkg.ResultAmpError:
		return "AmpError"
	case invpkg.ResultAmpReconstruction:
		return "AmpReconstruction"
	case invpkg.ExternalValidationFailed:
		return "External"
	}
	return "Unknown" + strconv.Itoa(int(o))
}

func c15settle(o invpkg.SettleResolutionResult) string {
	switch o {
	case invpkg.ResultSettled:
		return "Settled"
	case invpkg.ResultReplayToSettled:
		return "ReplayToSettled"
	case invpkg.ResultDuplicateToSettled:
		return "DuplicateToSettled"
	}
	return "Unknown" + strconv.Itoa(int(o))
}

func c15res(r interface{}) string {
	switch v := r.(type) {
	case *invpkg.HtlcFailResolution:
		return fmt.Sprintf("fail:%s:%d", c15fail(v.Outcome), v.AcceptHeight)
	case *invpkg.HtlcSettleResolution:
		return fmt.Sprintf("settle:%s:%s:%d", c15settle(v.Outcome),
			c15hx(v.Preimage[:]), v.AcceptHeight)
	}
	return fmt.Sprintf("other:%T", r)
}

func c15err(err error) string {
	switch {
	case err == nil:
		return "ok"
	case errors.Is(err, invpkg.ErrInvoiceStillOpen):
		return "stillopen"
	case errors.Is(err, invpkg.ErrInvoiceAlreadyCanceled):
		return "alreadycanceled"
	case errors.Is(err, invpkg.ErrInvoiceAlreadySettled):
		return "alreadysettled"
	case errors.Is(err, invpkg.ErrInvoiceNotFound),
		errors.Is(err, invpkg.ErrNoInvoicesCreated):

		return "notfound"
	}
	return "err"
}

func c15cstate(s invpkg.ContractState) string {
	switch s {
	case invpkg.ContractOpen:
		return "open"
	case invpkg.ContractAccepted:
		return "accepted"
	case invpkg.ContractSettled:
		return "settled"
	case invpkg.ContractCanceled:
		return "canceled"
	}
	return "unknown"
}

func c15hstate(s invpkg.HtlcState) string {
	switch s {
	case invpkg.HtlcStateAccepted:
		return "A"
	case invpkg.HtlcStateCanceled:
		return "C"
	case invpkg.HtlcStateSettled:
		return "S"
	}
	return "?"
}

// ---------------------------------------------------------------- stores

func (c *c15) makeDB() (invpkg.InvoiceDB, *clock.TestClock) {
	clk := clock.NewTestClock(testTime)
	if c.store == "sql" {
		// one sqlite database (schema migrations are slow) serves a batch of
		// cases; cases use disjoint hashes, addresses and channel ids.
		if c.sqlDB == nil || c.sqlUses >= 64 {
			c.sqlDB = sqldb.NewTestSqliteDB(c.root).BaseDB
			c.sqlUses = 0
		}
		c.sqlUses++
		db := c.sqlDB
		executor := sqldb.NewTransactionExecutor(
			db, func(tx *sql.Tx) invpkg.SQLInvoiceQueries {
				return db.WithTx(tx)
			},
		)
		return invpkg.NewSQLStore(executor, clk), clk
	}
	db, err := channeldb.MakeTestInvoiceDB(c.t, channeldb.OptionClock(clk))
	if err != nil {
		c.t.Fatalf("make kv db: %v", err)
	}
	return db, clk
}

// ---------------------------------------------------------------- observation

func (c *c15) features(feat string) *lnwire.FeatureVector {
	raw := lnwire.NewRawFeatureVector()
	for _, ch := range feat {
		switch ch {
		case 't':
			raw.Set(lnwire.TLVOnionPayloadOptional)
		case 'p':
			raw.Set(lnwire.PaymentAddrOptional)
		case 'P':
			raw.Set(lnwire.PaymentAddrRequired)
		case 'm':
			raw.Set(lnwire.MPPOptional)
		case 'a':
			raw.Set(lnwire.AMPRequired)
		case 'b':
			raw.Set(lnwire.RouteBlindingOptional)
			raw.Set(lnwire.Bolt11BlindedPathsRequired)
		}
	}
	return lnwire.NewFeatureVector(raw, lnwire.Features)
}

func c15featStr(fv *lnwire.FeatureVector) string {
	if fv == nil {
		return "nil"
	}
	s := ""
	if fv.IsSet(lnwire.TLVOnionPayloadOptional) || fv.IsSet(lnwire.TLVOnionPayloadRequired) {
		s += "t"
	}
	if fv.IsSet(lnwire.PaymentAddrOptional) {
		s += "p"
	}
	if fv.IsSet(lnwire.PaymentAddrRequired) {
		s += "P"
	}
	if fv.IsSet(lnwire.MPPOptional) {
		s += "m"
	}
	if fv.IsSet(lnwire.MPPRequired) {
		s += "M"
	}
	if fv.IsSet(lnwire.AMPRequired) {
		s += "a"
	}
	if fv.IsSet(lnwire.AMPOptional) {
		s += "o"
	}
	if fv.IsSet(lnwire.Bolt11BlindedPathsRequired) {
		s += "b"
	}
	if s == "" {
		s = "-"
	}
	return s
}

func (c *c15) dumpOne(h lntypes.Hash) string {
	inv, err := c.reg.LookupInvoice(context.Background(), h)
	if err != nil {
		if c15err(err) == "notfound" {
			return "none"
		}
		return "err"
	}
	pre := "none"
	if inv.Terms.PaymentPreimage != nil {
		pre = c15hx(inv.Terms.PaymentPreimage[:])
	}
	hodl := 0
	if inv.HodlInvoice {
		hodl = 1
	}
	type kv struct {
		k c15key
		s string
	}
	var hs []kv
	for k, ht := range inv.Htlcs {
		at := int64(ht.AcceptTime.Sub(testTime) / time.Second)
		s := fmt.Sprintf("%s:%d:%d:%s:%d:%d:%d", c15keyOf(k), uint64(ht.Amt),
			uint64(ht.MppTotalAmt), c15hstate(ht.State), ht.Expiry,
			int32(ht.AcceptHeight), at)
		if ht.AMP != nil {
			sid := ht.AMP.Record.SetID()
			p := "none"
			if ht.AMP.Preimage != nil {
				p = c15hx(ht.AMP.Preimage[:])
			}
			s += fmt.Sprintf(":%s:%s:%s", c15hx(sid[:4]), c15hx(ht.AMP.Hash[:]), p)
		}
		hs = append(hs, kv{c15keyOf(k), s})
	}
	sort.Slice(hs, func(i, j int) bool { return c15keyLess(hs[i].k, hs[j].k) })
	var parts []string
	for _, x := range hs {
		parts = append(parts, x.s)
	}
	htl := "-"
	if len(parts) > 0 {
		htl = strings.Join(parts, ",")
	}
	// AMP per-set state
	type sv struct {
		id string
		s  string
	}
	var sets []sv
	for id, st := range inv.AMPState {
		sets = append(sets, sv{c15hx(id[:4]), fmt.Sprintf("%s:%s:%d",
			c15hx(id[:4]), c15hstate(st.State), uint64(st.AmtPaid))})
	}
	sort.Slice(sets, func(i, j int) bool { return sets[i].id < sets[j].id })
	ss := "-"
	if len(sets) > 0 {
		var p []string
		for _, x := range sets {
			p = append(p, x.s)
		}
		ss = strings.Join(p, ",")
	}
	return fmt.Sprintf("st=%s paid=%d pre=%s val=%d cltv=%d hodl=%d feat=%s addr=%s htlcs=%s sets=%s",
		c15cstate(inv.State), uint64(inv.AmtPaid), pre, uint64(inv.Terms.Value),
		inv.Terms.FinalCltvDelta, hodl, c15featStr(inv.Terms.Features),
		c15hx(inv.Terms.PaymentAddr[:]), htl, ss)
}

// observe prints the hodl-channel messages that arrived (sorted by key) and
// the canonical dump of every invoice hash known to the case.
func (c *c15) observe() {
	type m struct {
		k c15key
		s string
	}
	var ms []m
	for {
		select {
		case x := <-c.hodl:
			r, ok := x.(invpkg.HtlcResolution)
			if !ok {
				ms = append(ms, m{c15key{}, fmt.Sprintf("other:%T", x)})
				continue
			}
			k := c15keyOf(r.CircuitKey())
			c.subs[k] = false
			ms = append(ms, m{k, c15res(x)})
			continue
		default:
		}
		break
	}
	sort.SliceStable(ms, func(i, j int) bool { return c15keyLess(ms[i].k, ms[j].k) })
	for _, x := range ms {
		c.pf("hodl k=%s => %s", x.k, x.s)
	}
	for _, h := range c.hashes {
		c.pf("inv h=%s => %s", c15hx(h[:]), c.dumpOne(h))
	}
}

func (c *c15) addHash(h lntypes.Hash) {
	for _, x := range c.hashes {
		if x == h {
			return
		}
	}
	c.hashes = append(c.hashes, h)
}

// ---------------------------------------------------------------- operations

func (c *c15) doAddInv(iv *c15inv) {
	inv := &invpkg.Invoice{
		CreationDate: testTime,
		Terms: invpkg.ContractTerm{
			Value:          lnwire.MilliSatoshi(iv.val),
			Expiry:         24 * 365 * time.Hour,
			FinalCltvDelta: iv.cltv,
			PaymentAddr:    iv.addr,
			Features:       c.features(iv.feat),
		},
		HodlInvoice: iv.hodl,
	}
	pre := "none"
	if iv.stored {
		p := iv.pre
		if iv.bogus {
			p = iv.storedPre
		}
		inv.Terms.PaymentPreimage = &p
		pre = c15hx(p[:])
	}
	res := "ok"
	func() {
		defer func() {
			if r := recover(); r != nil {
				res = "panic"
			}
		}()
		_, err := c.reg.AddInvoice(context.Background(), inv, iv.hash)
		if err != nil {
			res = "err"
		}
	}()
	hodl := 0
	if iv.hodl {
		hodl = 1
	}
	feat := iv.feat
	if feat == "" {
		feat = "-"
	}
	c.addHash(iv.hash)
	c.pf("addinv h=%s pre=%s val=%d addr=%s cltv=%d hodl=%d feat=%s => %s",
		c15hx(iv.hash[:]), pre, iv.val, c15hx(iv.addr[:]), iv.cltv, hodl, feat, res)
	c.observe()
}

func (c *c15) doNotify(o *c15op) {
	pl := &mockPayload{}
	mpp, ampS, ks := "none", "none", "none"
	if o.mpp {
		pl.mpp = record.NewMPP(lnwire.MilliSatoshi(o.mppTotal), o.mppAddr)
		mpp = fmt.Sprintf("%d/%s", o.mppTotal, c15hx(o.mppAddr[:]))
	}
	if o.amp {
		pl.amp = record.NewAMP(o.share, o.setID, o.index)
		ampS = fmt.Sprintf("%s/%s/%d", c15hx(o.setID[:]), c15hx(o.share[:]), o.index)
	}
	if o.ks != nil {
		pl.customRecords = record.CustomSet{record.KeySendType: o.ks}
		ks = c15hx(o.ks)
		if len(o.ks) == 0 {
			ks = "-"
		}
	}
	path := "none"
	if o.path {
		id := chainhash.Hash(o.pathID)
		pl.pathID = &id
		pl.totalAmtMsat = lnwire.MilliSatoshi(o.pathTot)
		path = c15hx(o.pathID[:])
	}
	res := ""
	func() {
		defer func() {
			if r := recover(); r != nil {
				res = "panic"
			}
		}()
		r, err := c.reg.NotifyExitHopHtlc(
			o.hash, lnwire.MilliSatoshi(o.amt), o.exp, o.ht,
			c.ckey(o.key), c.hodl, nil, pl,
		)
		switch {
		case err != nil:
			res = "err"
		case r == nil:
			res = "accept"
			c.subs[o.key] = true
		default:
			res = c15res(r)
		}
	}()
	c.addHash(o.hash)
	c.pf("notify h=%s k=%s amt=%d exp=%d ht=%d mpp=%s amp=%s ks=%s path=%s tot=%d => %s",
		c15hx(o.hash[:]), o.key, o.amt, o.exp, o.ht, mpp, ampS, ks, path, o.pathTot, res)
	c.observe()
}

func (c *c15) doSettle(o *c15op) {
	res := ""
	func() {
		defer func() {
			if r := recover(); r != nil {
				res = "panic"
			}
		}()
		res = c15err(c.reg.SettleHodlInvoice(context.Background(), o.pre))
	}()
	c.pf("settle pre=%s => %s", c15hx(o.pre[:]), res)
	c.observe()
}

func (c *c15) doCancel(o *c15op) {
	res := ""
	func() {
		defer func() {
			if r := recover(); r != nil {
				res = "panic"
			}
		}()
		res = c15err(c.reg.CancelInvoice(context.Background(), o.hash))
	}()
	c.pf("cancel h=%s => %s", c15hx(o.hash[:]), res)
	c.observe()
}

// doExpire: the invoice expiry watcher's cancellation (cancelInvoiceImpl with
// its cancelAccepted flag), called through the callback the registry
// registered with the watcher.
func (c *c15) doExpire(o *c15op) {
	res := ""
	func() {
		defer func() {
			if r := recover(); r != nil {
				res = "panic"
			}
		}()
		res = c15err(invpkg.VerifC15Expire(c.ew, o.hash, o.force))
	}()
	f := 0
	if o.force {
		f = 1
	}
	c.pf("expire h=%s force=%d => %s", c15hx(o.hash[:]), f, res)
	c.observe()
}

// doUnsub: the link goes away (HodlUnsubscribeAll); later resolutions of the
// htlcs it subscribed to are not delivered until a replay subscribes again.
func (c *c15) doUnsub() {
	c.reg.HodlUnsubscribeAll(c.hodl)
	for k := range c.subs {
		c.subs[k] = false
	}
	c.pf("unsub => ok")
	c.observe()
}

// overdue lists the circuit keys of accepted htlcs on open invoices whose hold
// time has passed: exactly those have a pending auto-release timer that is now
// due, so the registry's event loop is about to cancel them.
func (c *c15) overdue() []c15key {
	var out []c15key
	for _, h := range c.hashes {
		inv, err := c.reg.LookupInvoice(context.Background(), h)
		if err != nil || inv.State != invpkg.ContractOpen {
			continue
		}
		for k, ht := range inv.Htlcs {
			if ht.State != invpkg.HtlcStateAccepted {
				continue
			}
			if !ht.AcceptTime.Add(c15Hold * time.Second).After(c.now) {
				out = append(out, c15keyOf(k))
			}
		}
	}
	return out
}

func (c *c15) nudge() {
	c.nudges++
	pre := lntypes.Preimage(sha256.Sum256([]byte(fmt.Sprintf("nudge-%d-%d", c.n, c.nudges))))
	inv := &invpkg.Invoice{
		CreationDate: testTime,
		Terms: invpkg.ContractTerm{
			Value:           1,
			Expiry:          24 * 365 * time.Hour,
			PaymentPreimage: &pre,
			Features:        c.features(""),
		},
	}
	_, _ = c.reg.AddInvoice(context.Background(), inv, pre.Hash())
}

func (c *c15) doTick(o *c15op) {
	c.now = c.now.Add(time.Duration(o.dt) * time.Second)
	due := c.overdue()
	c.clk.SetTime(c.now)
	res := "ok"
	start := time.Now()
	// generous on a healthy tree (an overloaded machine has been seen to need
	// more than 10 s once), short once the tree has shown that its timers are
	// broken
	wait := 30 * time.Second
	if c.tickTimeouts >= 3 {
		wait = 1500 * time.Millisecond
	}
	deadline := start.Add(wait)
	nextNudge := start.Add(30 * time.Millisecond)
	for len(c.overdue()) > 0 {
		if time.Now().After(deadline) {
			res = "timeout"
			break
		}
		if time.Now().After(nextNudge) {
			// Test-clock artefact: the registry's event loop computes its
			// release tick as Clock.Now() followed by Clock.TickAfter(), which
			// is not atomic w.r.t. SetTime; when an invoice event makes the
			// loop re-arm exactly while the clock is advanced, the tick is
			// registered one period late. Any invoice event makes the loop
			// re-arm with the current time: add an unrelated dummy invoice.
			c.nudge()
			nextNudge = time.Now().Add(30 * time.Millisecond)
		}
		time.Sleep(200 * time.Microsecond)
	}
	// every key that was due and subscribed gets exactly one message.
	var got []interface{}
	if res == "ok" {
		want := 0
		for _, k := range due {
			if c.subs[k] {
				want++
			}
		}
		for len(got) < want {
			select {
			case x := <-c.hodl:
				got = append(got, x)
			case <-time.After(wait):
				res = "timeout"
				want = 0
			}
		}
	}
	if res == "timeout" {
		c.tickTimeouts++
	}
	c.pf("tick dt=%d => %s", o.dt, res)
	// re-queue for observe (keeps one code path for printing).
	rest := []interface{}{}
	for {
		select {
		case x := <-c.hodl:
			rest = append(rest, x)
			continue
		default:
		}
		break
	}
	for _, x := range append(got, rest...) {
		c.hodl <- x
	}
	c.observe()
}

// ---------------------------------------------------------------- generator

func (c *c15) newInv(idx int, kind string) *c15inv {
	iv := &c15inv{idx: idx}
	iv.pre = lntypes.Preimage(c.rbytes())
	iv.hash = iv.pre.Hash()
	iv.addr = c.rbytes()
	vals := []uint64{1000, 100000, 1, 2, 5000, 77777}
	iv.val = vals[c.pick(len(vals))]
	cl := []int32{c.R, c.R + 1, c.R - 1, 40, c.R + 5, 0, 9}
	iv.cltv = cl[c.pick(len(cl))]
	if iv.cltv < 0 {
		iv.cltv = 0
	}
	iv.stored = true
	switch kind {
	case "regular":
		iv.feat = []string{"tPm", "tPm", "tpm", "tP"}[c.pick(4)]
		if c.chance(3) {
			// the stored preimage does not belong to the payment hash
			iv.bogus = true
			iv.storedPre = lntypes.Preimage(c.rbytes())
		}
	case "blinded":
		iv.feat = []string{"tPb", "tPmb", "tPb", "tpb"}[c.pick(4)]
		if c.chance(25) {
			iv.hodl = true
			iv.stored = false
		}
	case "legacy":
		iv.feat = ""
		if c.chance(70) {
			iv.addr = [32]byte{}
		}
	case "hold":
		iv.feat = []string{"tPm", "tpm", ""}[c.pick(3)]
		iv.hodl = true
		iv.stored = false
	case "zero":
		iv.feat = []string{"tPm", "tpm", ""}[c.pick(3)]
		iv.val = 0
		if c.chance(30) {
			iv.hodl = true
			iv.stored = false
		}
	case "amp":
		iv.feat = "tpa"
		iv.stored = false
		if c.chance(20) {
			iv.val = 0
		}
	}
	return iv
}

func (c *c15) nextHeight() int32 {
	if c.chance(25) {
		c.height++
	}
	if c.height > 2147483647 {
		c.height = 2147483647
	}
	return int32(c.height)
}

// expiry picks an htlc expiry around the two guards for height h.
func (c *c15) expiry(h int32, cltv int32, valid int) uint32 {
	mx := int64(c.R)
	if int64(cltv) > mx {
		mx = int64(cltv)
	}
	var e int64
	if c.chance(valid) {
		e = int64(h) + mx + int64([]int{0, 0, 1, 2, 100, 1000}[c.pick(6)])
	} else {
		cands := []int64{
			int64(h) + int64(c.R) - 1, int64(h) + int64(c.R), int64(h) + int64(c.R) + 1,
			int64(h) + int64(cltv) - 1, int64(h) + int64(cltv), int64(h) + int64(cltv) + 1,
			int64(h) + mx - 1, int64(h), 0, 4294967295,
		}
		e = cands[c.pick(len(cands))]
	}
	if e < 0 {
		e = 0
	}
	if e > 4294967295 {
		e = 4294967295
	}
	return uint32(e)
}

// newKey hands out a circuit key that is new in this case. Both components
// vary, with deliberate partial collisions: (a) the htlc id of an earlier htlc
// (of the same invoice, else of any invoice of the case) on ANOTHER channel;
// (b) the channel of an earlier htlc of the same invoice with that channel's
// next id; (c) a random channel with its next id.
func (c *c15) newKey(iv *c15inv) c15key {
	take := func(k c15key) bool {
		if c.used[k] {
			return false
		}
		c.used[k] = true
		iv.keys = append(iv.keys, k)
		c.allKeys = append(c.allKeys, k)
		return true
	}
	x := c.pick(100)
	if x < 45 && len(c.chans) > 1 {
		src := iv.keys
		if len(src) == 0 || c.chance(25) {
			src = c.allKeys
		}
		if len(src) > 0 {
			p := src[c.pick(len(src))]
			off := c.pick(len(c.chans))
			for j := range c.chans {
				ch := c.chans[(off+j)%len(c.chans)]
				if ch != p.ch && take(c15key{ch, p.id}) {
					return c15key{ch, p.id}
				}
			}
		}
	}
	ch := c.chans[c.pick(len(c.chans))]
	if x < 70 && len(iv.keys) > 0 {
		ch = iv.keys[c.pick(len(iv.keys))].ch
	}
	for {
		k := c15key{ch, c.nextID[ch]}
		c.nextID[ch]++
		if take(k) {
			return k
		}
	}
}

// split n>0 parts summing to total.
func (c *c15) split(total uint64, n int) []uint64 {
	parts := make([]uint64, n)
	rem := total
	for i := 0; i < n-1; i++ {
		var p uint64
		if rem > 0 {
			switch c.pick(4) {
			case 0:
				p = rem / uint64(n-i)
			case 1:
				p = uint64(c.rng.Int63n(int64(rem) + 1))
			case 2:
				p = 1
			default:
				p = rem / 2
			}
		}
		if p > rem {
			p = rem
		}
		parts[i] = p
		rem -= p
	}
	parts[n-1] = rem
	return parts
}

func (c *c15) genMppSet(iv *c15inv) []*c15op {
	v := iv.val
	var total uint64
	switch c.pick(16) {
	case 0, 4:
		total = v + 1
	case 1:
		if v > 0 {
			total = v - 1
		} else {
			total = 0
		}
	case 2:
		total = 2*v + 3
	case 3:
		if c.chance(50) {
			total = 0
		} else {
			total = v
		}
	default:
		total = v
		if v == 0 {
			total = []uint64{1, 1000}[c.pick(2)]
		}
	}
	n := 1 + c.pick(4)
	sum := total
	switch c.pick(8) {
	case 0:
		if sum > 0 {
			sum--
		}
	case 1:
		sum++
	}
	parts := c.split(sum, n)
	valid := 85
	if c.chance(20) {
		valid = 40
	}
	var ops []*c15op
	bad := -1
	badKind := 0
	if c.chance(35) {
		bad = n - 1
		if c.chance(30) {
			bad = c.pick(n)
		}
		badKind = c.pick(4)
	}
	for i := 0; i < n; i++ {
		h := c.nextHeight()
		o := &c15op{kind: "notify", hash: iv.hash, key: c.newKey(iv), amt: parts[i],
			ht: h, mpp: true, mppTotal: total, mppAddr: iv.addr}
		o.exp = c.expiry(h, iv.cltv, valid)
		if i == bad {
			switch badKind {
			case 0:
				o.mppTotal = total + 1
			case 1:
				if total > 0 {
					o.mppTotal = total - 1
				}
			case 2:
				o.mppAddr = c.rbytes()
			case 3:
				o.mppAddr = [32]byte{}
			}
		}
		ops = append(ops, o)
	}
	if n >= 2 && c.chance(22) {
		// the first shard times out, is re-sent under a fresh key so that the
		// set can still complete, and is replayed under its original key at
		// the end.
		first := ops[0]
		rest := append([]*c15op{}, ops[1:]...)
		retry := *first
		retry.key = c.newKey(iv)
		rep := *first
		ops = []*c15op{first, {kind: "tick", dt: []int{30, 31, 29}[c.pick(3)]}}
		ops = append(ops, rest...)
		ops = append(ops, &retry, &rep)
		if iv.hodl {
			ops = append(ops, &c15op{kind: "tick", dt: 30}, &c15op{kind: "settle", pre: iv.pre}, &rep)
		}
		return ops
	}
	if bad >= 0 && c.chance(50) {
		// a correct retry of the perturbed shard under a fresh key
		h := c.nextHeight()
		o := &c15op{kind: "notify", hash: iv.hash, key: c.newKey(iv), amt: parts[bad],
			ht: h, mpp: true, mppTotal: total, mppAddr: iv.addr}
		o.exp = c.expiry(h, iv.cltv, 90)
		ops = append(ops, o)
	}
	return ops
}

// genBlinded: htlcs arriving over a blinded path: the payment address travels
// as path id, the set total as total_amt_msat; no MPP record (mostly).
func (c *c15) genBlinded(iv *c15inv) []*c15op {
	v := iv.val
	total := v
	switch c.pick(10) {
	case 0:
		total = v + 1
	case 1:
		if v > 0 {
			total = v - 1
		}
	case 2:
		total = 0
	}
	if v == 0 && total == 0 && c.chance(80) {
		total = 1000
	}
	n := 1 + c.pick(3)
	if c.chance(50) {
		n = 1
	}
	sum := total
	switch c.pick(10) {
	case 0:
		if sum > 0 {
			sum--
		}
	case 1:
		sum++
	}
	parts := c.split(sum, n)
	bad := -1
	badKind := 0
	if c.chance(45) {
		bad = n - 1
		if c.chance(30) {
			bad = c.pick(n)
		}
		badKind = c.pick(6)
	}
	var ops []*c15op
	for i := 0; i < n; i++ {
		h := c.nextHeight()
		o := &c15op{kind: "notify", hash: iv.hash, key: c.newKey(iv), amt: parts[i], ht: h,
			path: true, pathID: iv.addr, pathTot: total}
		o.exp = c.expiry(h, iv.cltv, 88)
		if i == bad {
			switch badKind {
			case 0, 1:
				// a path id that is no invoice's payment address
				o.pathID = c.rbytes()
			case 2:
				o.pathID = [32]byte{}
			case 3:
				// path id absent: plain legacy htlc
				o.path = false
				o.pathTot = 0
			case 4:
				// MPP record next to the path id, one of them wrong
				o.mpp = true
				o.mppTotal = total
				o.mppAddr = iv.addr
				if c.chance(50) {
					o.mppAddr = c.rbytes()
				} else {
					o.pathID = c.rbytes()
				}
			case 5:
				o.pathTot = total + 1
			}
		} else if c.chance(10) {
			o.mpp = true
			o.mppTotal = total
			o.mppAddr = iv.addr
		}
		ops = append(ops, o)
	}
	if bad >= 0 && c.chance(50) {
		h := c.nextHeight()
		o := &c15op{kind: "notify", hash: iv.hash, key: c.newKey(iv), amt: parts[bad], ht: h,
			path: true, pathID: iv.addr, pathTot: total}
		o.exp = c.expiry(h, iv.cltv, 90)
		ops = append(ops, o)
	}
	return ops
}

func (c *c15) genLegacy(iv *c15inv) []*c15op {
	v := iv.val
	amts := []uint64{v, v, v + 1, 2 * v}
	if v > 0 {
		amts = append(amts, v-1)
	}
	h := c.nextHeight()
	o := &c15op{kind: "notify", hash: iv.hash, key: c.newKey(iv), amt: amts[c.pick(len(amts))], ht: h}
	o.exp = c.expiry(h, iv.cltv, 75)
	switch c.pick(8) {
	case 0:
		o.ks = append([]byte{}, iv.pre[:]...)
	case 1:
		r := c.rbytes()
		o.ks = r[:]
	case 2:
		o.ks = []byte{1, 2, 3}
	}
	return []*c15op{o}
}

// genKeysend: spontaneous payment to a hash without invoice.
func (c *c15) genKeysend(idx int) (*c15inv, []*c15op) {
	iv := &c15inv{idx: idx, spont: true}
	iv.pre = lntypes.Preimage(c.rbytes())
	iv.hash = iv.pre.Hash()
	iv.val = []uint64{1000, 1, 0, 31337}[c.pick(4)]
	iv.cltv = c.R
	var ops []*c15op
	n := 1 + c.pick(3)
	for i := 0; i < n; i++ {
		h := c.nextHeight()
		o := &c15op{kind: "notify", hash: iv.hash, key: c.newKey(iv), amt: iv.val, ht: h}
		if i > 0 && c.chance(50) {
			o.amt = iv.val + uint64(c.pick(3)) - 1
			if iv.val == 0 {
				o.amt = uint64(c.pick(2))
			}
		}
		o.exp = c.expiry(h, c.R, 75)
		o.ks = append([]byte{}, iv.pre[:]...)
		switch c.pick(10) {
		case 0:
			r := c.rbytes()
			o.ks = r[:]
		case 1:
			o.ks = []byte{9}
		case 2:
			o.mpp = true
			o.mppTotal = o.amt
		case 3:
			o.ks = nil
		}
		ops = append(ops, o)
	}
	return iv, ops
}

// genAmpSet: one AMP htlc set towards iv (an AMP invoice, or a fresh pay addr
// for a spontaneous AMP payment).
func (c *c15) genAmpSet(iv *c15inv) []*c15op {
	if c.chance(22) {
		return c.genAmpRepay(iv)
	}
	return c.genAmpSetID(iv, c.rbytes())
}

// genAmpRepay: the same set id is paid twice (lnd lets a set id whose htlcs
// are settled / canceled be used again): a second, independently generated
// set (fresh root seed, same or another declared total, child indexes start
// again at 0) under the set id of the first one, optionally separated by a
// set timeout, followed by replays of the first set's htlcs.
func (c *c15) genAmpRepay(iv *c15inv) []*c15op {
	setID := c.rbytes()
	first := c.genAmpSetID(iv, setID)
	ops := append([]*c15op{}, first...)
	if c.chance(25) {
		ops = append(ops, &c15op{kind: "tick", dt: []int{30, 31, 29}[c.pick(3)]})
	}
	ops = append(ops, c.genAmpSetID(iv, setID)...)
	for _, o := range first {
		if c.chance(60) {
			cp := *o
			ops = append(ops, &cp)
		}
	}
	return ops
}

func (c *c15) genAmpSetID(iv *c15inv, setID [32]byte) []*c15op {
	v := iv.val
	total := v
	switch c.pick(8) {
	case 0:
		total = v + 1
	case 1:
		if v > 0 {
			total = v - 1
		}
	case 2:
		total = 0
	}
	if v == 0 && total == 0 && c.chance(80) {
		total = 1000
	}
	n := 1 + c.pick(3)
	sum := total
	switch c.pick(8) {
	case 0:
		if sum > 0 {
			sum--
		}
	case 1:
		sum++
	}
	parts := c.split(sum, n)
	root := amp.Share(c.rbytes())
	// shares xor to root
	shares := make([]amp.Share, n)
	acc := root
	for i := 0; i < n-1; i++ {
		shares[i] = amp.Share(c.rbytes())
		var t amp.Share
		t.Xor(&acc, &shares[i])
		acc = t
	}
	shares[n-1] = acc
	bad := -1
	badKind := 0
	if c.chance(35) {
		bad = c.pick(n)
		badKind = c.pick(6)
	}
	var ops []*c15op
	for i := 0; i < n; i++ {
		child := amp.DeriveChild(root, amp.ChildDesc{Share: shares[i], Index: uint32(i)})
		h := c.nextHeight()
		o := &c15op{kind: "notify", hash: child.Hash, key: c.newKey(iv), amt: parts[i],
			ht: h, mpp: true, mppTotal: total, mppAddr: iv.addr,
			amp: true, setID: setID, share: shares[i], index: uint32(i)}
		o.exp = c.expiry(h, iv.cltv, 85)
		if i == bad {
			switch badKind {
			case 0:
				o.hash = lntypes.Hash(c.rbytes())
			case 1:
				o.mppTotal = total + 1
			case 2:
				o.mpp = false
			case 3:
				o.mppAddr = c.rbytes()
			case 4:
				o.share = c.rbytes()
			case 5:
				o.amp = false
			}
		}
		ops = append(ops, o)
	}
	return ops
}

// openCase starts a fresh registry for the current case and prints the CASE line.
func (c *c15) openCase(ks, ampOn, ksHold bool, extra string) *invpkg.InvoiceRegistry {
	idb, clk := c.makeDB()
	notifier := newMockNotifier()
	// start height 0 with delta 0: the height-based expiry of the watcher
	// never fires, the harness drives every state change itself.
	watcher := invpkg.NewInvoiceExpiryWatcher(clk, 0, 0, nil, notifier)
	cfg := invpkg.RegistryConfig{
		FinalCltvRejectDelta: c.R,
		HtlcHoldDuration:     c15Hold * time.Second,
		HtlcInterceptor:      &invpkg.MockHtlcModifier{},
		Clock:                clk,
		AcceptKeySend:        ks,
		AcceptAMP:            ampOn,
	}
	if ksHold {
		cfg.KeysendHoldTime = 1000 * time.Hour
	}
	reg := invpkg.NewRegistry(idb, watcher, &cfg)
	if err := reg.Start(); err != nil {
		c.t.Fatalf("start: %v", err)
	}
	c.reg, c.ew, c.clk, c.now = reg, watcher, clk, testTime
	c.hodl = make(chan interface{}, 256)
	c.hashes = nil
	c.subs = map[c15key]bool{}

	b := func(x bool) int {
		if x {
			return 1
		}
		return 0
	}
	c.pf("CASE %d store=%s R=%d ks=%d amp=%d kshold=%d hold=%d%s", c.n, c.store, c.R,
		b(ks), b(ampOn), b(ksHold), c15Hold, extra)
	return reg
}

// notifyLine runs one NotifyExitHopHtlc and returns the trace text of the call
// and its answer (used by the concurrent stream, where the printing is deferred).
func (c *c15) notifyRaw(o *c15op) (string, string) {
	pl := &mockPayload{}
	mpp, ampS, ks := "none", "none", "none"
	if o.mpp {
		pl.mpp = record.NewMPP(lnwire.MilliSatoshi(o.mppTotal), o.mppAddr)
		mpp = fmt.Sprintf("%d/%s", o.mppTotal, c15hx(o.mppAddr[:]))
	}
	if o.amp {
		pl.amp = record.NewAMP(o.share, o.setID, o.index)
		ampS = fmt.Sprintf("%s/%s/%d", c15hx(o.setID[:]), c15hx(o.share[:]), o.index)
	}
	if o.ks != nil {
		pl.customRecords = record.CustomSet{record.KeySendType: o.ks}
		ks = c15hx(o.ks)
	}
	res := ""
	func() {
		defer func() {
			if r := recover(); r != nil {
				res = "panic"
			}
		}()
		r, err := c.reg.NotifyExitHopHtlc(
			o.hash, lnwire.MilliSatoshi(o.amt), o.exp, o.ht,
			c.ckey(o.key), c.hodl, nil, pl,
		)
		switch {
		case err != nil:
			res = "err"
		case r == nil:
			res = "accept"
		default:
			res = c15res(r)
		}
	}()
	args := fmt.Sprintf("h=%s k=%s amt=%d exp=%d ht=%d mpp=%s amp=%s ks=%s path=none tot=0",
		c15hx(o.hash[:]), o.key, o.amt, o.exp, o.ht, mpp, ampS, ks)
	return args, res
}

// settleQuiet waits until the registry's asynchronous work has settled: no due
// hold timer is outstanding and no hodl message arrived for 20 ms.
func (c *c15) settleQuiet() {
	deadline := time.Now().Add(10 * time.Second)
	next := time.Now().Add(30 * time.Millisecond)
	for len(c.overdue()) > 0 && time.Now().Before(deadline) {
		if time.Now().After(next) {
			c.nudge()
			next = time.Now().Add(30 * time.Millisecond)
		}
		time.Sleep(200 * time.Microsecond)
	}
	var got []interface{}
	for {
		select {
		case x := <-c.hodl:
			got = append(got, x)
			continue
		case <-time.After(20 * time.Millisecond):
		}
		break
	}
	for _, x := range got {
		c.hodl <- x
	}
}

// genConcCase: two goroutines act on the registry at the same time. The
// spontaneous-payment pre-processing (processKeySend / processAMP incl.
// AddInvoice) and startHtlcTimer / cancelSingleHtlc run outside the registry
// lock, so these are the places where calls can interleave. The outcome depends
// on the schedule: the case is evaluated by the property monitor only.
//
//	pnotify <args> => <answer>     one line per concurrent call
//	pend kind=<scenario>           followed by the hodl messages and dumps
func (c *c15) genConcCase() {
	c.n++
	c.resetKeys()
	c.R = []int32{4, 4, 10, 3, 1}[c.pick(5)]
	c.h0 = 100
	c.height = 100
	kind := []string{"keysend", "keysend", "timer-complete", "timer-complete", "timer-settle"}[c.pick(5)]
	ksHold := c.chance(40)
	reg := c.openCase(true, false, ksHold, " conc=1")
	defer func() {
		c.pf("END")
		if err := reg.Stop(); err != nil {
			c.t.Fatalf("stop: %v", err)
		}
	}()
	parDt := 0
	parSettle := ""
	par := func(ops []*c15op, extra func()) {
		type ans struct{ args, res string }
		out := make([]ans, len(ops))
		start := make(chan struct{})
		done := make(chan int, len(ops)+1)
		for i := range ops {
			go func(i int) {
				<-start
				a, r := c.notifyRaw(ops[i])
				out[i] = ans{a, r}
				done <- i
			}(i)
		}
		if extra != nil {
			go func() { <-start; extra(); done <- -1 }()
		}
		close(start)
		n := len(ops)
		if extra != nil {
			n++
		}
		for i := 0; i < n; i++ {
			<-done
		}
		c.settleQuiet()
		for i, o := range ops {
			c.addHash(o.hash)
			c.pf("pnotify %s => %s", out[i].args, out[i].res)
		}
		if parSettle != "" {
			c.pf("%s", parSettle)
		}
		c.pf("pend kind=%s dt=%d", kind, parDt)
		c.observe()
	}
	switch kind {
	case "keysend":
		// two (or three) links deliver keysend htlcs for the same hash at once
		iv := &c15inv{idx: 0, spont: true}
		iv.pre = lntypes.Preimage(c.rbytes())
		iv.hash = iv.pre.Hash()
		amt := []uint64{1000, 1, 31337}[c.pick(3)]
		n := 2 + c.pick(2)
		var ops []*c15op
		for i := 0; i < n; i++ {
			o := &c15op{kind: "notify", hash: iv.hash, key: c.newKey(iv), amt: amt, ht: 100}
			if c.chance(30) {
				o.amt = amt + uint64(c.pick(3)) - 1
			}
			o.exp = c.expiry(100, c.R, 85)
			o.ks = append([]byte{}, iv.pre[:]...)
			ops = append(ops, o)
		}
		par(ops, nil)
		if ksHold {
			c.doSettle(&c15op{kind: "settle", pre: iv.pre})
		}
		for _, o := range ops {
			cp := *o
			c.doNotify(&cp)
		}
	default:
		// an MPP shard is held; its hold timer fires while the shard that
		// completes the set (timer-complete) or the hold-invoice settle
		// (timer-settle) is being processed.
		iv := c.newInv(0, "regular")
		iv.feat = "tPm"
		if kind == "timer-settle" {
			iv.hodl = true
			iv.stored = false
		}
		iv.bogus = false
		c.doAddInv(iv)
		v := iv.val
		a := v / 2
		mk := func(amt uint64) *c15op {
			o := &c15op{kind: "notify", hash: iv.hash, key: c.newKey(iv), amt: amt, ht: 100,
				mpp: true, mppTotal: v, mppAddr: iv.addr}
			o.exp = uint32(100 + int64(c.R) + int64(iv.cltv) + 50)
			return o
		}
		first := mk(a)
		c.doNotify(first)
		second := mk(v - a)
		if kind == "timer-settle" {
			// complete the set first: the invoice is accepted, the first
			// shard's timer is still armed
			c.doNotify(second)
		}
		c.now = c.now.Add(c15Hold * time.Second)
		parDt = c15Hold
		advance := func() { c.clk.SetTime(c.now) }
		if kind == "timer-complete" {
			par([]*c15op{second}, advance)
		} else {
			par(nil, func() {
				advance()
				sres := c15err(c.reg.SettleHodlInvoice(context.Background(), iv.pre))
				parSettle = fmt.Sprintf("psettle pre=%s => %s", c15hx(iv.pre[:]), sres)
			})
		}
		retry := mk(a)
		c.doNotify(retry)
		for _, o := range []*c15op{first, second, retry} {
			cp := *o
			c.doNotify(&cp)
		}
	}
}

func (c *c15) genCase(tier string) {
	if c.chance(6) {
		c.genConcCase()
		return
	}
	c.n++
	c.resetKeys()
	c.R = []int32{4, 4, 10, 3, 40, 1, 0}[c.pick(7)]
	ks := c.chance(40)
	ampOn := c.chance(30)
	ksHold := c.chance(40)
	h0s := []int64{1, 100, 100, 800000, 5}
	if c.chance(4) {
		h0s = []int64{2147483647 - int64(c.R), 2147483640, 2147483647 - 45, 0}
	}
	c.h0 = h0s[c.pick(len(h0s))]
	c.height = c.h0

	kinds := []string{"regular", "regular", "regular", "hold", "hold", "legacy", "zero", "amp", "blinded", "blinded"}
	ninv := 1
	if c.chance(35) {
		ninv = 2
	}
	if c.chance(8) {
		ninv = 3
	}
	var invs []*c15inv
	streams := [][]*c15op{}
	for i := 0; i < ninv; i++ {
		kind := kinds[c.pick(len(kinds))]
		iv := c.newInv(i, kind)
		invs = append(invs, iv)
		var s []*c15op
		ng := 1 + c.pick(2)
		if c.chance(15) {
			ng = 3
		}
		for g := 0; g < ng; g++ {
			x := c.pick(100)
			switch {
			case kind == "blinded":
				if x < 75 {
					s = append(s, c.genBlinded(iv)...)
				} else if x < 88 {
					s = append(s, c.genMppSet(iv)...)
				} else if x < 95 {
					s = append(s, c.genLegacy(iv)...)
				} else {
					s = append(s, &c15op{kind: "cancel", hash: iv.hash})
				}
			case kind == "amp":
				if x < 85 {
					s = append(s, c.genAmpSet(iv)...)
				} else if x < 92 {
					s = append(s, c.genMppSet(iv)...)
				} else if x < 96 {
					s = append(s, c.genLegacy(iv)...)
				} else {
					s = append(s, &c15op{kind: "cancel", hash: iv.hash})
				}
			case iv.feat == "" || iv.feat == "tP":
				if x < 70 {
					s = append(s, c.genLegacy(iv)...)
				} else if x < 90 {
					s = append(s, c.genMppSet(iv)...)
				} else {
					s = append(s, &c15op{kind: "cancel", hash: iv.hash})
				}
			default:
				if x < 56 {
					s = append(s, c.genMppSet(iv)...)
				} else if x < 62 {
					s = append(s, c.genBlinded(iv)...)
				} else if x < 85 {
					s = append(s, c.genLegacy(iv)...)
				} else if x < 90 {
					s = append(s, c.genAmpSet(iv)...)
				} else {
					s = append(s, &c15op{kind: "cancel", hash: iv.hash})
				}
			}
			if iv.hodl {
				y := c.pick(100)
				switch {
				case y < 45:
					s = append(s, &c15op{kind: "settle", pre: iv.pre})
				case y < 60:
					s = append(s, &c15op{kind: "cancel", hash: iv.hash})
				case y < 65:
					s = append(s, &c15op{kind: "settle", pre: lntypes.Preimage(c.rbytes())})
				}
			}
		}
		streams = append(streams, s)
	}
	// spontaneous payments (keysend / AMP) as additional streams
	nextIdx := ninv
	ksPct, ampPct := 8, 4
	if ks {
		ksPct = 55
	}
	if ampOn {
		ampPct = 40
	}
	if c.chance(ksPct) {
		iv, s := c.genKeysend(nextIdx)
		nextIdx++
		invs = append(invs, iv)
		if c.chance(40) {
			s = append(s, &c15op{kind: "settle", pre: iv.pre})
		}
		if c.chance(15) {
			s = append(s, &c15op{kind: "cancel", hash: iv.hash})
		}
		streams = append(streams, s)
	}
	if c.chance(ampPct) {
		iv := &c15inv{idx: nextIdx, spont: true, addr: c.rbytes(), cltv: c.R, val: []uint64{1000, 5, 70000}[c.pick(3)]}
		nextIdx++
		invs = append(invs, iv)
		s := c.genAmpSet(iv)
		if c.chance(40) {
			s = append(s, c.genAmpSet(iv)...)
		}
		streams = append(streams, s)
	}

	// merge the streams, preserving each stream's order
	var ops []*c15op
	for {
		var live []int
		for i, s := range streams {
			if len(s) > 0 {
				live = append(live, i)
			}
		}
		if len(live) == 0 {
			break
		}
		i := live[c.pick(len(live))]
		// take a short run from the same stream to keep sets mostly together
		run := 1 + c.pick(3)
		for r := 0; r < run && len(streams[i]) > 0; r++ {
			ops = append(ops, streams[i][0])
			streams[i] = streams[i][1:]
		}
	}
	// insert replays and ticks
	var final []*c15op
	var seen []*c15op
	tickPct := []int{0, 8, 8, 25}[c.pick(4)]
	for _, o := range ops {
		if c.chance(tickPct) {
			final = append(final, &c15op{kind: "tick", dt: []int{30, 29, 1, 31, 15, 30}[c.pick(6)]})
		}
		final = append(final, o)
		if o.kind == "notify" {
			seen = append(seen, o)
		}
		if len(seen) > 0 && c.chance(18) {
			src := seen[c.pick(len(seen))]
			cp := *src
			cp.ht = c.nextHeight()
			switch c.pick(8) {
			case 0:
				cp.amt++
			case 1:
				cp.exp = 0
			case 2:
				if cp.mpp {
					cp.mppTotal++
				}
			case 3:
				cp.ht = src.ht
			case 4:
				// the identical htlc, many blocks later
				c.height += int64([]int{1, 3, 50, 1000}[c.pick(4)])
				cp.ht = c.nextHeight()
			}
			final = append(final, &cp)
		}
	}
	// the invoice expiry watcher's cancellations (time based: forced only for
	// keysend invoices; height based: always forced) and link restarts
	// (HodlUnsubscribeAll) at random places, followed later by the usual
	// replays / settles / ticks of the case
	if c.chance(30) && len(final) > 0 {
		n := 1 + c.pick(2)
		for j := 0; j < n; j++ {
			var h lntypes.Hash
			if len(invs) > 0 {
				h = invs[c.pick(len(invs))].hash
			}
			if len(seen) > 0 && c.chance(30) {
				h = seen[c.pick(len(seen))].hash
			}
			o := &c15op{kind: "expire", hash: h, force: c.chance(45)}
			at := c.pick(len(final) + 1)
			final = append(final[:at], append([]*c15op{o}, final[at:]...)...)
		}
	}
	if c.chance(12) && len(final) > 1 {
		at := 1 + c.pick(len(final))
		final = append(final[:at], append([]*c15op{{kind: "unsub"}}, final[at:]...)...)
	}
	if c.chance(30) {
		final = append(final, &c15op{kind: "tick", dt: []int{30, 29, 31}[c.pick(3)]})
		if len(seen) > 0 {
			cp := *seen[c.pick(len(seen))]
			final = append(final, &cp)
		}
	}

	if c.chance(55) {
		// replay sweep: every htlc notified so far once more, unchanged
		done := map[c15key]bool{}
		for _, o := range seen {
			if !done[o.key] {
				done[o.key] = true
				cp := *o
				final = append(final, &cp)
			}
		}
	}

	// ---- run
	reg := c.openCase(ks, ampOn, ksHold, "")
	for _, iv := range invs {
		if iv.spont {
			continue // spontaneous: no invoice is added up front
		}
		c.doAddInv(iv)
	}
	for _, o := range final {
		switch o.kind {
		case "notify":
			c.doNotify(o)
		case "settle":
			c.doSettle(o)
		case "cancel":
			c.doCancel(o)
		case "tick":
			c.doTick(o)
		case "expire":
			c.doExpire(o)
		case "unsub":
			c.doUnsub()
		}
	}
	c.pf("END")
	if err := reg.Stop(); err != nil {
		c.t.Fatalf("stop: %v", err)
	}
}

func TestVerifC15(t *testing.T) {
	out := os.Getenv("VERIF_OUT")
	if out == "" {
		t.Skip("VERIF_OUT not set")
	}
	seed, _ := strconv.ParseInt(os.Getenv("VERIF_SEED"), 10, 64)
	tier := os.Getenv("VERIF_TIER")
	store := os.Getenv("VERIF_STORE")
	if store == "" {
		store = "kv"
	}
	f, err := os.Create(out)
	if err != nil {
		t.Fatal(err)
	}
	defer f.Close()
	w := bufio.NewWriterSize(f, 1<<20)
	defer w.Flush()

	c := &c15{t: t, root: t, w: w, rng: rand.New(rand.NewSource(seed*7919 + 15)), store: store}
	c.pf("FACT hold=%d sha256empty=%s", c15Hold, c15hx(func() []byte { s := sha256.Sum256(nil); return s[:] }()))

	ncases := 2400
	if tier == "thorough" {
		ncases = 24000
	}
	if store == "sql" {
		ncases /= 3
	}
	for i := 0; i < ncases; i++ {
		t.Run("c", func(st *testing.T) {
			c.t = st
			c.genCase(tier)
		})
		c.t = t
	}
}
