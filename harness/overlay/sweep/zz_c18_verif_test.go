//go:build verif

package sweep

// C18 correspondence/monitor harness. Injected with `go test -overlay`; drives
// the real LinearFeeFunction, chainfee rate arithmetic, btcutil.Amount.MulF64
// and the real TxPublisher (initial broadcast + per-block fee bumps) and
// prints one line per operation for the Lean driver (drv_c18).

import (
	"bufio"
	"errors"
	"fmt"
	"math"
	"math/rand"
	"os"
	"runtime"
	"sort"
	"strconv"
	"strings"
	"testing"

	"github.com/btcsuite/btcd/btcutil/v2"
	"github.com/btcsuite/btcd/chainhash/v2"
	"github.com/btcsuite/btcd/rpcclient"
	"github.com/btcsuite/btcd/txscript/v2"
	"github.com/btcsuite/btcd/wire/v2"
	"github.com/btcsuite/btcwallet/chain"
	"github.com/lightningnetwork/lnd/chainntnfs"
	"github.com/lightningnetwork/lnd/fn/v2"
	"github.com/lightningnetwork/lnd/input"
	"github.com/lightningnetwork/lnd/keychain"
	"github.com/lightningnetwork/lnd/lntypes"
	"github.com/lightningnetwork/lnd/lnwallet"
	"github.com/lightningnetwork/lnd/lnwallet/chainfee"
	"github.com/lightningnetwork/lnd/tlv"
)

var (
	errC18Est   = errors.New("c18 estimator failure")
	errC18Other = errors.New("c18 other failure")
)

// ---------------------------------------------------------------------------
// fakes

type c18Est struct {
	rate  chainfee.SatPerKWeight
	fail  bool
	relay chainfee.SatPerKWeight
	calls int
}

func (e *c18Est) EstimateFeePerKW(uint32) (chainfee.SatPerKWeight, error) {
	e.calls++
	if e.fail {
		return 0, errC18Est
	}
	return e.rate, nil
}
func (e *c18Est) Start() error                          { return nil }
func (e *c18Est) Stop() error                           { return nil }
func (e *c18Est) RelayFeePerKW() chainfee.SatPerKWeight { return e.relay }

type c18Input struct {
	op    wire.OutPoint
	sd    input.SignDescriptor
	req   *wire.TxOut
	lt    uint32
	hasLt bool
	wt    input.WitnessType
	csv   uint32
	blob  bool
}

func (i *c18Input) OutPoint() wire.OutPoint            { return i.op }
func (i *c18Input) RequiredTxOut() *wire.TxOut         { return i.req }
func (i *c18Input) RequiredLockTime() (uint32, bool)   { return i.lt, i.hasLt }
func (i *c18Input) WitnessType() input.WitnessType     { return i.wt }
func (i *c18Input) SignDesc() *input.SignDescriptor    { return &i.sd }
func (i *c18Input) BlocksToMaturity() uint32           { return i.csv }
func (i *c18Input) HeightHint() uint32                 { return 1 }
func (i *c18Input) UnconfParent() *input.TxInfo        { return nil }
func (i *c18Input) ResolutionBlob() fn.Option[tlv.Blob] {
	// Inputs of custom (aux) channels carry a resolution blob; that is how
	// MaxFeeRateAllowed knows that the aux sweeper will add an extra output.
	if i.blob {
		return fn.Some(tlv.Blob{1})
	}
	return fn.None[tlv.Blob]()
}
func (i *c18Input) Preimage() fn.Option[lntypes.Preimage] {
	return fn.None[lntypes.Preimage]()
}
func (i *c18Input) CraftInputScript(input.Signer, *wire.MsgTx,
	*txscript.TxSigHashes, txscript.PrevOutputFetcher, int) (*input.Script, error) {

	return &input.Script{Witness: wire.TxWitness{[]byte{1}}}, nil
}

var _ input.Input = (*c18Input)(nil)

type c18Aux struct{ value int64 }

func (a *c18Aux) DeriveSweepAddr(_ []input.Input,
	_ lnwallet.AddrWithKey) fn.Result[SweepOutput] {

	return fn.Ok(SweepOutput{
		TxOut:       wire.TxOut{Value: a.value, PkScript: c18P2TR},
		IsExtra:     true,
		InternalKey: fn.None[keychain.KeyDescriptor](),
	})
}
func (a *c18Aux) ExtraBudgetForInputs(_ []input.Input) fn.Result[btcutil.Amount] {
	return fn.Ok(btcutil.Amount(0))
}
func (a *c18Aux) NotifyBroadcast(*BumpRequest, *wire.MsgTx, btcutil.Amount,
	map[wire.OutPoint]int) error {

	return nil
}

type c18Notifier struct{}

func (n *c18Notifier) RegisterConfirmationsNtfn(*chainhash.Hash, []byte, uint32,
	uint32, ...chainntnfs.NotifierOption) (*chainntnfs.ConfirmationEvent, error) {

	return nil, errC18Other
}
func (n *c18Notifier) RegisterSpendNtfn(*wire.OutPoint, []byte,
	uint32) (*chainntnfs.SpendEvent, error) {

	return &chainntnfs.SpendEvent{
		Spend:  make(chan *chainntnfs.SpendDetail, 1),
		Cancel: func() {},
	}, nil
}
func (n *c18Notifier) RegisterBlockEpochNtfn(
	*chainntnfs.BlockEpoch) (*chainntnfs.BlockEpochEvent, error) {

	return nil, errC18Other
}
func (n *c18Notifier) Start() error  { return nil }
func (n *c18Notifier) Started() bool { return true }
func (n *c18Notifier) Stop() error   { return nil }

// c18Wallet records every tx the publisher hands to the backend.
type c18Wallet struct {
	h       *c18
	mp      []string // scripted testmempoolaccept answers (then "ok")
	pub     []string // scripted publish answers (then "ok")
	inputs  []*c18Input
	nReq    int
	hasAux  bool
	backend string
	utxos   []*lnwallet.Utxo
}

func c18ErrOf(s string) error {
	switch s {
	case "ok":
		return nil
	case "insuff":
		return chain.ErrInsufficientFee
	case "minrelay":
		return chain.ErrMinRelayFeeNotMet
	case "mempoolmin":
		return chain.ErrMempoolMinFeeNotMet
	case "mempoolfee":
		return lnwallet.ErrMempoolFee
	case "missing":
		return chain.ErrMissingInputs
	case "unimpl":
		return chain.ErrUnimplemented
	case "backendver":
		return rpcclient.ErrBackendVersion
	default:
		return errC18Other
	}
}

func (w *c18Wallet) describe(via string, tx *wire.MsgTx) {
	var ins []string
	var sumIn int64
	for _, ti := range tx.TxIn {
		idx := -1
		for k, inp := range w.inputs {
			if inp.op == ti.PreviousOutPoint {
				idx = k
				sumIn += inp.sd.Output.Value
			}
		}
		ins = append(ins, strconv.Itoa(idx))
	}
	// classify outputs by position: required outputs first (one per
	// required-output input, in tx input order), then the aux extra output
	// (if any), then the change output.
	nreq := 0
	for _, ti := range tx.TxIn {
		for _, inp := range w.inputs {
			if inp.op == ti.PreviousOutPoint && inp.req != nil {
				nreq++
			}
		}
	}
	var outs []string
	var sumOut int64
	for k, to := range tx.TxOut {
		kind := "c"
		switch {
		case k < nreq:
			kind = "r"
		case w.hasAux && k == nreq:
			kind = "x"
		}
		sumOut += to.Value
		outs = append(outs, fmt.Sprintf("%s%d", kind, to.Value))
	}
	j := func(s []string) string {
		if len(s) == 0 {
			return "-"
		}
		return strings.Join(s, ",")
	}
	w.h.pf("tx via=%s ins=%s outs=%s locktime=%d sumin=%d sumout=%d",
		via, j(ins), j(outs), tx.LockTime, sumIn, sumOut)
}

func (w *c18Wallet) CheckMempoolAcceptance(tx *wire.MsgTx) error {
	w.describe("check", tx)
	a := "ok"
	if len(w.mp) > 0 {
		a, w.mp = w.mp[0], w.mp[1:]
	}
	return c18ErrOf(a)
}
func (w *c18Wallet) PublishTransaction(tx *wire.MsgTx, _ string) error {
	w.describe("publish", tx)
	a := "ok"
	if len(w.pub) > 0 {
		a, w.pub = w.pub[0], w.pub[1:]
	}
	return c18ErrOf(a)
}
func (w *c18Wallet) ListUnspentWitnessFromDefaultAccount(int32,
	int32) ([]*lnwallet.Utxo, error) {

	// a fresh slice: AddWalletInputs sorts it in place
	return append([]*lnwallet.Utxo(nil), w.utxos...), nil
}
func (w *c18Wallet) WithCoinSelectLock(f func() error) error { return f() }
func (w *c18Wallet) RemoveDescendants(*wire.MsgTx) error      { return nil }
func (w *c18Wallet) FetchTx(chainhash.Hash) (*wire.MsgTx, error) {
	return nil, nil
}
func (w *c18Wallet) CancelRebroadcast(chainhash.Hash) {}
func (w *c18Wallet) GetTransactionDetails(*chainhash.Hash) (
	*lnwallet.TransactionDetail, error) {

	return nil, errC18Other
}
func (w *c18Wallet) BackEnd() string { return w.backend }

var _ Wallet = (*c18Wallet)(nil)

// ---------------------------------------------------------------------------
// scripts

var (
	c18P2TR  = append([]byte{0x51, 0x20}, make([]byte, 32)...)
	c18P2WSH = append([]byte{0x00, 0x20}, make([]byte, 32)...)
	c18P2WKH = append([]byte{0x00, 0x14}, make([]byte, 20)...)
)

func c18Script(name string) []byte {
	switch name {
	case "p2tr":
		return c18P2TR
	case "p2wsh":
		return c18P2WSH
	default:
		return c18P2WKH
	}
}

// ---------------------------------------------------------------------------
// harness state

type c18 struct {
	w    *bufio.Writer
	rng  *rand.Rand
	n    int
	tier string
}

func (c *c18) pf(format string, a ...interface{}) { fmt.Fprintf(c.w, format+"\n", a...) }

func (c *c18) pick(vals ...int64) int64 { return vals[c.rng.Intn(len(vals))] }

// near returns v+d for a small boundary offset d.
func (c *c18) near(v int64) int64 {
	return v + c.pick(-2, -1, 0, 0, 0, 1, 2)
}

func c18ErrName(err error) string {
	switch {
	case err == nil:
		return "none"
	case errors.Is(err, ErrNotEnoughBudget):
		return "budget"
	case errors.Is(err, ErrNotEnoughInputs):
		return "inputs"
	case errors.Is(err, ErrTxNoOutput):
		return "nooutput"
	case errors.Is(err, ErrMaxPosition):
		return "maxpos"
	case errors.Is(err, ErrZeroFeeRateDelta):
		return "zerodelta"
	case errors.Is(err, ErrLocktimeImmature):
		return "immature"
	case errors.Is(err, ErrLocktimeConflict):
		return "conflict"
	case errors.Is(err, ErrInputMissing):
		return "missing"
	case errors.Is(err, ErrUnknownSpent):
		return "unknownspend"
	case errors.Is(err, ErrFeePreferenceTooLow):
		return "toolow"
	case errors.Is(err, errC18Est):
		return "est"
	case errors.Is(err, chain.ErrInsufficientFee):
		return "insuff"
	case errors.Is(err, lnwallet.ErrMempoolFee):
		return "mempoolfee"
	case errors.Is(err, chain.ErrMinRelayFeeNotMet):
		return "minrelay"
	case errors.Is(err, chain.ErrMempoolMinFeeNotMet):
		return "mempoolmin"
	case errors.Is(err, errC18Other):
		return "other"
	default:
		return "unknown"
	}
}

// ---------------------------------------------------------------------------
// (0) float / rate arithmetic probes

func (c *c18) mulf(a int64, n, d uint64) {
	r := btcutil.Amount(a).MulF64(float64(n) / float64(d))
	c.pf("mulf %d %d %d => %d", a, n, d, int64(r))
}

func (c *c18) randA() int64 {
	switch c.rng.Intn(10) {
	case 0:
		return c.pick(0, 1, 2, 3, 999, 1000, 1001)
	case 1:
		return c.near(1 << 53)
	case 2:
		return c.near(1<<53) + c.pick(0, 2, 4, 6, 1<<10)
	case 3:
		// odd/even tie neighbourhoods above 2^53: multiples of 2 +-1
		k := c.rng.Int63n(1 << 20)
		return (1 << 54) + 4*k + c.pick(0, 1, 2, 3)
	case 4:
		return c.rng.Int63n(1 << 40)
	case 5:
		return c.rng.Int63n(1 << 20)
	case 6:
		return c.rng.Int63() >> uint(c.rng.Intn(12))
	case 7:
		return -(c.rng.Int63() >> uint(1+c.rng.Intn(40)))
	case 8:
		return c.pick(253, 250, 2500, 250000, 2100000000000000)
	default:
		return c.rng.Int63n(1 << 53)
	}
}

func (c *c18) floatCase(count int) {
	c.n++
	c.pf("CASE %d kind=float", c.n)
	for i := 0; i < count; i++ {
		a := c.randA()
		var n, d uint64
		switch c.rng.Intn(6) {
		case 0: // delta computation shape: 1000 / width
			n, d = 1000, uint64(1+c.rng.Intn(2100))
		case 1: // feeRateAtPosition shape: p / 1000
			n, d = uint64(c.rng.Intn(2100)), 1000
		case 2: // NewSatPerKWeight shape: 1000 / weight
			n, d = 1000, uint64(200+c.rng.Intn(40000))
		case 3:
			n, d = uint64(c.rng.Int63n(1<<32)), uint64(1+c.rng.Int63n(1<<32))
		case 4:
			n, d = uint64(c.rng.Int63()), uint64(1+c.rng.Int63())
		default:
			n, d = uint64(c.pick(0, 1, 2, 3, 1000)), uint64(c.pick(1, 2, 3, 7, 1000))
		}
		// keep the magnitude of the result inside int64 for most probes
		// (a few overflowing ones are kept on purpose).
		est := math.Abs(float64(a)) * (float64(n) / float64(d))
		if est >= 9.2e18 && c.rng.Intn(20) != 0 {
			a = a >> 32
		}
		c.mulf(a, n, d)
	}
	for i := 0; i < count/4; i++ {
		b := c.rng.Int63n(1 << uint(1+c.rng.Intn(50)))
		w := uint64(1 + c.rng.Intn(40000))
		c.pf("nspk %d %d => %d", b, w,
			int64(chainfee.NewSatPerKWeight(btcutil.Amount(b), lntypes.WeightUnit(w))))
		r := c.rng.Int63n(1 << uint(1+c.rng.Intn(40)))
		c.pf("ffw %d %d => %d", r, w,
			int64(chainfee.SatPerKWeight(r).FeeForWeight(lntypes.WeightUnit(w))))
		h := int32(c.rng.Intn(2000))
		dl := int32(c.rng.Intn(2000)) - 200
		if c.rng.Intn(4) == 0 {
			dl = h + int32(c.pick(-2, -1, 0, 1, 2))
		}
		c.pf("cct %d %d => %d", h, dl, calcCurrentConfTarget(h, dl))
	}
	// fixed-width behaviour (compared with the model, which reproduces the
	// wrap-around; the monitor judges these only inside the realistic
	// domain): int64 product of FeeForWeight, int32 subtraction of
	// calcCurrentConfTarget.
	for i := 0; i < count/8; i++ {
		var r int64
		switch c.rng.Intn(5) {
		case 0:
			r = c.rng.Int63()
		case 1:
			r = -c.rng.Int63()
		case 2:
			r = c.near(1 << 62)
		case 3:
			r = c.pick(math.MaxInt64, math.MinInt64, math.MaxInt64-1, 1<<62, 1<<61, -1, 0)
		default:
			r = c.rng.Int63() >> uint(c.rng.Intn(24))
		}
		var w uint64
		switch c.rng.Intn(5) {
		case 0:
			w = uint64(c.pick(0, 1, 2, 3, 4, 999, 1000, 1001))
		case 1:
			w = c.rng.Uint64()
		case 2:
			w = uint64(1<<63) + uint64(c.pick(-2, -1, 0, 1, 2))
		default:
			w = uint64(200 + c.rng.Intn(400000))
		}
		c.pf("ffw %d %d => %d", r, w,
			int64(chainfee.SatPerKWeight(r).FeeForWeight(lntypes.WeightUnit(w))))
		var h, dl int32
		switch c.rng.Intn(4) {
		case 0:
			h = int32(c.pick(math.MinInt32, math.MaxInt32, -1, 0, 1, math.MinInt32+1))
			dl = int32(c.pick(math.MinInt32, math.MaxInt32, -1, 0, 1, math.MaxInt32-1))
		case 1:
			h, dl = int32(c.rng.Uint32()), int32(c.rng.Uint32())
		case 2:
			h = int32(c.rng.Int31())
			dl = h + int32(c.pick(-2, -1, 0, 1, 2, math.MaxInt32, math.MinInt32))
		default:
			h, dl = int32(c.rng.Int31()), int32(c.rng.Int31())
		}
		c.pf("cct %d %d => %d", h, dl, calcCurrentConfTarget(h, dl))
	}
	c.pf("END")
}

// ---------------------------------------------------------------------------
// (i) LinearFeeFunction

func (c *c18) ffState(l *LinearFeeFunction) string {
	return fmt.Sprintf("start=%d end=%d cur=%d width=%d pos=%d delta=%d",
		int64(l.startingFeeRate), int64(l.endingFeeRate),
		int64(l.currentFeeRate), l.width, l.position,
		int64(l.deltaFeeRate))
}

func (c *c18) randWidthCT() uint32 {
	switch c.rng.Intn(12) {
	case 0:
		return uint32(c.pick(0, 1, 2, 3))
	case 1:
		return uint32(c.pick(1007, 1008, 1009, 2016, 2017))
	case 2:
		return uint32(c.pick(1<<31-1, 1<<31, 1<<32-1, 100000))
	case 3, 4:
		return uint32(2 + c.rng.Intn(2100))
	case 5:
		return uint32(c.pick(144, 145, 6, 10, 12, 18, 20, 40, 80))
	default:
		return uint32(2 + c.rng.Intn(30))
	}
}

func (c *c18) randRate() int64 {
	switch c.rng.Intn(10) {
	case 0:
		return c.pick(0, 1, 2, 250, 253, 254)
	case 1:
		return c.pick(250000, 249999, 250001, 2500, 1000)
	case 2:
		return c.rng.Int63n(1 << 50)
	case 3:
		return c.near(1 << 52)
	case 4:
		return c.rng.Int63n(1 << 31)
	default:
		return 253 + c.rng.Int63n(300000)
	}
}

func (c *c18) ffCase(long bool) {
	c.n++
	ct := c.randWidthCT()
	end := c.randRate()
	width := int64(ct) - 1

	// The property's domain is 0 < relay fee <= ceiling (otherwise the relay
	// floor and the cap contradict each other); a few cases outside it are
	// kept for the model-vs-code comparison only (the driver does not judge
	// them).
	relayPick := c.pick(253, 253, 250, 1000, 1)
	if c.rng.Intn(40) == 0 {
		relayPick = 0
	}
	if relayPick > end && c.rng.Intn(12) != 0 {
		if end > 0 {
			relayPick = 1 + c.rng.Int63n(end)
		} else {
			end = relayPick + c.rng.Int63n(1000)
		}
	}

	// start: relation with end and the width.
	var start int64
	switch c.rng.Intn(12) {
	case 0:
		start = end
	case 1:
		start = end - c.pick(1, 2, 3)
	case 2: // end - start just around width (delta around 1000 msat)
		start = end - (width + c.pick(-2, -1, 0, 1, 2))
	case 3: // end - start just around width/2000 .. rounding of delta to 0
		start = end - (width/2000 + c.pick(-1, 0, 1))
	case 4: // start above end (caller supplied / uncapped estimate)
		start = end + 1 + c.rng.Int63n(1+end/2+1000)
	case 5:
		start = c.pick(0, 1, 250, 253)
	default:
		if end > 0 {
			start = c.rng.Int63n(end + 1)
		}
	}
	if start < 0 {
		start = 0
	}

	est := &c18Est{relay: chainfee.SatPerKWeight(relayPick)}
	startOpt := fn.None[chainfee.SatPerKWeight]()
	startS, estS := "none", "none"
	switch c.rng.Intn(10) {
	case 0, 1, 2: // estimated
		est.rate = chainfee.SatPerKWeight(start)
		if c.rng.Intn(4) == 0 {
			est.relay = chainfee.SatPerKWeight(c.near(start))
			if est.relay < 1 {
				est.relay = 1
			}
			if int64(est.relay) > end && c.rng.Intn(8) != 0 && end > 0 {
				est.relay = chainfee.SatPerKWeight(end)
			}
		}
		estS = strconv.FormatInt(start, 10)
	case 3: // estimator error
		est.fail = true
		estS = "err"
	default:
		startOpt = fn.Some(chainfee.SatPerKWeight(start))
		startS = strconv.FormatInt(start, 10)
	}

	c.pf("CASE %d kind=ff end=%d ct=%d start=%s est=%s relay=%d", c.n, end,
		ct, startS, estS, int64(est.relay))

	l, err := NewLinearFeeFunction(chainfee.SatPerKWeight(end), ct, est, startOpt)
	if err != nil {
		c.pf("new => err=%s estcalls=%d", c18ErrName(err), est.calls)
		c.pf("END")
		return
	}
	c.pf("new => ok %s estcalls=%d", c.ffState(l), est.calls)

	nops := 4 + c.rng.Intn(24)
	if long {
		nops = int(l.width) + 4
		if nops > 2300 {
			nops = 2300
		}
	}
	// a walking conf target (deadline - height) with skipped blocks
	cur := int64(ct)
	mode := c.rng.Intn(4)
	if long {
		mode = c.rng.Intn(2)
	}
	for i := 0; i < nops; i++ {
		var kind int
		switch mode {
		case 0: // only Increment
			kind = 0
		case 1: // block driven
			kind = 1
		default:
			kind = c.rng.Intn(4)
		}
		switch kind {
		case 0:
			inc, err := l.Increment()
			c.pf("inc => inc=%v err=%s rate=%d pos=%d", inc,
				c18ErrName(err), int64(l.FeeRate()), l.position)
		case 1:
			step := c.pick(1, 1, 1, 1, 2, 3, 0)
			if c.rng.Intn(30) == 0 {
				step = c.rng.Int63n(1 + int64(l.width))
			}
			cur -= step
			if cur < 0 {
				cur = 0
			}
			inc, err := l.IncreaseFeeRate(uint32(cur))
			c.pf("ict %d => inc=%v err=%s rate=%d pos=%d", cur, inc,
				c18ErrName(err), int64(l.FeeRate()), l.position)
		case 2: // arbitrary conf target
			var x uint32
			switch c.rng.Intn(5) {
			case 0:
				x = uint32(c.pick(0, 1, 2))
			case 1:
				x = uint32(c.near(int64(l.width) + 1))
			case 2:
				x = uint32(c.rng.Int63n(int64(l.width) + 3))
			case 3:
				x = uint32(c.pick(1<<32-1, 1<<31))
			default:
				x = uint32(c.near(int64(l.width) - int64(l.position)))
			}
			inc, err := l.IncreaseFeeRate(x)
			c.pf("ict %d => inc=%v err=%s rate=%d pos=%d", x, inc,
				c18ErrName(err), int64(l.FeeRate()), l.position)
		default: // pure probe of the schedule
			p := uint32(c.rng.Int63n(int64(l.width) + 3))
			if c.rng.Intn(3) == 0 {
				p = uint32(c.near(int64(l.width)))
			}
			c.pf("at %d => %d", p, int64(l.feeRateAtPosition(p)))
		}
	}
	c.pf("END")
}

// ffRawCase drives a LinearFeeFunction whose fields are set directly (not
// through the constructor): widths and positions at the uint32 boundary,
// starting rates at the int64 boundary. These states cannot come out of
// NewLinearFeeFunction; the case only compares the code's fixed-width
// arithmetic (uint32 `width+1`, `position+1`, int64 `start+delta`) with the
// model's. The monitor does not judge it.
func (c *c18) ffRawCase() {
	c.n++
	width := uint32(c.pick(math.MaxUint32, math.MaxUint32-1, math.MaxUint32-2,
		1<<31, 1<<31-1, 5, 1, 0))
	var pos uint32
	switch c.rng.Intn(4) {
	case 0:
		pos = 0
	case 1:
		pos = width - uint32(c.pick(0, 1, 2, 3))
	case 2:
		pos = uint32(c.pick(math.MaxUint32, math.MaxUint32-1, 0, 1))
	default:
		pos = c.rng.Uint32()
	}
	end := c.randRate()
	if c.rng.Intn(3) == 0 {
		end = c.pick(math.MaxInt64, math.MaxInt64-1, 1<<62)
	}
	start := c.rng.Int63n(end/2 + 1)
	if c.rng.Intn(3) == 0 {
		start = c.pick(math.MaxInt64, math.MaxInt64-1000, math.MinInt64, -1, end)
	}
	delta := c.pick(0, 1, 999, 1000, 1001, 1<<20, 1<<40, -1000, -(1 << 30))
	l := &LinearFeeFunction{
		startingFeeRate: chainfee.SatPerKWeight(start),
		endingFeeRate:   chainfee.SatPerKWeight(end),
		currentFeeRate:  chainfee.SatPerKWeight(start),
		width:           width,
		position:        pos,
		deltaFeeRate:    mSatPerKWeight(delta),
	}
	c.pf("CASE %d kind=ffraw", c.n)
	c.pf("raw %s", c.ffState(l))
	for i := 0; i < 10; i++ {
		switch c.rng.Intn(3) {
		case 0:
			inc, err := l.Increment()
			c.pf("inc => inc=%v err=%s rate=%d pos=%d", inc,
				c18ErrName(err), int64(l.FeeRate()), l.position)
		case 1:
			var x uint32
			switch c.rng.Intn(4) {
			case 0:
				x = uint32(c.pick(0, 1, 2))
			case 1:
				x = width - uint32(c.pick(0, 1, 2)) + uint32(c.pick(0, 1, 2))
			case 2:
				x = uint32(c.pick(math.MaxUint32, math.MaxUint32-1, 1<<31))
			default:
				x = c.rng.Uint32()
			}
			inc, err := l.IncreaseFeeRate(x)
			c.pf("ict %d => inc=%v err=%s rate=%d pos=%d", x, inc,
				c18ErrName(err), int64(l.FeeRate()), l.position)
		default:
			p := uint32(c.pick(0, 1, 2, 1000, 1001, 1<<31, math.MaxUint32))
			if c.rng.Intn(2) == 0 {
				p = width - uint32(c.pick(0, 1, 2))
			}
			c.pf("at %d => %d", p, int64(l.feeRateAtPosition(p)))
		}
	}
	c.pf("END")
}

// ---------------------------------------------------------------------------
// (ii) TxPublisher

var c18WitnessTypes = []input.StandardWitnessType{
	input.WitnessKeyHash, input.CommitmentTimeLock, input.CommitmentNoDelay,
	input.HtlcAcceptedRemoteSuccess, input.HtlcOfferedRemoteTimeout,
	input.CommitmentAnchor, input.TaprootPubKeySpend,
	input.NestedWitnessKeyHash, input.HtlcOfferedTimeoutSecondLevel,
	input.TaprootLocalCommitSpend, input.CommitSpendNoDelayTweakless,
}

func (c *c18) randValue() int64 {
	switch c.rng.Intn(8) {
	case 0:
		return c.pick(0, 1, 293, 294, 295, 329, 330, 331, 353, 354, 355, 546)
	case 1:
		return 330 + c.rng.Int63n(2000)
	case 2:
		return c.rng.Int63n(100000)
	case 3:
		return 100000000 + c.rng.Int63n(1<<40)
	default:
		return 1000 + c.rng.Int63n(5000000)
	}
}

func (c *c18) resLine(tp *TxPublisher, rec *monitorRecord, sub chan *BumpResult) {
	var res *BumpResult
	select {
	case res = <-sub:
	default:
	}
	ffs := "ff=nil"
	if rec.feeFunction != nil {
		if l, ok := rec.feeFunction.(*LinearFeeFunction); ok {
			ffs = fmt.Sprintf("ff=ok cur=%d pos=%d width=%d ffend=%d ffstart=%d",
				int64(l.currentFeeRate), l.position, l.width,
				int64(l.endingFeeRate), int64(l.startingFeeRate))
		}
	}
	_, live := tp.records.Load(rec.requestID)
	if res == nil {
		c.pf("res => event=none err=none rate=0 fee=0 recfee=%d live=%v %s",
			int64(rec.fee), live, ffs)
		return
	}
	c.pf("res => event=%s err=%s rate=%d fee=%d recfee=%d live=%v %s",
		res.Event, c18ErrName(res.Err), int64(res.FeeRate), int64(res.Fee),
		int64(rec.fee), live, ffs)
}

func (c *c18) randAnswers(p int) []string {
	var out []string
	for c.rng.Intn(100) < p {
		switch c.rng.Intn(12) {
		case 0, 1, 2, 3:
			out = append(out, "insuff")
		case 4:
			out = append(out, "minrelay")
		case 5:
			out = append(out, "mempoolmin")
		case 6:
			out = append(out, "mempoolfee")
		case 7:
			out = append(out, "missing")
		case 8:
			out = append(out, "unimpl")
		case 9:
			out = append(out, "backendver")
		case 10:
			out = append(out, "other")
		default:
			out = append(out, "ok")
		}
		if len(out) > 6 {
			break
		}
	}
	return out
}

func c18Join(s []string) string {
	if len(s) == 0 {
		return "-"
	}
	return strings.Join(s, ",")
}

func (c *c18) pubCase() {
	c.n++
	script := []string{"p2tr", "p2wkh", "p2wsh"}[c.rng.Intn(3)]
	delivery := lnwallet.AddrWithKey{DeliveryAddress: c18Script(script)}
	dust := int64(lnwallet.DustLimitForSize(len(delivery.DeliveryAddress)))

	height0 := int32(100 + c.rng.Intn(1000))

	// inputs
	nin := 1 + c.rng.Intn(4)
	if c.rng.Intn(10) == 0 {
		nin = 1 + c.rng.Intn(12)
	}
	// "tight" sets (see below): need a required output next to a plain
	// input so that a below-dust change is folded into the fee instead of
	// failing with ErrTxNoOutput.
	tight := c.rng.Intn(3) == 0
	if tight && nin < 2 {
		nin = 2
	}
	var (
		inputs  []*c18Input
		iface   []input.Input
		sumVal  int64
		nReq    int
		ltUsed  uint32
		ltLines []string
	)
	for k := 0; k < nin; k++ {
		var h chainhash.Hash
		c.rng.Read(h[:])
		v := c.randValue()
		inp := &c18Input{
			op: wire.OutPoint{Hash: h, Index: uint32(k)},
			sd: input.SignDescriptor{Output: &wire.TxOut{Value: v, PkScript: c18P2WSH}},
			wt: c18WitnessTypes[c.rng.Intn(len(c18WitnessTypes))],
		}
		reqS, ltS := "none", "none"
		if (c.rng.Intn(5) == 0 && !(tight && k == 0)) || (tight && k == 1 && c.rng.Intn(4) != 0) {
			// second-level style input: commits to an output of
			// (about) its own value.
			rv := v + c.pick(0, 0, 0, -1, 1, -100, 100)
			if c.rng.Intn(6) == 0 {
				rv = c.randValue()
			}
			if rv < 0 {
				rv = 0
			}
			// The aggregator (BudgetAggregator.filterInputs) never hands an
			// input with a dust required output to the publisher: apply
			// the same real filter here (boundary values 329/330/331 are
			// generated, 329 is dropped as the aggregator would).
			if c.rng.Intn(8) == 0 {
				rv = c.pick(329, 330, 331, 332)
			}
			reqOut := &wire.TxOut{Value: rv, PkScript: c18P2WSH}
			if !isDustOutput(reqOut) {
				inp.req = reqOut
				inp.wt = input.HtlcOfferedTimeoutSecondLevel
				reqS = strconv.FormatInt(rv, 10)
				nReq++
			}
		}
		if c.rng.Intn(5) == 0 {
			lt := uint32(height0) - uint32(c.rng.Intn(50))
			switch c.rng.Intn(8) {
			case 0:
				lt = uint32(height0) + uint32(c.pick(0, 1, 2, 30))
			case 1, 2, 3:
				if ltUsed != 0 {
					lt = ltUsed
				}
			}
			inp.lt, inp.hasLt = lt, true
			ltUsed = lt
			ltS = strconv.FormatUint(uint64(lt), 10)
		}
		inputs = append(inputs, inp)
		iface = append(iface, inp)
		ltLines = append(ltLines, fmt.Sprintf("req=%s lt=%s", reqS, ltS))
	}

	// aux sweeper
	var auxOpt fn.Option[AuxSweeper]
	auxS := "none"
	var auxVal int64
	if c.rng.Intn(8) == 0 {
		// extra output of the aux sweeper (p2tr): a well-behaved aux sweeper
		// does not ask for a dust output (lnd's own MockAuxSweeper uses 123,
		// which is below the p2tr dust limit; not reproduced here).
		auxVal = c.pick(330, 331, 354, 1000, 10000)
		auxOpt = fn.Some[AuxSweeper](&c18Aux{value: auxVal})
		auxS = strconv.FormatInt(auxVal, 10)
		for _, inp := range inputs {
			inp.blob = true
		}
	}

	// weights from the real estimator (trusted: not modelled).
	scripts := [][]byte{delivery.DeliveryAddress}
	budgetScripts := [][]byte{delivery.DeliveryAddress}
	if auxS != "none" {
		scripts = append(scripts, c18P2TR)
		// as in MaxFeeRateAllowed when an input carries a blob
		budgetScripts = append(budgetScripts, dummyChangePkScript)
	}
	wb, werr := calcSweepTxWeight(iface, budgetScripts)
	_, we, werr2 := getWeightEstimate(iface, nil, 1, 0, scripts)
	if werr != nil || werr2 != nil {
		c.pf("CASE %d kind=skip", c.n)
		c.pf("END")
		return
	}
	wtx := int64(we.weight())

	// rates / budget
	maxRate := c.pick(250000, 250000, 250000, 2500, 1000, 300, 253, 100000000,
		1<<40, 10000)
	if c.rng.Intn(6) == 0 {
		// keep rate*weight inside int64 (model domain: no int64 overflow
		// in FeeForWeight).
		maxRate = c.randRate() % (1 << 44)
	}
	relay := c.pick(253, 253, 253, 250, 1000, 5000)

	// "tight" sets: the change left after the fee is around the dust limit
	// at some rate of the ramp, so that bumps cross the dust threshold.
	tightFee := int64(-1)
	if tight {
		var plain *c18Input
		var need int64 = auxVal
		for _, inp := range inputs {
			if inp.req == nil && plain == nil {
				plain = inp
				continue
			}
			need -= inp.sd.Output.Value
			if inp.req != nil {
				need += inp.req.Value
			}
		}
		if plain != nil {
			r := relay + c.rng.Int63n(1+c.pick(10, 1000, 5000, maxRate))
			v := need + r*wtx/1000 + c.pick(0, 1, dust-1, dust, dust+1, 2*dust,
				c.rng.Int63n(3*dust))
			if v >= 0 {
				plain.sd.Output.Value = v
				tightFee = r * wtx / 1000
			}
		}
	}
	for k, inp := range inputs {
		sumVal += inp.sd.Output.Value
		ltLines[k] = fmt.Sprintf("in idx=%d value=%d %s", k,
			inp.sd.Output.Value, ltLines[k])
	}

	var budget int64
	switch c.rng.Intn(10) {
	case 0:
		budget = c.pick(0, 1, 2, 100)
	case 1: // budget around the relay-fee fee of this tx
		budget = c.near(relay * wtx / 1000)
	case 2: // budget around the max-rate fee of this tx
		budget = c.near(maxRate * int64(wb) / 1000)
		if budget < 0 || budget > 1<<50 {
			budget = c.rng.Int63n(1 << 40)
		}
	case 3: // around the total value
		budget = c.near(sumVal)
	case 4:
		budget = sumVal / 2
	case 5:
		budget = c.rng.Int63n(1 + sumVal*2)
	default:
		budget = relay*wtx/1000 + c.rng.Int63n(1+20*relay*wtx/1000)
	}
	if tightFee >= 0 && c.rng.Intn(2) == 0 {
		// budget between the rate-implied fee and that fee plus the dust
		// limit: whether the folded dust change still fits decides.
		budget = tightFee + c.pick(-1, 0, 1, dust/2, dust-1, dust, dust+1, 2*dust,
			c.rng.Int63n(2*dust))
	}
	if budget < 0 {
		budget = 0
	}
	// property domain: relay fee <= ceiling = min(budget rate, MaxFeeRate);
	// keep ~1 in 10 of the cases outside it (compared with the model, not
	// judged by the monitor).
	if c.rng.Intn(10) != 0 {
		if maxRate < relay {
			maxRate = relay + c.pick(0, 1, 47, 1000, 250000)
		}
		if budget*1000/int64(wb) <= relay {
			budget = relay*int64(wb)/1000 + 1 + c.pick(0, 1, 2, dust, c.rng.Int63n(1+relay*int64(wb)/100))
		}
	}

	deadlineDelta := int32(c.randWidthCT() % 1200)
	switch c.rng.Intn(10) {
	case 0:
		deadlineDelta = int32(c.pick(-3, -1, 0, 1, 2))
	case 1, 2, 3, 4:
		deadlineDelta = int32(2 + c.rng.Intn(12))
	}
	deadline := height0 + deadlineDelta

	est := &c18Est{relay: chainfee.SatPerKWeight(relay)}
	estS := ""
	switch c.rng.Intn(10) {
	case 0:
		est.fail = true
		estS = "err"
	case 1: // way above any budget
		est.rate = chainfee.SatPerKWeight(maxRate + 1 + c.rng.Int63n(1000000))
	case 2: // below relay
		est.rate = chainfee.SatPerKWeight(c.near(relay))
		if est.rate < 0 {
			est.rate = 0
		}
	default:
		ceil := budget * 1000 / int64(wb)
		if ceil > maxRate {
			ceil = maxRate
		}
		span := ceil - relay
		if span < 1 || c.rng.Intn(8) == 0 {
			span = 5000
		}
		est.rate = chainfee.SatPerKWeight(relay + c.rng.Int63n(span))
	}
	if estS == "" {
		estS = strconv.FormatInt(int64(est.rate), 10)
	}

	startOpt := fn.None[chainfee.SatPerKWeight]()
	startS := "none"
	if c.rng.Intn(4) == 0 {
		var s int64
		switch c.rng.Intn(6) {
		case 0: // above the configured maximum
			s = maxRate + 1 + c.rng.Int63n(1+maxRate)
		case 1:
			s = c.near(maxRate)
		case 2:
			s = c.pick(0, 1, 250, 253)
		default:
			s = relay + c.rng.Int63n(3000)
		}
		if s < 0 {
			s = 0
		}
		startOpt = fn.Some(chainfee.SatPerKWeight(s))
		startS = strconv.FormatInt(s, 10)
	}

	c.runPub(&c18Pub{
		inputs: inputs, iface: iface, nReq: nReq, auxOpt: auxOpt, auxS: auxS,
		est: est, estS: estS, height0: height0, budget: budget, deadline: deadline,
		deadlineDelta: deadlineDelta, delivery: delivery, script: script, dust: dust,
		maxRate: maxRate, relay: relay, startOpt: startOpt, startS: startS,
		wb: wb, wtx: wtx, ltLines: ltLines,
	})
}

// c18Pub is a fully specified publisher case.
type c18Pub struct {
	inputs        []*c18Input
	iface         []input.Input
	nReq          int
	auxOpt        fn.Option[AuxSweeper]
	auxS          string
	est           *c18Est
	estS          string
	height0       int32
	budget        int64
	deadline      int32
	deadlineDelta int32
	delivery      lnwallet.AddrWithKey
	script        string
	dust          int64
	maxRate       int64
	relay         int64
	startOpt      fn.Option[chainfee.SatPerKWeight]
	startS        string
	wb            lntypes.WeightUnit
	wtx           int64
	ltLines       []string
	// extra header fields (cases derived from an aggregator case)
	extraHdr string
	// no scripted mempool / publish failures
	calm bool
	// one bump per block, up to and including the deadline
	allBlocks bool
}

// runPub drives the real TxPublisher for one request: initial broadcast and
// one fee bump per (possibly skipped) block.
func (c *c18) runPub(p *c18Pub) {
	inputs, iface, nReq, auxOpt, auxS := p.inputs, p.iface, p.nReq, p.auxOpt, p.auxS
	est, estS, height0, budget, deadline := p.est, p.estS, p.height0, p.budget, p.deadline
	deadlineDelta, delivery, script, dust := p.deadlineDelta, p.delivery, p.script, p.dust
	maxRate, relay, startOpt, startS := p.maxRate, p.relay, p.startOpt, p.startS
	wb, wtx, ltLines := p.wb, p.wtx, p.ltLines

	wallet := &c18Wallet{h: c, inputs: inputs, nReq: nReq,
		hasAux: auxS != "none", backend: "bitcoind"}
	tp := NewTxPublisher(TxPublisherConfig{
		Estimator:  est,
		Wallet:     wallet,
		Notifier:   &c18Notifier{},
		AuxSweeper: auxOpt,
	})
	tp.currentHeight.Store(height0)

	req := &BumpRequest{
		Budget:          btcutil.Amount(budget),
		Inputs:          iface,
		DeadlineHeight:  deadline,
		DeliveryAddress: delivery,
		MaxFeeRate:      chainfee.SatPerKWeight(maxRate),
		StartingFeeRate: startOpt,
	}

	c.pf("CASE %d kind=pub budget=%d maxrate=%d deadline=%d start=%s est=%s relay=%d "+
		"script=%s dust=%d aux=%s wb=%d wtx=%d reqscript=p2wsh auxscript=p2tr%s", c.n, budget,
		maxRate, deadline, startS, estS, relay, script, dust, auxS, int64(wb), wtx, p.extraHdr)
	for _, l := range ltLines {
		c.pf("%s", l)
	}
	mfra, err := req.MaxFeeRateAllowed()
	if err != nil {
		c.pf("mfra => err")
	} else {
		c.pf("mfra => %d", int64(mfra))
	}

	rec := tp.storeInitialRecord(req)
	sub := make(chan *BumpResult, 4)
	tp.subscriberChans.Store(rec.requestID, sub)

	wallet.mp = c.randAnswers(30)
	if p.calm {
		wallet.mp = nil
	}
	wallet.pub = nil
	if c.rng.Intn(10) == 0 && !p.calm {
		wallet.pub = []string{[]string{"insuff", "other", "mempoolfee"}[c.rng.Intn(3)]}
	}
	c.pf("op init height=%d mp=%s pub=%s", height0, c18Join(wallet.mp),
		c18Join(wallet.pub))
	func() {
		defer func() {
			if r := recover(); r != nil {
				c.pf("panic %v", r)
			}
		}()
		tp.handleInitialBroadcast(rec)
	}()
	c.resLine(tp, rec, sub)

	// subsequent blocks
	h := height0
	nblocks := 3 + c.rng.Intn(14)
	if deadlineDelta > 20 && c.rng.Intn(2) == 0 {
		nblocks = int(deadlineDelta) + 2
		if nblocks > 60 {
			nblocks = 60
		}
	}
	if p.allBlocks {
		nblocks = int(deadlineDelta) + 1
		if nblocks > 40 {
			nblocks = 40
		}
	}
	for b := 0; b < nblocks; b++ {
		if _, live := tp.records.Load(rec.requestID); !live {
			break
		}
		if rec.tx == nil {
			break
		}
		step := int32(c.pick(1, 1, 1, 1, 1, 2, 3, 0))
		if deadlineDelta > 30 && c.rng.Intn(3) == 0 {
			step = int32(1 + c.rng.Intn(int(deadlineDelta)/3+1))
		}
		if p.allBlocks {
			step = 1
			if h >= deadline {
				break
			}
		}
		h += step
		tp.currentHeight.Store(h)
		wallet.mp = c.randAnswers(12)
		if p.calm {
			wallet.mp = nil
		}
		wallet.pub = nil
		if c.rng.Intn(15) == 0 && !p.calm {
			wallet.pub = []string{[]string{"insuff", "other", "mempoolfee"}[c.rng.Intn(3)]}
		}
		c.pf("op bump height=%d mp=%s pub=%s", h, c18Join(wallet.mp),
			c18Join(wallet.pub))
		func() {
			defer func() {
				if r := recover(); r != nil {
					c.pf("panic %v", r)
				}
			}()
			tp.wg.Add(1)
			tp.handleFeeBumpTx(rec, h)
		}()
		c.resLine(tp, rec, sub)
	}
	c.pf("END")
}

// ---------------------------------------------------------------------------
// (iii) BudgetAggregator + BudgetInputSet -> BumpRequest -> TxPublisher

// aggCase hands random pending inputs (budgets, deadlines, optional
// per-input StartingFeeRate = rate already offered for that input, locktimes,
// forced flag, required outputs) to the real BudgetAggregator, prints the
// resulting input sets, and then builds the BumpRequest of every set exactly
// as UtxoSweeper.sweep does and runs the publisher on it.
func (c *c18) aggCase() {
	c.n++
	aggID := c.n
	relay := c.pick(253, 253, 1000)
	maxInputs := uint32(c.pick(2, 3, 4, 100, 100, 100))
	height0 := int32(100 + c.rng.Intn(1000))
	n := 2 + c.rng.Intn(7)

	dls := []int32{height0 + int32(2+c.rng.Intn(30))}
	for len(dls) < 1+c.rng.Intn(3) {
		dls = append(dls, height0+int32(2+c.rng.Intn(1200)))
	}
	used := map[int64]bool{}
	var ltUsed uint32
	type pin struct {
		inp *c18Input
		si  *SweeperInput
	}
	var pins []pin
	inputsMap := make(InputsMap)
	est := &c18Est{relay: chainfee.SatPerKWeight(relay)}
	est.rate = chainfee.SatPerKWeight(relay + c.rng.Int63n(2000))

	c.pf("CASE %d kind=agg relay=%d maxinputs=%d height=%d", aggID, relay, maxInputs, height0)
	for k := 0; k < n; k++ {
		var h chainhash.Hash
		c.rng.Read(h[:])
		v := 200000 + c.rng.Int63n(5000000)
		inp := &c18Input{
			op: wire.OutPoint{Hash: h, Index: uint32(k)},
			sd: input.SignDescriptor{Output: &wire.TxOut{Value: v, PkScript: c18P2WSH}},
			wt: c18WitnessTypes[c.rng.Intn(len(c18WitnessTypes))],
		}
		// pairwise different budgets (sort.Slice is not stable)
		budget := 2000 + c.rng.Int63n(60000)
		if c.rng.Intn(10) == 0 {
			budget = c.pick(0, 1, 50, 100, 150, 200, 400)
		}
		for used[budget] {
			budget++
		}
		used[budget] = true
		dl := dls[c.rng.Intn(len(dls))]
		params := Params{
			Budget:         btcutil.Amount(budget),
			DeadlineHeight: fn.Some(dl),
			Immediate:      c.rng.Intn(8) == 0,
		}
		startS := "none"
		if c.rng.Intn(2) == 0 {
			// the rate already offered for this input by an earlier
			// (failed / replaced / user-bumped) sweep
			r := relay + c.rng.Int63n(6000)
			if c.rng.Intn(12) == 0 {
				r = c.pick(0, 1, 100000, 250001)
			}
			params.StartingFeeRate = fn.Some(chainfee.SatPerKWeight(r))
			startS = strconv.FormatInt(r, 10)
		}
		ltS := "none"
		if c.rng.Intn(6) == 0 {
			lt := uint32(height0) - uint32(c.rng.Intn(40))
			if ltUsed != 0 && c.rng.Intn(2) == 0 {
				lt = ltUsed
			}
			inp.lt, inp.hasLt = lt, true
			ltUsed = lt
			ltS = strconv.FormatUint(uint64(lt), 10)
		}
		reqS, reqDust, reqSize := "none", 0, 0
		if c.rng.Intn(6) == 0 {
			rv := v - c.pick(0, 1, 100)
			reqScript := c18P2WSH
			if c.rng.Intn(3) == 0 {
				// around the dust limit of the required output's script
				reqScript = c18Script([]string{"p2wsh", "p2wkh", "p2tr"}[c.rng.Intn(3)])
				rv = c.near(int64(lnwallet.DustLimitForSize(len(reqScript))))
				if c.rng.Intn(4) == 0 {
					rv = c.pick(0, 1, 100, 293, 294, 329, 330, 353, 354, 546)
				}
			}
			inp.req = &wire.TxOut{Value: rv, PkScript: reqScript}
			inp.wt = input.HtlcOfferedTimeoutSecondLevel
			reqS = strconv.FormatInt(rv, 10)
			reqSize = len(reqScript)
			if isDustOutput(inp.req) {
				reqDust = 1
			}
		}
		wsize, _, err := inp.wt.SizeUpperBound()
		if err != nil {
			continue
		}
		wu := lntypes.VByte(input.InputSize).ToWU() + wsize
		si := &SweeperInput{Input: inp, params: params, DeadlineHeight: dl}
		inputsMap[inp.op] = si
		pins = append(pins, pin{inp, si})
		c.pf("pin idx=%d value=%d budget=%d deadline=%d start=%s immediate=%v lt=%s req=%s "+
			"reqdust=%d reqsize=%d wu=%d", len(pins)-1, v, budget, dl, startS, params.Immediate, ltS,
			reqS, reqDust, reqSize, int64(wu))
	}
	idxOf := func(op wire.OutPoint) int {
		for k, p := range pins {
			if p.inp.op == op {
				return k
			}
		}
		return -1
	}

	agg := NewBudgetAggregator(est, maxInputs, fn.None[AuxSweeper]())
	var sets []InputSet
	func() {
		defer func() {
			if r := recover(); r != nil {
				c.pf("panic %v", r)
			}
		}()
		sets = agg.ClusterInputs(inputsMap)
	}()
	type setRow struct {
		key string
		set InputSet
	}
	var rows []setRow
	for _, set := range sets {
		var ids []string
		for _, in := range set.Inputs() {
			ids = append(ids, fmt.Sprintf("%03d", idxOf(in.OutPoint())))
		}
		rows = append(rows, setRow{strings.Join(ids, ","), set})
	}
	sort.Slice(rows, func(i, j int) bool { return rows[i].key < rows[j].key })
	for _, r := range rows {
		var ids []string
		for _, in := range r.set.Inputs() {
			ids = append(ids, strconv.Itoa(idxOf(in.OutPoint())))
		}
		st := "none"
		r.set.StartingFeeRate().WhenSome(func(x chainfee.SatPerKWeight) {
			st = strconv.FormatInt(int64(x), 10)
		})
		c.pf("set deadline=%d budget=%d start=%s immediate=%v needwallet=%v inputs=%s",
			r.set.DeadlineHeight(), int64(r.set.Budget()), st, r.set.Immediate(),
			r.set.NeedWalletInput(), c18Join(ids))
	}
	c.pf("END")

	// every set becomes a BumpRequest as in UtxoSweeper.sweep
	for k, r := range rows {
		if k >= 3 {
			break
		}
		var (
			inputs  []*c18Input
			iface   []input.Input
			ltLines []string
			nReq    int
			prevMax int64
		)
		for _, in := range r.set.Inputs() {
			ci := in.(*c18Input)
			inputs = append(inputs, ci)
			iface = append(iface, in)
			reqS, ltS := "none", "none"
			if ci.req != nil {
				reqS = strconv.FormatInt(ci.req.Value, 10)
				nReq++
			}
			if ci.hasLt {
				ltS = strconv.FormatUint(uint64(ci.lt), 10)
			}
			rsz := 0
			if ci.req != nil {
				rsz = len(ci.req.PkScript)
			}
			ltLines = append(ltLines, fmt.Sprintf("in idx=%d value=%d req=%s lt=%s reqsize=%d",
				len(inputs)-1, ci.sd.Output.Value, reqS, ltS, rsz))
			// the highest rate already offered for a member, from the
			// harness's own table (not from the set)
			pins[idxOf(ci.op)].si.params.StartingFeeRate.WhenSome(
				func(x chainfee.SatPerKWeight) {
					if int64(x) > prevMax {
						prevMax = int64(x)
					}
				})
		}
		delivery := lnwallet.AddrWithKey{DeliveryAddress: c18P2TR}
		wb, err := calcSweepTxWeight(iface, [][]byte{delivery.DeliveryAddress})
		if err != nil {
			continue
		}
		startOpt := r.set.StartingFeeRate()
		startS := "none"
		startOpt.WhenSome(func(x chainfee.SatPerKWeight) {
			startS = strconv.FormatInt(int64(x), 10)
		})
		c.n++
		c.runPub(&c18Pub{
			inputs: inputs, iface: iface, nReq: nReq,
			auxOpt: fn.None[AuxSweeper](), auxS: "none",
			est: &c18Est{relay: est.relay, rate: est.rate},
			estS: strconv.FormatInt(int64(est.rate), 10), height0: height0,
			budget: int64(r.set.Budget()), deadline: r.set.DeadlineHeight(),
			deadlineDelta: r.set.DeadlineHeight() - height0, delivery: delivery,
			script: "p2tr", dust: int64(lnwallet.DustLimitForSize(len(c18P2TR))),
			maxRate: 250000, relay: relay, startOpt: startOpt, startS: startS,
			wb: wb, wtx: int64(wb), ltLines: ltLines,
			extraHdr: fmt.Sprintf(" from_agg=%d prevmax=%d", aggID, prevMax),
			calm:     true,
		})
	}
}

// topupCase: a BudgetInputSet with second-level style inputs (required
// output, cannot pay fees) and possibly normal inputs is topped up with wallet
// UTXOs by the real NeedWalletInput / AddWalletInputs (values around the
// amount still missing, around that amount plus the change script's dust
// limit, and too few UTXOs); the resulting set is turned into a BumpRequest as
// UtxoSweeper.sweep does and run through the publisher until the deadline.
func (c *c18) topupCase() {
	c.n++
	topID := c.n
	height0 := int32(100 + c.rng.Intn(1000))
	deadlineDelta := int32(2 + c.rng.Intn(7))
	if c.rng.Intn(8) == 0 {
		deadlineDelta = int32(c.pick(0, 1, 20, 144))
	}
	deadline := height0 + deadlineDelta
	script := []string{"p2tr", "p2wkh", "p2wsh"}[c.rng.Intn(3)]
	delivery := lnwallet.AddrWithKey{DeliveryAddress: c18Script(script)}
	dust := int64(lnwallet.DustLimitForSize(len(delivery.DeliveryAddress)))

	nReqIn := 1 + c.rng.Intn(3)
	nPlain := c.rng.Intn(3)
	if c.rng.Intn(3) == 0 {
		nPlain = 0
	}
	var (
		sis      []SweeperInput
		orig     []*c18Input
		needed   int64
		borrow   int64
		totalBud int64
	)
	c.pf("CASE %d kind=topup deadline=%d height=%d", topID, deadline, height0)
	for k := 0; k < nReqIn+nPlain; k++ {
		var h chainhash.Hash
		c.rng.Read(h[:])
		v := 20000 + c.rng.Int63n(3000000)
		inp := &c18Input{
			op: wire.OutPoint{Hash: h, Index: uint32(k)},
			sd: input.SignDescriptor{Output: &wire.TxOut{Value: v, PkScript: c18P2WSH}},
			wt: c18WitnessTypes[c.rng.Intn(len(c18WitnessTypes))],
		}
		budget := 500 + c.rng.Int63n(20000)
		if c.rng.Intn(6) == 0 {
			budget = v/2 + c.rng.Int63n(v)
		}
		reqS, reqSize := "none", 0
		if k < nReqIn {
			// SINGLE|ANYONECANPAY second-level HTLC: commits to an output
			// of its own value.
			inp.req = &wire.TxOut{Value: v, PkScript: c18P2WSH}
			inp.wt = input.HtlcOfferedTimeoutSecondLevel
			reqS, reqSize = strconv.FormatInt(v, 10), len(c18P2WSH)
			needed += budget
		} else {
			borrow += v - budget
		}
		totalBud += budget
		startS := "none"
		params := Params{Budget: btcutil.Amount(budget), DeadlineHeight: fn.Some(deadline)}
		if c.rng.Intn(4) == 0 {
			r := 253 + c.rng.Int63n(3000)
			params.StartingFeeRate = fn.Some(chainfee.SatPerKWeight(r))
			startS = strconv.FormatInt(r, 10)
		}
		sis = append(sis, SweeperInput{Input: inp, params: params, DeadlineHeight: deadline})
		orig = append(orig, inp)
		c.pf("pin idx=%d value=%d budget=%d deadline=%d start=%s immediate=false lt=none req=%s "+
			"reqdust=0 reqsize=%d wu=0", k, v, budget, deadline, startS, reqS, reqSize)
	}
	set, err := NewBudgetInputSet(sis, deadline, fn.None[AuxSweeper]())
	if err != nil {
		c.pf("panic newset %v", err)
		c.pf("END")
		return
	}

	// wallet UTXOs: pairwise different values (sort.Slice is not stable)
	missing := needed - borrow
	var utxos []*lnwallet.Utxo
	usedV := map[int64]bool{}
	nu := c.rng.Intn(5)
	for k := 0; k < nu; k++ {
		var v int64
		switch c.rng.Intn(7) {
		case 0: // exactly / just around what is still missing
			v = c.near(missing)
		case 1: // missing + a below-dust surplus: the change at the ceiling is dust
			v = missing + c.pick(1, dust/2, dust-1, dust, dust+1)
		case 2:
			v = missing/2 + c.pick(0, 1)
		case 3:
			v = c.pick(1, 293, 294, 330, 546, 1000)
		case 4:
			v = missing + c.rng.Int63n(3*dust+1)
		default:
			v = 1000 + c.rng.Int63n(200000)
		}
		if v < 1 {
			v = 1 + c.rng.Int63n(1000)
		}
		for usedV[v] {
			v++
		}
		usedV[v] = true
		var h chainhash.Hash
		c.rng.Read(h[:])
		at, pk := lnwallet.WitnessPubKey, c18P2WKH
		if c.rng.Intn(3) == 0 {
			at, pk = lnwallet.TaprootPubkey, c18P2TR
		}
		utxos = append(utxos, &lnwallet.Utxo{
			AddressType: at, Value: btcutil.Amount(v), Confirmations: 6,
			PkScript: pk, OutPoint: wire.OutPoint{Hash: h, Index: uint32(100 + k)},
		})
		c.pf("utxo value=%d", v)
	}
	wallet := &c18Wallet{h: c, backend: "bitcoind", utxos: utxos}

	need0 := set.NeedWalletInput()
	c.pf("need => %v", need0)
	var terr error
	if need0 {
		// as sweepPendingInputs does
		terr = set.AddWalletInputs(wallet)
	}
	var (
		ids     []string
		inputs  []*c18Input
		iface   []input.Input
		ltLines []string
		nReq    int
		prevMax int64
	)
	for _, si := range set.inputs {
		idx := -1
		for k, o := range orig {
			if o.op == si.OutPoint() {
				idx = k
			}
		}
		v := si.SignDesc().Output.Value
		if idx >= 0 {
			ids = append(ids, strconv.Itoa(idx))
			ci := orig[idx]
			inputs = append(inputs, ci)
			iface = append(iface, ci)
			reqS := "none"
			if ci.req != nil {
				reqS = strconv.FormatInt(ci.req.Value, 10)
				nReq++
			}
			ltLines = append(ltLines, fmt.Sprintf("in idx=%d value=%d req=%s lt=none",
				len(inputs)-1, v, reqS))
			sis[idx].params.StartingFeeRate.WhenSome(func(x chainfee.SatPerKWeight) {
				if int64(x) > prevMax {
					prevMax = int64(x)
				}
			})
			continue
		}
		// a wallet input: budget 0, the set's deadline
		ids = append(ids, fmt.Sprintf("w%d", v))
		if si.params.Budget != 0 || si.RequiredTxOut() != nil ||
			si.params.DeadlineHeight.UnwrapOr(-1) != deadline {

			ids[len(ids)-1] += "!"
		}
		// for the publisher stage the wallet input is replaced by a stub
		// with the same outpoint, value and witness type (no signer here)
		ci := &c18Input{
			op: si.OutPoint(),
			sd: input.SignDescriptor{Output: &wire.TxOut{Value: v, PkScript: c18P2WKH}},
			wt: si.WitnessType(),
		}
		inputs = append(inputs, ci)
		iface = append(iface, ci)
		ltLines = append(ltLines, fmt.Sprintf("in idx=%d value=%d req=none lt=none",
			len(inputs)-1, v))
	}
	st := "none"
	set.StartingFeeRate().WhenSome(func(x chainfee.SatPerKWeight) {
		st = strconv.FormatInt(int64(x), 10)
	})
	c.pf("topup => err=%s need=%v budget=%d start=%s deadline=%d members=%s", c18ErrName(terr),
		set.NeedWalletInput(), int64(set.Budget()), st, set.DeadlineHeight(), c18Join(ids))
	c.pf("END")
	if terr != nil {
		return
	}

	wb, err := calcSweepTxWeight(iface, [][]byte{delivery.DeliveryAddress})
	if err != nil {
		return
	}
	relay := int64(253)
	est := &c18Est{relay: chainfee.SatPerKWeight(relay)}
	est.rate = chainfee.SatPerKWeight(relay + c.rng.Int63n(1500))
	startOpt := set.StartingFeeRate()
	c.n++
	c.runPub(&c18Pub{
		inputs: inputs, iface: iface, nReq: nReq,
		auxOpt: fn.None[AuxSweeper](), auxS: "none",
		est: est, estS: strconv.FormatInt(int64(est.rate), 10), height0: height0,
		budget: int64(set.Budget()), deadline: set.DeadlineHeight(),
		deadlineDelta: deadlineDelta, delivery: delivery,
		script: script, dust: dust,
		maxRate: c.pick(250000, 250000, 100000000, 10000), relay: relay,
		startOpt: startOpt, startS: st,
		wb: wb, wtx: int64(wb), ltLines: ltLines,
		extraHdr: fmt.Sprintf(" from_topup=%d prevmax=%d", topID, prevMax),
		calm:     c.rng.Intn(3) != 0,
		allBlocks: true,
	})
}

// pubWitnessCase is a fixed, minimal reproduction of "nothing is offered at the
// ceiling by the deadline": NewSatPerKWeight rounds the budget rate to nearest,
// so FeeForWeight(ceiling, weight) can be budget+1 and the bump one block
// before the deadline fails with ErrNotEnoughBudget.
func (c *c18) pubWitnessCase() {
	c.n++
	delivery := lnwallet.AddrWithKey{DeliveryAddress: c18P2WKH}
	dust := int64(lnwallet.DustLimitForSize(len(c18P2WKH)))
	var (
		inputs []*c18Input
		iface  []input.Input
	)
	for k := 0; k < 8; k++ {
		var h chainhash.Hash
		h[0], h[1] = 0xc1, byte(k+1)
		inp := &c18Input{
			op: wire.OutPoint{Hash: h, Index: uint32(k)},
			sd: input.SignDescriptor{Output: &wire.TxOut{Value: 100000, PkScript: c18P2WSH}},
			wt: input.WitnessKeyHash,
		}
		inputs = append(inputs, inp)
		iface = append(iface, inp)
	}
	wb, err := calcSweepTxWeight(iface, [][]byte{delivery.DeliveryAddress})
	if err != nil {
		c.pf("CASE %d kind=skip", c.n)
		c.pf("END")
		return
	}
	// smallest budget >= 3000 whose rounded budget rate overshoots
	budget := int64(3000)
	for ; budget < 100000; budget++ {
		r := chainfee.NewSatPerKWeight(btcutil.Amount(budget), wb)
		if int64(r.FeeForWeight(wb)) > budget {
			break
		}
	}
	const (
		height0  = int32(500)
		deadline = int32(503)
		relay    = int64(253)
		maxRate  = int64(250000)
	)
	est := &c18Est{relay: chainfee.SatPerKWeight(relay), rate: chainfee.SatPerKWeight(relay)}
	wallet := &c18Wallet{h: c, inputs: inputs, backend: "bitcoind"}
	tp := NewTxPublisher(TxPublisherConfig{
		Estimator: est, Wallet: wallet, Notifier: &c18Notifier{},
		AuxSweeper: fn.None[AuxSweeper](),
	})
	tp.currentHeight.Store(height0)
	req := &BumpRequest{
		Budget:          btcutil.Amount(budget),
		Inputs:          iface,
		DeadlineHeight:  deadline,
		DeliveryAddress: delivery,
		MaxFeeRate:      chainfee.SatPerKWeight(maxRate),
	}
	c.pf("CASE %d kind=pub budget=%d maxrate=%d deadline=%d start=none est=%d relay=%d "+
		"script=p2wkh dust=%d aux=none wb=%d wtx=%d reqscript=p2wsh auxscript=p2tr witness=1",
		c.n, budget, maxRate, deadline, relay, relay, dust, int64(wb), int64(wb))
	for k := range inputs {
		c.pf("in idx=%d value=100000 req=none lt=none", k)
	}
	mfra, _ := req.MaxFeeRateAllowed()
	c.pf("mfra => %d", int64(mfra))
	rec := tp.storeInitialRecord(req)
	sub := make(chan *BumpResult, 4)
	tp.subscriberChans.Store(rec.requestID, sub)
	c.pf("op init height=%d mp=- pub=-", height0)
	tp.handleInitialBroadcast(rec)
	c.resLine(tp, rec, sub)
	for h := height0 + 1; h < deadline; h++ {
		if _, live := tp.records.Load(rec.requestID); !live || rec.tx == nil {
			break
		}
		tp.currentHeight.Store(h)
		c.pf("op bump height=%d mp=- pub=-", h)
		tp.wg.Add(1)
		tp.handleFeeBumpTx(rec, h)
		c.resLine(tp, rec, sub)
	}
	c.pf("END")
}

// ---------------------------------------------------------------------------
// (v) UtxoSweeper: pending-input state machine, driven synchronously

// c18Store is a scripted SweeperStore: GetTx knows every tx (fee rate getRate)
// when getRate >= 0, IsOurTx answers from the `ours` table.
type c18Store struct {
	getRate int64
	ours    map[chainhash.Hash]bool
}

func (s *c18Store) IsOurTx(h chainhash.Hash) bool  { return s.ours[h] }
func (s *c18Store) StoreTx(*TxRecord) error         { return nil }
func (s *c18Store) ListSweeps() ([]chainhash.Hash, error) { return nil, nil }
func (s *c18Store) GetTx(h chainhash.Hash) (*TxRecord, error) {
	if s.getRate < 0 {
		return nil, ErrTxNotFound
	}
	return &TxRecord{Txid: h, FeeRate: uint64(s.getRate), Fee: 1}, nil
}
func (s *c18Store) DeleteTx(chainhash.Hash) error { return nil }

// c18Mempool answers LookupInputMempoolSpend from a flag.
type c18Mempool struct{ spent bool }

func (m *c18Mempool) SubscribeMempoolSpent(wire.OutPoint) (*chainntnfs.MempoolSpendEvent, error) {
	return nil, errC18Other
}
func (m *c18Mempool) CancelMempoolSpendEvent(*chainntnfs.MempoolSpendEvent) {}
func (m *c18Mempool) LookupInputMempoolSpend(wire.OutPoint) fn.Option[wire.MsgTx] {
	if m.spent {
		return fn.Some(wire.MsgTx{Version: 2, LockTime: 77})
	}
	return fn.None[wire.MsgTx]()
}

// c18AggWrap records the sets the real aggregator hands to the sweeper.
type c18AggWrap struct {
	inner UtxoAggregator
	sets  []InputSet
}

func (a *c18AggWrap) ClusterInputs(m InputsMap) []InputSet {
	sets := a.inner.ClusterInputs(m)
	a.sets = append(a.sets, sets...)
	return sets
}

// c18RealRec is a request handed to the REAL TxPublisher by the sweeper.
type c18RealRec struct {
	rec     *monitorRecord
	sub     chan *BumpResult
	req     *BumpRequest
	members []int
	set     InputSet
	seen    bool
}

// c18Bumper records the requests of UtxoSweeper.sweep; with tp != nil every
// request is also registered with the real TxPublisher exactly as
// TxPublisher.Broadcast does (the harness then drives the publisher's
// handlers synchronously, block by block).
type c18Bumper struct {
	reqs []*BumpRequest
	tp   *TxPublisher
	recs []*c18RealRec
}

func (b *c18Bumper) Broadcast(req *BumpRequest) <-chan *BumpResult {
	b.reqs = append(b.reqs, req)
	if b.tp != nil {
		rec := b.tp.storeInitialRecord(req)
		sub := make(chan *BumpResult, 16)
		b.tp.subscriberChans.Store(rec.requestID, sub)
		b.recs = append(b.recs, &c18RealRec{rec: rec, sub: sub, req: req})
		if req.Immediate {
			b.tp.handleInitialBroadcast(rec)
		}
	}
	return make(chan *BumpResult)
}

type c18LiveSet struct {
	members []int
	set     InputSet
	phase   int // 0: handed to the publisher, 1: a tx was published
}

func c18OptS(o fn.Option[chainfee.SatPerKWeight]) string {
	st := "none"
	o.WhenSome(func(x chainfee.SatPerKWeight) { st = strconv.FormatInt(int64(x), 10) })
	return st
}

// swpCase drives the real UtxoSweeper (handlers called synchronously in the
// order the collector would). real=false: the publisher is a recorder and the
// BumpResults are scripted; real=true: the requests go to the REAL TxPublisher
// (initial broadcast / fee bump per block, all results fed back).
func (c *c18) swpCase(real bool) {
	c.n++
	relay := c.pick(253, 253, 1000)
	maxInputs := uint32(c.pick(2, 3, 100, 100))
	noDl := uint32(c.pick(1008, 144, 6))
	height := int32(100 + c.rng.Intn(1000))

	// wallet UTXOs (pairwise different values)
	var utxos []*lnwallet.Utxo
	var utxoS []string
	nUtxo := c.rng.Intn(3)
	if real {
		// no signer in the harness: real sweep txs cannot carry wallet inputs
		nUtxo = 0
	}
	for k := 0; k < nUtxo; k++ {
		v := int64(1000*(k+1)) + c.rng.Int63n(900) + c.pick(0, 20000, 400000)
		var h chainhash.Hash
		c.rng.Read(h[:])
		utxos = append(utxos, &lnwallet.Utxo{
			AddressType: lnwallet.WitnessPubKey, Value: btcutil.Amount(v), Confirmations: 6,
			PkScript: c18P2WKH, OutPoint: wire.OutPoint{Hash: h, Index: uint32(900 + k)},
		})
		utxoS = append(utxoS, strconv.FormatInt(v, 10))
	}

	est := &c18Est{relay: chainfee.SatPerKWeight(relay), rate: chainfee.SatPerKWeight(relay + 100)}
	wallet := &c18Wallet{h: c, backend: "bitcoind", utxos: utxos}
	store := &c18Store{getRate: -1, ours: map[chainhash.Hash]bool{}}
	mem := &c18Mempool{}
	agg := &c18AggWrap{inner: NewBudgetAggregator(est, maxInputs, fn.None[AuxSweeper]())}
	bumper := &c18Bumper{}
	if real {
		est.rate = chainfee.SatPerKWeight(relay + c.rng.Int63n(800))
		bumper.tp = NewTxPublisher(TxPublisherConfig{
			Estimator: est, Wallet: wallet, Notifier: &c18Notifier{},
			AuxSweeper: fn.None[AuxSweeper](),
		})
		bumper.tp.currentHeight.Store(height)
	}
	s := New(&UtxoSweeperConfig{
		GenSweepScript: func() fn.Result[lnwallet.AddrWithKey] {
			return fn.Ok(lnwallet.AddrWithKey{DeliveryAddress: c18P2TR})
		},
		FeeEstimator: est, Wallet: wallet, Notifier: &c18Notifier{}, Mempool: mem,
		Store: store, MaxInputsPerTx: maxInputs, MaxFeeRate: chainfee.SatPerVByte(c.pick(1000, 1000, 20, 5)), Aggregator: agg,
		Publisher: bumper, NoDeadlineConfTarget: noDl,
	})
	s.relayFeeRate = chainfee.SatPerKWeight(relay)
	s.currentHeight = height
	defer close(s.quit)

	c.pf("CASE %d kind=swp relay=%d maxinputs=%d nodl=%d height=%d utxos=%s real=%v", c.n, relay,
		maxInputs, noDl, height, c18Join(utxoS), real)

	var universe []*c18Input
	idxOf := func(op wire.OutPoint) int {
		for k, u := range universe {
			if u.op == op {
				return k
			}
		}
		return -1
	}
	usedBudget := map[int64]bool{}
	dls := []int32{height + int32(3+c.rng.Intn(20)), height + int32(30+c.rng.Intn(300))}
	randParams := func() (Params, string) {
		budget := 2000 + c.rng.Int63n(60000)
		if c.rng.Intn(12) == 0 {
			budget = c.pick(0, 1, 100, 150, 400)
		}
		for usedBudget[budget] {
			budget++
		}
		usedBudget[budget] = true
		p := Params{Budget: btcutil.Amount(budget), Immediate: c.rng.Intn(6) == 0}
		dlS := "none"
		if c.rng.Intn(5) != 0 {
			dl := dls[c.rng.Intn(len(dls))]
			p.DeadlineHeight = fn.Some(dl)
			dlS = strconv.Itoa(int(dl))
		}
		if c.rng.Intn(4) == 0 {
			r := relay + c.rng.Int63n(5000)
			if c.rng.Intn(8) == 0 {
				r = c.pick(0, 1, 100000)
			}
			p.StartingFeeRate = fn.Some(chainfee.SatPerKWeight(r))
		}
		grpS := "none"
		if c.rng.Intn(6) == 0 {
			g := uint64(1 + c.rng.Intn(2))
			p.ExclusiveGroup = &g
			grpS = strconv.FormatUint(g, 10)
		}
		return p, fmt.Sprintf("budget=%d deadline=%s start=%s immediate=%v group=%s", budget,
			dlS, c18OptS(p.StartingFeeRate), p.Immediate, grpS)
	}

	var live []*c18LiveSet
	txCounter := uint32(1000)
	newTx := func(ins []int) *wire.MsgTx {
		txCounter++
		tx := &wire.MsgTx{Version: 2, LockTime: txCounter}
		for _, k := range ins {
			tx.TxIn = append(tx.TxIn, &wire.TxIn{PreviousOutPoint: universe[k].op})
		}
		return tx
	}

	// state dump: every pending input and the requests issued during the op
	dump := func(known bool) {
		var rows []string
		var keys []int
		byIdx := map[int]*SweeperInput{}
		for op, pi := range s.inputs {
			k := idxOf(op)
			keys = append(keys, k)
			byIdx[k] = pi
		}
		sort.Ints(keys)
		for _, k := range keys {
			pi := byIdx[k]
			g := "none"
			if pi.params.ExclusiveGroup != nil {
				g = strconv.FormatUint(*pi.params.ExclusiveGroup, 10)
			}
			rows = append(rows, fmt.Sprintf("%d:%s:%d:%d:%d:%s:%v:%s:%d", k, pi.state,
				pi.publishAttempts, int64(pi.params.Budget), pi.DeadlineHeight,
				c18OptS(pi.params.StartingFeeRate), pi.params.Immediate, g, int64(pi.lastFeeRate)))
		}
		var reqs []string
		for _, r := range bumper.reqs {
			var ms, ws []string
			for _, in := range r.Inputs {
				if k := idxOf(in.OutPoint()); k >= 0 {
					ms = append(ms, strconv.Itoa(k))
				} else {
					ws = append(ws, strconv.FormatInt(in.SignDesc().Output.Value, 10))
				}
			}
			reqs = append(reqs, fmt.Sprintf("%s/%s/%d/%d/%s/%v", c18Join(ms), c18Join(ws),
				int64(r.Budget), r.DeadlineHeight, c18OptS(r.StartingFeeRate), r.Immediate))
		}
		sort.Strings(reqs)
		bumper.reqs = nil
		// the sets swept in this op become live sets
		for _, set := range agg.sets {
			var ms []int
			swept := false
			for _, in := range set.Inputs() {
				if k := idxOf(in.OutPoint()); k >= 0 {
					ms = append(ms, k)
					if pi, ok := s.inputs[in.OutPoint()]; ok && pi.state == PendingPublish {
						swept = true
					}
				}
			}
			if swept {
				live = append(live, &c18LiveSet{members: ms, set: set})
				for _, rr := range bumper.recs {
					if rr.set != nil {
						continue
					}
					same := len(rr.req.Inputs) == len(ms)
					for j := 0; same && j < len(ms); j++ {
						same = idxOf(rr.req.Inputs[j].OutPoint()) == ms[j]
					}
					if same {
						rr.set, rr.members = set, ms
						break
					}
				}
			}
		}
		agg.sets = nil
		// ids of the publisher records created in this op (real publisher only)
		var newRids []string
		for _, rr := range bumper.recs {
			if !rr.seen {
				rr.seen = true
				newRids = append(newRids, strconv.FormatUint(rr.rec.requestID, 10))
			}
		}
		c.pf("st => known=%v h=%d ins=%s reqs=%s newrids=%s", known, s.currentHeight,
			c18Join(rows), strings.Join(append([]string{}, reqs...), "|")+func() string {
				if len(reqs) == 0 {
					return "-"
				}
				return ""
			}(), c18Join(newRids))
	}
	guard := func(f func()) {
		defer func() {
			if r := recover(); r != nil {
				c.pf("panic %v", r)
			}
		}()
		f()
	}
	sweepNow := func() {
		inputs := s.updateSweeperInputs()
		s.sweepPendingInputs(inputs)
	}

	// deliver feeds every result the real publisher produced back into the
	// sweeper, as monitorFeeBumpResult + the collector would.
	deliver := func() {
		for _, rr := range append([]*c18RealRec{}, bumper.recs...) {
			for {
				var res *BumpResult
				select {
				case res = <-rr.sub:
				default:
				}
				if res == nil || rr.set == nil {
					break
				}
				var ms []string
				for _, m := range rr.members {
					ms = append(ms, strconv.Itoa(m))
				}
				s.updateSweeperInputs()
				c.pf("op result members=%s event=%s rate=%d fee=%d err=%s rid=%d oldknown=true spent=-", c18Join(ms),
					res.Event, int64(res.FeeRate), int64(res.Fee), c18ErrName(res.Err), rr.rec.requestID)
				store.getRate = 300
				guard(func() { _ = s.handleBumpEvent(&bumpResp{result: res, set: rr.set}) })
				store.getRate = -1
				dump(true)
			}
		}
	}
	// one block of the real publisher: initial broadcast of the records that
	// have no tx yet, a fee bump for the others (as processRecords does when
	// nothing is spent).
	publisherBlock := func(h int32) {
		bumper.tp.currentHeight.Store(h)
		wallet.inputs = universe
		for _, rr := range append([]*c18RealRec{}, bumper.recs...) {
			if _, ok := bumper.tp.records.Load(rr.rec.requestID); !ok || rr.set == nil {
				continue
			}
			var ms []string
			for _, m := range rr.members {
				ms = append(ms, strconv.Itoa(m))
			}
			wb, _ := calcSweepTxWeight(rr.req.Inputs, [][]byte{c18P2TR})
			c.pf("pubop members=%s height=%d budget=%d deadline=%d start=%s maxrate=%d wtx=%d init=%v",
				c18Join(ms), h, int64(rr.req.Budget), rr.req.DeadlineHeight,
				c18OptS(rr.req.StartingFeeRate), int64(rr.req.MaxFeeRate), int64(wb), rr.rec.tx == nil)
			guard(func() {
				if rr.rec.tx == nil {
					bumper.tp.handleInitialBroadcast(rr.rec)
				} else {
					bumper.tp.wg.Add(1)
					bumper.tp.handleFeeBumpTx(rr.rec, h)
				}
			})
			// the result reaches the sweeper before the next record is handled
			deliver()
		}
	}

	nops := 8 + c.rng.Intn(22)
	nFirst := 1 + c.rng.Intn(5)
	if real {
		nops = 12 + c.rng.Intn(30)
		nFirst = 1 + c.rng.Intn(3)
	}
	for o := 0; o < nops; o++ {
		// the collector cleans the inputs at the top of every iteration
		s.updateSweeperInputs()
		kind := c.rng.Intn(100)
		if o < nFirst {
			kind = 0
		}
		if real && o >= nFirst {
			// offers and updates are rare, everything else is a block
			switch {
			case kind < 6:
				kind = 0
			case kind < 10:
				kind = 20
			default:
				kind = 40
			}
			wallet.inputs = universe
		}
		switch {
		case kind < 18 || len(universe) == 0:
			// offer a new input, or re-offer a known one
			var inp *c18Input
			k := -1
			if len(universe) > 0 && c.rng.Intn(5) == 0 {
				k = c.rng.Intn(len(universe))
				old := universe[k]
				cp := *old
				inp = &cp
			} else {
				var h chainhash.Hash
				c.rng.Read(h[:])
				v := 200000 + c.rng.Int63n(5000000)
				if real && c.rng.Intn(2) == 0 {
					// small inputs: the fee ramp crosses "change below dust"
					v = c.pick(600, 1000, 2000, 5000, 20000) + c.rng.Int63n(400)
				}
				inp = &c18Input{
					op: wire.OutPoint{Hash: h, Index: uint32(len(universe))},
					sd: input.SignDescriptor{Output: &wire.TxOut{Value: v, PkScript: c18P2WSH}},
					wt: c18WitnessTypes[c.rng.Intn(len(c18WitnessTypes))],
				}
				if c.rng.Intn(6) == 0 {
					inp.lt, inp.hasLt = uint32(height)+uint32(c.pick(-5, 0, 1, 2, 3)), true
				}
				if c.rng.Intn(6) == 0 {
					inp.csv = uint32(c.pick(0, 1, 144, int64(height), int64(height)+1, int64(height)+3))
				}
				if c.rng.Intn(6) == 0 {
					inp.req = &wire.TxOut{Value: v, PkScript: c18P2WSH}
					inp.wt = input.HtlcOfferedTimeoutSecondLevel
				}
				if _, _, err := inp.wt.SizeUpperBound(); err != nil {
					continue
				}
				if real {
					// no locktimes / CSV / required outputs here: covered by the
					// scripted cases and the publisher cases
					inp.lt, inp.hasLt, inp.csv, inp.req = 0, false, 0, nil
					if inp.wt == input.HtlcOfferedTimeoutSecondLevel {
						inp.wt = input.CommitmentTimeLock
					}
				}
				universe = append(universe, inp)
				k = len(universe) - 1
			}
			wsize, _, _ := inp.wt.SizeUpperBound()
			wu := lntypes.VByte(input.InputSize).ToWU() + wsize
			wallet.inputs = universe
			params, ps := randParams()
			if real && inp.sd.Output.Value < 30000 && c.rng.Intn(3) != 0 {
				// a budget of the order of the input's value
				b := inp.sd.Output.Value/2 + c.rng.Int63n(inp.sd.Output.Value)
				for usedBudget[b] {
					b++
				}
				usedBudget[b] = true
				old := fmt.Sprintf("budget=%d ", int64(params.Budget))
				params.Budget = btcutil.Amount(b)
				ps = strings.Replace(ps, old, fmt.Sprintf("budget=%d ", b), 1)
			}
			// mempool / store lookup of decideRBFInfo
			rbfS := "none"
			mem.spent, store.getRate = false, -1
			switch c.rng.Intn(6) {
			case 0:
				mem.spent = true
				store.getRate = relay + c.rng.Int63n(4000)
				rbfS = strconv.FormatInt(store.getRate, 10)
			case 1:
				mem.spent = true // spent in the mempool by a tx we do not know
			}
			ltS, reqS := "none", "none"
			if inp.hasLt {
				ltS = strconv.FormatUint(uint64(inp.lt), 10)
			}
			if inp.req != nil {
				reqS = strconv.FormatInt(inp.req.Value, 10)
			}
			c.pf("op offer idx=%d value=%d wu=%d lt=%s csv=%d req=%s reqsize=34 %s rbf=%s", k,
				inp.sd.Output.Value, int64(wu), ltS, inp.csv, reqS, ps, rbfS)
			guard(func() {
				msg := &sweepInputMessage{input: inp, params: params, resultChan: make(chan Result, 1)}
				if err := s.handleNewInput(msg); err != nil {
					c.pf("panic handleNewInput %v", err)
				}
				if params.Immediate {
					sweepNow()
				}
			})
			mem.spent, store.getRate = false, -1
			dump(true)
			if real {
				deliver()
			}

		case kind < 26:
			k := c.rng.Intn(len(universe) + 1)
			var op wire.OutPoint
			if k < len(universe) {
				op = universe[k].op
			} else {
				op = wire.OutPoint{Index: 424242}
			}
			params, ps := randParams()
			c.pf("op update idx=%d %s", k, ps)
			known := true
			guard(func() {
				_, err := s.handleUpdateReq(&updateReq{input: op, params: params})
				known = err == nil
				if params.Immediate {
					sweepNow()
				}
			})
			dump(known)
			if real {
				deliver()
			}

		case kind < 58:
			height += int32(c.pick(1, 1, 1, 1, 2, 3, 0))
			if real {
				publisherBlock(height)
				deliver()
				s.updateSweeperInputs()
			}
			c.pf("op block height=%d", height)
			guard(func() {
				s.currentHeight = height
				sweepNow()
			})
			dump(true)
			if real {
				deliver()
			}

		case kind < 93 && len(live) > 0:
			li := c.rng.Intn(len(live))
			ls := live[li]
			remove := func() { live = append(live[:li], live[li+1:]...) }
			res := &BumpResult{Tx: newTx(ls.members), Fee: btcutil.Amount(1 + c.rng.Int63n(5000))}
			rate := relay + c.rng.Int63n(6000)
			if c.rng.Intn(10) == 0 {
				rate = 0
			}
			res.FeeRate = chainfee.SatPerKWeight(rate)
			var spentS []string
			oldKnown := true
			ev := c.rng.Intn(10)
			if c.rng.Intn(15) != 0 {
				// a sequence the publisher can produce
				if ls.phase == 0 {
					ev = []int{0, 0, 0, 0, 2, 2, 3, 4}[c.rng.Intn(8)]
				} else {
					ev = []int{1, 1, 1, 1, 2, 3, 5}[c.rng.Intn(7)]
				}
			}
			switch ev {
			case 0:
				res.Event = TxPublished
				ls.phase = 1
			case 1:
				res.Event = TxReplaced
				res.ReplacedTx = newTx(ls.members)
				if c.rng.Intn(6) == 0 {
					oldKnown = false
				}
			case 2:
				res.Event, res.Err = TxFailed, ErrNotEnoughBudget
				remove()
			case 3:
				res.Event, res.Err = TxUnknownSpend, ErrUnknownSpent
				res.SpentInputs = map[wire.OutPoint]*wire.MsgTx{}
				for _, m := range ls.members {
					if c.rng.Intn(3) == 0 {
						stx := newTx([]int{m})
						ours := c.rng.Intn(3) == 0
						store.ours[stx.TxHash()] = ours
						res.SpentInputs[universe[m].op] = stx
						spentS = append(spentS, fmt.Sprintf("%d:%v", m, ours))
					}
				}
				remove()
			case 4:
				res.Event, res.Err, res.Tx = TxFatal, errC18Other, nil
				remove()
			default:
				res.Event = TxConfirmed
				remove()
			}
			var ms []string
			for _, m := range ls.members {
				ms = append(ms, strconv.Itoa(m))
			}
			c.pf("op result members=%s event=%s rate=%d oldknown=%v spent=%s", c18Join(ms),
				res.Event, rate, oldKnown, c18Join(spentS))
			store.getRate = -1
			if oldKnown {
				store.getRate = 300
			}
			guard(func() {
				_ = s.handleBumpEvent(&bumpResp{result: res, set: ls.set})
			})
			store.getRate = -1
			dump(true)

		default:
			if len(universe) == 0 {
				continue
			}
			// a spend notification: a tx spending one to three known inputs
			var ins []int
			var insS []string
			for len(ins) < 1+c.rng.Intn(3) {
				k := c.rng.Intn(len(universe))
				ins = append(ins, k)
				insS = append(insS, strconv.Itoa(k))
			}
			tx := newTx(ins)
			h := tx.TxHash()
			ours := c.rng.Intn(2) == 0
			store.ours[h] = ours
			c.pf("op spend ins=%s ours=%v", c18Join(insS), ours)
			guard(func() {
				s.handleInputSpent(&chainntnfs.SpendDetail{
					SpentOutPoint: &universe[ins[0]].op, SpenderTxHash: &h, SpendingTx: tx,
				})
			})
			dump(true)
		}
	}
	c.pf("END")
}

// ---------------------------------------------------------------------------

func TestVerifC18(t *testing.T) {
	out := os.Getenv("VERIF_OUT")
	if out == "" {
		t.Skip("VERIF_OUT not set")
	}
	seed, _ := strconv.ParseInt(os.Getenv("VERIF_SEED"), 10, 64)
	tier := os.Getenv("VERIF_TIER")
	f, err := os.Create(out)
	if err != nil {
		t.Fatal(err)
	}
	defer f.Close()
	w := bufio.NewWriterSize(f, 1<<20)
	defer w.Flush()

	DisableLog()

	c := &c18{w: w, rng: rand.New(rand.NewSource(seed*7919 + 18)), tier: tier}

	c.pf("FACT arch=%s maxBlockTarget=%d feeFloor=%d absFloor=%d dust_p2wkh=%d "+
		"dust_p2wsh=%d dust_p2tr=%d dust_22=%d dust_34=%d dust_23=%d dust_25=%d "+
		"dust_42=%d dust_0=%d dust_33=%d dust_35=%d dust_100=%d", runtime.GOARCH,
		chainfee.MaxBlockTarget,
		int64(chainfee.FeePerKwFloor), int64(chainfee.AbsoluteFeePerKwFloor),
		int64(lnwallet.DustLimitForSize(len(c18P2WKH))),
		int64(lnwallet.DustLimitForSize(len(c18P2WSH))),
		int64(lnwallet.DustLimitForSize(len(c18P2TR))),
		int64(lnwallet.DustLimitForSize(22)), int64(lnwallet.DustLimitForSize(34)),
		int64(lnwallet.DustLimitForSize(23)), int64(lnwallet.DustLimitForSize(25)),
		int64(lnwallet.DustLimitForSize(42)), int64(lnwallet.DustLimitForSize(0)),
		int64(lnwallet.DustLimitForSize(33)), int64(lnwallet.DustLimitForSize(35)),
		int64(lnwallet.DustLimitForSize(100)))

	nFloat, nFF, nLong, nPub, nAgg := 20, 10000, 40, 6000, 2000
	nRaw, nTop, nSwp := 300, 1500, 1500
	if tier == "thorough" {
		nFloat, nFF, nLong, nPub, nAgg = 400, 400000, 1500, 250000, 60000
		nRaw, nTop, nSwp = 20000, 60000, 30000
	}
	if v, err := strconv.Atoi(os.Getenv("VERIF_C18_ONLY_SWP")); err == nil && v > 0 {
		// development aid: only the sweeper cases
		nFloat, nFF, nLong, nPub, nAgg, nRaw, nTop, nSwp = 0, 0, 0, 0, 0, 0, 0, v
	}
	for i := 0; i < nFloat; i++ {
		c.floatCase(400)
	}
	for i := 0; i < nFF; i++ {
		c.ffCase(false)
	}
	for i := 0; i < nLong; i++ {
		c.ffCase(true)
	}
	for i := 0; i < nRaw; i++ {
		c.ffRawCase()
	}
	c.pubWitnessCase()
	for i := 0; i < nSwp; i++ {
		c.swpCase(i%3 == 2)
	}
	for i := 0; i < nTop; i++ {
		c.topupCase()
	}
	for i := 0; i < nAgg; i++ {
		c.aggCase()
	}
	for i := 0; i < nPub; i++ {
		c.pubCase()
	}
}
