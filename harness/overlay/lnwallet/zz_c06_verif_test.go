//go:build verif

package lnwallet

// C06 harness, release-rule half with FAULT INJECTION at every durable write
// of the commitment path (stream `release` of drv_c06).
//
// Two real LightningChannels over two real bbolt databases
// (CreateTestChannels) exchange add / commit_sig / revoke_and_ack through
// message queues.  Each node's OpenChannel.Db (type chanstate.Store) is
// wrapped by c06Store, which fails the n-th call of a chosen durable method
// (UpdateChannelCommitment, AppendRemoteCommitChain, AdvanceCommitChainTail,
// InsertNextRevocation) with an injected error; a second fault kind marks the
// channel borked through a stale handle so that the real store itself refuses
// the write (ErrChanBorked).  After a failed operation the harness does what
// a caller can do with what it holds:
//
//   lc      keep using the very same LightningChannel (reconnect on it,
//           a further RevokeCurrentCommitment) - terminal probe of the case,
//   handle  build a new LightningChannel on the SAME in-memory OpenChannel,
//   disk    re-read the OpenChannel from the database (what lnd does when a
//           peer connection is re-established),
//
// followed by a real reconnect (ChanSyncMsg / ProcessChanSyncMsg both ways,
// retransmissions fed into the queues) and more rounds.  Reconnects also
// happen spontaneously at random points with messages in flight dropped.
//
// Every secret handed out (RevokeCurrentCommitment's return value, a
// revoke_and_ack retransmitted by ProcessChanSyncMsg) is logged as a V line
// with its index in the node's own producer chain and with
// LocalCommitment.CommitHeight read back from the database at that moment;
// every channel_reestablish is logged as a Y line.  After every operation the
// three views of the node are dumped: database, in-memory OpenChannel,
// LightningChannel.

import (
	"bufio"
	"bytes"
	"crypto/sha256"
	"errors"
	"fmt"
	"math/rand"
	"os"
	"strconv"
	"testing"

	"github.com/btcsuite/btcd/btcec/v2"
	"github.com/btcsuite/btcd/btcutil/v2"
	"github.com/btcsuite/btcd/wire/v2"
	"github.com/lightningnetwork/lnd/channeldb"
	"github.com/lightningnetwork/lnd/chanstate"
	"github.com/lightningnetwork/lnd/fn/v2"
	"github.com/lightningnetwork/lnd/input"
	"github.com/lightningnetwork/lnd/lntypes"
	"github.com/lightningnetwork/lnd/lnwire"
)

var errC06Disk = errors.New("c06: injected durable write failure")

type c06Fault struct {
	method string
	nth    int
	// bork: instead of failing the call in the wrapper, the channel is marked
	// borked through a second handle right before the call reaches the real
	// store, which then refuses the write itself (ErrChanBorked).
	bork bool
}

// c06Store wraps the real chanstate.Store of one node.
type c06Store struct {
	chanstate.Store

	calls  map[string]int
	plan   []c06Fault
	fired  string // method of the fault that fired during the current op
	borkFn func()
}

func (s *c06Store) trip(m string) error {
	s.calls[m]++
	for _, f := range s.plan {
		if f.method == m && f.nth == s.calls[m] {
			if f.bork {
				s.borkFn()
				return nil
			}
			s.fired = m
			return errC06Disk
		}
	}
	return nil
}

func (s *c06Store) UpdateChannelCommitment(c *chanstate.OpenChannel,
	nc *chanstate.ChannelCommitment,
	upd []chanstate.LogUpdate) (map[uint64]bool, error) {

	if err := s.trip("UpdateChannelCommitment"); err != nil {
		return nil, err
	}
	return s.Store.UpdateChannelCommitment(c, nc, upd)
}

func (s *c06Store) AppendRemoteCommitChain(c *chanstate.OpenChannel,
	diff *chanstate.CommitDiff) error {

	if err := s.trip("AppendRemoteCommitChain"); err != nil {
		return err
	}
	return s.Store.AppendRemoteCommitChain(c, diff)
}

func (s *c06Store) AdvanceCommitChainTail(c *chanstate.OpenChannel,
	fwdPkg *chanstate.FwdPkg, updates []chanstate.LogUpdate,
	ourIdx, theirIdx uint32) error {

	if err := s.trip("AdvanceCommitChainTail"); err != nil {
		return err
	}
	return s.Store.AdvanceCommitChainTail(c, fwdPkg, updates, ourIdx, theirIdx)
}

func (s *c06Store) InsertNextRevocation(c *chanstate.OpenChannel,
	revKey *btcec.PublicKey) error {

	if err := s.trip("InsertNextRevocation"); err != nil {
		return err
	}
	return s.Store.InsertNextRevocation(c, revKey)
}

type c06Node struct {
	lc     *LightningChannel
	handle *chanstate.OpenChannel
	real   chanstate.Store
	fs     *c06Store
	signer input.Signer
	pool   *SigPool
	dead   bool // a durable write failed inside an operation of the current lc
	ahead  bool // RevokeCurrentCommitment of the current lc failed on its write
	borked bool
	// stale: OpenChannel handles of this node's channel loaded EARLIER from the
	// database (the funding manager's, the chain arbitrator's ...); secondary
	// writers are called through them while the link's handle moves on.
	stale []*chanstate.OpenChannel
}

type c06Case struct {
	t     *testing.T
	w     *bufio.Writer
	r     *rand.Rand
	n     [2]*c06Node
	q     [2][]lnwire.Message
	stats map[string]int
	nAdd  int
	stop  bool
	// personality
	pReconnect int // spontaneous reconnect after a step with probability 1/pReconnect (0 = never)
	recModes   []string
	idx        int
	nStale     int
}

func c06Name(x int) string { return string(rune('A' + x)) }

func (c *c06Case) emit(format string, a ...interface{}) { fmt.Fprintf(c.w, format, a...) }

func c06ErrClass(err error) string {
	switch {
	case err == nil:
		return "ok"
	case errors.Is(err, errC06Disk):
		return "err:injected"
	case errors.Is(err, channeldb.ErrChanBorked):
		return "err:borked"
	case errors.Is(err, ErrNoWindow):
		return "err:nowindow"
	case errors.Is(err, ErrCommitSyncRemoteDataLoss):
		return "err:remotedataloss"
	case errors.Is(err, ErrCannotSyncCommitChains):
		return "err:cannotsync"
	case errors.Is(err, ErrInvalidLastCommitSecret):
		return "err:badlastsecret"
	}
	var dl *ErrCommitSyncLocalDataLoss
	if errors.As(err, &dl) {
		return "err:localdataloss"
	}
	var is *InvalidCommitSigError
	if errors.As(err, &is) {
		return "err:invalidsig"
	}
	return "err:other"
}

// fetch re-reads the channel of node x from its database (real store).
func (c *c06Case) fetch(x int) (*chanstate.OpenChannel, error) {
	n := c.n[x]
	chans, err := n.real.FetchOpenChannels(n.handle.IdentityPub)
	if err != nil {
		return nil, err
	}
	for _, oc := range chans {
		if oc.FundingOutpoint == n.handle.FundingOutpoint {
			return oc, nil
		}
	}
	return nil, errors.New("channel not found")
}

func (c *c06Case) secretIndex(x int, secret [32]byte) int {
	prod := c.n[x].handle.RevocationProducer
	for h := uint64(0); h <= 64; h++ {
		s, err := prod.AtIndex(h)
		if err == nil && bytes.Equal(s[:], secret[:]) {
			return int(h)
		}
	}
	return -1
}

func (c *c06Case) pointIndex(x int, point *btcec.PublicKey) int {
	if point == nil {
		return -1
	}
	prod := c.n[x].handle.RevocationProducer
	for h := uint64(0); h <= 66; h++ {
		s, err := prod.AtIndex(h)
		if err == nil && input.ComputeCommitmentPoint(s[:]).IsEqual(point) {
			return int(h)
		}
	}
	return -1
}

// view prints the three views of node x.
func (c *c06Case) view(x int) string {
	n := c.n[x]
	dur, rdur, rpend := int64(-1), int64(-1), 0
	if oc, err := c.fetch(x); err == nil {
		dur = int64(oc.LocalCommitment.CommitHeight)
		rdur = int64(oc.RemoteCommitment.CommitHeight)
		if d, err := n.real.RemoteCommitChainTip(oc); err == nil && d != nil {
			rpend = 1
		}
	}
	lcS := "lc=- tip=- rtail=- rtip=-"
	func() {
		defer func() { _ = recover() }()
		lc := n.lc
		if lc == nil {
			return
		}
		s := fmt.Sprintf("lc=%d tip=%d rtail=%d rtip=%d", lc.currentHeight,
			lc.commitChains.Local.tip().height,
			lc.commitChains.Remote.tail().height,
			lc.commitChains.Remote.tip().height)
		lcS = s
	}()
	dead := 0
	if n.dead {
		dead = 1
	}
	ahead := 0
	if n.ahead {
		ahead = 1
	}
	return fmt.Sprintf("mem=%d rmem=%d %s dur=%d rdur=%d rpend=%d ahead=%d dead=%d",
		n.handle.LocalCommitment.CommitHeight,
		n.handle.RemoteCommitment.CommitHeight, lcS, dur, rdur, rpend, ahead, dead)
}

// op logs one operation of node x with its result and the views afterwards.
// It returns true when the operation failed because of a failed durable write.
func (c *c06Case) op(x int, name string, args string, err error, panicked bool) bool {
	n := c.n[x]
	res := c06ErrClass(err)
	if panicked {
		res = "panic"
	}
	fail := "-"
	if n.fs.fired != "" {
		fail = n.fs.fired
	} else if res == "err:borked" {
		fail = "borked"
	}
	n.fs.fired = ""
	wf := fail != "-"
	if wf {
		n.dead = true
		if name == "revoke" {
			n.ahead = true
		}
		c.stats["fault_"+fail]++
	}
	if args != "" {
		args = " " + args
	}
	c.emit("O %s %s%s => %s fail=%s %s\n", c06Name(x), name, args, res, fail, c.view(x))
	if res == "err:other" && os.Getenv("C06_DEBUG") != "" {
		c.emit("# %v\n", err)
	}
	c.stats["op_"+name]++
	if res != "ok" {
		c.stats["res_"+res]++
	}
	return wf
}

func (c *c06Case) logRev(x int, rev *lnwire.RevokeAndAck, src string) {
	dur := int64(-1)
	if oc, err := c.fetch(x); err == nil {
		dur = int64(oc.LocalCommitment.CommitHeight)
	}
	dead, ahead := 0, 0
	if c.n[x].dead {
		dead = 1
	}
	if c.n[x].ahead {
		ahead = 1
	}
	c.emit("V %s src=%s s=%d np=%d dur=%d ahead=%d dead=%d\n", c06Name(x), src,
		c.secretIndex(x, rev.Revocation), c.pointIndex(x, rev.NextRevocationKey), dur, ahead, dead)
	c.stats["rev_"+src]++
}

func (c *c06Case) send(to int, m lnwire.Message) { c.q[to] = append(c.q[to], m) }

// --- primitive operations ---------------------------------------------------

func (c *c06Case) add(x int) {
	c.nAdd++
	pre := sha256.Sum256([]byte("c06-" + strconv.Itoa(c.nAdd)))
	h := &lnwire.UpdateAddHTLC{
		PaymentHash: sha256.Sum256(pre[:]),
		Amount:      lnwire.NewMSatFromSatoshis(btcutil.Amount(20000 + 1000*c.nAdd)),
		Expiry:      uint32(10),
	}
	var (
		err error
		idx uint64
		pan bool
	)
	func() {
		defer func() {
			if r := recover(); r != nil {
				pan = true
			}
		}()
		idx, err = c.n[x].lc.AddHTLC(h, nil)
	}()
	c.op(x, "add", "", err, pan)
	if err == nil && !pan {
		h.ID = idx
		c.send(1-x, h)
	}
}

func (c *c06Case) sign(x int) bool {
	var (
		err error
		ns  *NewCommitState
		pan bool
	)
	func() {
		defer func() {
			if r := recover(); r != nil {
				pan = true
			}
		}()
		ns, err = c.n[x].lc.SignNextCommitment(ctxb)
	}()
	wf := c.op(x, "sign", "", err, pan)
	if err == nil && !pan {
		c.send(1-x, &lnwire.CommitSig{
			CommitSig: ns.CommitSig,
			HtlcSigs:  ns.HtlcSigs,
		})
	}
	return wf
}

func (c *c06Case) revoke(x int) bool {
	var (
		err error
		rev *lnwire.RevokeAndAck
		pan bool
	)
	func() {
		defer func() {
			if r := recover(); r != nil {
				pan = true
			}
		}()
		rev, _, _, err = c.n[x].lc.RevokeCurrentCommitment()
	}()
	// the secret leaves the API here: log it before the views are dumped
	if err == nil && !pan && rev != nil {
		c.logRev(x, rev, "revoke")
	}
	wf := c.op(x, "revoke", "", err, pan)
	if err == nil && !pan && rev != nil {
		c.send(1-x, rev)
	}
	return wf
}

// deliver processes the first queued message of node x.
func (c *c06Case) deliver(x int) bool {
	m := c.q[x][0]
	c.q[x] = c.q[x][1:]
	var (
		err  error
		pan  bool
		name string
	)
	func() {
		defer func() {
			if r := recover(); r != nil {
				pan = true
			}
		}()
		switch msg := m.(type) {
		case *lnwire.UpdateAddHTLC:
			name = "recvadd"
			_, err = c.n[x].lc.ReceiveHTLC(msg)
		case *lnwire.CommitSig:
			name = "recv"
			err = c.n[x].lc.ReceiveNewCommitment(&CommitSigs{
				CommitSig: msg.CommitSig,
				HtlcSigs:  msg.HtlcSigs,
			})
		case *lnwire.RevokeAndAck:
			name = "recvrev"
			_, _, err = c.n[x].lc.ReceiveRevocation(msg)
		default:
			name = "recvother"
		}
	}()
	wf := c.op(x, name, "", err, pan)
	if !wf && (err != nil || pan) {
		// the schedule derailed for a reason other than a failed write
		c.stats["derailed"]++
		c.stop = true
		return false
	}
	if name == "recv" && !wf {
		// lnd's link answers an accepted commit_sig with revoke_and_ack in the same
		// handler; the only thing that can come in between is a crash / disconnect.
		if c.pReconnect > 0 && c.r.Intn(2*c.pReconnect) == 0 {
			c.stats["crash_before_revoke"]++
			c.reconnect([2]string{
				[]string{"handle", "disk"}[c.r.Intn(2)],
				[]string{"handle", "disk"}[c.r.Intn(2)],
			})
			return false
		}
		return c.revoke(x)
	}
	return wf
}

func (c *c06Case) ready(x int) bool {
	// channel_ready is re-sent on reconnect while the channel is at height 0:
	// the peer's next commitment point (height 1) is inserted again.
	s, err := c.n[1-x].handle.RevocationProducer.AtIndex(1)
	if err != nil {
		return false
	}
	var pan bool
	func() {
		defer func() {
			if r := recover(); r != nil {
				pan = true
			}
		}()
		err = c.n[x].lc.InitNextRevocation(input.ComputeCommitmentPoint(s[:]))
	}()
	return c.op(x, "ready", "", err, pan)
}

// bork marks the channel of node x borked through a second, stale handle:
// from now on the real store refuses every commitment write of x.
func (c *c06Case) bork(x int, nested bool) {
	oc, err := c.fetch(x)
	if err == nil {
		err = oc.MarkBorked()
	}
	c.n[x].borked = true
	if nested {
		// called from inside a store method in the middle of an operation of x:
		// the views are dumped by that operation's own O line
		c.emit("B %s bork-before-write => %s\n", c06Name(x), c06ErrClass(err))
	} else {
		c.emit("O %s bork => %s fail=- %s\n", c06Name(x), c06ErrClass(err), c.view(x))
	}
	c.stats["op_bork"]++
}

// --- secondary writers through a stale handle ------------------------------

// c06Writers: every OpenChannel mutator that writes a single fact about the
// channel through whatever handle the caller holds.  (SyncPending / the full
// sync of channel creation legitimately write the whole handle and are only
// used before the first update; MarkBorked is exercised by bork().)
var c06Writers = []string{
	"MarkRealScid", "MarkConfirmationHeight", "MarkAsOpen", "MarkScidAliasNegotiated",
	"MarkDataLoss", "MarkCommitmentBroadcasted", "MarkCoopBroadcasted",
	"ApplyChanStatus", "ClearChanStatus", "MarkCloseConfirmationHeight",
	"ResetCloseConfirmationHeight", "MarkShutdownSent",
}

// snapshot keeps a handle loaded now for later use as a stale one.
func (c *c06Case) snapshot(x int) {
	if oc, err := c.fetch(x); err == nil {
		c.n[x].stale = append(c.n[x].stale, oc)
	}
}

// looksOK counts the heights v < upto whose secret the store decoded from the
// database reproduces exactly as the peer's producer generates it.
func (c *c06Case) looksOK(x int, upto uint64) int {
	oc, err := c.fetch(x)
	if err != nil || oc.RevocationStore == nil {
		return -1
	}
	prod := c.n[1-x].handle.RevocationProducer
	ok := 0
	for v := uint64(0); v < upto; v++ {
		want, err1 := prod.AtIndex(v)
		got, err2 := oc.RevocationStore.LookUp(v)
		if err1 == nil && err2 == nil && *want == *got {
			ok++
		}
	}
	return ok
}

// staleWrite calls one secondary writer of node x through one of its stale
// handles and logs the durable state re-read from the database afterwards.
func (c *c06Case) staleWrite(x int, late bool) {
	n := c.n[x]
	if len(n.stale) == 0 || n.borked {
		return
	}
	h := n.stale[0]
	if c.nStale > 0 && c.r.Intn(2) == 0 {
		h = n.stale[c.r.Intn(len(n.stale))]
	}
	w := c06Writers[(c.idx+c.nStale*5)%len(c06Writers)]
	if c.nStale > 1 {
		w = c06Writers[c.r.Intn(len(c06Writers))]
	}
	if h.IsZeroConf() && c.nStale == 0 {
		// the funding transaction of a zero-conf channel confirms after the
		// channel has already been updated
		w = "MarkRealScid"
	}
	switch w {
	case "MarkDataLoss", "MarkCommitmentBroadcasted", "MarkCoopBroadcasted", "ApplyChanStatus":
		// these end the useful life of the channel: mostly towards the end of a case
		if !late && c.r.Intn(5) != 0 {
			w = []string{"MarkConfirmationHeight", "MarkAsOpen", "MarkScidAliasNegotiated",
				"ClearChanStatus", "MarkCloseConfirmationHeight", "MarkShutdownSent"}[c.r.Intn(6)]
		}
	}
	if w == "MarkRealScid" && !h.IsZeroConf() {
		w = "MarkConfirmationHeight"
	}
	c.nStale++
	rdurBefore := uint64(0)
	if oc, err := c.fetch(x); err == nil {
		rdurBefore = oc.RemoteCommitment.CommitHeight
	}
	rawBefore := c06RawRevState(n)
	var (
		err error
		pan bool
	)
	func() {
		defer func() {
			if r := recover(); r != nil {
				pan = true
			}
		}()
		scid := lnwire.NewShortChanIDFromInt(uint64(700000+c.nStale) << 40)
		switch w {
		case "MarkRealScid":
			err = h.MarkRealScid(scid)
		case "MarkConfirmationHeight":
			err = h.MarkConfirmationHeight(uint32(100 + c.nStale))
		case "MarkAsOpen":
			err = h.MarkAsOpen(h.ShortChannelID)
		case "MarkScidAliasNegotiated":
			err = h.MarkScidAliasNegotiated()
		case "MarkDataLoss":
			s, _ := c.n[1-x].handle.RevocationProducer.AtIndex(40)
			err = h.MarkDataLoss(input.ComputeCommitmentPoint(s[:]))
		case "MarkCommitmentBroadcasted":
			err = h.MarkCommitmentBroadcasted(wire.NewMsgTx(2), lntypes.Local)
		case "MarkCoopBroadcasted":
			err = h.MarkCoopBroadcasted(wire.NewMsgTx(2), lntypes.Local)
		case "ApplyChanStatus":
			err = h.ApplyChanStatus(channeldb.ChanStatusLocalDataLoss)
		case "ClearChanStatus":
			err = h.ClearChanStatus(channeldb.ChanStatusLocalDataLoss)
		case "MarkCloseConfirmationHeight":
			err = h.MarkCloseConfirmationHeight(fn.Some(uint32(200 + c.nStale)))
		case "ResetCloseConfirmationHeight":
			err = h.ResetCloseConfirmationHeight()
		case "MarkShutdownSent":
			err = h.MarkShutdownSent(chanstate.NewShutdownInfo(nil, true))
		}
	}()
	res := c06ErrClass(err)
	if pan {
		res = "panic"
	}
	same := 0
	if bytes.Equal(rawBefore, c06RawRevState(n)) {
		same = 1
	}
	// the O line carries the durable state as re-read from the database NOW
	c.emit("O %s stalewrite w=%s hage=%d rev_same=%d look_want=%d look_ok=%d => %s fail=- %s\n",
		c06Name(x), w, h.LocalCommitment.CommitHeight, same, rdurBefore,
		c.looksOK(x, rdurBefore), res, c.view(x))
	c.stats["stale_"+w]++
	switch w {
	case "MarkDataLoss", "MarkCommitmentBroadcasted", "MarkCoopBroadcasted", "ApplyChanStatus":
		// any non-default status makes the store refuse every further commitment
		// write (isChannelBorked): same consequences as bork()
		if res == "ok" {
			n.borked = true
		}
	}
	if res != "ok" {
		c.stats["stale_res_"+res]++
	}
}

// --- reconnect ---------------------------------------------------------------

func (c *c06Case) rebuild(x int, mode string) bool {
	n := c.n[x]
	var (
		oc  *chanstate.OpenChannel
		err error
	)
	switch mode {
	case "lc":
		return true
	case "handle":
		oc = n.handle
	case "disk":
		oc, err = c.fetch(x)
		if err == nil {
			oc.Db = n.fs
		}
	}
	var (
		lc  *LightningChannel
		pan bool
	)
	if err == nil {
		func() {
			defer func() {
				if r := recover(); r != nil {
					pan = true
				}
			}()
			lc, err = NewLightningChannel(n.signer, oc, n.pool)
		}()
	}
	name := map[string]string{"handle": "reopen", "disk": "reload"}[mode]
	if err != nil || pan || lc == nil {
		c.op(x, name, "", err, pan)
		c.stop = true
		return false
	}
	n.lc, n.handle, n.dead, n.ahead = lc, oc, false, false
	c.op(x, name, "", nil, false)
	return true
}

// reconnect drops everything in flight, rebuilds both nodes in the given
// modes and runs the channel_reestablish exchange.
func (c *c06Case) reconnect(modes [2]string) {
	c.q = [2][]lnwire.Message{}
	c.stats["reconnect_"+modes[0]]++
	c.stats["reconnect_"+modes[1]]++
	for x := 0; x < 2; x++ {
		if !c.rebuild(x, modes[x]) {
			return
		}
	}
	var syncMsg [2]*lnwire.ChannelReestablish
	for x := 0; x < 2; x++ {
		var (
			err error
			pan bool
		)
		func() {
			defer func() {
				if r := recover(); r != nil {
					pan = true
				}
			}()
			syncMsg[x], err = c.n[x].handle.ChanSyncMsg()
		}()
		if err != nil || pan || syncMsg[x] == nil {
			c.op(x, "reest", "", err, pan)
			c.stop = true
			return
		}
		dur := int64(-1)
		if oc, err := c.fetch(x); err == nil {
			dur = int64(oc.LocalCommitment.CommitHeight)
		}
		dead := 0
		if c.n[x].dead {
			dead = 1
		}
		c.emit("Y %s next=%d tail=%d pt=%d dur=%d dead=%d mode=%s\n", c06Name(x),
			syncMsg[x].NextLocalCommitHeight, syncMsg[x].RemoteCommitTailHeight,
			c.pointIndex(x, syncMsg[x].LocalUnrevokedCommitPoint), dur, dead, modes[x])
		c.op(x, "reest", "", nil, false)
	}
	for x := 0; x < 2; x++ {
		var (
			msgs []lnwire.Message
			err  error
			pan  bool
		)
		peer := syncMsg[1-x]
		owe := 0
		func() {
			defer func() { _ = recover() }()
			if c.n[x].lc.OweCommitment() {
				owe = 1
			}
		}()
		func() {
			defer func() {
				if r := recover(); r != nil {
					pan = true
				}
			}()
			msgs, _, _, err = c.n[x].lc.ProcessChanSyncMsg(ctxb, peer)
		}()
		nrev, nsig := 0, 0
		for _, m := range msgs {
			switch mm := m.(type) {
			case *lnwire.RevokeAndAck:
				nrev++
				c.logRev(x, mm, "sync")
			case *lnwire.CommitSig:
				nsig++
			}
		}
		wf := c.op(x, "sync", fmt.Sprintf("ptail=%d pnext=%d owe=%d nrev=%d nsig=%d mode=%s",
			peer.RemoteCommitTailHeight, peer.NextLocalCommitHeight, owe, nrev, nsig,
			modes[x]), err, pan)
		if err != nil || pan {
			if !wf {
				c.stats["sync_refused"]++
			}
			c.stop = true
			continue
		}
		for _, m := range msgs {
			c.send(1-x, m)
		}
	}
}

// recover is what follows an operation of node x that failed on a durable write.
func (c *c06Case) recoverFrom(x int) {
	mode := c.recModes[c.r.Intn(len(c.recModes))]
	peerMode := []string{"handle", "disk"}[c.r.Intn(2)]
	var modes [2]string
	modes[x], modes[1-x] = mode, peerMode
	if c.n[x].borked {
		// nothing can be written any more: one reconnect, then the case ends
		c.reconnect(modes)
		c.stop = true
		return
	}
	c.reconnect(modes)
	if mode == "lc" {
		// terminal probe: further attempts on the very same LightningChannel
		if !c.stop {
			c.revoke(x)
		}
		c.stop = true
	}
}

// --- schedule ------------------------------------------------------------------

func (c *c06Case) canSign(x int) bool {
	lc := c.n[x].lc
	return lc.OweCommitment() &&
		lc.commitChains.Remote.tip().height == lc.commitChains.Remote.tail().height
}

// pump runs enabled primitives in random order until quiescence.
func (c *c06Case) pump() {
	for it := 0; it < 200 && !c.stop; it++ {
		type prim struct {
			kind string
			x    int
		}
		var en []prim
		for x := 0; x < 2; x++ {
			if len(c.q[x]) > 0 {
				en = append(en, prim{"deliver", x}, prim{"deliver", x})
			}
			if c.canSign(x) {
				en = append(en, prim{"sign", x})
			}
		}
		if len(en) == 0 {
			return
		}
		p := en[c.r.Intn(len(en))]
		var wf bool
		switch p.kind {
		case "deliver":
			wf = c.deliver(p.x)
		case "sign":
			wf = c.sign(p.x)
		}
		if c.stop {
			return
		}
		if wf {
			c.recoverFrom(p.x)
			continue
		}
		if c.r.Intn(14) == 0 {
			c.staleWrite(c.r.Intn(2), false)
		}
		if c.r.Intn(12) == 0 {
			c.snapshot(c.r.Intn(2))
		}
		if c.pReconnect > 0 && c.r.Intn(c.pReconnect) == 0 {
			c.reconnect([2]string{
				[]string{"handle", "disk"}[c.r.Intn(2)],
				[]string{"handle", "disk"}[c.r.Intn(2)],
			})
		}
	}
}

var c06Methods = []string{
	"UpdateChannelCommitment", "UpdateChannelCommitment", "UpdateChannelCommitment",
	"AppendRemoteCommitChain", "AdvanceCommitChainTail", "InsertNextRevocation",
}

func c06RunCase(t *testing.T, w *bufio.Writer, id string, seed int64, idx int,
	stats map[string]int) {

	r := rand.New(rand.NewSource(seed))
	types := []channeldb.ChannelType{
		channeldb.SingleFunderTweaklessBit,
		channeldb.SingleFunderTweaklessBit | channeldb.AnchorOutputsBit |
			channeldb.ZeroHtlcTxFeeBit,
		channeldb.SingleFunderBit,
		// zero-conf: the only kind that is updated before MarkRealScid runs
		channeldb.SingleFunderTweaklessBit | channeldb.ZeroConfBit |
			channeldb.ScidAliasFeatureBit,
	}
	ct := types[idx%len(types)]
	a, b, err := CreateTestChannels(t, ct)
	if err != nil {
		t.Fatalf("create channels: %v", err)
	}
	c := &c06Case{t: t, w: w, r: r, stats: stats, idx: idx}
	for x, lc := range []*LightningChannel{a, b} {
		fs := &c06Store{Store: lc.channelState.Db, calls: map[string]int{}}
		c.n[x] = &c06Node{
			lc: lc, handle: lc.channelState, real: lc.channelState.Db, fs: fs,
			signer: lc.Signer, pool: lc.sigPool,
		}
		lc.channelState.Db = fs
		x := x
		fs.borkFn = func() { c.bork(x, true) }
		// the handle another subsystem loaded when the channel was created
		c.snapshot(x)
	}

	// fault plan: the structured part walks (method, n-th call, node); the rest is random.
	nFaults := 1 + r.Intn(3)
	if idx%7 == 6 {
		nFaults = 0 // fault-free control case
	}
	if idx%10 == 4 {
		nFaults = 1 // a single concurrent MarkBorked right before a write
	}
	planS := ""
	for f := 0; f < nFaults; f++ {
		x := r.Intn(2)
		m := c06Methods[r.Intn(len(c06Methods))]
		if f == 0 {
			// systematic coverage: case idx fixes method and call number
			m = c06Methods[idx%len(c06Methods)]
			x = (idx / len(c06Methods)) % 2
		}
		n := 1 + r.Intn(5)
		if f == 0 {
			n = 1 + (idx/(2*len(c06Methods)))%5
		}
		if m == "InsertNextRevocation" {
			n = 1
		}
		if idx%10 == 4 {
			n = 1 + (idx/12)%2
		}
		// every fifth case: the first fault is a concurrent MarkBorked right before the write
		bk := f == 0 && idx%10 == 4 && m != "InsertNextRevocation"
		c.n[x].fs.plan = append(c.n[x].fs.plan, c06Fault{m, n, bk})
		if bk {
			planS += "bork-before:"
		}
		planS += fmt.Sprintf("%s:%s:%d,", c06Name(x), m, n)
	}
	borkAt := -1
	if idx%10 == 9 {
		borkAt = 1 + r.Intn(3)
		planS += fmt.Sprintf("bork@%d,", borkAt)
	}
	if planS == "" {
		planS = "-"
	}
	switch idx % 4 {
	case 0:
		c.recModes = []string{"handle"}
	case 1:
		c.recModes = []string{"disk", "handle"}
	case 2:
		c.recModes = []string{"lc"}
	default:
		c.recModes = []string{"handle", "disk", "lc"}
	}
	c.pReconnect = []int{0, 6, 12, 4}[r.Intn(4)]

	c.emit("CASE %s kind=release type=%d plan=%s\n", id, uint64(ct), planS)
	for x := 0; x < 2; x++ {
		c.emit("O %s init => ok fail=- %s\n", c06Name(x), c.view(x))
	}
	// channel_ready again (height 0): InsertNextRevocation
	for x := 0; x < 2 && !c.stop; x++ {
		if c.ready(x) {
			c.recoverFrom(x)
		}
	}
	rounds := 3 + r.Intn(4)
	if os.Getenv("VERIF_TIER") == "thorough" {
		rounds = 4 + r.Intn(8)
	}
	for rd := 0; rd < rounds && !c.stop; rd++ {
		if rd == borkAt {
			c.bork(r.Intn(2), false)
		}
		x := r.Intn(2)
		c.add(x)
		if r.Intn(3) == 0 {
			c.add(1 - x)
		}
		c.pump()
		// a secondary writer through a handle loaded earlier, at a quiescent point
		if !c.stop && (rd == 0 || r.Intn(2) == 0) {
			c.staleWrite((idx+rd)%2, rd == rounds-1)
		}
	}
	if !c.stop {
		// final reconnect from disk: whatever is retransmitted must obey the rule too
		c.reconnect([2]string{"disk", "disk"})
		c.pump()
	}
	c.emit("END\n")
	stats["cases"]++
}

func TestVerifC06Release(t *testing.T) {
	out := os.Getenv("VERIF_OUT")
	if out == "" {
		t.Skip("VERIF_OUT not set")
	}
	seed, _ := strconv.ParseInt(os.Getenv("VERIF_SEED"), 10, 64)
	if seed == 0 {
		seed = 1
	}
	f, err := os.Create(out)
	if err != nil {
		t.Fatal(err)
	}
	defer f.Close()
	w := bufio.NewWriterSize(f, 1<<20)
	defer w.Flush()

	nCases := 36
	if os.Getenv("VERIF_TIER") == "thorough" {
		nCases = 480
	}
	stats := map[string]int{}
	fmt.Fprintf(w, "FACT stream=release\n")
	for i := 0; i < nCases; i++ {
		// the structured index walks methods x nodes x call numbers; the seed shifts it
		idx := i + int(seed-1)*7
		c06RunCase(t, w, fmt.Sprintf("r%d-%d", seed, i), seed*1000003+int64(i), idx, stats)
	}
	// receiving half: ReceiveRevocation with the real store, the commitment-point check and
	// the persisted revocation state (zz_c06_recv_verif_test.go), cases `kind=recv`
	c06RecvCases(t, w, seed, os.Getenv("VERIF_TIER") == "thorough", stats)
	keys := make([]string, 0, len(stats))
	for k := range stats {
		keys = append(keys, k)
	}
	sortStrings(keys)
	for _, k := range keys {
		fmt.Fprintf(w, "H %s=%d\n", k, stats[k])
	}
}

func sortStrings(a []string) {
	for i := 1; i < len(a); i++ {
		for j := i; j > 0 && a[j] < a[j-1]; j-- {
			a[j], a[j-1] = a[j-1], a[j]
		}
	}
}
