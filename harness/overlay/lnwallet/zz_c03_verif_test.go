//go:build verif

package lnwallet

// C03 harness: channel reestablish.  Built on the C01 two-party harness
// (zz_c01_verif_test.go): the same random schedules, plus a `cut kA kB`
// operation at arbitrary points: deliver a prefix of each FIFO queue, drop the
// rest, restart both channels from their real databases, exchange the real
// ChanSyncMsg, run ProcessChanSyncMsg on both sides, queue what they return
// and let the schedule continue (the retransmissions go through the real
// Receive* calls; further cuts may hit the resynchronisation itself).
//
// Extra trace lines (the rest is the C01 format):
//   X drop qa=<n> qb=<m>                       undelivered messages lost
//   R <node> => ok lwr=<0|1> diff=<h|-> ...    restart (+ canonical dump)
//   Y <node> nl=<h> rt=<h> sec=<k|none|bad> pt=<k|bad>   ChanSyncMsg
//   P <node> dlp=<0|1> pend=<0|1> => ok msgs=<tok,..> q=..   ProcessChanSyncMsg (+ dump)
//   W <dir> <kind> <fields as built> => <fields as decoded | err:..>   every message that is exchanged
//       (updates, commitment_signed, revoke_and_ack; original and retransmitted) travels through
//       lnwire.WriteMessage -> bytes -> lnwire.ReadMessage; the receiver is handed the decoded message
//   YW <node> nl=.. rt=.. sec=.. pt=.. nonce=.. nonces=.. dyn=..   channel_reestablish as decoded by the peer
//       (the Y line shows it as built by ChanSyncMsg); ProcessChanSyncMsg gets the decoded message

import (
	"bufio"
	"bytes"
	"crypto/sha256"
	"encoding/hex"
	"errors"
	"fmt"
	"math/rand"
	"os"
	"sort"
	"strconv"
	"strings"
	"sync"
	"testing"

	"github.com/btcsuite/btcd/btcec/v2"
	"github.com/lightningnetwork/lnd/chanstate"
	"github.com/lightningnetwork/lnd/input"
	"github.com/lightningnetwork/lnd/lnwallet/chainfee"
	"github.com/lightningnetwork/lnd/lnwire"
	"github.com/lightningnetwork/lnd/shachain"
)

// ---------------------------------------------------------------------------
// the wire: every message the two channels exchange is serialised with the
// real lnwire.WriteMessage and parsed again with lnwire.ReadMessage, as on a
// real connection
// ---------------------------------------------------------------------------

func c03WireRT(m lnwire.Message) (out lnwire.Message, res string) {
	res = "ok"
	defer c01Recover(&res)
	var b bytes.Buffer
	if _, err := lnwire.WriteMessage(&b, m, 0); err != nil {
		return nil, "err:encode"
	}
	raw := b.Bytes()
	rd := bytes.NewReader(raw)
	out, err := lnwire.ReadMessage(rd, 0)
	if err != nil {
		return nil, "err:decode"
	}
	if rd.Len() != 0 {
		return nil, "err:trailing"
	}
	return out, "ok"
}

func c03H(b ...[]byte) string {
	h := sha256.New()
	for _, x := range b {
		h.Write(x)
	}
	return hex.EncodeToString(h.Sum(nil)[:6])
}

func c03NonceTok(n lnwire.OptMusig2NonceTLV) string {
	tok := "-"
	n.WhenSomeV(func(v lnwire.Musig2Nonce) { tok = c03H(v[:]) })
	return tok
}

func c03NoncesTok(n lnwire.OptLocalNonces) string {
	tok := "-"
	n.WhenSome(func(d lnwire.LocalNoncesData) {
		keys := make([]string, 0, len(d.NoncesMap))
		for k, v := range d.NoncesMap {
			keys = append(keys, c03H(k[:], v[:]))
		}
		sort.Strings(keys)
		tok = strconv.Itoa(len(keys)) + "/" + strings.Join(keys, "/")
	})
	return tok
}

// c03Canon renders the fields of a message that the receiver acts upon,
// straight from the struct (not via the encoder under test).
func c03Canon(m lnwire.Message) string {
	switch v := m.(type) {
	case *lnwire.UpdateAddHTLC:
		bp := "-"
		v.BlindingPoint.WhenSomeV(func(k *btcec.PublicKey) {
			if k != nil {
				bp = c03H(k.SerializeCompressed())
			}
		})
		return fmt.Sprintf("add:%s:%d:%d:%s:%d:%s:%s:%d", c03H(v.ChanID[:]), v.ID,
			uint64(v.Amount), c03H(v.PaymentHash[:]), v.Expiry, c03H(v.OnionBlob[:]),
			bp, len(v.CustomRecords))
	case *lnwire.UpdateFulfillHTLC:
		return fmt.Sprintf("settle:%s:%d:%s:%d", c03H(v.ChanID[:]), v.ID,
			c03H(v.PaymentPreimage[:]), len(v.CustomRecords))
	case *lnwire.UpdateFailHTLC:
		return fmt.Sprintf("fail:%s:%d:%d:%s", c03H(v.ChanID[:]), v.ID, len(v.Reason),
			c03H(v.Reason))
	case *lnwire.UpdateFee:
		return fmt.Sprintf("fee:%s:%d", c03H(v.ChanID[:]), v.FeePerKw)
	case *lnwire.CommitSig:
		var hs [][]byte
		for i := range v.HtlcSigs {
			hs = append(hs, v.HtlcSigs[i].RawBytes())
		}
		ps := "-"
		v.PartialSig.WhenSomeV(func(p lnwire.PartialSigWithNonce) {
			sb := p.Sig.Bytes()
			ps = c03H(sb[:], p.Nonce[:])
		})
		return fmt.Sprintf("sig:%s:%s:%d:%s:%s:%d", c03H(v.ChanID[:]),
			c03H(v.CommitSig.RawBytes()), len(v.HtlcSigs), c03H(hs...), ps,
			len(v.CustomRecords))
	case *lnwire.RevokeAndAck:
		nk := "nil"
		if v.NextRevocationKey != nil {
			nk = c03H(v.NextRevocationKey.SerializeCompressed())
		}
		return fmt.Sprintf("rev:%s:%s:%s:%s:%s", c03H(v.ChanID[:]), c03H(v.Revocation[:]),
			nk, c03NonceTok(v.LocalNonce), c03NoncesTok(v.LocalNonces))
	}
	return fmt.Sprintf("unknown:%T", m)
}

// markers: a queue entry that has already travelled over the wire carries one
// of these in a field its kind does not use
var (
	c03WiredRev = &lnwire.RevokeAndAck{}
	c03WiredAdd = &lnwire.UpdateAddHTLC{}
)

func c03IsWired(m *c01Msg) bool {
	if m.kind == "revoke" {
		return m.add == c03WiredAdd
	}
	return m.rev == c03WiredRev
}

// wire sends every not yet transmitted entry of both queues through
// WriteMessage / ReadMessage and replaces it by what the receiver decoded.
func (c *c03State) wire(s *c01Sched) {
	cid := lnwire.NewChanIDFromOutPoint(s.p.Ch[0].channelState.FundingOutpoint)
	for d := 0; d < 2; d++ {
		for i := range s.p.Q[d] {
			m := &s.p.Q[d][i]
			if c03IsWired(m) {
				continue
			}
			var built lnwire.Message
			switch m.kind {
			case "add":
				cp := *m.add
				cp.ChanID = cid
				built = &cp
			case "settle":
				built = &lnwire.UpdateFulfillHTLC{ChanID: cid, ID: m.idx,
					PaymentPreimage: m.preimage}
			case "fail":
				built = &lnwire.UpdateFailHTLC{ChanID: cid, ID: m.idx,
					Reason: []byte("c01")}
			case "fee":
				built = &lnwire.UpdateFee{ChanID: cid, FeePerKw: uint32(m.fee)}
			case "commitsig":
				built = &lnwire.CommitSig{ChanID: cid, CommitSig: m.sigs.CommitSig,
					HtlcSigs: m.sigs.HtlcSigs, PartialSig: m.sigs.PartialSig}
			case "revoke":
				cp := *m.rev
				cp.ChanID = cid
				built = &cp
			default:
				continue
			}
			sent := c03Canon(built)
			got, res := c03WireRT(built)
			gotTok := res
			if res == "ok" {
				gotTok = c03Canon(got)
				switch v := got.(type) {
				case *lnwire.UpdateAddHTLC:
					m.add = v
				case *lnwire.UpdateFulfillHTLC:
					m.idx, m.preimage = v.ID, v.PaymentPreimage
				case *lnwire.UpdateFailHTLC:
					m.idx = v.ID
				case *lnwire.UpdateFee:
					m.fee = chainfee.SatPerKWeight(v.FeePerKw)
				case *lnwire.CommitSig:
					m.sigs = &CommitSigs{CommitSig: v.CommitSig, HtlcSigs: v.HtlcSigs,
						PartialSig: v.PartialSig}
				case *lnwire.RevokeAndAck:
					m.rev = v
				}
				if !strings.HasPrefix(gotTok, strings.SplitN(sent, ":", 2)[0]+":") {
					gotTok = "err:type:" + gotTok
					res = "err:type"
				}
			}
			if m.kind == "revoke" {
				m.add = c03WiredAdd
			} else {
				m.rev = c03WiredRev
			}
			dir := "AB"
			if d == 1 {
				dir = "BA"
			}
			s.emit(fmt.Sprintf("W %s %s %s => %s\n", dir, m.kind, sent, gotTok))
			s.stats["wire_"+m.kind]++
			if res != "ok" {
				// the receiving peer cannot parse the message: the
				// connection is torn down
				s.stats["wire_failed"]++
				s.dead = true
			}
		}
	}
}

// act = a local action followed by its message going out on the wire.
func (c *c03State) act(s *c01Sched, x int, a c01Act) string {
	res := s.runAct(x, a)
	c.wire(s)
	return res
}

// ---------------------------------------------------------------------------
// reload / sync primitives
// ---------------------------------------------------------------------------

// c03Reload discards the in-memory channel of node x and rebuilds it from the
// node's database (what a restart does).
func c03Reload(p *c01Pair, x int) (res string, extra string) {
	defer c01Recover(&res)
	old := p.Ch[x]
	chans, err := old.channelState.Db.FetchOpenChannels(
		old.channelState.IdentityPub,
	)
	if err != nil {
		return "other:fetch", err.Error()
	}
	if len(chans) != 1 {
		return "other:fetchcount", ""
	}
	st := chans[0]
	ch, err := NewLightningChannel(old.Signer, st, old.sigPool)
	if err != nil {
		return "other:new_" + c01ErrClass(err), ""
	}
	p.Ch[x] = ch

	diff := "-"
	nupd := 0
	if d, err := st.RemoteCommitChainTip(); err == nil && d != nil {
		diff = strconv.FormatUint(d.Commitment.CommitHeight, 10)
		nupd = len(d.LogUpdates)
	}
	ua, _ := st.UnsignedAckedUpdates()
	rul, _ := st.RemoteUnsignedLocalUpdates()
	lwr := 0
	if st.LastWasRevoke {
		lwr = 1
	}
	extra = fmt.Sprintf("lwr=%d diff=%s nupd=%d ua=%d rul=%d lh=%d rh=%d", lwr, diff,
		nupd, len(ua), len(rul), st.LocalCommitment.CommitHeight,
		st.RemoteCommitment.CommitHeight)
	return "ok", extra
}

// c03SecretIndex finds the index of a secret in a revocation producer.
func c03SecretIndex(prod shachain.Producer, secret [32]byte, limit uint64) string {
	var zero [32]byte
	if secret == zero {
		return "none"
	}
	for i := uint64(0); i <= limit; i++ {
		s, err := prod.AtIndex(i)
		if err != nil {
			break
		}
		if bytes.Equal(s[:], secret[:]) {
			return strconv.FormatUint(i, 10)
		}
	}
	return "bad"
}

func c03PointIndex(prod shachain.Producer, msg *lnwire.ChannelReestablish, limit uint64) string {
	if msg.LocalUnrevokedCommitPoint == nil {
		return "absent"
	}
	for i := uint64(0); i <= limit; i++ {
		s, err := prod.AtIndex(i)
		if err != nil {
			break
		}
		if input.ComputeCommitmentPoint(s[:]).IsEqual(msg.LocalUnrevokedCommitPoint) {
			return strconv.FormatUint(i, 10)
		}
	}
	return "bad"
}

func c03SyncErrClass(err error) string {
	if err == nil {
		return "ok"
	}
	var ldl *ErrCommitSyncLocalDataLoss
	switch {
	case errors.Is(err, ErrInvalidLastCommitSecret):
		return "invalidSecret"
	case errors.Is(err, ErrInvalidLocalUnrevokedCommitPoint):
		return "invalidCommitPoint"
	case errors.Is(err, ErrCommitSyncRemoteDataLoss):
		return "remoteDataLoss"
	case errors.Is(err, ErrCannotSyncCommitChains):
		return "cannotSync"
	case errors.As(err, &ldl):
		return "localDataLoss"
	}
	return "signFailed:" + c01ErrClass(err)
}

type c03State struct {
	lastSig [2]*CommitSigs // last commitment_signed produced by each node
	taproot bool           // nonces travel in the TLV part of channel_reestablish: no legacy encoding
}

// c03Convert turns the messages returned by ProcessChanSyncMsg into queue
// entries and canonical tokens.
func (c *c03State) convert(p *c01Pair, x int, msgs []lnwire.Message) ([]c01Msg, []string) {
	var (
		out  []c01Msg
		toks []string
	)
	prod := p.Ch[x].channelState.RevocationProducer
	limit := p.Ch[x].channelState.LocalCommitment.CommitHeight + 4
	for _, m := range msgs {
		switch v := m.(type) {
		case *lnwire.UpdateAddHTLC:
			cp := *v
			out = append(out, c01Msg{kind: "add", add: &cp})
			toks = append(toks, fmt.Sprintf("add:%d:%d:%d:%d", v.ID, uint64(v.Amount),
				v.Expiry, p.hashID[v.PaymentHash]))
		case *lnwire.UpdateFulfillHTLC:
			out = append(out, c01Msg{kind: "settle", idx: v.ID, preimage: v.PaymentPreimage})
			toks = append(toks, fmt.Sprintf("settle:%d", v.ID))
		case *lnwire.UpdateFailHTLC:
			out = append(out, c01Msg{kind: "fail", idx: v.ID})
			toks = append(toks, fmt.Sprintf("fail:%d", v.ID))
		case *lnwire.UpdateFailMalformedHTLC:
			out = append(out, c01Msg{kind: "fail", idx: v.ID})
			toks = append(toks, fmt.Sprintf("malformed:%d", v.ID))
		case *lnwire.UpdateFee:
			out = append(out, c01Msg{kind: "fee", fee: chainfee.SatPerKWeight(v.FeePerKw)})
			toks = append(toks, fmt.Sprintf("fee:%d", v.FeePerKw))
		case *lnwire.CommitSig:
			sigs := &CommitSigs{
				CommitSig: v.CommitSig, HtlcSigs: v.HtlcSigs, PartialSig: v.PartialSig,
			}
			same := 0
			if ls := c.lastSig[x]; ls != nil &&
				bytes.Equal(ls.CommitSig.RawBytes(), v.CommitSig.RawBytes()) &&
				len(ls.HtlcSigs) == len(v.HtlcSigs) {

				same = 1
				for i := range ls.HtlcSigs {
					if !bytes.Equal(ls.HtlcSigs[i].RawBytes(), v.HtlcSigs[i].RawBytes()) {
						same = 0
					}
				}
			}
			c.lastSig[x] = sigs
			out = append(out, c01Msg{kind: "commitsig", sigs: sigs})
			toks = append(toks, fmt.Sprintf("sig:%d:%d", len(v.HtlcSigs), same))
		case *lnwire.RevokeAndAck:
			out = append(out, c01Msg{kind: "revoke", rev: v})
			nk := "bad"
			for i := uint64(0); i <= limit; i++ {
				s, err := prod.AtIndex(i)
				if err != nil {
					break
				}
				if input.ComputeCommitmentPoint(s[:]).IsEqual(v.NextRevocationKey) {
					nk = strconv.FormatUint(i, 10)
				}
			}
			toks = append(toks, fmt.Sprintf("rev:%s:%s",
				c03SecretIndex(prod, v.Revocation, limit), nk))
		default:
			toks = append(toks, "unknown")
		}
	}
	return out, toks
}

// noteSigs remembers the newest commitment_signed still in a queue.
func (c *c03State) noteSigs(p *c01Pair) {
	for x := 0; x < 2; x++ {
		for i := len(p.Q[x]) - 1; i >= 0; i-- {
			if p.Q[x][i].kind == "commitsig" {
				c.lastSig[x] = p.Q[x][i].sigs
				break
			}
		}
	}
}

// ---------------------------------------------------------------------------
// the cut operation
// ---------------------------------------------------------------------------

type c03Cut struct {
	kA, kB int
	dlp    [2]bool // does node x send the data-loss-protect fields
	half   int     // -1: both process the reestablish; 0/1: first only that node does, the connection drops again
	// crash[d]: if the last delivered message of direction d is a
	// commitment_signed, the receiver dies between ReceiveNewCommitment and
	// RevokeCurrentCommitment.  Otherwise every accepted signature is
	// answered at once, as lnd's link does (it never handles another message
	// while it holds an unrevoked commitment).
	crash [2]bool
	kBrel bool // kB is drawn after the A->B prefix has been handled
}

func c03b2i(b bool) int {
	if b {
		return 1
	}
	return 0
}

func (c *c03State) reloadBoth(s *c01Sched) bool {
	s.emit(fmt.Sprintf("X drop qa=%d qb=%d\n", len(s.p.Q[0]), len(s.p.Q[1])))
	s.p.Q[0], s.p.Q[1] = nil, nil
	for x := 0; x < 2; x++ {
		res, extra := c03Reload(s.p, x)
		s.emit(fmt.Sprintf("R %s => %s %s q=0,0\n", string(rune('A'+x)), res, extra))
		s.stats["reload_"+strings.SplitN(res, ":", 2)[0]]++
		if res != "ok" {
			s.dead = true
			return false
		}
		s.dump(x)
	}
	return true
}

// reestFields renders a channel_reestablish: heights, the secret / commit
// point located in the real shachain producers, the taproot nonces.
func c03ReestFields(s *c01Sched, x int, m *lnwire.ChannelReestablish) string {
	ch := s.p.Ch[x]
	limit := ch.channelState.LocalCommitment.CommitHeight +
		ch.channelState.RemoteCommitment.CommitHeight + 4
	sec := c03SecretIndex(s.p.Ch[1-x].channelState.RevocationProducer,
		m.LastRemoteCommitSecret, limit)
	pt := c03PointIndex(ch.channelState.RevocationProducer, m, limit)
	dyn := "-"
	m.DynHeight.WhenSome(func(h lnwire.DynHeight) { dyn = strconv.FormatUint(uint64(h), 10) })
	return fmt.Sprintf("nl=%d rt=%d sec=%s pt=%s nonce=%s nonces=%s dyn=%s",
		m.NextLocalCommitHeight, m.RemoteCommitTailHeight, sec, pt,
		c03NonceTok(m.LocalNonce), c03NoncesTok(m.LocalNonces), dyn)
}

// syncMsgs builds both channel_reestablish messages with the real ChanSyncMsg
// and sends each through the wire; what is returned (and later processed) is
// what the peer decoded.
func (c *c03State) syncMsgs(s *c01Sched, dlp [2]bool) ([2]*lnwire.ChannelReestablish, bool) {
	var msgs [2]*lnwire.ChannelReestablish
	if c.taproot {
		// the musig2 nonces live in the TLV stream behind the
		// data-loss-protect fields: there is no taproot peer without them
		dlp = [2]bool{true, true}
	}
	for x := 0; x < 2; x++ {
		ch := s.p.Ch[x]
		name := string(rune('A' + x))
		m, err := ch.channelState.ChanSyncMsg()
		if err != nil {
			s.emit(fmt.Sprintf("Y %s => %s\n", name, c01ErrClass(err)))
			s.dead = true
			return msgs, false
		}
		built := c03ReestFields(s, x, m)
		if !dlp[x] {
			// a peer without option_data_loss_protect: the message ends
			// after the two heights
			m.LocalUnrevokedCommitPoint = nil
		}
		s.emit(fmt.Sprintf("Y %s dlp=%d %s\n", name, c03b2i(dlp[x]), built))
		got, res := c03WireRT(m)
		dec, ok := got.(*lnwire.ChannelReestablish)
		if res == "ok" && !ok {
			res = "err:type"
		}
		if res != "ok" {
			s.emit(fmt.Sprintf("YW %s => %s\n", name, res))
			s.stats["wire_failed"]++
			s.dead = true
			return msgs, false
		}
		s.emit(fmt.Sprintf("YW %s %s\n", name, c03ReestFields(s, x, dec)))
		s.stats["wire_reestablish"]++
		if dec.RemoteCommitTailHeight == 0 {
			s.stats["wire_reestablish_tail0"]++
		}
		if dec.NextLocalCommitHeight == 1 {
			s.stats["wire_reestablish_fresh"]++
		}
		msgs[x] = dec
	}
	return msgs, true
}

func (c *c03State) process(s *c01Sched, x int, msg *lnwire.ChannelReestablish) (res string) {
	name := string(rune('A' + x))
	ch := s.p.Ch[x]
	pend := c03b2i(ch.commitChains.Remote.hasUnackedCommitment())
	var toks []string
	func() {
		defer c01Recover(&res)
		out, _, _, err := ch.ProcessChanSyncMsg(ctxb, msg)
		res = c03SyncErrClass(err)
		if err == nil {
			var q []c01Msg
			q, toks = c.convert(s.p, x, out)
			s.p.Q[x] = append(s.p.Q[x], q...)
		}
	}()
	list := "-"
	if len(toks) > 0 {
		list = strings.Join(toks, ",")
	}
	s.emit(fmt.Sprintf("P %s pend=%d => %s msgs=%s q=%d,%d\n", name, pend, res, list,
		len(s.p.Q[0]), len(s.p.Q[1])))
	s.dump(x)
	s.stats["sync_"+strings.SplitN(res, ":", 2)[0]]++
	for _, t := range toks {
		s.stats["retx_"+strings.SplitN(t, ":", 2)[0]]++
	}
	if len(toks) == 0 && res == "ok" {
		s.stats["retx_nothing"]++
	}
	if res != "ok" {
		s.dead = true
	}
	// the retransmissions go out on the new connection
	c.wire(s)
	return res
}

func (c *c03State) cut(s *c01Sched, cu c03Cut) {
	if s.dead {
		return
	}
	s.stats["cuts"]++
	prefix := func(d, k int) {
		for i := 0; i < k && len(s.p.Q[d]) > 0 && !s.dead; i++ {
			kind := s.p.Q[d][0].kind
			res := s.runDeliver(d)
			last := i == k-1 || len(s.p.Q[d]) == 0
			if kind == "commitsig" && res == "ok" {
				if last && cu.crash[d] {
					s.stats["crash_before_revoke"]++
					continue
				}
				c.act(s, 1-d, c01Act{Kind: "revoke"})
			}
		}
	}
	prefix(0, cu.kA)
	if cu.kBrel {
		cu.kB = c.pickK(s.r, len(s.p.Q[1]))
	}
	prefix(1, cu.kB)
	if s.dead {
		return
	}
	if len(s.p.Q[0])+len(s.p.Q[1]) > 0 {
		s.stats["cuts_with_loss"]++
	}
	if !c.reloadBoth(s) {
		return
	}
	if cu.half >= 0 {
		s.stats["half_syncs"]++
		msgs, ok := c.syncMsgs(s, cu.dlp)
		if !ok {
			return
		}
		if c.process(s, cu.half, msgs[1-cu.half]) != "ok" {
			return
		}
		if !c.reloadBoth(s) {
			return
		}
	}
	msgs, ok := c.syncMsgs(s, cu.dlp)
	if !ok {
		return
	}
	order := []int{0, 1}
	if s.r.Intn(2) == 0 {
		order = []int{1, 0}
	}
	for _, x := range order {
		if c.process(s, x, msgs[1-x]) != "ok" {
			return
		}
	}
}

func (c *c03State) pickK(r *rand.Rand, n int) int {
	switch r.Intn(4) {
	case 0:
		return 0
	case 1:
		return n
	default:
		return r.Intn(n + 1)
	}
}

func (c *c03State) randomCut(s *c01Sched) c03Cut {
	r := s.r
	cu := c03Cut{kA: c.pickK(r, len(s.p.Q[0])), kBrel: true, half: -1}
	cu.dlp = [2]bool{r.Intn(5) != 0, r.Intn(5) != 0}
	cu.crash = [2]bool{r.Intn(2) == 0, r.Intn(2) == 0}
	if r.Intn(6) == 0 {
		cu.half = r.Intn(2)
	}
	return cu
}

// drain completes the dance until nothing is in flight, the way lnd's link
// does it: one message at a time, a commitment_signed is answered with the
// revocation before anything else is handled.
func (c *c03State) drain(s *c01Sched, resolve bool) {
	for i := 0; i < 400 && !s.dead; i++ {
		progress := false
		for d := 0; d < 2 && !s.dead; d++ {
			if len(s.p.Q[d]) == 0 {
				continue
			}
			kind := s.p.Q[d][0].kind
			res := s.runDeliver(d)
			progress = true
			if kind == "commitsig" && res == "ok" {
				c.act(s, 1-d, c01Act{Kind: "revoke"})
			}
		}
		if s.dead {
			return
		}
		if progress {
			continue
		}
		for x := 0; x < 2; x++ {
			ch := s.p.Ch[x]
			if ch.commitChains.Local.hasUnackedCommitment() {
				c.act(s, x, c01Act{Kind: "revoke"})
				progress = true
			}
		}
		for x := 0; x < 2; x++ {
			ch := s.p.Ch[x]
			if ch.OweCommitment() && !ch.commitChains.Remote.hasUnackedCommitment() {
				if c.act(s, x, c01Act{Kind: "sign"}) == "ok" {
					progress = true
				}
			}
		}
		if !progress && resolve {
			for x := 0; x < 2; x++ {
				for _, idx := range s.settleable(x) {
					c.act(s, x, c01Act{Kind: c01Pick(s.r, "settle", "fail"), Idx: idx})
					progress = true
				}
			}
		}
		if !progress {
			return
		}
	}
	c.noteSigs(s.p)
}

// ---------------------------------------------------------------------------
// the decision table beyond two honest peers: a channel_reestablish that is
// stale (the peer lost state), ahead (WE lost state: the peer proves it with
// our own revocation secret), or inconsistent (wrong secret, wrong commit
// point, no nonce), and the restored-from-backup channel status.
//
//   Q <node> kind=<forgery> restored=<0|1> nl=.. rt=.. sec=.. pt=.. nonce=.. nonces=.. dyn=..
//       => <class> msgs=<tok,..> lcp=<ok|bad|-> q=0,0
//
// the fields are those the receiver decoded from the wire; <class> and the
// messages are the real ProcessChanSyncMsg's answer; lcp = does the
// ErrCommitSyncLocalDataLoss carry the commit point of the message.  The dump
// that follows is the channel after the call (a re-sign of the "owe
// revocation" arm stays, also when the call fails later); then the node
// restarts (R line + dump) as it does after a failed link.
// ---------------------------------------------------------------------------

type c03Forge struct {
	dNext, dTail int
	sec          string // match (the secret that fits the claimed height) | keep | rand | zero
	pt           string // match (the point that fits the claimed height) | keep | rand | absent
	stripNonce   bool
	restored     bool
}

func (f c03Forge) kind() string {
	if f.dNext == 0 && f.dTail == 0 && f.sec == "match" && f.pt == "match" && !f.stripNonce &&
		!f.restored {

		return "honest"
	}
	return fmt.Sprintf("n%+d,t%+d,s:%s,p:%s,x%d,r%d", f.dNext, f.dTail, f.sec, f.pt,
		c03b2i(f.stripNonce), c03b2i(f.restored))
}

func c03PickForge(r *rand.Rand) c03Forge {
	f := c03Forge{sec: "match", pt: "match"}
	delta := func() int { return c01Pick(r, -2, -1, -1, 1, 1, 2) }
	switch x := r.Intn(20); {
	case x < 2: // the honest message
	case x < 6:
		f.dTail = delta()
	case x < 10:
		f.dNext = delta()
	case x < 12:
		f.sec = c01Pick(r, "rand", "zero", "keep")
		f.dTail = c01Pick(r, 0, 0, 1, -1)
	case x < 14:
		f.pt = c01Pick(r, "rand", "absent", "keep")
		f.dNext = c01Pick(r, 0, 0, 1, -1)
	case x < 15:
		f.stripNonce = true
	case x < 16:
		f.restored = true
		f.pt = c01Pick(r, "match", "absent")
		f.dTail = c01Pick(r, 0, 1, -1)
	default:
		f.dTail = c01Pick(r, -2, -1, 0, 0, 1, 2)
		f.dNext = c01Pick(r, -2, -1, 0, 0, 1, 2)
		f.sec = c01Pick(r, "match", "match", "keep", "rand", "zero")
		f.pt = c01Pick(r, "match", "match", "keep", "rand", "absent")
		f.stripNonce = r.Intn(8) == 0
	}
	return f
}

// probe hands one forged channel_reestablish to the freshly restarted node x.
func (c *c03State) probe(s *c01Sched, x int, f c03Forge) {
	name := string(rune('A' + x))
	ch, peer := s.p.Ch[x], s.p.Ch[1-x]
	// as on a real reconnection the node builds its own message first
	if _, err := ch.channelState.ChanSyncMsg(); err != nil {
		s.stats["probe_skipped"]++
		return
	}
	hm, err := peer.channelState.ChanSyncMsg()
	if err != nil {
		s.stats["probe_skipped"]++
		return
	}
	m := *hm
	nl := int64(hm.NextLocalCommitHeight) + int64(f.dNext)
	tl := int64(hm.RemoteCommitTailHeight) + int64(f.dTail)
	if nl < 0 {
		nl = 0
	}
	if tl < 0 {
		tl = 0
	}
	m.NextLocalCommitHeight, m.RemoteCommitTailHeight = uint64(nl), uint64(tl)
	switch f.sec {
	case "match":
		m.LastRemoteCommitSecret = [32]byte{}
		if tl > 0 {
			sec, err := ch.channelState.RevocationProducer.AtIndex(uint64(tl - 1))
			if err != nil {
				s.stats["probe_skipped"]++
				return
			}
			copy(m.LastRemoteCommitSecret[:], sec[:])
		}
	case "rand":
		s.r.Read(m.LastRemoteCommitSecret[:])
	case "zero":
		m.LastRemoteCommitSecret = [32]byte{}
	}
	switch f.pt {
	case "match":
		if nl > 0 {
			sec, err := peer.channelState.RevocationProducer.AtIndex(uint64(nl - 1))
			if err != nil {
				s.stats["probe_skipped"]++
				return
			}
			m.LocalUnrevokedCommitPoint = input.ComputeCommitmentPoint(sec[:])
		}
	case "rand":
		var b [32]byte
		s.r.Read(b[:])
		b[0] &= 0x7f
		b[31] |= 1
		_, pub := btcec.PrivKeyFromBytes(b[:])
		m.LocalUnrevokedCommitPoint = pub
	case "absent":
		if !c.taproot {
			m.LocalUnrevokedCommitPoint = nil
		}
	}
	if f.stripNonce {
		m.LocalNonce = lnwire.OptMusig2NonceTLV{}
		m.LocalNonces = lnwire.OptLocalNonces{}
	}
	got, wres := c03WireRT(&m)
	dec, ok := got.(*lnwire.ChannelReestablish)
	if wres != "ok" || !ok {
		s.stats["probe_skipped"]++
		return
	}
	fields := c03ReestFields(s, 1-x, dec)
	// the status of a channel restored from a static backup: set on the
	// in-memory state only (the node is rebuilt from its database afterwards)
	oldStatus := ch.channelState.ChannelStatusForStore()
	if f.restored {
		ch.channelState.SetChannelStatusForStore(oldStatus | chanstate.ChanStatusRestored)
	}
	var (
		res  string
		toks []string
		lcp  = "-"
	)
	func() {
		defer c01Recover(&res)
		out, _, _, err := ch.ProcessChanSyncMsg(ctxb, dec)
		res = c03SyncErrClass(err)
		var ldl *ErrCommitSyncLocalDataLoss
		switch {
		case err == nil:
			// the answer is never delivered: the connection drops again
			_, toks = c.convert(s.p, x, out)
		case errors.As(err, &ldl):
			lcp = "bad"
			if ldl.CommitPoint != nil && dec.LocalUnrevokedCommitPoint != nil &&
				ldl.CommitPoint.IsEqual(dec.LocalUnrevokedCommitPoint) {

				lcp = "ok"
			}
		case strings.Contains(err.Error(), "remote verification nonce not sent"):
			res = "noNonce"
		}
	}()
	if f.restored {
		ch.channelState.SetChannelStatusForStore(oldStatus)
	}
	list := "-"
	if len(toks) > 0 {
		list = strings.Join(toks, ",")
	}
	s.emit(fmt.Sprintf("Q %s kind=%s restored=%d %s => %s msgs=%s lcp=%s q=0,0\n", name, f.kind(),
		c03b2i(f.restored), fields, res, list, lcp))
	s.dump(x)
	s.stats["probes"]++
	s.stats["probe_"+strings.SplitN(res, ":", 2)[0]]++
	if f.kind() == "honest" {
		s.stats["probes_honest"]++
	}
	if strings.HasPrefix(res, "signFailed") || res == "panic" {
		s.dead = true
		return
	}
	// the link has failed (or the connection dropped): the node restarts
	r2, extra := c03Reload(s.p, x)
	s.emit(fmt.Sprintf("R %s => %s %s q=0,0\n", name, r2, extra))
	if r2 != "ok" {
		s.dead = true
		return
	}
	s.dump(x)
}

// dlpProbes: the connection is gone, both restart, then n forged
// reestablish messages are tried, each followed by a restart of the receiver.
func (c *c03State) dlpProbes(s *c01Sched, n int) {
	if s.dead || n == 0 {
		return
	}
	if !c.reloadBoth(s) {
		return
	}
	for i := 0; i < n && !s.dead; i++ {
		c.probe(s, s.r.Intn(2), c03PickForge(s.r))
	}
}

// ---------------------------------------------------------------------------
// cases
// ---------------------------------------------------------------------------

type c03Plan struct {
	id       int
	kind     string // rand | probe | exh
	ki       int    // channel kind
	seed     int64  // schedule seed
	prefix   int    // exh: number of schedule steps before the cut
	cut      c03Cut
	maxSteps int
	maxAdds  int
	cutProb  int // one cut every cutProb steps on average (0: none besides the planned one)
	probes   int // forged channel_reestablish probes at the end of the case
}

type c03Result struct {
	buf    bytes.Buffer
	stats  map[string]int
	qtrace [][2]int // probe: queue lengths after each step
}

func c03RunCase(t *testing.T, pl c03Plan) *c03Result {
	res := &c03Result{stats: map[string]int{}}
	r := rand.New(rand.NewSource(pl.seed))
	kind := c01ChanKinds[pl.ki]
	p := c01GenParams(r, kind)
	pair, err := c01NewPair(t, p, uint32(pl.id%1_000_000))
	if err != nil {
		t.Errorf("pair: %v", err)
		return res
	}
	w := bufio.NewWriterSize(&res.buf, 1<<16)
	s := &c01Sched{r: r, p: pair, w: w, stats: res.stats}
	c := &c03State{taproot: p.ChanType.IsTaproot()}
	w.WriteString(c01CaseHeader(pl.id, pl.kind, p, pair))
	fmt.Fprintf(w, "T tweakless=%d\n", c03b2i(p.ChanType.IsTweakless()))
	s.dump(0)
	s.dump(1)
	// lnd's link revokes as soon as it has accepted a commitment_signed
	eager := true
	steps := 6 + r.Intn(pl.maxSteps)

	stepOnce := func() bool {
		ok := s.step(eager, pl.maxAdds)
		c.noteSigs(pair)
		c.wire(s)
		return ok
	}

	switch pl.kind {
	case "probe":
		for i := 0; i < steps && !s.dead; i++ {
			if !stepOnce() {
				break
			}
			res.qtrace = append(res.qtrace, [2]int{len(pair.Q[0]), len(pair.Q[1])})
		}
		// the uncut run still ends with a reconnection when idle / mid-flight
		c.cut(s, c.randomCut(s))

	case "exh":
		for i := 0; i < pl.prefix && !s.dead; i++ {
			if !stepOnce() {
				break
			}
		}
		if len(pair.Q[0]) < pl.cut.kA || len(pair.Q[1]) < pl.cut.kB {
			res.stats["replay_divergence"]++
		}
		c.cut(s, pl.cut)
		// continue on a fresh random stream: further steps and (nested) cuts
		s.r = rand.New(rand.NewSource(pl.seed*7919 + int64(pl.prefix)*131 +
			int64(pl.cut.kA)*17 + int64(pl.cut.kB)))
		more := 4 + s.r.Intn(14)
		for i := 0; i < more && !s.dead; i++ {
			if s.r.Intn(4) == 0 {
				c.cut(s, c.randomCut(s))
				continue
			}
			if !stepOnce() {
				break
			}
		}

	case "early":
		// boundary class: reconnections of the fresh channel (height 0,
		// nothing ever revoked: all-zero last secret, first commit point,
		// first nonces) and during the very first dance, before and right
		// after the first revoke_and_ack of either side
		c.cut(s, c.randomCut(s))
		for i := 0; i < steps && !s.dead; i++ {
			early := pair.Ch[0].channelState.RemoteCommitment.CommitHeight == 0 ||
				pair.Ch[1].channelState.RemoteCommitment.CommitHeight == 0
			if (early && r.Intn(3) == 0) || (!early && r.Intn(8) == 0) {
				c.cut(s, c.randomCut(s))
				continue
			}
			if !stepOnce() {
				break
			}
		}

	default: // rand | dlp
		for i := 0; i < steps && !s.dead; i++ {
			if pl.cutProb > 0 && r.Intn(pl.cutProb) == 0 {
				c.cut(s, c.randomCut(s))
				// a second drop while the retransmissions are in flight
				for r.Intn(3) == 0 && !s.dead {
					c.cut(s, c.randomCut(s))
				}
				continue
			}
			if !stepOnce() {
				break
			}
			if r.Intn(30) == 0 {
				c.drain(s, false)
			}
		}
	}

	if pl.kind == "dlp" {
		// the decision table on mid-flight states: whatever is in the queues
		// is lost, then forged / stale channel_reestablish messages
		c.dlpProbes(s, pl.probes)
	} else {
		// final: drain, one more reconnection of the quiescent channel, full dance
		c.drain(s, r.Intn(2) == 0)
		if !s.dead && r.Intn(2) == 0 {
			c.cut(s, c03Cut{kA: 0, kB: 0, dlp: [2]bool{true, true}, half: -1})
		}
		c.drain(s, true)
		c.drain(s, false)
		c.dlpProbes(s, pl.probes)
	}
	w.WriteString("END\n")
	w.Flush()
	res.stats["cases"]++
	res.stats["kind_"+pl.kind]++
	res.stats["type_"+kind.name]++
	if s.dead {
		res.stats["dead_cases"]++
	}
	return res
}

func TestVerifC03(t *testing.T) {
	out := os.Getenv("VERIF_OUT")
	if out == "" {
		t.Skip("VERIF_OUT not set")
	}
	seed, _ := strconv.ParseInt(os.Getenv("VERIF_SEED"), 10, 64)
	tier := os.Getenv("VERIF_TIER")
	f, err := os.Create(out)
	if err != nil {
		t.Fatal(err)
	}
	defer f.Close()
	w := bufio.NewWriterSize(f, 1<<20)
	defer w.Flush()

	randPerKind, probesPerKind, maxSteps, maxAdds, probeSteps := 14, 2, 40, 6, 16
	earlyPerKind, dlpPerKind, dlpProbes, endProbes := 3, 5, 12, 2
	if tier == "thorough" {
		randPerKind, probesPerKind, maxSteps, maxAdds, probeSteps = 130, 10, 90, 10, 30
		earlyPerKind, dlpPerKind, dlpProbes = 20, 40, 16
	}
	if v, err := strconv.Atoi(os.Getenv("VERIF_C03_RAND")); err == nil && v >= 0 {
		randPerKind = v
	}
	if v, err := strconv.Atoi(os.Getenv("VERIF_C03_PROBES")); err == nil && v >= 0 {
		probesPerKind = v
	}

	var (
		mu    sync.Mutex
		stats = map[string]int{}
	)
	finish := func(res *c03Result) {
		mu.Lock()
		defer mu.Unlock()
		w.Write(res.buf.Bytes())
		for k, v := range res.stats {
			stats[k] += v
		}
	}

	nextID := 0
	newID := func() int { nextID++; return nextID }

	// phase 1: random schedules with random cuts, and the probes of the
	// exhaustive part
	var (
		plans  []c03Plan
		probes []c03Plan
	)
	for ki := range c01ChanKinds {
		for c := 0; c < randPerKind; c++ {
			plans = append(plans, c03Plan{id: newID(), kind: "rand", ki: ki,
				seed:     seed*1_000_003 + int64(ki)*10_007 + int64(c),
				maxSteps: maxSteps, maxAdds: maxAdds, cutProb: 5 + c%6, cut: c03Cut{half: -1},
				probes: endProbes})
		}
		for c := 0; c < dlpPerKind; c++ {
			plans = append(plans, c03Plan{id: newID(), kind: "dlp", ki: ki,
				seed:     seed*4_000_037 + int64(ki)*40_009 + int64(c),
				maxSteps: 30, maxAdds: maxAdds, cutProb: 6 + c%5, cut: c03Cut{half: -1},
				probes: dlpProbes})
		}
		for c := 0; c < earlyPerKind; c++ {
			plans = append(plans, c03Plan{id: newID(), kind: "early", ki: ki,
				seed:     seed*3_000_017 + int64(ki)*30_011 + int64(c),
				maxSteps: 24, maxAdds: maxAdds, cut: c03Cut{half: -1}, probes: endProbes})
		}
		for c := 0; c < probesPerKind; c++ {
			probes = append(probes, c03Plan{id: newID(), kind: "probe", ki: ki,
				seed:     seed*2_000_003 + int64(ki)*20_011 + int64(c),
				maxSteps: probeSteps, maxAdds: maxAdds})
		}
	}
	probeRes := make([]*c03Result, len(probes))
	t.Run("phase1", func(t *testing.T) {
		for i := range plans {
			pl := plans[i]
			t.Run(fmt.Sprintf("rand_%d", pl.id), func(t *testing.T) {
				t.Parallel()
				finish(c03RunCase(t, pl))
			})
		}
		for i := range probes {
			i := i
			pl := probes[i]
			t.Run(fmt.Sprintf("probe_%d", pl.id), func(t *testing.T) {
				t.Parallel()
				r := c03RunCase(t, pl)
				probeRes[i] = r
				finish(r)
			})
		}
	})

	// phase 2: for every prefix of every probed schedule, every (kA, kB)
	var exh []c03Plan
	for i, pr := range probes {
		if probeRes[i] == nil {
			continue
		}
		for L, q := range probeRes[i].qtrace {
			for kA := 0; kA <= q[0]; kA++ {
				for kB := 0; kB <= q[1]; kB++ {
					n := len(exh)
					cu := c03Cut{kA: kA, kB: kB, half: -1,
						dlp:   [2]bool{n%7 != 3, n%5 != 2},
						crash: [2]bool{n%2 == 0, n%3 == 0}}
					if n%9 == 4 {
						cu.half = n % 2
					}
					exh = append(exh, c03Plan{id: newID(), kind: "exh", ki: pr.ki,
						seed: pr.seed, prefix: L + 1, cut: cu,
						maxSteps: pr.maxSteps, maxAdds: pr.maxAdds})
				}
			}
		}
	}
	t.Run("phase2", func(t *testing.T) {
		for i := range exh {
			pl := exh[i]
			t.Run(fmt.Sprintf("exh_%d", pl.id), func(t *testing.T) {
				t.Parallel()
				finish(c03RunCase(t, pl))
			})
		}
	})

	keys := make([]string, 0, len(stats))
	for k := range stats {
		keys = append(keys, k)
	}
	sort.Strings(keys)
	for _, k := range keys {
		fmt.Fprintf(w, "HSTAT %s=%d\n", k, stats[k])
	}
}

var _ = chanstate.ChanStatusDefault
