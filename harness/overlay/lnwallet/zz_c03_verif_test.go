//go:build verif

package lnwallet

// C03 harness: channel reestablish.  Built on the C01 two-party harness
// (zz_c01_verif_test.go): the same random schedules, plus a `cut kA kB`
// operation at arbitrary points: deliver a prefix of each FIFO queue, drop the
// rest, restart both channels from their real databases, exchange the real
// ChanSyncMsg, run ProcessChanSyncMsg on both sides, queue what they return
// and let the schedule continue (the retransmissions go through the real
// Receive* calls; further cuts may hit the resynchronisation itself).
//
// Extra trace lines (the rest is the C01 format):
//   X drop qa=<n> qb=<m>                       undelivered messages lost
//   R <node> => ok lwr=<0|1> diff=<h|-> ...    restart (+ canonical dump)
//   Y <node> nl=<h> rt=<h> sec=<k|none|bad> pt=<k|bad>   ChanSyncMsg
//   P <node> dlp=<0|1> pend=<0|1> => ok msgs=<tok,..> q=..   ProcessChanSyncMsg (+ dump)

import (
	"bufio"
	"bytes"
	"errors"
	"fmt"
	"math/rand"
	"os"
	"sort"
	"strconv"
	"strings"
	"sync"
	"testing"

	"github.com/lightningnetwork/lnd/chanstate"
	"github.com/lightningnetwork/lnd/input"
	"github.com/lightningnetwork/lnd/lnwallet/chainfee"
	"github.com/lightningnetwork/lnd/lnwire"
	"github.com/lightningnetwork/lnd/shachain"
)

// ---------------------------------------------------------------------------
// reload / sync primitives
// ---------------------------------------------------------------------------

// c03Reload discards the in-memory channel of node x and rebuilds it from the
// node's database (what a restart does).
func c03Reload(p *c01Pair, x int) (res string, extra string) {
	defer c01Recover(&res)
	old := p.Ch[x]
	chans, err := old.channelState.Db.FetchOpenChannels(
		old.channelState.IdentityPub,
	)
	if err != nil {
		return "other:fetch", err.Error()
	}
	if len(chans) != 1 {
		return "other:fetchcount", ""
	}
	st := chans[0]
	ch, err := NewLightningChannel(old.Signer, st, old.sigPool)
	if err != nil {
		return "other:new_" + c01ErrClass(err), ""
	}
	p.Ch[x] = ch

	diff := "-"
	nupd := 0
	if d, err := st.RemoteCommitChainTip(); err == nil && d != nil {
		diff = strconv.FormatUint(d.Commitment.CommitHeight, 10)
		nupd = len(d.LogUpdates)
	}
	ua, _ := st.UnsignedAckedUpdates()
	rul, _ := st.RemoteUnsignedLocalUpdates()
	lwr := 0
	if st.LastWasRevoke {
		lwr = 1
	}
	extra = fmt.Sprintf("lwr=%d diff=%s nupd=%d ua=%d rul=%d lh=%d rh=%d", lwr, diff,
		nupd, len(ua), len(rul), st.LocalCommitment.CommitHeight,
		st.RemoteCommitment.CommitHeight)
	return "ok", extra
}

// c03SecretIndex finds the index of a secret in a revocation producer.
func c03SecretIndex(prod shachain.Producer, secret [32]byte, limit uint64) string {
	var zero [32]byte
	if secret == zero {
		return "none"
	}
	for i := uint64(0); i <= limit; i++ {
		s, err := prod.AtIndex(i)
		if err != nil {
			break
		}
		if bytes.Equal(s[:], secret[:]) {
			return strconv.FormatUint(i, 10)
		}
	}
	return "bad"
}

func c03PointIndex(prod shachain.Producer, msg *lnwire.ChannelReestablish, limit uint64) string {
	if msg.LocalUnrevokedCommitPoint == nil {
		return "absent"
	}
	for i := uint64(0); i <= limit; i++ {
		s, err := prod.AtIndex(i)
		if err != nil {
			break
		}
		if input.ComputeCommitmentPoint(s[:]).IsEqual(msg.LocalUnrevokedCommitPoint) {
			return strconv.FormatUint(i, 10)
		}
	}
	return "bad"
}

func c03SyncErrClass(err error) string {
	if err == nil {
		return "ok"
	}
	var ldl *ErrCommitSyncLocalDataLoss
	switch {
	case errors.Is(err, ErrInvalidLastCommitSecret):
		return "invalidSecret"
	case errors.Is(err, ErrInvalidLocalUnrevokedCommitPoint):
		return "invalidCommitPoint"
	case errors.Is(err, ErrCommitSyncRemoteDataLoss):
		return "remoteDataLoss"
	case errors.Is(err, ErrCannotSyncCommitChains):
		return "cannotSync"
	case errors.As(err, &ldl):
		return "localDataLoss"
	}
	return "signFailed:" + c01ErrClass(err)
}

type c03State struct {
	lastSig [2]*CommitSigs // last commitment_signed produced by each node
}

// c03Convert turns the messages returned by ProcessChanSyncMsg into queue
// entries and canonical tokens.
func (c *c03State) convert(p *c01Pair, x int, msgs []lnwire.Message) ([]c01Msg, []string) {
	var (
		out  []c01Msg
		toks []string
	)
	prod := p.Ch[x].channelState.RevocationProducer
	limit := p.Ch[x].channelState.LocalCommitment.CommitHeight + 4
	for _, m := range msgs {
		switch v := m.(type) {
		case *lnwire.UpdateAddHTLC:
			cp := *v
			out = append(out, c01Msg{kind: "add", add: &cp})
			toks = append(toks, fmt.Sprintf("add:%d:%d:%d:%d", v.ID, uint64(v.Amount),
				v.Expiry, p.hashID[v.PaymentHash]))
		case *lnwire.UpdateFulfillHTLC:
			out = append(out, c01Msg{kind: "settle", idx: v.ID, preimage: v.PaymentPreimage})
			toks = append(toks, fmt.Sprintf("settle:%d", v.ID))
		case *lnwire.UpdateFailHTLC:
			out = append(out, c01Msg{kind: "fail", idx: v.ID})
			toks = append(toks, fmt.Sprintf("fail:%d", v.ID))
		case *lnwire.UpdateFailMalformedHTLC:
			out = append(out, c01Msg{kind: "fail", idx: v.ID})
			toks = append(toks, fmt.Sprintf("malformed:%d", v.ID))
		case *lnwire.UpdateFee:
			out = append(out, c01Msg{kind: "fee", fee: chainfee.SatPerKWeight(v.FeePerKw)})
			toks = append(toks, fmt.Sprintf("fee:%d", v.FeePerKw))
		case *lnwire.CommitSig:
			sigs := &CommitSigs{
				CommitSig: v.CommitSig, HtlcSigs: v.HtlcSigs, PartialSig: v.PartialSig,
			}
			same := 0
			if ls := c.lastSig[x]; ls != nil &&
				bytes.Equal(ls.CommitSig.RawBytes(), v.CommitSig.RawBytes()) &&
				len(ls.HtlcSigs) == len(v.HtlcSigs) {

				same = 1
				for i := range ls.HtlcSigs {
					if !bytes.Equal(ls.HtlcSigs[i].RawBytes(), v.HtlcSigs[i].RawBytes()) {
						same = 0
					}
				}
			}
			c.lastSig[x] = sigs
			out = append(out, c01Msg{kind: "commitsig", sigs: sigs})
			toks = append(toks, fmt.Sprintf("sig:%d:%d", len(v.HtlcSigs), same))
		case *lnwire.RevokeAndAck:
			out = append(out, c01Msg{kind: "revoke", rev: v})
			nk := "bad"
			for i := uint64(0); i <= limit; i++ {
				s, err := prod.AtIndex(i)
				if err != nil {
					break
				}
				if input.ComputeCommitmentPoint(s[:]).IsEqual(v.NextRevocationKey) {
					nk = strconv.FormatUint(i, 10)
				}
			}
			toks = append(toks, fmt.Sprintf("rev:%s:%s",
				c03SecretIndex(prod, v.Revocation, limit), nk))
		default:
			toks = append(toks, "unknown")
		}
	}
	return out, toks
}

// noteSigs remembers the newest commitment_signed still in a queue.
func (c *c03State) noteSigs(p *c01Pair) {
	for x := 0; x < 2; x++ {
		for i := len(p.Q[x]) - 1; i >= 0; i-- {
			if p.Q[x][i].kind == "commitsig" {
				c.lastSig[x] = p.Q[x][i].sigs
				break
			}
		}
	}
}

// ---------------------------------------------------------------------------
// the cut operation
// ---------------------------------------------------------------------------

type c03Cut struct {
	kA, kB int
	dlp    [2]bool // does node x send the data-loss-protect fields
	half   int     // -1: both process the reestablish; 0/1: first only that node does, the connection drops again
	// crash[d]: if the last delivered message of direction d is a
	// commitment_signed, the receiver dies between ReceiveNewCommitment and
	// RevokeCurrentCommitment.  Otherwise every accepted signature is
	// answered at once, as lnd's link does (it never handles another message
	// while it holds an unrevoked commitment).
	crash [2]bool
	kBrel bool // kB is drawn after the A->B prefix has been handled
}

func c03b2i(b bool) int {
	if b {
		return 1
	}
	return 0
}

func (c *c03State) reloadBoth(s *c01Sched) bool {
	s.emit(fmt.Sprintf("X drop qa=%d qb=%d\n", len(s.p.Q[0]), len(s.p.Q[1])))
	s.p.Q[0], s.p.Q[1] = nil, nil
	for x := 0; x < 2; x++ {
		res, extra := c03Reload(s.p, x)
		s.emit(fmt.Sprintf("R %s => %s %s q=0,0\n", string(rune('A'+x)), res, extra))
		s.stats["reload_"+strings.SplitN(res, ":", 2)[0]]++
		if res != "ok" {
			s.dead = true
			return false
		}
		s.dump(x)
	}
	return true
}

func (c *c03State) syncMsgs(s *c01Sched, dlp [2]bool) ([2]*lnwire.ChannelReestablish, bool) {
	var msgs [2]*lnwire.ChannelReestablish
	for x := 0; x < 2; x++ {
		ch := s.p.Ch[x]
		m, err := ch.channelState.ChanSyncMsg()
		if err != nil {
			s.emit(fmt.Sprintf("Y %s => %s\n", string(rune('A'+x)), c01ErrClass(err)))
			s.dead = true
			return msgs, false
		}
		limit := ch.channelState.LocalCommitment.CommitHeight +
			ch.channelState.RemoteCommitment.CommitHeight + 4
		sec := c03SecretIndex(s.p.Ch[1-x].channelState.RevocationProducer,
			m.LastRemoteCommitSecret, limit)
		pt := c03PointIndex(ch.channelState.RevocationProducer, m, limit)
		if !dlp[x] {
			// a peer without option_data_loss_protect
			m.LocalUnrevokedCommitPoint = nil
			pt = "absent"
		}
		s.emit(fmt.Sprintf("Y %s dlp=%d nl=%d rt=%d sec=%s pt=%s\n", string(rune('A'+x)),
			c03b2i(dlp[x]), m.NextLocalCommitHeight, m.RemoteCommitTailHeight, sec, pt))
		msgs[x] = m
	}
	return msgs, true
}

func (c *c03State) process(s *c01Sched, x int, msg *lnwire.ChannelReestablish) (res string) {
	name := string(rune('A' + x))
	ch := s.p.Ch[x]
	pend := c03b2i(ch.commitChains.Remote.hasUnackedCommitment())
	var toks []string
	func() {
		defer c01Recover(&res)
		out, _, _, err := ch.ProcessChanSyncMsg(ctxb, msg)
		res = c03SyncErrClass(err)
		if err == nil {
			var q []c01Msg
			q, toks = c.convert(s.p, x, out)
			s.p.Q[x] = append(s.p.Q[x], q...)
		}
	}()
	list := "-"
	if len(toks) > 0 {
		list = strings.Join(toks, ",")
	}
	s.emit(fmt.Sprintf("P %s pend=%d => %s msgs=%s q=%d,%d\n", name, pend, res, list,
		len(s.p.Q[0]), len(s.p.Q[1])))
	s.dump(x)
	s.stats["sync_"+strings.SplitN(res, ":", 2)[0]]++
	for _, t := range toks {
		s.stats["retx_"+strings.SplitN(t, ":", 2)[0]]++
	}
	if len(toks) == 0 && res == "ok" {
		s.stats["retx_nothing"]++
	}
	if res != "ok" {
		s.dead = true
	}
	return res
}

func (c *c03State) cut(s *c01Sched, cu c03Cut) {
	if s.dead {
		return
	}
	s.stats["cuts"]++
	prefix := func(d, k int) {
		for i := 0; i < k && len(s.p.Q[d]) > 0 && !s.dead; i++ {
			kind := s.p.Q[d][0].kind
			res := s.runDeliver(d)
			last := i == k-1 || len(s.p.Q[d]) == 0
			if kind == "commitsig" && res == "ok" {
				if last && cu.crash[d] {
					s.stats["crash_before_revoke"]++
					continue
				}
				s.runAct(1-d, c01Act{Kind: "revoke"})
			}
		}
	}
	prefix(0, cu.kA)
	if cu.kBrel {
		cu.kB = c.pickK(s.r, len(s.p.Q[1]))
	}
	prefix(1, cu.kB)
	if s.dead {
		return
	}
	if len(s.p.Q[0])+len(s.p.Q[1]) > 0 {
		s.stats["cuts_with_loss"]++
	}
	if !c.reloadBoth(s) {
		return
	}
	if cu.half >= 0 {
		s.stats["half_syncs"]++
		msgs, ok := c.syncMsgs(s, cu.dlp)
		if !ok {
			return
		}
		if c.process(s, cu.half, msgs[1-cu.half]) != "ok" {
			return
		}
		if !c.reloadBoth(s) {
			return
		}
	}
	msgs, ok := c.syncMsgs(s, cu.dlp)
	if !ok {
		return
	}
	order := []int{0, 1}
	if s.r.Intn(2) == 0 {
		order = []int{1, 0}
	}
	for _, x := range order {
		if c.process(s, x, msgs[1-x]) != "ok" {
			return
		}
	}
}

func (c *c03State) pickK(r *rand.Rand, n int) int {
	switch r.Intn(4) {
	case 0:
		return 0
	case 1:
		return n
	default:
		return r.Intn(n + 1)
	}
}

func (c *c03State) randomCut(s *c01Sched) c03Cut {
	r := s.r
	cu := c03Cut{kA: c.pickK(r, len(s.p.Q[0])), kBrel: true, half: -1}
	cu.dlp = [2]bool{r.Intn(5) != 0, r.Intn(5) != 0}
	cu.crash = [2]bool{r.Intn(2) == 0, r.Intn(2) == 0}
	if r.Intn(6) == 0 {
		cu.half = r.Intn(2)
	}
	return cu
}

// drain completes the dance until nothing is in flight, the way lnd's link
// does it: one message at a time, a commitment_signed is answered with the
// revocation before anything else is handled.
func (c *c03State) drain(s *c01Sched, resolve bool) {
	for i := 0; i < 400 && !s.dead; i++ {
		progress := false
		for d := 0; d < 2 && !s.dead; d++ {
			if len(s.p.Q[d]) == 0 {
				continue
			}
			kind := s.p.Q[d][0].kind
			res := s.runDeliver(d)
			progress = true
			if kind == "commitsig" && res == "ok" {
				s.runAct(1-d, c01Act{Kind: "revoke"})
			}
		}
		if s.dead {
			return
		}
		if progress {
			continue
		}
		for x := 0; x < 2; x++ {
			ch := s.p.Ch[x]
			if ch.commitChains.Local.hasUnackedCommitment() {
				s.runAct(x, c01Act{Kind: "revoke"})
				progress = true
			}
		}
		for x := 0; x < 2; x++ {
			ch := s.p.Ch[x]
			if ch.OweCommitment() && !ch.commitChains.Remote.hasUnackedCommitment() {
				if s.runAct(x, c01Act{Kind: "sign"}) == "ok" {
					progress = true
				}
			}
		}
		if !progress && resolve {
			for x := 0; x < 2; x++ {
				for _, idx := range s.settleable(x) {
					s.runAct(x, c01Act{Kind: c01Pick(s.r, "settle", "fail"), Idx: idx})
					progress = true
				}
			}
		}
		if !progress {
			return
		}
	}
	c.noteSigs(s.p)
}

// ---------------------------------------------------------------------------
// cases
// ---------------------------------------------------------------------------

type c03Plan struct {
	id       int
	kind     string // rand | probe | exh
	ki       int    // channel kind
	seed     int64  // schedule seed
	prefix   int    // exh: number of schedule steps before the cut
	cut      c03Cut
	maxSteps int
	maxAdds  int
	cutProb  int // one cut every cutProb steps on average (0: none besides the planned one)
}

type c03Result struct {
	buf    bytes.Buffer
	stats  map[string]int
	qtrace [][2]int // probe: queue lengths after each step
}

func c03RunCase(t *testing.T, pl c03Plan) *c03Result {
	res := &c03Result{stats: map[string]int{}}
	r := rand.New(rand.NewSource(pl.seed))
	kind := c01ChanKinds[pl.ki]
	p := c01GenParams(r, kind)
	pair, err := c01NewPair(t, p, uint32(pl.id%1_000_000))
	if err != nil {
		t.Errorf("pair: %v", err)
		return res
	}
	w := bufio.NewWriterSize(&res.buf, 1<<16)
	s := &c01Sched{r: r, p: pair, w: w, stats: res.stats}
	c := &c03State{}
	w.WriteString(c01CaseHeader(pl.id, pl.kind, p, pair))
	fmt.Fprintf(w, "T tweakless=%d\n", c03b2i(p.ChanType.IsTweakless()))
	s.dump(0)
	s.dump(1)
	// lnd's link revokes as soon as it has accepted a commitment_signed
	eager := true
	steps := 6 + r.Intn(pl.maxSteps)

	stepOnce := func() bool {
		ok := s.step(eager, pl.maxAdds)
		c.noteSigs(pair)
		return ok
	}

	switch pl.kind {
	case "probe":
		for i := 0; i < steps && !s.dead; i++ {
			if !stepOnce() {
				break
			}
			res.qtrace = append(res.qtrace, [2]int{len(pair.Q[0]), len(pair.Q[1])})
		}
		// the uncut run still ends with a reconnection when idle / mid-flight
		c.cut(s, c.randomCut(s))

	case "exh":
		for i := 0; i < pl.prefix && !s.dead; i++ {
			if !stepOnce() {
				break
			}
		}
		if len(pair.Q[0]) < pl.cut.kA || len(pair.Q[1]) < pl.cut.kB {
			res.stats["replay_divergence"]++
		}
		c.cut(s, pl.cut)
		// continue on a fresh random stream: further steps and (nested) cuts
		s.r = rand.New(rand.NewSource(pl.seed*7919 + int64(pl.prefix)*131 +
			int64(pl.cut.kA)*17 + int64(pl.cut.kB)))
		more := 4 + s.r.Intn(14)
		for i := 0; i < more && !s.dead; i++ {
			if s.r.Intn(4) == 0 {
				c.cut(s, c.randomCut(s))
				continue
			}
			if !stepOnce() {
				break
			}
		}

	default: // rand
		for i := 0; i < steps && !s.dead; i++ {
			if pl.cutProb > 0 && r.Intn(pl.cutProb) == 0 {
				c.cut(s, c.randomCut(s))
				// a second drop while the retransmissions are in flight
				for r.Intn(3) == 0 && !s.dead {
					c.cut(s, c.randomCut(s))
				}
				continue
			}
			if !stepOnce() {
				break
			}
			if r.Intn(30) == 0 {
				c.drain(s, false)
			}
		}
	}

	// final: drain, one more reconnection of the quiescent channel, full dance
	c.drain(s, r.Intn(2) == 0)
	if !s.dead && r.Intn(2) == 0 {
		c.cut(s, c03Cut{kA: 0, kB: 0, dlp: [2]bool{true, true}, half: -1})
	}
	c.drain(s, true)
	c.drain(s, false)
	w.WriteString("END\n")
	w.Flush()
	res.stats["cases"]++
	res.stats["kind_"+pl.kind]++
	res.stats["type_"+kind.name]++
	if s.dead {
		res.stats["dead_cases"]++
	}
	return res
}

func TestVerifC03(t *testing.T) {
	out := os.Getenv("VERIF_OUT")
	if out == "" {
		t.Skip("VERIF_OUT not set")
	}
	seed, _ := strconv.ParseInt(os.Getenv("VERIF_SEED"), 10, 64)
	tier := os.Getenv("VERIF_TIER")
	f, err := os.Create(out)
	if err != nil {
		t.Fatal(err)
	}
	defer f.Close()
	w := bufio.NewWriterSize(f, 1<<20)
	defer w.Flush()

	randPerKind, probesPerKind, maxSteps, maxAdds, probeSteps := 14, 2, 40, 6, 16
	if tier == "thorough" {
		randPerKind, probesPerKind, maxSteps, maxAdds, probeSteps = 150, 12, 90, 10, 30
	}
	if v, err := strconv.Atoi(os.Getenv("VERIF_C03_RAND")); err == nil && v >= 0 {
		randPerKind = v
	}
	if v, err := strconv.Atoi(os.Getenv("VERIF_C03_PROBES")); err == nil && v >= 0 {
		probesPerKind = v
	}

	var (
		mu    sync.Mutex
		stats = map[string]int{}
	)
	finish := func(res *c03Result) {
		mu.Lock()
		defer mu.Unlock()
		w.Write(res.buf.Bytes())
		for k, v := range res.stats {
			stats[k] += v
		}
	}

	nextID := 0
	newID := func() int { nextID++; return nextID }

	// phase 1: random schedules with random cuts, and the probes of the
	// exhaustive part
	var (
		plans  []c03Plan
		probes []c03Plan
	)
	for ki := range c01ChanKinds {
		for c := 0; c < randPerKind; c++ {
			plans = append(plans, c03Plan{id: newID(), kind: "rand", ki: ki,
				seed:     seed*1_000_003 + int64(ki)*10_007 + int64(c),
				maxSteps: maxSteps, maxAdds: maxAdds, cutProb: 5 + c%6, cut: c03Cut{half: -1}})
		}
		for c := 0; c < probesPerKind; c++ {
			probes = append(probes, c03Plan{id: newID(), kind: "probe", ki: ki,
				seed:     seed*2_000_003 + int64(ki)*20_011 + int64(c),
				maxSteps: probeSteps, maxAdds: maxAdds})
		}
	}
	probeRes := make([]*c03Result, len(probes))
	t.Run("phase1", func(t *testing.T) {
		for i := range plans {
			pl := plans[i]
			t.Run(fmt.Sprintf("rand_%d", pl.id), func(t *testing.T) {
				t.Parallel()
				finish(c03RunCase(t, pl))
			})
		}
		for i := range probes {
			i := i
			pl := probes[i]
			t.Run(fmt.Sprintf("probe_%d", pl.id), func(t *testing.T) {
				t.Parallel()
				r := c03RunCase(t, pl)
				probeRes[i] = r
				finish(r)
			})
		}
	})

	// phase 2: for every prefix of every probed schedule, every (kA, kB)
	var exh []c03Plan
	for i, pr := range probes {
		if probeRes[i] == nil {
			continue
		}
		for L, q := range probeRes[i].qtrace {
			for kA := 0; kA <= q[0]; kA++ {
				for kB := 0; kB <= q[1]; kB++ {
					n := len(exh)
					cu := c03Cut{kA: kA, kB: kB, half: -1,
						dlp:   [2]bool{n%7 != 3, n%5 != 2},
						crash: [2]bool{n%2 == 0, n%3 == 0}}
					if n%9 == 4 {
						cu.half = n % 2
					}
					exh = append(exh, c03Plan{id: newID(), kind: "exh", ki: pr.ki,
						seed: pr.seed, prefix: L + 1, cut: cu,
						maxSteps: pr.maxSteps, maxAdds: pr.maxAdds})
				}
			}
		}
	}
	t.Run("phase2", func(t *testing.T) {
		for i := range exh {
			pl := exh[i]
			t.Run(fmt.Sprintf("exh_%d", pl.id), func(t *testing.T) {
				t.Parallel()
				finish(c03RunCase(t, pl))
			})
		}
	})

	keys := make([]string, 0, len(stats))
	for k := range stats {
		keys = append(keys, k)
	}
	sort.Strings(keys)
	for _, k := range keys {
		fmt.Fprintf(w, "HSTAT %s=%d\n", k, stats[k])
	}
}

var _ = chanstate.ChanStatusDefault
